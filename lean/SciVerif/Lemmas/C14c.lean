import SciVerif.Lemmas.C14b
import SciVerif.Lemmas.C13c
import SciVerif.Lemmas.C13
/-!
C14 refinement, part 2: one iteration of the main loop of the model corresponds to one occurrence
step of the specification fold (`stepO`), with the parent stack = the ancestor chain and the node
list = the list of specified entries.
-/
namespace SciVerif.C13

/-- what the specification sees of an environment node -/
def toS (e : ENode) : SNode :=
  { name := e.name, ty := e.ty, info := e.info, dims := e.dims, units := e.units, value := e.value,
    frozen := e.constant }

/-- the abstract line of a lexed node (tables are expanded beforehand) -/
def toALine (nd : Node) : ALine Raw :=
  match nd.kind, nd.name, nd.raw with
  | .group, some nm, _ => { indent := nd.indent, name := nm, p := .group }
  | .constant, _, _ => { indent := nd.indent, name := [], p := .const }
  | .mod, some nm, some r => { indent := nd.indent, name := nm, p := .mod nd.units r }
  | .typed t, some nm, r => { indent := nd.indent, name := nm, p := .typed t nd.info nd.dims nd.units r }
  | _, _, _ => { indent := nd.indent, name := [], p := .skip }

/-- nodes as the lexer produces them: no table (expanded before), value-bearing lines have a
    name, modifications have a value -/
def NodeWF (nd : Node) : Prop :=
  nd.kind ≠ .table ∧ (nd.kind = .mod → nd.name.isSome = true ∧ nd.raw.isSome = true) ∧
  (∀ t, nd.kind = .typed t → nd.name.isSome = true)

/-- `modify_value` seen through `toS` -/
def modifyS (P : Params) (nd : Node) (s : SNode) : R SNode :=
  if tyMismatch nd s.ty then .error .fail
  else match nd.raw with
    | none => if s.value.isNone then .error .fail else .error .unsupported
    | some r => assignValue (castInterp P) P.conv s nd.units r

theorem modify_toS (P : Params) (e : ENode) (nd : Node) : (modify P e nd).map toS = modifyS P nd (toS e) := by
  obtain ⟨name, ty, info, dims, units, value, declared, constant⟩ := e
  unfold modify modifyS
  simp only [toS]
  by_cases hm : tyMismatch nd ty = true
  · simp only [hm, if_true]; rfl
  · simp only [hm, Bool.false_eq_true, if_false]
    cases hr : nd.raw with
    | none =>
      simp only
      by_cases hv : value.isNone = true
      · simp only [hv, if_true]; rfl
      · simp only [hv, Bool.false_eq_true, if_false]; rfl
    | some r =>
      cases r with
      | cells j l => simp [assignValue, castInterp, bind, Except.bind, Except.map]
      | text s =>
        simp only [assignValue, castInterp, bind, Except.bind]
        cases P.castText ty dims s with
        | error x => rfl
        | ok v =>
          simp only
          by_cases hv : v = Val.none
          · simp only [hv, if_true]; rfl
          · simp only [hv, if_false, convertVal]
            cases convertG P.conv ty units nd.units v <;> rfl

theorem modify_name (P : Params) (e e' : ENode) (nd : Node) (h : modify P e nd = .ok e') : e'.name = e.name := by
  obtain ⟨v, _, he, _⟩ := modify_ok h
  rw [he]

/-- complete description of the lookup by path -/
theorem updateFirst_char (P : Params) (path : Str) (nd : Node) : ∀ ns : List ENode,
    ((∀ e ∈ ns, e.name ≠ path) ∧ updateFirst P path nd ns = none) ∨
    ∃ pre e post, ns = pre ++ e :: post ∧ e.name = path ∧ (∀ x ∈ pre, x.name ≠ path) ∧
      updateFirst P path nd ns =
        some (if e.constant then .error .fail else (modify P e nd).map (fun e' => pre ++ e' :: post)) := by
  intro ns
  induction ns with
  | nil => exact .inl ⟨by simp, rfl⟩
  | cons a t ih =>
    by_cases h : a.name = path
    · right
      refine ⟨[], a, t, rfl, h, by simp, ?_⟩
      simp only [updateFirst, h, if_true, List.nil_append]
    · rcases ih with ⟨hno, hu⟩ | ⟨pre, e, post, ht, he, hpre, hu⟩
      · left
        refine ⟨?_, by simp [updateFirst, h, hu]⟩
        intro x hx
        rcases List.mem_cons.mp hx with rfl | hx
        · exact h
        · exact hno x hx
      · right
        refine ⟨a :: pre, e, post, by simp [ht], he, ?_, ?_⟩
        · intro x hx
          rcases List.mem_cons.mp hx with rfl | hx
          · exact h
          · exact hpre x hx
        · simp only [updateFirst, h, if_false, hu, Option.map_some]
          by_cases hc : e.constant = true
          · simp [hc, Except.map]
          · simp only [hc, Bool.false_eq_true, if_false]
            cases modify P e nd <;> simp [Except.map]

theorem findS_map_pre (path : Str) (pre : List ENode) (e : ENode) (post : List ENode)
    (he : e.name = path) (hpre : ∀ x ∈ pre, x.name ≠ path) :
    findS path ((pre ++ e :: post).map toS) = some (toS e) := by
  induction pre with
  | nil => simp [findS, toS, he]
  | cons a t ih =>
    have ha : a.name ≠ path := hpre a (by simp)
    have : findS path ((a :: t ++ e :: post).map toS) = findS path ((t ++ e :: post).map toS) := by
      simp [findS, toS, ha]
    rw [this]
    exact ih (fun x hx => hpre x (List.mem_cons_of_mem _ hx))

theorem findS_map_none (path : Str) (ns : List ENode) (h : ∀ e ∈ ns, e.name ≠ path) :
    findS path (ns.map toS) = none := by
  simp only [findS, List.find?_eq_none, List.mem_map]
  intro s ⟨e, he, hs⟩
  rw [← hs]
  simpa [toS] using h e he

theorem replaceS_map_pre (s' : SNode) (pre : List ENode) (e : ENode) (post : List ENode)
    (hs : s'.name = e.name) (hpre : ∀ x ∈ pre, x.name ≠ e.name) :
    replaceS s' ((pre ++ e :: post).map toS) = pre.map toS ++ s' :: post.map toS := by
  induction pre with
  | nil => simp [replaceS, toS, hs]
  | cons a t ih =>
    have ha : a.name ≠ e.name := hpre a (by simp)
    have : ¬ (toS a).name = s'.name := by rw [hs]; exact ha
    simp only [List.cons_append, List.map_cons, replaceS, beq_iff_eq, this, if_false]
    rw [ih (fun x hx => hpre x (List.mem_cons_of_mem _ hx))]

theorem preCheck_unitsOk (P : Params) (nd : Node) (t : Ty) (hk : nd.kind = .typed t) :
    (preCheck P nd = .ok () ∧ unitsOk P.unitKnown (Payload.typed t nd.info nd.dims nd.units nd.raw) = true) ∨
    (preCheck P nd = .error .fail ∧ unitsOk P.unitKnown (Payload.typed t nd.info nd.dims nd.units nd.raw) = false) := by
  unfold preCheck
  rw [hk]
  cases hu : nd.units with
  | none => left; cases t <;> simp [unitsOk]
  | some u =>
    cases t with
    | bool => right; simp [unitsOk]
    | str => right; simp [unitsOk]
    | int =>
      by_cases hkn : P.unitKnown u = true
      · left; simp [unitsOk, hkn]
      · right; simp [unitsOk, hkn]
    | float =>
      by_cases hkn : P.unitKnown u = true
      · left; simp [unitsOk, hkn]
      · right; simp [unitsOk, hkn]

theorem preCheck_mod (P : Params) (nd : Node) (hk : nd.kind = .mod) : preCheck P nd = .ok () := by
  unfold preCheck
  rw [hk]

theorem pathOf_push_stackAfter (earlier : List (Nat × Str)) (d : Nat) (nm : Str) :
    pathOf (push (stackAfter earlier) d nm) = specPath earlier d nm := by
  rw [push_stackAfter]
  simp [stackAfter, pathOf, specPath]

theorem setLastConstant_concat (ns : List ENode) (e : ENode) :
    setLastConstant (ns ++ [e]) = .ok (ns ++ [{ e with constant := true }]) := by
  induction ns with
  | nil => rfl
  | cons a t ih =>
    cases t with
    | nil => simp [setLastConstant, Except.map]
    | cons b t2 =>
      simp only [List.cons_append] at ih ⊢
      simp [setLastConstant, ih, Except.map]


/-! ### one iteration = one occurrence step -/

def enames (st : State) : List Str := st.nodes.map (·.name)

def Inv (st : State) (earlier : List (Nat × Str)) : Prop :=
  st.stack = stackAfter earlier ∧ (enames st).Nodup

abbrev specFold (P : Params) := foldO (castInterp P) P.conv P.unitKnown

/-- outcome of the step lemma: both sides continue in related states, or both fail -/
def StepSim (P : Params) (st : State) (earlier : List (Nat × Str)) (nd : Node) : Prop :=
  (∃ st' earlier', stepPlain P st nd = .ok st' ∧ Inv st' earlier' ∧
      ∀ rest, specFold P (st.nodes.map toS) (occurrences earlier (enames st) (toALine nd :: rest)) =
        specFold P (st'.nodes.map toS) (occurrences earlier' (enames st') rest)) ∨
  ((∃ e, stepPlain P st nd = .error e) ∧
      ∀ rest, ∃ e2, specFold P (st.nodes.map toS) (occurrences earlier (enames st) (toALine nd :: rest)) = .error e2)

theorem snames_map_toS (ns : List ENode) : snames (ns.map toS) = ns.map (·.name) := by
  simp [snames, toS, Function.comp_def]

theorem stepSim_skip (P : Params) (st : State) (earlier : List (Nat × Str)) (nd : Node) (hinv : Inv st earlier)
    (hs : stepPlain P st nd = .ok st) (hl : (toALine nd).p = .skip) : StepSim P st earlier nd := by
  refine .inl ⟨st, earlier, hs, hinv, ?_⟩
  intro rest
  simp [occurrences, hl]

theorem stepSim_value (P : Params) (st : State) (earlier : List (Nat × Str)) (nd : Node) (nm : Str)
    (pl : Payload Raw) (hinv : Inv st earlier) (hn : nd.name = some nm)
    (hl : toALine nd = { indent := nd.indent, name := nm, p := pl })
    (hvb : (match pl with | .typed .. => true | .mod .. => true | _ => false) = true)
    (hstep : ∀ path, path = pathOf (push st.stack nd.indent nm) →
      ResEq ((stepPlain P st nd).map (fun s => s.nodes.map toS)) (stepO (castInterp P) P.conv P.unitKnown (st.nodes.map toS) (some path, pl)) ∧
      ∀ st', stepPlain P st nd = .ok st' → st'.stack = push st.stack nd.indent nm ∧
        enames st' = (if (enames st).contains path then enames st else enames st ++ [path]) ∧ (enames st').Nodup) :
    StepSim P st earlier nd := by
  obtain ⟨hstack, hnd⟩ := hinv
  have hpath : pathOf (push st.stack nd.indent nm) = specPath earlier nd.indent nm := by
    rw [hstack]; exact pathOf_push_stackAfter earlier nd.indent nm
  obtain ⟨hres, hst'⟩ := hstep _ rfl
  have hocc : ∀ rest, occurrences earlier (enames st) (toALine nd :: rest) =
      (some (specPath earlier nd.indent nm), pl) :: occurrences ((nd.indent, nm) :: earlier)
        (if (enames st).contains (specPath earlier nd.indent nm) then enames st
         else enames st ++ [specPath earlier nd.indent nm]) rest := by
    intro rest
    rw [hl]
    cases pl with
    | typed ty info dims u v => simp [occurrences]
    | mod u v => simp [occurrences]
    | skip => simp at hvb
    | group => simp at hvb
    | const => simp at hvb
  rw [hpath] at hres hst'
  rcases hres with ⟨x, h1, h2⟩ | ⟨e1, e2, h1, h2⟩
  · cases hs : stepPlain P st nd with
    | error e => rw [hs] at h1; cases h1
    | ok st' =>
      rw [hs] at h1
      simp only [Except.map, Except.ok.injEq] at h1
      obtain ⟨hk1, hk2, hk3⟩ := hst' st' hs
      refine .inl ⟨st', (nd.indent, nm) :: earlier, hs, ⟨by rw [hk1, hstack, push_stackAfter], hk3⟩, ?_⟩
      intro rest
      rw [hocc rest]
      show foldO _ _ _ _ (_ :: _) = _
      rw [foldO_cons, h2, hk2, h1]
      rfl
  · cases hs : stepPlain P st nd with
    | ok st' => rw [hs] at h1; cases h1
    | error e =>
      refine .inr ⟨⟨e, hs⟩, ?_⟩
      intro rest
      rw [hocc rest]
      show ∃ e2, foldO _ _ _ _ (_ :: _) = _
      rw [foldO_cons, h2]
      exact ⟨e2, rfl⟩


/-! ### canonical forms of one iteration -/

def newE (path : Str) (t : Ty) (nd : Node) (v : Option Val) : ENode :=
  { name := path, ty := t, info := nd.info, dims := nd.dims, units := nd.units, value := v, declared := nd.declared }

theorem stepPlain_mod (P : Params) (st : State) (nd : Node) (nm : Str) (hk : nd.kind = .mod) (hn : nd.name = some nm) :
    stepPlain P st nd =
      match updateFirst P (pathOf (push st.stack nd.indent nm)) nd st.nodes with
      | some r => r.map (fun ns => { stack := push st.stack nd.indent nm, nodes := ns })
      | none => .error .fail := by
  unfold stepPlain
  simp only [hk, hn, preCheck_mod P nd hk, bind, Except.bind, pure, Except.pure]
  cases updateFirst P (pathOf (push st.stack nd.indent nm)) nd st.nodes with
  | none => rfl
  | some r => cases r <;> rfl

theorem stepPlain_typed (P : Params) (st : State) (nd : Node) (nm : Str) (t : Ty) (hk : nd.kind = .typed t)
    (hn : nd.name = some nm) :
    stepPlain P st nd =
      (preCheck P nd).bind (fun _ =>
        match updateFirst P (pathOf (push st.stack nd.indent nm)) nd st.nodes with
        | some r => (initValue P t nd.dims nd.raw).bind (fun _ =>
            r.map (fun ns => { stack := push st.stack nd.indent nm, nodes := ns }))
        | none => (initValue P t nd.dims nd.raw).map (fun v =>
            { stack := push st.stack nd.indent nm,
              nodes := st.nodes ++ [newE (pathOf (push st.stack nd.indent nm)) t nd v] })) := by
  unfold stepPlain
  simp only [hk, hn, bind, Except.bind]
  cases preCheck P nd with
  | error e => rfl
  | ok u =>
    simp only
    cases updateFirst P (pathOf (push st.stack nd.indent nm)) nd st.nodes with
    | none => simp only; cases initValue P t nd.dims nd.raw <;> rfl
    | some r =>
      simp only
      cases initValue P t nd.dims nd.raw with
      | error e => rfl
      | ok v => cases r <;> rfl

theorem nodup_append_new (l : List Str) (p : Str) (hl : l.Nodup) (hp : p ∉ l) : (l ++ [p]).Nodup := by
  refine List.nodup_append.mpr ⟨hl, by simp, ?_⟩
  intro a ha b hb
  simp only [List.mem_singleton] at hb
  subst hb
  intro e; subst e; exact hp ha

theorem contains_iff (l : List Str) (p : Str) : l.contains p = true ↔ p ∈ l := by simp

/-- modification line -/
theorem stepSim_mod (P : Params) (st : State) (earlier : List (Nat × Str)) (nd : Node) (nm : Str) (r : Raw)
    (hinv : Inv st earlier) (hk : nd.kind = .mod) (hn : nd.name = some nm) (hr : nd.raw = some r) :
    StepSim P st earlier nd := by
  have hl : toALine nd = { indent := nd.indent, name := nm, p := .mod nd.units r } := by
    simp [toALine, hk, hn, hr]
  apply stepSim_value P st earlier nd nm (.mod nd.units r) hinv hn hl rfl
  intro path hpath
  subst hpath
  rw [stepPlain_mod P st nd nm hk hn]
  rcases updateFirst_char P (pathOf (push st.stack nd.indent nm)) nd st.nodes with ⟨hno, hu⟩ | ⟨pre, e, post, hns, he, hpre, hu⟩
  · -- undefined path
    rw [hu]
    constructor
    · refine .inr ⟨.fail, .fail, rfl, ?_⟩
      rw [stepO_new _ _ _ _ _ _ (findS_map_none _ _ hno)]
      rfl
    · intro st' h; cases h
  · rw [hu]
    have hfind := findS_map_pre _ pre e post he hpre
    rw [← hns] at hfind
    have htm : tyMismatch nd e.ty = false := by simp [tyMismatch, hk, kindTy]
    constructor
    · rw [stepO_found _ _ _ _ _ _ _ hfind]
      simp only [assignTo]
      have hfz : (toS e).frozen = e.constant := rfl
      rw [hfz]
      by_cases hc : e.constant = true
      · simp only [hc, if_true]
        exact .inr ⟨.fail, .fail, rfl, rfl⟩
      · simp only [hc, Bool.false_eq_true, if_false]
        have hms := modify_toS P e nd
        have hty : (toS e).ty = e.ty := rfl
        simp only [modifyS, hty, htm, Bool.false_eq_true, if_false, hr] at hms
        rw [← hms]
        cases hm : modify P e nd with
        | error x => exact .inr ⟨x, x, rfl, rfl⟩
        | ok e' =>
          refine .inl ⟨_, rfl, ?_⟩
          simp only [Except.map]
          rw [hns, replaceS_map_pre (toS e') pre e post (by simp [toS, modify_name P e e' nd hm]) (by rw [he]; exact hpre)]
          simp
    · intro st' h
      by_cases hc : e.constant = true
      · simp [hc, Except.map] at h
      · simp only [hc, Bool.false_eq_true, if_false] at h
        cases hm : modify P e nd with
        | error x => rw [hm] at h; simp [Except.map] at h
        | ok e' =>
          rw [hm] at h
          simp only [Except.map, Except.ok.injEq] at h
          subst h
          have hname : e'.name = e.name := modify_name P e e' nd hm
          have hen : enames { stack := push st.stack nd.indent nm, nodes := pre ++ e' :: post } = enames st := by
            simp [enames, hns, hname]
          refine ⟨rfl, ?_, by rw [hen]; exact hinv.2⟩
          rw [hen]
          have hmem : pathOf (push st.stack nd.indent nm) ∈ enames st := by simp [enames, hns, he]
          have : (enames st).contains (pathOf (push st.stack nd.indent nm)) = true := (contains_iff _ _).mpr hmem
          rw [if_pos this]


theorem tyMismatch_typed (nd : Node) (t ty : Ty) (hk : nd.kind = .typed t) : tyMismatch nd ty = (t != ty) := by
  simp [tyMismatch, hk, kindTy]

/-- typed line: definition, declaration or typed modification -/
theorem stepSim_typed (P : Params) (st : State) (earlier : List (Nat × Str)) (nd : Node) (nm : Str) (t : Ty)
    (hinv : Inv st earlier) (hk : nd.kind = .typed t) (hn : nd.name = some nm) :
    StepSim P st earlier nd := by
  have hl : toALine nd = { indent := nd.indent, name := nm, p := .typed t nd.info nd.dims nd.units nd.raw } := by
    simp [toALine, hk, hn]
  apply stepSim_value P st earlier nd nm (.typed t nd.info nd.dims nd.units nd.raw) hinv hn hl rfl
  intro path hpath
  subst hpath
  rw [stepPlain_typed P st nd nm t hk hn]
  have hinitI : ∀ r, (castInterp P).init t nd.dims r = initValue P t nd.dims (some r) := fun r => rfl
  rcases preCheck_unitsOk P nd t hk with ⟨hpc, huo⟩ | ⟨hpc, huo⟩
  rotate_left
  · -- a unit the type does not take, or an unknown unit
    rw [hpc]
    constructor
    · refine .inr ⟨.fail, .fail, rfl, ?_⟩
      cases hf : findS (pathOf (push st.stack nd.indent nm)) (st.nodes.map toS) with
      | none => rw [stepO_new _ _ _ _ _ _ hf]; simp [firstOf, huo, Except.map]
      | some s => rw [stepO_found _ _ _ _ _ _ _ hf]; simp [assignTo, huo, Except.map]
    · intro st' h; cases h
  · rw [hpc]
    simp only [Except.bind]
    rcases updateFirst_char P (pathOf (push st.stack nd.indent nm)) nd st.nodes with ⟨hno, hu⟩ | ⟨pre, e, post, hns, he, hpre, hu⟩
    · -- first occurrence
      rw [hu]
      simp only
      have hf := findS_map_none _ _ hno
      have hnotin : pathOf (push st.stack nd.indent nm) ∉ enames st := by
        intro hm
        obtain ⟨x, hx, hxn⟩ := List.mem_map.mp hm
        exact hno x hx hxn
      constructor
      · rw [stepO_new _ _ _ _ _ _ hf]
        simp only [firstOf, huo, Bool.not_true, Bool.false_eq_true, if_false]
        cases hr : nd.raw with
        | none =>
          refine .inl ⟨_, rfl, ?_⟩
          simp [initValue, Except.map, newE, toS, hr]
        | some r =>
          simp only [hinitI, bind, Except.bind]
          cases hi : initValue P t nd.dims (some r) with
          | error x => exact .inr ⟨x, x, rfl, rfl⟩
          | ok w =>
            refine .inl ⟨_, rfl, ?_⟩
            simp [Except.map, newE, toS]
      · intro st' h
        cases hi : initValue P t nd.dims nd.raw with
        | error x => rw [hi] at h; cases h
        | ok w =>
          rw [hi] at h
          simp only [Except.map, Except.ok.injEq] at h
          subst h
          have hc : (enames st).contains (pathOf (push st.stack nd.indent nm)) = false := by
            cases hcc : (enames st).contains (pathOf (push st.stack nd.indent nm)) with
            | false => rfl
            | true => exact absurd ((contains_iff _ _).mp hcc) hnotin
          refine ⟨rfl, ?_, ?_⟩
          · rw [hc]; simp [enames, newE]
          · have : (st.nodes ++ [newE (pathOf (push st.stack nd.indent nm)) t nd w]).map (·.name) =
                enames st ++ [pathOf (push st.stack nd.indent nm)] := by simp [enames, newE]
            show ((st.nodes ++ [newE (pathOf (push st.stack nd.indent nm)) t nd w]).map (·.name)).Nodup
            rw [this]
            exact nodup_append_new _ _ hinv.2 hnotin
    · -- the path exists: typed modification
      rw [hu]
      simp only
      have hfind := findS_map_pre _ pre e post he hpre
      rw [← hns] at hfind
      have htm : tyMismatch nd e.ty = (t != e.ty) := tyMismatch_typed nd t e.ty hk
      have hfz : (toS e).frozen = e.constant := rfl
      have hty : (toS e).ty = e.ty := rfl
      constructor
      · rw [stepO_found _ _ _ _ _ _ _ hfind]
        simp only [assignTo, huo, Bool.not_true, Bool.false_eq_true, if_false, hfz, hty]
        cases hi : initValue P t nd.dims nd.raw with
        | error x =>
          -- the line's own value does not fit its own type / shape
          refine .inr ⟨x, ?_⟩
          cases hr : nd.raw with
          | none => rw [hr] at hi; cases hi
          | some r =>
            rw [hr] at hi
            by_cases hc : e.constant = true
            · exact ⟨.fail, rfl, by simp [hc, Except.map]⟩
            · by_cases hne : (t != e.ty) = true
              · exact ⟨.fail, rfl, by simp [hc, hne, Except.map]⟩
              · exact ⟨x, rfl, by simp [hc, hne, hinitI, hi, bind, Except.bind, Except.map]⟩
        | ok w =>
          simp only [Except.bind]
          by_cases hc : e.constant = true
          · simp only [hc, if_true]
            exact .inr ⟨.fail, .fail, rfl, rfl⟩
          · simp only [hc, Bool.false_eq_true, if_false]
            by_cases hne : (t != e.ty) = true
            · have hm : modify P e nd = .error .fail := by simp [modify, htm, hne]
              simp only [hm, hne, if_true]
              exact .inr ⟨.fail, .fail, rfl, rfl⟩
            · simp only [hne, Bool.false_eq_true, if_false]
              have hms := modify_toS P e nd
              simp only [modifyS, hty, htm, hne, Bool.false_eq_true, if_false] at hms
              cases hr : nd.raw with
              | none =>
                rw [hr] at hms
                simp only at hms
                cases hm : modify P e nd with
                | ok e' =>
                  rw [hm] at hms
                  by_cases hv : (toS e).value.isNone = true <;> simp [hv, Except.map] at hms
                | error x => exact .inr ⟨x, .fail, rfl, rfl⟩
              | some r =>
                rw [hr] at hms hi
                simp only at hms
                simp only [hinitI, hi, bind, Except.bind]
                rw [← hms]
                cases hm : modify P e nd with
                | error x => exact .inr ⟨x, x, rfl, rfl⟩
                | ok e' =>
                  refine .inl ⟨_, rfl, ?_⟩
                  simp only [Except.map]
                  rw [hns, replaceS_map_pre (toS e') pre e post (by simp [toS, modify_name P e e' nd hm]) (by rw [he]; exact hpre)]
                  simp
      · intro st' h
        cases hi : initValue P t nd.dims nd.raw with
        | error x => rw [hi] at h; cases h
        | ok w =>
          rw [hi] at h
          simp only [Except.bind] at h
          by_cases hc : e.constant = true
          · simp [hc, Except.map] at h
          · simp only [hc, Bool.false_eq_true, if_false] at h
            cases hm : modify P e nd with
            | error x => rw [hm] at h; simp [Except.map] at h
            | ok e' =>
              rw [hm] at h
              simp only [Except.map, Except.ok.injEq] at h
              subst h
              have hname : e'.name = e.name := modify_name P e e' nd hm
              have hen : enames { stack := push st.stack nd.indent nm, nodes := pre ++ e' :: post } = enames st := by
                simp [enames, hns, hname]
              refine ⟨rfl, ?_, by rw [hen]; exact hinv.2⟩
              rw [hen]
              have hmem : pathOf (push st.stack nd.indent nm) ∈ enames st := by simp [enames, hns, he]
              have : (enames st).contains (pathOf (push st.stack nd.indent nm)) = true := (contains_iff _ _).mpr hmem
              rw [if_pos this]


/-! ### the other kinds of lines -/

theorem stepSim_group (P : Params) (st : State) (earlier : List (Nat × Str)) (nd : Node) (nm : Str)
    (hinv : Inv st earlier) (hk : nd.kind = .group) (hn : nd.name = some nm) : StepSim P st earlier nd := by
  refine .inl ⟨{ st with stack := push st.stack nd.indent nm }, (nd.indent, nm) :: earlier, ?_, ?_, ?_⟩
  · simp [stepPlain, hk, hn]
  · exact ⟨by simp only [hinv.1, push_stackAfter], hinv.2⟩
  · intro rest
    have hl : toALine nd = { indent := nd.indent, name := nm, p := .group } := by simp [toALine, hk, hn]
    rw [hl]
    simp [occurrences, enames]

theorem stepSim_constant (P : Params) (st : State) (earlier : List (Nat × Str)) (nd : Node)
    (hinv : Inv st earlier) (hk : nd.kind = .constant) : StepSim P st earlier nd := by
  have hl : toALine nd = { indent := nd.indent, name := [], p := .const } := by simp [toALine, hk]
  have hocc : ∀ rest, occurrences earlier (enames st) (toALine nd :: rest) =
      ((enames st).getLast?, .const) :: occurrences earlier (enames st) rest := by
    intro rest; rw [hl]; simp [occurrences]
  rcases List.eq_nil_or_concat st.nodes with hnil | ⟨pre, e, hcat⟩
  · right
    refine ⟨⟨.fail, by simp [stepPlain, hk, hnil, setLastConstant, Except.map]⟩, ?_⟩
    intro rest
    rw [hocc rest]
    show ∃ e2, foldO _ _ _ _ (_ :: _) = _
    rw [foldO_cons]
    simp [enames, hnil, stepO, Except.bind]
  · left
    have hcat' : st.nodes = pre ++ [e] := by simpa using hcat
    have hpre : ∀ x ∈ pre, x.name ≠ e.name := by
      have hn := hinv.2
      simp only [enames, hcat', List.map_append, List.map_cons, List.map_nil] at hn
      have := (List.nodup_append.mp hn).2.2
      intro x hx heq
      exact this x.name (List.mem_map.mpr ⟨x, hx, rfl⟩) e.name (by simp) heq
    refine ⟨{ st with nodes := pre ++ [{ e with constant := true }] }, earlier, ?_, ?_, ?_⟩
    · simp [stepPlain, hk, hcat', setLastConstant_concat, Except.map]
    · refine ⟨hinv.1, ?_⟩
      have : enames { st with nodes := pre ++ [{ e with constant := true }] } = enames st := by
        simp [enames, hcat']
      rw [this]; exact hinv.2
    · intro rest
      rw [hocc rest]
      show foldO _ _ _ _ (_ :: _) = _
      rw [foldO_cons]
      have hlast : (enames st).getLast? = some e.name := by simp [enames, hcat']
      have hfind : findS e.name (st.nodes.map toS) = some (toS e) := by
        rw [hcat']; exact findS_map_pre e.name pre e [] rfl hpre
      rw [hlast, stepO_found _ _ _ _ _ _ _ hfind]
      simp only [assignTo, Except.map, Except.bind]
      have hrep : replaceS { toS e with frozen := true } (st.nodes.map toS) =
          pre.map toS ++ [toS { e with constant := true }] := by
        rw [hcat', replaceS_map_pre _ pre e [] rfl hpre]
        simp [toS]
      rw [hrep]
      have hen : enames { st with nodes := pre ++ [{ e with constant := true }] } = enames st := by
        simp [enames, hcat']
      rw [hen]
      simp

theorem stepSim_all (P : Params) (st : State) (earlier : List (Nat × Str)) (nd : Node)
    (hwf : NodeWF nd) (hinv : Inv st earlier) : StepSim P st earlier nd := by
  obtain ⟨hnt, hmod, htyp⟩ := hwf
  cases hk : nd.kind with
  | empty => exact stepSim_skip P st earlier nd hinv (by simp [stepPlain, hk]) (by simp [toALine, hk])
  | unit => exact stepSim_skip P st earlier nd hinv (by simp [stepPlain, hk]) (by simp [toALine, hk])
  | table => exact absurd hk hnt
  | constant => exact stepSim_constant P st earlier nd hinv hk
  | group =>
    cases hn : nd.name with
    | none => exact stepSim_skip P st earlier nd hinv (by simp [stepPlain, hk, hn]) (by simp [toALine, hk, hn])
    | some nm => exact stepSim_group P st earlier nd nm hinv hk hn
  | mod =>
    obtain ⟨h1, h2⟩ := hmod hk
    cases hn : nd.name with
    | none => rw [hn] at h1; cases h1
    | some nm =>
      cases hr : nd.raw with
      | none => rw [hr] at h2; cases h2
      | some r => exact stepSim_mod P st earlier nd nm r hinv hk hn hr
  | typed t =>
    have h1 := htyp t hk
    cases hn : nd.name with
    | none => rw [hn] at h1; cases h1
    | some nm => exact stepSim_typed P st earlier nd nm t hinv hk hn

/-- the whole loop on plain nodes corresponds to the fold over the occurrences -/
theorem foldSteps_sim (P : Params) : ∀ (nds : List Node) (st : State) (earlier : List (Nat × Str)),
    (∀ nd ∈ nds, NodeWF nd) → Inv st earlier →
    ResEq ((foldSteps P st nds).map (fun s => s.nodes.map toS))
      (specFold P (st.nodes.map toS) (occurrences earlier (enames st) (nds.map toALine))) := by
  intro nds
  induction nds with
  | nil => intro st earlier _ _; exact .inl ⟨_, rfl, rfl⟩
  | cons nd t ih =>
    intro st earlier hwf hinv
    rcases stepSim_all P st earlier nd (hwf nd (by simp)) hinv with ⟨st', earlier', hs, hinv', heq⟩ | ⟨⟨e, hs⟩, herr⟩
    · simp only [foldSteps, hs, bind, Except.bind, List.map_cons]
      rw [heq (t.map toALine)]
      exact ih st' earlier' (fun x hx => hwf x (List.mem_cons_of_mem _ hx)) hinv'
    · obtain ⟨e2, h2⟩ := herr (t.map toALine)
      simp only [foldSteps, hs, bind, Except.bind, List.map_cons, Except.map]
      exact .inr ⟨e, e2, rfl, h2⟩


theorem runNodes_plain (P : Params) : ∀ (nds : List Node) (st : State), (∀ nd ∈ nds, nd.kind ≠ .table) →
    runNodes P st nds = foldSteps P st nds := by
  intro nds
  induction nds with
  | nil => intro _ _; rfl
  | cons nd t ih =>
    intro st h
    have hk : ¬ nd.kind = .table := h nd (by simp)
    simp only [runNodes, foldSteps, step, hk, if_false, bind, Except.bind]
    cases stepPlain P st nd with
    | error e => rfl
    | ok st' => exact ih st' (fun x hx => h x (List.mem_cons_of_mem _ hx))

/-- the final test of the specification on a list of entries -/
def checkS (ns : List SNode) : R (List SNode) :=
  if ns.any (fun s => s.value.isNone) then .error .fail else .ok ns

theorem validate_toS (ns : List ENode) : (validate ns).map (List.map toS) = checkS (ns.map toS) := by
  simp only [validate, checkS, List.any_map]
  have : (fun e : ENode => e.value.isNone) = ((fun s : SNode => s.value.isNone) ∘ toS) := rfl
  rw [this]
  split <;> rfl


end SciVerif.C13
