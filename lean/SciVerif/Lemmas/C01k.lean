import SciVerif.Lemmas.C01j

/-!
# C01 helper lemmas, part 11 (character level): `solve` on every text of a well-formed expression.
-/
namespace SciVerif.C01
open SciVerif.C01.Gen

variable {A : Type} (alg : AtomAlg A) (lit : List Char → A)

/-- one nesting level: if the nested solver evaluates the arguments of the calls, `solve`
    evaluates the expression -/
theorem solve_of_args (hn : NegNeg alg) (n : Nat) (e : E) (hwf : e.WF) (hl : LitOK alg lit e)
    (ha : ArgsOK alg lit (nestedSolve alg n) e) (u : List Char) (k : Nat) (hu : Pre (lexemes e) u) :
    solveFromF dflt alg dfltSteps (n + 1) ⟨[], []⟩ (u ++ blanks k)
      = (⟨[], []⟩, .ok (.atom (eval alg lit e))) :=
  solveFromF_of_tokens alg n _ _ _
    (tokLoop_text alg lit (nestedSolve alg n) e hl ha u k _ hu (by simp [blanks_length]))
    (tokens_eq_eval alg lit hn e hwf)

/-- all nesting levels -/
theorem args_of_depth (hn : NegNeg alg) (e : E) (hwf : e.WF) (hl : LitOK alg lit e) :
    ∀ n, cdepth e ≤ n → ArgsOK alg lit (nestedSolve alg n) e := by
  induction e with
  | num t => intro n _; trivial
  | fn1 f a ih =>
    intro n hd
    simp only [cdepth] at hd
    obtain ⟨m, rfl⟩ : ∃ m, n = m + 1 := ⟨n - 1, by omega⟩
    refine ⟨hl, fun v j st hv => ?_⟩
    have hs := strip_text j hv (lexemes_ne_nil a) (lexemes_good alg lit a hl)
    have := solve_of_args alg lit hn m a hwf hl (ih hwf hl m (by omega)) _ 0 hs
    simp only [blanks, List.replicate_zero, List.append_nil] at this
    simp [nestedSolve, resetBufs, blanks, this]
  | fn2 g a b iha ihb =>
    intro n hd
    simp only [cdepth] at hd
    obtain ⟨m, rfl⟩ : ∃ m, n = m + 1 := ⟨n - 1, by omega⟩
    refine ⟨⟨hl.1, fun v j st hv => ?_⟩, ⟨hl.2, fun v j st hv => ?_⟩⟩
    · have hs := strip_text j hv (lexemes_ne_nil a) (lexemes_good alg lit a hl.1)
      have := solve_of_args alg lit hn m a hwf.1 hl.1 (iha hwf.1 hl.1 m (by omega)) _ 0 hs
      simp only [blanks, List.replicate_zero, List.append_nil] at this
      simp [nestedSolve, resetBufs, blanks, this]
    · have hs := strip_text j hv (lexemes_ne_nil b) (lexemes_good alg lit b hl.2)
      have := solve_of_args alg lit hn m b hwf.2 hl.2 (ihb hwf.2 hl.2 m (by omega)) _ 0 hs
      simp only [blanks, List.replicate_zero, List.append_nil] at this
      simp [nestedSolve, resetBufs, blanks, this]
  | sign s e ih => intro n hd; exact ih hwf.1 hl n (by simpa [cdepth] using hd)
  | bin o l r ihl ihr =>
    intro n hd
    simp only [cdepth] at hd
    exact ⟨ihl hwf.1 hl.1 n (by omega), ihr hwf.2.1 hl.2 n (by omega)⟩
  | not e ih => intro n hd; exact ih hwf.1 hl n (by simpa [cdepth] using hd)

/-- `solve` on any text of the expression: its lexemes with arbitrary blanks before each of
    them and after the last -/
theorem solve_text (hn : NegNeg alg) (e : E) (hwf : e.WF) (hl : LitOK alg lit e)
    (u : List Char) (k : Nat) (hu : Pre (lexemes e) u) :
    solve dflt alg dfltSteps (u ++ blanks k) = .ok (.atom (eval alg lit e)) := by
  have h1 := cdepth_le_lexemes e
  have h2 := Pre.length_le hu (fun x hx => (lexemes_good alg lit e hl x hx).1)
  have hd : cdepth e ≤ (u ++ blanks k).length := by simp; omega
  have := solve_of_args alg lit hn (u ++ blanks k).length e hwf hl
    (args_of_depth alg lit hn e hwf hl _ hd) u k hu
  unfold solve solveI solveFrom resetBufs
  rw [this]

end SciVerif.C01
