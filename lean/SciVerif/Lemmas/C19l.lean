import SciVerif.Lemmas.C19k
/-!
# C19 — Fortran values: the flat element list, its tokens, and the checks of the reader
-/
namespace SciVerif.C19

/-! ## the flat, comma separated element list -/

theorem printToks_append (o c : Char) : ∀ (a b : List TokTree), a ≠ [] → b ≠ [] →
    printToks o c (a ++ b) = printToks o c a ++ ([',', ' '] ++ printToks o c b)
  | [], _, h, _ => absurd rfl h
  | [t], u :: b, _, _ => by simp [printToks]
  | [_], [], _, h => absurd rfl h
  | t :: u :: a, b, _, hb => by
    have ih := printToks_append o c (u :: a) b (by simp) hb
    simp only [List.cons_append] at ih ⊢
    simp only [printToks, ih, List.append_assoc]

/-- a rectangular value without empty levels has at least one element -/
theorem flatten_ne_nil {α : Type} (v : Tree α) (sh : List Nat) (h : rectShape v = some sh) (h0 : 0 ∉ sh) :
    flatten v ≠ [] := by
  have hl := length_flatten v sh h
  have hp : 0 < prod sh := by
    clear h hl
    induction sh with
    | nil => simp [prod]
    | cons d ds ih =>
      have hd : d ≠ 0 := fun e => h0 (by simp [e])
      have := ih (fun hm => h0 (by simp [hm]))
      simp only [prod]
      exact Nat.mul_pos (Nat.pos_of_ne_zero hd) this
  intro e
  rw [e] at hl
  simp at hl
  omega

theorem flattenList_tokTrees_ne_nil (st : Style) (vs : List Val) (sh : List Nat) (hne : vs ≠ [])
    (hall : ∀ t ∈ vs, rectShape t = some sh) (h0 : 0 ∉ sh) : flattenList (tokTrees st vs) ≠ [] := by
  cases vs with
  | nil => exact absurd rfl hne
  | cons v vs =>
    have := flatten_ne_nil (tokTree st v) sh (by rw [rectShape_tokTree]; exact hall v (by simp)) h0
    simp [tokTrees, flattenList_cons, this]

mutual
/-- Fortran's `_parse_array` joins the texts of the sub-arrays again: the result is the flat list -/
theorem flat_val : (v : Val) → ∀ sh, rectShape v = some sh → 0 ∉ sh →
    printVal styleFortran v = printToks '[' ']' ((flatten (tokTree styleFortran v)).map Tree.leaf)
  | .leaf s, _, _, _ => by simp [printVal, tokTree, flatten, printToks, printTok]
  | .arr vs, sh, h, h0 => by
    rcases rectShape_arr vs sh h with ⟨_, rfl⟩ | ⟨s, rfl, _, hall⟩
    · simp at h0
    · have h0' : 0 ∉ s := fun hm => h0 (by simp [hm])
      simp only [printVal, styleFortran, List.nil_append, List.append_nil, tokTree, flatten]
      exact flat_vals vs s hall h0'
theorem flat_vals : (vs : List Val) → ∀ s, (∀ t ∈ vs, rectShape t = some s) → 0 ∉ s →
    printVals styleFortran vs = printToks '[' ']' ((flattenList (tokTrees styleFortran vs)).map Tree.leaf)
  | [], _, _, _ => by simp [printVals, tokTrees, flattenList, printToks]
  | [v], s, h, h0 => by
    have := flat_val v s (h v (by simp)) h0
    simp [printVals, tokTrees, flattenList, this]
  | v :: w :: vs, s, h, h0 => by
    have h1 := flat_val v s (h v (by simp)) h0
    have h2 := flat_vals (w :: vs) s (fun t ht => h t (by simp [ht])) h0
    have n1 : (flatten (tokTree styleFortran v)).map Tree.leaf ≠ [] := by
      have := flatten_ne_nil (tokTree styleFortran v) s (by rw [rectShape_tokTree]; exact h v (by simp)) h0
      simpa using this
    have n2 : (flattenList (tokTrees styleFortran (w :: vs))).map Tree.leaf ≠ [] := by
      have := flattenList_tokTrees_ne_nil styleFortran (w :: vs) s (by simp) (fun t ht => h t (by simp [ht])) h0
      simpa using this
    have e : (flattenList (tokTrees styleFortran (v :: w :: vs))).map Tree.leaf =
        (flatten (tokTree styleFortran v)).map Tree.leaf ++
          (flattenList (tokTrees styleFortran (w :: vs))).map Tree.leaf := by
      rw [tokTrees, flattenList_cons, List.map_append]
    have e0 : printVals styleFortran (v :: w :: vs) =
        printVal styleFortran v ++ [',', ' '] ++ printVals styleFortran (w :: vs) := by simp [printVals]
    rw [e0, h1, h2, e, printToks_append _ _ _ _ n1 n2]
    simp
end

/-! ## the tokens are safe, and interpreting them gives back the values -/

mutual
theorem safe_flatten (q : Quoting) (o c : Char) : (t : TokTree) → SafeTree q o c t →
    SafeTrees q o c ((flatten t).map Tree.leaf)
  | .leaf tok, h => by simpa [flatten, SafeTrees, SafeTree] using h
  | .arr ts, h => by
    simp only [flatten]
    exact safe_flattenList q o c ts (by simpa [SafeTree] using h)
theorem safe_flattenList (q : Quoting) (o c : Char) : (ts : List TokTree) → SafeTrees q o c ts →
    SafeTrees q o c ((flattenList ts).map Tree.leaf)
  | [], _ => by simp [flattenList, SafeTrees]
  | t :: ts, h => by
    have h1 := safe_flatten q o c t h.1
    have h2 := safe_flattenList q o c ts h.2
    rw [flattenList_cons, List.map_append]
    exact safeTrees_append q o c _ _ h1 h2
theorem safeTrees_append (q : Quoting) (o c : Char) : (a b : List TokTree) → SafeTrees q o c a → SafeTrees q o c b →
    SafeTrees q o c (a ++ b)
  | [], _, _, hb => hb
  | _ :: a, b, ha, hb => ⟨ha.1, safeTrees_append q o c a b ha.2 hb⟩
end

theorem mapM_map_some {α β : Type} (f : α → β) (g : β → Option α) (h : ∀ a, g (f a) = some a) :
    ∀ l : List α, (l.map f).mapM g = some l
  | [] => rfl
  | a :: l => by simp [List.mapM_cons, h, mapM_map_some f g h l]

theorem mapM_leafTok (l : List Str) : (l.map Tree.leaf).mapM leafTok = some l :=
  mapM_map_some Tree.leaf leafTok (fun _ => rfl) l

theorem natList_leaves (l : List Nat) : natList (.arr (l.map (fun d => Tree.leaf (showNat d)))) = some l := by
  simp only [natList]
  exact mapM_map_some (fun d => Tree.leaf (showNat d)) (fun x => (leafTok x).bind readNat)
    (fun d => by simp [leafTok, readNat_showNat]) l

/-- a child of shape `[]` is a leaf -/
theorem leaf_of_shape_nil {α : Type} (t : Tree α) (h : rectShape t = some []) : ∃ a, t = .leaf a := by
  cases t with
  | leaf a => exact ⟨a, rfl⟩
  | arr ts =>
    rcases rectShape_arr ts [] h with ⟨_, h2⟩ | ⟨s, h2, _, _⟩ <;> simp at h2

/-- the children of a one-dimensional array: its token list is the list of its leaves -/
theorem tokTrees_flat (st : Style) : ∀ vs : List Val, (∀ t ∈ vs, rectShape t = some []) →
    (flattenList (tokTrees st vs)).map Tree.leaf = tokTrees st vs
  | [], _ => by simp [tokTrees, flattenList]
  | v :: vs, h => by
    obtain ⟨s, rfl⟩ := leaf_of_shape_nil v (h v (by simp))
    have ih := tokTrees_flat st vs (fun t ht => h t (by simp [ht]))
    simp [tokTrees, tokTree, flattenList_cons, flatten, ih]

end SciVerif.C19
