import SciVerif.Model.C17

/-! Helper lemmas for property C17 (query, request, heap frame, slices). -/
namespace SciVerif.C17

/-! ### query is a filter followed by a rename -/

theorem mem_query (ns : List Node) (q : Query) (n' : Node) :
    n' ∈ query ns q ↔ ∃ n ∈ ns, qMatches q n = true ∧ n' = qRename q n := by
  unfold query
  simp only [List.mem_map, List.mem_filter]
  constructor
  · rintro ⟨n, ⟨hn, hm⟩, rfl⟩
    exact ⟨n, hn, hm, rfl⟩
  · rintro ⟨n, hn, hm, rfl⟩
    exact ⟨n, ⟨hn, hm⟩, rfl⟩

theorem query_append (a b : List Node) (q : Query) :
    query (a ++ b) q = query a q ++ query b q := by
  simp [query, List.filter_append]

theorem query_cons (n : Node) (ns : List Node) (q : Query) :
    query (n :: ns) q = (if qMatches q n then [qRename q n] else []) ++ query ns q := by
  by_cases h : qMatches q n = true <;> simp [query, h]

/-! ### request -/

theorem countCheck_one {ns ns' : List Node} (h : countCheck .one ns = .ok ns') :
    ns' = ns ∧ ns.length = 1 := by
  unfold countCheck at h
  by_cases hl : ns.length = 1
  · simp [hl] at h; exact ⟨h.symm, hl⟩
  · simp [hl] at h

theorem request_inv {env : Env} {path : Str} {cnt : Count} {ns : List Node}
    (h : request env path cnt = .ok ns) :
    ∃ source q ns0, splitQ path = some (source, q) ∧ requestNodes env source q = .ok ns0 ∧
      countCheck cnt ns0 = .ok ns := by
  unfold request at h
  cases hs : splitQ path with
  | none => simp [hs] at h
  | some sq =>
    obtain ⟨source, q⟩ := sq
    simp only [hs] at h
    cases hr : requestNodes env source q with
    | error e => simp [hr] at h
    | ok ns0 =>
      simp only [hr] at h
      exact ⟨source, q, ns0, rfl, hr, h⟩

theorem request_one_length {env : Env} {path : Str} {ns : List Node}
    (h : request env path .one = .ok ns) : ns.length = 1 := by
  obtain ⟨_, _, ns0, _, _, hc⟩ := request_inv h
  obtain ⟨e, hl⟩ := countCheck_one hc
  rw [e]; exact hl

/-- what a successful node lookup returns: the query applied to the local nodes (which must
    exist) or to the nodes of the named source -/
theorem requestNodes_ok {env : Env} {source q : Str} {ns : List Node}
    (h : requestNodes env source q = .ok ns) :
    (source = [] ∧ env.nodes ≠ [] ∧ ns = query env.nodes (parseQuery q)) ∨
    (source ≠ [] ∧ ∃ s, env.sources.find? (fun s => s.1 = source) = some s ∧
        ns = query s.2 (parseQuery q)) := by
  unfold requestNodes at h
  cases source with
  | nil =>
    left
    cases hn : env.nodes with
    | nil => simp [hn] at h
    | cons a t =>
      simp only [List.isEmpty_nil, if_true, hn, List.isEmpty_cons, Bool.false_eq_true, if_false] at h
      refine ⟨rfl, by simp, ?_⟩
      cases h; rfl
  | cons c t =>
    right
    refine ⟨by simp, ?_⟩
    simp only [List.isEmpty_cons, Bool.false_eq_true, if_false] at h
    cases hf : env.sources.find? (fun s => s.1 = c :: t) with
    | none => simp [hf] at h
    | some s =>
      simp only [hf] at h
      exact ⟨s, rfl, by cases h; rfl⟩

/-! ### heap frame -/

theorem writeAt_length {α : Type} (h : Heap α) (a : Nat) (f : α → α) : (writeAt h a f).length = h.length := by
  induction h generalizing a with
  | nil => simp [writeAt]
  | cons x t ih => cases a <;> simp [writeAt, ih]

theorem writeAt_get_ne {α : Type} (h : Heap α) (a b : Nat) (f : α → α) (hne : a ≠ b) :
    (writeAt h a f)[b]? = h[b]? := by
  induction h generalizing a b with
  | nil => simp [writeAt]
  | cons x t ih =>
    cases a with
    | zero =>
      cases b with
      | zero => exact absurd rfl hne
      | succ b => simp [writeAt]
    | succ a =>
      cases b with
      | zero => simp [writeAt]
      | succ b => simp only [writeAt, List.getElem?_cons_succ]; exact ih a b (by omega)

end SciVerif.C17
