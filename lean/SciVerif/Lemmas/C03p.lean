import SciVerif.Lemmas.C03o

/-! # C03 helper lemmas: render / parse round trip of a whole exponent map -/
namespace SciVerif.C03

theorem goodKey_known (T : Tables) (u : UnitId) (h : goodKey T u) : knownKey T u := by
  cases u with
  | sys n =>
    unfold knownKey unitMag
    simpa [goodKey] using h
  | std p b =>
    obtain ⟨row, hrow, hsym, hp⟩ := h
    have hfu : (T.findUnit b).isSome = true := by
      unfold Tables.findUnit
      rw [List.find?_isSome]
      exact ⟨row, hrow, by simp [hsym]⟩
    obtain ⟨r2, hr2⟩ := Option.isSome_iff_exists.mp hfu
    unfold knownKey
    rcases List.mem_cons.mp hp with h0 | h0
    · simp [unitMag, hr2, h0]
    · have hk := (mem_admPrefixes h0).1
      have hfp : (T.findPrefix p).isSome = true := by
        unfold Tables.findPrefix
        rw [List.find?_isSome]
        unfold Tables.prefixKeys at hk
        rw [List.mem_map] at hk
        obtain ⟨q, hq, hqs⟩ := hk
        exact ⟨q, hq, by simp [hqs]⟩
      obtain ⟨q, hq⟩ := Option.isSome_iff_exists.mp hfp
      by_cases hp0 : p = []
      · simp [unitMag, hr2, hp0]
      · simp [unitMag, hr2, hp0, hq]

/-- RENDER / PARSE ROUND TRIP.  For an exponent dict over keys the tables allow (distinct keys, no
    zero denominator; exponents need not be normalised, zero exponents allowed): the `expression`
    text `BaseUnits` renders (entries joined by `*`) is accepted by `BaseUnits(text)` again and gives
    the same dict entries, the same expression and the same magnitude. -/
theorem render_roundtrip (T : Tables) (h1 : factF1 T = true) (h2 : factF2 T = true) (h3 : factF3 T = true)
    (h4 : factF4 T = true) (h7 : factF7 T = true)
    (m : ExpMap) (b : BaseUnits) (txt : Str) (hm : densOk m) (hk : keysNodup m)
    (hg : ∀ ue ∈ m, goodKey T ue.1) (hb : baseUnitsOfMap T m = some b) (ht : b.expr = some txt) :
    ∃ b2, baseUnitsOfText T txt = .ok b2 ∧ b2.entries = b.entries ∧ b2.expression = b.expression ∧
      magR b2.factors = magR b.factors := by
  obtain ⟨hent, hexpr⟩ := baseUnitsLoop_shape T m BaseUnits.empty b hm hb
  simp only [BaseUnits.empty, List.nil_append] at hent hexpr
  generalize hF : m.filter (fun ue => ue.2.num != 0) = F at hent hexpr
  have hFsub : ∀ ue ∈ F, ue ∈ m ∧ ue.2.num ≠ 0 := by
    intro ue hue
    rw [← hF, List.mem_filter] at hue
    exact ⟨hue.1, by simpa using hue.2⟩
  have hFnd : (F.map (·.1)).Nodup := by
    rw [← hF]
    exact List.Nodup.sublist ((List.filter_sublist).map _) hk
  -- F is not empty
  cases F with
  | nil =>
    unfold BaseUnits.expr at ht
    rw [hexpr] at ht
    simp [joinMul] at ht
  | cons f0 fs =>
    let a : U := chainAst (leafOfEntry f0.1 f0.2) (fs.map (fun ue => leafOfEntry ue.1 ue.2))
    have hren : a.render = txt := by
      unfold BaseUnits.expr at ht
      rw [hexpr, List.map_cons, joinMul_cons] at ht
      simp only [Option.some.injEq] at ht
      rw [← ht]
      show (chainAst _ _).render = _
      rw [chainAst_render, leafOfEntry_render]
      congr 1
      simp only [List.flatMap_map, leafOfEntry_render]
    have hleaf : ∀ ue ∈ f0 :: fs, (leafOfEntry ue.1 ue.2).plainLeaves ∧
        evalU T (leafOfEntry ue.1 ue.2) = some ⟨1, [(ue.1, ue.2.rebase)]⟩ := by
      intro ue hue
      have := entry_roundtrip T h1 h2 h3 h4 h7 ue.1 ue.2 (hg ue (hFsub ue hue).1)
      exact ⟨this.2.1, this.2.2⟩
    have hprops := chainAst_props (leafOfEntry f0.1 f0.2) (fs.map (fun ue => leafOfEntry ue.1 ue.2))
      (leafOfEntry_isOp f0.1 f0.2).2 (hleaf f0 (by simp)).1
      (by
        intro l hl
        rw [List.mem_map] at hl
        obtain ⟨ue, hue, rfl⟩ := hl
        exact ⟨(leafOfEntry_isOp ue.1 ue.2).1, (leafOfEntry_isOp ue.1 ue.2).2,
          (hleaf ue (List.mem_cons_of_mem _ hue)).1⟩)
    have heval : evalU T a = some ⟨1, b.entries⟩ := by
      have := chainAst_eval T (leafOfEntry f0.1 f0.2) [(f0.1, f0.2.rebase)] (hleaf f0 (by simp)).2 fs
        (fun ue hue => (hleaf ue (List.mem_cons_of_mem _ hue)).2)
        (by
          unfold keysNodup
          simpa using hFnd)
      rw [this, hent]
      simp
    have hsolve : unitSolver T txt = .ok ⟨1, b.entries⟩ := by
      rw [← hren]
      exact unitSolver_renders T a a.render (renders_render a) hprops.2 hprops.1 _ heval
    -- second pass over the rendered-and-parsed entries
    have hEdens : densOk b.entries := by
      intro ue hue
      rw [hent, List.mem_map] at hue
      obtain ⟨x, hx, rfl⟩ := hue
      exact (rebase_spec x.2 (hm x (hFsub x hx).1)).2
    have hEknown : ∀ ue ∈ b.entries, knownKey T ue.1 ∧ ue.2.den ≠ 0 := by
      intro ue hue
      refine ⟨?_, hEdens ue hue⟩
      rw [hent, List.mem_map] at hue
      obtain ⟨x, hx, rfl⟩ := hue
      exact goodKey_known T x.1 (hg x (hFsub x hx).1)
    obtain ⟨b2, hb2⟩ := baseUnitsLoop_some T b.entries BaseUnits.empty hEknown
    obtain ⟨s1, s2⟩ := baseUnitsLoop_shape T b.entries BaseUnits.empty b2 hEdens hb2
    simp only [BaseUnits.empty, List.nil_append] at s1 s2
    have hfilter : b.entries.filter (fun ue => ue.2.num != 0) = b.entries := by
      rw [List.filter_eq_self]
      intro ue hue
      rw [hent, List.mem_map] at hue
      obtain ⟨x, hx, rfl⟩ := hue
      simpa using rebase_num_ne_zero x.2 (hFsub x hx).2
    rw [hfilter] at s1 s2
    have hE1 : b2.entries = b.entries := by
      rw [s1]
      conv_rhs => rw [hent]
      rw [hent, List.map_map]
      apply List.map_congr_left
      intro x hx
      simp [rebase_idem x.2 (hm x (hFsub x hx).1)]
    have hE2 : b2.expression = b.expression := by
      rw [s2, hexpr, hent, List.map_map]
      apply List.map_congr_left
      intro x hx
      simp [entryText_rebase x.1 x.2 (hm x (hFsub x hx).1)]
    refine ⟨b2, by simp [baseUnitsOfText, hsolve, baseUnitsOfMap, hb2], hE1, hE2, ?_⟩
    have m1 := baseUnitsLoop_mag T m BaseUnits.empty b hb
    have m2 := baseUnitsLoop_mag T b.entries BaseUnits.empty b2 hb2
    have m3 := (baseUnitsLoop_entries T m BaseUnits.empty b hm hb).1
    simp only [BaseUnits.empty, magR, List.map_nil, List.prod_nil, one_mul, ratPairs, specFactor] at m1 m2 m3
    simp only [magR]
    rw [m1, m2, m3]

theorem nodimLoop_some (T : Tables) (m keep : ExpMap) (fs : List Factor)
    (h : ∀ ue ∈ m, knownKey T ue.1 ∧ ue.2.den ≠ 0) :
    ∃ r, nodimLoop T m keep fs = some r ∧ ∀ ue ∈ r.1, ue ∈ keep ∨ ue ∈ m := by
  induction m generalizing keep fs with
  | nil => exact ⟨(keep, fs), rfl, fun ue hue => Or.inl hue⟩
  | cons x rest ih =>
    obtain ⟨u, e⟩ := x
    have hx := h (u, e) (by simp)
    have hrest : ∀ ue ∈ rest, knownKey T ue.1 ∧ ue.2.den ≠ 0 := fun ue hue => h ue (List.mem_cons_of_mem _ hue)
    obtain ⟨base, hb⟩ := getUnitBase_some T u e hx.1 hx.2
    simp only [nodimLoop, hb]
    split
    · obtain ⟨r, hr, hmem⟩ := ih (keep ++ [(u, e)]) fs hrest
      refine ⟨r, hr, ?_⟩
      intro ue hue
      rcases hmem ue hue with h1 | h1
      · rcases List.mem_append.mp h1 with h2 | h2
        · exact Or.inl h2
        · right; simp at h2; subst h2; simp
      · exact Or.inr (List.mem_cons_of_mem _ h1)
    · obtain ⟨r, hr, hmem⟩ := ih keep (fs ++ [base.factor]) hrest
      refine ⟨r, hr, ?_⟩
      intro ue hue
      rcases hmem ue hue with h1 | h1
      · exact Or.inl h1
      · exact Or.inr (List.mem_cons_of_mem _ h1)

/-- `Quantity(1,text)` is always built for a rendering of an AST with a denotation -/
theorem quantity_exists (T : Tables) (h1 : factF1 T = true) (h2 : factF2 T = true) (h3 : factF3 T = true)
    (h4 : factF4 T = true) (h7 : factF7 T = true) (hpos : factPositive T = true)
    (a : U) (s : Str) (hs : Renders a s) (hla : a.leftAssoc = true) (d : Den) (hd : denote T a = some d) :
    ∃ q, quantityOfText T s = .ok q := by
  obtain ⟨hp, v, hv, hag⟩ := evalU_denote T h1 h2 h3 h4 h7 a d hd
  obtain ⟨v', b, hsolve, _, _, hb, _⟩ := baseUnits_total T h1 h2 h3 h4 h7 hpos a s hs hla d hd
  have hv' : v' = v := by
    have := unitSolver_renders T a s hs hp hla v hv
    rw [hsolve] at this; cases this; rfl
  subst hv'
  have hknown := evalU_known T (factF4_noBlank h4) a v' hv
  obtain ⟨hent, _⟩ := baseUnitsLoop_shape T v'.units BaseUnits.empty b hag.dens hb
  simp only [BaseUnits.empty, List.nil_append] at hent
  have hE : ∀ ue ∈ b.entries, knownKey T ue.1 ∧ ue.2.den ≠ 0 := by
    intro ue hue
    rw [hent, List.mem_map] at hue
    obtain ⟨x, hx, rfl⟩ := hue
    have hxm : x ∈ v'.units := (List.mem_filter.mp hx).1
    exact ⟨hknown x hxm, (rebase_spec x.2 (hag.dens x hxm)).2⟩
  unfold quantityOfText
  simp only [hsolve, hb]
  split
  · obtain ⟨r, hr, hmem⟩ := nodimLoop_some T b.entries [] [] hE
    obtain ⟨b2, hb2⟩ := baseUnitsLoop_some T r.1 BaseUnits.empty (fun ue hue => by
      rcases hmem ue hue with h0 | h0
      · cases h0
      · exact hE ue h0)
    obtain ⟨keep, fs⟩ := r
    simp only [hr, baseUnitsOfMap, hb2]
    exact ⟨_, rfl⟩
  · exact ⟨_, rfl⟩

end SciVerif.C03
