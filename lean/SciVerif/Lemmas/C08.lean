import Mathlib.Analysis.SpecialFunctions.Pow.Real
import SciVerif.Model.C08

/-!
Instantiation of the magnitude model at the real numbers (used by `Props/C08.lean` and
`Props/C06.lean`) and helper lemmas.
-/
namespace SciVerif.C08

/-- the numpy primitives as real functions -/
noncomputable instance : ValOps ℝ where
  abs x := |x|
  gmax x y := max x y
  fillLike _ e := e
  rpow x p := x ^ ((p : ℚ) : ℝ)
  ofRat q := ((q : ℚ) : ℝ)

@[simp] theorem abs_real (x : ℝ) : ValOps.abs x = |x| := rfl
@[simp] theorem gmax_real (x y : ℝ) : ValOps.gmax x y = max x y := rfl
@[simp] theorem fillLike_real (v e : ℝ) : ValOps.fillLike v e = e := rfl
@[simp] theorem rpow_real (x : ℝ) (p : Rat) : ValOps.rpow x p = x ^ ((p : ℚ) : ℝ) := rfl
@[simp] theorem ofRat_real (q : Rat) : (ValOps.ofRat q : ℝ) = ((q : ℚ) : ℝ) := rfl

@[simp] theorem Mag.new_real (v : ℝ) (e : Option ℝ) : Mag.new v e = ⟨v, e⟩ := by
  cases e <;> simp [Mag.new]

/-- every stored error is non-negative -/
def Mag.ErrNonneg (m : Mag ℝ) : Prop := ∀ e, m.error = some e → 0 ≤ e

theorem ratAbs_cast (p : Rat) : (((if p < 0 then -p else p : Rat) : ℚ) : ℝ) = |((p : ℚ) : ℝ)| := by
  split
  · rename_i h
    have : ((p : ℚ) : ℝ) < 0 := by exact_mod_cast h
    rw [abs_of_neg this]; push_cast; ring
  · rename_i h
    have : (0 : ℝ) ≤ ((p : ℚ) : ℝ) := by
      have h' : (0 : ℚ) ≤ p := not_lt.mp h
      exact_mod_cast h'
    rw [abs_of_nonneg this]

/-- arbitrary computations built from the operations of `Magnitude` -/
inductive MExpr where
  | leaf (m : Mag ℝ)
  | add (a b : MExpr)
  | sub (a b : MExpr)
  | mul (a b : MExpr)
  | div (a b : MExpr)
  | neg (a : MExpr)
  | pow (a : MExpr) (p : Rat)
  | conv (a : MExpr) (m1 m2 : ℝ)

/-- evaluation; `none` where Python raises or produces `nan` (division by 0, power of 0,
    non-positive conversion factor) -/
noncomputable def MExpr.eval : MExpr → Option (Mag ℝ)
  | .leaf m => some m
  | .add a b => do pure ((← a.eval).add (← b.eval))
  | .sub a b => do pure ((← a.eval).sub (← b.eval))
  | .mul a b => do pure ((← a.eval).mul (← b.eval))
  | .div a b => do
    let x ← a.eval
    let y ← b.eval
    if y.value = 0 then none else pure (x.div y)
  | .neg a => do pure (← a.eval).neg
  | .pow a p => do
    let x ← a.eval
    if x.value = 0 then none else pure (x.pow p)
  | .conv a m1 m2 => do
    let x ← a.eval
    if 0 < m1 ∧ 0 < m2 then pure (x.convertLinear m1 m2) else none

/-- every magnitude entering the computation has a non-negative (or no) error -/
def MExpr.LeavesNonneg : MExpr → Prop
  | .leaf m => m.ErrNonneg
  | .add a b | .sub a b | .mul a b | .div a b => a.LeavesNonneg ∧ b.LeavesNonneg
  | .neg a | .pow a _ | .conv a _ _ => a.LeavesNonneg

end SciVerif.C08
