import SciVerif.Lemmas.C10f

/-! C10: `ExpressionSolver.solve` on the explicit text of a formula returns `evalF`. -/
set_option linter.unusedSimpArgs false
namespace SciVerif.C10

/-- what the proof needs from a species text: not empty, only plain characters (no blank,
    parenthesis or comma), does not start with a digit, and `Element(text)` succeeds -/
def SpeciesOK (valid : Str → Bool) (s : Str) : Prop :=
  s ≠ [] ∧ Plain s ∧ (∀ c t, s = c :: t → isDig c = false) ∧ valid s = true

theorem solveAux_run (valid : Str → Bool) (w : Str) : ∀ (fuel : Nat) (left rest : Str) (toks : List Tok),
    Plain w → solveAux valid (fuel + w.length) left (w ++ rest) toks =
      solveAux valid fuel (w.reverse ++ left) rest toks := by
  induction w with
  | nil => intro fuel left rest toks _; rfl
  | cons c t ih =>
    intro fuel left rest toks h
    have hc := h c (by simp)
    have e : fuel + (c :: t).length = (fuel + t.length) + 1 := by simp; omega
    rw [e, List.cons_append, solveAux_char valid _ left _ c toks hc.1 hc.ne_space,
      ih fuel (c :: left) rest toks (fun x hx => h x (by simp [hx]))]
    simp

theorem flushOf_nil (valid : Str → Bool) (toks : List Tok) : flushOf valid [] toks = some toks := by
  simp [flushOf, strip]

theorem flushOf_plain (valid : Str → Bool) (p : Str) (toks : List Tok) (v : Val) (hne : p ≠ [])
    (hp : Plain p) (hv : atomOf valid p = some v) :
    flushOf valid p.reverse toks = some (toks ++ [.atom v]) := by
  have hs : strip p = p := strip_of_edge p (edge_of_plain p hne hp)
  have he : p.isEmpty = false := by
    cases p with
    | nil => exact absurd rfl hne
    | cons a t => rfl
  simp [flushOf, hs, he, hv]

/-- the pending atom text after the tokens of a formula were emitted -/
def pendOf : F → Str
  | .sp s => s
  | .count _ n => digitsOf n
  | .mulx _ n => digitsOf n
  | .group _ => []
  | .seq _ _ b => pendOf b
  | .plus _ b => pendOf b

/-- the tokens emitted before the pending atom -/
def emitted : F → List Tok
  | .sp _ => []
  | .count f n => toksSpec f ++ [.mul]
  | .mulx f n => toksSpec f ++ [.mul]
  | .group f => [.par (.sub (evalF f))]
  | .seq _ a b => toksSpec a ++ [.add] ++ emitted b
  | .plus a b => toksSpec a ++ [.add] ++ emitted b

/-- `flushOf` on the pending text completes the token list -/
theorem flush_pend (valid : Str → Bool) (f : F) (hs : f.spAll (SpeciesOK valid)) (T : List Tok) :
    flushOf valid (pendOf f).reverse (T ++ emitted f) = some (T ++ toksSpec f) := by
  induction f generalizing T with
  | sp s =>
    obtain ⟨hne, hp, hd, hv⟩ := hs
    have : atomOf valid s = some (.sub [(s, 1)]) := by
      cases s with
      | nil => exact absurd rfl hne
      | cons c t => simp [atomOf, hd c t rfl, hv]
    simpa [pendOf, emitted, toksSpec] using flushOf_plain valid s T _ hne hp this
  | count f n ih =>
    have : atomOf valid (digitsOf n) = some (.num n) := by
      cases h : digitsOf n with
      | nil => exact absurd h (digitsOf_ne_nil n)
      | cons c t =>
        have hc : isDig c = true := (digitsOf_all n c (by rw [h]; simp)).1
        rw [← h]
        simp only [atomOf, h, hc, if_true]
        rw [← h, parseFloat_digitsOf]; rfl
    have := flushOf_plain valid (digitsOf n) (T ++ (toksSpec f ++ [.mul])) _ (digitsOf_ne_nil n) (digitsOf_plain n) this
    simpa [pendOf, emitted, toksSpec, List.append_assoc] using this
  | mulx f n ih =>
    have : atomOf valid (digitsOf n) = some (.num n) := by
      cases h : digitsOf n with
      | nil => exact absurd h (digitsOf_ne_nil n)
      | cons c t =>
        have hc : isDig c = true := (digitsOf_all n c (by rw [h]; simp)).1
        rw [← h]
        simp only [atomOf, h, hc, if_true]
        rw [← h, parseFloat_digitsOf]; rfl
    have := flushOf_plain valid (digitsOf n) (T ++ (toksSpec f ++ [.mul])) _ (digitsOf_ne_nil n) (digitsOf_plain n) this
    simpa [pendOf, emitted, toksSpec, List.append_assoc] using this
  | group f ih => simp [pendOf, emitted, toksSpec, flushOf_nil]
  | seq ws a b iha ihb =>
    have := ihb hs.2 (T ++ (toksSpec a ++ [.add]))
    simpa [pendOf, emitted, toksSpec, List.append_assoc] using this
  | plus a b iha ihb =>
    have := ihb hs.2 (T ++ (toksSpec a ++ [.add]))
    simpa [pendOf, emitted, toksSpec, List.append_assoc] using this

theorem spAll_plain (valid : Str → Bool) (f : F) (hs : f.spAll (SpeciesOK valid)) : f.spAll Plain := by
  induction f with
  | sp s => exact hs.2.1
  | count f n ih => exact ih hs
  | mulx f n ih => exact ih hs
  | group f ih => exact ih hs
  | seq ws a b iha ihb => exact ⟨iha hs.1, ihb hs.2⟩
  | plus a b iha ihb => exact ⟨iha hs.1, ihb hs.2⟩

theorem edge_rE (valid : Str → Bool) (f : F) (hs : f.spAll (SpeciesOK valid)) : EdgeOK (renderExplicit f) := by
  induction f with
  | sp s => exact edge_of_plain s hs.1 hs.2.1
  | count f n ih =>
    have := edge_append _ symMul _ (ih hs) (edge_of_plain _ (digitsOf_ne_nil n) (digitsOf_plain n))
    simpa [renderExplicit] using this
  | mulx f n ih =>
    have := edge_append _ symMul _ (ih hs) (edge_of_plain _ (digitsOf_ne_nil n) (digitsOf_plain n))
    simpa [renderExplicit] using this
  | group f ih =>
    exact ⟨⟨'(', _, rfl, by decide⟩, ⟨')', (renderExplicit f).reverse ++ ['('], by simp [renderExplicit], by decide⟩⟩
  | seq ws a b iha ihb =>
    have := edge_append _ symAdd _ (iha hs.1) (ihb hs.2)
    simpa [renderExplicit] using this
  | plus a b iha ihb =>
    have := edge_append _ symAdd _ (iha hs.1) (ihb hs.2)
    simpa [renderExplicit] using this

/-- tokenizer behaviour on a piece of text starting at a token boundary: it emits `em` and
    leaves `pend` pending, whatever follows -/
def TK (valid : Str → Bool) (text pend : Str) (em : List Tok) : Prop :=
  ∀ (rest : Str) (T : List Tok) (fuel : Nat), text.length + rest.length + 1 ≤ fuel →
    ∃ fuel', rest.length + 1 ≤ fuel' ∧
      solveAux valid fuel [] (text ++ rest) T = solveAux valid fuel' pend.reverse rest (T ++ em)

theorem tk_plain (valid : Str → Bool) (s : Str) (hp : Plain s) : TK valid s s [] := by
  intro rest T fuel hfuel
  refine ⟨fuel - s.length, by omega, ?_⟩
  have e : fuel = (fuel - s.length) + s.length := by omega
  conv_lhs => rw [e]
  rw [solveAux_run valid s _ [] rest T hp]
  simp

theorem tk_mul (valid : Str → Bool) (text p : Str) (em full : List Tok) (n : Nat)
    (h : TK valid text p em)
    (hfl : ∀ T, flushOf valid p.reverse (T ++ em) = some (T ++ full)) :
    TK valid (text ++ symMul ++ digitsOf n) (digitsOf n) (full ++ [.mul]) := by
  intro rest T fuel hfuel
  have hl : symMul.length = 3 := rfl
  simp only [List.length_append, hl] at hfuel
  obtain ⟨f1, h1, e1⟩ := h (symMul ++ digitsOf n ++ rest) T fuel (by simp [hl]; omega)
  simp only [List.length_append, hl] at h1
  obtain ⟨k, rfl⟩ : ∃ k, f1 = k + 1 := ⟨f1 - 1, by omega⟩
  refine ⟨k - (digitsOf n).length, by omega, ?_⟩
  rw [List.append_assoc, List.append_assoc, ← List.append_assoc symMul, e1, List.append_assoc,
    solveAux_mul, hfl T]
  simp only [Option.bind_some]
  have e : k = (k - (digitsOf n).length) + (digitsOf n).length := by omega
  conv_lhs => rw [e]
  rw [solveAux_run valid (digitsOf n) _ [] rest _ (digitsOf_plain n)]
  simp [List.append_assoc]

theorem tk_add (valid : Str → Bool) (ta pa tb pb : Str) (ema fulla emb : List Tok)
    (ha : TK valid ta pa ema)
    (hfl : ∀ T, flushOf valid pa.reverse (T ++ ema) = some (T ++ fulla))
    (hb : TK valid tb pb emb) :
    TK valid (ta ++ symAdd ++ tb) pb (fulla ++ [.add] ++ emb) := by
  intro rest T fuel hfuel
  have hl : symAdd.length = 3 := rfl
  simp only [List.length_append, hl] at hfuel
  obtain ⟨f1, h1, e1⟩ := ha (symAdd ++ tb ++ rest) T fuel (by simp [hl]; omega)
  simp only [List.length_append, hl] at h1
  obtain ⟨k, rfl⟩ : ∃ k, f1 = k + 1 := ⟨f1 - 1, by omega⟩
  obtain ⟨f2, h2, e2⟩ := hb rest (T ++ fulla ++ [.add]) k (by omega)
  refine ⟨f2, h2, ?_⟩
  rw [List.append_assoc, List.append_assoc, ← List.append_assoc symAdd, e1, List.append_assoc,
    solveAux_add, hfl T]
  simp only [Option.bind_some]
  rw [e2]
  simp [List.append_assoc]

theorem tk_group (valid : Str → Bool) (inner : Str) (v : Val) (he : EdgeOK inner)
    (hsc : ∀ (acc r : Str), scanPar 1 acc (inner ++ r) = scanPar 1 (inner.reverse ++ acc) r)
    (hv : ∀ fuel, inner.length + 1 ≤ fuel → solveAux valid fuel [] inner [] = some v) :
    TK valid ('(' :: inner ++ [')']) [] [.par v] := by
  intro rest T fuel hfuel
  simp only [List.length_cons, List.length_append, List.length_nil] at hfuel
  obtain ⟨k, rfl⟩ : ∃ k, fuel = k + 1 := ⟨fuel - 1, by omega⟩
  refine ⟨k, by omega, ?_⟩
  have hs : scanPar 1 [] (inner ++ ')' :: rest) = some (inner, rest) := by
    rw [hsc [] (')' :: rest), scanPar]
    simp [strip_of_edge inner he]
  have := solveAux_par valid k (inner ++ ')' :: rest) inner rest T v hs (hv k (by omega))
  simpa [List.append_assoc] using this

/-- from the tokenizer statement to the result of `solve` -/
theorem solve_of_tk (valid : Str → Bool) (text p : Str) (em full : List Tok) (v : Val)
    (h : TK valid text p em) (hfl : flushOf valid p.reverse ([] ++ em) = some ([] ++ full))
    (hr : reduce full = some v) :
    ∀ fuel, text.length + 1 ≤ fuel → solveAux valid fuel [] text [] = some v := by
  intro fuel hfuel
  obtain ⟨fuel', h1, h2⟩ := h [] [] fuel (by simpa using hfuel)
  rw [List.append_nil] at h2
  obtain ⟨k, rfl⟩ : ∃ k, fuel' = k + 1 := ⟨fuel' - 1, by simp at h1; omega⟩
  rw [h2, solveAux_nil, hfl]
  simpa using hr

theorem factorOK_count_inner (g : F) (n : Nat) (h : (F.count g n).factorOK) : g.factorOK := by
  cases g <;> simp_all [F.factorOK]

theorem factorOK_mulx_inner (g : F) (n : Nat) (h : (F.mulx g n).factorOK) : g.factorOK := by
  cases g <;> simp_all [F.factorOK]

/-- Tokenizer: consuming the explicit text of `f` (followed by any `rest`) from a token
    boundary emits `emitted f` and leaves `pendOf f` pending; and the whole text solves to
    `evalF f`. -/
theorem solve_explicit_aux (valid : Str → Bool) (f : F) (hf : f.factorOK) (hs : f.spAll (SpeciesOK valid)) :
    TK valid (renderExplicit f) (pendOf f) (emitted f) ∧
    (∀ fuel, (renderExplicit f).length + 1 ≤ fuel →
      solveAux valid fuel [] (renderExplicit f) [] = some (.sub (evalF f))) := by
  suffices h : TK valid (renderExplicit f) (pendOf f) (emitted f) from
    ⟨h, solve_of_tk valid _ _ _ _ _ h (flush_pend valid f hs []) (reduce_toksSpec f hf)⟩
  induction f with
  | sp s => exact tk_plain valid s hs.2.1
  | count g n ih =>
    have hg := factorOK_count_inner g n hf
    exact tk_mul valid _ _ _ _ n (ih hg hs) (fun T => flush_pend valid g hs T)
  | mulx g n ih =>
    have hg := factorOK_mulx_inner g n hf
    exact tk_mul valid _ _ _ _ n (ih hg hs) (fun T => flush_pend valid g hs T)
  | group g ih =>
    have hg : g.factorOK := hf
    have htk := ih hg hs
    exact tk_group valid (renderExplicit g) _ (edge_rE valid g hs)
      (fun acc r => scanPar_rE g (spAll_plain valid g hs) 1 acc r (le_refl 1))
      (solve_of_tk valid _ _ _ _ _ htk (flush_pend valid g hs []) (reduce_toksSpec g hg))
  | seq ws a b iha ihb =>
    exact tk_add valid _ _ _ _ _ _ _ (iha hf.1 hs.1) (fun T => flush_pend valid a hs.1 T) (ihb hf.2 hs.2)
  | plus a b iha ihb =>
    exact tk_add valid _ _ _ _ _ _ _ (iha hf.1 hs.1) (fun T => flush_pend valid a hs.1 T) (ihb hf.2 hs.2)

/-- `F.wf` implies the factor shape used by the solver proof -/
theorem wf_factorOK (f : F) (h : f.wf = true) : f.factorOK := by
  induction f with
  | sp s => trivial
  | count g n ih =>
    cases g with
    | sp s => trivial
    | group k =>
      simp only [F.wf, Bool.and_eq_true] at h
      exact ih (by simpa [F.wf] using h.1)
    | count _ _ => simp [F.wf] at h
    | mulx _ _ => simp [F.wf] at h
    | seq _ _ _ => simp [F.wf] at h
    | plus _ _ => simp [F.wf] at h
  | mulx g n ih =>
    cases g with
    | sp s => trivial
    | group k =>
      simp only [F.wf, Bool.and_eq_true] at h
      exact ih (by simpa [F.wf] using h.1)
    | count _ _ => simp [F.wf] at h
    | mulx _ _ => simp [F.wf] at h
    | seq _ _ _ => simp [F.wf] at h
    | plus _ _ => simp [F.wf] at h
  | group g ih => exact ih (by simpa [F.wf] using h)
  | seq ws a b iha ihb =>
    simp only [F.wf, Bool.and_eq_true] at h
    exact ⟨iha h.1.1, ihb h.1.2⟩
  | plus a b iha ihb =>
    simp only [F.wf, Bool.and_eq_true] at h
    exact ⟨iha h.1, ihb h.2⟩

end SciVerif.C10
