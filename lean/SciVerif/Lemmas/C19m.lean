import SciVerif.Lemmas.C19l
/-!
# C19 — Fortran: the checks of the reader hold for the kinds Fortran carries
-/
namespace SciVerif.C19

/-! ## the guard: parameters outside the three known findings -/

/-- the kinds the Fortran export carries faithfully: logical and character always; integers whose
    literals fit the default kind and the declared kind (finding `fortran:int-literal-kind`); reals of
    default kind only (finding `fortran:real-literal-kind`); no unsigned integers (finding `fortran:unsigned`) -/
def fortranGuard (p : Param) : Bool :=
  match p.kind with
  | .bool => true
  | .str => true
  | .int => fitsInt p.bits p.value
  | .uint => false
  | .float => p.bits == 32

/-! ## style -/

/-- the Fortran style with brackets (the scalars are printed the same way) -/
def styleFB : Style := { styleFortran with opn := ['['], cls := [']'] }

mutual
theorem tokTree_styleFB : (v : Val) → tokTree styleFB v = tokTree styleFortran v
  | .leaf s => by cases s <;> rfl
  | .arr vs => by simp [tokTree, tokTrees_styleFB vs]
theorem tokTrees_styleFB : (vs : List Val) → tokTrees styleFB vs = tokTrees styleFortran vs
  | [] => rfl
  | v :: vs => by simp [tokTrees, tokTree_styleFB v, tokTrees_styleFB vs]
end

theorem styleFB_ok : StyleOK styleFB '[' ']' where
  good := good_bracket
  opn := rfl
  cls := rfl
  ne := by decide
  tru := SafeTok.bare _ (by decide) (by simp [styleFB, styleFortran, plainChar])
  fls := SafeTok.bare _ (by decide) (by simp [styleFB, styleFortran, plainChar])
  fc := plain_of_floatChar_bracket

theorem safe_tokTree_fortran (k : Kind) (v : Val) (hv : ValOK k v) :
    SafeTree .doubled '[' ']' (tokTree styleFortran v) := by
  have := safe_tree styleFB '[' ']' styleFB_ok k v hv
  rw [tokTree_styleFB] at this
  exact this

theorem interp_tokTree_fortran (k : Kind) (v : Val) (hv : ValOK k v) :
    interp .doubled k (cs!".true.") (cs!".false.") (tokTree styleFortran v) = some v :=
  interp_tokTree styleFortran (by decide) k v hv

/-! ## `fitsInt`, `strLens` -/

mutual
theorem fitsInt_other (b : Nat) (k : Kind) (hk : k ≠ Kind.int ∧ k ≠ Kind.uint) :
    (v : Val) → ValOK k v → fitsInt b v = true
  | .leaf s, h => by
    cases s with
    | i x => have : ScalarOK k (.i x) := by simpa [ValOK] using h
             rcases this with e | e
             · exact absurd e hk.1
             · exact absurd e hk.2
    | b x => simp [fitsInt]
    | f x => simp [fitsInt]
    | s x => simp [fitsInt]
  | .arr vs, h => by
    simp only [fitsInt]
    exact fitsIntList_other b k hk vs (by simpa [ValOK] using h)
theorem fitsIntList_other (b : Nat) (k : Kind) (hk : k ≠ Kind.int ∧ k ≠ Kind.uint) :
    (vs : List Val) → ValsOK k vs → fitsIntList b vs = true
  | [], _ => by simp [fitsIntList]
  | v :: vs, h => by
    simp [fitsIntList, fitsInt_other b k hk v h.1, fitsIntList_other b k hk vs h.2]
end

mutual
theorem strLens_other (k : Kind) (hk : k ≠ Kind.str) : (v : Val) → ValOK k v → strLens v = []
  | .leaf s, h => by
    cases s with
    | s x => have : ScalarOK k (.s x) := by simpa [ValOK] using h
             exact absurd this hk
    | b x => simp [strLens]
    | i x => simp [strLens]
    | f x => simp [strLens]
  | .arr vs, h => by
    simp only [strLens]
    exact strLensList_other k hk vs (by simpa [ValOK] using h)
theorem strLensList_other (k : Kind) (hk : k ≠ Kind.str) : (vs : List Val) → ValsOK k vs → strLensList vs = []
  | [], _ => by simp [strLensList]
  | v :: vs, h => by
    simp [strLensList, strLens_other k hk v h.1, strLensList_other k hk vs h.2]
end

theorem utf8Len_append (a b : Str) : utf8Len (a ++ b) = utf8Len a + utf8Len b := by
  simp [utf8Len, List.sum_append]

theorem utf8Len_cons (c : Char) (s : Str) : utf8Len (c :: s) = c.utf8Size + utf8Len s := by
  simp [utf8Len]

theorem utf8Len_escChar (q : Quoting) (c : Char) : c.utf8Size ≤ utf8Len (escChar q c) := by
  cases q <;> simp only [escChar] <;> (repeat' split) <;> simp_all [utf8Len] <;> omega

theorem utf8Len_escStr (q : Quoting) : ∀ v : Str, utf8Len v ≤ utf8Len (escStr q v)
  | [] => by simp [escStr_nil]
  | c :: v => by
    have h1 := utf8Len_escChar q c
    have h2 := utf8Len_escStr q v
    rw [escStr_cons, utf8Len_append, utf8Len_cons]
    omega

mutual
/-- no character literal is longer (in bytes) than the rendered value the declared length is taken from -/
theorem strLens_le (st : Style) : (v : Val) → ∀ n ∈ strLens v, n ≤ utf8Len (printVal st v)
  | .leaf s, n, hn => by
    cases s with
    | s x =>
      simp only [strLens, List.mem_singleton] at hn
      subst hn
      have := utf8Len_escStr st.q x
      simp only [printVal, printScalar, quoteStr, utf8Len_cons, utf8Len_append]
      omega
    | b x => simp [strLens] at hn
    | i x => simp [strLens] at hn
    | f x => simp [strLens] at hn
  | .arr vs, n, hn => by
    simp only [strLens] at hn
    have := strLensList_le st vs n hn
    simp only [printVal, utf8Len_append]
    omega
theorem strLensList_le (st : Style) : (vs : List Val) → ∀ n ∈ strLensList vs, n ≤ utf8Len (printVals st vs)
  | [], n, hn => by simp [strLensList] at hn
  | [v], n, hn => by
    simp only [strLensList, List.append_nil] at hn
    simpa [printVals] using strLens_le st v n hn
  | v :: w :: vs, n, hn => by
    simp only [strLensList, List.mem_append] at hn
    simp only [printVals, utf8Len_append]
    rcases hn with h | h
    · have := strLens_le st v n h; omega
    · have := strLensList_le st (w :: vs) n (by simpa [strLensList] using h); omega
end

end SciVerif.C19
