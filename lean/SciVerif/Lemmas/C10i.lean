import SciVerif.Lemmas.C10h

/-! C10: species texts of the documented shape satisfy `SpeciesText`. -/
set_option linter.unusedSimpArgs false
set_option linter.unusedVariables false
namespace SciVerif.C10

theorem ne_of_toNat (c d : Char) (h : c.toNat ≠ d.toNat) : c ≠ d := fun e => h (e ▸ rfl)

theorem up_range (c : Char) (h : isUp c = true) : 65 ≤ c.toNat ∧ c.toNat ≤ 90 := by
  simp only [isUp, Bool.and_eq_true, decide_eq_true_eq] at h
  exact ⟨h.1, h.2⟩

theorem low_range (c : Char) (h : isLow c = true) : 97 ≤ c.toNat ∧ c.toNat ≤ 122 := by
  simp only [isLow, Bool.and_eq_true, decide_eq_true_eq] at h
  exact ⟨h.1, h.2⟩

theorem dig_range (c : Char) (h : isDig c = true) : 48 ≤ c.toNat ∧ c.toNat ≤ 57 := by
  simp only [isDig, Bool.and_eq_true, decide_eq_true_eq] at h
  exact ⟨h.1, h.2⟩

/-- character codes of letters and digits -/
def WordCode (n : Nat) : Prop := (65 ≤ n ∧ n ≤ 90) ∨ (97 ≤ n ∧ n ≤ 122) ∨ (48 ≤ n ∧ n ≤ 57)

theorem isWs_false_of (c : Char) (h : ∀ k ∈ [32, 9, 10, 13, 11, 12], c.toNat ≠ k) : isWs c = false := by
  simp only [isWs, Bool.or_eq_false_iff, beq_eq_false_iff_ne]
  refine ⟨⟨⟨⟨⟨?_, ?_⟩, ?_⟩, ?_⟩, ?_⟩, ?_⟩ <;> apply ne_of_toNat <;> first
    | exact h 32 (by simp) | exact h 9 (by simp) | exact h 10 (by simp)
    | exact h 13 (by simp) | exact h 11 (by simp) | exact h 12 (by simp)

theorem word_plain (c : Char) (h : WordCode c.toNat) : PlainC c ∧ c ≠ '*' := by
  have h40 : c.toNat ≠ 40 := by rcases h with h | h | h <;> omega
  have h41 : c.toNat ≠ 41 := by rcases h with h | h | h <;> omega
  have h44 : c.toNat ≠ 44 := by rcases h with h | h | h <;> omega
  have h42 : c.toNat ≠ 42 := by rcases h with h | h | h <;> omega
  refine ⟨⟨ne_of_toNat _ _ h40, ne_of_toNat _ _ h41, ne_of_toNat _ _ h44, isWs_false_of c ?_⟩,
    ne_of_toNat _ _ h42⟩
  intro k hk
  simp only [List.mem_cons, List.not_mem_nil, or_false] at hk
  rcases hk with rfl | rfl | rfl | rfl | rfl | rfl <;> rcases h with h | h | h <;> omega

theorem punct_plain : ∀ c ∈ ['{', '}', '+', '-', '[', ']'], PlainC c ∧ c ≠ '*' := by decide

theorem low_inert (c : Char) (h : isLow c = true) : Inert c := by
  have hr := low_range c h
  constructor
  · simp only [isUp, Bool.and_eq_false_iff, decide_eq_false_iff_not]
    right
    intro ha
    have : c.toNat ≤ 90 := ha
    omega
  · exact ne_of_toNat _ _ (by show c.toNat ≠ 91; omega)

/-- the isotope/charge suffix: empty or `{` + digits/signs + `}` -/
def BraceOK (br : Str) : Prop :=
  br = [] ∨ ∃ body, body ≠ [] ∧ (∀ c ∈ body, isDig c = true ∨ c = '+' ∨ c = '-') ∧ br = '{' :: body ++ ['}']

/-- the documented species notation: one capital with an optional small letter, or a nucleon
    symbol, followed by an optional suffix -/
def SpeciesShape (s : Str) : Prop :=
  ∃ sym br, s = sym ++ br ∧ BraceOK br ∧
    ((∃ u, isUp u = true ∧ sym = [u]) ∨ (∃ u l, isUp u = true ∧ isLow l = true ∧ sym = [u, l]) ∨
     (∃ x, (x = 'p' ∨ x = 'n' ∨ x = 'e') ∧ sym = ['[', x, ']']))

theorem brace_chars (br : Str) (h : BraceOK br) :
    ∀ c ∈ br, (PlainC c ∧ c ≠ '*') ∧ Inert c := by
  rcases h with rfl | ⟨body, _, hb, rfl⟩
  · simp
  · intro c hc
    simp only [List.mem_cons, List.mem_append, List.not_mem_nil, or_false] at hc
    rcases hc with (rfl | hc) | rfl
    · exact ⟨by decide, by decide⟩
    · rcases hb c hc with hd | rfl | rfl
      · exact ⟨word_plain c (Or.inr (Or.inr (dig_range c hd))), inert_of_isDig c hd⟩
      · exact ⟨by decide, by decide⟩
      · exact ⟨by decide, by decide⟩
    · exact ⟨by decide, by decide⟩

/-- head of what follows a species in explicit text -/
theorem stop_head (rest : Str) (h : StopR rest) :
    rest = [] ∨ ∃ c r, rest = c :: r ∧ (c = ' ' ∨ c = ')') := by
  rcases h with rfl | ⟨r, rfl⟩ | ⟨x, r, rfl, _⟩
  · exact Or.inl rfl
  · exact Or.inr ⟨_, _, rfl, Or.inr rfl⟩
  · exact Or.inr ⟨_, _, rfl, Or.inl rfl⟩

theorem matchBrace_stop (br rest : Str) (hb : BraceOK br) (hst : StopR rest) :
    matchBrace (br ++ rest) = (br, rest) := by
  rcases hb with rfl | ⟨body, hne, hbody, rfl⟩
  · rcases stop_head rest hst with rfl | ⟨c, r, rfl, hc⟩
    · rfl
    · rcases hc with rfl | rfl <;> rfl
  · have hcls : ∀ c ∈ body, (isDig c || c == '+' || c == '-') = true := by
      intro c hc
      rcases hbody c hc with h | rfl | rfl
      · simp [h]
      · decide
      · decide
    have hq : (isDig '}' || '}' == '+' || '}' == '-') = false := by decide
    have h1 : (body ++ '}' :: rest).takeWhile (fun c => isDig c || c == '+' || c == '-') = body := by
      rw [List.takeWhile_append_of_pos hcls, List.takeWhile_cons, hq]
      simp
    have h2 : (body ++ '}' :: rest).dropWhile (fun c => isDig c || c == '+' || c == '-') = '}' :: rest := by
      rw [List.dropWhile_append_of_pos hcls, List.dropWhile_cons, hq]
      simp
    have he : body.isEmpty = false := by
      cases body with
      | nil => exact absurd rfl hne
      | cons a t => rfl
    simp only [List.cons_append, List.append_assoc, List.singleton_append, List.nil_append, matchBrace,
      List.span_eq_takeWhile_dropWhile]
    rw [h2, h1]
    simp [he]

theorem span_isDig_stop (rest : Str) (hst : StopR rest) : rest.span isDig = ([], rest) := by
  rcases stop_head rest hst with rfl | ⟨c, r, rfl, hc⟩
  · rfl
  · rcases hc with rfl | rfl <;> simp [List.span_eq_takeWhile_dropWhile, List.takeWhile_cons, List.dropWhile_cons, isDig]

/-- head character of `br ++ rest` is not a letter -/
theorem after_sym_head (br rest : Str) (hb : BraceOK br) (hst : StopR rest) :
    br ++ rest = [] ∨ ∃ c r, br ++ rest = c :: r ∧ isUp c = false ∧ isLow c = false := by
  rcases hb with rfl | ⟨body, _, _, rfl⟩
  · rcases stop_head rest hst with rfl | ⟨c, r, rfl, hc⟩
    · exact Or.inl rfl
    · exact Or.inr ⟨c, r, rfl, by rcases hc with rfl | rfl <;> decide⟩
  · exact Or.inr ⟨'{', _, rfl, by decide, by decide⟩

theorem matchP_up1 (u : Char) (w : Str) (hu : isUp u = true)
    (hw : w = [] ∨ ∃ c r, w = c :: r ∧ isUp c = false ∧ isLow c = false) :
    matchP (u :: w) = some (1, [u], (matchBrace w).1, ((matchBrace w).2.span isDig).1,
      ((matchBrace w).2.span isDig).2) := by
  rcases hw with rfl | ⟨c, r, rfl, hc1, hc2⟩
  · simp [matchP, hu, List.span_eq_takeWhile_dropWhile, List.takeWhile_cons, List.dropWhile_cons]
  · simp [matchP, hu, hc1, hc2, List.span_eq_takeWhile_dropWhile, List.takeWhile_cons, List.dropWhile_cons]

theorem matchP_up2 (u l : Char) (w : Str) (hu : isUp u = true) (hl : isLow l = true) (hlu : isUp l = false) :
    matchP (u :: l :: w) = some (1, [u, l], (matchBrace w).1, ((matchBrace w).2.span isDig).1,
      ((matchBrace w).2.span isDig).2) := by
  simp [matchP, hu, hl, hlu, List.span_eq_takeWhile_dropWhile, List.takeWhile_cons, List.dropWhile_cons]

theorem matchP_nuc (x : Char) (w : Str) (hx : (x == 'p' || x == 'n' || x == 'e') = true) :
    matchP ('[' :: x :: ']' :: w) = some (0, ['[', x, ']'], (matchBrace w).1, ((matchBrace w).2.span isDig).1,
      ((matchBrace w).2.span isDig).2) := by
  have hb0 : isUp '[' = false := by decide
  simp only [matchP, hb0, Bool.false_eq_true, if_false, hx, if_true]

theorem speciesText_of_shape (s : Str) (h : SpeciesShape s) : SpeciesText s := by
  obtain ⟨sym, br, rfl, hb, hsym⟩ := h
  have hbr := brace_chars br hb
  rcases hsym with ⟨u, hu, rfl⟩ | ⟨u, l, hu, hl, rfl⟩ | ⟨x, hx, rfl⟩
  · -- one capital
    have hup := word_plain u (Or.inl (up_range u hu))
    refine ⟨⟨u, br, rfl, ?_, fun c hc => (hbr c hc).2⟩, ?_, ?_, ?_⟩
    · have := up_range u hu
      simp only [isDig, Bool.and_eq_false_iff, decide_eq_false_iff_not]
      right; intro hc; have : u.toNat ≤ 57 := hc; omega
    · intro c hc
      rcases List.mem_cons.mp hc with rfl | hc
      · exact hup.1
      · exact (hbr c hc).1.1
    · intro c hc
      rcases List.mem_cons.mp hc with rfl | hc
      · exact hup.2
      · exact (hbr c hc).1.2
    · intro rest hst
      refine ⟨1, [u], br, ?_, le_refl 1, rfl⟩
      show matchP (u :: (br ++ rest)) = _
      rw [matchP_up1 u _ hu (after_sym_head br rest hb hst), matchBrace_stop br rest hb hst,
        span_isDig_stop rest hst]
  · -- capital + small letter
    have hup := word_plain u (Or.inl (up_range u hu))
    have hlp := word_plain l (Or.inr (Or.inl (low_range l hl)))
    have hlu : isUp l = false := (low_inert l hl).1
    refine ⟨⟨u, l :: br, rfl, ?_, ?_⟩, ?_, ?_, ?_⟩
    · have := up_range u hu
      simp only [isDig, Bool.and_eq_false_iff, decide_eq_false_iff_not]
      right; intro hc; have : u.toNat ≤ 57 := hc; omega
    · intro c hc
      rcases List.mem_cons.mp hc with rfl | hc
      · exact low_inert _ hl
      · exact (hbr c hc).2
    · intro c hc
      simp only [List.cons_append, List.nil_append, List.mem_cons] at hc
      rcases hc with rfl | rfl | hc
      · exact hup.1
      · exact hlp.1
      · exact (hbr c hc).1.1
    · intro c hc
      simp only [List.cons_append, List.nil_append, List.mem_cons] at hc
      rcases hc with rfl | rfl | hc
      · exact hup.2
      · exact hlp.2
      · exact (hbr c hc).1.2
    · intro rest hst
      refine ⟨1, [u, l], br, ?_, le_refl 1, rfl⟩
      show matchP (u :: l :: (br ++ rest)) = _
      rw [matchP_up2 u l _ hu hl hlu, matchBrace_stop br rest hb hst, span_isDig_stop rest hst]
  · -- nucleon symbol
    have hxp : PlainC x ∧ x ≠ '*' ∧ Inert x ∧ isUp x = false := by
      rcases hx with rfl | rfl | rfl <;> decide
    refine ⟨⟨'[', x :: ']' :: br, rfl, by decide, ?_⟩, ?_, ?_, ?_⟩
    · intro c hc
      simp only [List.mem_cons] at hc
      rcases hc with rfl | rfl | hc
      · exact hxp.2.2.1
      · decide
      · exact (hbr c hc).2
    · intro c hc
      simp only [List.cons_append, List.nil_append, List.mem_cons] at hc
      rcases hc with rfl | rfl | rfl | hc
      · decide
      · exact hxp.1
      · decide
      · exact (hbr c hc).1.1
    · intro c hc
      simp only [List.cons_append, List.nil_append, List.mem_cons] at hc
      rcases hc with rfl | rfl | rfl | hc
      · decide
      · exact hxp.2.1
      · decide
      · exact (hbr c hc).1.2
    · intro rest hst
      refine ⟨0, ['[', x, ']'], br, ?_, by omega, rfl⟩
      have hxx : (x == 'p' || x == 'n' || x == 'e') = true := by
        rcases hx with rfl | rfl | rfl <;> decide
      show matchP ('[' :: x :: ']' :: (br ++ rest)) = _
      rw [matchP_nuc x _ hxx, matchBrace_stop br rest hb hst, span_isDig_stop rest hst]

theorem spAll_mono {P Q : Str → Prop} (hPQ : ∀ s, P s → Q s) (f : F) (h : f.spAll P) : f.spAll Q := by
  induction f with
  | sp s => exact hPQ s h
  | count f n ih => exact ih h
  | mulx f n ih => exact ih h
  | group f ih => exact ih h
  | seq ws a b iha ihb => exact ⟨iha h.1, ihb h.2⟩
  | plus a b iha ihb => exact ⟨iha h.1, ihb h.2⟩

theorem speciesOK_of_text (valid : Str → Bool) (s : Str) (h : SpeciesText s) (hv : valid s = true) :
    SpeciesOK valid s := by
  obtain ⟨⟨c0, t, rfl, hd, _⟩, hp, _, _⟩ := h
  refine ⟨by simp, hp, ?_, hv⟩
  intro c t' e
  simp only [List.cons.injEq] at e
  rw [← e.1]; exact hd

theorem renderExplicit_ne_nil (f : F) (hs : f.spAll SpeciesText) : renderExplicit f ≠ [] := by
  obtain ⟨⟨a, t, e, _⟩, _⟩ := edge_rE' f hs
  rw [e]; simp

end SciVerif.C10
