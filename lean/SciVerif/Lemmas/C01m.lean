import SciVerif.Lemmas.C01g

/-!
# C01 helper lemmas, part 13: whatever `solve` accepts has balanced parentheses.
-/
namespace SciVerif.C01
open SciVerif.C01.Gen

variable {A : Type} (alg : AtomAlg A)

/-! ### the depth counter -/

theorem bal_append (u v : List Char) (k : Nat) : bal (u ++ v) k = (bal u k).bind (bal v) := by
  induction u generalizing k with
  | nil => rfl
  | cons c cs ih =>
    simp only [List.cons_append, bal]
    split
    · exact ih _
    · split
      · split
        · rfl
        · exact ih _
      · exact ih _

theorem bal_shift (w : List Char) (k k' j : Nat) (h : bal w k = some k') : bal w (k + j) = some (k' + j) := by
  induction w generalizing k with
  | nil => simp [bal] at h ⊢; omega
  | cons c cs ih =>
    simp only [bal] at h ⊢
    by_cases h1 : c = '('
    · simp only [h1, if_true] at h ⊢
      have := ih (k + 1) h
      rw [show k + 1 + j = k + j + 1 by omega] at this; exact this
    · simp only [h1, if_false] at h ⊢
      by_cases h2 : c = ')'
      · simp only [h2, if_true] at h ⊢
        by_cases hk : k = 0
        · simp [hk] at h
        · simp only [hk, if_false] at h
          have hkj : k + j ≠ 0 := by omega
          simp only [hkj, if_false]
          have := ih (k - 1) h
          rw [show k - 1 + j = k + j - 1 by omega] at this; exact this
      · simp only [h2, if_false] at h ⊢
        exact ih k h

/-! ### `findOp` and prefixes -/

theorem findOpFrom_some (rows : List OpRow) (j i : Nat) (row : OpRow) (s : List Char)
    (h : findOpFrom j rows s = some (i, row)) : row ∈ rows ∧ row.symbol.isPrefixOf s = true := by
  induction rows generalizing j with
  | nil => simp [findOpFrom] at h
  | cons q qs ih =>
    simp only [findOpFrom] at h
    split at h
    · rename_i hq
      simp only [Option.some.injEq, Prod.mk.injEq] at h
      obtain ⟨_, rfl⟩ := h
      exact ⟨by simp, hq⟩
    · obtain ⟨h1, h2⟩ := ih (j + 1) h
      exact ⟨by simp [h1], h2⟩

theorem findOpFrom_ne_none (rows : List OpRow) (j : Nat) (row : OpRow) (s : List Char)
    (hm : row ∈ rows) (hp : row.symbol.isPrefixOf s = true) : findOpFrom j rows s ≠ none := by
  induction rows generalizing j with
  | nil => cases hm
  | cons q qs ih =>
    simp only [findOpFrom]
    split
    · simp
    · rename_i hq
      rcases List.mem_cons.mp hm with rfl | hm'
      · exact absurd hp hq
      · exact ih (j + 1) hm'

theorem isPrefixOf_eq (p s : List Char) (h : p.isPrefixOf s = true) : s = p ++ s.drop p.length := by
  induction p generalizing s with
  | nil => simp
  | cons c cs ih =>
    cases s with
    | nil => simp [List.isPrefixOf] at h
    | cons d ds =>
      simp only [List.isPrefixOf, Bool.and_eq_true, beq_iff_eq] at h
      obtain ⟨rfl, h2⟩ := h
      simp only [List.length_cons, List.drop_succ_cons, List.cons_append, List.cons.injEq, true_and]
      exact ih ds h2

/-! ### table facts -/

/-- a row either scans no arguments and its symbol leaves the depth alone, or it scans with
    `(` `,` `)` and its symbol opens exactly one parenthesis -/
def parShapeOK (r : OpRow) : Bool :=
  match r.par with
  | none => bal r.symbol 0 == some 0
  | some p => p == stdPar p.narg && bal r.symbol 0 == some 1

theorem fact_par_shape : dflt.rows.all parShapeOK = true := by decide

/-- an opening parenthesis is always taken by some operator -/
theorem fact_open_taken : dflt.rows.any (fun r => r.symbol == ['(']) = true := by decide

theorem findOp_open (r : List Char) : findOp dflt ('(' :: r) ≠ none := by
  obtain ⟨row, hm, hs⟩ := List.any_eq_true.mp fact_open_taken
  simp only [beq_iff_eq] at hs
  exact findOpFrom_ne_none dflt.rows 0 row _ hm (by rw [hs]; rfl)

/-! ### the scanner only accepts balanced arguments -/

theorem parScan_sound (narg : Nat) :
    ∀ (n d : Nat) (l r : List Char) (args : List (List Char)) (e' : Ex) (args' : List (List Char)),
      1 ≤ d → parScan (stdPar narg) n d ⟨l, r⟩ args = some (e', args') →
      ∃ w, r = w ++ ')' :: e'.right ∧ bal w (d - 1) = some 0 := by
  intro n
  induction n with
  | zero => intro d l r args e' args' _ h; simp [parScan] at h
  | succ n ih =>
    intro d l r args e' args' hd h
    cases r with
    | nil => simp [parScan] at h
    | cons c r1 =>
      by_cases h1 : c = '('
      · subst h1
        rw [parScan_open] at h
        obtain ⟨w, e1, e2⟩ := ih (d + 1) _ r1 args e' args' (by omega) h
        refine ⟨'(' :: w, by simp [e1], ?_⟩
        simp only [bal, if_true]
        rw [show d - 1 + 1 = d + 1 - 1 by omega]; exact e2
      · by_cases h2 : c = ')'
        · subst h2
          by_cases hd1 : d = 1
          · subst hd1
            rw [parScan_close_one] at h
            simp only [Option.some.injEq, Prod.mk.injEq] at h
            obtain ⟨rfl, _⟩ := h
            exact ⟨[], rfl, rfl⟩
          · rw [parScan_close_deep _ _ _ _ _ _ hd1] at h
            obtain ⟨w, e1, e2⟩ := ih (d - 1) _ r1 args e' args' (by omega) h
            refine ⟨')' :: w, by simp [e1], ?_⟩
            have hne : d - 1 ≠ 0 := by omega
            simp only [bal, h1, if_false, if_true, hne]
            exact e2
        · by_cases h3 : c = ','
          · subst h3
            by_cases hd1 : d = 1
            · subst hd1
              rw [parScan_sep_one] at h
              obtain ⟨w, e1, e2⟩ := ih 1 _ r1 _ e' args' (by omega) h
              exact ⟨',' :: w, by simp [e1], by simpa [bal] using e2⟩
            · rw [parScan_sep_deep _ _ _ _ _ _ hd1] at h
              obtain ⟨w, e1, e2⟩ := ih d _ r1 args e' args' hd h
              exact ⟨',' :: w, by simp [e1], by simpa [bal] using e2⟩
          · rw [parScan_neutral _ _ _ _ _ _ _ ⟨h1, h2, h3⟩] at h
            obtain ⟨w, e1, e2⟩ := ih d _ r1 args e' args' hd h
            exact ⟨c :: w, by simp [e1], by simpa [bal, h1, h2] using e2⟩

/-! ### a parenthesis in the atom text makes `solve` fail -/

theorem any_dropWhile (l : List Char) (h : l.any isParen = true) : (l.dropWhile isWs).any isParen = true := by
  induction l with
  | nil => simp at h
  | cons c cs ih =>
    by_cases hw : isWs c = true
    · have hc : isParen c = false := by
        simp only [isWs, Bool.or_eq_true, beq_iff_eq] at hw
        rcases hw with ((((rfl | rfl) | rfl) | rfl) | rfl) | rfl <;> decide
      simp only [List.any_cons, hc, Bool.false_or] at h
      simp [List.dropWhile_cons, hw, ih h]
    · simp only [List.dropWhile_cons, hw, Bool.false_eq_true, if_false]; exact h

theorem any_strip (l : List Char) (h : l.any isParen = true) : (strip l).any isParen = true := by
  unfold strip
  rw [List.any_reverse]
  apply any_dropWhile
  rw [List.any_reverse]
  exact any_dropWhile l h

theorem pushAtom_paren (hpf : ParenFree alg) (l : List Char) (h : l.any isParen = true) (b : Bufs A) :
    pushAtom alg (strip l) b = .error (b, "atom") := by
  have hs := any_strip l h
  have hne : (strip l).isEmpty = false := by
    cases hh : strip l with
    | nil => rw [hh] at hs; simp at hs
    | cons _ _ => rfl
  simp [pushAtom, hne, hpf _ hs]

variable (sa : Bufs A → List Char → Bufs A × Except String (Tok A))

theorem tokLoop_paren_left (hpf : ParenFree alg) :
    ∀ (n : Nat) (lw s : List Char) (b : Bufs A), lw.any isParen = true →
      ∃ err, tokLoop dflt alg sa n ⟨lw, s⟩ b = .error err := by
  intro n
  induction n with
  | zero => intro lw s b _; exact ⟨_, rfl⟩
  | succ n ih =>
    intro lw s b h
    cases s with
    | nil => exact ⟨_, by rw [tokLoop_end]; exact pushAtom_paren alg hpf lw h b⟩
    | cons c s' =>
      cases hf : findOp dflt (c :: s') with
      | none =>
        rw [tokLoop_shift alg sa _ _ _ _ _ hf]
        exact ih _ _ _ (by simp [h])
      | some ir =>
        refine ⟨(b, "atom"), ?_⟩
        simp [tokLoop, hf, Ex.popLeft, pushAtom_paren alg hpf lw h b]

/-- whatever the tokeniser loop accepts has balanced parentheses -/
theorem tokLoop_balanced (hpf : ParenFree alg) :
    ∀ (n : Nat) (lw s : List Char) (b b' : Bufs A),
      tokLoop dflt alg sa n ⟨lw, s⟩ b = .ok b' → bal s 0 = some 0 := by
  intro n
  induction n with
  | zero => intro lw s b b' h; simp [tokLoop] at h
  | succ n ih =>
    intro lw s b b' h
    cases s with
    | nil => rfl
    | cons c s' =>
      cases hf : findOp dflt (c :: s') with
      | none =>
        rw [tokLoop_shift alg sa _ _ _ _ _ hf] at h
        have h1 : c ≠ '(' := by rintro rfl; exact findOp_open s' hf
        have h2 : c ≠ ')' := by
          rintro rfl
          obtain ⟨err, he⟩ := tokLoop_paren_left alg sa hpf n (lw ++ [')']) s' b (by simp [isParen])
          rw [he] at h; cases h
        simp only [bal, h1, h2, if_false]
        exact ih _ _ _ _ h
      | some ir =>
        obtain ⟨i, row⟩ := ir
        obtain ⟨hmem, hpre⟩ := findOpFrom_some _ _ _ _ _ hf
        have hshape := List.all_eq_true.mp fact_par_shape row hmem
        have hs := isPrefixOf_eq _ _ hpre
        simp only [tokLoop, List.isEmpty_cons, Bool.false_eq_true, if_false, hf, Ex.popLeft, Ex.remove] at h
        cases hp : pushAtom alg (strip lw) b with
        | error e => rw [hp] at h; cases h
        | ok b1 =>
          rw [hp] at h
          simp only at h
          unfold parShapeOK at hshape
          cases hpar : row.par with
          | none =>
            rw [hpar] at h hshape
            simp only [beq_iff_eq] at hshape h
            have := ih _ _ _ _ h
            rw [hs, bal_append, hshape]
            exact this
          | some p =>
            rw [hpar] at h hshape
            simp only [Bool.and_eq_true, beq_iff_eq] at hshape h
            obtain ⟨hp1, hp2⟩ := hshape
            cases hsc : parScan p (((c :: s').drop row.symbol.length).length + 1) 1
                ⟨[], (c :: s').drop row.symbol.length⟩ [] with
            | none => rw [hsc] at h; cases h
            | some ea =>
              obtain ⟨e3, args⟩ := ea
              rw [hsc] at h
              simp only at h
              rw [hp1] at hsc
              obtain ⟨w, e1, e2⟩ := parScan_sound p.narg _ 1 _ _ _ _ _ (by omega) hsc
              split at h
              · cases h
              · cases hsa : solveArgs sa ⟨[], []⟩ args with
                | error m => rw [hsa] at h; cases h
                | ok vals =>
                  rw [hsa] at h
                  simp only at h
                  have hr := ih e3.left e3.right _ _ h
                  rw [hs, e1, bal_append, hp2]
                  simp only [Option.bind_some]
                  rw [bal_append, bal_shift w 0 0 1 e2]
                  simp only [Option.bind_some, Nat.zero_add]
                  simpa [bal] using hr

end SciVerif.C01
