import SciVerif.Lemmas.C07f

/-!
Lemmas for C07, part 7: observations are stable under a frame; `step` preserves the invariant.
-/
namespace SciVerif.C07

theorem see_stable {h h' : Heap} {qx mx ax : Option Nat} (fr : Frame h h' qx mx ax) (r : Ref)
    (hlt : ∀ l, r = .arr l → l < h.n ∧ some l ≠ ax) : see h' r = see h r := by
  cases r with
  | none => rfl
  | scalar t => rfl
  | arr l => simp only [see]; rw [fr.a_eq l (hlt l rfl).1 (hlt l rfl).2]

/-- what is observed of a quantity that existed before does not change when none of its cells is among
    the excepted ones -/
theorem obs_stable {h h' : Heap} {qx mx ax : Option Nat} (w : WF h) (fr : Frame h h' qx mx ax)
    (x : Nat) (qc : Qty) (hq : h.q x = some qc) (hx : some x ≠ qx) (hm : some qc.mag ≠ mx)
    (ha : ∀ mc f r, h.m qc.mag = some mc → mc.field f = .arr r → some r ≠ ax) :
    obs h' x = obs h x := by
  have hxl := w.q_lt x qc hq
  obtain ⟨⟨mc, hmc⟩, ⟨bc, hbc⟩⟩ := w.q_ok x qc hq
  obtain ⟨dc, hdc, _⟩ := w.b_ok _ bc hbc
  have e1 : h'.q x = some qc := by rw [fr.q_eq x hxl hx]; exact hq
  have e2 : h'.m qc.mag = some mc := by rw [fr.m_eq _ (w.m_lt _ mc hmc) hm]; exact hmc
  have e3 : h'.b qc.bu = some bc := by rw [fr.b_eq _ (w.b_lt _ bc hbc)]; exact hbc
  have e4 : h'.d bc.dict = some dc := by rw [fr.d_eq _ (w.d_lt _ dc hdc)]; exact hdc
  have e5 : see h' mc.value = see h mc.value := by
    apply see_stable fr
    intro l hl
    obtain ⟨t, ht⟩ := w.m_ok _ mc true l hmc (by simp [Mag.field, hl])
    exact ⟨w.a_lt l t ht, ha mc true l hmc (by simp [Mag.field, hl])⟩
  have e6 : see h' mc.error = see h mc.error := by
    apply see_stable fr
    intro l hl
    obtain ⟨t, ht⟩ := w.m_ok _ mc false l hmc (by simp [Mag.field, hl])
    exact ⟨w.a_lt l t ht, ha mc false l hmc (by simp [Mag.field, hl])⟩
  simp only [obs, hq, hmc, hbc, hdc, e1, e2, e3, e4, e5, e6]

/-- frozen units: no BaseUnits object and no dict that existed before is written -/
def UnitsFrozen (h h' : Heap) : Prop :=
  (∀ l c, h.b l = some c → h'.b l = some c) ∧ (∀ l c, h.d l = some c → h'.d l = some c)

theorem Frame.frozen {h h' : Heap} {qx mx ax : Option Nat} (w : WF h) (fr : Frame h h' qx mx ax) :
    UnitsFrozen h h' :=
  ⟨fun l c hb => by rw [fr.b_eq l (w.b_lt l c hb)]; exact hb,
   fun l c hd => by rw [fr.d_eq l (w.d_lt l c hd)]; exact hd⟩

/-- the cells an operation is allowed to write: the quantity cell of the target (to, rebase), the
    target's Magnitude (abse, rele), one of the target's arrays (in-place array write) -/
structure StepOK (h : Heap) (op : Op) (h' : Heap) : Prop where
  wf : WF h'
  stable : ∀ x qc, h.q x = some qc → some x ≠ target op → obs h' x = obs h x
  frozen : UnitsFrozen h h'
  n_le : h.n ≤ h'.n
  q_keep : ∀ x qc, h.q x = some qc → some x ≠ target op → h'.q x = some qc

theorem stepOK_of_frame {h h' : Heap} {op : Op} (w : WF h) (w' : WF h') {qx : Option Nat}
    (fr : Frame h h' qx none none) (hqx : qx = none ∨ qx = target op) : StepOK h op h' := by
  refine ⟨w', ?_, fr.frozen w, fr.n_le, ?_⟩
  · intro x qc hq hx
    apply obs_stable w fr x qc hq _ (by simp) (by simp)
    rcases hqx with e | e <;> rw [e]
    · simp
    · exact hx
  · intro x qc hq hx
    rw [fr.q_eq x (w.q_lt x qc hq) (by rcases hqx with e | e <;> rw [e]; simp; exact hx)]
    exact hq

theorem step_ok {h : Heap} (w : WF h) (op : Op) : StepOK h op (step h op).1 := by
  have generic : ∀ op', (∀ s, compile h op' = some s → True) →
      step h op' = (match compile h op' with | some s => exec h s | none => (h, .invalid)) →
      StepOK h op' (step h op').1 := by
    intro op' _ he
    rw [he]
    cases hc : compile h op' with
    | none => exact stepOK_of_frame w w (Frame.refl h) (Or.inl rfl)
    | some s =>
      obtain ⟨w', fr, _, _, _⟩ := exec_spec w s (compile_valid w op' s hc)
      exact stepOK_of_frame w w' fr (compile_kind op' s hc)
  cases op with
  | abse a =>
    simp only [step]
    cases hm : magOf h a with
    | none => exact stepOK_of_frame w w (Frame.refl h) (Or.inl rfl)
    | some p =>
      obtain ⟨ml, c⟩ := p
      obtain ⟨qa, hqa, hml, hmc⟩ := magOf_some hm
      obtain ⟨w', fr, _, _, _, _⟩ := setField_spec w ml c hmc false false ⟨by simp, by simp⟩
      refine ⟨w', ?_, fr.frozen w, fr.n_le, ?_⟩
      · intro x qc hq hx
        apply obs_stable w fr x qc hq (by simp) _ (by simp)
        intro e
        simp only [Option.some.injEq] at e
        exact hx (by rw [w.own_mag x a qc qa hq hqa (by rw [e, hml])]; rfl)
      · intro x qc hq _
        show (setField h ml c false false).q x = some qc
        rw [fr.q_eq x (w.q_lt x qc hq) (by simp)]; exact hq
  | rele a =>
    simp only [step]
    cases hm : magOf h a with
    | none => exact stepOK_of_frame w w (Frame.refl h) (Or.inl rfl)
    | some p =>
      obtain ⟨ml, c⟩ := p
      obtain ⟨qa, hqa, hml, hmc⟩ := magOf_some hm
      obtain ⟨w', fr, _, _, _, _⟩ := setField_spec w ml c hmc false c.value.isArr ⟨by simp, fun _ hh => hh⟩
      refine ⟨w', ?_, fr.frozen w, fr.n_le, ?_⟩
      · intro x qc hq hx
        apply obs_stable w fr x qc hq (by simp) _ (by simp)
        intro e
        simp only [Option.some.injEq] at e
        exact hx (by rw [w.own_mag x a qc qa hq hqa (by rw [e, hml])]; rfl)
      · intro x qc hq _
        show (setField h ml c false c.value.isArr).q x = some qc
        rw [fr.q_eq x (w.q_lt x qc hq) (by simp)]; exact hq
  | poke a err =>
    cases hm : magOf h a with
    | none => simp only [step, hm]; exact stepOK_of_frame w w (Frame.refl h) (Or.inl rfl)
    | some p =>
      obtain ⟨ml, c⟩ := p
      obtain ⟨qa, hqa, hml, hmc⟩ := magOf_some hm
      cases hf : c.field (!err) with
      | none => simp only [step, hm, hf]; exact stepOK_of_frame w w (Frame.refl h) (Or.inl rfl)
      | scalar t => simp only [step, hm, hf]; exact stepOK_of_frame w w (Frame.refl h) (Or.inl rfl)
      | arr l =>
        simp only [step, hm, hf]
        obtain ⟨t, ht⟩ := w.m_ok ml c (!err) l hmc hf
        have hl := w.a_lt l t ht
        have w' : WF (pokeArr h l) := by
          have wb := w.bump
          constructor
          · exact wb.q_lt
          · exact wb.m_lt
          · intro l' c' hh
            by_cases e : l' = l
            · subst e; simp [pokeArr]; omega
            · simp only [pokeArr, upd_ne _ _ _ _ e] at hh; exact wb.a_lt l' c' hh
          · exact wb.b_lt
          · exact wb.d_lt
          · exact w.q_ok
          · intro l1 c1 f r h1 h2
            obtain ⟨t', ht'⟩ := w.m_ok l1 c1 f r h1 h2
            by_cases e : r = l
            · exact ⟨h.n, by simp [pokeArr, e]⟩
            · exact ⟨t', by simp [pokeArr, upd_ne _ _ _ _ e, ht']⟩
          · exact w.b_ok
          · exact w.shaped
          · exact w.own_mag
          · exact w.own_arr
        have fr : Frame h (pokeArr h l) none none (some l) := by
          constructor
          · simp [pokeArr]
          · intro _ _ _; rfl
          · intro _ _ _; rfl
          · intro l' _ hx; exact upd_ne _ _ _ _ (by intro e; exact hx (by rw [e]))
          · intro _ _; rfl
          · intro _ _; rfl
        refine ⟨w', ?_, fr.frozen w, fr.n_le, ?_⟩
        · intro x qc hq hx
          apply obs_stable w fr x qc hq (by simp) (by simp)
          intro mc f r hmx hfx e
          simp only [Option.some.injEq] at e
          subst e
          obtain ⟨e1, _⟩ := w.own_arr qc.mag ml mc c f (!err) r hmx hmc hfx hf
          exact hx (by rw [w.own_mag x a qc qa hq hqa (by rw [e1, hml])]; rfl)
        · intro x qc hq _; exact hq
  | new isArr hasErr f => exact generic _ (fun _ _ => trivial) rfl
  | add a b f => exact generic _ (fun _ _ => trivial) rfl
  | sub a b f => exact generic _ (fun _ _ => trivial) rfl
  | mul a b f => exact generic _ (fun _ _ => trivial) rfl
  | div a b f => exact generic _ (fun _ _ => trivial) rfl
  | pow a f => exact generic _ (fun _ _ => trivial) rfl
  | neg a f => exact generic _ (fun _ _ => trivial) rfl
  | eq a b f => exact generic _ (fun _ _ => trivial) rfl
  | ufunc u a f => exact generic _ (fun _ _ => trivial) rfl
  | space a b f => exact generic _ (fun _ _ => trivial) rfl
  | space1 b f => exact generic _ (fun _ _ => trivial) rfl
  | value a f => exact generic _ (fun _ _ => trivial) rfl
  | to a u f => exact generic _ (fun _ _ => trivial) rfl
  | rebase a => exact generic _ (fun _ _ => trivial) rfl

end SciVerif.C07
