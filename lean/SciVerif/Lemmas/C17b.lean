import SciVerif.Lemmas.C17

/-! More helper lemmas for C17: query text, name surgery, slices, frame properties. -/
namespace SciVerif.C17

/-! ### query text -/

theorem parseQuery_children (p : Str) : parseQuery (p ++ ['.', '*']) = .children (p ++ ['.']) := by
  unfold parseQuery
  have h1 : p ++ ['.', '*'] ≠ ['*'] := by
    intro h
    have := congrArg List.length h
    simp at this
  have hl : (p ++ ['.', '*']).length - 2 = p.length := by simp
  have hl1 : (p ++ ['.', '*']).length - 1 = p.length + 1 := by simp
  rw [if_neg h1, hl, hl1]
  have h2 : (p ++ ['.', '*']).drop p.length = dotStar := by simp [dotStar]
  rw [if_pos h2]
  congr 1
  have : p ++ ['.', '*'] = (p ++ ['.']) ++ ['*'] := by simp
  rw [this, List.take_left' (by simp)]

theorem lastComp_nodot (c : Str) (hc : '.' ∉ c) : lastComp c = c := by
  induction c with
  | nil => rfl
  | cons x t ih =>
    have hx : x ≠ '.' := fun e => hc (by simp [e])
    have ht : '.' ∉ t := fun e => hc (by simp [e])
    simp [lastComp, ht, hx]

theorem lastComp_append (p c : Str) (hc : '.' ∉ c) : lastComp (p ++ '.' :: c) = c := by
  induction p with
  | nil =>
    simp [lastComp, hc]
  | cons x t ih =>
    have : (t ++ '.' :: c).contains '.' = true := by simp
    simp only [List.cons_append, lastComp, this, if_true]
    exact ih

/-! ### import name surgery -/

theorem splitDotBrace_nobrace (s : Str) (hs : '{' ∉ s) : splitDotBrace s = [s] := by
  induction s with
  | nil => simp [splitDotBrace]
  | cons c t ih =>
    have ht : '{' ∉ t := fun e => hs (by simp [e])
    have hh : t.head? ≠ some '{' := by
      intro e
      cases t with
      | nil => simp at e
      | cons a r => simp at e; exact ht (by simp [e])
    have hcond : ¬ (c = '.' ∧ t.head? = some '{') := fun h => hh h.2
    rw [splitDotBrace, if_neg hcond, ih ht]

theorem splitDotBrace_cons_nobrace (c : Char) (t : Str) (ht : '{' ∉ t) :
    splitDotBrace (c :: t) = [c :: t] := by
  have hh : t.head? ≠ some '{' := by
    intro e
    cases t with
    | nil => simp at e
    | cons a r => simp at e; exact ht (by simp [e])
  have hcond : ¬ (c = '.' ∧ t.head? = some '{') := fun h => hh h.2
  rw [splitDotBrace, if_neg hcond, splitDotBrace_nobrace t ht]

theorem splitDotBrace_prefix (p rest : Str) (hp : '{' ∉ p) :
    splitDotBrace (p ++ '.' :: '{' :: rest) = p :: splitDotBrace rest := by
  induction p with
  | nil =>
    rw [List.nil_append, splitDotBrace]
    simp
  | cons c t ih =>
    have ht : '{' ∉ t := fun e => hp (by simp [e])
    have hc : c ≠ '{' := fun e => hp (by simp [e])
    have hh : (t ++ '.' :: '{' :: rest).head? ≠ some '{' := by
      cases t with
      | nil => simp
      | cons a r =>
        simp only [List.cons_append, List.head?_cons, ne_eq, Option.some.injEq]
        intro e; exact ht (by simp [e])
    have hcond : ¬ (c = '.' ∧ (t ++ '.' :: '{' :: rest).head? = some '{') := fun h => hh h.2
    rw [List.cons_append, splitDotBrace, if_neg hcond, ih ht]

theorem importName_prefixed (p r nodeName : Str) (hp : '{' ∉ p) (hr : '{' ∉ r) :
    importName (p ++ '.' :: '{' :: (r ++ ['}'])) nodeName = p ++ '.' :: nodeName := by
  have hr' : '{' ∉ r ++ ['}'] := by simp [hr]
  simp [importName, splitDotBrace_prefix p _ hp, splitDotBrace_nobrace _ hr', joinDot]

theorem importName_bare (r nodeName : Str) (hr : '{' ∉ r) :
    importName ('{' :: (r ++ ['}'])) nodeName = nodeName := by
  have hr' : '{' ∉ r ++ ['}'] := by simp [hr]
  simp [importName, splitDotBrace_cons_nobrace '{' _ hr', joinDot]

/-! ### slices -/

theorem pySlice_pySlice {α : Type} (l : List α) (a b c d : Nat) :
    pySlice (pySlice l (some a) (some b)) (some c) (some d) =
      pySlice l (some (a + c)) (some (min b (a + d))) := by
  simp only [pySlice, Option.getD_some]
  rw [List.take_drop, List.drop_drop, List.take_take]
  congr 2
  omega

mutual
/-- no text leaf anywhere in the value -/
def noText : Val → Bool
  | .str _ => false
  | .arr l => noTextL l
  | _ => true
def noTextL : List Val → Bool
  | [] => true
  | x :: t => noText x && noTextL t
end

theorem noTextL_mem {l : List Val} (h : noTextL l = true) : ∀ x ∈ l, noText x = true := by
  induction l with
  | nil => intro x hx; cases hx
  | cons a t ih =>
    simp only [noTextL, Bool.and_eq_true] at h
    intro x hx
    cases hx with
    | head => exact h.1
    | tail _ hx => exact ih h.2 x hx

theorem mapM_congr_opt {α β : Type} (f g : α → Option β) (l : List α) (h : ∀ x ∈ l, f x = g x) :
    l.mapM f = l.mapM g := by
  induction l with
  | nil => rfl
  | cons a t ih =>
    simp only [List.mapM_cons]
    rw [h a (by simp), ih (fun x hx => h x (by simp [hx]))]

theorem mem_pySlice {α : Type} {l : List α} {a b : Option Nat} {x : α} (h : x ∈ pySlice l a b) : x ∈ l := by
  unfold pySlice at h
  exact List.mem_of_mem_take (List.mem_of_mem_drop h)

/-- on values without text the code's `slice_value` IS numpy/Python slicing -/
theorem slice_python_eq (ss : List Sl) (v : Val) (ht : noText v = true) :
    sliceValue ss v = specSlice ss v := by
  induction ss generalizing v with
  | nil => simp [sliceValue, specSlice]
  | cons s rest ih =>
    cases v with
    | num q => cases s <;> simp [sliceValue, specSlice]
    | bool b => cases s <;> simp [sliceValue, specSlice]
    | str t => simp [noText] at ht
    | arr l =>
      have hl : ∀ x ∈ l, noText x = true := noTextL_mem (by simpa [noText] using ht)
      cases s with
      | idx n =>
        simp only [sliceValue, specSlice]
        cases hx : l[n]? with
        | none => rfl
        | some x => exact ih x (hl x (List.mem_of_getElem? hx))
      | rng a b =>
        cases rest with
        | nil => simp [sliceValue, specSlice]
        | cons s2 rest2 =>
          simp only [sliceValue, specSlice]
          rw [mapM_congr_opt (fun x => sliceValue (s2 :: rest2) x) (fun x => specSlice (s2 :: rest2) x)
            (pySlice l a b) (fun x hx => ih x (hl x (mem_pySlice hx)))]

theorem mapM_imp_opt {α β : Type} (f g : α → Option β) (l : List α)
    (h : ∀ x ∈ l, ∀ r, g x = some r → f x = some r) (rs : List β) (hg : l.mapM g = some rs) :
    l.mapM f = some rs := by
  induction l generalizing rs with
  | nil => simpa using hg
  | cons a t ih =>
    simp only [List.mapM_cons] at hg ⊢
    cases hga : g a with
    | none => simp [hga] at hg
    | some r =>
      cases hgt : t.mapM g with
      | none => simp [hga, hgt] at hg
      | some rt =>
        simp only [hga, hgt] at hg
        rw [h a (by simp) r hga, ih (fun x hx => h x (by simp [hx])) rt hgt]
        exact hg

/-- whenever numpy/Python slicing is defined (text included), `slice_value` delivers exactly that -/
theorem slice_python (ss : List Sl) (v r : Val) (hsp : specSlice ss v = some r) :
    sliceValue ss v = some r := by
  induction ss generalizing v r with
  | nil => simpa [sliceValue, specSlice] using hsp
  | cons s rest ih =>
    cases v with
    | num q => cases s <;> cases rest <;> simp [specSlice] at hsp
    | bool b => cases s <;> cases rest <;> simp [specSlice] at hsp
    | str t =>
      cases s with
      | idx n =>
        cases rest with
        | nil =>
          simp only [specSlice] at hsp
          simp only [sliceValue]
          cases hc : t[n]? with
          | none => simp [hc] at hsp
          | some c => simpa [hc, sliceValue] using hsp
        | cons s2 r2 => simp [specSlice] at hsp
      | rng a b =>
        cases rest with
        | nil => simpa [specSlice, sliceValue] using hsp
        | cons s2 r2 => simp [specSlice] at hsp
    | arr l =>
      cases s with
      | idx n =>
        simp only [sliceValue]
        simp only [specSlice] at hsp
        cases hx : l[n]? with
        | none => simp [hx] at hsp
        | some x =>
          simp only [hx] at hsp ⊢
          exact ih x r hsp
      | rng a b =>
        cases rest with
        | nil => simpa [specSlice, sliceValue] using hsp
        | cons s2 rest2 =>
          simp only [specSlice] at hsp
          simp only [sliceValue]
          cases hm : (pySlice l a b).mapM (fun x => specSlice (s2 :: rest2) x) with
          | none => simp [hm] at hsp
          | some rs =>
            simp only [hm, Option.map_some, Option.some.injEq] at hsp
            rw [mapM_imp_opt (fun x => sliceValue (s2 :: rest2) x)
              (fun x => specSlice (s2 :: rest2) x) (pySlice l a b)
              (fun x _ r' hr' => ih x r' hr') rs hm]
            simp [hsp]

theorem castValue_fields (a b : Node) (v : Val) (h1 : a.kw = b.kw) (h2 : a.dims = b.dims)
    (h3 : a.slice = b.slice) : castValue a v = castValue b v := by
  unfold castValue
  rw [h1, h2, h3]

/-! ### frame properties -/

theorem hStep_frame {α : Type} (s : Heap α × List Nat) (op : HOp α) (n0 : Nat)
    (hinv : n0 ≤ s.1.length ∧ ∀ a ∈ s.2, n0 ≤ a) :
    (n0 ≤ (hStep s op).1.length ∧ ∀ a ∈ (hStep s op).2, n0 ≤ a) ∧
    ∀ a, a < n0 → (hStep s op).1[a]? = s.1[a]? := by
  cases op with
  | write i f =>
    simp only [hStep]
    cases hi : s.2[i]? with
    | none => exact ⟨hinv, fun a _ => rfl⟩
    | some addr =>
      have haddr : n0 ≤ addr := hinv.2 addr (List.mem_of_getElem? hi)
      refine ⟨⟨by simp [writeAt_length]; exact hinv.1, hinv.2⟩, fun a ha => ?_⟩
      exact writeAt_get_ne s.1 addr a f (by omega)
  | append n =>
    simp only [hStep]
    refine ⟨⟨by simp; omega, ?_⟩, fun a ha => ?_⟩
    · intro a ha
      simp only [List.mem_append, List.mem_singleton] at ha
      cases ha with
      | inl h => exact hinv.2 a h
      | inr h => rw [h]; exact hinv.1
    · rw [List.getElem?_append_left (by omega)]

theorem frame {α : Type} (h : Heap α) (base : List Nat) (ops : List (HOp α)) :
    ∀ a, a < h.length → (ops.foldl hStep (deepCopy h base)).1[a]? = h[a]? := by
  have key : ∀ (ops : List (HOp α)) (s : Heap α × List Nat),
      (h.length ≤ s.1.length ∧ ∀ a ∈ s.2, h.length ≤ a) →
      (∀ a, a < h.length → s.1[a]? = h[a]?) →
      ∀ a, a < h.length → (ops.foldl hStep s).1[a]? = h[a]? := by
    intro ops
    induction ops with
    | nil => intro s _ hs a ha; exact hs a ha
    | cons op rest ih =>
      intro s hinv hs a ha
      obtain ⟨hinv', hfr⟩ := hStep_frame s op h.length hinv
      exact ih (hStep s op) hinv' (fun a ha => by rw [hfr a ha]; exact hs a ha) a ha
  refine key ops (deepCopy h base) ⟨by simp [deepCopy], ?_⟩ ?_
  · intro a ha
    simp only [deepCopy, List.mem_range'_1] at ha
    exact ha.1
  · intro a ha
    simp only [deepCopy]
    rw [List.getElem?_append_left ha]

theorem filterMap_all_some {α β : Type} (f : α → Option β) (l : List α)
    (h : ∀ a ∈ l, (f a).isSome = true) :
    (l.filterMap f).length = l.length ∧ ∀ i : Nat, (l.filterMap f)[i]? = (l[i]?).bind f := by
  induction l with
  | nil => simp
  | cons a t ih =>
    obtain ⟨b, hb⟩ := Option.isSome_iff_exists.mp (h a (by simp))
    obtain ⟨hl, hg⟩ := ih (fun x hx => h x (by simp [hx]))
    simp only [List.filterMap_cons, hb]
    refine ⟨by simp [hl], fun i => ?_⟩
    cases i with
    | zero => simp [hb]
    | succ i => simpa using hg i

/-- the deep copy's i-th object is a fresh object equal to the original's i-th object -/
theorem deepCopy_get {α : Type} (h : Heap α) (addrs : List Nat) (hv : ∀ a ∈ addrs, a < h.length)
    (i : Nat) (hi : i < addrs.length) :
    (deepCopy h addrs).2[i]? = some (h.length + i) ∧
    (deepCopy h addrs).1[h.length + i]? = h[addrs[i]]? := by
  have hs : ∀ a ∈ addrs, (h[a]?).isSome = true := fun a ha => by
    simp [List.getElem?_eq_getElem (hv a ha)]
  obtain ⟨hl, hg⟩ := filterMap_all_some (fun a => h[a]?) addrs hs
  simp only [deepCopy]
  refine ⟨?_, ?_⟩
  · rw [List.getElem?_range' ] <;> simp [hl, hi]
  · rw [List.getElem?_append_right (by omega)]
    simp only [Nat.add_sub_cancel_left]
    rw [hg i, List.getElem?_eq_getElem hi]
    simp [List.getElem?_eq_getElem (hv addrs[i] (List.getElem_mem hi))]

theorem processNode_frame (tbl : UnitTable) (env env' : Env) (n : Node)
    (h : processNode tbl env n = .ok env') :
    env'.sources = env.sources ∧ env'.units = env.units := by
  unfold processNode at h
  cases hu : unitCheck tbl n with
  | error e => simp [hu] at h
  | ok u =>
    simp only [hu] at h
    split at h
    · cases h; exact ⟨rfl, rfl⟩
    · cases hsv : setValue (register env.parents n).2 with
      | error e => simp [hsv] at h
      | ok n2 =>
        simp only [hsv] at h
        cases hm : modifyFirst tbl n2 env.nodes with
        | error e => simp [hm] at h
        | ok r =>
          simp only [hm] at h
          cases r with
          | some ns => cases h; exact ⟨rfl, rfl⟩
          | none =>
            simp only at h
            split at h
            · cases h
            · cases h; exact ⟨rfl, rfl⟩

theorem foldlM_processNode_frame (tbl : UnitTable) (ns : List Node) (env env' : Env)
    (h : ns.foldlM (processNode tbl) env = .ok env') :
    env'.sources = env.sources ∧ env'.units = env.units := by
  induction ns generalizing env with
  | nil => simp [List.foldlM] at h; cases h; exact ⟨rfl, rfl⟩
  | cons n t ih =>
    simp only [List.foldlM_cons] at h
    cases hp : processNode tbl env n with
    | error e => simp [hp, bind, Except.bind] at h
    | ok env1 =>
      simp only [hp, bind, Except.bind] at h
      obtain ⟨a, b⟩ := processNode_frame tbl env env1 n hp
      obtain ⟨c, d⟩ := ih env1 h
      exact ⟨c.trans a, d.trans b⟩

theorem addUnit_frame (tbl : UnitTable) (env env' : Env) (name : Str) (v : Val) (unit : Option Str)
    (h : addUnit tbl env name v unit = .ok env') :
    env'.sources = env.sources ∧ ∃ us, env'.units = env.units ++ us := by
  unfold addUnit at h
  cases v with
  | num q =>
    simp only at h
    cases h1 : unitKnown tbl unit with
    | false => simp [h1] at h
    | true =>
      cases h2 : env.units.any (fun u => decide (u.1 = name)) with
      | true => simp [h1, h2] at h
      | false =>
        simp only [h1, h2, Bool.not_true, Bool.false_eq_true, if_false, Except.ok.injEq] at h
        rw [← h]
        exact ⟨rfl, _, rfl⟩
  | bool b => simp at h
  | str s => simp at h
  | arr l => simp at h

theorem extendUnits_append (units us units' : List (Str × Val × Option Str))
    (h : extendUnits units us = .ok units') : ∃ us', units' = units ++ us' := by
  induction us generalizing units with
  | nil => simp only [extendUnits, Except.ok.injEq] at h; exact ⟨[], by simp [h]⟩
  | cons u rest ih =>
    simp only [extendUnits] at h
    split at h
    · cases h
    · obtain ⟨us', e⟩ := ih (units ++ [u]) h
      exact ⟨u :: us', by simp [e]⟩

theorem extendUnits_clash (units us : List (Str × Val × Option Str)) (u : Str × Val × Option Str)
    (hu : u ∈ us) (hc : units.any (fun x => decide (x.1 = u.1)) = true) :
    ∃ e, extendUnits units us = .error e := by
  induction us generalizing units with
  | nil => cases hu
  | cons x rest ih =>
    simp only [extendUnits]
    by_cases hx : units.any (fun y => decide (y.1 = x.1)) = true
    · exact ⟨"unit exists", by simp [hx]⟩
    · simp only [hx, Bool.false_eq_true, if_false]
      simp only [List.mem_cons] at hu
      rcases hu with rfl | hu
      · exact absurd hc hx
      · exact ih (units ++ [x]) hu (by simp [List.any_append, hc])

theorem importUnits_frame (env env' : Env) (source : Str) (name : Option Str)
    (h : importUnits env source name = .ok env') :
    env'.sources = env.sources ∧ ∃ us, env'.units = env.units ++ us := by
  unfold importUnits at h
  cases hf : env.srcUnits.find? (fun s => s.1 = source) with
  | none => simp [hf] at h
  | some s =>
    simp only [hf] at h
    split at h
    · cases h
    · rename_i us _
      cases he : extendUnits env.units us with
      | error e => simp [he] at h
      | ok units' =>
        simp only [he, Except.ok.injEq] at h
        obtain ⟨us', e⟩ := extendUnits_append env.units us units' he
        rw [← h]
        exact ⟨rfl, us', e⟩

theorem step_frame (tbl : UnitTable) (env env' : Env) (it : Item)
    (h : step tbl env it = .ok env') :
    env'.sources = env.sources ∧ ∃ us, env'.units = env.units ++ us := by
  cases it with
  | prop p =>
    simp only [step] at h
    cases hu : updateLast (applyProp p) env.nodes with
    | error e => simp [hu] at h
    | ok ns => simp only [hu] at h; cases h; exact ⟨rfl, [], by simp⟩
  | unitdef name value unit =>
    simp only [step] at h
    exact addUnit_frame tbl env env' name value unit h
  | unitref name ref unit =>
    simp only [step] at h
    cases hi : injectHost env ref unit with
    | error e => simp [hi] at h
    | ok vu =>
      obtain ⟨v, u⟩ := vu
      simp only [hi] at h
      exact addUnit_frame tbl env env' name v u h
  | optref ref unit =>
    simp only [step] at h
    cases hi : injectHost env ref unit with
    | error e => simp [hi] at h
    | ok vu =>
      obtain ⟨v, u⟩ := vu
      simp only [hi] at h
      cases hu : updateLast (applyProp (.option v u)) env.nodes with
      | error e => simp [hu] at h
      | ok ns => simp only [hu] at h; cases h; exact ⟨rfl, [], by simp⟩
  | case i k => simp [step] at h
  | unitimp source name =>
    simp only [step] at h
    exact importUnits_frame env env' source name h
  | node n =>
    simp only [step] at h
    split at h
    · cases hi : importNodes env n with
      | error e => simp [hi] at h
      | ok ns =>
        simp only [hi] at h
        obtain ⟨a, b⟩ := foldlM_processNode_frame tbl ns env env' h
        exact ⟨a, [], by simp [b]⟩
    · cases hi : injectValue env n with
      | error e => simp [hi] at h
      | ok n' =>
        simp only [hi] at h
        obtain ⟨a, b⟩ := processNode_frame tbl env env' n' h
        exact ⟨a, [], by simp [b]⟩

end SciVerif.C17
