import SciVerif.Lemmas.C13m
/-!
Escaped quotes inside quoted strings: `\"` inside "…" (and `\'` inside '…') is marked `$@01` (`$@00`)
before lexing and turned into the bare quote character afterwards.
-/
namespace SciVerif.C13

/-- the value as written: every occurrence of the quote character `q` is preceded by a backslash -/
def escQ (q : Char) : Str → Str
  | [] => []
  | c :: t => if c = q then '\\' :: q :: escQ q t else c :: escQ q t

/-- the value as the lexer sees it: every `q` replaced by the mark -/
def encQ (q : Char) (mark : Str) : Str → Str
  | [] => []
  | c :: t => if c = q then mark ++ encQ q mark t else c :: encQ q mark t

theorem replaceAll_prefix_id (pat rep : Str) (c0 : Char) (hp : pat.head? = some c0) (rest : Str) :
    ∀ pre : Str, (∀ c ∈ pre, c ≠ c0) → replaceAll pat rep (pre ++ rest) = pre ++ replaceAll pat rep rest := by
  intro pre
  induction pre with
  | nil => intro _; rfl
  | cons x t ih =>
    intro h
    have hx : x ≠ c0 := h x (by simp)
    simp only [List.cons_append]
    rw [replaceAll_head pat rep x (by rw [hp]; intro e; exact hx (Option.some.inj e).symm),
      ih (fun c hc => h c (List.mem_cons_of_mem _ hc))]

/-- the pass for the OTHER quote character leaves the escaped text alone -/
theorem replaceAll_other_escQ (q q' : Char) (hqq : q' ≠ q) (hq : q ≠ '\\') (rep rest : Str)
    (hrest : replaceAll ['\\', q'] rep rest = rest) :
    ∀ s : Str, (∀ c ∈ s, c ≠ '\\') → replaceAll ['\\', q'] rep (escQ q s ++ rest) = escQ q s ++ rest := by
  intro s
  induction s with
  | nil => intro _; exact hrest
  | cons c t ih =>
    intro h
    have iht := ih (fun x hx => h x (List.mem_cons_of_mem _ hx))
    by_cases hc : c = q
    · subst hc
      simp only [escQ, if_true, List.cons_append]
      have hne : (q' == c) = false := by simp [hqq]
      rw [replaceAll_step _ _ '\\' _ (by simp [List.isPrefixOf, hne]),
        replaceAll_head _ _ c (by simpa using Ne.symm hq), iht]
    · simp only [escQ, hc, if_false, List.cons_append]
      have hcb : c ≠ '\\' := h c (by simp)
      rw [replaceAll_head _ _ c (by simpa using Ne.symm hcb), iht]

/-- the pass for the quote character itself puts the mark in -/
theorem replaceAll_own_escQ (q : Char) (hq : q ≠ '\\') (mark rest : Str)
    (hrest : replaceAll ['\\', q] mark rest = rest) :
    ∀ s : Str, (∀ c ∈ s, c ≠ '\\') → replaceAll ['\\', q] mark (escQ q s ++ rest) = encQ q mark s ++ rest := by
  intro s
  induction s with
  | nil => intro _; exact hrest
  | cons c t ih =>
    intro h
    have iht := ih (fun x hx => h x (List.mem_cons_of_mem _ hx))
    by_cases hc : c = q
    · subst hc
      simp only [escQ, encQ, if_true, List.cons_append]
      rw [replaceAll]
      have : ((['\\', c] : Str).isPrefixOf ('\\' :: c :: (escQ c t ++ rest)) && !(['\\', c] : Str).isEmpty) = true := by
        simp [List.isPrefixOf]
      rw [if_pos this]
      have hdrop : ('\\' :: c :: (escQ c t ++ rest)).drop (['\\', c] : Str).length = escQ c t ++ rest := rfl
      rw [hdrop, iht, List.append_assoc]
    · simp only [escQ, encQ, hc, if_false, List.cons_append]
      have hcb : c ≠ '\\' := h c (by simp)
      rw [replaceAll_head _ _ c (by simpa using Ne.symm hcb), iht]

theorem encQ_chars (q : Char) (mark : Str) (p : Char → Prop) (hm : ∀ c ∈ mark, p c) :
    ∀ s : Str, (∀ c ∈ s, c ≠ q → p c) → ∀ c ∈ encQ q mark s, p c := by
  intro s
  induction s with
  | nil => intro _ c hc; cases hc
  | cons x t ih =>
    intro h c hc
    have iht := ih (fun y hy => h y (List.mem_cons_of_mem _ hy))
    by_cases hx : x = q
    · simp only [encQ, hx, if_true, List.mem_append] at hc
      rcases hc with h1 | h1
      · exact hm c h1
      · exact iht c h1
    · simp only [encQ, hx, if_false, List.mem_cons] at hc
      rcases hc with rfl | h1
      · exact h c (by simp) hx
      · exact iht c h1

/-- taking the own mark out again gives the value back -/
theorem replaceAll_mark_encQ (q : Char) (mark : Str) (m1 m2 m3 : Char) (hmark : mark = ['$', m1, m2, m3])
    (h1 : m1 ≠ '$') (h2 : m2 ≠ '$') (h3 : m3 ≠ '$') :
    ∀ s : Str, (∀ c ∈ s, c ≠ '$') → replaceAll mark [q] (encQ q mark s) = s := by
  intro s
  induction s with
  | nil => intro _; exact replaceAll_nil _ _
  | cons x t ih =>
    intro h
    have iht := ih (fun y hy => h y (List.mem_cons_of_mem _ hy))
    by_cases hx : x = q
    · subst hx
      subst hmark
      simp only [encQ, if_true, List.cons_append, List.nil_append]
      rw [replaceAll]
      have : ((['$', m1, m2, m3] : Str).isPrefixOf ('$' :: m1 :: m2 :: m3 :: encQ x ['$', m1, m2, m3] t) &&
          !(['$', m1, m2, m3] : Str).isEmpty) = true := by
        simp [List.isPrefixOf]
      rw [if_pos this]
      have hdrop : ('$' :: m1 :: m2 :: m3 :: encQ x ['$', m1, m2, m3] t).drop (['$', m1, m2, m3] : Str).length =
          encQ x ['$', m1, m2, m3] t := rfl
      rw [hdrop, iht]
      rfl
    · simp only [encQ, hx, if_false]
      have hx2 : x ≠ '$' := h x (by simp)
      have : mark.head? ≠ some x := by
        subst hmark; simpa using Ne.symm hx2
      rw [replaceAll_head _ _ x this, iht]

/-- another mark (differing in the last character) does not occur -/
theorem replaceAll_othermark_encQ (q : Char) (m3 m3' : Char) (hne : m3' ≠ m3) (hm3 : m3 ≠ '$') (rep : Str) :
    ∀ s : Str, (∀ c ∈ s, c ≠ '$') →
      replaceAll ['$', '@', '0', m3'] rep (encQ q ['$', '@', '0', m3] s) = encQ q ['$', '@', '0', m3] s := by
  intro s
  induction s with
  | nil => intro _; exact replaceAll_nil _ _
  | cons x t ih =>
    intro h
    have iht := ih (fun y hy => h y (List.mem_cons_of_mem _ hy))
    by_cases hx : x = q
    · simp only [encQ, hx, if_true, List.cons_append, List.nil_append]
      have hd : (m3' == m3) = false := by simp [hne]
      rw [replaceAll_step _ _ '$' _ (by simp [List.isPrefixOf, hd]),
        replaceAll_head _ _ '@' (by simp), replaceAll_head _ _ '0' (by simp),
        replaceAll_head _ _ m3 (by simpa using Ne.symm hm3), iht]
    · simp only [encQ, hx, if_false]
      have hx2 : x ≠ '$' := h x (by simp)
      rw [replaceAll_head _ _ x (by simpa using Ne.symm hx2), iht]

/-- double-quoted: `decode` undoes the marks of `\"` -/
theorem decode_encQ_dq (s : Str) (h : ∀ c ∈ s, c ≠ '$') : decode (encQ '"' enc1 s) = s := by
  have e0 : enc0 = ['$', '@', '0', '0'] := by decide
  have e1 : enc1 = ['$', '@', '0', '1'] := by decide
  simp only [decode]
  rw [e0, e1, replaceAll_othermark_encQ '"' '1' '0' (by decide) (by decide) _ s h,
    replaceAll_mark_encQ '"' _ '@' '0' '1' rfl (by decide) (by decide) (by decide) s h,
    replaceAll_id _ _ '$' (by decide) s h]

/-- single-quoted: `decode` undoes the marks of `\'` -/
theorem decode_encQ_sq (s : Str) (h : ∀ c ∈ s, c ≠ '$') : decode (encQ '\'' enc0 s) = s := by
  have e0 : enc0 = ['$', '@', '0', '0'] := by decide
  simp only [decode]
  rw [e0, replaceAll_mark_encQ '\'' _ '@' '0' '0' rfl (by decide) (by decide) (by decide) s h,
    replaceAll_id _ _ '$' (by decide) s h, replaceAll_id _ _ '$' (by decide) s h]

/-- `encode` on a line `A "…escaped…" B` whose other parts contain no backslash or newline -/
theorem encode_escaped_dq (A B s : Str) (hA : NoEsc A) (hB : NoEsc B) (hs : ∀ c ∈ s, c ≠ '\\' ∧ c ≠ '\n') :
    encode (A ++ '"' :: (escQ '"' s ++ '"' :: B)) = A ++ '"' :: (encQ '"' enc1 s ++ '"' :: B) := by
  have hsb : ∀ c ∈ s, c ≠ '\\' := fun c hc => (hs c hc).1
  have hBq : ∀ (pat rep : Str), pat.head? = some '\\' → replaceAll pat rep ('"' :: B) = '"' :: B := by
    intro pat rep hp
    exact replaceAll_id pat rep '\\' hp _ (by
      intro c hc
      rcases List.mem_cons.mp hc with rfl | h1
      · decide
      · exact (hB c h1).1)
  have e1 : enc1 = ['$', '@', '0', '1'] := by decide
  simp only [encode]
  -- pass for \' : nothing to do
  rw [replaceAll_prefix_id _ _ '\\' rfl _ A (fun c hc => (hA c hc).1),
    replaceAll_head _ _ '"' (by decide),
    replaceAll_other_escQ '"' '\'' (by decide) (by decide) _ _ (hBq _ _ rfl) s hsb]
  -- pass for \" : the marks go in
  rw [replaceAll_prefix_id _ _ '\\' rfl _ A (fun c hc => (hA c hc).1),
    replaceAll_head _ _ '"' (by decide),
    replaceAll_own_escQ '"' (by decide) _ _ (hBq _ _ rfl) s hsb]
  -- pass for newlines: none present
  apply replaceAll_id _ _ '\n' rfl
  intro c hc
  simp only [List.mem_append, List.mem_cons] at hc
  rcases hc with h1 | rfl | h1 | rfl | h1
  · exact (hA c h1).2
  · decide
  · revert c
    apply encQ_chars '"' enc1 (fun c => c ≠ '\n')
    · rw [e1]; decide
    · intro c hc _; exact (hs c hc).2
  · decide
  · exact (hB c h1).2

end SciVerif.C13
