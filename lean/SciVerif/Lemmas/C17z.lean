import SciVerif.Lemmas.C17y

/-! Refinement (C17), part 8: programs whose lines are nested by indentation. -/
namespace SciVerif.C17

/-- the line record: the flat line record of the statement, moved to indent `i` and renamed `nm`
    (import lines stay at the root: their destination is part of the line) -/
def itemAt (i : Nat) (nm : Str) : Item → Item
  | .node n => if n.kw = .imp then .node n else .node { n with name := nm, indent := i }
  | it => it

/-- the path the hierarchy gives the line is the path the statement addresses -/
def PathOK (ps : List (Nat × Str)) (i : Nat) (nm : Str) : SStmt → Prop
  | .defn path _ _ _ _ => regNameOf ps i nm = joinDot path
  | .modl path _ _ => regNameOf ps i nm = joinDot path
  | _ => True

theorem conc_defmod (s : SStmt) (n0 : Node) (h : conc s = some (.node n0)) (hk : n0.kw ≠ .imp) :
    n0.indent = 0 ∧ ∀ ps i nm, PathOK ps i nm s → regNameOf ps i nm = n0.name := by
  cases s with
  | defn path kw dims sv unit =>
    cases sv with
    | lit v => simp only [conc, Option.some.injEq, Item.node.injEq] at h; subst h; exact ⟨rfl, fun _ _ _ hp => hp⟩
    | inj source q sl =>
      cases q with
      | all => simp [conc] at h
      | children p => simp [conc] at h
      | exact p => simp only [conc, Option.some.injEq, Item.node.injEq] at h; subst h; exact ⟨rfl, fun _ _ _ hp => hp⟩
  | modl path sv unit =>
    cases sv with
    | lit v => simp only [conc, Option.some.injEq, Item.node.injEq] at h; subst h; exact ⟨rfl, fun _ _ _ hp => hp⟩
    | inj source q sl =>
      cases q with
      | all => simp [conc] at h
      | children p => simp [conc] at h
      | exact p =>
        cases sl with
        | nil => simp only [conc, Option.some.injEq, Item.node.injEq] at h; subst h; exact ⟨rfl, fun _ _ _ hp => hp⟩
        | cons a b => simp [conc] at h
  | imp dest source q =>
    simp only [conc, Option.some.injEq, Item.node.injEq] at h
    subst h
    exact absurd rfl hk
  | decl a b c d => simp [conc] at h
  | constant a => simp [conc] at h
  | condition a b => simp [conc] at h
  | format a b => simp [conc] at h
  | tags a b => simp [conc] at h
  | option a b c => simp [conc] at h
  | description a b => simp [conc] at h
  | unitdef a b c => simp [conc] at h
  | unitimp a b => simp [conc] at h
  | caseCond a => simp [conc] at h
  | caseElse => simp [conc] at h
  | caseEnd => simp [conc] at h

theorem conc_is_node (s : SStmt) (it : Item) (h : conc s = some it) : ∃ n0, it = .node n0 := by
  cases s with
  | defn path kw dims sv unit =>
    cases sv with
    | lit v => simp only [conc, Option.some.injEq] at h; exact ⟨_, h.symm⟩
    | inj source q sl =>
      cases q with
      | all => simp [conc] at h
      | children p => simp [conc] at h
      | exact p => simp only [conc, Option.some.injEq] at h; exact ⟨_, h.symm⟩
  | modl path sv unit =>
    cases sv with
    | lit v => simp only [conc, Option.some.injEq] at h; exact ⟨_, h.symm⟩
    | inj source q sl =>
      cases q with
      | all => simp [conc] at h
      | children p => simp [conc] at h
      | exact p =>
        cases sl with
        | nil => simp only [conc, Option.some.injEq] at h; exact ⟨_, h.symm⟩
        | cons a b => simp [conc] at h
  | imp dest source q => simp only [conc, Option.some.injEq] at h; exact ⟨_, h.symm⟩
  | decl a b c d => simp [conc] at h
  | constant a => simp [conc] at h
  | condition a b => simp [conc] at h
  | format a b => simp [conc] at h
  | tags a b => simp [conc] at h
  | option a b c => simp [conc] at h
  | description a b => simp [conc] at h
  | unitdef a b c => simp [conc] at h
  | unitimp a b => simp [conc] at h
  | caseCond a => simp [conc] at h
  | caseElse => simp [conc] at h
  | caseEnd => simp [conc] at h

theorem absEnv_of_EqIL (env' env'' : Env) (h1 : EqIL env''.nodes env'.nodes)
    (h2 : env''.sources = env'.sources) (h3 : env''.units = env'.units)
    (h4 : env''.srcUnits = env'.srcUnits) : absEnv env'' = absEnv env' := by
  simp only [absEnv, EqIL_abs h1, h2, h3, h4]

/-- one line of a nested program -/
theorem refine_step_at (tbl : UnitTable) (env : Env) (hinv : Inv tbl env) (i : Nat) (nm : Str)
    (stmt : SStmt) (it0 : Item) (s' : SEnv) (hfrag : InFrag (absEnv env) stmt)
    (hpath : PathOK env.parents i nm stmt) (hc : conc stmt = some it0)
    (h : sStep tbl (absEnv env) stmt = .ok s') :
    ∃ env', step tbl env (itemAt i nm it0) = .ok env' ∧ absEnv env' = s' ∧ Inv tbl env' := by
  obtain ⟨env0, hstep, habs, hinv0⟩ := refine_step tbl env hinv stmt it0 s' hfrag hc h
  obtain ⟨n0, rfl⟩ := conc_is_node stmt it0 hc
  by_cases hk : n0.kw = .imp
  · exact ⟨env0, by simp [itemAt, hk, hstep], habs, hinv0⟩
  · obtain ⟨hi0, hnm⟩ := conc_defmod stmt n0 hc hk
    have hreg := hnm env.parents i nm hpath
    have hback : ({ ({ n0 with name := nm, indent := i } : Node) with name := n0.name, indent := 0 } : Node) = n0 := by
      cases n0
      simp only at hi0
      subst hi0
      rfl
    obtain ⟨env'', hs, h1, h2, h3, h4⟩ := step_at tbl env { n0 with name := nm, indent := i } n0.name hk hreg env0
      (by rw [hback]; exact hstep)
    refine ⟨env'', by simp [itemAt, hk, hs], ?_, ?_⟩
    · rw [absEnv_of_EqIL env0 env'' h1 h2 h3 h4]; exact habs
    · exact ⟨EqIL_good h1 hinv0.1, by rw [h2]; exact hinv0.2⟩

/-! ### injections that the specification rejects -/

/-- When the specification rejects an injection because its request selects no node or several
    (wildcard requests included), the model's request with the count test fails too. -/
theorem request_rejected (tbl : UnitTable) (env : Env) (hinv : Inv tbl env) (source : Option Str)
    (hws : WFSource source) (q : SQuery) (hq : WFQ q) (sl : List Sl)
    (h : sEval (absEnv env) (.inj source q sl) = .error .rejected) :
    ∃ e, request env (source.getD [] ++ '?' :: renderQ q) .one = .error e := by
  simp only [sEval] at h
  cases hl : sLookup (absEnv env) source with
  | none => simp [hl] at h
  | some ss =>
    simp only [hl] at h
    obtain ⟨ns, hreq, hss, _⟩ := requestNodes_abs tbl env hinv source hws (renderQ q) ss hl
    obtain ⟨hpq, hqq⟩ := parse_render q hq
    have hsrc : '?' ∉ source.getD [] := by
      cases source with
      | none => simp
      | some x => exact (hws x rfl).2
    have hlen : (query ns (toQuery q)).length = (select q ss).length := by
      rw [hss, select_abs q hq ns]
      simp [query]
    have hne : (select q ss).length ≠ 1 := by
      intro e
      cases hsel : select q ss with
      | nil => simp [hsel] at e
      | cons a t =>
        cases t with
        | cons b c => simp [hsel] at e
        | nil =>
          simp only [hsel] at h
          cases hav : a.value with
          | none => rw [hav] at h; cases h
          | some v =>
            rw [hav] at h
            simp only at h
            cases hsp : specSlice sl v with
            | none => rw [hsp] at h; cases h
            | some w => rw [hsp] at h; cases h
    refine ⟨"request: count", ?_⟩
    unfold request
    rw [splitQ_render _ _ hsrc hqq]
    simp only [hreq, hpq, countCheck]
    rw [if_neg (by rw [hlen]; exact hne)]

/-- … so the line that carries the injection (definition or modification) is refused -/
theorem step_rejected (tbl : UnitTable) (env : Env) (n : Node) (r : Str) (e : String) (hk : n.kw ≠ .imp)
    (hr : n.ref = some r) (hreq : request env r .one = .error e) :
    ∃ e', step tbl env (.node n) = .error e' := by
  refine ⟨e, ?_⟩
  simp [step, hk, injectValue, hr, hreq]

end SciVerif.C17
