import SciVerif.Lemmas.C01n
import SciVerif.Lemmas.C01e

/-!
# C01 helper lemmas, part 15 (token level): a binary operator without a left operand,
  a trailing sign.
-/
namespace SciVerif.C01
open SciVerif.C01.Gen

variable {A : Type} (alg : AtomAlg A) (lit : List Char → A)

theorem operate_error_after (P : List Nat) (ot : Otype) (T l r : List (Tok A)) (t : Tok A) (c : Nat)
    (err : Bufs A × String) (hc : c < 2 * T.length + 2)
    (st : StepsTo (step dflt alg P ot) c ⟨[], T⟩ ⟨l, t :: r⟩)
    (he : step dflt alg P ot ⟨l, t :: r⟩ = .error err) :
    operate dflt alg P ot ⟨[], T⟩ = .error err := by
  unfold operate
  have e : 2 * T.length + 2 = ((2 * T.length + 1 - c) + 1) + c := by omega
  simp only []
  rw [e, st, loop_error _ _ _ _ _ _ he]

/-! ### missing left operand -/

theorem step_binary_noleft (P : List Nat) (o : B2) (r : List (Tok A))
    (hi : isInst dflt P (idxOf dflt o.name) = true) :
    ∃ b, step dflt alg P .binary ⟨[], tokB o :: r⟩ = .error (b, "operand") := by
  obtain ⟨row, hr, hb⟩ := binary_rows o
  cases r with
  | nil =>
    exact ⟨⟨[], []⟩, by simp [step, tokB, hi, dispatch, hr, hb, runSimple, getLeft, getRight, runPuts,
      putTok, evalTm, tokAtom]⟩
  | cons x xs =>
    exact ⟨⟨[], xs⟩, by simp [step, tokB, hi, dispatch, hr, hb, runSimple, getLeft, getRight, runPuts,
      putTok, evalTm, tokAtom]⟩

/-- a pass over `o :: flat k e`: the leading operator stays, or is of this pass and has no left operand -/
theorem leading (P : List Nat) (ot : Otype) (k : Nat) (e : E) (o : B2)
    (hp : ∃ c, c ≤ (flat alg lit k e).length ∧
      StepsTo (step dflt alg P ot) c ⟨[tokB o], flat alg lit k e ++ []⟩
        ⟨(flat alg lit (k + 1) e).reverse ++ [tokB o], []⟩) :
    (isInst dflt P (idxOf dflt o.name) = false →
      operate dflt alg P ot ⟨[], tokB o :: flat alg lit k e⟩
        = .ok ⟨[], tokB o :: flat alg lit (k + 1) e⟩) ∧
    (isInst dflt P (idxOf dflt o.name) = true → ot = .binary →
      ∃ b, operate dflt alg P ot ⟨[], tokB o :: flat alg lit k e⟩ = .error (b, "operand")) := by
  constructor
  · intro hi
    have := pass_framed alg lit P ot k e [tokB o] [] (fun t ht => by
        simp only [List.mem_singleton] at ht; subst ht; exact hi) (fun t ht => by cases ht)
      (by simpa using hp)
    simpa using this
  · intro hi hot
    subst hot
    obtain ⟨b, hb⟩ := step_binary_noleft alg P o (flat alg lit k e) hi
    exact ⟨b, operate_error_after alg P .binary _ [] _ _ 0 _ (by omega) (StepsTo.refl _ _) hb⟩

/-! ### trailing sign -/

theorem step_sign_trailing (s : Bool) (l : List (Tok A)) (v : A) :
    step dflt alg P1 .unary ⟨.atom v :: l, [tokS s]⟩ = .ok ⟨tokS s :: .atom v :: l, [.none]⟩ := by
  cases s <;> rfl

theorem step_sign_binary_none (s : Bool) (l r : List (Tok A)) (v : A) :
    step dflt alg [13, 14] .binary ⟨.atom v :: l, tokS s :: .none :: r⟩ = .error (⟨l, r⟩, "operand") := by
  cases s <;> rfl

theorem skipped_sign (s : Bool) :
    Skipped (A := A) P0 (tokS s) ∧ Skipped (A := A) [10] (tokS s) ∧ Skipped (A := A) [11, 12] (tokS s) := by
  have h : ∀ s : Bool, isInst dflt P0 (idxOf dflt (if s then "sub" else "add")) = false ∧
      isInst dflt [10] (idxOf dflt (if s then "sub" else "add")) = false ∧
      isInst dflt [11, 12] (idxOf dflt (if s then "sub" else "add")) = false := by decide
  exact h s

/-- the sign pass on `flat 1 e ++ [±]`: the trailing sign finds an atom on its left and nothing on
    its right, stays as an operator and stores the `None` it fetched -/
theorem sign_pass_trailing (hn : NegNeg alg) (e : E) (hwf : e.WF) (s : Bool) :
    operate dflt alg P1 .unary ⟨[], flat alg lit 1 e ++ [tokS s]⟩
      = .ok ⟨[], flat alg lit 2 e ++ [tokS s, .none]⟩ := by
  obtain ⟨c, hc, st⟩ := sign_pass alg lit hn e hwf [] [tokS s] (fun _ => trivial)
  obtain ⟨pre, v, hl⟩ := flat_last alg lit 2 (by omega) e
  have s1 : StepsTo (step dflt alg P1 .unary) 1 ⟨(flat alg lit 2 e).reverse ++ [], [tokS s]⟩
      ⟨tokS s :: (flat alg lit 2 e).reverse, [.none]⟩ := by
    rw [hl]
    simpa using StepsTo.one (step_sign_trailing alg s pre.reverse v)
  have s2 : StepsTo (step dflt alg P1 .unary) 1 ⟨tokS s :: (flat alg lit 2 e).reverse, [.none]⟩
      ⟨.none :: tokS s :: (flat alg lit 2 e).reverse, []⟩ := StepsTo.one rfl
  have := StepsTo.trans (StepsTo.trans st s1) s2
  exact operate_of_steps' alg P1 .unary _ _ (c + 1 + 1) (by simp; omega) (by simpa using this)

end SciVerif.C01
