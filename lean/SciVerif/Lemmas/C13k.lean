import SciVerif.Lemmas.C13j
/-!
Inline arrays, flat case: `json.loads` on `[t1,t2,…,tn]`.
-/
namespace SciVerif.C13

/-- an array element as written: a non-empty word without blanks, commas, brackets, not a string -/
def TokOk (t : Str) : Prop :=
  (∃ c r, t = c :: r ∧ c ≠ '"') ∧ ∀ c ∈ t, isDelim c = false

def renderFlat (toks : List Str) : Str := '[' :: (joinWith [','] toks ++ [']'])

theorem tokOk_head (t : Str) (h : TokOk t) : ∃ c r, t = c :: r ∧ c ≠ '"' ∧ c ≠ '[' ∧ c ≠ ']' ∧ isWs c = false := by
  obtain ⟨⟨c, r, rfl, hq⟩, hall⟩ := h
  have hd := hall c (by simp)
  simp only [isDelim, Bool.or_eq_false_iff, beq_eq_false_iff_ne] at hd
  exact ⟨c, r, rfl, hq, hd.2, hd.1.2, hd.1.1.1⟩

theorem pVal_tok (f : Nat) (t rest : Str) (ht : TokOk t)
    (hr : rest = [] ∨ ∃ c r, rest = c :: r ∧ isDelim c = true) :
    pVal (f + 1) (t ++ rest) = .ok ([], [.bare t], rest) := by
  obtain ⟨c, r, rfl, hq, hb, _, hw⟩ := tokOk_head t ht
  have hall := ht.2
  have hp : ∀ x ∈ c :: r, (fun c => !isDelim c) x = true := by intro x hx; simp [hall x hx]
  have hrest : rest = [] ∨ ∃ x y, rest = x :: y ∧ (fun c => !isDelim c) x = false := by
    rcases hr with h | ⟨x, y, h, hx⟩
    · exact .inl h
    · exact .inr ⟨x, y, h, by simp [hx]⟩
  have htw := takeWhile_append_of_all (p := fun c => !isDelim c) (c :: r) rest hp hrest
  have hdw := dropWhile_append_of_all (p := fun c => !isDelim c) (c :: r) rest hp hrest
  simp only [List.cons_append] at htw hdw ⊢
  unfold pVal
  rw [dropWs_cons c _ hw]
  split
  · rename_i heq; exact absurd (List.cons.inj heq).1 hb
  · rename_i heq; exact absurd (List.cons.inj heq).1 hq
  · rename_i heq
    simp only [htw, hdw]
    rfl

theorem pElems_flat : ∀ (toks : List Str) (f n : Nat) (acc : List Tok) (sh : Option (List Nat)) (rest : Str),
    toks ≠ [] → (∀ t ∈ toks, TokOk t) → toks.length + 1 ≤ f → (sh = none ∨ sh = some []) →
    pElems f (joinWith [','] toks ++ ']' :: rest) sh n acc =
      .ok ([n + toks.length], acc ++ toks.map Tok.bare, rest) := by
  intro toks
  induction toks with
  | nil => intro _ _ _ _ _ h; exact absurd rfl h
  | cons t ts ih =>
    intro f n acc sh rest _ hok hf hsh
    have ht := hok t (by simp)
    cases ts with
    | nil =>
      obtain ⟨f', rfl⟩ : ∃ f', f = f' + 2 := ⟨f - 2, by simp at hf; omega⟩
      simp only [joinWith]
      unfold pElems
      simp only [bind, Except.bind]
      rw [pVal_tok f' t (']' :: rest) ht (.inr ⟨']', rest, rfl, by decide⟩)]
      rcases hsh with rfl | rfl
      · simp only [Bool.false_eq_true, if_false]
        rw [dropWs_cons ']' rest (by decide)]
        simp
      · simp only [bne_self_eq_false, Bool.false_eq_true, if_false]
        rw [dropWs_cons ']' rest (by decide)]
        simp
    | cons t2 ts2 =>
      obtain ⟨f', rfl⟩ : ∃ f', f = f' + 2 := ⟨f - 2, by simp at hf; omega⟩
      simp only [joinWith, List.append_assoc, List.singleton_append, List.cons_append, List.nil_append]
      unfold pElems
      simp only [bind, Except.bind]
      rw [pVal_tok f' t (',' :: (joinWith [','] (t2 :: ts2) ++ ']' :: rest)) ht (.inr ⟨',', _, rfl, by decide⟩)]
      have hrec := ih (f' + 1) (n + 1) (acc ++ [Tok.bare t]) (some []) rest (by simp)
        (fun x hx => hok x (List.mem_cons_of_mem _ hx)) (by simp at hf ⊢; omega) (.inr rfl)
      have hfin : ([n + 1 + (t2 :: ts2).length], acc ++ [Tok.bare t] ++ List.map Tok.bare (t2 :: ts2), rest) =
          ([n + (t :: t2 :: ts2).length], acc ++ List.map Tok.bare (t :: t2 :: ts2), rest) := by
        simp only [List.length_cons, List.map_cons, List.append_assoc, List.singleton_append]
        congr 2
        omega
      rcases hsh with rfl | rfl
      · simp only [Bool.false_eq_true, if_false]
        rw [dropWs_cons ',' _ (by decide)]
        simp only
        rw [hrec, hfin]
      · simp only [bne_self_eq_false, Bool.false_eq_true, if_false]
        rw [dropWs_cons ',' _ (by decide)]
        simp only
        rw [hrec, hfin]

/-- `json.loads` on a flat inline array yields its elements in order, shape `[n]` -/
theorem parseJson_flat (toks : List Str) (hne : toks ≠ []) (hok : ∀ t ∈ toks, TokOk t) :
    parseJson (renderFlat toks) = .ok ([toks.length], toks.map Tok.bare) := by
  -- length bound for the fuel
  have hlen : toks.length + 2 ≤ (renderFlat toks).length := by
    have : ∀ l : List Str, (∀ t ∈ l, t ≠ []) → l.length ≤ (joinWith [','] l).length + (if l = [] then 0 else 0) := by
      intro l
      induction l with
      | nil => intro _; simp [joinWith]
      | cons a t ih =>
        intro h
        have ha : 1 ≤ a.length := by
          have := h a (by simp)
          cases a with | nil => exact absurd rfl this | cons _ _ => simp
        cases t with
        | nil => simp [joinWith]; omega
        | cons b t2 =>
          have := ih (fun x hx => h x (List.mem_cons_of_mem _ hx))
          simp only [joinWith, List.length_append, List.length_cons, List.length_nil] at this ⊢
          simp at this ⊢
          omega
    have hne' : ∀ t ∈ toks, t ≠ [] := by
      intro t ht e
      obtain ⟨⟨c, r, h, _⟩, _⟩ := hok t ht
      rw [e] at h; cases h
    have := this toks hne'
    simp [renderFlat] at this ⊢
    omega
  unfold parseJson
  simp only [bind, Except.bind]
  have hbody : ∃ c r, (joinWith [','] toks ++ [']']) = c :: r ∧ c ≠ ']' ∧ isWs c = false := by
    cases toks with
    | nil => exact absurd rfl hne
    | cons t ts =>
      obtain ⟨c, r, h1, _, _, h4, h5⟩ := tokOk_head t (hok t (by simp))
      cases ts with
      | nil => exact ⟨c, r ++ [']'], by simp [joinWith, h1], h4, h5⟩
      | cons t2 ts2 => exact ⟨c, r ++ ',' :: (joinWith [','] (t2 :: ts2) ++ [']']), by simp [joinWith, h1], h4, h5⟩
  obtain ⟨c, r, hcr, hcb, hcw⟩ := hbody
  have hp : pVal ((renderFlat toks).length + 1) (renderFlat toks) = .ok ([toks.length], toks.map Tok.bare, []) := by
    simp only [renderFlat]
    unfold pVal
    rw [dropWs_cons '[' _ (by decide)]
    simp only
    rw [hcr, dropWs_cons c r hcw]
    split
    · rename_i heq; exact absurd (List.cons.inj heq).1 hcb
    · rw [← hcr]
      have := pElems_flat toks ((renderFlat toks).length) 0 [] none [] hne hok (by omega) (.inl rfl)
      simp only [renderFlat, List.length_cons, Nat.zero_add, List.nil_append] at this
      simpa using this
  rw [hp]
  simp [isBlank]

end SciVerif.C13
