import SciVerif.Lemmas.C13g
/-!
Literal round trip, assembly: `determine (render d) = node d` for group, modification,
definition and declaration lines.
-/
namespace SciVerif.C13

def NameOk (nm : Str) : Prop := (∃ c r, nm = c :: r) ∧ ∀ c ∈ nm, isNameCh c = true

/-- value, optional unit, optional comment -/
structure ValD where
  lit : Lit
  unit : Option (Nat × Str) := none
  cm : Option (Nat × Str) := none

def ValD.render (v : ValD) : Str := v.lit.render ++ renderTail v.unit v.cm

def ValD.Ok (v : ValD) : Prop :=
  v.lit.Ok ∧ (∀ n x, v.unit = some (n, x) → UnitOk x)

theorem valueUnitsTail_render (nm : Str) (kind : Kind) (info : TyInfo) (dims : Option (List Dim)) (v : ValD)
    (hv : v.Ok) :
    valueUnitsTail nm kind info dims v.render =
      .ok { kind, name := some nm, info, dims, raw := some (.text (decode v.lit.text)), units := v.unit.map Prod.snd } := by
  obtain ⟨hl, hu⟩ := hv
  have hpv := partValue_lit v.lit hl (renderTail v.unit v.cm) (tailOk_tail v.unit v.cm hu) (tail_head v.unit v.cm)
  unfold valueUnitsTail
  simp only [ValD.render, hpv, bind, Except.bind]
  cases hun : v.unit with
  | none =>
    have : renderTail none v.cm = renderComment v.cm := by simp [renderTail]
    simp only [this, partUnits_comment, endOrComment_comment, if_true, Option.map_none]
  | some p =>
    obtain ⟨n, x⟩ := p
    simp only [partUnits_unit n x (hu n x hun) v.cm, endOrComment_comment, if_true, Option.map_some]

theorem modTail_of_valueUnitsTail (nm v : Str) (nd : Node)
    (h : valueUnitsTail nm .mod {} none v = .ok nd) : modTail nm v = .ok nd := by
  unfold valueUnitsTail at h
  unfold modTail
  simp only [bind, Except.bind] at h ⊢
  cases hp : partValue v with
  | error e => rw [hp] at h; cases h
  | ok r =>
    rw [hp] at h
    simp only at h ⊢
    by_cases he : endOrComment (partUnits r.2).2 = true
    · simp only [he, if_true] at h ⊢
      exact h
    · simp only [he, Bool.false_eq_true, if_false] at h
      cases h

theorem valD_head (v : ValD) (hv : v.Ok) : ∃ c r, v.render = c :: r ∧ isWs c = false := by
  obtain ⟨c, r, h, hc⟩ := lit_head v.lit hv.1
  exact ⟨c, r ++ renderTail v.unit v.cm, by simp [ValD.render, h], hc⟩

theorem isNameCh_facts {c : Char} (h : isNameCh c = true) :
    c ≠ '{' ∧ c ≠ '=' ∧ c ≠ '!' ∧ c ≠ '$' ∧ c ≠ '@' ∧ c ≠ ' ' ∧ c ≠ '#' ∧ isWs c = false := by
  refine ⟨?_, ?_, ?_, ?_, ?_, ?_, ?_, ?_⟩
  any_goals (intro e; rw [e] at h; exact absurd h (by decide))
  -- white space is not a name character
  cases hw : isWs c with
  | false => rfl
  | true =>
    simp only [isWs, Bool.or_eq_true, beq_iff_eq] at hw
    rcases hw with ((((rfl | rfl) | rfl) | rfl) | rfl) | rfl <;> exact absurd h (by decide)

/-- `part_name`: the name is consumed, the recognisers after it see the rest -/
theorem determineBody_name (nm rest : Str) (hn : NameOk nm) (hr : rest = [] ∨ ∃ r, rest = ' ' :: r) :
    determineBody (nm ++ rest) = afterName nm rest := by
  obtain ⟨⟨c, t, rfl⟩, hall⟩ := hn
  have hc := isNameCh_facts (hall c (by simp))
  have hb : rest = [] ∨ ∃ x y, rest = x :: y ∧ isNameCh x = false := by
    rcases hr with h | ⟨r, h⟩
    · exact .inl h
    · exact .inr ⟨' ', r, h, by decide⟩
  have htw := takeWhile_append_of_all (p := isNameCh) (c :: t) rest hall hb
  have hdw := dropWhile_append_of_all (p := isNameCh) (c :: t) rest hall hb
  unfold determineBody
  simp only [List.cons_append] at htw hdw ⊢
  split
  · rename_i heq; exact absurd (List.cons.inj heq).1 hc.1
  · rename_i heq; exact absurd (List.cons.inj heq).1 hc.2.1
  · rename_i heq; exact absurd (List.cons.inj heq).1 hc.2.2.1
  · simp only [htw, hdw]
    rcases hr with rfl | ⟨r, rfl⟩
    · simp
    · simp [isBlank]


/-! ### the four kinds of lines -/

def renderDims : Option (List DimD) → Str
  | some ds => '[' :: (renderDimBody ds ++ [']'])
  | none => []

def dimsValue : Option (List DimD) → Option (List Dim)
  | some ds => some (ds.map DimD.value)
  | none => none

def DimsOk : Option (List DimD) → Prop
  | some ds => ds ≠ [] ∧ ∀ d ∈ ds, d.Ok
  | none => True

/-- the comment behind a group name needs at least one blank in front of `#` -/
def renderGroupTail : Option (Nat × Str) → Str
  | some (n, c) => List.replicate (n + 1) ' ' ++ '#' :: c
  | none => []

theorem spaces_succ (a : Nat) (x : Str) : List.replicate (a + 1) ' ' ++ x = ' ' :: (List.replicate a ' ' ++ x) := by
  simp [List.replicate_succ]

/-- a line after its indentation -/
inductive LineD where
  /-- `name` and an optional comment (separated by at least one blank) -/
  | group (nm : Str) (cm : Option (Nat × Str))
  /-- `name = value [unit] [# comment]` -/
  | modify (nm : Str) (a b : Nat) (v : ValD)
  /-- `name type[dims] = value [unit] [# comment]` -/
  | define (nm : Str) (a : Nat) (ty : TyD) (dims : Option (List DimD)) (b c : Nat) (v : ValD)
  /-- `name type[dims] [unit] [# comment]` -/
  | declare (nm : Str) (a : Nat) (ty : TyD) (dims : Option (List DimD)) (unit : Option (Nat × Str)) (cm : Option (Nat × Str))

def LineD.render : LineD → Str
  | .group nm cm => nm ++ renderGroupTail cm
  | .modify nm a b v => nm ++ (List.replicate (a + 1) ' ' ++ '=' :: (List.replicate b ' ' ++ v.render))
  | .define nm a ty dims b c v =>
      nm ++ (List.replicate (a + 1) ' ' ++ (ty.render ++ (renderDims dims ++
        (List.replicate b ' ' ++ '=' :: (List.replicate c ' ' ++ v.render)))))
  | .declare nm a ty dims unit cm =>
      nm ++ (List.replicate (a + 1) ' ' ++ (ty.render ++ (renderDims dims ++ renderTail unit cm)))

/-- the node the line denotes (indentation 0) -/
def LineD.node : LineD → Node
  | .group nm _ => { kind := .group, name := some nm }
  | .modify nm _ _ v => { kind := .mod, name := some nm, raw := some (.text (decode v.lit.text)), units := v.unit.map Prod.snd }
  | .define nm _ ty dims _ _ v =>
      { kind := .typed ty.ty, name := some nm, info := ty.info, dims := dimsValue dims,
        raw := some (.text (decode v.lit.text)), units := v.unit.map Prod.snd }
  | .declare nm _ ty dims unit _ =>
      { kind := .typed ty.ty, name := some nm, info := ty.info, dims := dimsValue dims,
        units := unit.map Prod.snd, declared := true }

def LineD.Ok : LineD → Prop
  | .group nm _ => NameOk nm
  | .modify nm _ _ v => NameOk nm ∧ v.Ok
  | .define nm _ _ dims _ _ v => NameOk nm ∧ DimsOk dims ∧ v.Ok
  | .declare nm _ _ dims unit _ => NameOk nm ∧ DimsOk dims ∧ ∀ n x, unit = some (n, x) → UnitOk x

theorem afterName_group (nm : Str) (cm : Option (Nat × Str)) :
    afterName nm (renderGroupTail cm) =
      .ok { kind := .group, name := some nm } := by
  have : endOrComment (renderGroupTail cm) = true := by
    cases cm with
    | none => rfl
    | some p =>
      obtain ⟨n, c⟩ := p
      simp only [endOrComment, renderGroupTail]
      rw [dropWs_spaces_cons (n + 1) '#' c (by decide)]
      rfl
  simp [afterName, this]

theorem afterName_modify (nm : Str) (a b : Nat) (v : ValD) (hv : v.Ok) :
    afterName nm (List.replicate (a + 1) ' ' ++ '=' :: (List.replicate b ' ' ++ v.render)) =
      .ok { kind := .mod, name := some nm, raw := some (.text (decode v.lit.text)), units := v.unit.map Prod.snd } := by
  have h1 : endOrComment (List.replicate (a + 1) ' ' ++ '=' :: (List.replicate b ' ' ++ v.render)) = false := by
    simp only [endOrComment]
    rw [dropWs_spaces_cons (a + 1) '=' _ (by decide)]
    rfl
  have h2 : dropWs (List.replicate (a + 1) ' ' ++ '=' :: (List.replicate b ' ' ++ v.render)) =
      '=' :: (List.replicate b ' ' ++ v.render) := dropWs_spaces_cons (a + 1) '=' _ (by decide)
  have h3 := partEqual_eq (a + 1) b v.render (valD_head v hv)
  unfold afterName
  simp only [h1, Bool.false_eq_true, if_false, h2, h3]
  exact modTail_of_valueUnitsTail nm v.render _ (valueUnitsTail_render nm .mod {} none v hv)

theorem renderDims_after (dims : Option (List DimD)) (hd : DimsOk dims) (after : Str)
    (ha : after = [] ∨ ∃ c r, after = c :: r ∧ (c = ' ' ∨ c = '=' ∨ c = '#')) :
    AfterKw (renderDims dims ++ after) ∧
    partDimension (renderDims dims ++ after) = .ok (dimsValue dims, after) := by
  cases dims with
  | none =>
    simp only [renderDims, List.nil_append, dimsValue]
    constructor
    · rcases ha with h | ⟨c, r, h, hc⟩
      · exact .inl h
      · exact .inr ⟨c, r, h, by rcases hc with h | h | h <;> simp [h]⟩
    · apply partDimension_none
      rcases ha with h | ⟨c, r, h, hc⟩
      · exact .inl h
      · exact .inr ⟨c, r, h, by rcases hc with rfl | rfl | rfl <;> decide⟩
  | some ds =>
    obtain ⟨hne, hok⟩ := hd
    simp only [renderDims, dimsValue, List.cons_append, List.append_assoc, List.singleton_append]
    exact ⟨.inr ⟨'[', _, rfl, .inl rfl⟩, partDimension_dims ds hne hok after⟩

theorem afterName_typed_common (nm : Str) (a : Nat) (ty : TyD) (after : Str) (h : AfterKw after) :
    endOrComment (List.replicate (a + 1) ' ' ++ (ty.render ++ after)) = false ∧
    (∀ c r, dropWs (List.replicate (a + 1) ' ' ++ (ty.render ++ after)) = c :: r → c ≠ '{') ∧
    partEqual (List.replicate (a + 1) ' ' ++ (ty.render ++ after)) = none ∧
    partType (List.replicate (a + 1) ' ' ++ (ty.render ++ after)) = .ok (.typed ty.ty, ty.info, after) := by
  obtain ⟨c, r, hr, hc, h1, h2, h3⟩ := tyD_head ty
  have hd : dropWs (List.replicate (a + 1) ' ' ++ (ty.render ++ after)) = c :: (r ++ after) := by
    rw [hr]; exact dropWs_spaces_cons (a + 1) c (r ++ after) hc
  refine ⟨?_, ?_, ?_, partType_kw a ty after h⟩
  · simp only [endOrComment, hd]
    simpa using h1
  · intro c' r' e
    rw [hd] at e
    rw [← (List.cons.inj e).1]; exact h3
  · rw [hr]
    exact partEqual_none (a + 1) c (r ++ after) hc h2

theorem afterName_define (nm : Str) (a : Nat) (ty : TyD) (dims : Option (List DimD)) (b c : Nat) (v : ValD)
    (hd : DimsOk dims) (hv : v.Ok) :
    afterName nm (List.replicate (a + 1) ' ' ++ (ty.render ++ (renderDims dims ++
        (List.replicate b ' ' ++ '=' :: (List.replicate c ' ' ++ v.render))))) =
      .ok { kind := .typed ty.ty, name := some nm, info := ty.info, dims := dimsValue dims,
            raw := some (.text (decode v.lit.text)), units := v.unit.map Prod.snd } := by
  have hafter : (List.replicate b ' ' ++ '=' :: (List.replicate c ' ' ++ v.render)) = [] ∨
      ∃ x y, (List.replicate b ' ' ++ '=' :: (List.replicate c ' ' ++ v.render)) = x :: y ∧ (x = ' ' ∨ x = '=' ∨ x = '#') := by
    right
    cases b with
    | zero => exact ⟨'=', _, rfl, .inr (.inl rfl)⟩
    | succ m => exact ⟨' ', List.replicate m ' ' ++ '=' :: (List.replicate c ' ' ++ v.render), by simp [List.replicate_succ], .inl rfl⟩
  obtain ⟨hk, hpd⟩ := renderDims_after dims hd _ hafter
  obtain ⟨e1, e2, e3, e4⟩ := afterName_typed_common nm a ty _ hk
  have e5 := partEqual_eq b c v.render (valD_head v hv)
  unfold afterName
  simp only [e1, Bool.false_eq_true, if_false, e3, e4, hpd, e5, bind, Except.bind]
  split
  · rename_i heq
    exact absurd rfl (e2 _ _ heq)
  · exact valueUnitsTail_render nm (.typed ty.ty) ty.info (dimsValue dims) v hv


theorem partEqual_tail (unit : Option (Nat × Str)) (cm : Option (Nat × Str))
    (hu : ∀ n x, unit = some (n, x) → UnitOk x) : partEqual (renderTail unit cm) = none := by
  cases unit with
  | none =>
    cases cm with
    | none => rfl
    | some p =>
      obtain ⟨n, c⟩ := p
      simpa [renderTail, renderComment] using partEqual_none n '#' c (by decide) (by decide)
  | some p =>
    obtain ⟨n, x⟩ := p
    obtain ⟨⟨c, r, rfl, _⟩, hall⟩ := hu n x rfl
    have hcu : isUnitCh c = true := hall c (by simp)
    simp only [isUnitCh, Bool.and_eq_true, Bool.not_eq_eq_eq_not, Bool.not_true, bne_iff_ne] at hcu
    have := partEqual_none (n + 1) c (r ++ renderComment cm) hcu.1.1 hcu.2
    simpa [renderTail] using this

theorem afterName_declare (nm : Str) (a : Nat) (ty : TyD) (dims : Option (List DimD))
    (unit : Option (Nat × Str)) (cm : Option (Nat × Str))
    (hd : DimsOk dims) (hu : ∀ n x, unit = some (n, x) → UnitOk x) :
    afterName nm (List.replicate (a + 1) ' ' ++ (ty.render ++ (renderDims dims ++ renderTail unit cm))) =
      .ok { kind := .typed ty.ty, name := some nm, info := ty.info, dims := dimsValue dims,
            units := unit.map Prod.snd, declared := true } := by
  have hafter : renderTail unit cm = [] ∨ ∃ x y, renderTail unit cm = x :: y ∧ (x = ' ' ∨ x = '=' ∨ x = '#') := by
    rcases tail_head unit cm with h | ⟨x, y, h, hx⟩
    · exact .inl h
    · exact .inr ⟨x, y, h, by rcases hx with h | h <;> simp [h]⟩
  obtain ⟨hk, hpd⟩ := renderDims_after dims hd _ hafter
  obtain ⟨e1, e2, e3, e4⟩ := afterName_typed_common nm a ty _ hk
  have e5 := partEqual_tail unit cm hu
  unfold afterName
  simp only [e1, Bool.false_eq_true, if_false, e3, e4, hpd, e5, bind, Except.bind]
  split
  · rename_i heq
    exact absurd rfl (e2 _ _ heq)
  · cases hun : unit with
    | none =>
      have : renderTail none cm = renderComment cm := by simp [renderTail]
      simp only [this, partUnits_comment, endOrComment_comment, if_true, Option.map_none]
    | some p =>
      obtain ⟨n, x⟩ := p
      simp only [partUnits_unit n x (hu n x hun) cm, endOrComment_comment, if_true, Option.map_some]

/-- every kind of line: the recognisers after the indentation produce the node the line denotes -/
theorem determineBody_render (d : LineD) (hd : d.Ok) : determineBody d.render = .ok d.node := by
  cases d with
  | group nm cm =>
    have hr : renderGroupTail cm = [] ∨ ∃ r, renderGroupTail cm = ' ' :: r := by
      cases cm with
      | none => exact .inl rfl
      | some p => obtain ⟨n, c⟩ := p; exact .inr ⟨List.replicate n ' ' ++ '#' :: c, spaces_succ n _⟩
    simp only [LineD.render, LineD.node]
    rw [determineBody_name nm _ hd hr]
    exact afterName_group nm cm
  | modify nm a b v =>
    simp only [LineD.render, LineD.node]
    rw [determineBody_name nm _ hd.1 (.inr ⟨_, spaces_succ a _⟩)]
    exact afterName_modify nm a b v hd.2
  | define nm a ty dims b c v =>
    simp only [LineD.render, LineD.node]
    rw [determineBody_name nm _ hd.1 (.inr ⟨_, spaces_succ a _⟩)]
    exact afterName_define nm a ty dims b c v hd.2.1 hd.2.2
  | declare nm a ty dims unit cm =>
    simp only [LineD.render, LineD.node]
    rw [determineBody_name nm _ hd.1 (.inr ⟨_, spaces_succ a _⟩)]
    exact afterName_declare nm a ty dims unit cm hd.2.1 hd.2.2

def LineD.name : LineD → Str
  | .group nm _ => nm
  | .modify nm _ _ _ => nm
  | .define nm _ _ _ _ _ _ => nm
  | .declare nm _ _ _ _ _ => nm

theorem lineD_nameOk (d : LineD) (hd : d.Ok) : NameOk d.name := by
  cases d with
  | group nm cm => exact hd
  | modify nm a b v => exact hd.1
  | define nm a ty dims b c v => exact hd.1
  | declare nm a ty dims unit cm => exact hd.1

theorem lineD_render_name (d : LineD) : ∃ rest, d.render = d.name ++ rest := by
  cases d <;> exact ⟨_, rfl⟩

theorem lineD_head (d : LineD) (hd : d.Ok) : ∃ c r, d.render = c :: r ∧ isWs c = false ∧ c ≠ '#' := by
  obtain ⟨rest, hr⟩ := lineD_render_name d
  obtain ⟨⟨c, t, hn⟩, hall⟩ := lineD_nameOk d hd
  have := isNameCh_facts (hall c (by rw [hn]; simp))
  exact ⟨c, t ++ rest, by rw [hr, hn]; rfl, this.2.2.2.2.2.2.2, this.2.2.2.2.2.2.1⟩

/-- the whole lexer on one line at indentation `k` whose escape-marked text is the rendering of `d` -/
theorem determine_render_enc (k : Nat) (line : Str) (d : LineD) (hd : d.Ok) (henc : encode line = d.render) :
    determine (List.replicate k ' ' ++ line) = .ok { d.node with indent := k } := by
  obtain ⟨c, r, hr, hc, hh⟩ := lineD_head d hd
  rw [determine_indent k line c r (by rw [henc, hr]) hc hh, ← hr, determineBody_render d hd]
  rfl

/-- … in particular a rendered line without backslash and newline -/
theorem determine_render (k : Nat) (d : LineD) (hd : d.Ok) (hesc : NoEsc d.render) :
    determine (List.replicate k ' ' ++ d.render) = .ok { d.node with indent := k } :=
  determine_render_enc k d.render d hd (encode_noEsc _ hesc)

end SciVerif.C13
