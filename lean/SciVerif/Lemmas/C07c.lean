import SciVerif.Lemmas.C07b

/-!
Lemmas for C07, part 3: sequences of `Magnitude(...)`, `BaseUnits.__init__`, attribute assignments,
construction / re-assignment of a Quantity.
-/
namespace SciVerif.C07

theorem newMags_spec (l : List MagSpec) : ∀ {h : Heap}, WF h → (∀ s ∈ l, s.valid = true) →
    WF (newMags h l) ∧ Ext h (newMags h l) ∧
    (newMags h l).q = h.q ∧ (newMags h l).b = h.b ∧ (newMags h l).d = h.d := by
  induction l with
  | nil => intro h w _; exact ⟨w, Frame.refl h, rfl, rfl, rfl⟩
  | cons s ss ih =>
    intro h w hv
    obtain ⟨w1, x1, q1, b1, d1, _, _⟩ := newMag_spec w s (hv s (by simp))
    obtain ⟨w2, x2, q2, b2, d2⟩ := ih w1 (fun t ht => hv t (by simp [ht]))
    exact ⟨w2, x1.trans x2, by rw [newMags, q2, q1], by rw [newMags, b2, b1], by rw [newMags, d2, d1]⟩

/-- updates that touch only BaseUnits objects and dicts -/
theorem WF.units {h h' : Heap} (w : WF h) (hq : h'.q = h.q) (hm : h'.m = h.m) (ha : h'.a = h.a)
    (hn : h.n ≤ h'.n)
    (hb_lt : ∀ l c, h'.b l = some c → l < h'.n) (hd_lt : ∀ l c, h'.d l = some c → l < h'.n)
    (hb_keep : ∀ l c, h.b l = some c → ∃ c', h'.b l = some c')
    (hb_ok : ∀ l c, h'.b l = some c → ∃ dc, h'.d c.dict = some dc ∧ dc.normalised = true) : WF h' := by
  constructor
  · intro l c hh; rw [hq] at hh; have := w.q_lt l c hh; omega
  · intro l c hh; rw [hm] at hh; have := w.m_lt l c hh; omega
  · intro l c hh; rw [ha] at hh; have := w.a_lt l c hh; omega
  · exact hb_lt
  · exact hd_lt
  · intro l c hh; rw [hq] at hh
    obtain ⟨hmc, ⟨bc, hbc⟩⟩ := w.q_ok l c hh
    exact ⟨by rw [hm]; exact hmc, hb_keep _ bc hbc⟩
  · intro l c f r h1 h2; rw [hm] at h1; rw [ha]; exact w.m_ok l c f r h1 h2
  · exact hb_ok
  · intro l c r h1 h2; rw [hm] at h1; exact w.shaped l c r h1 h2
  · intro x y cx cy h1 h2; rw [hq] at h1 h2; exact w.own_mag x y cx cy h1 h2
  · intro l1 l2 c1 c2 f1 f2 r h1 h2; rw [hm] at h1 h2; exact w.own_arr l1 l2 c1 c2 f1 f2 r h1 h2

/-- `BaseUnits.__init__` over the dict at `dl` -/
theorem buOver_spec {h : Heap} (w : WF h) (dl : Nat) (dc : DictC) (hd : h.d dl = some dc) :
    WF (buOver h dl).2 ∧ (buOver h dl).2.q = h.q ∧ (buOver h dl).2.m = h.m ∧ (buOver h dl).2.a = h.a ∧
    h.n ≤ (buOver h dl).2.n ∧ h.n ≤ (buOver h dl).1 ∧
    (∀ l, l < h.n → (buOver h dl).2.b l = h.b l) ∧
    (∀ l, (l ≠ dl ∨ dc.normalised = true) → (buOver h dl).2.d l = h.d l) ∧
    (∃ bc, (buOver h dl).2.b (buOver h dl).1 = some bc) := by
  have hdl := w.d_lt dl dc hd
  cases hnorm : dc.normalised
  · -- the constructor rewrites the dict
    have e : buOver h dl =
        (h.n + 2, { h with d := upd h.d dl ⟨h.n, true⟩,
                           b := upd h.b (h.n + 2) ⟨dl, h.n + 1⟩, n := h.n + 3 }) := by
      simp [buOver, hd, hnorm]
    rw [e]
    refine ⟨?_, rfl, rfl, rfl, by simp, by simp, ?_, ?_, ⟨⟨dl, h.n + 1⟩, by simp⟩⟩
    · refine WF.units w ?_ ?_ ?_ ?_ ?_ ?_ ?_ ?_
      · rfl
      · rfl
      · rfl
      · simp
      · intro l c hh
        by_cases e : l = h.n + 2
        · subst e; simp
        · simp only [upd_ne _ _ _ _ e] at hh; have := w.b_lt l c hh; simp; omega
      · intro l c hh
        by_cases e : l = dl
        · subst e; simp; omega
        · simp only [upd_ne _ _ _ _ e] at hh; have := w.d_lt l c hh; simp; omega
      · intro l c hh
        have := w.b_lt l c hh
        exact ⟨c, by simp [upd_ne _ _ _ _ (show l ≠ h.n + 2 by omega), hh]⟩
      · intro l c hh
        by_cases e : l = h.n + 2
        · subst e; simp only [upd_same, Option.some.injEq] at hh; subst hh; exact ⟨⟨h.n, true⟩, by simp, rfl⟩
        · simp only [upd_ne _ _ _ _ e] at hh
          obtain ⟨dc', h1, h2⟩ := w.b_ok l c hh
          by_cases e2 : c.dict = dl
          · exact ⟨⟨h.n, true⟩, by simp [e2], rfl⟩
          · exact ⟨dc', by simp [upd_ne _ _ _ _ e2, h1], h2⟩
    · intro l hl; exact upd_ne _ _ _ _ (by omega)
    · intro l hl
      rcases hl with hl | hl
      · exact upd_ne _ _ _ _ hl
      · simp at hl
  · have e : buOver h dl =
        (h.n + 1, { h with b := upd h.b (h.n + 1) ⟨dl, h.n⟩, n := h.n + 2 }) := by
      simp [buOver, hd, hnorm]
    rw [e]
    refine ⟨?_, rfl, rfl, rfl, by simp, by simp, ?_, fun _ _ => rfl, ⟨⟨dl, h.n⟩, by simp⟩⟩
    · refine WF.units w ?_ ?_ ?_ ?_ ?_ ?_ ?_ ?_
      · rfl
      · rfl
      · rfl
      · simp
      · intro l c hh
        by_cases e : l = h.n + 1
        · subst e; simp
        · simp only [upd_ne _ _ _ _ e] at hh; have := w.b_lt l c hh; simp; omega
      · intro l c hh; have := w.d_lt l c hh; simp; omega
      · intro l c hh
        have := w.b_lt l c hh
        exact ⟨c, by simp [upd_ne _ _ _ _ (show l ≠ h.n + 1 by omega), hh]⟩
      · intro l c hh
        by_cases e : l = h.n + 1
        · subst e; simp only [upd_same, Option.some.injEq] at hh; subst hh; exact ⟨dc, hd, hnorm⟩
        · simp only [upd_ne _ _ _ _ e] at hh; exact w.b_ok l c hh
    · intro l hl; exact upd_ne _ _ _ _ (by omega)

/-- the BaseUnits argument of an operation refers to an existing object -/
def BUSpec.ok (h : Heap) : BUSpec → Prop
  | .fresh => True
  | .aliasDict b => ∃ bc, h.b b = some bc
  | .share b => ∃ bc, h.b b = some bc

theorem BUSpec.ok_mono {h h' : Heap} (w : WF h) (x : Ext h h') (s : BUSpec) (hs : s.ok h) : s.ok h' := by
  cases s with
  | fresh => trivial
  | aliasDict b => obtain ⟨bc, hb⟩ := hs; exact ⟨bc, by rw [x.b_eq b (w.b_lt b bc hb)]; exact hb⟩
  | share b => obtain ⟨bc, hb⟩ := hs; exact ⟨bc, by rw [x.b_eq b (w.b_lt b bc hb)]; exact hb⟩

theorem newBU_spec {h : Heap} (w : WF h) (s : BUSpec) (hs : s.ok h) :
    WF (newBU h s).2 ∧ Ext h (newBU h s).2 ∧
    (newBU h s).2.q = h.q ∧ (newBU h s).2.m = h.m ∧ (newBU h s).2.a = h.a ∧
    (∃ bc, (newBU h s).2.b (newBU h s).1 = some bc) := by
  cases s with
  | share b =>
    obtain ⟨bc, hb⟩ := hs
    exact ⟨w, Frame.refl h, rfl, rfl, rfl, ⟨bc, hb⟩⟩
  | aliasDict b =>
    obtain ⟨bc, hb⟩ := hs
    obtain ⟨dc, hd, hnorm⟩ := w.b_ok b bc hb
    have e : newBU h (.aliasDict b) = buOver h bc.dict := by simp [newBU, hb]
    rw [e]
    obtain ⟨w1, q1, m1, a1, n1, _, b1, d1, r1⟩ := buOver_spec w bc.dict dc hd
    refine ⟨w1, ?_, q1, m1, a1, r1⟩
    exact ext_of_eq n1 (fun l _ => by rw [q1]) (fun l _ => by rw [m1]) (fun l _ => by rw [a1]) b1
      (fun l _ => d1 l (Or.inr hnorm))
  | fresh =>
    -- a new dict, then the constructor
    let h0 : Heap := { h with d := upd h.d h.n ⟨h.n, false⟩, n := h.n + 1 }
    have w0 : WF h0 := by
      refine WF.units w ?_ ?_ ?_ ?_ ?_ ?_ ?_ ?_
      · rfl
      · rfl
      · rfl
      · simp [h0]
      · intro l c hh; have := w.b_lt l c hh; simp [h0]; omega
      · intro l c hh
        by_cases e : l = h.n
        · subst e; simp [h0]
        · simp only [h0, upd_ne _ _ _ _ e] at hh; have := w.d_lt l c hh; simp [h0]; omega
      · intro l c hh; exact ⟨c, hh⟩
      · intro l c hh
        obtain ⟨dc', h1, h2⟩ := w.b_ok l c hh
        have := w.d_lt _ dc' h1
        exact ⟨dc', by simp [h0, upd_ne _ _ _ _ (show c.dict ≠ h.n by omega), h1], h2⟩
    have e : newBU h .fresh = buOver h0 h.n := rfl
    rw [e]
    obtain ⟨w1, q1, m1, a1, n1, _, b1, d1, r1⟩ := buOver_spec w0 h.n ⟨h.n, false⟩ (by simp [h0])
    refine ⟨w1, ?_, q1, m1, a1, r1⟩
    have hn0 : h0.n = h.n + 1 := rfl
    apply ext_of_eq (by omega) (fun l _ => by rw [q1]) (fun l _ => by rw [m1]) (fun l _ => by rw [a1])
    · intro l hl; rw [b1 l (by omega)]
    · intro l hl
      rw [d1 l (Or.inl (by omega))]
      exact upd_ne _ _ _ _ (by omega)

theorem newBUs_spec (l : List BUSpec) : ∀ {h : Heap}, WF h → (∀ s ∈ l, s.ok h) →
    WF (newBUs h l) ∧ Ext h (newBUs h l) ∧
    (newBUs h l).q = h.q ∧ (newBUs h l).m = h.m ∧ (newBUs h l).a = h.a := by
  induction l with
  | nil => intro h w _; exact ⟨w, Frame.refl h, rfl, rfl, rfl⟩
  | cons s ss ih =>
    intro h w hv
    obtain ⟨w1, x1, q1, m1, a1, _⟩ := newBU_spec w s (hv s (by simp))
    obtain ⟨w2, x2, q2, m2, a2⟩ := ih w1 (fun t ht => BUSpec.ok_mono w x1 t (hv t (by simp [ht])))
    exact ⟨w2, x1.trans x2, by rw [newBUs, q2, q1], by rw [newBUs, m2, m1], by rw [newBUs, a2, a1]⟩

/-! ### attribute assignments -/

/-- the new content of one attribute of the Magnitude at `ml` -/
def Mag.withField (c : Mag) (f : Bool) (r : Ref) : Mag := if f then { c with value := r } else { c with error := r }

theorem Mag.withField_same (c : Mag) (f : Bool) (r : Ref) : (c.withField f r).field f = r := by
  cases f <;> simp [Mag.withField, Mag.field]

theorem Mag.withField_other (c : Mag) (f g : Bool) (r : Ref) (h : g ≠ f) :
    (c.withField f r).field g = c.field g := by
  cases f <;> cases g <;> simp_all [Mag.withField, Mag.field]

/-- `mag.<f> = r0` where `r0` is nothing, a scalar, or an array nobody refers to -/
theorem WF.setMagField {h : Heap} (w : WF h) (ml : Nat) (c : Mag) (hm : h.m ml = some c) (f0 : Bool)
    (r0 : Ref) (hr : ∀ r, r0 = .arr r → (∃ t, h.a r = some t) ∧ Unref h r)
    (hsh : ∀ r, (c.withField f0 r0).error = .arr r → (c.withField f0 r0).value.isArr = true) :
    WF { h with m := upd h.m ml (c.withField f0 r0) } := by
  have hml := w.m_lt ml c hm
  constructor
  · exact w.q_lt
  · intro l c' hh
    by_cases e : l = ml
    · subst e; exact hml
    · simp only [upd_ne _ _ _ _ e] at hh; exact w.m_lt l c' hh
  · exact w.a_lt
  · exact w.b_lt
  · exact w.d_lt
  · intro l c' hq
    obtain ⟨⟨mc, hmc⟩, hb⟩ := w.q_ok l c' hq
    refine ⟨?_, hb⟩
    by_cases e : c'.mag = ml
    · exact ⟨c.withField f0 r0, by simp [e]⟩
    · exact ⟨mc, by simp [upd_ne _ _ _ _ e, hmc]⟩
  · intro l c' f r h1 h2
    by_cases e : l = ml
    · subst e
      simp only [upd_same, Option.some.injEq] at h1; subst h1
      by_cases ef : f = f0
      · subst ef; rw [Mag.withField_same] at h2; exact (hr r h2).1
      · rw [Mag.withField_other _ _ _ _ ef] at h2; exact w.m_ok l c f r hm h2
    · simp only [upd_ne _ _ _ _ e] at h1; exact w.m_ok l c' f r h1 h2
  · exact w.b_ok
  · intro l c' r h1 h2
    by_cases e : l = ml
    · subst e; simp only [upd_same, Option.some.injEq] at h1; subst h1; exact hsh r h2
    · simp only [upd_ne _ _ _ _ e] at h1; exact w.shaped l c' r h1 h2
  · exact w.own_mag
  · intro l1 l2 c1 c2 f1 f2 r h1 h2 e1 e2
    -- a reference to `r` in the new heap is either the new attribute or an old reference
    have key : ∀ l c' f, (upd h.m ml (c.withField f0 r0)) l = some c' → c'.field f = .arr r →
        (l = ml ∧ f = f0 ∧ r0 = .arr r) ∨ (∃ co, h.m l = some co ∧ co.field f = .arr r ∧ ¬ (l = ml ∧ f = f0)) := by
      intro l c' f hh hf
      by_cases e : l = ml
      · subst e
        simp only [upd_same, Option.some.injEq] at hh; subst hh
        by_cases ef : f = f0
        · subst ef; rw [Mag.withField_same] at hf; exact Or.inl ⟨rfl, rfl, hf⟩
        · rw [Mag.withField_other _ _ _ _ ef] at hf
          exact Or.inr ⟨c, hm, hf, fun hh => ef hh.2⟩
      · simp only [upd_ne _ _ _ _ e] at hh
        exact Or.inr ⟨c', hh, hf, fun hh => e hh.1⟩
    rcases key l1 c1 f1 h1 e1 with ⟨a1, a2, a3⟩ | ⟨o1, p1, p2, p3⟩ <;>
    rcases key l2 c2 f2 h2 e2 with ⟨b1, b2, b3⟩ | ⟨o2, q1, q2, q3⟩
    · exact ⟨a1.trans b1.symm, a2.trans b2.symm⟩
    · exact absurd q2 ((hr r a3).2 l2 o2 f2 q1)
    · exact absurd p2 ((hr r b3).2 l1 o1 f1 p1)
    · exact w.own_arr l1 l2 o1 o2 f1 f2 r p1 q1 p2 q2

theorem setField_eq (h : Heap) (ml : Nat) (c : Mag) (f isArr : Bool) :
    setField h ml c f isArr =
      { (allocRef h isArr).2 with m := upd (allocRef h isArr).2.m ml (c.withField f (allocRef h isArr).1) } := by
  cases f <;> simp [setField, Mag.withField]

/-- `mag.<f> = <new object>` -/
theorem setField_spec {h : Heap} (w : WF h) (ml : Nat) (c : Mag) (hm : h.m ml = some c) (f isArr : Bool)
    (hshape : (f = true → c.value.isArr = isArr) ∧ (f = false → isArr = true → c.value.isArr = true)) :
    WF (setField h ml c f isArr) ∧ Frame h (setField h ml c f isArr) none (some ml) none ∧
    (setField h ml c f isArr).q = h.q ∧ (setField h ml c f isArr).b = h.b ∧
    (setField h ml c f isArr).d = h.d ∧
    (∃ c', (setField h ml c f isArr).m ml = some c' ∧ c'.value.isArr = c.value.isArr) := by
  obtain ⟨w1, x1, q1, m1, b1, d1, s1, r1⟩ := allocRef_spec w isArr
  rw [setField_eq]
  generalize allocRef h isArr = A at *
  have hm1 : A.2.m ml = some c := by rw [m1]; exact hm
  refine ⟨?_, ?_, q1, b1, d1, ⟨c.withField f A.1, by simp, ?_⟩⟩
  · apply WF.setMagField w1 ml c hm1 f A.1
    · intro r hr; exact ⟨(r1 r hr).1, (r1 r hr).2.1⟩
    · intro r hr
      cases f
      · simp only [Mag.withField, Bool.false_eq_true, if_false] at hr ⊢
        exact hshape.2 rfl (by rw [← s1, hr]; rfl)
      · simp only [Mag.withField, if_true] at hr ⊢
        have := w.shaped ml c r hm hr
        rw [s1, ← hshape.1 rfl]; exact this
  · constructor
    · exact x1.n_le
    · intro l _ _; show A.2.q l = h.q l; rw [q1]
    · intro l _ hx
      show upd A.2.m ml _ l = h.m l
      rw [upd_ne _ _ _ _ (by intro e; exact hx (by rw [e])), m1]
    · intro l hl hx; exact x1.a_eq l hl hx
    · intro l _; show A.2.b l = h.b l; rw [b1]
    · intro l _; show A.2.d l = h.d l; rw [d1]
  · cases f
    · simp [Mag.withField]
    · simp only [Mag.withField, if_true]; rw [s1]; exact (hshape.1 rfl).symm

/-- a new Quantity object -/
theorem WF.allocQ {h : Heap} (w : WF h) (ml bl : Nat) (hm : ∃ c, h.m ml = some c)
    (hb : ∃ c, h.b bl = some c) (hu : Unowned h ml) :
    WF { h with q := upd h.q h.n ⟨ml, bl⟩, n := h.n + 1 } := by
  constructor
  · intro l c hq
    by_cases e : l = h.n
    · subst e; simp
    · simp only [upd_ne _ _ _ _ e] at hq; have := w.q_lt l c hq; simp; omega
  · intro l c hq; have := w.m_lt l c hq; simp; omega
  · intro l c hq; have := w.a_lt l c hq; simp; omega
  · intro l c hq; have := w.b_lt l c hq; simp; omega
  · intro l c hq; have := w.d_lt l c hq; simp; omega
  · intro l c hq
    by_cases e : l = h.n
    · subst e; simp only [upd_same, Option.some.injEq] at hq; subst hq; exact ⟨hm, hb⟩
    · simp only [upd_ne _ _ _ _ e] at hq; exact w.q_ok l c hq
  · exact w.m_ok
  · exact w.b_ok
  · exact w.shaped
  · intro x y cx cy h1 h2 he
    by_cases a1 : x = h.n <;> by_cases a2 : y = h.n
    · rw [a1, a2]
    · subst a1; simp only [upd_same, Option.some.injEq] at h1; subst h1
      simp only [upd_ne _ _ _ _ a2] at h2
      exact absurd he.symm (hu y cy h2)
    · subst a2; simp only [upd_same, Option.some.injEq] at h2; subst h2
      simp only [upd_ne _ _ _ _ a1] at h1
      exact absurd he (hu x cx h1)
    · simp only [upd_ne _ _ _ _ a1] at h1
      simp only [upd_ne _ _ _ _ a2] at h2
      exact w.own_mag x y cx cy h1 h2 he
  · exact w.own_arr

/-- `x.magnitude = …; x.baseunits = …` -/
theorem WF.setQ {h : Heap} (w : WF h) (x ml bl : Nat) (hx : ∃ c, h.q x = some c)
    (hm : ∃ c, h.m ml = some c) (hb : ∃ c, h.b bl = some c) (hu : Unowned h ml) :
    WF { h with q := upd h.q x ⟨ml, bl⟩ } := by
  obtain ⟨cx0, hx0⟩ := hx
  constructor
  · intro l c hq
    by_cases e : l = x
    · subst e; exact w.q_lt l cx0 hx0
    · simp only [upd_ne _ _ _ _ e] at hq; exact w.q_lt l c hq
  · exact w.m_lt
  · exact w.a_lt
  · exact w.b_lt
  · exact w.d_lt
  · intro l c hq
    by_cases e : l = x
    · subst e; simp only [upd_same, Option.some.injEq] at hq; subst hq; exact ⟨hm, hb⟩
    · simp only [upd_ne _ _ _ _ e] at hq; exact w.q_ok l c hq
  · exact w.m_ok
  · exact w.b_ok
  · exact w.shaped
  · intro y z cy cz h1 h2 he
    by_cases a1 : y = x <;> by_cases a2 : z = x
    · rw [a1, a2]
    · subst a1; simp only [upd_same, Option.some.injEq] at h1; subst h1
      simp only [upd_ne _ _ _ _ a2] at h2
      exact absurd he.symm (hu z cz h2)
    · subst a2; simp only [upd_same, Option.some.injEq] at h2; subst h2
      simp only [upd_ne _ _ _ _ a1] at h1
      exact absurd he (hu y cy h1)
    · simp only [upd_ne _ _ _ _ a1] at h1
      simp only [upd_ne _ _ _ _ a2] at h2
      exact w.own_mag y z cy cz h1 h2 he
  · exact w.own_arr

end SciVerif.C07
