import SciVerif.Model.C01Spec
import SciVerif.Generated.C01Tables

/-!
# C01 helper lemmas, part 1: the loop of `Tokens.operate`, the levelled token lists,
  facts decided over the regenerated tables.
-/
namespace SciVerif.C01
open SciVerif.C01.Gen

variable {A : Type}

/-! ### Counting iterations of the `while self.right:` loop -/

/-- `c` iterations of the loop body lead from `b` to `b'` (for every amount of spare fuel). -/
def StepsTo (f : Bufs A → M A (Bufs A)) (c : Nat) (b b' : Bufs A) : Prop :=
  ∀ n, loop f (n + c) b = loop f n b'

theorem StepsTo.refl (f : Bufs A → M A (Bufs A)) (b : Bufs A) : StepsTo f 0 b b := fun _ => rfl

theorem StepsTo.trans {f : Bufs A → M A (Bufs A)} {c1 c2 : Nat} {b1 b2 b3 : Bufs A}
    (h1 : StepsTo f c1 b1 b2) (h2 : StepsTo f c2 b2 b3) : StepsTo f (c1 + c2) b1 b3 := by
  intro n
  have : n + (c1 + c2) = (n + c2) + c1 := by omega
  rw [this, h1, h2]

theorem StepsTo.one {f : Bufs A → M A (Bufs A)} {l : List (Tok A)} {t : Tok A} {r : List (Tok A)}
    {b' : Bufs A} (h : f ⟨l, t :: r⟩ = .ok b') : StepsTo f 1 ⟨l, t :: r⟩ b' := by
  intro n
  simp [loop, h]

theorem loop_done (f : Bufs A → M A (Bufs A)) (n : Nat) (l : List (Tok A)) :
    loop f n ⟨l, []⟩ = .ok ⟨l, []⟩ := by
  cases n <;> simp [loop]

/-- A pass that needs at most as many iterations as there are tokens completes within the fuel. -/
theorem operate_of_steps (tbl : Table) (alg : AtomAlg A) (ops : List Nat) (ot : Otype)
    (T out : List (Tok A)) (c : Nat) (hc : c ≤ T.length)
    (h : StepsTo (step tbl alg ops ot) c ⟨[], T⟩ ⟨out.reverse, []⟩) :
    operate tbl alg ops ot ⟨[], T⟩ = .ok ⟨[], out⟩ := by
  unfold operate
  have e : 2 * T.length + 2 = (2 * T.length + 2 - c) + c := by omega
  simp only []
  rw [e, h, loop_done]
  simp

/-! ### Single iterations -/

theorem step_atom (tbl : Table) (alg : AtomAlg A) (ops : List Nat) (ot : Otype)
    (l r : List (Tok A)) (v : A) :
    step tbl alg ops ot ⟨l, .atom v :: r⟩ = .ok ⟨.atom v :: l, r⟩ := rfl

theorem step_skip (tbl : Table) (alg : AtomAlg A) (ops : List Nat) (ot : Otype)
    (l r : List (Tok A)) (i : Nat) (a : List (Option A)) (h : isInst tbl ops i = false) :
    step tbl alg ops ot ⟨l, .op i a :: r⟩ = .ok ⟨.op i a :: l, r⟩ := by
  simp [step, h]

theorem step_binary (tbl : Table) (alg : AtomAlg A) (ops : List Nat)
    (l r : List (Tok A)) (i : Nat) (a : List (Option A)) (x y : A) (f : Fn2) (row : OpRow)
    (hi : isInst tbl ops i = true) (hr : tbl.rows[i]? = some row)
    (hb : row.binary = some ⟨true, true, [(.left, .bin f .L .R)]⟩) :
    step tbl alg ops .binary ⟨.atom x :: l, .op i a :: .atom y :: r⟩
      = .ok ⟨.atom (alg.bin f x y) :: l, r⟩ := by
  simp [step, hi, dispatch, hr, hb, runSimple, getLeft, getRight, runPuts, putTok, evalTm, tokAtom,
    put, putLeft]

/-! ### Levelled token lists -/

/-- operator tokens of the default table -/
def tokB (o : B2) : Tok A := .op (idxOf dflt o.name) []
def tokS (neg : Bool) : Tok A := .op (idxOf dflt (if neg then "sub" else "add")) []
def tokN : Tok A := .op (idxOf dflt "not") []

/-- The token list before pass `k`: every sub-expression of a level below `k` has been
    replaced by its value. `flat 0` is the tokeniser's output, `flat 9` a single atom. -/
def flat (alg : AtomAlg A) (lit : List Char → A) (k : Nat) : E → List (Tok A)
  | .num t => [.atom (lit t)]
  | .fn1 f e =>
      if 0 < k then [.atom (eval alg lit (.fn1 f e))]
      else [.op (idxOf dflt f.name) [some (eval alg lit e)]]
  | .fn2 g a b =>
      if 0 < k then [.atom (eval alg lit (.fn2 g a b))]
      else [.op (idxOf dflt g.name) [some (eval alg lit a), some (eval alg lit b)]]
  | .sign s e =>
      if 1 < k then [.atom (eval alg lit (.sign s e))] else tokS s :: flat alg lit k e
  | .bin o l r =>
      if o.level < k then [.atom (eval alg lit (.bin o l r))]
      else flat alg lit k l ++ [tokB o] ++ flat alg lit k r
  | .not e =>
      if 6 < k then [.atom (eval alg lit (.not e))] else tokN :: flat alg lit k e

theorem flat_of_lt (alg : AtomAlg A) (lit : List Char → A) (k : Nat) (e : E) (h : e.level < k) :
    flat alg lit k e = [.atom (eval alg lit e)] := by
  cases e <;> simp_all [flat, E.level, eval]
  all_goals omega

theorem flat_zero (alg : AtomAlg A) (lit : List Char → A) (e : E) :
    flat alg lit 0 e = toks dflt alg lit e := by
  induction e with
  | num t => rfl
  | fn1 f e _ => simp [flat, toks]
  | fn2 g a b _ _ => simp [flat, toks]
  | sign s e ih => simp [flat, toks, ih, tokS]
  | bin o l r ihl ihr => simp [flat, toks, ihl, ihr, tokB]
  | not e ih => simp [flat, toks, ih, tokN]

theorem level_lt_nine (e : E) : e.level < 9 := by
  cases e with
  | bin o l r => cases o <;> simp [E.level, B2.level]
  | _ => simp [E.level]

theorem flat_nine (alg : AtomAlg A) (lit : List Char → A) (e : E) :
    flat alg lit 9 e = [.atom (eval alg lit e)] := flat_of_lt alg lit 9 e (level_lt_nine e)

/-- every levelled token list ends with an atom … -/
theorem flat_last (alg : AtomAlg A) (lit : List Char → A) (k : Nat) (hk : 0 < k) (e : E) :
    ∃ pre v, flat alg lit k e = pre ++ [.atom v] := by
  induction e with
  | num t => exact ⟨[], lit t, rfl⟩
  | fn1 f e _ => exact ⟨[], eval alg lit (.fn1 f e), by simp [flat, hk]⟩
  | fn2 g a b _ _ => exact ⟨[], eval alg lit (.fn2 g a b), by simp [flat, hk]⟩
  | sign s e ih =>
    by_cases h : 1 < k
    · exact ⟨[], eval alg lit (.sign s e), by simp [flat, h]⟩
    · obtain ⟨pre, v, e1⟩ := ih
      exact ⟨tokS s :: pre, v, by simp [flat, h, e1]⟩
  | bin o l r _ ihr =>
    by_cases h : o.level < k
    · exact ⟨[], eval alg lit (.bin o l r), by simp [flat, h]⟩
    · obtain ⟨pre, v, e1⟩ := ihr
      exact ⟨flat alg lit k l ++ [tokB o] ++ pre, v, by simp [flat, h, e1]⟩
  | not e ih =>
    by_cases h : 6 < k
    · exact ⟨[], eval alg lit (.not e), by simp [flat, h]⟩
    · obtain ⟨pre, v, e1⟩ := ih
      exact ⟨tokN :: pre, v, by simp [flat, h, e1]⟩

/-- … and is not empty. -/
theorem flat_length_pos (alg : AtomAlg A) (lit : List Char → A) (k : Nat) (e : E) :
    0 < (flat alg lit k e).length := by
  cases e <;> simp only [flat] <;> (try split) <;> simp <;> omega

theorem flat_ne_nil (alg : AtomAlg A) (lit : List Char → A) (k : Nat) (e : E) :
    ∃ t ts, flat alg lit k e = t :: ts := by
  have h := flat_length_pos alg lit k e
  cases hf : flat alg lit k e with
  | nil => simp [hf] at h
  | cons t ts => exact ⟨t, ts, rfl⟩

/-! ### Facts decided over the regenerated tables (`Generated/C01Tables.lean`) -/

/-- the nine steps of the live step table, resolved against the live operator table -/
theorem resolve_steps :
    dfltSteps.map (resolveStep dflt) =
      [([0, 1, 2, 3, 4, 5, 6, 7, 8, 9], .args), ([13, 14], .unary), ([10], .binary),
       ([11, 12], .binary), ([13, 14], .binary), ([15, 16, 18, 19, 20, 21], .binary),
       ([17], .unary), ([22], .binary), ([23], .binary)] := by decide

/-- every binary operator of the language is in the table, and its `operate_binary` applies
    the atom method of the same name to (left, right) in this order -/
theorem binary_rows (o : B2) : ∃ row, dflt.rows[idxOf dflt o.name]? = some row ∧
    row.binary = some ⟨true, true, [(.left, .bin o.fn .L .R)]⟩ := by
  cases o <;> exact ⟨_, rfl, rfl⟩

/-- the binary operators a binary pass picks up are exactly those of its level -/
theorem inst_binary (o : B2) :
    isInst dflt [10] (idxOf dflt o.name) = decide (o.level = 2) ∧
    isInst dflt [11, 12] (idxOf dflt o.name) = decide (o.level = 3) ∧
    isInst dflt [13, 14] (idxOf dflt o.name) = decide (o.level = 4) ∧
    isInst dflt [15, 16, 18, 19, 20, 21] (idxOf dflt o.name) = decide (o.level = 5) ∧
    isInst dflt [22] (idxOf dflt o.name) = decide (o.level = 7) ∧
    isInst dflt [23] (idxOf dflt o.name) = decide (o.level = 8) ∧
    isInst dflt [17] (idxOf dflt o.name) = false ∧
    isInst dflt [0, 1, 2, 3, 4, 5, 6, 7, 8, 9] (idxOf dflt o.name) = false := by
  cases o <;> decide

/-- `!` is picked up by its own pass only -/
theorem inst_not :
    isInst dflt [10] (idxOf dflt "not") = false ∧
    isInst dflt [11, 12] (idxOf dflt "not") = false ∧
    isInst dflt [13, 14] (idxOf dflt "not") = false ∧
    isInst dflt [15, 16, 18, 19, 20, 21] (idxOf dflt "not") = false ∧
    isInst dflt [22] (idxOf dflt "not") = false ∧
    isInst dflt [23] (idxOf dflt "not") = false ∧
    isInst dflt [17] (idxOf dflt "not") = true ∧
    isInst dflt [0, 1, 2, 3, 4, 5, 6, 7, 8, 9] (idxOf dflt "not") = false := by decide

end SciVerif.C01
