import SciVerif.Lemmas.C01q

/-!
# C01 helper lemmas, part 18 (character level): an argument text that every nested solver rejects,
  wrapped in any number of one-argument calls / parentheses.
-/
namespace SciVerif.C01
open SciVerif.C01.Gen

variable {A : Type} (alg : AtomAlg A) (lit : List Char → A)

/-- a text without blanks at either end -/
def Tight (C : List Char) : Prop :=
  ∃ x y, C.head? = some x ∧ isWs x = false ∧ C.getLast? = some y ∧ isWs y = false

/-- a stripped, balanced argument text that every sufficiently fuelled solver rejects with `m` -/
structure BadCore (m : String) (C : List Char) (d : Nat) : Prop where
  bal : ∀ k, nest C k = some k
  safe : SafeHead C
  tight : Tight C
  len : d + 1 ≤ C.length
  err : ∀ n, d ≤ n → (solveFromF dflt alg dfltSteps (n + 1) ⟨[], []⟩ C).2 = .error m

theorem BadCore.ne_nil {m : String} {C : List Char} {d : Nat} (h : BadCore alg m C d) : C ≠ [] := by
  intro hc
  have := h.len
  rw [hc] at this
  simp at this

theorem BadCore.strip_eq {m : String} {C : List Char} {d : Nat} (h : BadCore alg m C d) (a b : Nat) :
    strip (blanks a ++ C ++ blanks b) = C := by
  obtain ⟨x, y, hx, hxw, hy, hyw⟩ := h.tight
  exact strip_pad a b x y C hx hxw hy hyw

theorem BadCore.pad_bal {m : String} {C : List Char} {d : Nat} (h : BadCore alg m C d) (a b k : Nat) :
    nest (blanks a ++ C ++ blanks b) k = some k := by
  rw [nest_append, nest_append, nest_blanks]
  simp only [Option.bind_some]
  rw [h.bal]
  simp only [Option.bind_some]
  exact nest_blanks b k

theorem BadCore.pad_safe {m : String} {C : List Char} {d : Nat} (h : BadCore alg m C d) (a b : Nat)
    (r : List Char) : SafeHead ((blanks a ++ C ++ blanks b) ++ r) := by
  rw [List.append_assoc, List.append_assoc]
  exact safeHead_blanks a _ (h.safe.append (h.ne_nil alg) _)

include lit in
/-- one more one-argument call (or pair of parentheses) around a rejected text -/
theorem BadCore.wrap {m : String} {C : List Char} {d : Nat} (h : BadCore alg m C d) (f : F1) (a b : Nat) :
    BadCore alg m (f.sym ++ ((blanks a ++ C ++ blanks b) ++ [')'])) (d + 1) := by
  have hsym := f1Sym_props f
  refine ⟨?_, ?_, ?_, ?_, ?_⟩
  · intro k
    rw [nest_append, hsym.2.2 k]
    simp only [Option.bind_some]
    rw [nest_append, h.pad_bal alg a b (k + 1)]
    simp [nest]
  · exact hsym.2.1.append hsym.1.1 _
  · obtain ⟨hne, hall⟩ := hsym.1
    cases hs : f.sym with
    | nil => exact absurd hs hne
    | cons c cs =>
      refine ⟨c, ')', by simp, hall c (by rw [hs]; simp), ?_, by decide⟩
      rw [← List.append_assoc, List.getLast?_append]
      simp
  · have := h.len
    have hl : 0 < f.sym.length := List.length_pos_iff.mpr hsym.1.1
    simp only [List.length_append, List.length_cons, List.length_nil, blanks_length]
    omega
  · intro n hn
    obtain ⟨q, rfl⟩ : ∃ q, n = q + 1 := ⟨n - 1, by omega⟩
    have := solveFromF_arg_err alg lit (q + 1) [] trivial (fun _ hh => by cases hh) [] Pre.nil f
      (blanks a ++ C ++ blanks b) (h.pad_bal alg a b 0) 0 [] (h.pad_safe alg a b _) m
      (by rw [h.strip_eq alg a b]; exact h.err q (by omega))
    simpa [blanks] using this

/-- the base: a well-formed expression followed by a dangling operator the step loop rejects -/
theorem badCore_base (hn : NegNeg alg) (e' : E) (hwf' : e'.WF) (hl' : LitOK alg lit e') (o : OprK)
    (v : List Char) (hv : Pre (lexemes e' ++ [o.sym]) v) (m : String)
    (hs : solveToks dflt alg dfltSteps (toks dflt alg lit e' ++ [tokOf alg lit (.opr o)]) = .error m) :
    ∃ k0 C, v = blanks k0 ++ C ∧ BadCore alg m C (cdepth e') := by
  have hgood : ∀ x ∈ lexemes e' ++ [o.sym], GoodLex x := by
    intro x hx
    simp only [List.mem_append, List.mem_singleton] at hx
    rcases hx with hx | rfl
    · exact lexemes_good alg lit e' hl' x hx
    · exact (oprSym_props o).1
  obtain ⟨x, xs, e1, h1, h2⟩ := lexemes_head alg lit e' hl'
  have hv' : Pre (x :: (xs ++ [o.sym])) v := by simpa [e1] using hv
  obtain ⟨k0, s, rfl, hs'⟩ := Pre.cons_inv hv'
  have hp : Pre (lexemes e' ++ [o.sym]) (x ++ s) := by
    rw [e1]; simpa [blanks] using Pre.cons 0 x hs'
  refine ⟨k0, x ++ s, by simp, ?_, ?_, ?_, ?_, ?_⟩
  · intro k
    obtain ⟨v1, v2, e2, hv1, hv2⟩ := Pre.append_inv hp
    obtain ⟨jo, rfl⟩ := Pre.single_inv hv2
    rw [e2, nest_append, nest_text alg lit e' hl' v1 hv1 k]
    simp only [Option.bind_some]
    rw [nest_append, nest_blanks]
    simp only [Option.bind_some]
    exact nest_neutral _ (oprSym_props o).2 k
  · exact h2.append h1 _
  · obtain ⟨y, hy, hyw⟩ := Pre.last_nonws hp (by simp) hgood
    have hgx : GoodLex x := hgood x (by rw [e1]; simp)
    cases x with
    | nil => exact absurd rfl h1
    | cons c cs => exact ⟨c, y, by simp, hgx.2 c (by simp), hy, hyw⟩
  · have h3 := Pre.length_le hp (fun z hz => (hgood z hz).1)
    have h4 := cdepth_le_lexemes e'
    simp only [List.length_append, List.length_cons, List.length_nil] at h3 ⊢
    omega
  · intro n hd
    have := solveFromF_framed_err alg lit hn e' hwf' hl' [] [.opr o] (fun _ h => by cases h)
      (fun it h => by simp only [List.mem_singleton] at h; subst h; rfl)
      (adj_post_opr alg lit e' hl' _) (x ++ s) 0
      (by simpa [lexemes_items, itemLex] using hp) m (by simpa using hs) n hd
    simpa [blanks] using this

/-- padded text inside `fs` nested one-argument calls / parentheses, blanks around each -/
def nestCalls : List (F1 × Nat × Nat) → List Char → List Char
  | [], t => t
  | (f, a, b) :: fs, t => blanks a ++ f.sym ++ nestCalls fs t ++ ')' :: blanks b

include lit in
theorem badCore_nest (m : String) (fs : List (F1 × Nat × Nat)) (t : List Char) (d : Nat)
    (h : ∃ a b C, t = blanks a ++ C ++ blanks b ∧ BadCore alg m C d) :
    ∃ a b C, nestCalls fs t = blanks a ++ C ++ blanks b ∧ BadCore alg m C (d + fs.length) := by
  induction fs with
  | nil => simpa [nestCalls] using h
  | cons x fs ih =>
    obtain ⟨f, a, b⟩ := x
    obtain ⟨a', b', C', e, hc⟩ := ih
    refine ⟨a, b, _, ?_, hc.wrap alg lit f a' b'⟩
    simp [nestCalls, e, List.append_assoc]

/-- a rejected text wrapped in a one-argument call after the text of an admissible item list -/
theorem solve_badCore (its : List LItem) (hadj : Adj its) (u : List Char)
    (hu : Pre (its.flatMap itemLex) u) (f : F1) (j : Nat) (rest : List Char)
    (m : String) (C : List Char) (d : Nat) (h : BadCore alg m C d) (a b : Nat)
    (hok : ∀ it ∈ its, ItemOK alg lit
      (nestedSolve alg (u ++ (blanks j ++ (f.sym ++ ((blanks a ++ C ++ blanks b) ++ ')' :: rest)))).length) it) :
    solve dflt alg dfltSteps (u ++ (blanks j ++ (f.sym ++ ((blanks a ++ C ++ blanks b) ++ ')' :: rest))))
      = .error m := by
  obtain ⟨q, hq⟩ : ∃ q, (u ++ (blanks j ++ (f.sym ++ ((blanks a ++ C ++ blanks b)
      ++ ')' :: rest)))).length = q + 1 :=
    ⟨(u ++ (blanks j ++ (f.sym ++ ((blanks a ++ C ++ blanks b) ++ ')' :: rest)))).length - 1,
      by simp; omega⟩
  have hdq : d ≤ q := by
    have := h.len
    simp only [List.length_append, List.length_cons, blanks_length] at hq
    omega
  rw [hq] at hok
  have := solveFromF_arg_err alg lit (q + 1) its hadj hok u hu f _ (h.pad_bal alg a b 0) j rest
    (h.pad_safe alg a b _) m (by rw [h.strip_eq alg a b]; exact h.err q hdq)
  unfold solve solveI solveFrom resetBufs
  rw [hq]
  exact this

/-- the items of a framed well-formed expression are admissible for every nested solver with
    enough fuel -/
theorem itemOK_framed (hn : NegNeg alg) (e : E) (hwf : e.WF) (hl : LitOK alg lit e)
    (pre post : List LItem) (hpre : OprOnly pre) (hpost : OprOnly post) (n : Nat) (hd : cdepth e ≤ n) :
    ∀ it ∈ pre ++ items e ++ post, ItemOK alg lit (nestedSolve alg n) it := by
  have hargs := args_of_depth alg lit hn e hwf hl _ hd
  intro it hit
  simp only [List.mem_append] at hit
  rcases hit with (hit | hit) | hit
  · exact itemOK_opr alg lit _ it (hpre it hit)
  · exact itemOK_items alg lit _ e hl hargs it hit
  · exact itemOK_opr alg lit _ it (hpost it hit)

theorem framed_len (e : E) (hl : LitOK alg lit e)
    (pre post : List LItem) (hpre : OprOnly pre) (hpost : OprOnly post) (u : List Char)
    (hu : Pre ((pre ++ items e ++ post).flatMap itemLex) u) : cdepth e ≤ u.length := by
  have h1 := Pre.length_le hu (fun x hx => by
    simp only [List.flatMap_append, List.mem_append, List.mem_flatMap] at hx
    rcases hx with (⟨it, hit, hx⟩ | ⟨it, hit, hx⟩) | ⟨it, hit, hx⟩
    · exact oprLex_ne_nil it (hpre it hit) x hx
    · have : x ∈ lexemes e := by rw [lexemes_items]; exact List.mem_flatMap.mpr ⟨it, hit, hx⟩
      exact (lexemes_good alg lit e hl x this).1
    · exact oprLex_ne_nil it (hpost it hit) x hx)
  have h2 : (lexemes e).length ≤ ((pre ++ items e ++ post).flatMap itemLex).length := by
    rw [lexemes_items]; simp; omega
  have := cdepth_le_lexemes e
  omega

/-- A dangling operator inside ANY number of nested one-argument calls / parentheses, after the
    text of an admissible item list: `solve` raises what the step loop raises on the innermost
    token list. -/
theorem solve_nested_err (hn : NegNeg alg) (its : List LItem) (hadj : Adj its) (u : List Char)
    (hu : Pre (its.flatMap itemLex) u) (N : Nat) (hN : N ≤ u.length)
    (hok : ∀ n, N ≤ n → ∀ it ∈ its, ItemOK alg lit (nestedSolve alg n) it)
    (f : F1) (j : Nat) (rest : List Char) (fs : List (F1 × Nat × Nat))
    (e' : E) (hwf' : e'.WF) (hl' : LitOK alg lit e') (o : OprK) (v : List Char) (k : Nat)
    (hv : Pre (lexemes e' ++ [o.sym]) v) (m : String)
    (hs : solveToks dflt alg dfltSteps (toks dflt alg lit e' ++ [tokOf alg lit (.opr o)]) = .error m) :
    solve dflt alg dfltSteps
      (u ++ (blanks j ++ (f.sym ++ (nestCalls fs (v ++ blanks k) ++ ')' :: rest)))) = .error m := by
  obtain ⟨k0, C, rfl, hC⟩ := badCore_base alg lit hn e' hwf' hl' o v hv m hs
  obtain ⟨a, b, C', e, hC'⟩ := badCore_nest alg lit m fs (blanks k0 ++ C ++ blanks k) _
    ⟨k0, k, C, rfl, hC⟩
  rw [e]
  exact solve_badCore alg lit its hadj u hu f j rest m C' _ hC' a b
    (hok _ (by simp only [List.length_append]; omega))

end SciVerif.C01
