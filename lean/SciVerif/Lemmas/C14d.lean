import SciVerif.Lemmas.C14c
/-!
What the lexer produces is well-formed in the sense of `NodeWF` (apart from table lines, which the
main loop expands before anything else).
-/
namespace SciVerif.C13

def NodeWF' (nd : Node) : Prop :=
  (nd.kind = .mod → nd.name.isSome = true ∧ nd.raw.isSome = true) ∧
  (∀ t, nd.kind = .typed t → nd.name.isSome = true)

theorem valueUnitsTail_wf (nm : Str) (kind : Kind) (info : TyInfo) (dims : Option (List Dim)) (v : Str) (nd : Node)
    (h : valueUnitsTail nm kind info dims v = .ok nd) : NodeWF' nd := by
  unfold valueUnitsTail at h
  simp only [bind, Except.bind] at h
  cases hp : partValue v with
  | error e => rw [hp] at h; cases h
  | ok r =>
    rw [hp] at h
    simp only at h
    split at h
    · simp only [Except.ok.injEq] at h
      subst h
      exact ⟨fun _ => ⟨rfl, rfl⟩, fun _ _ => rfl⟩
    · cases h

theorem modTail_wf (nm v : Str) (nd : Node) (h : modTail nm v = .ok nd) : NodeWF' nd := by
  unfold modTail at h
  simp only [bind, Except.bind] at h
  cases hp : partValue v with
  | error e => rw [hp] at h; cases h
  | ok r =>
    rw [hp] at h
    simp only at h
    split at h
    · simp only [Except.ok.injEq] at h
      subst h
      exact ⟨fun _ => ⟨rfl, rfl⟩, fun _ _ => rfl⟩
    · split at h <;> cases h

theorem partTypeCore_kind (t : Str) (k : Kind) (i : TyInfo) (r : Str) (h : partTypeCore t = .ok (k, i, r)) :
    k ≠ .mod := by
  unfold partTypeCore at h
  repeat' split at h
  all_goals first
    | (cases h; done)
    | (cases h; decide)
    | decide

theorem partType_kind (x : Str) (k : Kind) (i : TyInfo) (r : Str) (h : partType x = .ok (k, i, r)) : k ≠ .mod := by
  unfold partType at h
  split at h
  · split at h
    · cases h
    · exact partTypeCore_kind _ k i r h
  · cases h

theorem afterName_wf (nm rest : Str) (nd : Node) (h : afterName nm rest = .ok nd) : NodeWF' nd := by
  unfold afterName at h
  split at h
  · simp only [Except.ok.injEq] at h; subst h
    refine ⟨fun hk => ?_, fun t hk => ?_⟩ <;> cases hk
  · split at h
    · split at h <;> cases h
    · split at h
      · exact modTail_wf _ _ _ h
      · simp only [bind, Except.bind] at h
        cases hpt : partType rest with
        | error e => rw [hpt] at h; cases h
        | ok r1 =>
          obtain ⟨k, i, r⟩ := r1
          rw [hpt] at h
          simp only at h
          cases hpd : partDimension r with
          | error e => rw [hpd] at h; cases h
          | ok r2 =>
            rw [hpd] at h
            simp only at h
            split at h
            · exact valueUnitsTail_wf _ _ _ _ _ _ h
            · split at h
              · simp only [Except.ok.injEq] at h; subst h
                exact ⟨fun hk => absurd hk (partType_kind _ k i r hpt), fun _ _ => rfl⟩
              · cases h

theorem nodeWF'_of_kind (x : Node) (h1 : x.kind ≠ .mod) (h2 : ∀ t, x.kind ≠ .typed t) : NodeWF' x :=
  ⟨fun hk => absurd hk h1, fun t hk => absurd hk (h2 t)⟩

theorem determineBody_wf (b : Str) (nd : Node) (h : determineBody b = .ok nd) : NodeWF' nd := by
  unfold determineBody at h
  split at h
  · split at h <;> cases h
  · cases h
  · split at h
    · split at h
      · simp only [Except.ok.injEq] at h; subst h
        exact nodeWF'_of_kind _ (by decide) (fun t => by intro e; cases e)
      · cases h
    · cases h
  · simp only at h
    cases hdw : b.dropWhile isNameCh with
    | nil =>
      rw [hdw] at h
      simp only at h
      split at h
      · cases h
      · exact afterName_wf _ _ _ h
    | cons c r =>
      rw [hdw] at h
      by_cases h1 : c = '$'
      · subst h1
        simp only at h
        split at h
        · split at h
          · simp only [Except.ok.injEq] at h; subst h
            exact nodeWF'_of_kind _ (by decide) (fun t => by intro e; cases e)
          · cases h
        · cases h
      · by_cases h2 : c = '@'
        · subst h2; cases h
        · have : (match c :: r with
              | '$' :: _ => (Except.error Err.unsupported : R Node)
              | '@' :: _ => Except.error Err.unsupported
              | _ => Except.ok { kind := .empty }) = Except.ok { kind := .empty } := by
            split
            · rename_i heq; exact absurd (List.cons.inj heq).1 h1
            · rename_i heq; exact absurd (List.cons.inj heq).1 h2
            · rfl
          split at h
          · rename_i heq; exact absurd (List.cons.inj heq).1 h1
          · rename_i heq; exact absurd (List.cons.inj heq).1 h2
          · split at h
            · cases h
            · split at h
              · cases h
              · exact afterName_wf _ _ _ h
          · rename_i heq; cases heq

theorem determine_wf (l : Str) (nd : Node) (h : determine l = .ok nd) : NodeWF' nd := by
  unfold determine at h
  simp only at h
  have hempty : NodeWF' { kind := .empty } := nodeWF'_of_kind _ (by decide) (fun t => by intro e; cases e)
  split at h
  · simp only [Except.ok.injEq] at h; subst h; exact hempty
  · split at h
    · simp only [Except.ok.injEq] at h; subst h; exact hempty
    · cases hb : determineBody ((encode l).dropWhile isWs) with
      | error e => rw [hb] at h; cases h
      | ok nd0 =>
        rw [hb] at h
        simp only [Except.map, Except.ok.injEq] at h
        subst h
        have := determineBody_wf _ _ hb
        exact ⟨fun hk => this.1 hk, fun t hk => this.2 t hk⟩

theorem mapM_ok_mem {β γ : Type} (f : β → R γ) : ∀ (l : List β) (ys : List γ), l.mapM f = .ok ys →
    ∀ y ∈ ys, ∃ x ∈ l, f x = .ok y := by
  intro l
  induction l with
  | nil => intro ys h y hy; simp only [List.mapM_nil, pure, Except.pure, Except.ok.injEq] at h; subst h; cases hy
  | cons a t ih =>
    intro ys h y hy
    simp only [List.mapM_cons, bind, Except.bind] at h
    cases ha : f a with
    | error e => rw [ha] at h; cases h
    | ok b =>
      rw [ha] at h
      simp only at h
      cases ht : t.mapM f with
      | error e => rw [ht] at h; cases h
      | ok bs =>
        rw [ht] at h
        simp only [pure, Except.pure, Except.ok.injEq] at h
        subst h
        rcases List.mem_cons.mp hy with rfl | hy'
        · exact ⟨a, by simp, ha⟩
        · obtain ⟨x, hx, hfx⟩ := ih bs ht y hy'
          exact ⟨x, List.mem_cons_of_mem _ hx, hfx⟩

end SciVerif.C13
