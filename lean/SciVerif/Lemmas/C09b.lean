import SciVerif.Lemmas.C09

/-!
C09, second part: programs. Every program gives back the globals it started from; rows present
before stay readable (with the same content) at every point of the run.
-/
namespace SciVerif.C09
open SciVerif.C20 (Tbl dget dset ddel)

/-- The row `__init__` stores for a definition (the defaults as written in the code). -/
def rowOf (symbol : Sym) (u : UnitDef) : Option Row :=
  if conversionRaises u then none else
  match fieldsOf u with
  | some (some m, some d, df, n, p) => some ⟨m, d, df.getD Defn.none, n.getD symbol, p.getD Pref.no⟩
  | _ => none

/-- `g'` extends `g`: every row of `g` is still there, unchanged. -/
def Ext (g g' : Globals) : Prop :=
  (∀ k, k ∈ g.std.keys → k ∈ g'.std.keys) ∧ (∀ k v, dget g.std.data k = some v → dget g'.std.data k = some v)

theorem Ext.refl (g : Globals) : Ext g g := ⟨fun _ h => h, fun _ _ h => h⟩

theorem Ext.trans {a b c : Globals} (h1 : Ext a b) (h2 : Ext b c) : Ext a c :=
  ⟨fun k h => h2.1 k (h1.1 k h), fun k v h => h2.2 k v (h1.2 k v h)⟩

theorem Added.ext {g0 g : Globals} {e : Env} (h : Added g0 g e) : Ext g0 g := by
  obtain ⟨rs, _, hd⟩ := h.rows
  refine ⟨fun k hk => by rw [h.keys]; exact List.mem_append_left _ hk, fun k v hv => ?_⟩
  rw [hd]; exact dget_append_left _ _ _ _ hv

theorem resolves_ext {g g' : Globals} (h : Ext g g') (s : Sym) (hr : resolves g s = true) :
    resolves g' s = true := by
  unfold resolves at *
  simp only [Bool.and_eq_true, decide_eq_true_eq] at hr ⊢
  obtain ⟨hk, hd⟩ := hr
  refine ⟨h.1 s hk, ?_⟩
  cases hv : dget g.std.data s with
  | none => simp [hv] at hd
  | some v => simp [h.2 s v hv]

theorem tblAppend_fresh (t : Tbl Sym Row) (hw : t.keys = t.data.map Prod.fst) (k : Sym) (r : Row)
    (hk : k ∉ t.keys) :
    (tblAppend t k r).keys = t.keys ++ [k] ∧ (tblAppend t k r).data = t.data ++ [(k, r)] := by
  have hsd : k ∉ t.data.map Prod.fst := by rw [← hw]; exact hk
  exact ⟨by simp [tblAppend, hk], by simp only [tblAppend]; exact dset_append_new _ _ _ hsd⟩

/-- The shape of one loop iteration: it either raises leaving `UNIT_STANDARD` untouched, or
    completes having appended exactly the row `rowOf` describes under a symbol that was absent. -/
theorem regOne_shape (g : Globals) (e : Env) (symbol : Sym) (u : UnitDef) :
    ((regOne g e symbol u).2.2 = false ∧ (regOne g e symbol u).1.std = g.std) ∨
    ((regOne g e symbol u).2.2 = true ∧ symbol ∉ g.std.keys ∧ ∃ r, rowOf symbol u = some r ∧
      (regOne g e symbol u).1.std = tblAppend g.std symbol r) := by
  unfold regOne rowOf
  by_cases hc : conversionRaises u = true
  · left; simp [hc]
  · simp only [hc, Bool.false_eq_true, if_false]
    by_cases hs : symbol ∈ g.std.keys
    · left; simp [hs]
    · simp only [hs, if_false]
      cases hf : fieldsOf u with
      | none => left; exact ⟨rfl, rfl⟩
      | some f =>
        obtain ⟨m, d, df, n, p⟩ := f
        simp only
        have hstd := (regTypes_std g e (df.getD Defn.none)).1
        rcases regAppend_shape (regTypes g e (df.getD Defn.none)).1
            (regTypes g e (df.getD Defn.none)).2 symbol m d
            (df.getD Defn.none) (n.getD symbol) (p.getD Pref.no) with ⟨he, _⟩ | ⟨mag, dims, hm, hd, he⟩
        · left; rw [he]; exact ⟨rfl, hstd⟩
        · right; rw [he]; subst hm hd
          exact ⟨rfl, not_false, _, rfl, by simp only [hstd]⟩

theorem regOne_ext (g : Globals) (e : Env) (symbol : Sym) (u : UnitDef) (w : WF g) :
    Ext g (regOne g e symbol u).1 ∧ WF (regOne g e symbol u).1 := by
  rcases regOne_shape g e symbol u with ⟨_, h⟩ | ⟨_, hs, r, _, h⟩
  · unfold Ext WF at *; rw [h]; exact ⟨⟨fun _ x => x, fun _ _ x => x⟩, w⟩
  · obtain ⟨hk, hd⟩ := tblAppend_fresh g.std w symbol r hs
    unfold Ext WF at *
    rw [h, hk, hd]
    refine ⟨⟨fun k x => List.mem_append_left _ x, fun k v x => dget_append_left _ _ _ _ x⟩, ?_⟩
    simp [w]

theorem regLoop_ext (units : List (Sym × UnitDef)) :
    ∀ (g : Globals) (e : Env), WF g → Ext g (regLoop g e units).1 ∧ WF (regLoop g e units).1 := by
  induction units with
  | nil => intro g e w; exact ⟨Ext.refl g, w⟩
  | cons a rest ih =>
    intro g e w
    obtain ⟨symbol, u⟩ := a
    have h1 := regOne_ext g e symbol u w
    unfold regLoop
    rcases hr : regOne g e symbol u with ⟨g', e', ok⟩
    rw [hr] at h1
    cases ok with
    | false => exact h1
    | true =>
      have h2 := ih g' e' h1.2
      exact ⟨h1.1.trans h2.1, h2.2⟩

/-- After a completed registration loop every listed symbol is a key and reads the row defined. -/
theorem regLoop_rows (units : List (Sym × UnitDef)) :
    ∀ (g : Globals) (e : Env), WF g → (regLoop g e units).2.2 = true →
      ∀ su ∈ units, ∃ r, rowOf su.1 su.2 = some r ∧ su.1 ∈ (regLoop g e units).1.std.keys ∧
        dget (regLoop g e units).1.std.data su.1 = some r := by
  induction units with
  | nil => intro g e _ _ su hsu; simp at hsu
  | cons a rest ih =>
    intro g e w hok su hsu
    obtain ⟨symbol, u⟩ := a
    have h1 := regOne_ext g e symbol u w
    have hsh := regOne_shape g e symbol u
    unfold regLoop at hok ⊢
    rcases hr : regOne g e symbol u with ⟨g', e', ok⟩
    rw [hr] at h1 hsh hok
    simp only at h1 hsh hok ⊢
    cases ok with
    | false => simp at hok
    | true =>
      simp only at hok ⊢
      have h2 := regLoop_ext rest g' e' h1.2
      rcases List.mem_cons.mp hsu with rfl | hin
      · rcases hsh with ⟨hf, _⟩ | ⟨_, hs, r, hr1, hstd⟩
        · simp at hf
        · obtain ⟨hk, hd⟩ := tblAppend_fresh g.std w symbol r hs
          have hsd : symbol ∉ g.std.data.map Prod.fst := by unfold WF at w; rw [← w]; exact hs
          refine ⟨r, hr1, h2.1.1 _ ?_, h2.1.2 _ _ ?_⟩
          · rw [hstd, hk]; simp
          · rw [hstd, hd]; exact dget_append_new _ [] _ _ hsd
      · exact ih g' e' h1.2 hok su hin

/-! ### programs -/

theorem run_seq (p q : Prog) (g : Globals) : run (.seq p q) g =
    if (run p g).2.1 = true then
      ((run q (run p g).1).1, (run q (run p g).1).2.1, (run p g).2.2 ++ (run q (run p g).1).2.2)
    else run p g := by
  rw [run]
  rcases run p g with ⟨g1, ok1, ev1⟩
  cases ok1 <;> simp

theorem run_attempt (p : Prog) (g : Globals) : run (.attempt p) g =
    ((run p g).1, true, if (run p g).2.1 = true then (run p g).2.2 else (run p g).2.2 ++ [.caught]) := by
  rw [run]
  rcases run p g with ⟨g1, ok1, ev1⟩
  cases ok1 <;> simp

theorem run_scope_none (units : List (Sym × UnitDef)) (body : Prog) (g : Globals)
    (h : (init g units).2 = none) :
    run (.scope units body) g = ((init g units).1, false, [.entered false (init g units).1]) := by
  rw [run]
  rcases hi : init g units with ⟨g1, oe⟩
  rw [hi] at h
  simp only at h
  subst h
  rfl

theorem run_scope_some (units : List (Sym × UnitDef)) (body : Prog) (g : Globals) (e : Env)
    (h : (init g units).2 = some e) :
    run (.scope units body) g =
      ((close (run body (init g units).1).1 e).1,
       (run body (init g units).1).2.1 && (close (run body (init g units).1).1 e).2,
       .entered true (init g units).1 :: (run body (init g units).1).2.2 ++
         [.exited (close (run body (init g units).1).1 e).2 (close (run body (init g units).1).1 e).1]) := by
  rw [run]
  rcases hi : init g units with ⟨g1, oe⟩
  rw [hi] at h
  simp only at h
  subst h
  rfl

/-- Every program gives back exactly the globals it started from; `__exit__` never raises;
    a symbol that resolves at the start resolves at every `use` of the run. -/
theorem run_restored (p : Prog) : ∀ (g : Globals), WF g →
    (run p g).1 = g ∧
    (∀ ok g', Ev.exited ok g' ∈ (run p g).2.2 → ok = true) ∧
    (∀ s ok, resolves g s = true → Ev.used s ok ∈ (run p g).2.2 → ok = true) := by
  induction p with
  | skip => intro g _; simp [run]
  | raise => intro g _; simp [run]
  | use s =>
    intro g _
    refine ⟨rfl, by simp [run], ?_⟩
    intro s' ok hr hm
    simp only [run, List.mem_singleton, Ev.used.injEq] at hm
    obtain ⟨rfl, rfl⟩ := hm
    exact hr
  | seq p q ihp ihq =>
    intro g w
    obtain ⟨h1, h2, h3⟩ := ihp g w
    rw [run_seq]
    by_cases hok : (run p g).2.1 = true
    · simp only [hok, if_true]
      rw [h1]
      obtain ⟨k1, k2, k3⟩ := ihq g w
      refine ⟨k1, ?_, ?_⟩
      · intro ok g' hm
        rcases List.mem_append.mp hm with hm | hm
        · exact h2 ok g' hm
        · exact k2 ok g' hm
      · intro s ok hr hm
        rcases List.mem_append.mp hm with hm | hm
        · exact h3 s ok hr hm
        · exact k3 s ok hr hm
    · simp only [hok]
      exact ⟨h1, h2, h3⟩
  | attempt p ih =>
    intro g w
    obtain ⟨h1, h2, h3⟩ := ih g w
    rw [run_attempt]
    refine ⟨h1, ?_, ?_⟩
    · intro ok g' hm
      simp only at hm
      split at hm
      · exact h2 ok g' hm
      · simp only [List.mem_append, List.mem_singleton, reduceCtorEq, or_false] at hm
        exact h2 ok g' hm
    · intro s ok hr hm
      simp only at hm
      split at hm
      · exact h3 s ok hr hm
      · simp only [List.mem_append, List.mem_singleton, reduceCtorEq, or_false] at hm
        exact h3 s ok hr hm
  | scope units body ih =>
    intro g w
    rcases init_cases g w units with ⟨hn, hg⟩ | ⟨e, hs, ha, _, _⟩
    · rw [run_scope_none units body g hn, hg]
      simp
    · rw [run_scope_some units body g e hs]
      have w1 : WF (init g units).1 := ha.wf w
      obtain ⟨h1, h2, h3⟩ := ih (init g units).1 w1
      rw [h1]
      have hc := close_added g (init g units).1 e w ha
      rw [hc]
      refine ⟨rfl, ?_, ?_⟩
      · intro ok g' hm
        simp only [List.mem_cons, List.mem_append, reduceCtorEq, false_or,
          List.not_mem_nil, or_false] at hm
        rcases hm with hm | hm
        · exact h2 ok g' hm
        · simp only [Ev.exited.injEq] at hm; exact hm.1
      · intro s ok hr hm
        simp only [List.mem_cons, List.mem_append, reduceCtorEq, false_or,
          List.not_mem_nil, or_false] at hm
        exact h3 s ok (resolves_ext ha.ext s hr) hm

end SciVerif.C09
