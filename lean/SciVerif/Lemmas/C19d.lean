import SciVerif.Lemmas.C19c
/-!
# C19 — Fortran `reshape` with `order=[k,…,1]` undoes the row-major element list

Index arithmetic by induction on the nesting: inside the element list `pre ++ flatten v ++ post`
the element of `v` with multi-index `idx` sits at `pre.length + rowPos dims idx`.
-/
namespace SciVerif.C19

/-! ## rectangular shapes, unfolded -/

theorem rectShapes_nil {α : Type} : rectShapes ([] : List (Tree α)) = some none := by
  simp [rectShapes]

theorem rectShapes_cons {α : Type} (t : Tree α) (ts : List (Tree α)) :
    rectShapes (t :: ts) =
      match rectShape t, rectShapes ts with
      | some sh, some none => some (some sh)
      | some sh, some (some sh') => if sh = sh' then some (some sh) else none
      | _, _ => none := by
  rw [rectShapes]
  rfl

/-- `rectShapes` says: every child has the one shape `sh` -/
theorem rectShapes_some {α : Type} : ∀ (ts : List (Tree α)) (sh : List Nat),
    rectShapes ts = some (some sh) → ts ≠ [] ∧ ∀ t ∈ ts, rectShape t = some sh
  | [], sh, h => by simp [rectShapes_nil] at h
  | t :: ts, sh, h => by
    rw [rectShapes_cons] at h
    cases h1 : rectShape t with
    | none => simp [h1] at h
    | some s1 =>
      cases h2 : rectShapes ts with
      | none => simp [h1, h2] at h
      | some o =>
        cases o with
        | none =>
          simp [h1, h2] at h
          subst h
          have : ts = [] := by
            cases ts with
            | nil => rfl
            | cons u us =>
              rw [rectShapes_cons] at h2
              cases h3 : rectShape u <;> cases h4 : rectShapes us <;> simp [h3, h4] at h2
              rename_i o2
              cases o2 <;> simp at h2
          subst this
          exact ⟨by simp, by simp [h1]⟩
        | some s2 =>
          simp only [h1, h2] at h
          split at h
          · rename_i e
            simp at h
            subst h; subst e
            have ih := rectShapes_some ts s1 h2
            exact ⟨by simp, by
              intro u hu
              rcases List.mem_cons.mp hu with rfl | hu
              · exact h1
              · exact ih.2 u hu⟩
          · simp at h

theorem rectShapes_none {α : Type} : ∀ (ts : List (Tree α)), rectShapes ts = some none → ts = []
  | [], _ => rfl
  | t :: ts, h => by
    rw [rectShapes_cons] at h
    cases h1 : rectShape t <;> cases h2 : rectShapes ts <;> simp [h1, h2] at h
    rename_i o
    cases o <;> simp at h

theorem rectShape_arr {α : Type} (ts : List (Tree α)) (dims : List Nat)
    (h : rectShape (.arr ts) = some dims) :
    (ts = [] ∧ dims = [0]) ∨
      (∃ sh, dims = ts.length :: sh ∧ ts ≠ [] ∧ ∀ t ∈ ts, rectShape t = some sh) := by
  simp only [rectShape] at h
  cases h1 : rectShapes ts with
  | none => simp [h1] at h
  | some o =>
    cases o with
    | none =>
      simp [h1] at h
      exact Or.inl ⟨rectShapes_none ts h1, h.symm⟩
    | some sh =>
      simp [h1] at h
      exact Or.inr ⟨sh, h.symm, rectShapes_some ts sh h1⟩

/-! ## the element list of a rectangular value has `prod dims` entries -/

theorem flattenList_cons {α : Type} (t : Tree α) (ts : List (Tree α)) :
    flattenList (t :: ts) = flatten t ++ flattenList ts := by simp [flattenList]

mutual
theorem length_flatten {α : Type} : (v : Tree α) → ∀ dims, rectShape v = some dims →
    (flatten v).length = prod dims
  | .leaf a, dims, h => by
    simp [rectShape] at h
    subst h
    simp [flatten, prod]
  | .arr ts, dims, h => by
    rcases rectShape_arr ts dims h with ⟨rfl, rfl⟩ | ⟨sh, rfl, _, hall⟩
    · simp [flatten, flattenList, prod]
    · simp only [flatten, prod]
      exact length_flattenList ts sh hall
theorem length_flattenList {α : Type} : (ts : List (Tree α)) → ∀ sh,
    (∀ t ∈ ts, rectShape t = some sh) → (flattenList ts).length = ts.length * prod sh
  | [], sh, _ => by simp [flattenList]
  | t :: ts, sh, h => by
    have h1 := length_flatten t sh (h t (by simp))
    have h2 := length_flattenList ts sh (fun u hu => h u (by simp [hu]))
    simp only [flattenList_cons, List.length_append, List.length_cons, h1, h2]
    rw [Nat.add_mul, Nat.one_mul, Nat.add_comm]
end

/-! ## `build` finds every element -/

theorem rowPos_cons (d : Nat) (ds : List Nat) (i : Nat) (is : List Nat) :
    rowPos (d :: ds) (i :: is) = i * prod ds + rowPos ds is := by simp [rowPos]

theorem build_nil {α : Type} (f : List Nat → Option α) : build [] f = (f []).map .leaf := by
  simp [build]

theorem build_cons {α : Type} (d : Nat) (ds : List Nat) (f : List Nat → Option α) :
    build (d :: ds) f =
      ((List.range d).mapM (fun i => build ds (fun idx => f (i :: idx)))).map .arr := by
  simp [build]

mutual
/-- inside `pre ++ flatten v ++ post`, `build` over the offsets `pre.length + rowPos dims idx` gives `v` -/
theorem build_flatten {α : Type} : (v : Tree α) → ∀ dims, rectShape v = some dims →
    ∀ (pre post : List α),
      build dims (fun idx => (pre ++ flatten v ++ post)[pre.length + rowPos dims idx]?) = some v
  | .leaf a, dims, h, pre, post => by
    simp [rectShape] at h
    subst h
    simp [build_nil, flatten, rowPos]
  | .arr ts, dims, h, pre, post => by
    rcases rectShape_arr ts dims h with ⟨rfl, rfl⟩ | ⟨sh, rfl, _, hall⟩
    · simp [build_cons]
    · rw [build_cons, List.range_eq_range']
      have key := build_flattenList ts sh hall pre post 0 pre.length (by simp)
      simp only [flatten]
      have e : (fun i => build sh (fun idx =>
            (pre ++ flattenList ts ++ post)[pre.length + rowPos (ts.length :: sh) (i :: idx)]?)) =
          (fun i => build sh (fun idx =>
            (pre ++ flattenList ts ++ post)[pre.length + i * prod sh + rowPos sh idx]?)) := by
        funext i
        congr 1
        funext idx
        rw [rowPos_cons, Nat.add_assoc]
      rw [e, key]
      rfl
theorem build_flattenList {α : Type} : (ts : List (Tree α)) → ∀ sh,
    (∀ t ∈ ts, rectShape t = some sh) →
    ∀ (pre post : List α) (s base : Nat), base + s * prod sh = pre.length →
      (List.range' s ts.length).mapM (fun i => build sh (fun idx =>
        (pre ++ flattenList ts ++ post)[base + i * prod sh + rowPos sh idx]?)) = some ts
  | [], sh, _, pre, post, s, base, _ => by simp
  | t :: ts, sh, h, pre, post, s, base, hb => by
    have ht := h t (by simp)
    have h1 := build_flatten t sh ht pre (flattenList ts ++ post)
    have hl := length_flatten t sh ht
    have h2 := build_flattenList ts sh (fun u hu => h u (by simp [hu])) (pre ++ flatten t) post (s + 1) base
      (by simp only [List.length_append, hl]; rw [Nat.add_mul, Nat.one_mul, ← Nat.add_assoc, hb])
    simp only [List.length_cons, List.range'_succ, List.mapM_cons, flattenList_cons]
    have e1 : (pre ++ (flatten t ++ flattenList ts) ++ post) = (pre ++ flatten t ++ (flattenList ts ++ post)) := by
      simp [List.append_assoc]
    have e2 : (pre ++ flatten t ++ flattenList ts ++ post) = (pre ++ flatten t ++ (flattenList ts ++ post)) := by
      simp [List.append_assoc]
    rw [e1]
    rw [e2] at h2
    rw [hb, h1, h2]
    rfl
end

/-- **row-major element list + `reshape(…, order=[k,…,1])` = identity**, for every rectangular
    nested value of any rank and size -/
theorem reshapeF_flatten {α : Type} (v : Tree α) (dims : List Nat) (h : rectShape v = some dims) :
    reshapeF (flatten v) dims (some (orderList dims.length)) = some v := by
  have hl := length_flatten v dims h
  have hb := build_flatten v dims h [] []
  simp only [List.nil_append, List.append_nil, List.length_nil, Nat.zero_add] at hb
  simp [reshapeF, hl, hb]

end SciVerif.C19
