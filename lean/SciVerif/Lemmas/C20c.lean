import SciVerif.Lemmas.C20b

namespace SciVerif.C20

theorem filterMap_congr' {α β : Type} {f g : α → Option β} {l : List α}
    (h : ∀ a ∈ l, f a = g a) : l.filterMap f = l.filterMap g := by
  induction l with
  | nil => rfl
  | cons a t ih =>
    simp only [List.filterMap_cons, h a (by simp)]
    rw [ih (fun b hb => h b (by simp [hb]))]

/-- Well-formed collector: at least one column, all columns equally long. -/
def RC.WF {α : Type} (r : RC α) : Prop := r.cols ≠ [] ∧ ∀ c ∈ r.cols, c.length = r.size

theorem zip_old {α : Type} (cols : List (List α)) (row : List α) (n i : Nat)
    (hn : ∀ c ∈ cols, c.length = n) (hl : cols.length ≤ row.length) (hi : i < n) :
    (List.zipWith (fun c v => c ++ [v]) cols row).filterMap (fun c => c[i]?) =
      cols.filterMap (fun c => c[i]?) := by
  induction cols generalizing row with
  | nil => simp
  | cons c cs ih =>
    cases row with
    | nil => simp at hl
    | cons v vs =>
      have hc : c.length = n := hn c (by simp)
      have hi' : i < c.length := by omega
      have := ih vs (fun c' h' => hn c' (by simp [h'])) (by simpa using hl)
      simp [List.zipWith_cons_cons, List.getElem?_append_left hi',
        List.getElem?_eq_getElem hi', this]

theorem zip_new {α : Type} (cols : List (List α)) (row : List α) (n : Nat)
    (hn : ∀ c ∈ cols, c.length = n) (hl : cols.length ≤ row.length) :
    (List.zipWith (fun c v => c ++ [v]) cols row).filterMap (fun c => c[n]?) =
      row.take cols.length := by
  induction cols generalizing row with
  | nil => simp
  | cons c cs ih =>
    cases row with
    | nil => simp at hl
    | cons v vs =>
      have hc : c.length = n := hn c (by simp)
      have := ih vs (fun c' h' => hn c' (by simp [h'])) (by simpa using hl)
      subst hc
      simp [List.zipWith_cons_cons, this]

theorem appendRow_rows {α : Type} (r : RC α) (row : List α) (h : r.WF)
    (hl : r.cols.length ≤ row.length) :
    ∃ r', r.appendRow row = some r' ∧ r'.WF ∧ r'.names = r.names ∧
      r'.rows = r.rows ++ [row.take r.cols.length] := by
  obtain ⟨hne, hlen⟩ := h
  have hnot : ¬ row.length < r.cols.length := by omega
  obtain ⟨names, cols⟩ := r
  cases cols with
  | nil => exact absurd rfl hne
  | cons c cs =>
    cases row with
    | nil => simp at hl
    | cons v vs =>
      refine ⟨⟨names, List.zipWith (fun c v => c ++ [v]) (c :: cs) (v :: vs)⟩,
        by simp only [RC.appendRow, hnot, if_false], ?_⟩
      have hsz : RC.size ⟨names, c :: cs⟩ = c.length := rfl
      have hsz' : RC.size ⟨names, List.zipWith (fun c v => c ++ [v]) (c :: cs) (v :: vs)⟩
          = c.length + 1 := by simp [RC.size]
      refine ⟨⟨by simp, ?_⟩, rfl, ?_⟩
      · intro c' hc'
        rw [hsz']
        obtain ⟨k, hk, e⟩ := List.mem_iff_getElem.mp hc'
        rw [← e, List.getElem_zipWith]
        simp only [List.length_append, List.length_singleton, Nat.add_right_cancel_iff]
        rw [← hsz]; exact hlen _ (List.getElem_mem _)
      · simp only [RC.rows, hsz', hsz, List.range_succ, List.map_append, List.map_cons, List.map_nil]
        congr 1
        · apply List.map_congr_left
          intro i hi
          exact zip_old (c :: cs) (v :: vs) c.length i (fun c' h' => hsz ▸ hlen c' h') hl
            (List.mem_range.mp hi)
        · congr 1
          exact zip_new (c :: cs) (v :: vs) c.length (fun c' h' => hsz ▸ hlen c' h') hl

theorem sortWith_rows {α : Type} (r : RC α) (ids : List Nat) (h : r.WF)
    (hid : ∀ i ∈ ids, i < r.size) :
    (r.sortWith ids).WF ∧ (r.sortWith ids).rows = takeIdx r.rows ids := by
  obtain ⟨hne, hlen⟩ := h
  obtain ⟨names, cols⟩ := r
  cases cols with
  | nil => exact absurd rfl hne
  | cons c cs =>
    have hsz : RC.size ⟨names, c :: cs⟩ = c.length := rfl
    rw [hsz] at hid hlen
    have hsz' : RC.size (RC.sortWith ⟨names, c :: cs⟩ ids) = ids.length := by
      simp [RC.sortWith, RC.size, takeIdx_length c ids hid]
    refine ⟨⟨by simp [RC.sortWith], ?_⟩, ?_⟩
    · intro c' hc'
      rw [hsz']
      simp only [RC.sortWith, List.mem_map] at hc'
      obtain ⟨c0, hc0, rfl⟩ := hc'
      exact takeIdx_length c0 ids (fun i hi => by rw [hlen c0 hc0]; exact hid i hi)
    · have hrl : (RC.rows ⟨names, c :: cs⟩).length = c.length := by simp [RC.rows, hsz]
      apply List.ext_getElem?
      intro j
      rw [takeIdx_getElem? _ _ (fun i hi => by rw [hrl]; exact hid i hi)]
      simp only [RC.rows, hsz', hsz]
      by_cases hj : j < ids.length
      · have hij : ids[j] < c.length := hid _ (List.getElem_mem hj)
        simp only [List.getElem?_map, List.getElem?_range hj, List.getElem?_eq_getElem hj,
          Option.map_some, Option.bind_some, List.getElem?_range hij]
        congr 1
        simp only [RC.sortWith, List.filterMap_map]
        apply filterMap_congr'
        intro c0 hc0
        simp only [Function.comp]
        rw [takeIdx_getElem? c0 ids (fun i hi => by rw [hlen c0 hc0]; exact hid i hi)]
        simp [List.getElem?_eq_getElem hj]
      · have hj' : ids.length ≤ j := by omega
        rw [List.getElem?_eq_none (by simpa using hj'), List.getElem?_eq_none hj']; rfl

end SciVerif.C20
