import SciVerif.Lemmas.C13o
import SciVerif.Props.C14
/-!
Whole programs at text level: the lexer round trip lifted from one line to every list of described lines,
and composed with the refinement `parse = specification` of `Props/C14.lean`.
-/
namespace SciVerif.C13

/-- the abstract line `(indent, name, payload)` a described line denotes -/
def LineD.aline (k : Nat) : LineD → ALine Raw
  | .group nm _ => { indent := k, name := nm, p := .group }
  | .modify nm _ _ v => { indent := k, name := nm, p := .mod (v.unit.map Prod.snd) (.text (decode v.lit.text)) }
  | .define nm _ ty dims _ _ v =>
      { indent := k, name := nm,
        p := .typed ty.ty ty.info (dimsValue dims) (v.unit.map Prod.snd) (some (.text (decode v.lit.text))) }
  | .declare nm _ ty dims unit _ =>
      { indent := k, name := nm, p := .typed ty.ty ty.info (dimsValue dims) (unit.map Prod.snd) none }

theorem toALine_lineD (k : Nat) (d : LineD) : toALine { d.node with indent := k } = d.aline k := by
  cases d <;> rfl

theorem lineD_not_table (k : Nat) (d : LineD) : ({ d.node with indent := k } : Node).kind ≠ .table := by
  cases d <;> simp [LineD.node]

/-- lexing a whole program of described lines gives exactly the described nodes -/
theorem mapM_determine_program (prog : List (Nat × LineD)) (h : ∀ p ∈ prog, p.2.Ok ∧ NoEsc p.2.render) :
    (prog.map (fun p => List.replicate p.1 ' ' ++ p.2.render)).mapM determine =
      .ok (prog.map (fun p => ({ p.2.node with indent := p.1 } : Node))) :=
  mapM_ok_map determine _ _ prog (fun p hp => determine_render p.1 p.2 (h p hp).1 (h p hp).2)

/-! ### `add_string` / `_get_queue` on texts without block values -/

theorem getQueue_noTriple : ∀ ls : List Str, (∀ l ∈ ls, hasTriple l = false) → getQueue ls = .ok ls
  | [], _ => by rw [getQueue]
  | l :: t, h => by
    rw [getQueue_plain l t (h l (by simp)), getQueue_noTriple t (fun x hx => h x (List.mem_cons_of_mem _ hx))]
    rfl

theorem isBlank_encode (l : Str) (hb : isBlank l = true) (hnl : ∀ c ∈ l, c ≠ '\n') : isBlank (encode l) = true := by
  have hne : NoEsc l := fun c hc => ⟨by
    intro e
    have := (List.all_eq_true.mp hb) c hc
    rw [e] at this
    exact absurd this (by decide), hnl c hc⟩
  rw [encode_noEsc l hne]
  exact hb

theorem mem_takeWhile_p {α : Type} (p : α → Bool) : ∀ (l : List α) (x : α), x ∈ l.takeWhile p → p x = true
  | [], _, h => by simp at h
  | a :: t, x, h => by
    by_cases ha : p a = true
    · simp only [List.takeWhile_cons, ha, if_true, List.mem_cons] at h
      rcases h with rfl | h
      · exact ha
      · exact mem_takeWhile_p p t x h
    · simp [ha] at h

/-- `add_string` strips blank lines at both ends, nothing else -/
theorem strip_decomp (ls : List Str) :
    ∃ pre post, ls = pre ++ stripBlankLines ls ++ post ∧ (∀ l ∈ pre, isBlank l = true) ∧ (∀ l ∈ post, isBlank l = true) := by
  refine ⟨ls.takeWhile isBlank, ((ls.dropWhile isBlank).reverse.takeWhile isBlank).reverse, ?_, ?_, ?_⟩
  · have h1 := List.takeWhile_append_dropWhile (p := isBlank) (l := ls)
    have h2 := List.takeWhile_append_dropWhile (p := isBlank) (l := (ls.dropWhile isBlank).reverse)
    have h3 : ls.dropWhile isBlank = ((ls.dropWhile isBlank).reverse.dropWhile isBlank).reverse ++
        ((ls.dropWhile isBlank).reverse.takeWhile isBlank).reverse := by
      have := congrArg List.reverse h2
      simp only [List.reverse_append, List.reverse_reverse] at this
      exact this.symm
    unfold stripBlankLines
    rw [List.append_assoc, ← h3, h1]
  · intro l hl; exact mem_takeWhile_p _ _ l hl
  · intro l hl; exact mem_takeWhile_p _ _ l (List.mem_reverse.mp hl)

end SciVerif.C13
