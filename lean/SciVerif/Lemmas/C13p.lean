import SciVerif.Lemmas.C13o
import SciVerif.Props.C14
/-!
Whole programs at text level: the lexer round trip lifted from one line to every list of described lines,
and composed with the refinement `parse = specification` of `Props/C14.lean`.
-/
namespace SciVerif.C13

/-- the abstract line `(indent, name, payload)` a described line denotes -/
def LineD.aline (k : Nat) : LineD → ALine Raw
  | .group nm _ => { indent := k, name := nm, p := .group }
  | .modify nm _ _ v => { indent := k, name := nm, p := .mod (v.unit.map Prod.snd) (.text (decode v.lit.text)) }
  | .define nm _ ty dims _ _ v =>
      { indent := k, name := nm,
        p := .typed ty.ty ty.info (dimsValue dims) (v.unit.map Prod.snd) (some (.text (decode v.lit.text))) }
  | .declare nm _ ty dims unit _ =>
      { indent := k, name := nm, p := .typed ty.ty ty.info (dimsValue dims) (unit.map Prod.snd) none }

theorem toALine_lineD (k : Nat) (d : LineD) : toALine { d.node with indent := k } = d.aline k := by
  cases d <;> rfl

theorem lineD_not_table (k : Nat) (d : LineD) : ({ d.node with indent := k } : Node).kind ≠ .table := by
  cases d <;> simp [LineD.node]

/-- lexing a whole program of described lines gives exactly the described nodes -/
theorem mapM_determine_program (prog : List (Nat × LineD)) (h : ∀ p ∈ prog, p.2.Ok ∧ NoEsc p.2.render) :
    (prog.map (fun p => List.replicate p.1 ' ' ++ p.2.render)).mapM determine =
      .ok (prog.map (fun p => ({ p.2.node with indent := p.1 } : Node))) :=
  mapM_ok_map determine _ _ prog (fun p hp => determine_render p.1 p.2 (h p hp).1 (h p hp).2)

end SciVerif.C13
