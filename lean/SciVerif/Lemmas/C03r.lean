import SciVerif.Lemmas.C03q

/-! C03 helper lemmas, part r: TEXT-level rejection of a missing operand (an operator sign at the
    start, two operator signs with only blanks between them, an operator sign at the end). -/
namespace SciVerif.C03

def isOpTok (t : Tok) : Prop := t = .mul ∨ t = .div

/-! ## the binary pass on a token list with a missing operand -/

theorem binPass_mul_bad (left right : List Tok) (h : ∀ b r, right ≠ .val (some b) :: r) :
    binPass left (.mul :: right) = .error .operand := by
  unfold binPass
  split
  · rename_i b r; exact absurd rfl (h _ _)
  · rfl

theorem binPass_div_bad (left right : List Tok) (h : ∀ b r, right ≠ .val (some b) :: r) :
    binPass left (.div :: right) = .error .operand := by
  unfold binPass
  split
  · rename_i b r; exact absurd rfl (h _ _)
  · rfl

theorem binPass_mul_bad_left (left right : List Tok) (h : ∀ a l, left ≠ .val (some a) :: l) :
    binPass left (.mul :: right) = .error .operand := by
  unfold binPass
  split
  · exact absurd rfl (h _ _)
  · rfl

theorem binPass_div_bad_left (left right : List Tok) (h : ∀ a l, left ≠ .val (some a) :: l) :
    binPass left (.div :: right) = .error .operand := by
  unfold binPass
  split
  · exact absurd rfl (h _ _)
  · rfl

/-- right context of an operator token that lacks its right operand -/
def noOperand (B : List Tok) : Prop := B = [] ∨ ∃ t B', B = t :: B' ∧ isOpTok t

theorem binPass_defect (op : Tok) (hop : isOpTok op) (B : List Tok) (hB : noOperand B) :
    ∀ (n : Nat) (A left : List Tok), A.length ≤ n → ∃ e, binPass left (A ++ op :: B) = .error e := by
  have hBv : ∀ b r, B ≠ .val (some b) :: r := by
    intro b r h
    rcases hB with rfl | ⟨t, B', rfl, ht⟩
    · cases h
    · rcases ht with rfl | rfl <;> cases h
  have hopv : ∀ b r, op :: B ≠ .val (some b) :: r := by
    intro b r h; rcases hop with rfl | rfl <;> cases h
  have h0 : ∀ left, ∃ e, binPass left (op :: B) = .error e := by
    intro left
    rcases hop with rfl | rfl
    · exact ⟨_, binPass_mul_bad left B hBv⟩
    · exact ⟨_, binPass_div_bad left B hBv⟩
  intro n
  induction n with
  | zero =>
    intro A left hA
    have : A = [] := by cases A with | nil => rfl | cons _ _ => simp at hA
    subst this; exact h0 left
  | succ n ih =>
    intro A left hA
    cases A with
    | nil => exact h0 left
    | cons t A' =>
      have hA' : A'.length ≤ n := by simp at hA; omega
      rw [List.cons_append]
      cases t with
      | val a =>
        obtain ⟨e, he⟩ := ih A' (.val a :: left) hA'
        exact ⟨e, by rw [binPass] <;> first | exact he | (intro h; cases h)⟩
      | par a =>
        obtain ⟨e, he⟩ := ih A' (.par a :: left) hA'
        exact ⟨e, by rw [binPass] <;> first | exact he | (intro h; cases h)⟩
      | mul =>
        cases A' with
        | nil => exact ⟨_, binPass_mul_bad left _ hopv⟩
        | cons t2 A'' =>
          by_cases hl : ∃ a l, left = .val (some a) :: l
          · obtain ⟨a, l, rfl⟩ := hl
            by_cases hr : ∃ b, t2 = .val (some b)
            · obtain ⟨b, rfl⟩ := hr
              obtain ⟨e, he⟩ := ih A'' (.val (some (a.mul b)) :: l) (by simp at hA'; omega)
              exact ⟨e, by rw [List.cons_append, binPass]; exact he⟩
            · refine ⟨_, binPass_mul_bad _ _ ?_⟩
              intro b r h
              rw [List.cons_append] at h
              exact hr ⟨b, (List.cons.inj h).1⟩
          · refine ⟨_, binPass_mul_bad_left _ _ ?_⟩
            intro a l h; exact hl ⟨a, l, h⟩
      | div =>
        cases A' with
        | nil => exact ⟨_, binPass_div_bad left _ hopv⟩
        | cons t2 A'' =>
          by_cases hl : ∃ a l, left = .val (some a) :: l
          · obtain ⟨a, l, rfl⟩ := hl
            by_cases hr : ∃ b, t2 = .val (some b)
            · obtain ⟨b, rfl⟩ := hr
              cases hd : a.div b with
              | none => exact ⟨.zeroDiv, by rw [List.cons_append, binPass]; simp [hd]⟩
              | some c =>
                obtain ⟨e, he⟩ := ih A'' (.val (some c) :: l) (by simp at hA'; omega)
                exact ⟨e, by rw [List.cons_append, binPass]; simp [hd, he]⟩
            · refine ⟨_, binPass_div_bad _ _ ?_⟩
              intro b r h
              rw [List.cons_append] at h
              exact hr ⟨b, (List.cons.inj h).1⟩
          · refine ⟨_, binPass_div_bad_left _ _ ?_⟩
            intro a l h; exact hl ⟨a, l, h⟩

/-! ## the tokenising loop only appends tokens -/

theorem flushLeft_prefix (T : Tables) (left : Str) (toks res : List Tok)
    (h : flushLeft T left toks = .ok res) : ∃ more, res = toks ++ more := by
  unfold flushLeft at h
  simp only at h
  split at h
  · cases h; exact ⟨[], by simp⟩
  · split at h
    · cases h; exact ⟨_, rfl⟩
    · cases h

theorem tokenize_prefix (T : Tables) : ∀ (f : Nat) (right left : Str) (toks res : List Tok),
    tokenize T f right left toks = .ok res → ∃ more, res = toks ++ more := by
  intro f
  induction f with
  | zero => intro right left toks res h; rw [tokenize] at h; cases h
  | succ f ih =>
    intro right left toks res h
    have step : ∀ (toks1 : List Tok) (t : Tok) (rest : Str), flushLeft T left toks = .ok toks1 →
        tokenize T f rest [] (toks1 ++ [t]) = .ok res → ∃ more, res = toks ++ more := by
      intro toks1 t rest hfl hr
      obtain ⟨m0, rfl⟩ := flushLeft_prefix T left toks toks1 hfl
      obtain ⟨m1, rfl⟩ := ih rest [] _ res hr
      exact ⟨m0 ++ [t] ++ m1, by simp⟩
    cases right with
    | nil => rw [tokenize] at h; exact flushLeft_prefix T left toks res h
    | cons c rest =>
      rw [tokenize] at h
      split at h
      · split at h
        · cases h
        · rename_i toks1 hfl
          split at h
          · cases h
          · split at h
            · split at h
              · cases h
              · exact step toks1 _ _ hfl h
            · cases h
      · split at h
        · split at h
          · cases h
          · rename_i toks1 hfl; exact step toks1 _ _ hfl h
        · split at h
          · split at h
            · cases h
            · rename_i toks1 hfl; exact step toks1 _ _ hfl h
          · exact ih rest (c :: left) toks res h

/-- shifting plain characters (with whatever fuel is left: fuel 0 is the fuel error on both sides) -/
theorem tokenize_shift (T : Tables) (tail : Str) (toks : List Tok) :
    ∀ (w : Str), tokPlain w → ∀ (f : Nat) (left : Str),
    ∃ f', tokenize T f (w ++ tail) left toks = tokenize T f' tail (w.reverse ++ left) toks := by
  intro w
  induction w with
  | nil => intro _ f left; exact ⟨f, by simp⟩
  | cons c r ih =>
    intro hw f left
    obtain ⟨h1, h2, h3⟩ := hw c (by simp)
    have hrest : tokPlain r := fun x hx => hw x (List.mem_cons_of_mem _ hx)
    cases f with
    | zero => exact ⟨0, by rw [tokenize_zero, tokenize_zero]⟩
    | succ f =>
      obtain ⟨f', h⟩ := ih hrest f (c :: left)
      refine ⟨f', ?_⟩
      rw [List.cons_append, tokenize]
      simp only [h1, h2, h3, if_false]
      rw [h]; simp

/-- generic walk over a parenthesis-free text for a property every error has -/
theorem tokenize_walkP (T : Tables) (P : Except Err (List Tok) → Prop) (hP : ∀ e, P (.error e)) (tail : Str)
    (htail : ∀ (f : Nat) (left : Str) (toks : List Tok), P (tokenize T f tail left toks)) :
    ∀ (pre : Str), '(' ∉ pre → ∀ (f : Nat) (left : Str) (toks : List Tok),
    P (tokenize T f (pre ++ tail) left toks) := by
  intro pre
  induction pre with
  | nil => intro _ f left toks; simpa using htail f left toks
  | cons c pre' ih =>
    intro hnp f left toks
    have hc : c ≠ '(' := fun h => hnp (by simp [h])
    have hnp' : '(' ∉ pre' := fun h => hnp (List.mem_cons_of_mem _ h)
    cases f with
    | zero => rw [tokenize_zero]; exact hP _
    | succ f' =>
      rw [List.cons_append, tokenize]
      by_cases hm : c = '*'
      · subst hm
        cases hfl : flushLeft T left toks with
        | error e => simpa using hP e
        | ok toks1 => simpa using ih hnp' f' [] (toks1 ++ [.mul])
      · by_cases hd : c = '/'
        · subst hd
          cases hfl : flushLeft T left toks with
          | error e => simpa using hP e
          | ok toks1 => simpa using ih hnp' f' [] (toks1 ++ [.div])
        · simpa [hc, hm, hd] using ih hnp' f' (c :: left) toks

/-! ## token lists with a missing operand -/

def Defective (res : List Tok) : Prop :=
  (∃ op B, res = op :: B ∧ isOpTok op) ∨
  (∃ A op B, res = A ++ op :: B ∧ isOpTok op ∧ noOperand B)

/-- the loop fails, or its token list lacks an operand -/
def Rej : Except Err (List Tok) → Prop
  | .error _ => True
  | .ok res => Defective res

theorem argsPass_op (op : Tok) (hop : isOpTok op) (B : List Tok) :
    argsPass (op :: B) = op :: argsPass B := by
  rcases hop with rfl | rfl <;> simp [argsPass]

theorem binPass_defective (res : List Tok) (h : Defective res) :
    ∃ e, binPass [] (argsPass res) = .error e := by
  rcases h with ⟨op, B, rfl, hop⟩ | ⟨A, op, B, rfl, hop, hB⟩
  · rw [argsPass_op op hop]
    rcases hop with rfl | rfl
    · exact ⟨_, binPass_mul_bad_left [] _ (by intro a l h; cases h)⟩
    · exact ⟨_, binPass_div_bad_left [] _ (by intro a l h; cases h)⟩
  · rw [argsPass_append, argsPass_op op hop]
    have hB' : noOperand (argsPass B) := by
      rcases hB with rfl | ⟨t, B', rfl, ht⟩
      · exact Or.inl rfl
      · exact Or.inr ⟨t, argsPass B', argsPass_op t ht B', ht⟩
    exact binPass_defect op hop _ hB' _ (argsPass A) [] (Nat.le_refl _)

theorem unitSolver_of_rej (T : Tables) (s : Str) (h : ∀ f, Rej (tokenize T f s [] [])) :
    ∃ err, unitSolver T s = .error err := by
  have h1 := h (2 * s.length + 1)
  cases ht : tokenize T (2 * s.length + 1) s [] [] with
  | error e => exact ⟨e, unitSolver_of_tokenize_error T s e ht⟩
  | ok res =>
    rw [ht] at h1
    obtain ⟨e, he⟩ := binPass_defective res h1
    exact ⟨e, by simp [unitSolver, solve, ht, he]⟩

/-- the operator character and its token -/
def opTok (c : Char) : Tok := if c = '*' then .mul else .div

def isOpChar (c : Char) : Prop := c = '*' ∨ c = '/'

theorem opTok_isOp (c : Char) : isOpTok (opTok c) := by
  unfold opTok; split
  · exact Or.inl rfl
  · exact Or.inr rfl

/-- one iteration at an operator character -/
theorem tokenize_at_op (T : Tables) (P : Except Err (List Tok) → Prop) (hP : ∀ e, P (.error e))
    (c : Char) (hc : isOpChar c) (rest : Str)
    (hrest : ∀ (f : Nat) (toks1 : List Tok), P (tokenize T f rest [] (toks1 ++ [opTok c]))) :
    ∀ (f : Nat) (left : Str) (toks : List Tok), P (tokenize T f (c :: rest) left toks) := by
  intro f left toks
  cases f with
  | zero => rw [tokenize_zero]; exact hP _
  | succ f =>
    rw [tokenize]
    cases hfl : flushLeft T left toks with
    | error e => rcases hc with rfl | rfl <;> simpa using hP e
    | ok toks1 =>
      rcases hc with rfl | rfl
      · simpa [opTok] using hrest f toks1
      · simpa [opTok] using hrest f toks1

/-- behind an operator token: blanks, then another operator sign or the end of the text -/
theorem tokenize_no_right_operand (T : Tables) (t : Tok) (ht : isOpTok t) (rest : Str)
    (hshape : (∃ mid c post, rest = mid ++ c :: post ∧ blank mid ∧ isOpChar c) ∨ blank rest) :
    ∀ (f : Nat) (toks0 : List Tok), Rej (tokenize T f rest [] (toks0 ++ [t])) := by
  intro f toks0
  rcases hshape with ⟨mid, c, post, rfl, hmid, hc⟩ | hr
  · obtain ⟨f', hf'⟩ := tokenize_shift T (c :: post) (toks0 ++ [t]) mid (tokPlain_of_blank mid hmid) f []
    rw [hf']
    cases f' with
    | zero => rw [tokenize_zero]; trivial
    | succ f'' =>
      have hfl : flushLeft T mid.reverse (toks0 ++ [t]) = .ok (toks0 ++ [t]) :=
        flushLeft_blank T mid (toks0 ++ [t]) hmid
      have key : ∀ t2, isOpTok t2 → Rej (tokenize T f'' post [] ((toks0 ++ [t]) ++ [t2])) := by
        intro t2 ht2
        cases hres : tokenize T f'' post [] ((toks0 ++ [t]) ++ [t2]) with
        | error e => trivial
        | ok res =>
          obtain ⟨more, rfl⟩ := tokenize_prefix T f'' post [] _ res hres
          exact Or.inr ⟨toks0, t, t2 :: more, by simp, ht, Or.inr ⟨t2, more, rfl, ht2⟩⟩
      rw [tokenize]
      rcases hc with rfl | rfl
      · simpa [hfl] using key .mul (Or.inl rfl)
      · simpa [hfl] using key .div (Or.inr rfl)
  · obtain ⟨f', hf'⟩ := tokenize_shift T [] (toks0 ++ [t]) rest (tokPlain_of_blank rest hr) f []
    rw [List.append_nil] at hf'
    rw [hf']
    cases f' with
    | zero => rw [tokenize_zero]; trivial
    | succ f'' =>
      have hfl : flushLeft T rest.reverse (toks0 ++ [t]) = .ok (toks0 ++ [t]) :=
        flushLeft_blank T rest (toks0 ++ [t]) hr
      rw [List.append_nil, tokenize, hfl]
      exact Or.inr ⟨toks0, t, [], rfl, ht, Or.inl rfl⟩

/-- an operator sign with nothing but blanks, another operator sign or the end behind it, after
    any parenthesis-free text -/
theorem unitSolver_missing_right (T : Tables) (pre : Str) (c : Char) (rest : Str) (hpre : '(' ∉ pre)
    (hc : isOpChar c)
    (hshape : (∃ mid c2 post, rest = mid ++ c2 :: post ∧ blank mid ∧ isOpChar c2) ∨ blank rest) :
    ∃ err, unitSolver T (pre ++ c :: rest) = .error err := by
  refine unitSolver_of_rej T _ (fun f => ?_)
  refine tokenize_walkP T Rej (fun _ => trivial) (c :: rest) ?_ pre hpre f [] []
  exact tokenize_at_op T Rej (fun _ => trivial) c hc rest
    (fun f toks1 => tokenize_no_right_operand T (opTok c) (opTok_isOp c) rest hshape f toks1)

/-- an operator sign at the start of the text (after blanks), whatever follows -/
theorem unitSolver_missing_left (T : Tables) (l : Str) (c : Char) (rest : Str) (hl : blank l)
    (hc : isOpChar c) : ∃ err, unitSolver T (l ++ c :: rest) = .error err := by
  refine unitSolver_of_rej T _ (fun f => ?_)
  obtain ⟨f', hf'⟩ := tokenize_shift T (c :: rest) [] l (tokPlain_of_blank l hl) f []
  rw [List.append_nil] at hf'
  rw [hf']
  cases f' with
  | zero => rw [tokenize_zero]; trivial
  | succ f'' =>
    have hfl : flushLeft T l.reverse [] = .ok [] := flushLeft_blank T l [] hl
    have key : ∀ t2, isOpTok t2 → Rej (tokenize T f'' rest [] ([] ++ [t2])) := by
      intro t2 ht2
      cases hres : tokenize T f'' rest [] ([] ++ [t2]) with
      | error e => trivial
      | ok res =>
        obtain ⟨more, rfl⟩ := tokenize_prefix T f'' rest [] _ res hres
        exact Or.inl ⟨t2, more, by simp, ht2⟩
    rw [tokenize]
    rcases hc with rfl | rfl
    · simpa [hfl] using key .mul (Or.inl rfl)
    · simpa [hfl] using key .div (Or.inr rfl)

end SciVerif.C03
