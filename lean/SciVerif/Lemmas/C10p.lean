import SciVerif.Lemmas.C10n

/-! C10: parentheses are end markers for the species pattern — `matchP`, pass 1 and pass 2 treat
    a `(` or `)` exactly like the end of the text ("transparency"), so the results on
    parenthesis-free chains carry over to the inside of a parenthesised group; passes 3 and 4 on a
    single group with an optional count. -/
set_option linter.unusedSimpArgs false
set_option linter.unusedVariables false
namespace SciVerif.C10

/-- a parenthesis -/
def Mark (e : Char) : Prop := e = '(' ∨ e = ')'

/-- a parenthesis or a blank: the characters at which a match of the species pattern ends as at
    the end of the text -/
def EndC (e : Char) : Prop := e = '(' ∨ e = ')' ∨ e = ' '

theorem Mark.endc {e : Char} (h : Mark e) : EndC e := by
  rcases h with rfl | rfl
  · exact Or.inl rfl
  · exact Or.inr (Or.inl rfl)

theorem tw_mark {p : Char → Bool} (l s : Str) (e : Char) (hp : p e = false) :
    (l ++ e :: s).takeWhile p = l.takeWhile p ∧ (l ++ e :: s).dropWhile p = l.dropWhile p ++ e :: s := by
  induction l with
  | nil => simp [hp]
  | cons a t ih =>
    by_cases ha : p a = true
    · simp [ha, ih.1, ih.2]
    · simp [ha]

theorem span_mark {p : Char → Bool} (l s : Str) (e : Char) (hp : p e = false) (a b : Str)
    (h : l.span p = (a, b)) : (l ++ e :: s).span p = (a, b ++ e :: s) := by
  rw [List.span_eq_takeWhile_dropWhile] at h ⊢
  simp only [Prod.mk.injEq] at h
  rw [(tw_mark l s e hp).1, (tw_mark l s e hp).2, h.1, h.2]

theorem matchBrace_mark (r s : Str) (e : Char) (he : EndC e) (br r1 : Str)
    (h : matchBrace r = (br, r1)) : matchBrace (r ++ e :: s) = (br, r1 ++ e :: s) := by
  have hP : (isDig e || e == '+' || e == '-') = false := by rcases he with rfl | rfl | rfl <;> decide
  have he1 : e ≠ '{' := by rcases he with rfl | rfl | rfl <;> decide
  have he2 : e ≠ '}' := by rcases he with rfl | rfl | rfl <;> decide
  cases r with
  | nil =>
    simp only [matchBrace] at h
    simp only [Prod.mk.injEq] at h
    obtain ⟨rfl, rfl⟩ := h
    simp only [List.nil_append, matchBrace]
    split
    · rename_i heq; simp only [List.cons.injEq] at heq; exact absurd heq.1 he1
    · rfl
  | cons c r' =>
    by_cases hc : c = '{'
    · subst hc
      simp only [matchBrace, List.span_eq_takeWhile_dropWhile, List.cons_append] at h ⊢
      rw [(tw_mark r' s e hP).1, (tw_mark r' s e hP).2]
      cases hd : List.dropWhile (fun c => isDig c || c == '+' || c == '-') r' with
      | nil =>
        rw [hd] at h
        simp only [Prod.mk.injEq] at h
        obtain ⟨rfl, rfl⟩ := h
        simp only [List.nil_append]
        split
        · rename_i heq; simp only [List.cons.injEq] at heq; exact absurd heq.1 he2
        · rfl
      | cons d t =>
        rw [hd] at h
        by_cases hdc : d = '}'
        · subst hdc
          simp only [List.cons_append] at h ⊢
          split at h
          · simp only [Prod.mk.injEq] at h
            obtain ⟨rfl, rfl⟩ := h
            simp [*]
          · simp only [Prod.mk.injEq] at h
            obtain ⟨rfl, rfl⟩ := h
            simp [*]
        · split at h
          · rename_i heq; simp only [List.cons.injEq] at heq; exact absurd heq.1 hdc
          · simp only [Prod.mk.injEq] at h
            obtain ⟨rfl, rfl⟩ := h
            simp only [List.cons_append]
            split
            · rename_i heq; simp only [List.cons.injEq] at heq; exact absurd heq.1 hdc
            · rfl
    · have hmb : ∀ w : Str, matchBrace (c :: w) = ([], c :: w) := by
        intro w; simp only [matchBrace]
        split
        · rename_i heq; simp only [List.cons.injEq] at heq; exact absurd heq.1 hc
        · rfl
      rw [hmb] at h
      simp only [Prod.mk.injEq] at h
      obtain ⟨rfl, rfl⟩ := h
      rw [List.cons_append, hmb]


abbrev MP := Nat × Str × Str × Str × Str
def mpExt (q : MP) (x : Str) : MP := (q.1, q.2.1, q.2.2.1, q.2.2.2.1, q.2.2.2.2 ++ x)

theorem mark_facts (e : Char) (he : Mark e) :
    Inert e ∧ isLow e = false ∧ isDig e = false ∧ isWs e = false ∧ e ≠ ']' := by
  rcases he with rfl | rfl <;> decide

theorem endc_facts (e : Char) (he : EndC e) :
    Inert e ∧ isLow e = false ∧ isDig e = false ∧ e ≠ ']' := by
  rcases he with rfl | rfl | rfl <;> decide

/-- the part of `matchP` after the symbol -/
def tailP (k : Nat) (sym r : Str) : Option MP :=
  some (k, sym, (matchBrace r).1, ((matchBrace r).2.span isDig).1, ((matchBrace r).2.span isDig).2)

theorem tailP_mark (k : Nat) (sym r s : Str) (e : Char) (he : EndC e) :
    tailP k sym (r ++ e :: s) = (tailP k sym r).map (mpExt · (e :: s)) := by
  obtain ⟨_, _, hd, _⟩ := endc_facts e he
  cases hmb : matchBrace r with
  | mk br r1 =>
    cases hsp : r1.span isDig with
    | mk dg r2 =>
      simp only [tailP, Option.map_some, mpExt, matchBrace_mark r s e he br r1 hmb, hmb,
        span_mark r1 s e hd dg r2 hsp, hsp]

theorem matchP_eq_tail (c : Char) (r : Str) (hu : isUp c = true) :
    matchP (c :: r) =
        match (c :: r).dropWhile isUp with
        | l :: r' =>
          if isLow l then tailP ((c :: r).takeWhile isUp).length ((c :: r).takeWhile isUp ++ [l]) r'
          else tailP ((c :: r).takeWhile isUp).length ((c :: r).takeWhile isUp) (l :: r')
        | [] => tailP ((c :: r).takeWhile isUp).length ((c :: r).takeWhile isUp) [] := by
  simp only [matchP, tailP, List.span_eq_takeWhile_dropWhile, hu, if_true]
  generalize List.dropWhile isUp (c :: r) = d
  generalize List.takeWhile isUp (c :: r) = tk
  cases d with
  | nil => rfl
  | cons l r' => simp only []

theorem matchP_lb (w : Str) :
    matchP ('[' :: w) =
      match w with
      | x :: ']' :: r => if x == 'p' || x == 'n' || x == 'e' then tailP 0 ['[', x, ']'] r else none
      | _ => none := by
  have hb0 : isUp '[' = false := by decide
  cases w with
  | nil => simp [matchP, hb0]
  | cons x w1 =>
    cases w1 with
    | nil => simp [matchP, hb0]
    | cons y w2 =>
      by_cases hy : y = ']'
      · subst hy; simp only [matchP, hb0, Bool.false_eq_true, if_false, tailP]
      · simp [matchP, hy, hb0]


/-- a parenthesis (or a blank) ends a match of the species pattern exactly as the end of the text does -/
theorem matchP_mark (w s : Str) (e : Char) (he : EndC e) :
    matchP (w ++ e :: s) = (matchP w).map (mpExt · (e :: s)) := by
  obtain ⟨hin, hlow, hd, hrb⟩ := endc_facts e he
  cases w with
  | nil =>
    rw [List.nil_append, matchP_none e s hin]
    rfl
  | cons c r =>
    by_cases hu : isUp c = true
    · rw [List.cons_append, matchP_eq_tail c _ hu, matchP_eq_tail c r hu, ← List.cons_append,
        (tw_mark (c :: r) s e hin.1).1, (tw_mark (c :: r) s e hin.1).2]
      generalize List.takeWhile isUp (c :: r) = tk
      cases List.dropWhile isUp (c :: r) with
      | nil =>
        simp only [List.nil_append, hlow, Bool.false_eq_true, if_false]
        exact tailP_mark _ _ [] s e he
      | cons l r' =>
        simp only [List.cons_append]
        split
        · exact tailP_mark _ _ r' s e he
        · exact tailP_mark _ _ (l :: r') s e he
    · by_cases hb : c = '['
      · subst hb
        rw [List.cons_append, matchP_lb, matchP_lb]
        cases r with
        | nil =>
          simp only [List.nil_append]
          split
          · rename_i heq; simp only [List.cons.injEq] at heq
            have : (e == 'p' || e == 'n' || e == 'e') = false := by rcases he with rfl | rfl | rfl <;> decide
            rw [← heq.1]; simp [this]
          · rfl
        | cons x r1 =>
          cases r1 with
          | nil =>
            simp only [List.cons_append, List.nil_append]
            split
            · rename_i heq; simp only [List.cons.injEq] at heq; exact absurd heq.2.1 hrb
            · rfl
          | cons y r2 =>
            by_cases hy : y = ']'
            · subst hy
              simp only [List.cons_append]
              split
              · exact tailP_mark _ _ r2 s e he
              · rfl
            · have h1 : ∀ (t : Str) (a b : Option MP), (match x :: y :: t with | x :: ']' :: r => a | _ => b) = b := by
                intro t a b; split
                · rename_i heq; simp only [List.cons.injEq] at heq; exact absurd heq.2.1 hy
                · rfl
              simp only [List.cons_append]
              split
              · rename_i heq; simp only [List.cons.injEq] at heq; exact absurd heq.2.1 hy
              · split
                · rename_i heq; simp only [List.cons.injEq] at heq; exact absurd heq.2.1 hy
                · rfl
      · have hi : Inert c := ⟨by simpa using hu, hb⟩
        simp [matchP_none c _ hi]


theorem matchP_k (w : Str) (q : MP) (h : matchP w = some q) : q.1 ≤ w.length := by
  cases w with
  | nil => simp [matchP] at h
  | cons c r =>
    by_cases hu : isUp c = true
    · rw [matchP_eq_tail c r hu] at h
      have hl : (List.takeWhile isUp (c :: r)).length ≤ (c :: r).length := (List.takeWhile_sublist isUp).length_le
      split at h
      · split at h <;> (simp only [tailP, Option.some.injEq] at h; rw [← h]; exact hl)
      · simp only [tailP, Option.some.injEq] at h; rw [← h]; exact hl
    · by_cases hb : c = '['
      · subst hb
        rw [matchP_lb] at h
        split at h
        · split at h
          · simp only [tailP, Option.some.injEq] at h; rw [← h]; simp
          · cases h
        · cases h
      · rw [matchP_none c r ⟨by simpa using hu, hb⟩] at h; cases h

theorem pass1At_mark (w s : Str) (e : Char) (he : Mark e) :
    pass1At (w ++ e :: s) = (pass1At w).map (· ++ e :: s) := by
  obtain ⟨hin, hlow, hd, hws, hrb⟩ := mark_facts e he
  simp only [pass1At, matchP_mark w s e he.endc]
  cases hm : matchP w with
  | none => rfl
  | some q =>
    obtain ⟨k, sym, br, dg, rest⟩ := q
    have hk := matchP_k w _ hm
    simp only [Option.map_some, mpExt, (tw_mark rest s e hws).2]
    have hst : startsP (rest.dropWhile isWs ++ e :: s) = startsP (rest.dropWhile isWs) := by
      simp [startsP, matchP_mark _ s e he.endc]
    rw [hst]
    by_cases h1 : startsP (rest.dropWhile isWs) = true
    · simp [h1, List.append_assoc]
    · simp only [h1, if_false]
      by_cases h2 : k ≥ 2
      · simp only [h2, if_true, Option.map_some]
        rw [List.take_append_of_le_length (by simp at hk ⊢; omega), List.drop_append_of_le_length (by simp at hk ⊢; omega)]
        simp [List.append_assoc]
      · simp [h2]

theorem pass1Step_mark (w s : Str) (e : Char) (he : Mark e) :
    pass1Step (w ++ e :: s) =
      match pass1Step w with
      | some x => some (x ++ e :: s)
      | none => (pass1Step (e :: s)).map (w ++ ·) := by
  induction w with
  | nil => simp [pass1Step]
  | cons c r ih =>
    have hA := pass1At_mark (c :: r) s e he
    have hstep : ∀ x, pass1Step (c :: x) =
        match pass1At (c :: x) with | some s' => some s' | none => (pass1Step x).map (c :: ·) := fun x => rfl
    rw [List.cons_append] at hA ⊢
    rw [hstep (r ++ e :: s), hstep r, hA]
    cases h1 : pass1At (c :: r) with
    | some x => simp
    | none =>
      simp only [Option.map_none, ih]
      cases h2 : pass1Step r with
      | some y => simp
      | none => cases pass1Step (e :: s) <;> simp

/-- pass 1 inside a group: what precedes is inert text `p`, what follows the closing mark is at
    a fixed point — the fixed point of the whole is the fixed point of the inside -/
theorem pass1_inside (p s : Str) (e : Char) (he : Mark e) (hp : ∀ c ∈ p, Inert c) (hs : N1 (e :: s)) :
    ∀ (fuel : Nat) (w : Str), pass1 fuel (p ++ (w ++ e :: s)) = p ++ (pass1 fuel w ++ e :: s) := by
  intro fuel
  induction fuel with
  | zero => intro w; rfl
  | succ n ih =>
    intro w
    simp only [pass1, pass1Step_inert p _ hp, pass1Step_mark w s e he]
    cases h : pass1Step w with
    | some x => simp only [Option.map_some]; exact ih x
    | none =>
      have : pass1Step (e :: s) = none := hs
      simp [this]


/-! ### pass 2 up to a parenthesis -/

theorem P2_item_mark (it : Item) (s ts : Str) (e : Char) (he : Mark e) (hok : it.OK) (h : P2 (e :: s) ts) :
    P2 (it.text ++ e :: s) (it.expl ++ ts) := by
  obtain ⟨k, sym, br, hm, _, hsb⟩ := matchP_item it [] hok (Or.inl rfl) (by rintro ⟨_, c, r, e, _⟩; cases e)
  obtain ⟨c0, tl, htx, _⟩ := item_tail_inert it hok
  have hm2 := matchP_mark (it.text ++ []) s e he.endc
  rw [hm] at hm2
  simp only [List.append_nil, Option.map_some, mpExt, List.nil_append] at hm2
  intro fuel hfu
  cases fuel with
  | zero => simp at hfu
  | succ n =>
    have hlen : (e :: s).length < n := by
      simp only [List.length_append, htx, List.length_cons] at hfu ⊢; omega
    rw [htx, List.cons_append] at hm2 ⊢
    simp only [pass2, hm2, h n hlen, Item.expl]
    rw [hsb]

theorem P2_chain_mark (s ts : Str) (e : Char) (he : Mark e) (h : P2 (e :: s) ts) (r : Rest) :
    ∀ (it : Item), it.OK → restOK r →
    P2 (chainText it (allPlus r) ++ e :: s) (explChain it r ++ ts) := by
  induction r with
  | nil =>
    intro it hok _
    have := P2_item_mark it s ts e he hok h
    simpa [chainText, allPlus, explChain] using this
  | cons gi t ih =>
    intro it hok hr
    obtain ⟨g, it2⟩ := gi
    have hok2 : it2.OK := hr (g, it2) (by simp)
    have hr2 : restOK t := fun x hx => hr x (by simp [hx])
    have h2 := P2_run symAdd _ _ inert_symAdd (ih it2 hok2 hr2)
    have := P2_item it _ _ hok (follow_symAdd _) (by
      rintro ⟨_, c, r, e, hc⟩
      simp only [symAdd, List.cons_append, List.cons.injEq] at e
      rw [← e.1] at hc; exact absurd hc (by decide)) h2
    simpa [chainText, allPlus, explChain, Gap.text, List.append_assoc] using this

/-! ### passes 3 and 4 on one group -/

theorem pass3_lparen (n : Nat) (r : Str) : pass3 (n + 1) ('(' :: r) = '(' :: pass3 n r := by
  have h1 : isWs '(' = false := by decide
  simp [pass3, notSpec3, List.span_eq_takeWhile_dropWhile, List.takeWhile_cons, List.dropWhile_cons, h1]

theorem pass4_copy (w x : Str) (hw : ∀ c ∈ w, c ≠ ')') :
    ∀ fuel, pass4 (w.length + fuel) (w ++ x) = w ++ pass4 fuel x := by
  induction w with
  | nil => intro fuel; simp
  | cons c t ih =>
    intro fuel
    have hc := hw c (by simp)
    have e : (c :: t).length + fuel = (t.length + fuel) + 1 := by simp only [List.length_cons]; omega
    rw [e]
    simp [pass4, hc, ih (fun x hx => hw x (by simp [hx])) fuel]

theorem pass4_nil (n : Nat) : pass4 n [] = [] := by cases n <;> rfl

theorem pass4_close (dg : Str) (hd : AllDig dg) (n : Nat) :
    pass4 (n + 1) (')' :: dg) = ')' :: (if dg.isEmpty then [] else symMul ++ dg) := by
  have hsp := span_dig_append dg [] hd (by intro c r e; cases e)
  rw [List.append_nil] at hsp
  cases dg with
  | nil => simp [pass4, pass4_nil]
  | cons d t =>
    simp only [pass4, hsp]
    simp [pass4_nil, symMul]


/-- `preprocess` on one parenthesised chain with an optional count: `(OH)2`, `(C2 H5 O)`, … -/
theorem preprocess_group_chain (it : Item) (r : Rest) (dg : Str) (hok : it.OK) (hr : restOK r)
    (hd : AllDig dg) :
    preprocess ('(' :: (chainText it r ++ ')' :: dg)) =
      '(' :: (explChain it r ++ ')' :: (if dg.isEmpty then [] else symMul ++ dg)) := by
  have hmk : Mark ')' := Or.inr rfl
  have hdi : ∀ c ∈ ')' :: dg, Inert c := by
    intro c hc
    rcases List.mem_cons.mp hc with rfl | h
    · decide
    · exact inert_of_isDig c (hd c h)
  have hn1 : N1 (')' :: dg) := by
    have := N1_run (')' :: dg) [] hdi N1_nil
    simpa using this
  have hp2 : P2 (')' :: dg) (')' :: dg) := by
    have := P2_run (')' :: dg) [] [] hdi P2_nil
    simpa using this
  have hlp : ∀ c ∈ ['('], Inert c := by decide
  have h1 : ∀ fuel, unres r ≤ fuel →
      pass1 fuel ('(' :: (chainText it r ++ ')' :: dg)) = '(' :: (chainText it (allPlus r) ++ ')' :: dg) := by
    intro fuel hf
    have := pass1_inside ['('] dg ')' hmk hlp hn1 fuel (chainText it r)
    simp only [List.singleton_append] at this
    rw [this, pass1_chain (unres r) it r fuel hok hr rfl hf]
  have hnp := explChain_noparen r it hok hr
  have hdp : ∀ c ∈ dg, c ≠ '(' ∧ c ≠ ')' := by
    intro c hc
    have := word_plain c (Or.inr (Or.inr (dig_range c (hd c hc))))
    exact ⟨this.1.1, this.1.2.1⟩
  have h2 := P2_inert '(' _ _ (by decide) (P2_chain_mark dg (')' :: dg) ')' hmk hp2 r it hok hr)
  have hu := unres_le r it
  have hl := length_le_chainText r it hok hr
  simp only [preprocess]
  rw [h1 _ (by simp only [List.length_cons, List.length_append]; omega), h2 _ (by omega)]
  rw [pass3_lparen, pass3_noparen _ _ (by
    intro c hc
    rcases List.mem_append.mp hc with h | h
    · exact (hnp c h).1
    · rcases List.mem_cons.mp h with rfl | h
      · decide
      · exact (hdp c h).1)]
  have hw : ∀ c ∈ '(' :: explChain it r, c ≠ ')' := by
    intro c hc
    rcases List.mem_cons.mp hc with rfl | h
    · decide
    · exact (hnp c h).2
  have e : ('(' :: (explChain it r ++ ')' :: dg)).length + 1 = ('(' :: explChain it r).length + (dg.length + 1 + 1) := by
    simp only [List.length_cons, List.length_append]; omega
  rw [e, ← List.cons_append, pass4_copy _ _ hw, pass4_close dg hd]
  rfl


/-- one parenthesised parenthesis-free group, without or with a count: `(OH)`, `(OH)2`, `(C2 H5 O)12` -/
def F.group1 : F → Prop
  | .group g => g.flat
  | .count (.group g) _ => g.flat
  | _ => False

theorem preprocess_group1 (f : F) (hf : f.group1) (hs : f.spAll SpeciesShape) :
    preprocess (render f) = renderExplicit f := by
  cases f with
  | group g =>
    obtain ⟨h1, h2, h3, h4⟩ := toChain_spec g hf hs
    have := preprocess_group_chain _ _ [] h3 h4 (by intro c hc; cases hc)
    simp only [render, renderExplicit, h1, h2]
    simpa using this
  | count f' n =>
    cases f' with
    | group g =>
      obtain ⟨h1, h2, h3, h4⟩ := toChain_spec g hf hs
      have hne : (digitsOf n).isEmpty = false := by
        cases h : digitsOf n with
        | nil => exact absurd h (digitsOf_ne_nil n)
        | cons a t => rfl
      have := preprocess_group_chain _ _ (digitsOf n) h3 h4 (allDig_digitsOf n)
      simp only [render, renderExplicit, h1, h2]
      simpa [hne, List.append_assoc] using this
    | _ => exact absurd hf (by simp [F.group1])
  | _ => exact absurd hf (by simp [F.group1])

end SciVerif.C10
