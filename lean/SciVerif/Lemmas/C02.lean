import SciVerif.Model.C02
import SciVerif.Model.C01Spec
import SciVerif.Generated.C01Tables

/-! # C02 helper lemmas -/
namespace SciVerif.C02
open SciVerif.C01

variable {A : Type}

theorem finish_ok_empty (b b' : Bufs A) (t : Tok A) (h : finish b = .ok (t, b')) :
    b' = ⟨[], []⟩ := by
  unfold finish at h
  split at h
  · cases h
  · rename_i hc
    simp only [Bool.or_eq_true, decide_eq_true_eq, not_or, Nat.not_lt] at hc
    obtain ⟨hl, hr⟩ := hc
    have hl' : b.left = [] := List.eq_nil_of_length_eq_zero (by omega)
    cases b with
    | mk l r =>
      simp only at hl' hr
      subst hl'
      match r, hr with
      | [], _ => simp [getRight] at h; exact h.2.symm
      | [x], _ => simp [getRight] at h; exact h.2.symm

theorem solveFromF_ok_empty (tbl : Table) (alg : AtomAlg A) (steps : List (List String × Otype))
    (n : Nat) (b0 b : Bufs A) (s : List Char) (t : Tok A)
    (h : solveFromF tbl alg steps n b0 s = (b, .ok t)) : b = ⟨[], []⟩ := by
  cases n with
  | zero => simp [solveFromF] at h
  | succ n =>
    simp only [solveFromF] at h
    split at h
    · simp at h
    · split at h
      · simp at h
      · split at h
        · simp at h
        · rename_i hf
          simp only [Prod.mk.injEq, Except.ok.injEq] at h
          obtain ⟨rfl, rfl⟩ := h
          exact finish_ok_empty _ _ _ hf

/-- a nested solver that resets its buffers gives the same argument values from any state -/
theorem solveArgs_reset (f : Bufs A → List Char → Bufs A × Except String (Tok A))
    (args : List (List Char)) :
    ∀ st0 st1, solveArgs (fun st a => f (resetBufs st) a) st0 args
      = solveArgs (fun st a => f (resetBufs st) a) st1 args := by
  induction args with
  | nil => intro _ _; rfl
  | cons a as ih =>
    intro st0 st1
    simp only [solveArgs]
    have e : f (resetBufs st0) a = f (resetBufs st1) a := rfl
    rw [e]

theorem solveArgs_fresh (tbl : Table) (alg : AtomAlg A) (steps : List (List String × Otype))
    (args : List (List Char)) :
    ∀ st0, solveArgs (fun st a => solveI tbl alg steps st a) st0 args = freshArgs tbl alg steps args := by
  induction args with
  | nil => intro _; rfl
  | cons a as ih =>
    intro st0
    simp only [solveArgs, freshArgs]
    have e : (solveI tbl alg steps st0 a).2 = SciVerif.C01.solve tbl alg steps a := rfl
    cases hf : solveI tbl alg steps st0 a with
    | mk st' r =>
      rw [hf] at e
      simp only at e
      subst e
      generalize SciVerif.C01.solve tbl alg steps a = r
      cases r with
      | error m => rfl
      | ok t =>
        cases t with
        | op i x => rfl
        | none => simp only [ih st']; rfl
        | atom v => simp only [ih st']; rfl

end SciVerif.C02
