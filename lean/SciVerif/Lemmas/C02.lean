import SciVerif.Model.C02
import SciVerif.Model.C01Spec
import SciVerif.Generated.C01Tables

/-! # C02 helper lemmas -/
namespace SciVerif.C02
open SciVerif.C01

variable {A : Type}

theorem finish_ok_empty (b b' : Bufs A) (t : Tok A) (h : finish b = .ok (t, b')) :
    b' = ⟨[], []⟩ := by
  unfold finish at h
  split at h
  · cases h
  · rename_i hc
    simp only [Bool.or_eq_true, decide_eq_true_eq, not_or, Nat.not_lt] at hc
    obtain ⟨hl, hr⟩ := hc
    have hl' : b.left = [] := List.eq_nil_of_length_eq_zero (by omega)
    cases b with
    | mk l r =>
      simp only at hl' hr
      subst hl'
      match r, hr with
      | [], _ => simp [getRight] at h; exact h.2.symm
      | [x], _ => simp [getRight] at h; exact h.2.symm

theorem solveFromF_ok_empty (tbl : Table) (alg : AtomAlg A) (steps : List (List String × Otype))
    (n : Nat) (b0 b : Bufs A) (s : List Char) (t : Tok A)
    (h : solveFromF tbl alg steps n b0 s = (b, .ok t)) : b = ⟨[], []⟩ := by
  cases n with
  | zero => simp [solveFromF] at h
  | succ n =>
    simp only [solveFromF] at h
    split at h
    · simp at h
    · split at h
      · simp at h
      · split at h
        · simp at h
        · rename_i hf
          simp only [Prod.mk.injEq, Except.ok.injEq] at h
          obtain ⟨rfl, rfl⟩ := h
          exact finish_ok_empty _ _ _ hf

end SciVerif.C02
