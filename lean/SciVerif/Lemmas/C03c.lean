import SciVerif.Lemmas.C03b

/-! # C03 helper lemmas: number literals, atomParse -/
namespace SciVerif.C03

theorem mant_alpha (c : Char) (h : isMantChar c = true) : isNumAlpha c = true := by
  unfold isMantChar at h; unfold isNumAlpha
  simp only [Bool.or_eq_true] at h ⊢
  rcases h with h | h
  · exact Or.inl (Or.inl (Or.inl (Or.inl h)))
  · exact Or.inl (Or.inl (Or.inr h))

theorem expo_alpha (c : Char) (h : isExpoChar c = true) : isNumAlpha c = true := by
  unfold isExpoChar at h; unfold isNumAlpha
  simp only [Bool.or_eq_true] at h ⊢
  rcases h with (h | h) | h
  · exact Or.inl (Or.inl (Or.inl (Or.inl h)))
  · exact Or.inr h
  · exact Or.inl (Or.inl (Or.inl (Or.inr h)))

theorem all_imp {p q : Char → Bool} (hpq : ∀ c, p c = true → q c = true) (l : Str)
    (h : l.all p = true) : l.all q = true := by
  rw [List.all_eq_true] at h ⊢
  exact fun c hc => hpq c (h c hc)

/-- a text matched by the number regular expression consists of number characters only -/
theorem numberParts_alpha (s : Str) (r : Bool × Str × Option Str) (h : numberParts s = some r) :
    s.all isNumAlpha = true := by
  unfold numberParts at h
  simp only at h
  generalize hr : (if (s.head? == some '-') = true then List.drop 1 s else s) = rr at h
  have hrr : rr.all isNumAlpha = true := by
    split at h
    · cases h
    · have hsplit := @List.takeWhile_append_dropWhile _ isMantChar rr
      have h1 : (rr.takeWhile isMantChar).all isNumAlpha = true :=
        all_imp mant_alpha _ List.all_takeWhile
      split at h
      · rename_i hd; rw [hd] at hsplit; rw [← hsplit]; simpa using h1
      · rename_i x hd
        split at h
        · rename_i hx
          rw [← hsplit, hd, List.all_append, h1]
          have : isNumAlpha 'e' = true := by decide
          simp only [List.all_cons, this, Bool.true_and]
          exact all_imp expo_alpha _ hx.2
        · cases h
      · cases h
  by_cases hneg : (s.head? == some '-') = true
  · simp only [hneg, if_true] at hr
    cases s with
    | nil => rfl
    | cons a t =>
      have : a = '-' := by simpa using hneg
      subst this
      simp at hr; subst hr
      simp only [List.all_cons, hrr, Bool.and_true]; decide
  · simp only [hneg] at hr
    simp at hr; subst hr; exact hrr

/-- with fact F4, a text containing a table symbol is not a number literal -/
theorem numberParts_none_of_symbol (T : Tables) (h4 : factF4 T = true) (u : UnitRow) (hu : u ∈ T.units)
    (p x : Str) : numberParts (p ++ u.sym ++ x) = none := by
  cases h : numberParts (p ++ u.sym ++ x) with
  | none => rfl
  | some r =>
    exfalso
    have hall := numberParts_alpha _ r h
    obtain ⟨⟨c, hc, hn⟩, _⟩ := factF4_units h4 u hu
    rw [List.all_eq_true] at hall
    have := hall c (by simp [hc])
    rw [hn] at this; cases this

/-- what `atomParse` can return: a number (matched by the regular expression) or one unit -/
theorem atomParse_cases (T : Tables) (s : Str) (a : Atom) (h : atomParse T s = .ok a) :
    (∃ parts q, numberParts s = some parts ∧ floatOfParts parts = some q ∧ a = ⟨q, []⟩) ∨
    (∃ u e, numberParts s = none ∧ unitParse T s = .ok (u, e) ∧ a = ⟨1, [(u, e)]⟩) := by
  unfold atomParse at h
  split at h
  · rename_i parts hp
    split at h
    · rename_i q hq; left; cases h; exact ⟨parts, q, hp, hq, rfl⟩
    · cases h
  · rename_i hp
    split at h
    · rename_i u e hu; right; cases h; exact ⟨u, e, hp, hu, rfl⟩
    · cases h

end SciVerif.C03
