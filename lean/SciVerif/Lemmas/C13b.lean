import SciVerif.Lemmas.C14
/-!
Run-level lemmas for C13: re-indentation, blank/comment lines, one node per path.
-/
namespace SciVerif.C13

def reindent (f : Nat → Nat) (nd : Node) : Node := { nd with indent := f nd.indent }

def mapStack (f : Nat → Nat) (st : Stack) : Stack := st.map (fun p => (f p.1, p.2))

def mapState (f : Nat → Nat) (s : State) : State := { stack := mapStack f s.stack, nodes := s.nodes }

/-- order-preserving and order-reflecting: what "strictly monotone" gives on `Nat` -/
def OrderEmb (f : Nat → Nat) : Prop := ∀ a b, a ≤ b ↔ f a ≤ f b

theorem orderEmb_of_strictMono (f : Nat → Nat) (h : ∀ a b, a < b → f a < f b) : OrderEmb f := by
  intro a b
  constructor
  · intro hab
    rcases Nat.lt_or_eq_of_le hab with h1 | h1
    · exact Nat.le_of_lt (h a b h1)
    · subst h1; exact Nat.le_refl _
  · intro hab
    by_cases h1 : a ≤ b
    · exact h1
    · have := h b a (by omega)
      omega

theorem push_map (f : Nat → Nat) (hf : OrderEmb f) (st : Stack) (d : Nat) (nm : Str) :
    push (mapStack f st) (f d) nm = mapStack f (push st d nm) := by
  simp only [push, mapStack, List.map_cons, List.dropWhile_map]
  have hp : ((fun p : Nat × Str => decide (f d ≤ p.1)) ∘ fun p : Nat × Str => (f p.1, p.2)) =
      (fun p : Nat × Str => decide (d ≤ p.1)) := by
    funext p
    simp only [Function.comp]
    have := hf d p.1
    by_cases h : d ≤ p.1
    · simp [h, this.mp h]
    · have h2 : ¬ f d ≤ f p.1 := fun h3 => h (this.mpr h3)
      simp [h, h2]
  rw [hp]

theorem pathOf_map (f : Nat → Nat) (st : Stack) : pathOf (mapStack f st) = pathOf st := by
  simp [pathOf, mapStack, List.map_reverse, Function.comp_def]

@[simp] theorem reindent_kind (f : Nat → Nat) (nd : Node) : (reindent f nd).kind = nd.kind := rfl
@[simp] theorem reindent_name (f : Nat → Nat) (nd : Node) : (reindent f nd).name = nd.name := rfl
@[simp] theorem reindent_indent (f : Nat → Nat) (nd : Node) : (reindent f nd).indent = f nd.indent := rfl
@[simp] theorem reindent_dims (f : Nat → Nat) (nd : Node) : (reindent f nd).dims = nd.dims := rfl
@[simp] theorem reindent_raw (f : Nat → Nat) (nd : Node) : (reindent f nd).raw = nd.raw := rfl
@[simp] theorem reindent_units (f : Nat → Nat) (nd : Node) : (reindent f nd).units = nd.units := rfl
@[simp] theorem reindent_info (f : Nat → Nat) (nd : Node) : (reindent f nd).info = nd.info := rfl
@[simp] theorem reindent_declared (f : Nat → Nat) (nd : Node) : (reindent f nd).declared = nd.declared := rfl

theorem preCheck_reindent (P : Params) (f : Nat → Nat) (nd : Node) :
    preCheck P (reindent f nd) = preCheck P nd := rfl

theorem modify_reindent (P : Params) (f : Nat → Nat) (e : ENode) (nd : Node) :
    modify P e (reindent f nd) = modify P e nd := rfl

theorem updateFirst_reindent (P : Params) (f : Nat → Nat) (path : Str) (nd : Node) :
    ∀ ns, updateFirst P path (reindent f nd) ns = updateFirst P path nd ns := by
  intro ns
  induction ns with
  | nil => rfl
  | cons e t ih => simp only [updateFirst, ih, modify_reindent]

theorem stepPlain_reindent (P : Params) (f : Nat → Nat) (hf : OrderEmb f) (s : State) (nd : Node) :
    stepPlain P (mapState f s) (reindent f nd) = (stepPlain P s nd).map (mapState f) := by
  unfold stepPlain
  simp only [reindent_kind, reindent_name, reindent_indent, reindent_dims, reindent_raw, reindent_units,
    reindent_info, reindent_declared, preCheck_reindent, updateFirst_reindent]
  have hs : (mapState f s).stack = mapStack f s.stack := rfl
  have hn : (mapState f s).nodes = s.nodes := rfl
  simp only [hs, hn, push_map f hf, pathOf_map]
  cases nd.kind with
  | empty => rfl
  | unit => rfl
  | table => rfl
  | constant =>
    simp only
    cases setLastConstant s.nodes <;> rfl
  | group =>
    simp only
    cases nd.name <;> rfl
  | mod =>
    simp only
    cases nd.name with
    | none => rfl
    | some nm =>
      simp only [bind, Except.bind]
      cases preCheck P nd with
      | error x => rfl
      | ok u =>
        simp only
        cases updateFirst P (pathOf (push s.stack nd.indent nm)) nd s.nodes with
        | none => rfl
        | some r => cases r <;> rfl
  | typed t =>
    simp only
    cases nd.name with
    | none => rfl
    | some nm =>
      simp only [bind, Except.bind]
      cases preCheck P nd with
      | error x => rfl
      | ok u =>
        simp only
        cases updateFirst P (pathOf (push s.stack nd.indent nm)) nd s.nodes with
        | none =>
          simp only
          cases initValue P t nd.dims nd.raw <;> rfl
        | some r =>
          simp only
          cases initValue P t nd.dims nd.raw with
          | error x => rfl
          | ok v => cases r <;> rfl

theorem foldSteps_reindent (P : Params) (f : Nat → Nat) (hf : OrderEmb f) :
    ∀ (nds : List Node) (s : State),
      foldSteps P (mapState f s) (nds.map (reindent f)) = (foldSteps P s nds).map (mapState f) := by
  intro nds
  induction nds with
  | nil => intro s; rfl
  | cons nd t ih =>
    intro s
    simp only [List.map_cons, foldSteps, bind, Except.bind, stepPlain_reindent P f hf]
    cases stepPlain P s nd with
    | error x => rfl
    | ok s' => simp only [Except.map]; exact ih s'

/-- `TableNode.parse` copies the table's indentation to the columns and reads nothing else of it -/
def TableIndentOnly (P : Params) (f : Nat → Nat) : Prop :=
  ∀ nd, P.expandTable (reindent f nd) = (P.expandTable nd).map (List.map (reindent f))

theorem expandTable_indentOnly (tbl : List UnitRow) (f : Nat → Nat) : TableIndentOnly (mkParams tbl) f := by
  intro nd
  simp only [mkParams, expandTable, reindent]
  cases expandTable0 nd.raw nd.name with
  | error x => rfl
  | ok l => simp [Except.map, reindent, Function.comp_def]

theorem step_reindent (P : Params) (f : Nat → Nat) (hf : OrderEmb f) (hT : TableIndentOnly P f)
    (s : State) (nd : Node) :
    step P (mapState f s) (reindent f nd) = (step P s nd).map (mapState f) := by
  by_cases hk : nd.kind = .table
  · have hk' : (reindent f nd).kind = .table := hk
    simp only [step, hk, hk', if_true, bind, Except.bind, hT nd]
    cases P.expandTable nd with
    | error x => rfl
    | ok cols =>
      simp only [Except.map, List.isEmpty_map]
      by_cases he : cols.isEmpty = true
      · simp [he]
      · simp only [he, Bool.false_eq_true, if_false]
        exact foldSteps_reindent P f hf cols s
  · have hk' : ¬ (reindent f nd).kind = .table := hk
    simp only [step, hk, hk', if_false]
    exact stepPlain_reindent P f hf s nd

theorem runNodes_reindent (P : Params) (f : Nat → Nat) (hf : OrderEmb f) (hT : TableIndentOnly P f) :
    ∀ (nds : List Node) (s : State),
      runNodes P (mapState f s) (nds.map (reindent f)) = (runNodes P s nds).map (mapState f) := by
  intro nds
  induction nds with
  | nil => intro s; rfl
  | cons nd t ih =>
    intro s
    simp only [List.map_cons, runNodes, bind, Except.bind, step_reindent P f hf hT]
    cases step P s nd with
    | error x => rfl
    | ok s' => simp only [Except.map]; exact ih s'

/-! ### blank / comment lines -/

theorem runNodes_append (P : Params) : ∀ (a b : List Node) (s : State),
    runNodes P s (a ++ b) = (runNodes P s a).bind (fun s' => runNodes P s' b) := by
  intro a
  induction a with
  | nil => intro b s; rfl
  | cons nd t ih =>
    intro b s
    simp only [List.cons_append, runNodes, bind, Except.bind]
    cases step P s nd with
    | error x => rfl
    | ok s' => exact ih b s'

theorem runNodes_empty (P : Params) (a b : List Node) (s : State) (nd : Node) (h : nd.kind = .empty) :
    runNodes P s (a ++ nd :: b) = runNodes P s (a ++ b) := by
  rw [runNodes_append, runNodes_append]
  cases runNodes P s a with
  | error x => rfl
  | ok s' =>
    simp only [Except.bind, runNodes, bind]
    have : step P s' nd = .ok s' := by
      simp [step, h, stepPlain]
    rw [this]

/-! ### lexer facts -/

theorem all_isWs_replicate (k : Nat) : (List.replicate k ' ').all isWs = true := by
  simp [List.all_eq_true, isWs]

theorem dropWhile_spaces (k : Nat) (b : Str) : (List.replicate k ' ' ++ b).dropWhile isWs = b.dropWhile isWs := by
  induction k with
  | zero => rfl
  | succ n ih => simp [List.replicate_succ, List.dropWhile_cons, isWs, ih]

theorem takeWhile_spaces (k : Nat) (c : Char) (b : Str) (hc : isWs c = false) :
    ((List.replicate k ' ' ++ c :: b).takeWhile isWs).length = k := by
  induction k with
  | zero => simp [List.takeWhile_cons, hc]
  | succ n ih => simp [List.replicate_succ, List.takeWhile_cons, isWs, ih]

end SciVerif.C13
