import SciVerif.Lemmas.C07c

/-!
Lemmas for C07, part 4: one whole operation (`exec`) preserves the invariant and writes no old cell except
the quantity cell of the target of an in-place method.
-/
namespace SciVerif.C07

def Kind.target : Kind → Option Nat
  | .assign x => some x
  | _ => none

/-- side conditions under which an operation description is meaningful in heap `h` -/
def Spec.valid (h : Heap) (s : Spec) : Prop :=
  (∀ t ∈ s.temps, t.valid = true) ∧ s.final.valid = true ∧ (∀ b ∈ s.tempBUs, b.ok h) ∧ s.bu.ok h ∧
  (∀ x, s.kind = .assign x → ∃ c, h.q x = some c)

/-- an in-place write to a Magnitude allocated after `h` is invisible from `h` -/
theorem Frame.ext_of_ge {h h1 h2 : Heap} {ml : Nat} (x1 : Ext h h1)
    (x2 : Frame h1 h2 none (some ml) none) (hge : h.n ≤ ml) : Ext h h2 := by
  have := x1.n_le
  apply ext_of_eq (Nat.le_trans x1.n_le x2.n_le)
  · intro l hl; rw [x2.q_eq l (by omega) (by simp), x1.q_eq l hl (by simp)]
  · intro l hl
    rw [x2.m_eq l (by omega) (by intro e; cases e; omega), x1.m_eq l hl (by simp)]
  · intro l hl; rw [x2.a_eq l (by omega) (by simp), x1.a_eq l hl (by simp)]
  · intro l hl; rw [x2.b_eq l (by omega), x1.b_eq l hl]
  · intro l hl; rw [x2.d_eq l (by omega), x1.d_eq l hl]

theorem unowned_of_q_eq {h h' : Heap} (w : WF h) (hq : h'.q = h.q) {ml : Nat} (hge : h.n ≤ ml) :
    Unowned h' ml := by
  intro x c hh; rw [hq] at hh; exact w.unowned_of_ge hge x c hh

theorem rewriteStep_spec {h0 h : Heap} (w0 : WF h0) (x0 : Ext h0 h) (w : WF h) (ml : Nat) (c : Mag)
    (hm : h.m ml = some c) (isArr on : Bool) (hs : c.value.isArr = isArr) (hge : h0.n ≤ ml) :
    WF (rewriteStep h ml isArr on) ∧ Ext h0 (rewriteStep h ml isArr on) ∧
    (rewriteStep h ml isArr on).q = h.q ∧ (∃ c', (rewriteStep h ml isArr on).m ml = some c') := by
  cases on
  · simp only [rewriteStep, Bool.false_eq_true, if_false]
    exact ⟨w, x0, trivial, ⟨c, hm⟩⟩
  · simp only [rewriteStep, if_true, hm]
    obtain ⟨w4, x4, q4, _, _, c4, hc4, _⟩ :=
      setField_spec w ml c hm true isArr ⟨fun _ => hs, fun hh => by cases hh⟩
    exact ⟨w4, Frame.ext_of_ge x0 x4 hge, q4, ⟨c4, hc4⟩⟩

theorem exec_spec {h : Heap} (w : WF h) (s : Spec) (hv : s.valid h) :
    WF (exec h s).1 ∧ Frame h (exec h s).1 s.kind.target none none ∧
    (s.kind = .construct → ∃ x, (exec h s).2 = .qty x ∧ h.n ≤ x ∧ ∃ c, (exec h s).1.q x = some c) ∧
    (∀ x, s.kind = .assign x → (exec h s).2 = .qty x) ∧
    (s.kind = .valueOf → ∀ l, (exec h s).2 = .val (.arr l) → h.n ≤ l) := by
  obtain ⟨hv1, hv2, hv3, hv4, hv5⟩ := hv
  obtain ⟨w1, x1, q1, b1, d1⟩ := newMags_spec s.temps w hv1
  obtain ⟨w2, x2, q2, m2, a2⟩ := newBUs_spec s.tempBUs w1 (fun t ht => BUSpec.ok_mono w x1 t (hv3 t ht))
  have x12 : Ext h (newBUs (newMags h s.temps) s.tempBUs) := x1.trans x2
  have q12 : (newBUs (newMags h s.temps) s.tempBUs).q = h.q := by rw [q2, q1]
  simp only [exec]
  generalize newBUs (newMags h s.temps) s.tempBUs = h2 at *
  obtain ⟨w3, x3, q3, b3, d3, ge3, c3, hc3, sh3, fr3⟩ := newMag_spec w2 s.final hv2
  have n2 := x12.n_le
  have x13 : Ext h (newMag h2 s.final).2 := x12.trans x3
  have q13 : (newMag h2 s.final).2.q = h.q := by rw [q3, q12]
  generalize newMag h2 s.final = M at *
  cases hk : s.kind with
  | nothing => exact ⟨w2, x12.weaken _ _ _, by simp, by simp, by simp⟩
  | valueOf =>
    refine ⟨w3, x13.weaken _ _ _, by simp, by simp, ?_⟩
    intro _ l hl
    simp only [hc3, Res.val.injEq] at hl
    have := fr3 l hl
    omega
  | construct =>
    dsimp only
    obtain ⟨w4, x4, q4, ⟨c4, hc4⟩⟩ :=
      rewriteStep_spec w x13 w3 M.1 c3 hc3 s.final.isArr s.rewriteValue sh3 (by omega)
    generalize rewriteStep M.2 M.1 s.final.isArr s.rewriteValue = h3 at *
    have ok4 : s.bu.ok h3 := BUSpec.ok_mono w x4 _ hv4
    obtain ⟨w5, x5, q5, m5, a5, ⟨bc, hbc⟩⟩ := newBU_spec w4 s.bu ok4
    have hun : Unowned (newBU h3 s.bu).2 M.1 := unowned_of_q_eq w (by rw [q5, q4, q13]) (by omega)
    have w6 := WF.allocQ w5 M.1 (newBU h3 s.bu).1 ⟨c4, by rw [m5]; exact hc4⟩ ⟨bc, hbc⟩ hun
    have n5 := (x4.trans x5).n_le
    refine ⟨w6, ?_, fun _ => ⟨_, rfl, n5, ⟨⟨M.1, (newBU h3 s.bu).1⟩, by simp⟩⟩, by simp, by simp⟩
    apply Ext.weaken
    apply (x4.trans x5).trans
    apply ext_of_eq (by simp)
    · intro l hl; exact upd_ne _ _ _ _ (by omega)
    · intro l _; rfl
    · intro l _; rfl
    · intro l _; rfl
    · intro l _; rfl
  | assign x =>
    dsimp only
    obtain ⟨cx, hcx⟩ := hv5 x hk
    have hxl := w.q_lt x cx hcx
    have ok3 : s.bu.ok M.2 := BUSpec.ok_mono w x13 _ hv4
    obtain ⟨w5, x5, q5, m5, a5, ⟨bc, hbc⟩⟩ := newBU_spec w3 s.bu ok3
    have hun : Unowned (newBU M.2 s.bu).2 M.1 := unowned_of_q_eq w (by rw [q5, q13]) (by omega)
    have hq5 : (newBU M.2 s.bu).2.q x = some cx := by rw [q5, q13]; exact hcx
    have w6 := WF.setQ w5 x M.1 (newBU M.2 s.bu).1 ⟨cx, hq5⟩ ⟨c3, by rw [m5]; exact hc3⟩ ⟨bc, hbc⟩ hun
    refine ⟨w6, ?_, by simp, by simp, by simp⟩
    have x35 := x13.trans x5
    constructor
    · exact x35.n_le
    · intro l hl hx
      show upd _ x _ l = h.q l
      rw [upd_ne _ _ _ _ (by intro e; exact hx (by rw [e]; rfl))]
      exact x35.q_eq l hl (by simp)
    · intro l hl _; exact x35.m_eq l hl (by simp)
    · intro l hl _; exact x35.a_eq l hl (by simp)
    · exact x35.b_eq
    · exact x35.d_eq

end SciVerif.C07
