import SciVerif.Model.C18Str

/-!
The argument scanner of parenthesis-type operators (C18): depth counting, separators, closing —
replayed on `scanArgs` after the architecture of `Lemmas/C01f.lean` (`nest`, `parScan_nest`).
-/
namespace SciVerif.C18

theorem blanks_succ (k : Nat) : blanks (k + 1) = ' ' :: blanks k := rfl
theorem blanks_length (k : Nat) : (blanks k).length = k := by simp [blanks]
theorem blanks_reverse (k : Nat) : (blanks k).reverse = blanks k := by simp [blanks]

theorem dropWhile_blanks (k : Nat) (r : List Char) :
    (blanks k ++ r).dropWhile isWs = r.dropWhile isWs := by
  induction k with
  | zero => rfl
  | succ k ih =>
    rw [blanks_succ, List.cons_append, List.dropWhile_cons]
    have : isWs ' ' = true := by decide
    simp [this, ih]

theorem dropWhile_nonws (c : Char) (r : List Char) (h : isWs c = false) :
    (c :: r).dropWhile isWs = c :: r := by
  simp [List.dropWhile_cons, h]

/-- first and last character are not white space -/
def Stripped (c : List Char) : Prop :=
  (∃ x, c.head? = some x ∧ isWs x = false) ∧ (∃ y, c.getLast? = some y ∧ isWs y = false)

/-- `strip` of a text padded with blanks whose first and last characters are not blank -/
theorem strip_pad (k k' : Nat) (c : List Char) (h : Stripped c) :
    strip (blanks k ++ (c ++ blanks k')) = c := by
  obtain ⟨⟨x, hx, hxw⟩, ⟨y, hy, hyw⟩⟩ := h
  unfold strip lstrip rstrip
  rw [dropWhile_blanks]
  cases c with
  | nil => simp at hx
  | cons x' c' =>
    simp only [List.head?_cons, Option.some.injEq] at hx
    subst hx
    rw [List.cons_append, dropWhile_nonws _ _ hxw, ← List.cons_append, List.reverse_append,
      blanks_reverse, dropWhile_blanks]
    have hh : (x' :: c').reverse.head? = some y := by rw [List.head?_reverse]; exact hy
    cases hr : (x' :: c').reverse with
    | nil => rw [hr] at hh; simp at hh
    | cons y' ys =>
      rw [hr] at hh
      simp only [List.head?_cons, Option.some.injEq] at hh
      subst hh
      rw [dropWhile_nonws _ _ hyw, ← hr, List.reverse_reverse]

theorem strip_blanks (k : Nat) : strip (blanks k) = [] := by
  unfold strip lstrip rstrip
  have : (blanks k).dropWhile isWs = [] := by
    have := dropWhile_blanks k []
    simpa using this
  rw [this]; rfl

/-- relative depth after a text; `none` when the depth would go below the start or a comma
    occurs at the starting depth -/
def nest : List Char → Nat → Option Nat
  | [], k => some k
  | c :: cs, k =>
      if c = '(' then nest cs (k + 1)
      else if c = ')' then (if k = 0 then none else nest cs (k - 1))
      else if c = ',' then (if k = 0 then none else nest cs k)
      else nest cs k

theorem nest_append (u v : List Char) (k : Nat) : nest (u ++ v) k = (nest u k).bind (nest v) := by
  induction u generalizing k with
  | nil => rfl
  | cons c cs ih =>
    simp only [List.cons_append, nest]
    split
    · exact ih _
    · split
      · split
        · rfl
        · exact ih _
      · split
        · split
          · rfl
          · exact ih _
        · exact ih _

theorem nest_blanks (j k : Nat) : nest (blanks j) k = some k := by
  induction j with
  | zero => rfl
  | succ j ih => rw [blanks_succ]; simp [nest, ih]

/-! one-step lemmas of the scanner -/

theorem scan_neutral (n d : Nat) (l r : List Char) (c : Char) (args : List (List Char))
    (h1 : c ≠ '(') (h2 : c ≠ ')') (h3 : c ≠ ',') :
    scanArgs (n + 1) d l (c :: r) args = scanArgs n d (c :: l) r args := by
  simp [scanArgs, h1, h2, h3]

theorem scan_open (n d : Nat) (l r : List Char) (args : List (List Char)) :
    scanArgs (n + 1) d l ('(' :: r) args = scanArgs n (d + 1) ('(' :: l) r args := by
  simp [scanArgs]

theorem scan_sep_deep (n d : Nat) (l r : List Char) (args : List (List Char)) (hd : d ≠ 1) :
    scanArgs (n + 1) d l (',' :: r) args = scanArgs n d (',' :: l) r args := by
  simp [scanArgs, hd]

theorem scan_sep_one (n : Nat) (l r : List Char) (args : List (List Char)) :
    scanArgs (n + 1) 1 l (',' :: r) args = scanArgs n 1 [] r (args ++ [strip l.reverse]) := by
  simp [scanArgs]

theorem scan_close_deep (n d : Nat) (l r : List Char) (args : List (List Char)) (hd : d ≠ 1) :
    scanArgs (n + 1) d l (')' :: r) args = scanArgs n (d - 1) (')' :: l) r args := by
  simp [scanArgs, hd]

theorem scan_close_one (n : Nat) (l r : List Char) (args : List (List Char)) :
    scanArgs (n + 1) 1 l (')' :: r) args = some (args ++ [strip l.reverse], r) := by
  simp [scanArgs]

/-- Scanning a text whose relative depth goes from `k` to `k'` without touching the start depth:
    the depth counter follows, the text is collected on the left. -/
theorem scan_nest (w : List Char) :
    ∀ (k k' n d : Nat) (l r : List Char) (args : List (List Char)), nest w k = some k' → 1 ≤ d →
      scanArgs (n + w.length) (d + k) l (w ++ r) args = scanArgs n (d + k') (w.reverse ++ l) r args := by
  induction w with
  | nil => intro k k' n d l r args h _; simp [nest] at h; subst h; simp
  | cons c cs ih =>
    intro k k' n d l r args h hd
    have ef : n + (c :: cs).length = (n + cs.length) + 1 := by simp; omega
    rw [ef, List.cons_append]
    simp only [nest] at h
    by_cases h1 : c = '('
    · subst h1
      simp only [if_true] at h
      rw [scan_open, show d + k + 1 = d + (k + 1) by omega, ih (k + 1) k' n d _ r args h hd]
      simp
    · by_cases h2 : c = ')'
      · subst h2
        simp only [h1, if_false, if_true] at h
        by_cases hk : k = 0
        · simp [hk] at h
        · simp only [hk, if_false] at h
          rw [scan_close_deep _ _ _ _ _ (by omega), show d + k - 1 = d + (k - 1) by omega,
            ih (k - 1) k' n d _ r args h hd]
          simp
      · by_cases h3 : c = ','
        · subst h3
          simp only [h1, h2, if_false, if_true] at h
          by_cases hk : k = 0
          · simp [hk] at h
          · simp only [hk, if_false] at h
            rw [scan_sep_deep _ _ _ _ _ (by omega), ih k k' n d _ r args h hd]
            simp
        · simp only [h1, h2, h3, if_false] at h
          rw [scan_neutral _ _ _ _ _ _ h1 h2 h3, ih k k' n d _ r args h hd]
          simp

/-- a padded, balanced argument followed by the closing parenthesis -/
theorem scan_last (i j : Nat) (w R : List Char) (args : List (List Char)) (n : Nat)
    (hs : Stripped w) (hn : nest w 0 = some 0) :
    scanArgs (n + 1 + (blanks i ++ (w ++ blanks j)).length) 1 [] (blanks i ++ (w ++ (blanks j ++ ')' :: R))) args =
      some (args ++ [w], R) := by
  have hw : nest (blanks i ++ (w ++ blanks j)) 0 = some 0 := by
    simp [nest_append, nest_blanks, hn]
  have := scan_nest (blanks i ++ (w ++ blanks j)) 0 0 (n + 1) 1 [] (')' :: R) args hw (by omega)
  simp only [List.append_assoc, Nat.add_zero, List.append_nil] at this
  rw [this, scan_close_one, List.reverse_reverse, strip_pad i j w hs]

/-- a padded, balanced argument followed by a separator at depth 1 -/
theorem scan_sep (i j : Nat) (w R : List Char) (args : List (List Char)) (n : Nat)
    (hs : Stripped w) (hn : nest w 0 = some 0) :
    scanArgs (n + 1 + (blanks i ++ (w ++ blanks j)).length) 1 [] (blanks i ++ (w ++ (blanks j ++ ',' :: R))) args =
      scanArgs n 1 [] R (args ++ [w]) := by
  have hw : nest (blanks i ++ (w ++ blanks j)) 0 = some 0 := by
    simp [nest_append, nest_blanks, hn]
  have := scan_nest (blanks i ++ (w ++ blanks j)) 0 0 (n + 1) 1 [] (',' :: R) args hw (by omega)
  simp only [List.append_assoc, Nat.add_zero, List.append_nil] at this
  rw [this, scan_sep_one, List.reverse_reverse, strip_pad i j w hs]

end SciVerif.C18
