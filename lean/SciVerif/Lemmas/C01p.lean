import SciVerif.Lemmas.C01o

/-!
# C01 helper lemmas, part 16: token-level rejections lifted to texts (an expression framed by
  operator symbols).
-/
namespace SciVerif.C01
open SciVerif.C01.Gen

variable {A : Type} (alg : AtomAlg A) (lit : List Char → A)

theorem solveFromF_of_tokens_err (n : Nat) (s : List Char) (T : List (Tok A)) (m : String)
    (ht : tokLoop dflt alg (nestedSolve alg n) (s.length + 1) ⟨[], s⟩ ⟨[], []⟩ = .ok ⟨[], T⟩)
    (hs : solveToks dflt alg dfltSteps T = .error m) :
    (solveFromF dflt alg dfltSteps (n + 1) ⟨[], []⟩ s).2 = .error m := by
  unfold nestedSolve at ht
  simp only [solveFromF, ht]
  unfold solveToks at hs
  cases hr : runSteps dflt alg dfltSteps ⟨[], T⟩ with
  | error e =>
    obtain ⟨b, m'⟩ := e
    rw [hr] at hs
    simp only [Except.error.injEq] at hs
    simp [hs]
  | ok b2 =>
    rw [hr] at hs
    simp only at hs ⊢
    cases hf : finish b2 with
    | error e =>
      obtain ⟨b, m'⟩ := e
      rw [hf] at hs
      simp only [Except.error.injEq] at hs
      simp [hs]
    | ok tb => rw [hf] at hs; cases hs

/-- operator items only -/
def OprOnly (its : List LItem) : Prop := ∀ it ∈ its, it.isOpr = true

theorem itemOK_opr (sa : Bufs A → List Char → Bufs A × Except String (Tok A)) (it : LItem)
    (h : it.isOpr = true) : ItemOK alg lit sa it := by
  cases it <;> first | trivial | (simp [LItem.isOpr] at h)

theorem oprLex_ne_nil (it : LItem) (h : it.isOpr = true) : ∀ x ∈ itemLex it, x ≠ [] := by
  cases it with
  | opr k => intro x hx; simp [itemLex] at hx; rw [hx]; exact (oprSym_props k).1.1
  | lit t => simp [LItem.isOpr] at h
  | call1 f a => simp [LItem.isOpr] at h
  | call2 g a b => simp [LItem.isOpr] at h

/-- A well-formed expression framed by operator symbols: the text is tokenised to the framed token
    list; if the step loop rejects that, so does `solve`. -/
theorem solve_framed_err (hn : NegNeg alg) (e : E) (hwf : e.WF) (hl : LitOK alg lit e)
    (pre post : List LItem) (hpre : OprOnly pre) (hpost : OprOnly post)
    (hadj : Adj (pre ++ items e ++ post)) (u : List Char) (k : Nat)
    (hu : Pre ((pre ++ items e ++ post).flatMap itemLex) u) (m : String)
    (hs : solveToks dflt alg dfltSteps
      (pre.map (tokOf alg lit) ++ toks dflt alg lit e ++ post.map (tokOf alg lit)) = .error m) :
    solve dflt alg dfltSteps (u ++ blanks k) = .error m := by
  have hlen : (lexemes e).length ≤ u.length := by
    have h1 := Pre.length_le hu (fun x hx => by
      simp only [List.flatMap_append, List.mem_append, List.mem_flatMap] at hx
      rcases hx with (⟨it, hit, hx⟩ | ⟨it, hit, hx⟩) | ⟨it, hit, hx⟩
      · exact oprLex_ne_nil it (hpre it hit) x hx
      · have : x ∈ lexemes e := by rw [lexemes_items]; exact List.mem_flatMap.mpr ⟨it, hit, hx⟩
        exact (lexemes_good alg lit e hl x this).1
      · exact oprLex_ne_nil it (hpost it hit) x hx)
    have h2 : (lexemes e).length ≤ ((pre ++ items e ++ post).flatMap itemLex).length := by
      rw [lexemes_items]; simp; omega
    omega
  have hd : cdepth e ≤ (u ++ blanks k).length := by
    have := cdepth_le_lexemes e; simp; omega
  have hargs := args_of_depth alg lit hn e hwf hl _ hd
  have hok : ∀ it ∈ pre ++ items e ++ post,
      ItemOK alg lit (nestedSolve alg (u ++ blanks k).length) it := by
    intro it hit
    simp only [List.mem_append] at hit
    rcases hit with (hit | hit) | hit
    · exact itemOK_opr alg lit _ it (hpre it hit)
    · exact itemOK_items alg lit _ e hl hargs it hit
    · exact itemOK_opr alg lit _ it (hpost it hit)
  have ht := tok_items alg lit (nestedSolve alg (u ++ blanks k).length) _ hadj hok
    [] [] u ⟨[], []⟩ k ((u ++ blanks k).length + 1) (pending_nil alg lit) (fun h => absurd rfl h) hu
    (by simp [blanks_length])
  have ht' : tokLoop dflt alg (nestedSolve alg (u ++ blanks k).length) ((u ++ blanks k).length + 1)
      ⟨[], u ++ blanks k⟩ ⟨[], []⟩
      = .ok ⟨[], pre.map (tokOf alg lit) ++ toks dflt alg lit e ++ post.map (tokOf alg lit)⟩ := by
    rw [ht, toks_items]; simp [pendTok]
  have := solveFromF_of_tokens_err alg _ _ _ m ht' hs
  unfold solve solveI solveFrom resetBufs
  exact this

theorem adj_post_opr (e : E) (hl : LitOK alg lit e) (k : OprK) :
    Adj ([] ++ items e ++ [.opr k]) := by
  obtain ⟨pre, lst, e2, h2⟩ := items_last e
  have := Adj.append (adj_items alg lit e hl) (show Adj [LItem.opr k] from trivial) (fun a ha => by
    rw [e2] at ha; simp at ha; subst ha
    exact ⟨fun _ => rfl, fun hh => by rw [h2] at hh; cases hh⟩)
  simpa using this

end SciVerif.C01
