import SciVerif.Lemmas.C18c

/-! "unit-carrying = SI" with prefix signs (C18): the step lemmas of the induction. -/
namespace SciVerif.C18

variable {A : Type}

/-- arithmetic trees with prefix signs: `+ − × ÷`, parentheses, ` - x`, ` + x` -/
def E.ArithS : E A → Prop
  | .lit _ => True
  | .par e => e.ArithS
  | .bin o l r => (o = "add" ∨ o = "sub" ∨ o = "mul" ∨ o = "truediv") ∧ l.ArithS ∧ r.ArithS
  | .pre u e => (u = "sub" ∨ u = "add") ∧ e.ArithS
  | _ => False

theorem E.arithS_of_arith : ∀ (e : E A), e.Arith → e.ArithS
  | .lit _, _ => trivial
  | .par e, h => E.arithS_of_arith e h
  | .bin _ l r, ⟨ho, hl, hr⟩ => ⟨ho, E.arithS_of_arith l hl, E.arithS_of_arith r hr⟩
  | .pre _ _, h => h.elim
  | .fn1 _ _, h => h.elim
  | .fn2 _ _ _, h => h.elim

/-- one binary step -/
theorem agrees_bin {K : Type} [Field K] (o : String)
    (ho : o = "add" ∨ o = "sub" ∨ o = "mul" ∨ o = "truediv")
    (ql qr : QV K) (sl sr : Option (SQ K)) (hL : Agrees ql sl) (hR : Agrees qr sr) :
    Agrees (numBinSem (fieldOps K) o ql qr) (siBin (fieldOps K) o sl sr) := by
  cases ql with
  | none =>
    simp only [Agrees] at hL; subst hL
    rcases ho with rfl | rfl | rfl | rfl <;> cases qr <;> simp [numBinSem, numBin, lift2, siBin, Agrees]
  | some a =>
    obtain ⟨hka, rfl⟩ := hL
    cases qr with
    | none =>
      simp only [Agrees] at hR; subst hR
      rcases ho with rfl | rfl | rfl | rfl <;> simp [numBinSem, numBin, lift2, siBin, Agrees]
    | some b =>
      obtain ⟨hkb, rfl⟩ := hR
      rcases ho with rfl | rfl | rfl | rfl
      · -- add
        simp only [numBinSem, numBin, lift2, qaddsub, convTo, siBin, Quant.toSI]
        by_cases hd : b.dims = a.dims
        · have hd' : a.dims = b.dims := hd.symm
          simp only [hd, if_true, ite_self, Option.map_some, Agrees]
          refine ⟨hka, ?_⟩
          simp only [fieldOps, Quant.toSI, Bool.false_eq_true, if_false]
          congr 2; field_simp
        · have hd' : ¬ a.dims = b.dims := fun e => hd e.symm
          simp [hd, hd', Agrees]
      · -- sub
        simp only [numBinSem, numBin, lift2, qaddsub, convTo, siBin, Quant.toSI]
        by_cases hd : b.dims = a.dims
        · have hd' : a.dims = b.dims := hd.symm
          simp only [hd, if_true, ite_self, Option.map_some, Agrees]
          refine ⟨hka, ?_⟩
          simp only [fieldOps, Quant.toSI, if_true]
          rw [if_neg (by decide)]
          congr 2; field_simp
        · have hd' : ¬ a.dims = b.dims := fun e => hd e.symm
          simp [hd, hd', Agrees]
      · -- mul
        simp only [numBinSem, numBin, lift2, qmul, siBin, Quant.toSI]
        have := agrees_mk (a.val * b.val) (a.k * b.k) (a.dims.add b.dims) (mul_ne_zero hka hkb)
        simp only [fieldOps] at this ⊢
        convert this using 3
        simp; ring
      · -- div
        simp only [numBinSem, numBin, lift2, qdiv, siBin, Quant.toSI]
        have := agrees_mk (a.val / b.val) (a.k / b.k) (a.dims.sub b.dims) (div_ne_zero hka hkb)
        simp only [fieldOps] at this ⊢
        convert this using 3
        simp; rw [div_mul_div_comm]

/-- one prefix sign: negating the magnitude in its own unit is negating the SI value -/
theorem agrees_pre {K : Type} [Field K] (u : String) (hu : u = "sub" ∨ u = "add")
    (q : QV K) (s : Option (SQ K)) (h : Agrees q s) :
    Agrees (numPreSem (fieldOps K) u q)
      (if u = "sub" then s.map fun a => ⟨(fieldOps K).neg a.si, a.dims⟩
       else if u = "add" then s else none) := by
  rcases hu with rfl | rfl
  · cases q with
    | none => simp only [Agrees] at h; subst h; simp [numPreSem, numSem, Agrees]
    | some a =>
      obtain ⟨hk, rfl⟩ := h
      simp only [numPreSem, numSem, if_true, Option.map_some, Agrees]
      refine ⟨hk, ?_⟩
      simp [Quant.toSI, fieldOps]
  · have h1 : ¬ ("add" = "sub") := by decide
    simp only [numPreSem, h1, if_false, if_true]
    exact h

end SciVerif.C18
