import SciVerif.Lemmas.C03n

/-! # C03 helper lemmas: rendering parsed units (`expression`) and parsing the text again -/
namespace SciVerif.C03

/-- the exponent text `get_unit_base` writes: nothing for exponent 1, else `str(exp)` -/
def etxt (e : Frac) : Str := if e.rebase.num = 1 ∧ e.rebase.den = 1 then [] else e.str

/-- the text `get_unit_base` writes for one dict entry -/
def entryText : UnitId → Frac → Str
  | .sys n, e => n ++ etxt e
  | .std p b, e => p ++ b ++ etxt e

theorem rebase_num_ne_zero (e : Frac) (hz : e.num ≠ 0) : e.rebase.num ≠ 0 := by
  intro h
  have h1 := rebase_num_zero e h
  -- a rebased fraction 0/1 has value 0, so the numerator was 0 — shown directly from the definition
  revert h
  unfold Frac.rebase
  simp only [hz, if_false]
  generalize h2 : (if e.den < 0 then (⟨-e.num, -e.den⟩ : Frac) else e) = a2
  have hn : a2.num ≠ 0 := by
    by_cases hd : e.den < 0
    · simp only [hd, if_true] at h2; subst h2; simpa using hz
    · simp only [hd, if_false] at h2; subst h2; exact hz
  split
  · intro h0
    simp only at h0
    have d1 : ((Int.gcd a2.num a2.den : Nat) : Int) ∣ a2.num := Int.gcd_dvd_left _ _
    have := Int.mul_ediv_cancel' d1
    rw [h0] at this
    simp at this
    exact hn this.symm
  · exact hn

theorem etxt_reads (e : Frac) : expTextOf (etxt e) e.rebase := by
  unfold etxt
  split
  · rename_i h
    left
    refine ⟨rfl, ?_⟩
    cases hr : e.rebase with
    | mk n d => rw [hr] at h; simp at h; obtain ⟨rfl, rfl⟩ := h; rfl
  · obtain ⟨h1, h2, h3⟩ := fromString_str e
    exact Or.inr ⟨h2, h3, h1⟩

theorem etxt_rebase (e : Frac) (he : e.den ≠ 0) : etxt e.rebase = etxt e := by
  unfold etxt Frac.str
  simp only [rebase_idem e he]

theorem entryText_rebase (u : UnitId) (e : Frac) (he : e.den ≠ 0) : entryText u e.rebase = entryText u e := by
  cases u <;> simp [entryText, etxt_rebase e he]

theorem getUnitBase_expr (T : Tables) (u : UnitId) (e : Frac) (base : Base)
    (h : getUnitBase T u e = some base) : base.expression = entryText u e := by
  unfold getUnitBase at h
  split at h
  · cases h
  · cases u with
    | sys n =>
      simp only at h
      split at h
      · cases h
      · cases h; simp [entryText, etxt]
    | std p b =>
      simp only at h
      split at h
      · cases h
      · split at h
        · rename_i hp; cases h; simp [entryText, etxt, hp]
        · split at h
          · cases h
          · cases h; simp [entryText, etxt]

/-- a key the tables allow: admissible prefix–symbol pair or a system-unit key -/
def goodKey (T : Tables) : UnitId → Prop
  | .sys n => (T.findSys n).isSome = true
  | .std p b => ∃ row ∈ T.units, row.sym = b ∧ p ∈ [] :: admPrefixes T row

/-- the AST leaf an entry is rendered as -/
def leafOfEntry : UnitId → Frac → U
  | .sys n, e => .sys n (etxt e)
  | .std p b, e => .atom p b (etxt e)

theorem leafOfEntry_render (u : UnitId) (e : Frac) : (leafOfEntry u e).render = entryText u e := by
  cases u <;> simp [leafOfEntry, U.render, entryText]

theorem leafOfEntry_isOp (u : UnitId) (e : Frac) : (leafOfEntry u e).isOp = false ∧
    (leafOfEntry u e).leftAssoc = true := by
  cases u <;> simp [leafOfEntry, U.isOp, U.leftAssoc]

/-- Single entries: the text written for an entry is read back as exactly that key with the
    rebased exponent (atom parser completeness + the digit round trip) -/
theorem entry_roundtrip (T : Tables) (h1 : factF1 T = true) (h2 : factF2 T = true) (h3 : factF3 T = true)
    (h4 : factF4 T = true) (h7 : factF7 T = true) (u : UnitId) (e : Frac) (hg : goodKey T u) :
    atomParse T (entryText u e) = .ok ⟨1, [(u, e.rebase)]⟩ ∧
    (leafOfEntry u e).plainLeaves ∧ evalU T (leafOfEntry u e) = some ⟨1, [(u, e.rebase)]⟩ := by
  have hx := etxt_reads e
  have hxp : (etxt e).all isPlainChar = true :=
    all_imp (fun c hc => plain_of_numalpha_or_exp c (Or.inr hc)) _ (expTextOf_chars _ _ hx)
  cases u with
  | sys n =>
    obtain ⟨hu, hnum⟩ := unitParse_sys_complete T h7 n (etxt e) e.rebase hg hx
    have hparse : atomParse T (n ++ etxt e) = .ok ⟨1, [(.sys n, e.rebase)]⟩ := by
      unfold atomParse; rw [hnum, hu]
    obtain ⟨row, hrow⟩ := Option.isSome_iff_exists.mp hg
    obtain ⟨hmem, hsym⟩ := findSys_sym T n row hrow
    obtain ⟨hpl, hhead, _⟩ := (factF7_prop h7).2.2 row hmem
    rw [hsym] at hpl hhead
    have hne : n ++ etxt e ≠ [] := by
      intro h
      have : n = [] := (List.append_eq_nil_iff.mp h).1
      rw [this] at hhead; simp at hhead
    refine ⟨hparse, ⟨_, rfl, hne, ?_⟩, by simp only [leafOfEntry, evalU, leafVal, hparse]⟩
    rw [List.all_append, hpl, hxp]; rfl
  | std p b =>
    obtain ⟨row, hrow, hsym, hp⟩ := hg
    subst hsym
    have hparse : atomParse T (p ++ row.sym ++ etxt e) = .ok ⟨1, [(.std p row.sym, e.rebase)]⟩ := by
      unfold atomParse
      rw [numberParts_none_of_symbol T h4 row hrow p _,
        unitParse_complete T h1 h2 h3 h4 row hrow p hp _ _ hx]
    obtain ⟨c, hlast, _⟩ := factF2_prop h2 row hrow
    have hne : p ++ row.sym ++ etxt e ≠ [] := by
      intro h
      have : row.sym = [] := (List.append_eq_nil_iff.mp (List.append_eq_nil_iff.mp h).1).2
      rw [this] at hlast; cases hlast
    have hp' : p.all isPlainChar = true := by
      rcases List.mem_cons.mp hp with rfl | hp'
      · rfl
      · exact (factF7_prop h7).1 p (mem_admPrefixes hp').1
    refine ⟨hparse, ⟨_, rfl, hne, ?_⟩, by simp only [leafOfEntry, evalU, leafVal, hparse]⟩
    rw [List.all_append, List.all_append, hp', (factF7_prop h7).2.1 row hrow, hxp]; rfl

/-! ## the whole `expression`: entries joined by `*` -/

/-- the left-associative product of a first term and further terms -/
def chainAst (a0 : U) (ls : List U) : U := ls.foldl U.mul a0

theorem chainAst_render (a0 : U) (ls : List U) :
    (chainAst a0 ls).render = a0.render ++ ls.flatMap (fun l => '*' :: l.render) := by
  unfold chainAst
  induction ls generalizing a0 with
  | nil => simp
  | cons l t ih => rw [List.foldl_cons, ih]; simp [U.render]

theorem joinMul_cons (t0 : Str) (ts : List Str) :
    joinMul (t0 :: ts) = some (t0 ++ ts.flatMap (fun t => '*' :: t)) := by
  induction ts generalizing t0 with
  | nil => simp [joinMul]
  | cons t1 rest ih =>
    simp only [joinMul, ih t1]
    simp

theorem chainAst_props (a0 : U) (ls : List U) (h0 : a0.leftAssoc = true) (p0 : a0.plainLeaves)
    (hls : ∀ l ∈ ls, l.isOp = false ∧ l.leftAssoc = true ∧ l.plainLeaves) :
    (chainAst a0 ls).leftAssoc = true ∧ (chainAst a0 ls).plainLeaves := by
  unfold chainAst
  induction ls generalizing a0 with
  | nil => exact ⟨h0, p0⟩
  | cons l t ih =>
    obtain ⟨l1, l2, l3⟩ := hls l (by simp)
    rw [List.foldl_cons]
    apply ih
    · simp [U.leftAssoc, h0, l1, l2]
    · exact ⟨p0, l3⟩
    · exact fun x hx => hls x (List.mem_cons_of_mem _ hx)

theorem set_of_not_mem (m : ExpMap) (u : UnitId) (e : Frac) (h : u ∉ m.map (·.1)) :
    m.get u = none ∧ m.set u e = m ++ [(u, e)] := by
  induction m with
  | nil => simp [ExpMap.get, ExpMap.set]
  | cons a t ih =>
    obtain ⟨k, w⟩ := a
    simp only [List.map_cons, List.mem_cons, not_or] at h
    have hk : ¬ k = u := fun e' => h.1 e'.symm
    obtain ⟨i1, i2⟩ := ih h.2
    simp [ExpMap.get, ExpMap.set, hk, i1, i2]

/-- evaluating the chain of entry leaves gives the entries themselves (distinct keys) -/
theorem chainAst_eval (T : Tables) (a0 : U) (m0 : ExpMap) (h0 : evalU T a0 = some ⟨1, m0⟩)
    (es : ExpMap) (hes : ∀ ue ∈ es, evalU T (leafOfEntry ue.1 ue.2) = some ⟨1, [(ue.1, ue.2.rebase)]⟩)
    (hnd : keysNodup (m0 ++ es)) :
    evalU T (chainAst a0 (es.map (fun ue => leafOfEntry ue.1 ue.2))) =
      some ⟨1, m0 ++ es.map (fun ue => (ue.1, ue.2.rebase))⟩ := by
  unfold chainAst
  induction es generalizing a0 m0 with
  | nil => simpa using h0
  | cons x t ih =>
    obtain ⟨u, e⟩ := x
    have hx := hes (u, e) (by simp)
    have hu : u ∉ m0.map (·.1) := by
      unfold keysNodup at hnd
      simp only [List.map_append, List.map_cons] at hnd
      rw [List.nodup_append] at hnd
      intro hmem
      exact hnd.2.2 u hmem u (by simp) rfl
    have hstep : evalU T (U.mul a0 (leafOfEntry u e)) = some ⟨1, m0 ++ [(u, e.rebase)]⟩ := by
      simp only [evalU, h0, hx, Atom.mul, ExpMap.mergeAdd, List.foldl_cons, List.foldl_nil,
        ExpMap.addEntry, (set_of_not_mem m0 u e.rebase hu).1, (set_of_not_mem m0 u e.rebase hu).2]
      simp
    simp only [List.map_cons, List.foldl_cons]
    have := ih (U.mul a0 (leafOfEntry u e)) (m0 ++ [(u, e.rebase)]) hstep
      (fun ue hue => hes ue (List.mem_cons_of_mem _ hue))
      (by
        unfold keysNodup at hnd ⊢
        simpa [List.map_append] using hnd)
    rw [this]
    simp

/-- invariant of the loop of `BaseUnits.__init__`: the expression texts are the texts of the kept
    entries; the kept entries are the non-zero entries of the dict, rebased, in order -/
theorem baseUnitsLoop_shape (T : Tables) (m : ExpMap) (acc b : BaseUnits) (hm : densOk m)
    (h : baseUnitsLoop T m acc = some b) :
    b.entries = acc.entries ++ (m.filter (fun ue => ue.2.num != 0)).map (fun ue => (ue.1, ue.2.rebase)) ∧
    b.expression = acc.expression ++ (m.filter (fun ue => ue.2.num != 0)).map (fun ue => entryText ue.1 ue.2) := by
  induction m generalizing acc with
  | nil =>
    simp only [baseUnitsLoop, Option.some.injEq] at h
    subst h; simp
  | cons x rest ih =>
    obtain ⟨u, e⟩ := x
    have hrest : densOk rest := fun y hy => hm y (List.mem_cons_of_mem _ hy)
    simp only [baseUnitsLoop] at h
    split at h
    · rename_i hz
      obtain ⟨e1, e2⟩ := ih acc hrest h
      simp [e1, e2, hz]
    · rename_i hz
      split at h
      · cases h
      · rename_i base hbase
        obtain ⟨e1, e2⟩ := ih _ hrest h
        have := getUnitBase_expr T u e base hbase
        simp [e1, e2, hz, this]

end SciVerif.C03
