import SciVerif.Lemmas.C07

/-!
Lemmas for C07, part 2: `Magnitude.__init__`, `BaseUnits.__init__`, attribute assignment preserve the
invariant and only extend the heap.
-/
namespace SciVerif.C07

/-- The argument handed to `Magnitude(value, abse)` cannot make the new object keep a reference to an
    existing array: an array is only handed over (or produced) when the value is an array too, in which
    case `np.full_like` copies it. -/
def MagSpec.valid (s : MagSpec) : Bool :=
  match s.err with
  | .pass (.arr _) => s.isArr
  | .fresh true => s.isArr
  | _ => true

theorem ext_of_eq {h h' : Heap} (hn : h.n ≤ h'.n) (hq : ∀ l, l < h.n → h'.q l = h.q l)
    (hm : ∀ l, l < h.n → h'.m l = h.m l) (ha : ∀ l, l < h.n → h'.a l = h.a l)
    (hb : ∀ l, l < h.n → h'.b l = h.b l) (hd : ∀ l, l < h.n → h'.d l = h.d l) : Ext h h' := by
  constructor
  · exact hn
  · intro l hl _; exact hq l hl
  · intro l hl _; exact hm l hl
  · intro l hl _; exact ha l hl
  · exact hb
  · exact hd

theorem allocRef_false (h : Heap) : allocRef h false = (.scalar h.n, { h with n := h.n + 1 }) := rfl
theorem allocRef_true (h : Heap) :
    allocRef h true = (.arr h.n, { h with a := upd h.a h.n h.n, n := h.n + 1 }) := rfl

theorem allocRef_spec {h : Heap} (w : WF h) (isArr : Bool) :
    WF (allocRef h isArr).2 ∧ Ext h (allocRef h isArr).2 ∧
    (allocRef h isArr).2.q = h.q ∧ (allocRef h isArr).2.m = h.m ∧
    (allocRef h isArr).2.b = h.b ∧ (allocRef h isArr).2.d = h.d ∧
    (allocRef h isArr).1.isArr = isArr ∧
    (∀ l, (allocRef h isArr).1 = .arr l →
      (∃ t, (allocRef h isArr).2.a l = some t) ∧ Unref (allocRef h isArr).2 l ∧ h.n ≤ l) := by
  cases isArr
  · rw [allocRef_false]
    refine ⟨w.bump, ext_of_eq (by simp) (fun _ _ => rfl) (fun _ _ => rfl) (fun _ _ => rfl) (fun _ _ => rfl) (fun _ _ => rfl), rfl, rfl, rfl, rfl, rfl, ?_⟩
    intro l hl; cases hl
  · rw [allocRef_true]
    refine ⟨w.allocArr _, ext_of_eq (by simp) (fun _ _ => rfl) (fun _ _ => rfl) ?_ (fun _ _ => rfl) (fun _ _ => rfl), rfl, rfl, rfl, rfl, rfl, ?_⟩
    · intro l hl; exact upd_ne _ _ _ _ (by omega)
    · intro l hl
      cases hl
      refine ⟨⟨h.n, by simp⟩, ?_, Nat.le_refl _⟩
      intro l c f hm hf
      exact w.unref_of_ge (Nat.le_refl _) l c f hm hf

theorem errRef_spec {h : Heap} (w : WF h) (isArr : Bool) (e : ErrArg)
    (hv : MagSpec.valid ⟨isArr, e⟩ = true) :
    WF (errRef h isArr e).2 ∧ Ext h (errRef h isArr e).2 ∧
    (errRef h isArr e).2.q = h.q ∧ (errRef h isArr e).2.m = h.m ∧
    (errRef h isArr e).2.b = h.b ∧ (errRef h isArr e).2.d = h.d ∧
    ((errRef h isArr e).1.isArr = true → isArr = true) ∧
    (∀ l, (errRef h isArr e).1 = .arr l →
      (∃ t, (errRef h isArr e).2.a l = some t) ∧ Unref (errRef h isArr e).2 l ∧ h.n ≤ l) := by
  have base : WF h ∧ Ext h h ∧ h.q = h.q ∧ h.m = h.m ∧ h.b = h.b ∧ h.d = h.d :=
    ⟨w, Frame.refl h, rfl, rfl, rfl, rfl⟩
  have viaAlloc : ∀ b : Bool, (b = true → isArr = true) →
      WF (allocRef h b).2 ∧ Ext h (allocRef h b).2 ∧
      (allocRef h b).2.q = h.q ∧ (allocRef h b).2.m = h.m ∧
      (allocRef h b).2.b = h.b ∧ (allocRef h b).2.d = h.d ∧
      ((allocRef h b).1.isArr = true → isArr = true) ∧
      (∀ l, (allocRef h b).1 = .arr l →
        (∃ t, (allocRef h b).2.a l = some t) ∧ Unref (allocRef h b).2 l ∧ h.n ≤ l) := by
    intro b hb
    obtain ⟨a1, a2, a3, a4, a5, a6, a7, a8⟩ := allocRef_spec w b
    exact ⟨a1, a2, a3, a4, a5, a6, fun hh => hb (by rw [← a7]; exact hh), a8⟩
  match e with
  | .none => exact ⟨base.1, base.2.1, rfl, rfl, rfl, rfl, by simp [errRef, Ref.isArr], by simp [errRef]⟩
  | .fresh arrLike =>
      simp only [errRef]
      apply viaAlloc
      intro hb
      cases isArr <;> cases arrLike <;> simp_all [MagSpec.valid]
  | .pass .none => exact ⟨base.1, base.2.1, rfl, rfl, rfl, rfl, by simp [errRef, Ref.isArr], by simp [errRef]⟩
  | .pass (.scalar t) =>
      cases isArr
      · exact ⟨base.1, base.2.1, rfl, rfl, rfl, rfl, by simp [errRef, Ref.isArr], by simp [errRef]⟩
      · simp only [errRef, if_true]; simpa using viaAlloc true (fun _ => rfl)
  | .pass (.arr l) =>
      cases isArr
      · simp [MagSpec.valid] at hv
      · simp only [errRef, if_true]; simpa using viaAlloc true (fun _ => rfl)

/-- `Magnitude(value, abse)` -/
theorem newMag_spec {h : Heap} (w : WF h) (s : MagSpec) (hv : s.valid = true) :
    WF (newMag h s).2 ∧ Ext h (newMag h s).2 ∧
    (newMag h s).2.q = h.q ∧ (newMag h s).2.b = h.b ∧ (newMag h s).2.d = h.d ∧
    h.n ≤ (newMag h s).1 ∧
    ∃ c, (newMag h s).2.m (newMag h s).1 = some c ∧ c.value.isArr = s.isArr ∧
      (∀ l, c.value = .arr l → h.n ≤ l) := by
  obtain ⟨isArr, e⟩ := s
  obtain ⟨w1, x1, q1, m1, b1, d1, s1, r1⟩ := allocRef_spec w isArr
  obtain ⟨w2, x2, q2, m2, b2, d2, s2, r2⟩ := errRef_spec w1 isArr e hv
  simp only [newMag]
  generalize hA : allocRef h isArr = A at *
  generalize hE : errRef A.2 isArr e = E at *
  have n1 := x1.n_le
  have n2 := x2.n_le
  have wf : WF { E.2 with m := upd E.2.m E.2.n ⟨A.1, E.1⟩, n := E.2.n + 1 } := by
    apply WF.allocMag w2
    · intro f r hf
      cases f
      · simp only [Mag.field, Bool.false_eq_true, if_false] at hf
        exact ⟨(r2 r hf).1, (r2 r hf).2.1⟩
      · simp only [Mag.field, if_true] at hf
        obtain ⟨⟨t, ht⟩, hu, _⟩ := r1 r hf
        have hlt := w1.a_lt r t ht
        refine ⟨⟨t, by rw [x2.a_eq r hlt (by simp)]; exact ht⟩, ?_⟩
        intro l c f hm; rw [m2] at hm; exact hu l c f hm
    · intro r hvr her
      obtain ⟨⟨t, ht⟩, _, _⟩ := r1 r hvr
      have := w1.a_lt r t ht
      have := (r2 r her).2.2
      omega
    · intro r her
      have := s2 (by have h0 : E.1 = .arr r := her; rw [h0]; rfl)
      rw [s1]; exact this
  refine ⟨wf, ?_, ?_, ?_, ?_, ?_, ⟨⟨A.1, E.1⟩, by simp, s1, fun l hl => (r1 l hl).2.2⟩⟩
  · apply ext_of_eq
    · simp; omega
    · intro l _; show E.2.q l = h.q l; rw [q2, q1]
    · intro l hl
      show upd E.2.m E.2.n _ l = h.m l
      rw [upd_ne _ _ _ _ (by omega), m2, m1]
    · intro l hl
      show E.2.a l = h.a l
      rw [x2.a_eq l (by omega) (by simp), x1.a_eq l hl (by simp)]
    · intro l _; show E.2.b l = h.b l; rw [b2, b1]
    · intro l _; show E.2.d l = h.d l; rw [d2, d1]
  · show E.2.q = h.q; rw [q2, q1]
  · show E.2.b = h.b; rw [b2, b1]
  · show E.2.d = h.d; rw [d2, d1]
  · show h.n ≤ E.2.n; omega

end SciVerif.C07
