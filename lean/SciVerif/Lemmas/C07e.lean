import SciVerif.Lemmas.C07d

/-!
Lemmas for C07, part 5: every operation of the library compiles to a *valid* description (this is where
the shape invariant "error array only with value array" is used), hence `step` preserves the invariant
and has the frame of its kind.
-/
namespace SciVerif.C07

theorem magOf_some {h : Heap} {x ml : Nat} {c : Mag} (e : magOf h x = some (ml, c)) :
    ∃ qc, h.q x = some qc ∧ qc.mag = ml ∧ h.m ml = some c := by
  unfold magOf at e
  split at e
  · rename_i qc hq
    split at e
    · rename_i mc hm
      simp only [Option.some.injEq, Prod.mk.injEq] at e
      obtain ⟨e1, e2⟩ := e
      subst e1; subst e2
      exact ⟨qc, hq, rfl, hm⟩
    · cases e
  · cases e

theorem buOf_some {h : Heap} {x b : Nat} (e : buOf h x = some b) : ∃ qc, h.q x = some qc ∧ qc.bu = b := by
  unfold buOf at e
  cases hq : h.q x with
  | none => simp [hq] at e
  | some qc => simp [hq] at e; exact ⟨qc, rfl, e⟩

theorem WF.bu_ok_of {h : Heap} (w : WF h) {x b : Nat} (e : buOf h x = some b) : ∃ bc, h.b b = some bc := by
  obtain ⟨qc, hq, rfl⟩ := buOf_some e
  exact (w.q_ok x qc hq).2

theorem WF.shapedB {h : Heap} (w : WF h) {x ml : Nat} {c : Mag} (e : magOf h x = some (ml, c)) :
    c.error.isArr = true → c.value.isArr = true := by
  obtain ⟨qc, _, _, hm⟩ := magOf_some e
  intro he
  cases hce : c.error with
  | arr r => exact w.shaped ml c r hm hce
  | none => rw [hce] at he; cases he
  | scalar t => rw [hce] at he; cases he

theorem valid_scaled (s : MagSpec) (he : Bool) (hv : s.valid = true) :
    (∀ t ∈ (scaled s he).1, t.valid = true) ∧ (scaled s he).2.valid = true ∧
    (scaled s he).2.isArr = s.isArr := by
  refine ⟨?_, ?_, rfl⟩
  · intro t ht
    simp only [scaled, List.mem_cons, List.not_mem_nil, or_false] at ht
    rcases ht with rfl | rfl
    · exact hv
    · rfl
  · cases he <;> cases hs : s.isArr <;> simp [scaled, MagSpec.valid, hs]

theorem valid_scaledK (s : MagSpec) (he : Bool) (hv : s.valid = true) (k : Nat) :
    (∀ t ∈ (scaledK s he k).1, t.valid = true) ∧ (scaledK s he k).2.valid = true := by
  induction k with
  | zero => exact ⟨by simp [scaledK], hv⟩
  | succ k ih =>
    obtain ⟨h1, h2, _⟩ := valid_scaled (scaledK s he k).2 he ih.2
    refine ⟨?_, h2⟩
    intro t ht
    simp only [scaledK, List.mem_append] at ht
    rcases ht with ht | ht
    · exact ih.1 t ht
    · exact h1 t ht

theorem valid_initTail {h : Heap} (f : Facts) (s : Spec) (he : Bool) (hv : s.valid h) :
    (initTail f s he).valid h := by
  obtain ⟨v1, v2, v3, v4, v5⟩ := hv
  unfold initTail
  cases f.nodim
  · exact ⟨v1, v2, v3, v4, v5⟩
  · obtain ⟨k1, k2⟩ := valid_scaledK s.final he v2 f.k
    simp only [if_true]
    refine ⟨?_, k2, ?_, trivial, v5⟩
    · intro t ht
      simp only [List.mem_append] at ht
      rcases ht with ht | ht
      · exact v1 t ht
      · exact k1 t ht
    · intro b hb
      simp only [List.mem_append] at hb
      rcases hb with hb | hb
      · exact v3 b hb
      · cases hbu : s.bu with
        | share x => simp [hbu] at hb
        | fresh => simp [hbu] at hb; subst hb; trivial
        | aliasDict x => simp [hbu] at hb; subst hb; rw [hbu] at v4; exact v4

/-- validity of the Magnitude arguments: everything is decided by the shapes -/
theorem valid_conv (f : Facts) (c : Mag) (hs : c.error.isArr = true → c.value.isArr = true) :
    MagSpec.valid ⟨c.value.isArr, convErr f c.error⟩ = true := by
  cases hce : c.error <;> cases hv : c.value.isArr <;> cases hl : f.linear <;>
    simp_all [MagSpec.valid, convErr, Ref.isNone, Ref.isArr]

theorem valid_ofRef (c : Mag) (hs : c.error.isArr = true → c.value.isArr = true) :
    MagSpec.valid ⟨c.value.isArr, .ofRef c.error⟩ = true := by
  cases hce : c.error <;> cases hv : c.value.isArr <;>
    simp_all [MagSpec.valid, ErrArg.ofRef, Ref.isNone, Ref.isArr]

theorem valid_sum (f : Facts) (ca cb : Mag) (hsa : ca.error.isArr = true → ca.value.isArr = true)
    (hsb : cb.error.isArr = true → cb.value.isArr = true) :
    MagSpec.valid ⟨ca.value.isArr || cb.value.isArr,
      sumErr (.ofRef ca.error) (convErr f cb.error) ca.error.isArr cb.error.isArr⟩ = true := by
  cases hce : ca.error <;> cases hv : ca.value.isArr <;> cases hcb : cb.error <;>
    cases hvb : cb.value.isArr <;> cases hl : f.linear <;>
    simp_all [MagSpec.valid, convErr, sumErr, ErrArg.ofRef, Ref.isNone, Ref.isArr]

theorem valid_fresh_or (x y : Bool) (e1 e2 : Bool) (h1 : e1 = true → x = true) (h2 : e2 = true → y = true)
    (he : Bool) :
    MagSpec.valid ⟨x || y, if he then .fresh (e1 || e2) else .none⟩ = true := by
  cases x <;> cases y <;> cases e1 <;> cases e2 <;> cases he <;> simp_all [MagSpec.valid]

theorem valid_none (x : Bool) : MagSpec.valid ⟨x, .none⟩ = true := rfl

theorem spec_valid_mk {h : Heap} {s : Spec}
    (h1 : ∀ t ∈ s.temps, t.valid = true) (h2 : s.final.valid = true) (h3 : ∀ b ∈ s.tempBUs, b.ok h)
    (h4 : s.bu.ok h) (h5 : ∀ x, s.kind = .assign x → ∃ c, h.q x = some c) : s.valid h :=
  ⟨h1, h2, h3, h4, h5⟩

theorem spec_valid_empty (h : Heap) : Spec.valid h {} := by
  refine ⟨by simp, rfl, by simp, trivial, by simp⟩

end SciVerif.C07
