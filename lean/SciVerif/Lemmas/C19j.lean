import SciVerif.Lemmas.C19i
/-!
# C19 — Bash files of scalars and one-dimensional arrays: `readBash (exportBash data) = expected data`
-/
namespace SciVerif.C19

/-! ## words -/

/-- text without any character that is special inside double quotes -/
def dqPlain (t : Str) : Bool := t.all (fun c => c ≠ '"' ∧ c ≠ '\\' ∧ c ≠ '$' ∧ c ≠ '`')

theorem bashDq_plain : ∀ (t rest : Str), dqPlain t = true → bashDqGo false (t ++ '"' :: rest) = some (t, rest)
  | [], rest, _ => by simp [bashDqGo]
  | c :: t, rest, h => by
    simp [dqPlain] at h
    obtain ⟨⟨h1, h2, h3, h4⟩, ht⟩ := h
    have ih := bashDq_plain t rest (by simpa [dqPlain] using ht)
    simp [bashDqGo, h1, h2, h3, h4, ih]

theorem floatChar_bare (ch : Char) (h : floatChar ch = true) : bashSafeBare ch = true := by
  simp only [floatChar, decide_eq_true_eq] at h
  simp only [bashSafeBare, decide_eq_true_eq]
  rcases h with h | h | h | h | h
  · exact Or.inl h
  · subst h; decide
  · subst h; decide
  · subst h; decide
  · subst h; decide

theorem floatChar_dqPlain (t : Str) (h : ∀ ch ∈ t, floatChar ch = true) : dqPlain t = true := by
  simp only [dqPlain, List.all_eq_true]
  intro ch hch
  have := h ch hch
  simp only [decide_eq_true_eq]
  refine ⟨?_, ?_, ?_, ?_⟩ <;> (intro e; subst e; revert this; decide)

/-- the text of a non-string scalar: digits, sign, `.`, `e` only -/
theorem bashScalar_floatChars (k : Kind) (s : Scalar) (hk : ScalarOK k s) (hns : ∀ v, s ≠ .s v) :
    (∀ ch ∈ bashScalar s, floatChar ch = true) ∧ bashScalar s ≠ [] ∧ bashScalar s = bashValueText s := by
  cases s with
  | s v => exact absurd rfl (hns v)
  | b v => cases v <;> (refine ⟨by decide, by decide, rfl⟩)
  | i v => exact ⟨showInt_floatChars v, showInt_ne_nil v, rfl⟩
  | f t => exact ⟨fun ch hch => List.all_eq_true.mp hk.2.2 ch hch, hk.2.1, rfl⟩

/-- one scalar value as Bash reads the word after `NAME=` -/
theorem bashWordValue_bashScalar (k : Kind) (s : Scalar) (hk : ScalarOK k s) :
    bashWordValue (bashScalar s) = some (bashValueText s) := by
  cases s with
  | s v => exact bashWordValue_scalar v
  | b v => cases v <;> decide
  | i v =>
    obtain ⟨hc, hne, _⟩ := bashScalar_floatChars k (.i v) hk (by intro v h; cases h)
    have hall : (showInt v).all bashSafeBare = true :=
      List.all_eq_true.mpr (fun ch hch => floatChar_bare ch (hc ch hch))
    obtain ⟨c, cs, hcs, _⟩ : ∃ c cs, showInt v = c :: cs ∧ True := by
      cases h : showInt v with
      | nil => exact absurd h hne
      | cons c cs => exact ⟨c, cs, rfl, trivial⟩
    have hq : c ≠ '"' := by
      have := hc c (by simp [bashScalar, hcs])
      intro e; subst e; revert this; decide
    simp only [bashScalar, bashValueText] at hall ⊢
    rw [hcs] at hall ⊢
    unfold bashWordValue
    split
    · rename_i heq; simp at heq; exact absurd heq.1 hq
    · simp [hall]
  | f t =>
    obtain ⟨_, hne, hallf⟩ := hk
    have hc : ∀ ch ∈ t, floatChar ch = true := fun ch hch => List.all_eq_true.mp hallf ch hch
    have hall : t.all bashSafeBare = true := List.all_eq_true.mpr (fun ch hch => floatChar_bare ch (hc ch hch))
    cases ht : t with
    | nil => exact absurd ht hne
    | cons c cs =>
      have hq : c ≠ '"' := by
        have := hc c (by simp [ht])
        intro e; subst e; revert this; decide
      simp only [bashScalar, bashValueText]
      rw [ht] at hall
      unfold bashWordValue
      split
      · rename_i heq; simp at heq; exact absurd heq.1 hq
      · simp [hall]

/-- one array element as a double-quoted word -/
theorem bashDq_bashWord (k : Kind) (s : Scalar) (hk : ScalarOK k s) (rest : Str) :
    ∃ body, bashWord (.leaf s) = '"' :: body ++ ['"'] ∧
      bashDqGo false (body ++ '"' :: rest) = some (bashValueText s, rest) := by
  cases s with
  | s v => exact ⟨bashEsc v, rfl, bashDq_esc v rest⟩
  | b v =>
    obtain ⟨hc, _, he⟩ := bashScalar_floatChars k (.b v) hk (by intro v h; cases h)
    exact ⟨bashScalar (.b v), rfl, by rw [← he]; exact bashDq_plain _ rest (floatChar_dqPlain _ hc)⟩
  | i v =>
    obtain ⟨hc, _, he⟩ := bashScalar_floatChars k (.i v) hk (by intro v h; cases h)
    exact ⟨bashScalar (.i v), rfl, by rw [← he]; exact bashDq_plain _ rest (floatChar_dqPlain _ hc)⟩
  | f t =>
    obtain ⟨hc, _, he⟩ := bashScalar_floatChars k (.f t) hk (by intro v h; cases h)
    exact ⟨bashScalar (.f t), rfl, by rw [← he]; exact bashDq_plain _ rest (floatChar_dqPlain _ hc)⟩

/-- the words of a one-dimensional array -/
theorem bashWords_join (k : Kind) : ∀ (ss : List Scalar) (fuel : Nat), ss ≠ [] → ss.length < fuel →
    (∀ s ∈ ss, ScalarOK k s) →
    bashWords fuel (joinWith [' '] ((ss.map Tree.leaf).map bashWord)) = some (ss.map bashValueText)
  | [], _, h, _, _ => absurd rfl h
  | [s], fuel, _, hf, hk => by
    cases fuel with
    | zero => simp at hf
    | succ f =>
      obtain ⟨body, hb, hd⟩ := bashDq_bashWord k s (hk s (by simp)) []
      simp only [List.map_cons, List.map_nil, joinWith, hb, List.cons_append, bashWords, bashDq]
      simp [hd]
  | s :: t :: ss, fuel, _, hf, hk => by
    cases fuel with
    | zero => simp at hf
    | succ f =>
      have ih := bashWords_join k (t :: ss) f (by simp) (by simp at hf ⊢; omega) (fun x hx => hk x (by simp [hx]))
      obtain ⟨body, hb, hd⟩ := bashDq_bashWord k s (hk s (by simp))
        (' ' :: joinWith [' '] (((t :: ss).map Tree.leaf).map bashWord))
      simp only [List.map_cons, joinWith, hb, List.cons_append, List.append_assoc, List.nil_append, bashWords, bashDq] at ih ⊢
      simp only [List.map_cons] at hd
      rw [hd]
      simp only [ih, Option.map_some]

/-! ## one line `[export ]NAME=…` -/

/-- a prefix that contains a blank but no `=` is never a prefix of `NAME=…` -/
theorem noPrefix : ∀ (pre name w : Str), (∀ ch ∈ name, ch ≠ ' ') → ' ' ∈ pre → '=' ∉ pre →
    dropPrefix? pre (name ++ '=' :: w) = none
  | [], _, _, _, h, _ => by simp at h
  | a :: pre, [], w, _, _, he => by
    have : a ≠ '=' := fun e => he (by simp [e])
    simp [dropPrefix?, this]
  | a :: pre, c :: name, w, hn, hs, he => by
    by_cases e : a = c
    · subst e
      have ha : a ≠ ' ' := hn a (by simp)
      have hs' : ' ' ∈ pre := by
        rcases List.mem_cons.mp hs with h | h
        · exact absurd h.symm ha
        · exact h
      have ih := noPrefix pre name w (fun ch hch => hn ch (by simp [hch])) hs' (fun h => he (by simp [h]))
      simpa [dropPrefix?] using ih
    · simp [dropPrefix?, e]

def exportWord (exp : Bool) : Str := if exp then cs!"export " else []

theorem bashNameChar_ne (ch : Char) (h : bashNameChar ch = true) : ch ≠ '=' ∧ ch ≠ '[' ∧ ch ≠ ' ' := by
  simpa [bashNameChar] using h

theorem bashHead_assign (exp : Bool) (name w : Str) (hn : ∀ ch ∈ name, bashNameChar ch = true) :
    dropPrefix? (cs!"declare -A ") (exportWord exp ++ (name ++ '=' :: w)) = none ∧
    bashHead (exportWord exp ++ (name ++ '=' :: w)) = (exp, name, '=' :: w) := by
  have hsp : ∀ ch ∈ name, ch ≠ ' ' := fun ch hch => (bashNameChar_ne ch (hn ch hch)).2.2
  have hspan : (name ++ '=' :: w).span bashNameChar = (name, '=' :: w) := by
    apply span_stop
    · exact hn
    · intro x r e; simp at e; simp [← e.1, bashNameChar]
  refine ⟨?_, ?_⟩
  · cases exp
    · simpa [exportWord] using noPrefix (cs!"declare -A ") name w hsp (by decide) (by decide)
    · simp [exportWord, dropPrefix?]
  · cases exp
    · have := noPrefix (cs!"export ") name w hsp (by decide) (by decide)
      simp only [bashHead, exportWord, Bool.false_eq_true, if_false, List.nil_append, this, hspan]
    · have := dropPrefix_append (cs!"export ") (name ++ '=' :: w)
      simp only [bashHead, exportWord, if_true, this, hspan]

/-- a scalar parameter's line -/
theorem readBashLine_scalar (acc : List BSym) (exp : Bool) (name : Str) (k : Kind) (s : Scalar)
    (hn : ∀ ch ∈ name, bashNameChar ch = true) (hk : ScalarOK k s) :
    readBashLine acc (exportWord exp ++ (name ++ '=' :: bashScalar s)) =
      some (acc ++ [⟨name, .scalar, exp, [([], bashValueText s)]⟩]) := by
  obtain ⟨h1, h2⟩ := bashHead_assign exp name (bashScalar s) hn
  have hv := bashWordValue_bashScalar k s hk
  have hpar : ∀ r, bashScalar s ≠ '(' :: r := by
    intro r e
    cases s with
    | s v => simp [bashScalar] at e
    | b v => cases v <;> simp [bashScalar] at e
    | i v =>
      have := showInt_floatChars v '(' (by simp [bashScalar] at e; rw [e]; simp)
      revert this; decide
    | f t =>
      have := List.all_eq_true.mp hk.2.2 '(' (by simp [bashScalar] at e; rw [e]; simp)
      revert this; decide
  simp only [readBashLine, h1, h2, readBashTail]
  unfold readBashValue
  split
  · rename_i r heq; exact absurd heq (hpar r)
  · simp [hv]

theorem bashWord_length (s : Scalar) : 1 ≤ (bashWord (.leaf s)).length := by
  cases s <;> simp [bashWord, bashScalar]

/-- every word has at least one character: the text is at least as long as the number of words -/
theorem words_length_le : ∀ (l : List Scalar), l.length ≤ (joinWith [' '] ((l.map Tree.leaf).map bashWord)).length
  | [] => by simp
  | [a] => by
    have := bashWord_length a
    simpa [joinWith] using this
  | a :: c :: l => by
    have ih := words_length_le (c :: l)
    simp only [List.map_cons, joinWith, List.length_append, List.length_cons] at ih ⊢
    omega

/-- a one-dimensional array's line -/
theorem readBashLine_array (acc : List BSym) (exp : Bool) (name : Str) (k : Kind) (ss : List Scalar)
    (hn : ∀ ch ∈ name, bashNameChar ch = true) (hne : ss ≠ []) (hk : ∀ s ∈ ss, ScalarOK k s) :
    readBashLine acc (exportWord exp ++ (name ++ '=' :: '(' ::
        (joinWith [' '] ((ss.map Tree.leaf).map bashWord) ++ [')']))) =
      some (acc ++ [⟨name, .indexed, exp, enumFrom 0 (ss.map bashValueText)⟩]) := by
  obtain ⟨h1, h2⟩ := bashHead_assign exp name ('(' :: (joinWith [' '] ((ss.map Tree.leaf).map bashWord) ++ [')'])) hn
  have hw := bashWords_join k ss ((joinWith [' '] ((ss.map Tree.leaf).map bashWord)).length + 1) hne
    (by have := words_length_le ss; omega) hk
  simp only [readBashLine, h1, h2, readBashTail, readBashValue, dropLastChar_snoc, hw, Option.map_some]

/-! ## whole files of scalars and one-dimensional arrays -/

/-- the parameters the theorem covers: scalars and non-empty one-dimensional arrays (arrays of rank
    two and more are written as associative arrays over several lines: correspondence only) -/
def ParamOKBash (ren : Bool) (p : Param) : Prop :=
  (∀ ch ∈ rename ren p.name, bashNameChar ch = true) ∧ clean (rename ren p.name) = true ∧ NoNL p.value ∧
  ((∃ s, p.value = .leaf s ∧ ScalarOK p.kind s) ∨
   (∃ ss : List Scalar, ss ≠ [] ∧ p.value = .arr (ss.map Tree.leaf) ∧ ∀ s ∈ ss, ScalarOK p.kind s))

/-- the one line `ExportConfigBash.parse` writes for such a parameter -/
def lineBash1 (exp ren : Bool) (p : Param) : Str :=
  match p.value with
  | .leaf s => exportWord exp ++ (rename ren p.name ++ '=' :: bashScalar s)
  | .arr vs => exportWord exp ++ (rename ren p.name ++ '=' :: '(' :: (joinWith [' '] (vs.map bashWord) ++ [')']))

/-- the symbol the property demands for a parameter -/
def bashSymOf (exp ren : Bool) (p : Param) : BSym :=
  ⟨rename ren p.name,
   (match shapeOf p.value with
    | some [] => BKind.scalar
    | some [_] => BKind.indexed
    | _ => BKind.assoc), exp, bashItems [] p.value⟩

theorem expectedBash_eq (exp ren : Bool) (data : List Param) :
    expectedBash exp ren data = data.map (bashSymOf exp ren) := rfl

theorem shapeLast_leaves : ∀ ss : List Scalar, ss ≠ [] → shapeLast (ss.map Tree.leaf) = some []
  | [], h => absurd rfl h
  | [s], _ => by simp [shapeLast, shapeOf]
  | s :: t :: ss, _ => by
    have ih := shapeLast_leaves (t :: ss) (by simp)
    simpa [shapeLast] using ih

theorem shapeOf_leaves (ss : List Scalar) (h : ss ≠ []) : shapeOf (.arr (ss.map Tree.leaf)) = some [ss.length] := by
  simp [shapeOf, shapeLast_leaves ss h]

theorem bashItemsList_leaves : ∀ (ss : List Scalar) (i : Nat),
    bashItemsList [] i (ss.map Tree.leaf) = enumFrom i (ss.map bashValueText)
  | [], _ => by simp [bashItemsList, enumFrom]
  | s :: ss, i => by
    simp [bashItemsList, bashItems, enumFrom, bashItemsList_leaves ss (i + 1), commaNats, joinWith]

theorem lineBash_flat (exp ren : Bool) (p : Param) (hok : ParamOKBash ren p) :
    lineBash exp ren p = some [lineBash1 exp ren p] := by
  obtain ⟨_, _, _, h | h⟩ := hok
  · obtain ⟨s, hs, _⟩ := h
    simp [lineBash, lineBash1, hs, exportWord]
  · obtain ⟨ss, hne, hs, _⟩ := h
    have hsh := shapeOf_leaves ss hne
    rw [← hs] at hsh
    simp only [lineBash, lineBash1, hs] at hsh ⊢
    simp [hsh, exportWord]

theorem readBashLine_line1 (exp ren : Bool) (p : Param) (hok : ParamOKBash ren p) (acc : List BSym) :
    readBashLine acc (lineBash1 exp ren p) = some (acc ++ [bashSymOf exp ren p]) := by
  obtain ⟨hn, _, _, h | h⟩ := hok
  · obtain ⟨s, hs, hk⟩ := h
    have := readBashLine_scalar acc exp (rename ren p.name) p.kind s hn hk
    simp only [lineBash1, bashSymOf, hs, shapeOf, bashItems, commaNats, List.map_nil, joinWith]
    exact this
  · obtain ⟨ss, hne, hs, hk⟩ := h
    have := readBashLine_array acc exp (rename ren p.name) p.kind ss hn hne hk
    have hsh := shapeOf_leaves ss hne
    simp only [lineBash1, bashSymOf, hs, hsh, bashItems, bashItemsList_leaves]
    exact this

theorem foldlM_lines (exp ren : Bool) : ∀ (data : List Param) (acc : List BSym),
    (∀ p ∈ data, ParamOKBash ren p) →
    (data.map (lineBash1 exp ren)).foldlM readBashLine acc = some (acc ++ data.map (bashSymOf exp ren))
  | [], acc, _ => by simp
  | p :: ps, acc, h => by
    have h1 := readBashLine_line1 exp ren p (h p (by simp)) acc
    have ih := foldlM_lines exp ren ps (acc ++ [bashSymOf exp ren p]) (fun q hq => h q (by simp [hq]))
    simp [List.foldlM_cons, h1, ih]

theorem mapM_all_some {α β : Type} (f : α → Option β) (g : α → β) : ∀ data : List α,
    (∀ p ∈ data, f p = some (g p)) → data.mapM f = some (data.map g)
  | [], _ => rfl
  | p :: ps, h => by
    simp [List.mapM_cons, h p (by simp), mapM_all_some f g ps (fun q hq => h q (by simp [hq]))]

/-! cleanliness of the lines -/

theorem clean_bashEscChar (x : Char) (h : x ≠ '\n') : clean (bashEscChar x) = true := by
  simp only [bashEscChar]; (repeat' split) <;> simp [clean, h]

theorem clean_bashEsc : ∀ v : Str, clean v = true → clean (bashEsc v) = true
  | [], _ => rfl
  | x :: v, h => by
    rw [clean_cons] at h
    simp at h
    rw [bashEsc_cons, clean_append, clean_bashEscChar x h.1, clean_bashEsc v h.2]
    rfl

theorem clean_bashScalar (k : Kind) (s : Scalar) (hk : ScalarOK k s) (hn : NoNL (.leaf s)) :
    clean (bashScalar s) = true := by
  cases s with
  | s v =>
    have hv : clean v = true := hn
    simp [bashScalar, clean_cons, clean_append, clean_bashEsc v hv, clean_nil]
  | b v => cases v <;> decide
  | i v => exact clean_showInt v
  | f t => exact clean_of_floatChars t (fun ch hch => List.all_eq_true.mp hk.2.2 ch hch)

theorem clean_bashWord (k : Kind) (s : Scalar) (hk : ScalarOK k s) (hn : NoNL (.leaf s)) :
    clean (bashWord (.leaf s)) = true := by
  have := clean_bashScalar k s hk hn
  cases s <;> simp_all [bashWord, clean_cons, clean_append, clean_nil]

theorem NoNLs_leaves : ∀ ss : List Scalar, NoNLs (ss.map Tree.leaf) → ∀ s ∈ ss, NoNL (.leaf s)
  | [], _, s, hs => by simp at hs
  | t :: ss, h, s, hs => by
    simp only [List.map_cons, NoNLs] at h
    rcases List.mem_cons.mp hs with rfl | hs
    · exact h.1
    · exact NoNLs_leaves ss h.2 s hs

theorem lineBash1_clean (exp ren : Bool) (p : Param) (hok : ParamOKBash ren p) :
    clean (lineBash1 exp ren p) = true ∧ lineBash1 exp ren p ≠ [] := by
  obtain ⟨_, hcn, hnl, h | h⟩ := hok
  · obtain ⟨s, hs, hk⟩ := h
    rw [hs] at hnl
    have := clean_bashScalar p.kind s hk hnl
    refine ⟨?_, ?_⟩
    · cases exp <;> simp [lineBash1, hs, exportWord, clean_append, clean_cons, hcn, this]
    · cases exp <;> simp [lineBash1, hs, exportWord]
  · obtain ⟨ss, _, hs, hk⟩ := h
    rw [hs] at hnl
    have hl := NoNLs_leaves ss (by simpa [NoNL] using hnl)
    have hw : clean (joinWith [' '] (ss.map (bashWord ∘ Tree.leaf))) = true :=
      clean_joinWith _ (by decide) _ (by
        intro l hl2
        simp only [List.mem_map, Function.comp] at hl2
        obtain ⟨s, hs2, rfl⟩ := hl2
        exact clean_bashWord p.kind s (hk s hs2) (hl s hs2))
    refine ⟨?_, ?_⟩
    · cases exp <;> simp [lineBash1, hs, exportWord, clean_append, clean_cons, clean_nil, hcn, hw]
    · cases exp <;> simp [lineBash1, hs, exportWord]

/-- **whole Bash files** of scalars and one-dimensional arrays -/
theorem readBash_exportBash (exp ren : Bool) (data : List Param) (hok : ∀ p ∈ data, ParamOKBash ren p) :
    (exportBash exp ren data).bind readBash = some (expectedBash exp ren data) := by
  have hm := mapM_all_some (lineBash exp ren) (fun p => [lineBash1 exp ren p]) data
    (fun p hp => lineBash_flat exp ren p (hok p hp))
  have hflat : ∀ l : List Param, (l.map (fun p => [lineBash1 exp ren p])).flatten = l.map (lineBash1 exp ren) := by
    intro l
    induction l with
    | nil => rfl
    | cons p ps ih => simp [ih]
  simp only [exportBash, hm, Option.bind_eq_bind, Option.bind_some, hflat data, expectedBash_eq]
  cases data with
  | nil => simp [joinWith, readBash]
  | cons p ps =>
    have hall : ∀ l ∈ (p :: ps).map (lineBash1 exp ren), clean l = true ∧ l ≠ [] := by
      intro l hl
      obtain ⟨q, hq, rfl⟩ := List.mem_map.mp hl
      exact lineBash1_clean exp ren q (hok q hq)
    have hne : joinWith ['\n'] ((p :: ps).map (lineBash1 exp ren)) ≠ [] :=
      joinWith_ne_nil _ _ ⟨lineBash1 exp ren p, by simp, (hall _ (by simp)).2⟩
    have hl := lines_joinWith ((p :: ps).map (lineBash1 exp ren)) (by simp)
      (fun x hx => (clean_iff x).mp (hall x hx).1)
    have hf := foldlM_lines exp ren (p :: ps) [] hok
    simp only [readBash, hne, if_false, hl, hf, List.nil_append]

end SciVerif.C19
