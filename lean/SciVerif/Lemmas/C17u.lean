import SciVerif.Lemmas.C17t

/-! Refinement (C17), part 4: simulation of every statement form of the fragment and of runs. -/
namespace SciVerif.C17

theorem fresh_of_any (env : Env) (path : List Str) (hp : WFPath path)
    (hno : (absEnv env).nodes.any (fun n => decide (n.path = path)) = false) :
    ∀ t ∈ env.nodes, t.name ≠ joinDot path := by
  intro t ht e
  have : (absEnv env).nodes.any (fun n => decide (n.path = path)) = true := by
    simp only [absEnv, List.any_map, List.any_eq_true]
    exact ⟨t, ht, by simp [Function.comp, absN, e, splitDot_joinDot path hp]⟩
  rw [this] at hno
  cases hno

/-- the host line of a definition (literal or injected value), once its raw value is known -/
def hostNode (path : List Str) (kw : Kw) (dims : List Dim) (raw : Val) (ref : Option Str)
    (sl : List Sl) (unit' : Option Str) : Node :=
  { blank (joinDot path) kw with dims := dims, raw := some raw, ref := ref, slice := sl, unitsRaw := unit' }

theorem def_core (tbl : UnitTable) (env : Env) (hinv : Inv tbl env) (path : List Str) (kw : Kw)
    (dims : List Dim) (raw : Val) (ref : Option Str) (sl : List Sl) (unit' : Option Str) (v' : Val)
    (hp : WFPath path) (hk : isTyped kw = true) (hu : unitOk tbl kw unit' = true)
    (hint : kw = .int → unit' = none)
    (hno : (absEnv env).nodes.any (fun n => decide (n.path = path)) = false)
    (hcast : castValue (hostNode path kw dims raw ref sl unit') raw = some v')
    (hconf : conforms kw dims v' = some v') :
    ∃ env', processNode tbl env (hostNode path kw dims raw ref sl unit') = .ok env' ∧
      absEnv env' = { absEnv env with nodes := (absEnv env).nodes ++
        [⟨path, kw, dims, unit', some v', false, none, none, [], [], none⟩] } ∧ Inv tbl env' := by
  have hfresh := fresh_of_any env path hp hno
  have hpn := processNode_append tbl env (hostNode path kw dims raw ref sl unit') raw v' rfl hk hu rfl rfl hcast
    (fun t ht => hfresh t ht)
  refine ⟨_, hpn, ?_, ?_⟩
  · simp [absEnv, absN, hostNode, blank, splitDot_joinDot path hp]
  · refine ⟨?_, hinv.2⟩
    intro n hn
    simp only [List.mem_append, List.mem_singleton] at hn
    rcases hn with hn | rfl
    · exact hinv.1 n hn
    · exact ⟨hk, ⟨v', rfl, hconf⟩, rfl, hu, hint⟩

/-- the line of a modification, once its raw value is known -/
def modNode (path : List Str) (raw : Val) (ref : Option Str) (unit' : Option Str) : Node :=
  { blank (joinDot path) .mod with raw := some raw, ref := ref, unitsRaw := unit' }

theorem mod_core (tbl : UnitTable) (env : Env) (hinv : Inv tbl env) (path : List Str) (raw : Val)
    (ref : Option Str) (unit' : Option Str) (ss' : List SNode) (hp : WFPath path)
    (h : sUpdate path (specModF tbl raw unit') (absEnv env).nodes = some ss') :
    ∃ env', processNode tbl env (modNode path raw ref unit') = .ok env' ∧
      absEnv env' = { absEnv env with nodes := ss' } ∧ Inv tbl env' := by
  have hname : splitDot ({ modNode path raw ref unit' with value := some raw } : Node).name = path := by
    simp [modNode, blank, splitDot_joinDot path hp]
  have h' : sUpdate (splitDot ({ modNode path raw ref unit' with value := some raw } : Node).name)
      (specModF tbl raw ({ modNode path raw ref unit' with value := some raw } : Node).unitsRaw)
      (env.nodes.map absN) = some ss' := by
    rw [hname]; exact h
  obtain ⟨ns', hmf, habs, hgood⟩ := modifyFirst_abs tbl { modNode path raw ref unit' with value := some raw } raw
    env.nodes ss' _ (fun t _ s' hs => ⟨hs, Or.inl rfl⟩) hinv.1 rfl h'
  have hpn := processNode_mod tbl env (modNode path raw ref unit') raw ns' rfl rfl rfl hmf
  refine ⟨_, hpn, ?_, ⟨hgood, hinv.2⟩⟩
  simp [absEnv, habs]

theorem injectValue_none (env : Env) (n : Node) (h : n.ref = none) : injectValue env n = .ok n := by
  simp [injectValue, h]

theorem injectValue_ref (env : Env) (n src : Node) (r : Str) (hr : n.ref = some r)
    (hreq : request env r .one = .ok [src]) :
    injectValue env n = .ok { n with raw := rawValue src, unitsRaw := pickUnit n.unitsRaw src.unitsRaw } := by
  simp [injectValue, hr, hreq]

theorem rawValue_rename (q : Query) (src : Node) : rawValue (qRename q src) = rawValue src ∧
    (qRename q src).unitsRaw = src.unitsRaw := by
  cases q <;> simp [qRename, rawValue]

theorem step_node (tbl : UnitTable) (env : Env) (n n' : Node) (hk : n.kw ≠ .imp)
    (hi : injectValue env n = .ok n') : step tbl env (.node n) = processNode tbl env n' := by
  simp [step, hk, hi]

theorem pickUnit_none (u : Option Str) : pickUnit u none = u := by cases u <;> rfl

/-- a definition: whenever the specification accepts it, so does the main loop, with the
    abstraction of the new state equal to the specification's -/
theorem refine_defn (tbl : UnitTable) (env : Env) (hinv : Inv tbl env) (path : List Str) (kw : Kw)
    (dims : List Dim) (sv : SVal) (unit : Option Str) (item : Item) (s' : SEnv)
    (hfrag : InFrag (absEnv env) (.defn path kw dims sv unit))
    (hc : conc (.defn path kw dims sv unit) = some item)
    (h : sStep tbl (absEnv env) (.defn path kw dims sv unit) = .ok s') :
    ∃ env', step tbl env item = .ok env' ∧ absEnv env' = s' ∧ Inv tbl env' := by
  obtain ⟨hp, hk, hintg, hsv⟩ := hfrag
  have hkimp : kw ≠ .imp := by intro e; rw [e] at hk; simp [isTyped] at hk
  simp only [sStep] at h
  cases hno : (absEnv env).nodes.any (fun n => decide (n.path = path)) with
  | true => simp [hno] at h
  | false =>
    simp only [hno, Bool.false_eq_true, if_false] at h
    cases hev : sEval (absEnv env) sv with
    | error e => simp [hev] at h
    | ok vu =>
      obtain ⟨v, u⟩ := vu
      simp only [hev] at h
      cases hu : unitOk tbl kw (pickUnit unit u) with
      | false => simp [hu] at h
      | true =>
        simp only [hu, Bool.not_true, Bool.false_eq_true, if_false] at h
        cases hcf : conforms kw dims v with
        | none => simp [hcf] at h
        | some v' =>
          simp only [hcf, Except.ok.injEq] at h
          have hidem := (conforms_conf kw dims v v' hcf).2
          have hint : kw = .int → pickUnit unit u = none := by
            intro hki
            obtain ⟨h1, h2⟩ := hintg v u hev hki
            simp [h1, h2, pickUnit]
          cases sv with
          | lit v0 =>
            simp only [sEval, Except.ok.injEq, Prod.mk.injEq] at hev
            obtain ⟨rfl, rfl⟩ := hev
            simp only [conc, Option.some.injEq] at hc
            rw [pickUnit_none] at hu hint h
            have hcast : castValue (hostNode path kw dims v0 none [] unit) v0 = some v' := by
              rw [castValue_eq_conforms _ _ rfl hk]; exact hcf
            obtain ⟨env', hpn, habs, hinv'⟩ :=
              def_core tbl env hinv path kw dims v0 none [] unit v' hp hk hu hint hno hcast hidem
            refine ⟨env', ?_, by rw [habs, ← h], hinv'⟩
            rw [← hc, step_node tbl env (litNode path kw dims v0 unit) (litNode path kw dims v0 unit) hkimp
              (injectValue_none _ _ rfl)]
            exact hpn
          | inj source q sl =>
            cases q with
            | all => exact absurd hsv (by simp)
            | children p => exact absurd hsv (by simp)
            | exact p =>
              obtain ⟨hws, hpp, hq, hkw⟩ := hsv
              simp only [conc, Option.some.injEq] at hc
              obtain ⟨src, vs, ss, hreq, hgood, hvs, hconf, hsp, hu', hl, hsel⟩ :=
                sEval_inj tbl env hinv source hws p hpp hq sl v u hev
              have hsk : src.kw = kw := by
                have := hkw ss (absN src) hl hsel
                simpa [absN] using this
              have hconf' : Conf kw vs := by rw [← hsk]; exact hconf
              have hcast : castValue (hostNode path kw dims vs (some (renderRef source p)) sl
                  (pickUnit unit u)) vs = some v' :=
                castValue_inject (hostNode path kw dims vs (some (renderRef source p)) sl (pickUnit unit u))
                  vs v v' hk hconf' hsp hcf
              obtain ⟨env', hpn, habs, hinv'⟩ := def_core tbl env hinv path kw dims vs
                (some (renderRef source p)) sl (pickUnit unit u) v' hp hk hu hint hno hcast hidem
              refine ⟨env', ?_, by rw [habs, ← h], hinv'⟩
              obtain ⟨hr1, hr2⟩ := rawValue_rename (.exact (joinDot p)) src
              have hinj := injectValue_ref env (refNode path kw dims (renderRef source p) sl unit) _
                (renderRef source p) rfl hreq
              rw [hr1, hr2] at hinj
              have hnode : ({ refNode path kw dims (renderRef source p) sl unit with
                  raw := rawValue src,
                  unitsRaw := pickUnit (refNode path kw dims (renderRef source p) sl unit).unitsRaw src.unitsRaw } : Node) =
                  hostNode path kw dims vs (some (renderRef source p)) sl (pickUnit unit u) := by
                simp [refNode, hostNode, blank, rawValue, hvs, hu']
              rw [hnode] at hinj
              rw [← hc, step_node tbl env _ _ hkimp hinj]
              exact hpn

/-- a modification -/
theorem refine_modl (tbl : UnitTable) (env : Env) (hinv : Inv tbl env) (path : List Str)
    (sv : SVal) (unit : Option Str) (item : Item) (s' : SEnv)
    (hfrag : InFrag (absEnv env) (.modl path sv unit))
    (hc : conc (.modl path sv unit) = some item)
    (h : sStep tbl (absEnv env) (.modl path sv unit) = .ok s') :
    ∃ env', step tbl env item = .ok env' ∧ absEnv env' = s' ∧ Inv tbl env' := by
  obtain ⟨hp, hsv⟩ := hfrag
  have hmimp : Kw.mod ≠ .imp := by decide
  simp only [sStep] at h
  cases hev : sEval (absEnv env) sv with
  | error e => simp [hev] at h
  | ok vu =>
    obtain ⟨v, u⟩ := vu
    simp only [hev] at h
    cases hup : sUpdate path (specModF tbl v (pickUnit unit u)) (absEnv env).nodes with
    | none => simp [hup] at h
    | some ss' =>
      simp only [hup, Except.ok.injEq] at h
      cases sv with
      | lit v0 =>
        simp only [sEval, Except.ok.injEq, Prod.mk.injEq] at hev
        obtain ⟨rfl, rfl⟩ := hev
        simp only [conc, Option.some.injEq] at hc
        rw [pickUnit_none] at hup
        obtain ⟨env', hpn, habs, hinv'⟩ := mod_core tbl env hinv path v0 none unit ss' hp hup
        refine ⟨env', ?_, by rw [habs, ← h], hinv'⟩
        rw [← hc, step_node tbl env (litNode path .mod [] v0 unit) (litNode path .mod [] v0 unit) hmimp
          (injectValue_none _ _ rfl)]
        exact hpn
      | inj source q sl =>
        cases q with
        | all => exact absurd hsv (by simp)
        | children p => exact absurd hsv (by simp)
        | exact p =>
          obtain ⟨hws, hpp, hq⟩ := hsv
          cases sl with
          | cons s1 sl' => simp [conc] at hc
          | nil =>
            simp only [conc, Option.some.injEq] at hc
            obtain ⟨src, vs, ss, hreq, hgood, hvs, hconf, hsp, hu', hl, hsel⟩ :=
              sEval_inj tbl env hinv source hws p hpp hq [] v u hev
            simp only [specSlice, Option.some.injEq] at hsp
            subst hsp
            obtain ⟨env', hpn, habs, hinv'⟩ := mod_core tbl env hinv path vs (some (renderRef source p))
              (pickUnit unit u) ss' hp hup
            refine ⟨env', ?_, by rw [habs, ← h], hinv'⟩
            obtain ⟨hr1, hr2⟩ := rawValue_rename (.exact (joinDot p)) src
            have hinj := injectValue_ref env (refNode path .mod [] (renderRef source p) [] unit) _
              (renderRef source p) rfl hreq
            rw [hr1, hr2] at hinj
            have hnode : ({ refNode path .mod [] (renderRef source p) [] unit with
                raw := rawValue src,
                unitsRaw := pickUnit (refNode path .mod [] (renderRef source p) [] unit).unitsRaw src.unitsRaw } : Node) =
                modNode path vs (some (renderRef source p)) (pickUnit unit u) := by
              simp [refNode, modNode, blank, rawValue, hvs, hu']
            rw [hnode] at hinj
            rw [← hc, step_node tbl env _ _ hmimp hinj]
            exact hpn

end SciVerif.C17
