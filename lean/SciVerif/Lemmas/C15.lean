import SciVerif.Model.C15

/-! Helper lemmas for C15: stacks closed by indentation, the skip test, single steps. -/
namespace SciVerif.C15

/-! ## run -/

theorem run_cons_ok {s s1 s2 : St} {l : Line} {ls : List Line} {o1 o2 : List Eff}
    (h1 : step s l = .ok (s1, o1)) (h2 : run s1 ls = .ok (s2, o2)) :
    run s (l :: ls) = .ok (s2, o1 ++ o2) := by
  simp [run, h1, h2]

theorem run_append_ok {s s1 s2 : St} {l1 l2 : List Line} {o1 o2 : List Eff}
    (h1 : run s l1 = .ok (s1, o1)) (h2 : run s1 l2 = .ok (s2, o2)) :
    run s (l1 ++ l2) = .ok (s2, o1 ++ o2) := by
  induction l1 generalizing s o1 with
  | nil =>
    simp only [run, Except.ok.injEq, Prod.mk.injEq] at h1
    obtain ⟨rfl, rfl⟩ := h1
    simpa using h2
  | cons l ls ih =>
    simp only [run] at h1
    cases hs : step s l with
    | error e => simp [hs] at h1
    | ok r =>
      obtain ⟨sa, oa⟩ := r
      simp only [hs] at h1
      cases hr : run sa ls with
      | error e => simp [hr] at h1
      | ok r2 =>
        obtain ⟨sb, ob⟩ := r2
        simp only [hr, Except.ok.injEq, Prod.mk.injEq] at h1
        obtain ⟨rfl, rfl⟩ := h1
        have := ih hr
        simp [run, hs, this, List.append_assoc]

theorem run_append_error {s : St} {l1 l2 : List Line} (h1 : run s l1 = .error ()) :
    run s (l1 ++ l2) = .error () := by
  induction l1 generalizing s with
  | nil => simp [run] at h1
  | cons l ls ih =>
    simp only [run] at h1
    cases hs : step s l with
    | error e => simp [run, hs]
    | ok r =>
      obtain ⟨sa, oa⟩ := r
      simp only [hs] at h1
      cases hr : run sa ls with
      | error e =>
        have := ih hr
        simp [run, hs, this]
      | ok r2 => obtain ⟨sb, ob⟩ := r2; simp [hr] at h1

theorem run_append_ok_error {s s1 : St} {l1 l2 : List Line} {o1 : List Eff}
    (h1 : run s l1 = .ok (s1, o1)) (h2 : run s1 l2 = .error ()) :
    run s (l1 ++ l2) = .error () := by
  induction l1 generalizing s o1 with
  | nil =>
    simp only [run, Except.ok.injEq, Prod.mk.injEq] at h1
    obtain ⟨rfl, rfl⟩ := h1
    simpa using h2
  | cons l ls ih =>
    simp only [run] at h1
    cases hs : step s l with
    | error e => simp [hs] at h1
    | ok r =>
      obtain ⟨sa, oa⟩ := r
      simp only [hs] at h1
      cases hr : run sa ls with
      | error e => simp [hr] at h1
      | ok r2 =>
        obtain ⟨sb, ob⟩ := r2
        simp only [hr, Except.ok.injEq, Prod.mk.injEq] at h1
        obtain ⟨rfl, rfl⟩ := h1
        have := ih hr
        simp [run, hs, this]

/-! ## stacks closed by indentation -/

/-- The top of the stack (if any) is indented less than `k`. -/
def Below (k : Nat) (B : List Branch) : Prop := ∀ b, B.head? = some b → b.cur.indent < k

def BelowP (k : Nat) (P : List (Nat × List Comp)) : Prop := ∀ p, P.head? = some p → p.1 < k

theorem Below.mono {k k' : Nat} {B : List Branch} (h : Below k B) (hk : k ≤ k') : Below k' B :=
  fun b hb => Nat.lt_of_lt_of_le (h b hb) hk

theorem BelowP.mono {k k' : Nat} {P : List (Nat × List Comp)} (h : BelowP k P) (hk : k ≤ k') : BelowP k' P :=
  fun b hb => Nat.lt_of_lt_of_le (h b hb) hk

theorem below_cons {k : Nat} {b : Branch} {B : List Branch} (h : b.cur.indent < k) : Below k (b :: B) := by
  intro b' hb'; simp at hb'; subst hb'; exact h

theorem belowP_cons {k : Nat} {p : Nat × List Comp} {P : List (Nat × List Comp)} (h : p.1 < k) : BelowP k (p :: P) := by
  intro b' hb'; simp at hb'; subst hb'; exact h

theorem closeGE_of_below {k : Nat} {B : List Branch} (h : Below k B) : closeGE k B = B := by
  cases B with
  | nil => rfl
  | cons b bs =>
    have := h b rfl
    simp [closeGE, Nat.not_le.mpr this]

theorem popGE_of_below {k : Nat} {P : List (Nat × List Comp)} (h : BelowP k P) : popGE k P = P := by
  cases P with
  | nil => rfl
  | cons b bs =>
    have := h b rfl
    simp [popGE, Nat.not_le.mpr this]

theorem closeGE_closeGE_le {k k' : Nat} (hk : k ≤ k') (st : List Branch) :
    closeGE k (closeGE k' st) = closeGE k st := by
  induction st with
  | nil => rfl
  | cons b bs ih =>
    by_cases h : k' ≤ b.cur.indent
    · have h2 : k ≤ b.cur.indent := Nat.le_trans hk h
      simp [closeGE, h, h2, ih]
    · simp [closeGE, h]

theorem popGE_popGE_le {k k' : Nat} (hk : k ≤ k') (st : List (Nat × List Comp)) :
    popGE k (popGE k' st) = popGE k st := by
  induction st with
  | nil => rfl
  | cons b bs ih =>
    by_cases h : k' ≤ b.1
    · have h2 : k ≤ b.1 := Nat.le_trans hk h
      simp [popGE, h, h2, ih]
    · simp [popGE, h]

/-- What a deeper level left on the stack is closed by a shallower line as well. -/
theorem closeGE_mono {k k' : Nat} {st B : List Branch} (h : closeGE k' st = B) (hk : k ≤ k')
    (hb : Below k B) : closeGE k st = B := by
  rw [← closeGE_closeGE_le hk, h, closeGE_of_below hb]

theorem popGE_mono {k k' : Nat} {st P : List (Nat × List Comp)} (h : popGE k' st = P) (hk : k ≤ k')
    (hb : BelowP k P) : popGE k st = P := by
  rw [← popGE_popGE_le hk, h, popGE_of_below hb]

theorem closeGE_below (k : Nat) (st : List Branch) : Below k (closeGE k st) := by
  induction st with
  | nil => intro b hb; simp [closeGE] at hb
  | cons b bs ih =>
    by_cases h : k ≤ b.cur.indent
    · simpa [closeGE, h] using ih
    · simp only [closeGE, h, if_false]
      exact below_cons (Nat.not_le.mp h)

theorem popGE_below (k : Nat) (st : List (Nat × List Comp)) : BelowP k (popGE k st) := by
  induction st with
  | nil => intro b hb; simp [popGE] at hb
  | cons b bs ih =>
    by_cases h : k ≤ b.1
    · simpa [popGE, h] using ih
    · simp only [popGE, h, if_false]
      exact belowP_cons (Nat.not_le.mp h)

/-- The closing loop of `solve_case` when no block of this indent is open: everything
    deeper is closed, the clause opens a new branch. -/
theorem closeFor_new {k : Nat} {path : List Comp} {st B : List Branch}
    (h : closeGE (k + 1) st = B) (hb : Below k B) : closeFor k path st = (B, false) := by
  induction st with
  | nil => simp [closeGE] at h; subst h; rfl
  | cons b bs ih =>
    by_cases hge : k + 1 ≤ b.cur.indent
    · simp only [closeGE, hge, if_true] at h
      have h1 : ¬ b.cur.indent < k := by omega
      have h2 : ¬ (b.cur.indent = k ∧ b.cur.path = path) := by omega
      simp [closeFor, h1, h2, ih h]
    · simp only [closeGE, hge, if_false] at h
      subst h
      have := hb b rfl
      simp [closeFor, this]

/-- … and when the block `blk` of this indent and path is open: everything deeper is
    closed and the clause continues `blk`. -/
theorem closeFor_same {k : Nat} {path : List Comp} {st B : List Branch} {blk : Branch}
    (h : closeGE (k + 1) st = blk :: B) (hi : blk.cur.indent = k) (hp : blk.cur.path = path) :
    closeFor k path st = (blk :: B, true) := by
  induction st with
  | nil => simp [closeGE] at h
  | cons b bs ih =>
    by_cases hge : k + 1 ≤ b.cur.indent
    · simp only [closeGE, hge, if_true] at h
      have h1 : ¬ b.cur.indent < k := by omega
      have h2 : ¬ (b.cur.indent = k ∧ b.cur.path = path) := by omega
      simp [closeFor, h1, h2, ih h]
    · simp only [closeGE, hge, if_false] at h
      injection h with h1 h2
      subst h1 h2
      have h3 : ¬ b.cur.indent < k := by omega
      simp [closeFor, hi, hp]

/-! ## names -/

theorem fullName_cons (p : Nat × List Comp) (P : List (Nat × List Comp)) : fullName (p :: P) = fullName P ++ p.2 := by
  simp [fullName]

theorem cleanName_append (a b : List Comp) : cleanName (a ++ b) = cleanName a ++ cleanName b := by
  simp [cleanName]

theorem cleanName_nms (l : List String) : cleanName (nms l) = l := by
  induction l with
  | nil => rfl
  | cons a t ih =>
    simp only [nms, List.map_cons, cleanName, List.filterMap_cons] at ih ⊢
    simp [ih]

theorem cleanName_fullName_cs (k n : Nat) (pfx : List String) (P : List (Nat × List Comp)) :
    cleanName (fullName ((k, nms pfx ++ [Comp.cs n]) :: P)) = cleanName (fullName P) ++ pfx := by
  rw [fullName_cons, cleanName_append, cleanName_append, cleanName_nms]
  simp [cleanName]

theorem cleanName_fullName_nm (k : Nat) (x : List String) (P : List (Nat × List Comp)) :
    cleanName (fullName ((k, nms x) :: P)) = cleanName (fullName P) ++ x := by
  rw [fullName_cons, cleanName_append, cleanName_nms]

theorem path_cons (k : Nat) (c : List Comp) (x : Comp) (P : List (Nat × List Comp)) :
    (fullName ((k, c ++ [x]) :: P)).dropLast = fullName P ++ c := by
  rw [fullName_cons]
  simp only []
  rw [← List.append_assoc, List.dropLast_concat]

/-! ## the skip test -/

/-- Some clause of the branch (current or earlier) is true. -/
def anyTrue (b : Branch) : Bool := b.cur.value || b.earlier.any (fun c => c.value)

theorem countP_eq_zero_iff_any (e : List Case) :
    (e.countP (fun c => c.value) = 0) ↔ (e.any (fun c => c.value) = false) := by
  induction e with
  | nil => simp
  | cons c e ih =>
    cases hv : c.value <;> simp [hv, ih]

/-- `false_case` for one branch: its current clause is not the first true one. -/
theorem falseBranch_eq (b : Branch) :
    falseBranch b = !(b.cur.value && !(b.earlier.any (fun c => c.value))) := by
  unfold falseBranch
  cases hv : b.cur.value
  · simp [hv]
  · cases ha : b.earlier.any (fun c => c.value)
    · have := (countP_eq_zero_iff_any b.earlier).mpr ha
      simp [hv, this]
    · have h0 : b.earlier.countP (fun c => c.value) ≠ 0 := by
        intro h; have := (countP_eq_zero_iff_any b.earlier).mp h; simp [ha] at this
      simp [hv, h0]

theorem falseCase_cons (b : Branch) (B : List Branch) : falseCase (b :: B) = (falseBranch b || falseCase B) := by
  simp [falseCase]

theorem falseBranch_open (i : Nat) (c : Case) : falseBranch ⟨i, c, []⟩ = !c.value := by
  simp [falseBranch_eq]

theorem falseBranch_switch (blk : Branch) (c : Case) :
    falseBranch { blk with cur := c, earlier := blk.cur :: blk.earlier } = !(c.value && !anyTrue blk) := by
  simp [falseBranch_eq, anyTrue]

theorem anyTrue_switch (blk : Branch) (c : Case) :
    anyTrue { blk with cur := c, earlier := blk.cur :: blk.earlier } = (c.value || anyTrue blk) := by
  simp [anyTrue]

/-! ## single steps of `DIP.parse` in the situations that rendered programs produce -/

theorem step_group {s : St} {k : Nat} {x : List String} {B : List Branch} {P : List (Nat × List Comp)}
    (hB : closeGE k s.state = B) (hP : popGE k s.parents = P) :
    step s ⟨k, x, .group⟩ = .ok ({ s with parents := (k, nms x) :: P, state := B }, []) := by
  simp [step, register, hB, hP]

theorem step_node {s : St} {k : Nat} {x : List String} {m : Bool} {v : Int} {B : List Branch}
    {P : List (Nat × List Comp)} (hB : closeGE k s.state = B) (hP : popGE k s.parents = P) :
    step s ⟨k, x, .node m v⟩ = .ok ({ s with parents := (k, nms x) :: P, state := B },
      if falseCase B then [] else [.node (cleanName (fullName P) ++ x) m v]) := by
  have hb : closeGE k B = B := by
    rw [← hB]; exact closeGE_of_below (closeGE_below k s.state)
  by_cases hf : falseCase B = true
  · simp [step, register, hB, hP, hf]
  · simp [step, register, hB, hP, hf, hb, cleanName_fullName_nm]

theorem step_prop {s : St} {k : Nat} {x : List String} {p : PKind} {B : List Branch}
    (hB : closeGE k s.state = B) :
    step s ⟨k, x, .prop p⟩ = .ok ({ s with state := B }, if falseCase B then [] else [.prop p]) := by
  simp [step, hB]

theorem step_unit {s : St} {k : Nat} {x : List String} {b : Bool} {B : List Branch}
    (hB : closeGE k s.state = B) :
    step s ⟨k, x, .unit b⟩ = .ok ({ s with state := B }, if falseCase B || !b then [] else [.fail]) := by
  simp [step, hB]

theorem step_imp {s : St} {k : Nat} {x : List String} {nd : Option String} {B : List Branch}
    {P : List (Nat × List Comp)} (hB : closeGE k s.state = B) (hP : popGE k s.parents = P) :
    step s ⟨k, x, .imp nd⟩ = .ok ({ s with parents := (k, [.nm "{import}"]) :: P, state := B },
      if falseCase B then [] else [.imp (cleanName (fullName P)) x nd]) := by
  simp [step, register, hB, hP]

/-- `@case` opening a new block: nothing with this indent and path is open. -/
theorem step_open {s : St} {k : Nat} {x : List String} {c : Bool} {B : List Branch} {P : List (Nat × List Comp)}
    (hB : closeFor k (fullName P ++ nms x) s.state = (B, false)) (hB' : closeGE k s.state = B)
    (hP : popGE k s.parents = P) :
    step s ⟨k, x, .case c⟩ = .ok (St.mk ((k, nms x ++ [.cs (s.numCases + 1)]) :: P)
      (⟨s.numBranches + 1, ⟨fullName P ++ nms x, k, c && !falseCase B, .case, s.numCases + 1⟩, []⟩ :: B)
      (s.numCases + 1) (s.numBranches + 1), []) := by
  have hp := path_cons k (nms x) (.cs (s.numCases + 1)) P
  simp [step, solveCase, hp, hB, hB', register, hP]

/-- `@case` continuing the open block `blk`. -/
theorem step_switch_case {s : St} {k : Nat} {x : List String} {c : Bool} {B : List Branch} {blk : Branch}
    {P : List (Nat × List Comp)} (hB : closeGE (k + 1) s.state = blk :: B) (hb : Below k B) (hi : blk.cur.indent = k)
    (hpath : blk.cur.path = fullName P ++ nms x) (ht : blk.cur.ctype = .case) (hP : popGE k s.parents = P) :
    step s ⟨k, x, .case c⟩ = .ok (St.mk ((k, nms x ++ [.cs (s.numCases + 1)]) :: P)
      ({ blk with cur := ⟨fullName P ++ nms x, k, c && !falseCase B, .case, s.numCases + 1⟩, earlier := blk.cur :: blk.earlier } :: B)
      (s.numCases + 1) s.numBranches, []) := by
  have hp := path_cons k (nms x) (.cs (s.numCases + 1)) P
  have hc := closeFor_same (path := fullName P ++ nms x) hB hi hpath
  have hB' : closeGE k s.state = B := by
    rw [← closeGE_closeGE_le (Nat.le_succ k), hB]
    simp only [closeGE, hi, Nat.le_refl, if_true]
    exact closeGE_of_below hb
  simp [step, solveCase, hp, hc, hB', register, hP, topIsElse, ht, switchCase]

/-- `@else` continuing the open block `blk`. -/
theorem step_switch_else {s : St} {k : Nat} {x : List String} {B : List Branch} {blk : Branch}
    {P : List (Nat × List Comp)} (hB : closeGE (k + 1) s.state = blk :: B) (hi : blk.cur.indent = k)
    (hpath : blk.cur.path = fullName P ++ nms x) (ht : blk.cur.ctype = .case) (hP : popGE k s.parents = P) :
    step s ⟨k, x, .els⟩ = .ok (St.mk ((k, nms x ++ [.cs (s.numCases + 1)]) :: P)
      ({ blk with cur := ⟨fullName P ++ nms x, k, true, .els, s.numCases + 1⟩, earlier := blk.cur :: blk.earlier } :: B)
      (s.numCases + 1) s.numBranches, []) := by
  have hp := path_cons k (nms x) (.cs (s.numCases + 1)) P
  have hc := closeFor_same (path := fullName P ++ nms x) hB hi hpath
  simp [step, solveCase, hp, hc, register, hP, topIsElse, ht, switchCase]

/-- `@end` closing the open block `blk`. -/
theorem step_end {s : St} {k : Nat} {x : List String} {B : List Branch} {blk : Branch}
    {P : List (Nat × List Comp)} (hB : closeGE (k + 1) s.state = blk :: B) (hi : blk.cur.indent = k)
    (hpath : blk.cur.path = fullName P ++ nms x) (hP : popGE k s.parents = P) :
    step s ⟨k, x, .fin⟩ = .ok (St.mk ((k, nms x ++ [.cs (s.numCases + 1)]) :: P) B
      (s.numCases + 1) s.numBranches, []) := by
  have hp := path_cons k (nms x) (.cs (s.numCases + 1)) P
  have hc := closeFor_same (path := fullName P ++ nms x) hB hi hpath
  simp [step, solveCase, hp, hc, register, hP]

end SciVerif.C15
