import SciVerif.Lemmas.C19e
/-!
# C19 — declaration lines, C / C++ and Rust: `read (line p) = expected p`
-/
namespace SciVerif.C19

theorem stripConst_kw (kw : Str) (hkw : kw = cs!"const" ∨ kw = cs!"constexpr") (x : Str) :
    stripConst (kw ++ ' ' :: x) = some x := by
  rcases hkw with rfl | rfl <;> simp [stripConst, dropPrefix?]

/-- the initialiser of a rectangular value of kind `k`, read at a declared type of class `k` -/
theorem readInit_printVal (st : Style) (o c : Char) (ok : StyleOK st o c) (htru : st.tru = cs!"true")
    (hfls : st.fls = cs!"false") (backend decl name : Str) (k : Kind) (n : Nat)
    (hk : targetKind backend decl = some (k, n)) (v : Val) (hv : ValOK k v) (sh : List Nat)
    (hr : rectShape v = some sh) :
    readInit st.q o c backend decl name sh (printVal st v) = some ⟨name, decl, sh, false, v⟩ := by
  have h1 := parseInit_printVal st o c ok k v hv
  have h2 : rectShape (tokTree st v) = some sh := by rw [rectShape_tokTree, hr]
  have h3 := interp_tokTree st ok.ne k v hv
  rw [htru, hfls] at h3
  simp [readInit, h1, h2, hk, h3]

theorem targetKind_of_lookup (b : Str) (hb : b ∈ [bC, bCpp, bRust]) (k : Kind) (bits : Nat) (t : Str)
    (h : lookupType b k bits = some t) : ∃ n, targetKind b t = some (k, n) ∧ t ∈ targets b := by
  obtain ⟨r, hm, h1, h2, h3⟩ := lookupType_row b k bits t h
  have hk := table_kind b hb r hm h1 t h3
  have ht := table_mem_targets b hb r hm h1 t h3
  cases hq : targetKind b t with
  | none => simp [hq] at hk
  | some kn =>
    obtain ⟨k', n⟩ := kn
    simp [hq] at hk
    exact ⟨n, by rw [hk, h2], ht⟩

theorem shape_nil_of_leaf (v : Val) (sh : List Nat) (h : rectShape v = some sh) (hia : v.isArr = false) : sh = [] := by
  cases v with
  | leaf a => simp [rectShape] at h; exact h
  | arr ts => simp [Val.isArr] at hia

theorem shape_ne_nil_of_arr (v : Val) (sh : List Nat) (h : rectShape v = some sh) (hia : v.isArr = true) : sh ≠ [] := by
  cases v with
  | leaf a => simp [Val.isArr] at hia
  | arr ts => rcases rectShape_arr ts sh h with ⟨_, rfl⟩ | ⟨s, rfl, _, _⟩ <;> simp

theorem length_le_segs : ∀ sh : List Nat, sh.length ≤ (sh.flatMap bracketSeg).length
  | [] => by simp
  | d :: ds => by
    have := length_le_segs ds
    simp only [List.flatMap_cons, List.length_append, bracketSeg, List.length_cons]
    omega

/-- **C / C++ declaration lines**: for every parameter whose (renamed) name contains no `[` or blank and
    whose value is rectangular without empty levels, reading the exported `const` / `constexpr` line
    gives exactly the symbol the property demands (and both are undefined when `_parse_dtype`
    has no type for the node) -/
theorem readConstLine_lineConst (backend kw : Str) (hb : backend = bC ∨ backend = bCpp)
    (hkw : kw = cs!"const" ∨ kw = cs!"constexpr") (ren : Bool) (p : Param) (sh : List Nat)
    (hn : ∀ ch ∈ rename ren p.name, ch ≠ '[' ∧ ch ≠ ' ')
    (hv : ValOK p.kind p.value) (hr : rectShape p.value = some sh) (h0 : 0 ∉ sh) :
    (lineConst backend kw ren p).bind (readConstLine backend) = expectedSym backend ren false p := by
  have hs := shapeOf_of_rect p.value sh hr h0
  have hnf : backend ≠ bFortran := by rcases hb with rfl | rfl <;> decide
  have hb3 : backend ∈ [bC, bCpp, bRust] := by rcases hb with rfl | rfl <;> simp
  have hb2 : backend ∈ [bC, bCpp] := by rcases hb with rfl | rfl <;> simp
  cases ht : lookupType backend p.kind p.bits with
  | none => simp [lineConst, expectedSym, expectedDecl, ht, hs, hnf]
  | some dtype =>
    obtain ⟨n, hk, hmem⟩ := targetKind_of_lookup backend hb3 p.kind p.bits dtype ht
    have hmt : ∀ rest, matchType (targets backend) (dtype ++ ' ' :: rest) = some (dtype, rest) :=
      matchType_of_prefixFree (targets backend) (targets backend) (prefix_free backend hb2)
        (fun _ h => h) dtype hmem hmem
    have hinit := readInit_printVal styleC '{' '}' styleC_ok rfl rfl backend dtype (rename ren p.name)
      p.kind n hk p.value hv sh hr
    have hexp : expectedSym backend ren false p = some ⟨rename ren p.name, dtype, sh, false, p.value⟩ := by
      simp [expectedSym, expectedDecl, ht, hs, hnf]
    rw [hexp]
    cases hia : p.value.isArr with
    | false =>
      have hsh : sh = [] := shape_nil_of_leaf p.value sh hr hia
      subst hsh
      have hline : lineConst backend kw ren p =
          some (kw ++ ' ' :: (dtype ++ ' ' :: (rename ren p.name ++
            (cs!" = " ++ (printVal styleC p.value ++ [';']))))) := by
        simp [lineConst, ht, hs, hia]
      have hspan : (rename ren p.name ++ (cs!" = " ++ (printVal styleC p.value ++ [';']))).span
          (fun c => decide (c ≠ '[' ∧ c ≠ ' ')) =
          (rename ren p.name, cs!" = " ++ (printVal styleC p.value ++ [';'])) := by
        apply span_stop
        · intro ch hch; simpa using hn ch hch
        · intro x r e; simp at e; simp [← e.1]
      have hdims : ∀ f, parseDims (f + 1) (cs!" = " ++ (printVal styleC p.value ++ [';'])) =
          some ([], cs!" = " ++ (printVal styleC p.value ++ [';'])) := by
        intro f; simp [parseDims]
      rw [hline, Option.bind_some]
      simp only [readConstLine, stripConst_kw kw hkw, hmt, Option.bind_eq_bind, Option.bind_some, hspan, hdims,
        dropPrefix_append, dropLastChar_snoc]
      exact hinit
    | true =>
      have hne : sh ≠ [] := shape_ne_nil_of_arr p.value sh hr hia
      have hline : lineConst backend kw ren p =
          some (kw ++ ' ' :: (dtype ++ ' ' :: (rename ren p.name ++
            (sh.flatMap bracketSeg ++ (cs!" = " ++ (printVal styleC p.value ++ [';'])))))) := by
        simp [lineConst, ht, hs, hia, shapeBrackets_eq sh hne]
      have hspan : (rename ren p.name ++
            (sh.flatMap bracketSeg ++ (cs!" = " ++ (printVal styleC p.value ++ [';'])))).span
          (fun c => decide (c ≠ '[' ∧ c ≠ ' ')) =
          (rename ren p.name, sh.flatMap bracketSeg ++ (cs!" = " ++ (printVal styleC p.value ++ [';']))) := by
        apply span_stop
        · intro ch hch; simpa using hn ch hch
        · intro x r e
          cases sh with
          | nil => exact absurd rfl hne
          | cons d ds =>
            simp [bracketSeg] at e
            simp [← e.1]
      have hdims : parseDims ((sh.flatMap bracketSeg ++ (cs!" = " ++ (printVal styleC p.value ++ [';']))).length + 1)
          (sh.flatMap bracketSeg ++ (cs!" = " ++ (printVal styleC p.value ++ [';']))) =
          some (sh, cs!" = " ++ (printVal styleC p.value ++ [';'])) := by
        apply parseDims_segs
        · have := length_le_segs sh
          simp only [List.length_append]
          omega
        · intro r e; simp at e
      rw [hline, Option.bind_some]
      simp only [readConstLine, stripConst_kw kw hkw, hmt, Option.bind_eq_bind, Option.bind_some, hspan, hdims,
        dropPrefix_append, dropLastChar_snoc]
      exact hinit

/-! ## Rust -/

def rseg (d : Nat) : Str := ';' :: ' ' :: (showNat d ++ [']'])

theorem rustType_eq (base : Str) : ∀ sh : List Nat,
    rustType base sh = List.replicate sh.length '[' ++ (base ++ sh.reverse.flatMap rseg)
  | [] => by simp [rustType]
  | d :: sh => by
    simp only [rustType, rustType_eq base sh, List.length_cons, List.replicate_succ, List.reverse_cons,
      List.flatMap_append, List.flatMap_cons, List.flatMap_nil, rseg]
    simp

theorem countOpen_replicate : ∀ (n : Nat) (x : Str), (∀ r, x ≠ '[' :: r) →
    countOpen (List.replicate n '[' ++ x) = (n, x)
  | 0, x, h => by
    cases x with
    | nil => simp [countOpen]
    | cons c r =>
      have : c ≠ '[' := fun e => h r (by rw [e])
      simp [countOpen]
  | n + 1, x, h => by
    simp [List.replicate_succ, countOpen, countOpen_replicate n x h]

theorem rustDims_segs : ∀ (l : List Nat) (rest : Str),
    rustDims l.length (l.flatMap rseg ++ rest) = some (l, rest)
  | [], rest => by simp [rustDims]
  | d :: l, rest => by
    have ih := rustDims_segs l rest
    have hsp : (showNat d ++ (']' :: (l.flatMap rseg ++ rest))).span (fun c => decide (c ≠ ']')) =
        (showNat d, ']' :: (l.flatMap rseg ++ rest)) := by
      apply span_stop
      · intro ch hch
        have := (showNat_plain d ch hch).2.2.1
        simpa using this
      · intro x r e
        simp at e
        simp [← e.1]
    simp only [List.flatMap_cons, rseg, List.cons_append, List.append_assoc, List.length_cons, rustDims,
      dropPrefix?, if_true, Option.bind_eq_bind, Option.bind_some]
    simp only [List.nil_append] at hsp ⊢
    rw [hsp]
    simp [readNat_showNat, dropPrefix?, ih]

/-- **Rust declaration lines**: for every parameter whose (renamed) name contains no `:` and whose
    value is rectangular without empty levels, reading the exported `pub const` line gives exactly
    the symbol the property demands -/
theorem readRustLine_lineRust (ren : Bool) (p : Param) (sh : List Nat)
    (hn : ∀ ch ∈ rename ren p.name, ch ≠ ':')
    (hv : ValOK p.kind p.value) (hr : rectShape p.value = some sh) (h0 : 0 ∉ sh) :
    (lineRust ren p).bind readRustLine = expectedSym bRust ren false p := by
  have hs := shapeOf_of_rect p.value sh hr h0
  have hnf : bRust ≠ bFortran := by decide
  have hb3 : bRust ∈ [bC, bCpp, bRust] := by simp
  cases ht : lookupType bRust p.kind p.bits with
  | none => simp [lineRust, expectedSym, expectedDecl, ht, hs, hnf]
  | some dtype =>
    obtain ⟨n, hk, hmem⟩ := targetKind_of_lookup bRust hb3 p.kind p.bits dtype ht
    have hplain := List.all_eq_true.mp (rust_names_plain dtype hmem)
    have hinit := readInit_printVal styleRust '[' ']' styleRust_ok rfl rfl bRust dtype (rename ren p.name)
      p.kind n hk p.value hv sh hr
    have hexp : expectedSym bRust ren false p = some ⟨rename ren p.name, dtype, sh, false, p.value⟩ := by
      simp [expectedSym, expectedDecl, ht, hs, hnf]
    rw [hexp]
    let tail : Str := cs!" = " ++ (printVal styleRust p.value ++ [';'])
    have hline : lineRust ren p = some (cs!"pub const " ++ (rename ren p.name ++ (':' :: ' ' ::
        (List.replicate sh.length '[' ++ (dtype ++ (sh.reverse.flatMap rseg ++ tail)))))) := by
      simp [lineRust, ht, hs, rustType_eq, tail]
    have hspan1 : (rename ren p.name ++ (':' :: ' ' ::
        (List.replicate sh.length '[' ++ (dtype ++ (sh.reverse.flatMap rseg ++ tail))))).span
          (fun c => decide (c ≠ ':')) =
        (rename ren p.name, ':' :: ' ' :: (List.replicate sh.length '[' ++ (dtype ++ (sh.reverse.flatMap rseg ++ tail)))) := by
      apply span_stop
      · intro ch hch; simpa using hn ch hch
      · intro x r e; simp at e; simp [← e.1]
    have hstart : ∀ x r, sh.reverse.flatMap rseg ++ tail = x :: r → (x = ';' ∨ x = ' ') := by
      intro x r e
      cases hrev : sh.reverse with
      | nil => rw [hrev] at e; simp [tail] at e; exact Or.inr e.1.symm
      | cons d ds => rw [hrev] at e; simp [rseg] at e; exact Or.inl e.1.symm
    have hcount : countOpen (List.replicate sh.length '[' ++ (dtype ++ (sh.reverse.flatMap rseg ++ tail))) =
        (sh.length, dtype ++ (sh.reverse.flatMap rseg ++ tail)) := by
      apply countOpen_replicate
      intro r e
      cases hd : dtype with
      | nil =>
        rw [hd] at e
        rcases hstart '[' r (by simpa using e) with h | h <;> cases h
      | cons c cs =>
        rw [hd] at e
        simp at e
        have := hplain c (by rw [hd]; simp)
        simp at this
        exact this.2.2 e.1
    have hspan2 : (dtype ++ (sh.reverse.flatMap rseg ++ tail)).span (fun c => decide (c ≠ ';' ∧ c ≠ ' ')) =
        (dtype, sh.reverse.flatMap rseg ++ tail) := by
      apply span_stop
      · intro ch hch
        have := hplain ch hch
        simp at this
        simp [this.1, this.2.1]
      · intro x r e
        rcases hstart x r e with h | h <;> simp [h]
    have hdims : rustDims sh.length (sh.reverse.flatMap rseg ++ tail) = some (sh.reverse, tail) := by
      have := rustDims_segs sh.reverse tail
      simpa using this
    rw [hline, Option.bind_some]
    simp only [readRustLine, dropPrefix_append, Option.bind_eq_bind, Option.bind_some, hspan1, dropPrefix?, if_true,
      hcount, hspan2, hdims, List.reverse_reverse]
    simp only [tail, dropPrefix_append, Option.bind_some, dropLastChar_snoc]
    exact hinit

end SciVerif.C19
