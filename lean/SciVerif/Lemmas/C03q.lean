import SciVerif.Lemmas.C03h

/-! C03 helper lemmas, part q: TEXT-level rejection.  An operand text of a compound expression that
    the atom parser refuses makes the whole `UnitSolver(text)` fail — for every text in which the
    operand stands in front of the first parenthesis, whatever follows it. -/
namespace SciVerif.C03

/-- where the tokenising loop hands the collected operand text to the atom parser: end of the text
    or one of the characters `(`, `*`, `/` -/
def stopsAt (post : Str) : Prop :=
  post = [] ∨ ∃ c r, post = c :: r ∧ (c = '(' ∨ c = '*' ∨ c = '/')

/-- the loop shifts the characters of `piece` onto `left`, then flushes: a refused operand text is
    an error of the loop -/
theorem tokenize_bad_piece (T : Tables) (post : Str) (hpost : stopsAt post) :
    ∀ (piece : Str), tokPlain piece → ∀ (left : Str) (toks : List Tok) (f : Nat), piece.length + 1 ≤ f →
    strip (piece.reverse ++ left).reverse ≠ [] →
    (∃ e, atomParse T (strip (piece.reverse ++ left).reverse) = .error e) →
    ∃ err, tokenize T f (piece ++ post) left toks = .error err := by
  intro piece
  induction piece with
  | nil =>
    intro _ left toks f hf hne hbad
    obtain ⟨e, he⟩ := hbad
    obtain ⟨f', rfl⟩ : ∃ f', f = f' + 1 := ⟨f - 1, by simp at hf; omega⟩
    simp only [List.reverse_nil, List.nil_append] at hne he
    have hfl : flushLeft T left toks = .error e := by
      unfold flushLeft
      simp [hne, he]
    rcases hpost with rfl | ⟨c, r, rfl, hc⟩
    · exact ⟨e, by simp [tokenize, hfl]⟩
    · rcases hc with rfl | rfl | rfl
      · exact ⟨e, by simp [tokenize, hfl]⟩
      · exact ⟨e, by simp [tokenize, hfl]⟩
      · exact ⟨e, by simp [tokenize, hfl]⟩
  | cons c rest ih =>
    intro hp left toks f hf hne hbad
    obtain ⟨h1, h2, h3⟩ := hp c (by simp)
    have hrest : tokPlain rest := fun x hx => hp x (List.mem_cons_of_mem _ hx)
    obtain ⟨f', rfl⟩ : ∃ f', f = f' + 1 := ⟨f - 1, by simp at hf; omega⟩
    have e1 : (c :: rest).reverse ++ left = rest.reverse ++ c :: left := by simp
    rw [e1] at hne hbad
    obtain ⟨err, herr⟩ := ih hrest (c :: left) toks f' (by simp at hf; omega) hne hbad
    refine ⟨err, ?_⟩
    rw [List.cons_append, tokenize]
    simp [h1, h2, h3, herr]

/-- … also when the refused operand follows an operator sign behind any parenthesis-free text -/
theorem tokenize_bad_after (T : Tables) (piece post : Str) (hp : tokPlain piece) (hpost : stopsAt post)
    (op : Char) (hop : op = '*' ∨ op = '/') (hne : strip piece ≠ [])
    (hbad : ∃ e, atomParse T (strip piece) = .error e) :
    ∀ (pre : Str), '(' ∉ pre → ∀ (left : Str) (toks : List Tok) (f : Nat),
    pre.length + piece.length + 2 ≤ f →
    ∃ err, tokenize T f (pre ++ op :: (piece ++ post)) left toks = .error err := by
  have hB : ∀ (toks : List Tok) (f : Nat), piece.length + 1 ≤ f →
      ∃ err, tokenize T f (piece ++ post) [] toks = .error err := by
    intro toks f hf
    exact tokenize_bad_piece T post hpost piece hp [] toks f hf (by simpa using hne) (by simpa using hbad)
  intro pre
  induction pre with
  | nil =>
    intro _ left toks f hf
    obtain ⟨f', rfl⟩ : ∃ f', f = f' + 1 := ⟨f - 1, by simp at hf; omega⟩
    simp only [List.nil_append]
    cases hfl : flushLeft T left toks with
    | error e =>
      rcases hop with rfl | rfl
      · exact ⟨e, by rw [tokenize]; simp [hfl]⟩
      · exact ⟨e, by rw [tokenize]; simp [hfl]⟩
    | ok toks1 =>
      rcases hop with rfl | rfl
      · obtain ⟨err, herr⟩ := hB (toks1 ++ [.mul]) f' (by simp at hf; omega)
        exact ⟨err, by rw [tokenize]; simp [hfl, herr]⟩
      · obtain ⟨err, herr⟩ := hB (toks1 ++ [.div]) f' (by simp at hf; omega)
        exact ⟨err, by rw [tokenize]; simp [hfl, herr]⟩
  | cons c pre' ih =>
    intro hnp left toks f hf
    have hc : c ≠ '(' := fun h => hnp (by simp [h])
    have hnp' : '(' ∉ pre' := fun h => hnp (List.mem_cons_of_mem _ h)
    obtain ⟨f', rfl⟩ : ∃ f', f = f' + 1 := ⟨f - 1, by simp at hf; omega⟩
    have hf' : pre'.length + piece.length + 2 ≤ f' := by simp at hf; omega
    rw [List.cons_append, tokenize]
    by_cases hm : c = '*'
    · subst hm
      cases hfl : flushLeft T left toks with
      | error e => exact ⟨e, by simp⟩
      | ok toks1 =>
        obtain ⟨err, herr⟩ := ih hnp' [] (toks1 ++ [.mul]) f' hf'
        exact ⟨err, by simp [herr]⟩
    · by_cases hd : c = '/'
      · subst hd
        cases hfl : flushLeft T left toks with
        | error e => exact ⟨e, by simp⟩
        | ok toks1 =>
          obtain ⟨err, herr⟩ := ih hnp' [] (toks1 ++ [.div]) f' hf'
          exact ⟨err, by simp [herr]⟩
      · obtain ⟨err, herr⟩ := ih hnp' (c :: left) toks f' hf'
        exact ⟨err, by simp [hc, hm, hd, herr]⟩

/-- an error of the tokenising loop is an error of `UnitSolver(text)` -/
theorem unitSolver_of_tokenize_error (T : Tables) (s : Str) (err : Err)
    (h : tokenize T (2 * s.length + 1) s [] [] = .error err) : unitSolver T s = .error err := by
  simp [unitSolver, solve, h]

/-- the lead in front of the refused operand: nothing, or any parenthesis-free text ending in an
    operator sign -/
def leadOk (lead : Str) : Prop :=
  lead = [] ∨ ∃ pre op, lead = pre ++ [op] ∧ (op = '*' ∨ op = '/') ∧ '(' ∉ pre

theorem unitSolver_bad_operand (T : Tables) (lead piece post : Str) (hl : leadOk lead)
    (hp : tokPlain piece) (hpost : stopsAt post) (hne : strip piece ≠ [])
    (hbad : ∃ e, atomParse T (strip piece) = .error e) :
    ∃ err, unitSolver T (lead ++ piece ++ post) = .error err := by
  rcases hl with rfl | ⟨pre, op, rfl, hop, hnp⟩
  · obtain ⟨err, herr⟩ := tokenize_bad_piece T post hpost piece hp [] []
      (2 * ([] ++ piece ++ post).length + 1) (by simp; omega) (by simpa using hne) (by simpa using hbad)
    exact ⟨err, unitSolver_of_tokenize_error T _ err (by simpa using herr)⟩
  · obtain ⟨err, herr⟩ := tokenize_bad_after T piece post hp hpost op hop hne hbad pre hnp [] []
      (2 * (pre ++ [op] ++ piece ++ post).length + 1) (by simp; omega)
    exact ⟨err, unitSolver_of_tokenize_error T _ err (by simpa using herr)⟩

/-! ## any depth: fuel-free versions and the inductive description of a text with a refused operand -/

theorem tokenize_zero (T : Tables) (right left : Str) (toks : List Tok) :
    tokenize T 0 right left toks = .error .fuel := by
  rw [tokenize]

/-- fuel-free form of `tokenize_bad_piece` (running out of fuel is an error, too; that it never
    happens for the fuel of `unitSolver` is `unitSolver_no_fuel`) -/
theorem tokenize_bad_first (T : Tables) (piece post : Str) (hp : tokPlain piece) (hpost : stopsAt post)
    (hne : strip piece ≠ []) (hbad : ∃ e, atomParse T (strip piece) = .error e) (f : Nat) (toks : List Tok) :
    ∃ err, tokenize T f (piece ++ post) [] toks = .error err := by
  by_cases hf : piece.length + 1 ≤ f
  · exact tokenize_bad_piece T post hpost piece hp [] toks f hf (by simpa using hne) (by simpa using hbad)
  · -- too little fuel: the loop shifts `f` characters and stops with the fuel error
    have hgen : ∀ (w : Str), tokPlain w → ∀ (f : Nat) (left : Str), f < w.length + 1 →
        tokenize T f (w ++ post) left toks = .error .fuel := by
      intro w
      induction w with
      | nil => intro _ f left hf; have : f = 0 := by simp at hf; omega
               subst this; exact tokenize_zero T _ _ _
      | cons c rest ih =>
        intro hw f left hf
        cases f with
        | zero => exact tokenize_zero T _ _ _
        | succ f' =>
          obtain ⟨h1, h2, h3⟩ := hw c (by simp)
          have hrest : tokPlain rest := fun x hx => hw x (List.mem_cons_of_mem _ hx)
          rw [List.cons_append, tokenize]
          simp [h1, h2, h3, ih hrest f' (c :: left) (by simp at hf; omega)]
    exact ⟨.fuel, hgen piece hp f [] (by omega)⟩

/-- walking over a parenthesis-free text: the loop either fails or arrives at the tail -/
theorem tokenize_walk (T : Tables) (tail : Str)
    (htail : ∀ (f : Nat) (left : Str) (toks : List Tok), ∃ err, tokenize T f tail left toks = .error err) :
    ∀ (pre : Str), '(' ∉ pre → ∀ (f : Nat) (left : Str) (toks : List Tok),
    ∃ err, tokenize T f (pre ++ tail) left toks = .error err := by
  intro pre
  induction pre with
  | nil => intro _ f left toks; simpa using htail f left toks
  | cons c pre' ih =>
    intro hnp f left toks
    have hc : c ≠ '(' := fun h => hnp (by simp [h])
    have hnp' : '(' ∉ pre' := fun h => hnp (List.mem_cons_of_mem _ h)
    cases f with
    | zero => exact ⟨.fuel, tokenize_zero T _ _ _⟩
    | succ f' =>
      rw [List.cons_append, tokenize]
      by_cases hm : c = '*'
      · subst hm
        cases hfl : flushLeft T left toks with
        | error e => exact ⟨e, by simp⟩
        | ok toks1 =>
          obtain ⟨err, herr⟩ := ih hnp' f' [] (toks1 ++ [.mul])
          exact ⟨err, by simp [herr]⟩
      · by_cases hd : c = '/'
        · subst hd
          cases hfl : flushLeft T left toks with
          | error e => exact ⟨e, by simp⟩
          | ok toks1 =>
            obtain ⟨err, herr⟩ := ih hnp' f' [] (toks1 ++ [.div])
            exact ⟨err, by simp [herr]⟩
        · obtain ⟨err, herr⟩ := ih hnp' f' (c :: left) toks
          exact ⟨err, by simp [hc, hm, hd, herr]⟩

/-- the text between `(` and its matching `)`: the depth counter (starting at `d`) never closes
    the group inside, and there is no comma at depth 1 -/
def innerOk : Str → Nat → Bool
  | [], d => d == 1
  | c :: r, d =>
    if c = '(' then innerOk r (d + 1)
    else if c = ',' then d != 1 && innerOk r d
    else if c = ')' then d != 1 && innerOk r (d - 1)
    else innerOk r d

/-- a text in which the group opened before it is never closed -/
def unclosed : Str → Nat → Bool
  | [], _ => true
  | c :: r, d =>
    if c = '(' then unclosed r (d + 1)
    else if c = ')' then d != 1 && unclosed r (d - 1)
    else unclosed r d

theorem scanPar_inner (tail : Str) : ∀ (inner : Str) (d : Nat) (left : Str) (args : List Str),
    innerOk inner d = true →
    scanPar (inner ++ ')' :: tail) d left args = .ok (args ++ [strip (inner.reverse ++ left).reverse], tail) := by
  intro inner
  induction inner with
  | nil =>
    intro d left args h
    simp only [innerOk, beq_iff_eq] at h
    subst h
    simp [scanPar]
  | cons c r ih =>
    intro d left args h
    rw [List.cons_append, scanPar]
    unfold innerOk at h
    by_cases h1 : c = '('
    · simp only [h1, if_true] at h ⊢
      rw [ih _ _ _ h]; simp
    · by_cases h2 : c = ','
      · subst h2
        simp only [h1, if_false, if_true, Bool.and_eq_true, bne_iff_ne, ne_eq] at h
        have h3 : ¬ (',' : Char) = ')' := by decide
        simp only [h1, if_false, h.1, and_false, h3]
        rw [ih _ _ _ h.2]; simp
      · by_cases h3 : c = ')'
        · subst h3
          simp only [h1, h2, if_false, if_true, Bool.and_eq_true, bne_iff_ne, ne_eq] at h
          simp only [h1, if_false, if_true, h.1]
          rw [ih _ _ _ h.2]; simp
        · simp only [h1, h2, h3, if_false] at h
          have hd : ¬ (c = ',' ∧ d = 1) := fun hh => h2 hh.1
          simp only [h1, h3, hd, if_false]
          rw [ih _ _ _ h]; simp

theorem scanPar_unclosed : ∀ (rest : Str) (d : Nat) (left : Str) (args : List Str),
    unclosed rest d = true → scanPar rest d left args = .error .paren := by
  intro rest
  induction rest with
  | nil => intro d left args _; simp [scanPar]
  | cons c r ih =>
    intro d left args h
    rw [scanPar]
    unfold unclosed at h
    by_cases h1 : c = '('
    · simp only [h1, if_true] at h ⊢
      exact ih _ _ _ h
    · by_cases h3 : c = ')'
      · subst h3
        simp only [h1, if_false, if_true, Bool.and_eq_true, bne_iff_ne, ne_eq] at h
        simp only [h1, if_false, if_true, h.1]
        exact ih _ _ _ h.2
      · simp only [h1, h3, if_false] at h
        simp only [h1, h3, if_false]
        split
        · exact ih _ _ _ h
        · exact ih _ _ _ h

/-- scanning over a balanced text without a depth-1 comma returns to depth 1 -/
theorem scanPar_over (tail : Str) : ∀ (inner : Str) (d : Nat) (left : Str) (args : List Str),
    innerOk inner d = true →
    scanPar (inner ++ tail) d left args = scanPar tail 1 (inner.reverse ++ left) args := by
  intro inner
  induction inner with
  | nil =>
    intro d left args h
    simp only [innerOk, beq_iff_eq] at h
    subst h
    simp
  | cons c r ih =>
    intro d left args h
    rw [List.cons_append, scanPar]
    unfold innerOk at h
    by_cases h1 : c = '('
    · simp only [h1, if_true] at h ⊢
      rw [ih _ _ _ h]; simp
    · by_cases h2 : c = ','
      · subst h2
        simp only [h1, if_false, if_true, Bool.and_eq_true, bne_iff_ne, ne_eq] at h
        have h3 : ¬ (',' : Char) = ')' := by decide
        simp only [h1, if_false, h.1, and_false, h3]
        rw [ih _ _ _ h.2]; simp
      · by_cases h3 : c = ')'
        · subst h3
          simp only [h1, h2, if_false, if_true, Bool.and_eq_true, bne_iff_ne, ne_eq] at h
          simp only [h1, if_false, if_true, h.1]
          rw [ih _ _ _ h.2]; simp
        · simp only [h1, h2, h3, if_false] at h
          have hd : ¬ (c = ',' ∧ d = 1) := fun hh => h2 hh.1
          simp only [h1, h3, hd, if_false]
          rw [ih _ _ _ h]; simp

/-- the scan only adds arguments -/
theorem scanPar_args_len : ∀ (right : Str) (d : Nat) (left : Str) (args : List Str)
    (r : List Str × Str), scanPar right d left args = .ok r → args.length + 1 ≤ r.1.length
  | [], _, _, _, _, h => by simp [scanPar] at h
  | c :: rest, depth, left, args, r, h => by
    unfold scanPar at h
    split at h
    · exact scanPar_args_len rest _ _ _ r h
    · split at h
      · have := scanPar_args_len rest _ _ _ r h; simp at this; omega
      · split at h
        · split at h
          · cases h; simp
          · exact scanPar_args_len rest _ _ _ r h
        · exact scanPar_args_len rest _ _ _ r h

/-- a comma at depth 1 of a group: the scan fails or returns two or more arguments -/
theorem scanPar_comma (inner1 rest : Str) (h : innerOk inner1 1 = true) :
    (∃ e, scanPar (inner1 ++ ',' :: rest) 1 [] [] = .error e) ∨
    (∃ as r, scanPar (inner1 ++ ',' :: rest) 1 [] [] = .ok (as, r) ∧ 2 ≤ as.length) := by
  rw [scanPar_over _ inner1 1 [] [] h, scanPar]
  simp only [show ¬ (',' : Char) = '(' by decide, if_false, true_and, if_true]
  cases hs : scanPar rest 1 [] ([] ++ [strip (inner1.reverse ++ []).reverse]) with
  | error e => exact Or.inl ⟨e, rfl⟩
  | ok r =>
    have := scanPar_args_len _ _ _ _ r hs
    exact Or.inr ⟨r.1, r.2, rfl, by simpa using this⟩

/-- A text with a refused operand at a place the scan reaches, or with a group that is never
    closed.  `first`: the operand stands at the start (up to blanks) and is followed by the end of
    the text or `(`, `*`, `/`.  `afterOp`: behind an operator sign after any parenthesis-free
    text.  `inPar` / `afterPar`: inside, or behind, the first parenthesised group (single
    argument).  `open`: the first `(` has no matching `)`.  `comma`: the first group has a comma
    at depth 1 (several arguments). -/
inductive BadText (T : Tables) : Str → Prop
  | first (piece post : Str) : tokPlain piece → stopsAt post → strip piece ≠ [] →
      (∃ e, atomParse T (strip piece) = .error e) → BadText T (piece ++ post)
  | afterOp (pre : Str) (op : Char) (tail : Str) : '(' ∉ pre → (op = '*' ∨ op = '/') →
      BadText T tail → BadText T (pre ++ op :: tail)
  | inPar (pre inner tail : Str) : '(' ∉ pre → innerOk inner 1 = true →
      BadText T (strip inner) → BadText T (pre ++ '(' :: (inner ++ ')' :: tail))
  | afterPar (pre inner tail : Str) : '(' ∉ pre → innerOk inner 1 = true →
      BadText T tail → BadText T (pre ++ '(' :: (inner ++ ')' :: tail))
  | «open» (pre rest : Str) : '(' ∉ pre → unclosed rest 1 = true → BadText T (pre ++ '(' :: rest)
  | comma (pre inner1 rest : Str) : '(' ∉ pre → innerOk inner1 1 = true →
      BadText T (pre ++ '(' :: (inner1 ++ ',' :: rest))

theorem solve_of_tokenize_error (T : Tables) (arg : Str)
    (h : ∀ (f : Nat) (toks : List Tok), ∃ err, tokenize T f arg [] toks = .error err) (f : Nat) :
    ∃ err, solve T f arg = .error err := by
  cases f with
  | zero => exact ⟨.fuel, by rw [solve]⟩
  | succ f' =>
    obtain ⟨err, herr⟩ := h f' []
    exact ⟨err, by rw [solve]; simp [herr]⟩

theorem BadText.tokenize_error {T : Tables} {s : Str} (h : BadText T s) :
    ∀ (f : Nat) (toks : List Tok), ∃ err, tokenize T f s [] toks = .error err := by
  induction h with
  | first piece post hp hpost hne hbad =>
    intro f toks
    exact tokenize_bad_first T piece post hp hpost hne hbad f toks
  | afterOp pre op tail hnp hop _ ih =>
    intro f toks
    refine tokenize_walk T (op :: tail) ?_ pre hnp f [] toks
    intro f left toks
    cases f with
    | zero => exact ⟨.fuel, tokenize_zero T _ _ _⟩
    | succ f' =>
      rw [tokenize]
      cases hfl : flushLeft T left toks with
      | error e => rcases hop with rfl | rfl <;> exact ⟨e, by simp⟩
      | ok toks1 =>
        rcases hop with rfl | rfl
        · obtain ⟨err, herr⟩ := ih f' (toks1 ++ [.mul]); exact ⟨err, by simp [herr]⟩
        · obtain ⟨err, herr⟩ := ih f' (toks1 ++ [.div]); exact ⟨err, by simp [herr]⟩
  | inPar pre inner tail hnp hin _ ih =>
    intro f toks
    refine tokenize_walk T _ ?_ pre hnp f [] toks
    intro f left toks
    cases f with
    | zero => exact ⟨.fuel, tokenize_zero T _ _ _⟩
    | succ f' =>
      rw [tokenize]
      have hscan := scanPar_inner tail inner 1 [] [] hin
      simp only [List.append_nil, List.reverse_reverse, List.nil_append] at hscan
      obtain ⟨err, herr⟩ := solve_of_tokenize_error T (strip inner) ih f'
      cases hfl : flushLeft T left toks with
      | error e => exact ⟨e, by simp⟩
      | ok toks1 => exact ⟨err, by simp [hscan, herr]⟩
  | afterPar pre inner tail hnp hin _ ih =>
    intro f toks
    refine tokenize_walk T _ ?_ pre hnp f [] toks
    intro f left toks
    cases f with
    | zero => exact ⟨.fuel, tokenize_zero T _ _ _⟩
    | succ f' =>
      rw [tokenize]
      have hscan := scanPar_inner tail inner 1 [] [] hin
      simp only [List.append_nil, List.reverse_reverse, List.nil_append] at hscan
      cases hfl : flushLeft T left toks with
      | error e => exact ⟨e, by simp⟩
      | ok toks1 =>
        cases hs : solve T f' (strip inner) with
        | error e => exact ⟨e, by simp [hscan, hs]⟩
        | ok v =>
          obtain ⟨err, herr⟩ := ih f' (toks1 ++ [.par v])
          exact ⟨err, by simp [hscan, hs, herr]⟩
  | «open» pre rest hnp hun =>
    intro f toks
    refine tokenize_walk T _ ?_ pre hnp f [] toks
    intro f left toks
    cases f with
    | zero => exact ⟨.fuel, tokenize_zero T _ _ _⟩
    | succ f' =>
      rw [tokenize]
      have hscan := scanPar_unclosed rest 1 [] [] hun
      cases hfl : flushLeft T left toks with
      | error e => exact ⟨e, by simp⟩
      | ok toks1 => exact ⟨.paren, by simp [hscan]⟩

  | comma pre inner1 rest hnp hin =>
    intro f toks
    refine tokenize_walk T _ ?_ pre hnp f [] toks
    intro f left toks
    cases f with
    | zero => exact ⟨.fuel, tokenize_zero T _ _ _⟩
    | succ f' =>
      rw [tokenize]
      cases hfl : flushLeft T left toks with
      | error e => exact ⟨e, by simp⟩
      | ok toks1 =>
        rcases scanPar_comma inner1 rest hin with ⟨e, he⟩ | ⟨as, r, he, hlen⟩
        · exact ⟨e, by simp [he]⟩
        · refine ⟨.paren, ?_⟩
          simp only [if_true, he]
          match as, hlen with
          | [], h => simp at h
          | [x], h => simp at h
          | x :: y :: zs, _ => rfl

theorem unitSolver_badText (T : Tables) (s : Str) (h : BadText T s) :
    ∃ err, unitSolver T s = .error err := by
  obtain ⟨err, herr⟩ := h.tokenize_error (2 * s.length + 1) []
  exact ⟨err, unitSolver_of_tokenize_error T s err herr⟩

end SciVerif.C03
