import SciVerif.Lemmas.C03h

/-! C03 helper lemmas, part q: TEXT-level rejection.  An operand text of a compound expression that
    the atom parser refuses makes the whole `UnitSolver(text)` fail — for every text in which the
    operand stands in front of the first parenthesis, whatever follows it. -/
namespace SciVerif.C03

/-- where the tokenising loop hands the collected operand text to the atom parser: end of the text
    or one of the characters `(`, `*`, `/` -/
def stopsAt (post : Str) : Prop :=
  post = [] ∨ ∃ c r, post = c :: r ∧ (c = '(' ∨ c = '*' ∨ c = '/')

/-- the loop shifts the characters of `piece` onto `left`, then flushes: a refused operand text is
    an error of the loop -/
theorem tokenize_bad_piece (T : Tables) (post : Str) (hpost : stopsAt post) :
    ∀ (piece : Str), tokPlain piece → ∀ (left : Str) (toks : List Tok) (f : Nat), piece.length + 1 ≤ f →
    strip (piece.reverse ++ left).reverse ≠ [] →
    (∃ e, atomParse T (strip (piece.reverse ++ left).reverse) = .error e) →
    ∃ err, tokenize T f (piece ++ post) left toks = .error err := by
  intro piece
  induction piece with
  | nil =>
    intro _ left toks f hf hne hbad
    obtain ⟨e, he⟩ := hbad
    obtain ⟨f', rfl⟩ : ∃ f', f = f' + 1 := ⟨f - 1, by simp at hf; omega⟩
    simp only [List.reverse_nil, List.nil_append] at hne he
    have hfl : flushLeft T left toks = .error e := by
      unfold flushLeft
      simp [hne, he]
    rcases hpost with rfl | ⟨c, r, rfl, hc⟩
    · exact ⟨e, by simp [tokenize, hfl]⟩
    · rcases hc with rfl | rfl | rfl
      · exact ⟨e, by simp [tokenize, hfl]⟩
      · exact ⟨e, by simp [tokenize, hfl]⟩
      · exact ⟨e, by simp [tokenize, hfl]⟩
  | cons c rest ih =>
    intro hp left toks f hf hne hbad
    obtain ⟨h1, h2, h3⟩ := hp c (by simp)
    have hrest : tokPlain rest := fun x hx => hp x (List.mem_cons_of_mem _ hx)
    obtain ⟨f', rfl⟩ : ∃ f', f = f' + 1 := ⟨f - 1, by simp at hf; omega⟩
    have e1 : (c :: rest).reverse ++ left = rest.reverse ++ c :: left := by simp
    rw [e1] at hne hbad
    obtain ⟨err, herr⟩ := ih hrest (c :: left) toks f' (by simp at hf; omega) hne hbad
    refine ⟨err, ?_⟩
    rw [List.cons_append, tokenize]
    simp [h1, h2, h3, herr]

/-- … also when the refused operand follows an operator sign behind any parenthesis-free text -/
theorem tokenize_bad_after (T : Tables) (piece post : Str) (hp : tokPlain piece) (hpost : stopsAt post)
    (op : Char) (hop : op = '*' ∨ op = '/') (hne : strip piece ≠ [])
    (hbad : ∃ e, atomParse T (strip piece) = .error e) :
    ∀ (pre : Str), '(' ∉ pre → ∀ (left : Str) (toks : List Tok) (f : Nat),
    pre.length + piece.length + 2 ≤ f →
    ∃ err, tokenize T f (pre ++ op :: (piece ++ post)) left toks = .error err := by
  have hB : ∀ (toks : List Tok) (f : Nat), piece.length + 1 ≤ f →
      ∃ err, tokenize T f (piece ++ post) [] toks = .error err := by
    intro toks f hf
    exact tokenize_bad_piece T post hpost piece hp [] toks f hf (by simpa using hne) (by simpa using hbad)
  intro pre
  induction pre with
  | nil =>
    intro _ left toks f hf
    obtain ⟨f', rfl⟩ : ∃ f', f = f' + 1 := ⟨f - 1, by simp at hf; omega⟩
    simp only [List.nil_append]
    cases hfl : flushLeft T left toks with
    | error e =>
      rcases hop with rfl | rfl
      · exact ⟨e, by rw [tokenize]; simp [hfl]⟩
      · exact ⟨e, by rw [tokenize]; simp [hfl]⟩
    | ok toks1 =>
      rcases hop with rfl | rfl
      · obtain ⟨err, herr⟩ := hB (toks1 ++ [.mul]) f' (by simp at hf; omega)
        exact ⟨err, by rw [tokenize]; simp [hfl, herr]⟩
      · obtain ⟨err, herr⟩ := hB (toks1 ++ [.div]) f' (by simp at hf; omega)
        exact ⟨err, by rw [tokenize]; simp [hfl, herr]⟩
  | cons c pre' ih =>
    intro hnp left toks f hf
    have hc : c ≠ '(' := fun h => hnp (by simp [h])
    have hnp' : '(' ∉ pre' := fun h => hnp (List.mem_cons_of_mem _ h)
    obtain ⟨f', rfl⟩ : ∃ f', f = f' + 1 := ⟨f - 1, by simp at hf; omega⟩
    have hf' : pre'.length + piece.length + 2 ≤ f' := by simp at hf; omega
    rw [List.cons_append, tokenize]
    by_cases hm : c = '*'
    · subst hm
      cases hfl : flushLeft T left toks with
      | error e => exact ⟨e, by simp⟩
      | ok toks1 =>
        obtain ⟨err, herr⟩ := ih hnp' [] (toks1 ++ [.mul]) f' hf'
        exact ⟨err, by simp [herr]⟩
    · by_cases hd : c = '/'
      · subst hd
        cases hfl : flushLeft T left toks with
        | error e => exact ⟨e, by simp⟩
        | ok toks1 =>
          obtain ⟨err, herr⟩ := ih hnp' [] (toks1 ++ [.div]) f' hf'
          exact ⟨err, by simp [herr]⟩
      · obtain ⟨err, herr⟩ := ih hnp' (c :: left) toks f' hf'
        exact ⟨err, by simp [hc, hm, hd, herr]⟩

/-- an error of the tokenising loop is an error of `UnitSolver(text)` -/
theorem unitSolver_of_tokenize_error (T : Tables) (s : Str) (err : Err)
    (h : tokenize T (2 * s.length + 1) s [] [] = .error err) : unitSolver T s = .error err := by
  simp [unitSolver, solve, h]

/-- the lead in front of the refused operand: nothing, or any parenthesis-free text ending in an
    operator sign -/
def leadOk (lead : Str) : Prop :=
  lead = [] ∨ ∃ pre op, lead = pre ++ [op] ∧ (op = '*' ∨ op = '/') ∧ '(' ∉ pre

theorem unitSolver_bad_operand (T : Tables) (lead piece post : Str) (hl : leadOk lead)
    (hp : tokPlain piece) (hpost : stopsAt post) (hne : strip piece ≠ [])
    (hbad : ∃ e, atomParse T (strip piece) = .error e) :
    ∃ err, unitSolver T (lead ++ piece ++ post) = .error err := by
  rcases hl with rfl | ⟨pre, op, rfl, hop, hnp⟩
  · obtain ⟨err, herr⟩ := tokenize_bad_piece T post hpost piece hp [] []
      (2 * ([] ++ piece ++ post).length + 1) (by simp; omega) (by simpa using hne) (by simpa using hbad)
    exact ⟨err, unitSolver_of_tokenize_error T _ err (by simpa using herr)⟩
  · obtain ⟨err, herr⟩ := tokenize_bad_after T piece post hp hpost op hop hne hbad pre hnp [] []
      (2 * (pre ++ [op] ++ piece ++ post).length + 1) (by simp; omega)
    exact ⟨err, unitSolver_of_tokenize_error T _ err (by simpa using herr)⟩

end SciVerif.C03
