import SciVerif.Lemmas.C17l
import SciVerif.Lemmas.C17x

/-! Refinement (C17), part 15: from the bare main loop (`foldlM step`) to the functions that are
    run against the real code — `parse` / `parseC` (main loop with `@case` state, then the final
    validation loop) — and the assembly of the initial environment (remote sources, base). -/
namespace SciVerif.C17

/-! ### the lines of `NLine` are never clause lines -/

theorem itemAt_notCase (i : Nat) (nm : Str) (it : Item) (h : isCase it = false) :
    isCase (itemAt i nm it) = false := by
  cases it with
  | node n => simp only [itemAt]; split <;> rfl
  | case a b => simp [isCase] at h
  | prop p => rfl
  | unitdef a b c => rfl
  | unitref a b c => rfl
  | optref a b => rfl
  | unitimp a b => rfl

theorem conc_notCase (s : SStmt) (it : Item) (h : conc s = some it) : isCase it = false := by
  unfold conc at h
  split at h <;> first | (cases h; rfl) | cases h

theorem hline_item_notCase (l : HLine) (it : Item) (h : l.item = some it) : isCase it = false := by
  cases l with
  | group i nm => simp only [HLine.item, Option.some.injEq] at h; subst h; rfl
  | stmt i nm s =>
    simp only [HLine.item] at h
    cases hc : conc s with
    | none => simp [hc] at h
    | some it0 =>
      simp only [hc, Option.map_some, Option.some.injEq] at h
      subst h
      exact itemAt_notCase i nm it0 (conc_notCase s it0 hc)
  | prop path p => simp only [HLine.item, Option.some.injEq] at h; subst h; rfl

theorem nline_item_notCase (l : NLine) (it : Item) (h : l.item = some it) : isCase it = false := by
  cases l with
  | base l0 => exact hline_item_notCase l0 it h
  | imp i pre dest source q => simp only [NLine.item, Option.some.injEq] at h; subst h; rfl

theorem nlines_notCase (lines : List NLine) (items : List Item) (hc : lines.mapM NLine.item = some items) :
    ∀ it ∈ items, isCase it = false := by
  induction lines generalizing items with
  | nil => simp at hc; subst hc; simp
  | cons l rest ih =>
    simp only [List.mapM_cons] at hc
    cases hli : l.item with
    | none => simp [hli] at hc
    | some it =>
      cases hcr : rest.mapM NLine.item with
      | none => simp [hli, hcr] at hc
      | some its =>
        simp [hli, hcr] at hc
        subst hc
        intro x hx
        simp only [List.mem_cons] at hx
        rcases hx with rfl | hx
        · exact nline_item_notCase l x hli
        · exact ih its hcr x hx

/-! ### the final validation loop passes on an environment with `Inv` -/

theorem validate_of_inv (tbl : UnitTable) (env : Env) (h : Inv tbl env) : validate env = .ok env := by
  unfold validate
  have : env.nodes.any (fun n => n.defined && n.value.isNone) = false := by
    rw [List.any_eq_false]
    intro n hn
    obtain ⟨_, ⟨v, hv, _⟩, _⟩ := h.1 n hn
    simp [hv]
  simp [this]

theorem parse_of_fold (tbl : UnitTable) (env env' : Env) (items : List Item)
    (hf : items.foldlM (step tbl) env = .ok env') (hinv : Inv tbl env') :
    parse tbl env items = .ok env' := by
  simp only [parse, hf, validate_of_inv tbl env' hinv]

theorem parseC_of_fold (tbl : UnitTable) (env env' : Env) (items : List Item)
    (hnc : ∀ it ∈ items, isCase it = false)
    (hf : items.foldlM (step tbl) env = .ok env') (hinv : Inv tbl env') :
    parseC tbl env items = .ok env' := by
  simp only [parseC, foldlM_stepC_none tbl items env hnc, hf, validate_of_inv tbl env' hinv]

/-! ### assembling the initial environment -/

/-- a parsed remote file `envS` becomes the source `name` of `env` (`Environment.sources[name]`
    holds the nodes and the custom units of the nested parse) -/
def withSource (env : Env) (name : Str) (envS : Env) : Env :=
  { env with sources := env.sources ++ [(name, envS.nodes)], srcUnits := env.srcUnits ++ [(name, envS.units)] }

def sWithSource (s : SEnv) (name : Str) (sS : SEnv) : SEnv :=
  { s with sources := s.sources ++ [(name, sS.nodes)], srcUnits := s.srcUnits ++ [(name, sS.units)] }

theorem inv_withSource (tbl : UnitTable) (env envS : Env) (name : Str) (h : Inv tbl env) (hS : Inv tbl envS) :
    Inv tbl (withSource env name envS) := by
  refine ⟨h.1, ?_⟩
  intro s hs n hn
  simp only [withSource, List.mem_append, List.mem_singleton] at hs
  rcases hs with hs | rfl
  · exact h.2 s hs n hn
  · exact hS.1 n hn

theorem abs_withSource (env envS : Env) (name : Str) :
    absEnv (withSource env name envS) = sWithSource (absEnv env) name (absEnv envS) := by
  simp [absEnv, withSource, sWithSource]

end SciVerif.C17

namespace SciVerif.C17

/-- a check `k` on the environment `parseC` returns (vacuous when the parse fails) -/
def afterB (tbl : UnitTable) (env : Env) (items : List Item) (k : Env → Bool) : Bool :=
  match parseC tbl env items with
  | .ok e => k e
  | .error _ => true

/-- one checked stage: `invB` + `runNB` accept, the specification accepts → `parseC` and `parse`
    accept, abstraction of the result is the specification's, `Inv` again -/
theorem refine_parse (tbl : UnitTable) (lines : List NLine) (items : List Item) (env : Env) (s' : SEnv)
    (hinv : Inv tbl env) (hchk : runNB tbl env lines = true) (hc : lines.mapM NLine.item = some items)
    (h : sRun tbl (absEnv env) (lines.filterMap NLine.stmt?) = .ok s') :
    ∃ env', parseC tbl env items = .ok env' ∧ parse tbl env items = .ok env' ∧ absEnv env' = s' ∧ Inv tbl env' := by
  obtain ⟨env', hf, ha, hi⟩ := refine_runN tbl lines items env s' hinv (runNB_sound tbl env lines hchk) hc h
  exact ⟨env', parseC_of_fold tbl env env' items (nlines_notCase lines items hc) hf hi,
    parse_of_fold tbl env env' items hf hi, ha, hi⟩

theorem refine_two_stage (tbl : UnitTable) (l1 l2 : List NLine) (i1 i2 : List Item) (env : Env) (s1 s2 : SEnv)
    (f : Env → Env) (g : SEnv → SEnv)
    (hfg : ∀ e, Inv tbl e → Inv tbl (f e) ∧ absEnv (f e) = g (absEnv e))
    (hinv : Inv tbl env) (hchk1 : runNB tbl env l1 = true) (hc1 : l1.mapM NLine.item = some i1)
    (h1 : sRun tbl (absEnv env) (l1.filterMap NLine.stmt?) = .ok s1)
    (hchk2 : afterB tbl env i1 (fun e => runNB tbl (f e) l2) = true) (hc2 : l2.mapM NLine.item = some i2)
    (h2 : sRun tbl (g s1) (l2.filterMap NLine.stmt?) = .ok s2) :
    ∃ e1 e2, parseC tbl env i1 = .ok e1 ∧ absEnv e1 = s1 ∧ parseC tbl (f e1) i2 = .ok e2 ∧
      absEnv e2 = s2 ∧ Inv tbl e2 := by
  obtain ⟨e1, hp1, _, ha1, hi1⟩ := refine_parse tbl l1 i1 env s1 hinv hchk1 hc1 h1
  have hr : runNB tbl (f e1) l2 = true := by simpa [afterB, hp1] using hchk2
  obtain ⟨hif, haf⟩ := hfg e1 hi1
  rw [← ha1, ← haf] at h2
  obtain ⟨e2, hp2, _, ha2, hi2⟩ := refine_parse tbl l2 i2 (f e1) s2 hif hr hc2 h2
  exact ⟨e1, e2, hp1, ha1, hp2, ha2, hi2⟩

end SciVerif.C17
