import SciVerif.Lemmas.C17q

/-! Refinement (C17), part 11: import lines BELOW an indented group.  `ImportNode.parse` gives
    every imported copy the indent of the import line; the main loop then registers each copy with
    the hierarchy stack, so every copy lands below the same chain of parents (each copy pops its
    predecessor, which has the same indent). -/
namespace SciVerif.C17

theorem popParents_idem (i : Nat) (ps : List (Nat × Str)) :
    popParents i (popParents i ps) = popParents i ps := by
  induction ps with
  | nil => rfl
  | cons p t ih =>
    by_cases h : i ≤ p.1
    · simp only [popParents, h, if_true, ih]
    · simp only [popParents, h, if_false]

theorem popParents_regStackOf (i : Nat) (ps : List (Nat × Str)) (nm : Str) :
    popParents i (regStackOf ps i nm) = popParents i ps := by
  simp only [regStackOf, popParents, Nat.le_refl, if_true, popParents_idem]

/-- the flat twin of a copy that stands at indent `c.indent` below the parents `P`: indent 0,
    the full dotted name -/
def flatOf (P : List (Nat × Str)) (c : Node) : Node :=
  { c with name := joinDot (((c.indent, c.name) :: P).reverse.map Prod.snd), indent := 0 }

/-- one imported copy at any indentation -/
theorem import_one_at (tbl : UnitTable) (env : Env) (hgood : ∀ n ∈ env.nodes, Good tbl n) (c : Node)
    (hc : CopyOK tbl (flatOf (popParents c.indent env.parents) c)) (ss' : List SNode)
    (h : sImportOne tbl (env.nodes.map absN) (absN (flatOf (popParents c.indent env.parents) c)) = some ss') :
    ∃ env', processNode tbl env c = .ok env' ∧ env'.nodes.map absN = ss' ∧
      (∀ n ∈ env'.nodes, Good tbl n) ∧ env'.sources = env.sources ∧ env'.units = env.units ∧
      env'.srcUnits = env.srcUnits ∧ env'.parents = regStackOf env.parents c.indent c.name := by
  obtain ⟨env1, hp, habs, hg1, hs1, hu1, hq1⟩ := import_one tbl env hgood _ hc ss' h
  obtain ⟨env2, hp2, h1, h2, h3, h4, h5⟩ := processNode_at tbl env c
    (joinDot (((c.indent, c.name) :: popParents c.indent env.parents).reverse.map Prod.snd)) rfl env1 hp
  refine ⟨env2, hp2, ?_, EqIL_good h1 hg1, h2.trans hs1, h3.trans hu1, h5.trans hq1, h4⟩
  rw [EqIL_abs h1]; exact habs

/-- all imported copies of one import line at indent `i`: each lands below the same parents -/
theorem import_all_at (tbl : UnitTable) (i : Nat) (P : List (Nat × Str)) (cs : List Node) (env : Env)
    (hP : popParents i env.parents = P)
    (hgood : ∀ n ∈ env.nodes, Good tbl n)
    (hok : ∀ c ∈ cs, c.indent = i ∧ CopyOK tbl (flatOf P c)) (ss' : List SNode)
    (h : sImportAll tbl (env.nodes.map absN) (cs.map (fun c => absN (flatOf P c))) = some ss') :
    ∃ env', cs.foldlM (processNode tbl) env = .ok env' ∧ env'.nodes.map absN = ss' ∧
      (∀ n ∈ env'.nodes, Good tbl n) ∧ env'.sources = env.sources ∧ env'.units = env.units ∧
      env'.srcUnits = env.srcUnits := by
  induction cs generalizing env with
  | nil =>
    simp only [List.map_nil, sImportAll, Option.some.injEq] at h
    exact ⟨env, rfl, h, hgood, rfl, rfl, rfl⟩
  | cons c rest ih =>
    simp only [List.map_cons, sImportAll] at h
    obtain ⟨hci, hcok⟩ := hok c (by simp)
    have hPc : popParents c.indent env.parents = P := by rw [hci]; exact hP
    cases h1 : sImportOne tbl (env.nodes.map absN) (absN (flatOf P c)) with
    | none => simp [h1] at h
    | some s1 =>
      simp only [h1] at h
      obtain ⟨env1, hp, habs, hg1, hs1, hu1, hq1, hpar⟩ := import_one_at tbl env hgood c
        (by rw [hPc]; exact hcok) s1 (by rw [hPc]; exact h1)
      rw [← habs] at h
      have hP1 : popParents i env1.parents = P := by
        rw [hpar, hci, popParents_regStackOf]; exact hP
      obtain ⟨env', hrun, habs', hg', hs', hu', hq'⟩ := ih env1 hP1 hg1 (fun x hx => hok x (by simp [hx])) h
      refine ⟨env', ?_, habs', hg', hs'.trans hs1, hu'.trans hu1, hq'.trans hq1⟩
      simp only [List.foldlM_cons, hp, bind, Except.bind]
      exact hrun

/-! ### the import line at indent `i` -/

/-- the import line `pre {source?q}` (or `{source?q}` when `pre = []`) written at indent `i` -/
def impAt (i : Nat) (pre : List Str) (source : Option Str) (q : SQuery) : Node :=
  { impLine pre source q with indent := i }

/-- the hierarchy puts every node imported by the line `pre {…}` written at indent `i` below
    `dest`: the chain of parents of that line, then `pre`, then the node's re-rooted name, is
    `dest` followed by that name -/
def ImpPathOK (ps : List (Nat × Str)) (i : Nat) (pre dest : List Str) : Prop :=
  ∀ nm, joinDot (((i, impName pre nm) :: popParents i ps).reverse.map Prod.snd) = impName dest nm

/-- an import line at any indentation: whenever the specification accepts the import to `dest`,
    the main loop accepts the line and does the same -/
theorem refine_imp_at (tbl : UnitTable) (env : Env) (hinv : Inv tbl env) (i : Nat) (pre dest : List Str)
    (source : Option Str) (q : SQuery) (s' : SEnv)
    (hfrag : InFrag (absEnv env) (.imp dest source q)) (hpre : '{' ∉ joinDot pre)
    (hpath : ImpPathOK env.parents i pre dest)
    (h : sStep tbl (absEnv env) (.imp dest source q) = .ok s') :
    ∃ env', step tbl env (.node (impAt i pre source q)) = .ok env' ∧ absEnv env' = s' ∧ Inv tbl env' := by
  obtain ⟨hws, hd, hb1, hb2, hq, hsel⟩ := hfrag
  simp only [sStep] at h
  cases hl : sLookup (absEnv env) source with
  | none => simp [hl] at h
  | some ss =>
    have hne := hsel ss hl
    obtain ⟨ns, hreq, hss, hgood⟩ := requestNodes_abs tbl env hinv source hws (renderQ q) ss hl
    obtain ⟨hpq, hqq⟩ := parse_render q hq
    have hsrc : '?' ∉ source.getD [] := by
      cases source with
      | none => simp
      | some x => exact (hws x rfl).2
    have hname : ∀ nm, importName (impLine dest source q).name nm = impName dest nm :=
      fun nm => importName_impLine dest _ nm hb1 hb2
    have hselabs := import_sel_abs q hq dest hd (impLine dest source q) hname ns
    rw [← hss] at hselabs
    have hselne : (select q ss).map (sReroot dest q) ≠ [] := by simpa using hne
    have hemp : ((select q ss).map (sReroot dest q)).isEmpty = false := by
      cases hx : (select q ss).map (sReroot dest q) with
      | nil => exact absurd hx hselne
      | cons a t => rfl
    simp only [hl, hemp, Bool.false_eq_true, if_false] at h
    cases hall : sImportAll tbl (absEnv env).nodes ((select q ss).map (sReroot dest q)) with
    | none => simp [hall] at h
    | some ss' =>
      simp only [hall, Except.ok.injEq] at h
      have hrq : request env (source.getD [] ++ '?' :: renderQ q) .any = .ok (query ns (toQuery q)) := by
        unfold request
        rw [splitQ_render _ _ hsrc hqq]
        simp only [hreq, hpq, countCheck]
      have hqs : query ns (toQuery q) ≠ [] := by
        intro e
        rw [e] at hselabs
        exact hselne hselabs.symm
      have himp : importNodes env (impAt i pre source q) =
          .ok ((query ns (toQuery q)).map (mkCopy (impAt i pre source q))) := by
        unfold importNodes
        have hr : (impAt i pre source q).ref = some (source.getD [] ++ '?' :: renderQ q) := rfl
        simp only [hr, hrq]
        cases hx : query ns (toQuery q) with
        | nil => exact absurd hx hqs
        | cons a t => rfl
      have hflat : ∀ m, flatOf (popParents i env.parents) (mkCopy (impAt i pre source q) m) =
          mkCopy (impLine dest source q) m := by
        intro m
        have e1 : importName (impAt i pre source q).name m.name = impName pre m.name :=
          importName_impLine pre _ m.name hpre hb2
        have e3 : (impAt i pre source q).indent = i := rfl
        have e4 : (impLine dest source q).indent = 0 := rfl
        simp only [flatOf, mkCopy, e1, hname, e3, e4, hpath m.name]
      have hok : ∀ c ∈ (query ns (toQuery q)).map (mkCopy (impAt i pre source q)),
          c.indent = i ∧ CopyOK tbl (flatOf (popParents i env.parents) c) := by
        intro c hcm
        obtain ⟨m, hm, rfl⟩ := List.mem_map.mp hcm
        refine ⟨rfl, ?_⟩
        rw [hflat]
        obtain ⟨n, hn, _, rfl⟩ := (mem_query ns (toQuery q) m).mp hm
        exact good_mkCopy tbl _ rfl (toQuery q) n (hgood n hn)
      have hmap : ((query ns (toQuery q)).map (mkCopy (impAt i pre source q))).map
            (fun c => absN (flatOf (popParents i env.parents) c)) =
          ((query ns (toQuery q)).map (mkCopy (impLine dest source q))).map absN := by
        simp only [List.map_map]
        apply List.map_congr_left
        intro m _
        simp only [Function.comp, hflat]
      rw [← hselabs, ← hmap] at hall
      obtain ⟨env', hrun, habs, hg', hsrcs, hunits, hsu⟩ :=
        import_all_at tbl i (popParents i env.parents) _ env rfl hinv.1 hok ss' hall
      refine ⟨env', ?_, ?_, ⟨hg', by rw [hsrcs]; exact hinv.2⟩⟩
      · have hk : (impAt i pre source q).kw = .imp := rfl
        simp only [step, hk, if_true, himp]
        exact hrun
      · rw [← h]
        simp only [absEnv, habs, hsrcs, hunits, hsu]

/-! ### nested programs with import lines at any indentation -/

/-- a line of a nested program: a line of `HLine` (group line, definition / modification /
    root import, property line) or an import line `pre {source?q}` written at indent `i`, whose
    imported nodes the specification places below `dest` -/
inductive NLine where
  | base (l : HLine)
  | imp (i : Nat) (pre dest : List Str) (source : Option Str) (q : SQuery)

def NLine.item : NLine → Option Item
  | .base l => l.item
  | .imp i pre _ source q => some (.node (impAt i pre source q))

def NLine.stmt? : NLine → Option SStmt
  | .base l => l.stmt?
  | .imp _ _ dest source q => some (.imp dest source q)

/-- side conditions along the joint run: those of `RunH` for the lines of `HLine`; for an import
    line at indent `i`: `InFrag`, no `{` in the written prefix, and the hierarchy places the
    imported nodes below `dest` (`ImpPathOK`) -/
def RunN (tbl : UnitTable) : Env → List NLine → Prop
  | _, [] => True
  | env, .base l :: rest =>
    RunH tbl env [l] ∧ ∀ it env', l.item = some it → step tbl env it = .ok env' → RunN tbl env' rest
  | env, .imp i pre dest source q :: rest =>
    InFrag (absEnv env) (.imp dest source q) ∧ '{' ∉ joinDot pre ∧ ImpPathOK env.parents i pre dest ∧
    ∀ env', step tbl env (.node (impAt i pre source q)) = .ok env' → RunN tbl env' rest

/-- one line of `HLine`, from the whole-run theorem on the one-line program -/
theorem refine_lineH (tbl : UnitTable) (l : HLine) (it : Item) (env : Env) (s1 : SEnv)
    (hinv : Inv tbl env) (hrun : RunH tbl env [l]) (hc : l.item = some it)
    (h : sRun tbl (absEnv env) ([l].filterMap HLine.stmt?) = .ok s1) :
    ∃ env1, step tbl env it = .ok env1 ∧ absEnv env1 = s1 ∧ Inv tbl env1 := by
  obtain ⟨env1, hr, ha, hi⟩ := refine_runH tbl [l] [it] env s1 hinv hrun (by simp [hc]) h
  refine ⟨env1, ?_, ha, hi⟩
  simp only [List.foldlM_cons, List.foldlM_nil, bind, Except.bind, pure, Except.pure] at hr
  cases hs : step tbl env it with
  | error e => simp [hs] at hr
  | ok e1 => simp only [hs] at hr; exact hr

theorem refine_runN (tbl : UnitTable) (lines : List NLine) (items : List Item) (env : Env) (s' : SEnv)
    (hinv : Inv tbl env) (hrun : RunN tbl env lines) (hc : lines.mapM NLine.item = some items)
    (h : sRun tbl (absEnv env) (lines.filterMap NLine.stmt?) = .ok s') :
    ∃ env', items.foldlM (step tbl) env = .ok env' ∧ absEnv env' = s' ∧ Inv tbl env' := by
  induction lines generalizing items env with
  | nil =>
    simp at hc; subst hc
    simp only [List.filterMap_nil, sRun, Except.ok.injEq] at h
    exact ⟨env, rfl, h, hinv⟩
  | cons l rest ih =>
    simp only [List.mapM_cons] at hc
    cases hli : l.item with
    | none => simp [hli] at hc
    | some it =>
      cases hcr : rest.mapM NLine.item with
      | none => simp [hli, hcr] at hc
      | some its =>
        simp [hli, hcr] at hc
        subst hc
        cases l with
        | base l0 =>
          simp only [NLine.item] at hli
          obtain ⟨hH, hnext⟩ := hrun
          cases hst : l0.stmt? with
          | none =>
            simp only [List.filterMap_cons, NLine.stmt?, hst] at h
            obtain ⟨env1, hstep, habs, hinv1⟩ := refine_lineH tbl l0 it env (absEnv env) hinv hH hli
              (by simp [hst, sRun])
            rw [← habs] at h
            obtain ⟨env', hr, ha, hi'⟩ := ih its env1 hinv1 (hnext it env1 hli hstep) hcr h
            refine ⟨env', ?_, ha, hi'⟩
            simp only [List.foldlM_cons, hstep, bind, Except.bind]
            exact hr
          | some s =>
            simp only [List.filterMap_cons, NLine.stmt?, hst, sRun] at h
            cases hs : sStep tbl (absEnv env) s with
            | error e => simp [hs] at h
            | ok s1 =>
              simp only [hs] at h
              obtain ⟨env1, hstep, habs, hinv1⟩ := refine_lineH tbl l0 it env s1 hinv hH hli
                (by simp [hst, sRun, hs])
              rw [← habs] at h
              obtain ⟨env', hr, ha, hi'⟩ := ih its env1 hinv1 (hnext it env1 hli hstep) hcr h
              refine ⟨env', ?_, ha, hi'⟩
              simp only [List.foldlM_cons, hstep, bind, Except.bind]
              exact hr
        | imp i pre dest source q =>
          simp only [NLine.item, Option.some.injEq] at hli
          subst hli
          simp only [List.filterMap_cons, NLine.stmt?, sRun] at h
          cases hs : sStep tbl (absEnv env) (.imp dest source q) with
          | error e => simp [hs] at h
          | ok s1 =>
            simp only [hs] at h
            obtain ⟨hf, hpre, hpath, hnext⟩ := hrun
            obtain ⟨env1, hstep, habs, hinv1⟩ := refine_imp_at tbl env hinv i pre dest source q s1 hf hpre hpath hs
            rw [← habs] at h
            obtain ⟨env', hr, ha, hi'⟩ := ih its env1 hinv1 (hnext env1 hstep) hcr h
            refine ⟨env', ?_, ha, hi'⟩
            simp only [List.foldlM_cons, hstep, bind, Except.bind]
            exact hr

/-- a program without indented import lines: `RunH` gives `RunN` -/
theorem runN_of_runH (tbl : UnitTable) (lines : List HLine) (env : Env) (h : RunH tbl env lines) :
    RunN tbl env (lines.map NLine.base) := by
  induction lines generalizing env with
  | nil => trivial
  | cons l rest ih =>
    cases l with
    | group i nm =>
      refine ⟨trivial, ?_⟩
      intro it env' hit hst
      simp only [HLine.item, Option.some.injEq] at hit
      subst hit
      rw [step_group] at hst
      simp only [Except.ok.injEq] at hst
      subst hst
      exact ih _ h
    | stmt i nm s =>
      obtain ⟨hf, hp, hnext⟩ := h
      refine ⟨⟨hf, hp, fun _ _ _ _ => trivial⟩, ?_⟩
      intro it env' hit hst
      exact ih _ (hnext it env' hit hst)
    | prop path p =>
      obtain ⟨hok, hnext⟩ := h
      refine ⟨⟨hok, fun _ _ => trivial⟩, ?_⟩
      intro it env' hit hst
      simp only [HLine.item, Option.some.injEq] at hit
      subst hit
      exact ih _ (hnext env' hst)

/-- `joinDot` of a list extended by one entry -/
theorem joinDot_snoc (a : List Str) (x : Str) : joinDot (a ++ [x]) = impName a x := by
  cases a with
  | nil => rfl
  | cons d ds =>
    have := joinDot_append (d :: ds) [x] (by simp) (by simp)
    simpa [impName, joinDot] using this

/-- The side condition `ImpPathOK` in its natural form: the destination of an import line
    `pre {…}` at indent `i` is the chain of the names of the lines that remain on the hierarchy
    stack (the nearest earlier lines with smaller indentation, outermost first — `C17_paths`),
    followed by the written prefix `pre`. -/
theorem impPathOK_parents (ps : List (Nat × Str)) (i : Nat) (pre : List Str) :
    ImpPathOK ps i pre (((popParents i ps).reverse.map Prod.snd) ++ pre) := by
  intro nm
  simp only [List.reverse_cons, List.map_append, List.map_cons, List.map_nil]
  generalize (popParents i ps).reverse.map Prod.snd = base
  rw [joinDot_snoc]
  cases pre with
  | nil => simp [impName]
  | cons p pt =>
    cases base with
    | nil => simp [impName]
    | cons d ds =>
      have h1 := joinDot_append (d :: ds) (p :: pt) (by simp) (by simp)
      simp only [impName, List.cons_append] at h1 ⊢
      rw [h1]
      simp

/-- the destination path of an import line `pre {…}` at indent `i`, computed from the hierarchy
    stack: the names left on the stack and the written prefix, joined and split at the dots (a
    group line may itself carry a dotted name) -/
def impDest (ps : List (Nat × Str)) (i : Nat) (pre : List Str) : List Str :=
  match (popParents i ps).reverse.map Prod.snd ++ pre with
  | [] => []
  | d :: ds => splitDot (joinDot (d :: ds))

theorem impName_cons (d : Str) (ds : List Str) (nm : Str) :
    impName (d :: ds) nm = joinDot (d :: ds) ++ '.' :: nm := rfl

/-- with the computed destination, `ImpPathOK` and `WFDest` hold for every stack and prefix -/
theorem impDest_ok (ps : List (Nat × Str)) (i : Nat) (pre : List Str) :
    ImpPathOK ps i pre (impDest ps i pre) ∧ WFDest (impDest ps i pre) := by
  have h0 := impPathOK_parents ps i pre
  unfold impDest
  cases hL : (popParents i ps).reverse.map Prod.snd ++ pre with
  | nil =>
    rw [hL] at h0
    exact ⟨h0, by simp [WFDest]⟩
  | cons d ds =>
    rw [hL] at h0
    simp only
    have hwf := wf_splitDot (joinDot (d :: ds))
    refine ⟨?_, hwf.2⟩
    intro nm
    rw [h0 nm]
    cases hsd : splitDot (joinDot (d :: ds)) with
    | nil => exact absurd hsd hwf.1
    | cons e es =>
      rw [impName_cons, impName_cons, ← hsd, joinDot_splitDot]

end SciVerif.C17
