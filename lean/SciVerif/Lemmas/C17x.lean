import SciVerif.Lemmas.C17b

/-! C17: hosts of an injection other than typed nodes (`$unit`, option lines, `@case` clauses). -/
namespace SciVerif.C17

def isCase : Item → Bool
  | .case _ _ => true
  | _ => false

theorem stepC_none (tbl : UnitTable) (env : Env) (it : Item) (h : isCase it = false) :
    stepC tbl ⟨env, none⟩ it = (match step tbl env it with
      | .ok e => .ok ⟨e, none⟩
      | .error e => .error e) := by
  cases it with
  | case i k => simp [isCase] at h
  | node n => simp only [stepC]; cases step tbl env (.node n) <;> rfl
  | prop p => simp only [stepC]; cases step tbl env (.prop p) <;> rfl
  | unitdef a b c => simp only [stepC]; cases step tbl env (.unitdef a b c) <;> rfl
  | unitref a b c => simp only [stepC]; cases step tbl env (.unitref a b c) <;> rfl
  | optref a b => simp only [stepC]; cases step tbl env (.optref a b) <;> rfl
  | unitimp a b => simp only [stepC]; cases step tbl env (.unitimp a b) <;> rfl

/-- without `@case` lines the chain-aware loop is the plain main loop -/
theorem foldlM_stepC_none (tbl : UnitTable) (items : List Item) (env : Env)
    (h : ∀ it ∈ items, isCase it = false) :
    items.foldlM (stepC tbl) ⟨env, none⟩ = (match items.foldlM (step tbl) env with
      | .ok e => .ok ⟨e, none⟩
      | .error e => .error e) := by
  induction items generalizing env with
  | nil => rfl
  | cons it rest ih =>
    simp only [List.foldlM_cons]
    rw [stepC_none tbl env it (h it (by simp))]
    cases hs : step tbl env it with
    | error e => simp [bind, Except.bind]
    | ok e =>
      simp only [bind, Except.bind]
      exact ih e (fun x hx => h x (by simp [hx]))

end SciVerif.C17
