import SciVerif.Lemmas.C03l

/-! # C03 helper lemmas: text of Python ints and of `Fraction` — rendering then reading gives the
rebased fraction; `rebase` is idempotent -/
namespace SciVerif.C03

theorem digitChar_spec : ∀ d, d < 10 → (digitChar d).isDigit = true ∧ (digitChar d).toNat - 48 = d := by
  decide

theorem digitsVal_append_single (s : Str) (c : Char) :
    digitsVal (s ++ [c]) = 10 * digitsVal s + (c.toNat - 48) := by
  simp [digitsVal, List.foldl_append]

theorem renderNatAux_spec : ∀ (f n : Nat), n < f →
    renderNatAux f n ≠ [] ∧ (renderNatAux f n).all Char.isDigit = true ∧ digitsVal (renderNatAux f n) = n
  | 0, n, h => by omega
  | f + 1, n, h => by
    unfold renderNatAux
    split
    · rename_i hn
      obtain ⟨h1, h2⟩ := digitChar_spec n hn
      refine ⟨by simp, by simp [h1], ?_⟩
      simp [digitsVal, h2]
    · rename_i hn
      obtain ⟨i1, i2, i3⟩ := renderNatAux_spec f (n / 10) (by omega)
      obtain ⟨h1, h2⟩ := digitChar_spec (n % 10) (Nat.mod_lt _ (by decide))
      refine ⟨by simp, ?_, ?_⟩
      · rw [List.all_append, i2]; simp [h1]
      · rw [digitsVal_append_single, i3, h2]; omega

theorem renderNat_spec (n : Nat) :
    renderNat n ≠ [] ∧ (renderNat n).all Char.isDigit = true ∧ parseNat (renderNat n) = some n := by
  obtain ⟨h1, h2, h3⟩ := renderNatAux_spec (n + 1) n (by omega)
  refine ⟨h1, h2, ?_⟩
  unfold parseNat renderNat
  simp [h1, h2, h3]

theorem dropWhile_all (p : Char → Bool) (l : Str) (h : l.all p = true) : l.dropWhile p = [] := by
  induction l with
  | nil => rfl
  | cons c t ih =>
    simp only [List.all_cons, Bool.and_eq_true] at h
    simp [h.1, ih h.2]

theorem isDigit_ne_sign (c : Char) (h : c.isDigit = true) : c ≠ '+' ∧ c ≠ '-' ∧ c ≠ ':' := by
  refine ⟨?_, ?_, ?_⟩ <;> (intro hc; subst hc; revert h; decide)

/-- `int(str(i)) = i` -/
theorem parseInt_renderInt (i : Int) : parseInt (renderInt i) = some i := by
  obtain ⟨h1, h2, h3⟩ := renderNat_spec i.natAbs
  unfold renderInt
  split
  · rename_i hneg
    simp only [parseInt, h3, Option.map_some, Int.ofNat_eq_natCast]
    congr 1
    omega
  · rename_i hpos
    cases hr : renderNat i.natAbs with
    | nil => exact absurd hr h1
    | cons c t =>
      rw [hr] at h2 h3
      have hc : c.isDigit = true := by
        simp only [List.all_cons, Bool.and_eq_true] at h2; exact h2.1
      obtain ⟨n1, n2, _⟩ := isDigit_ne_sign c hc
      have : parseInt (c :: t) = (parseNat (c :: t)).map Int.ofNat := by
        unfold parseInt
        split
        · rename_i heq; cases heq; exact absurd rfl n1
        · rename_i heq; cases heq; exact absurd rfl n2
        · rfl
      rw [this, h3]
      simp only [Option.map_some, Int.ofNat_eq_natCast]
      congr 1
      omega

theorem renderInt_chars (i : Int) :
    renderInt i ≠ [] ∧ (renderInt i).all isExpChar = true ∧ ∀ c ∈ renderInt i, c ≠ ':' := by
  obtain ⟨h1, h2, _⟩ := renderNat_spec i.natAbs
  have hd : ∀ c ∈ renderNat i.natAbs, c.isDigit = true := by
    rw [List.all_eq_true] at h2; exact h2
  unfold renderInt
  split
  · refine ⟨by simp, ?_, ?_⟩
    · simp only [List.all_cons, Bool.and_eq_true]
      exact ⟨by decide, all_imp digit_isExp _ h2⟩
    · intro c hc
      rcases List.mem_cons.mp hc with rfl | hc
      · decide
      · exact (isDigit_ne_sign c (hd c hc)).2.2
  · exact ⟨h1, all_imp digit_isExp _ h2, fun c hc => (isDigit_ne_sign c (hd c hc)).2.2⟩

/-- a rebased fraction with numerator 0 is `0/1` -/
theorem rebase_num_zero (e : Frac) (h : e.rebase.num = 0) : e.rebase.den = 1 := by
  by_cases hz : e.num = 0
  · have : e.rebase = ⟨0, 1⟩ := by
      unfold Frac.rebase
      simp [hz]
    rw [this]
  · exfalso
    revert h
    unfold Frac.rebase
    simp only [hz, if_false]
    generalize h2 : (if e.den < 0 then (⟨-e.num, -e.den⟩ : Frac) else e) = a2
    have hn : a2.num ≠ 0 := by
      by_cases hd : e.den < 0
      · simp only [hd, if_true] at h2; subst h2; simpa using hz
      · simp only [hd, if_false] at h2; subst h2; exact hz
    split
    · intro h0
      simp only at h0
      have d1 : ((Int.gcd a2.num a2.den : Nat) : Int) ∣ a2.num := Int.gcd_dvd_left _ _
      have := Int.mul_ediv_cancel' d1
      rw [h0] at this
      simp at this
      exact hn this.symm
    · exact hn

/-- reading the text of a fraction gives the rebased fraction: `from_string(str(e)) = rebase(e)` -/
theorem fromString_str (e : Frac) : Frac.fromString e.str = some e.rebase ∧ e.str ≠ [] ∧
    e.str.all isExpChar = true := by
  unfold Frac.str
  simp only
  obtain ⟨n1, n2, n3⟩ := renderInt_chars e.rebase.num
  obtain ⟨d1, d2, d3⟩ := renderInt_chars e.rebase.den
  split
  · rename_i hc
    refine ⟨?_, n1, n2⟩
    unfold Frac.fromString
    have hdw : (renderInt e.rebase.num).dropWhile (· != ':') = [] := by
      apply dropWhile_all
      rw [List.all_eq_true]
      intro c hc; simpa using n3 c hc
    rw [hdw]
    simp only [parseInt_renderInt, Option.map_some, Option.some.injEq]
    rcases hc with h0 | h1
    · have := rebase_num_zero e h0
      cases hr : e.rebase with
      | mk n d => rw [hr] at this; simp at this; subst this; rfl
    · cases hr : e.rebase with
      | mk n d => rw [hr] at h1; simp at h1; subst h1; rfl
  · refine ⟨?_, by simp, ?_⟩
    · unfold Frac.fromString
      have hall : (renderInt e.rebase.num).all (· != ':') = true := by
        rw [List.all_eq_true]; intro c hc; simpa using n3 c hc
      obtain ⟨r1, r2⟩ := run_then_stop (· != ':') (renderInt e.rebase.num) ':' (renderInt e.rebase.den)
        hall (by decide)
      rw [r1, r2]
      simp only [parseInt_renderInt]
    · rw [List.all_append, n2]
      simp only [List.all_cons, d2, Bool.and_true, Bool.true_and]; decide

/-- `rebase` is idempotent (for a non-zero denominator) -/
theorem rebase_idem (e : Frac) (he : e.den ≠ 0) : e.rebase.rebase = e.rebase := by
  -- normal form of the result: positive denominator, coprime (or 0/1)
  have key : (e.rebase.num = 0 ∧ e.rebase.den = 1) ∨
      (e.rebase.num ≠ 0 ∧ 0 < e.rebase.den ∧ Int.gcd e.rebase.num e.rebase.den = 1) := by
    by_cases hz : e.num = 0
    · left
      have : e.rebase = ⟨0, 1⟩ := by unfold Frac.rebase; simp [hz]
      rw [this]; exact ⟨rfl, rfl⟩
    · right
      unfold Frac.rebase
      simp only [hz, if_false]
      generalize h2 : (if e.den < 0 then (⟨-e.num, -e.den⟩ : Frac) else e) = a2
      have hn : a2.num ≠ 0 ∧ 0 < a2.den := by
        by_cases hd : e.den < 0
        · simp only [hd, if_true] at h2; subst h2; exact ⟨by simpa using hz, by simp; omega⟩
        · simp only [hd, if_false] at h2; subst h2; exact ⟨hz, by omega⟩
      have hgpos : 0 < Int.gcd a2.num a2.den := Int.gcd_pos_of_ne_zero_left _ hn.1
      split
      · rename_i hg
        have d1 : ((Int.gcd a2.num a2.den : Nat) : Int) ∣ a2.num := Int.gcd_dvd_left _ _
        have d2 : ((Int.gcd a2.num a2.den : Nat) : Int) ∣ a2.den := Int.gcd_dvd_right _ _
        refine ⟨?_, ?_, ?_⟩
        · simp only
          intro h0
          have := Int.mul_ediv_cancel' d1
          rw [h0] at this; simp at this; exact hn.1 this.symm
        · simp only
          exact Int.ediv_pos_of_pos_of_dvd hn.2 (by omega) d2
        · simp only
          exact Int.gcd_div_gcd_div_gcd hgpos
      · rename_i hg
        refine ⟨hn.1, hn.2, ?_⟩
        omega
  rcases key with ⟨h0, h1⟩ | ⟨hn, hd, hg⟩
  · cases hr : e.rebase with
    | mk n d =>
      rw [hr] at h0 h1; simp at h0 h1; subst h0; subst h1
      decide
  · generalize e.rebase = r at hn hd hg
    unfold Frac.rebase
    have : ¬ r.den < 0 := by omega
    simp [hn, this, hg]

end SciVerif.C03
