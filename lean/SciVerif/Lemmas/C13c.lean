import SciVerif.Lemmas.C13b
/-!
Lexer facts for C13 (indentation, blank and comment lines) and the node-list invariant
"one entry per path, in order of first appearance".
-/
namespace SciVerif.C13

theorem replaceAll_head (pat rep : Str) (c : Char) (h : pat.head? ≠ some c) (t : Str) :
    replaceAll pat rep (c :: t) = c :: replaceAll pat rep t := by
  rw [replaceAll]
  have : (pat.isPrefixOf (c :: t) && !pat.isEmpty) = false := by
    cases pat with
    | nil => simp
    | cons d r =>
      have hc : d ≠ c := by simpa using h
      simp [List.isPrefixOf, hc]
  rw [if_neg (by simp [this])]

theorem replaceAll_space (pat rep : Str) (h : pat.head? ≠ some ' ') (t : Str) :
    replaceAll pat rep (' ' :: t) = ' ' :: replaceAll pat rep t := replaceAll_head pat rep ' ' h t

theorem replaceAll_spaces (pat rep : Str) (h : pat.head? ≠ some ' ') (k : Nat) (t : Str) :
    replaceAll pat rep (List.replicate k ' ' ++ t) = List.replicate k ' ' ++ replaceAll pat rep t := by
  induction k with
  | zero => rfl
  | succ n ih => simp [List.replicate_succ, replaceAll_space pat rep h, ih]

theorem encode_spaces (k : Nat) (t : Str) : encode (List.replicate k ' ' ++ t) = List.replicate k ' ' ++ encode t := by
  simp only [encode]
  rw [replaceAll_spaces _ _ (by decide), replaceAll_spaces _ _ (by decide), replaceAll_spaces _ _ (by decide)]

def withIndent (k : Nat) (nd : Node) : Node := { nd with indent := k }

/-- `part_indent`: a line whose (escape-marked) text after `k` blanks starts with a character that is
    neither white space nor `#` is lexed like its body, with indentation `k`. -/
theorem determine_indent (k : Nat) (body : Str) (c : Char) (r : Str) (hb : encode body = c :: r)
    (hc : isWs c = false) (hh : c ≠ '#') :
    determine (List.replicate k ' ' ++ body) = (determineBody (c :: r)).map (withIndent k) := by
  have hdrop : (List.replicate k ' ' ++ c :: r).dropWhile isWs = c :: r := by
    rw [dropWhile_spaces]; simp [List.dropWhile_cons, hc]
  unfold determine
  simp only [encode_spaces, hb]
  have h1 : isBlank (List.replicate k ' ' ++ c :: r) = false := by
    simp [isBlank, hc]
  have h2 : startsComment (List.replicate k ' ' ++ c :: r) = false := by
    simp only [startsComment, dropWs, hdrop]
    simpa using hh
  simp only [h1, h2, hdrop, takeWhile_spaces k c r hc]
  rfl

/-- blank lines and comment lines (at any indentation) are `EmptyNode`s -/
theorem determine_blank (s : Str) (h : isBlank (encode s) = true) : determine s = .ok { kind := .empty } := by
  simp [determine, h]

theorem determine_comment (k : Nat) (c : Str) :
    determine (List.replicate k ' ' ++ '#' :: c) = .ok { kind := .empty } := by
  unfold determine
  simp only [encode_spaces]
  have henc : ∃ r, encode ('#' :: c) = '#' :: r := by
    simp only [encode]
    have e1 : ∀ (pat rep : Str) (t : Str), pat.head? ≠ some '#' →
        replaceAll pat rep ('#' :: t) = '#' :: replaceAll pat rep t :=
      fun pat rep t h => replaceAll_head pat rep '#' h t
    rw [e1 _ _ _ (by decide), e1 _ _ _ (by decide), e1 _ _ _ (by decide)]
    exact ⟨_, rfl⟩
  obtain ⟨r, hr⟩ := henc
  rw [hr]
  have h2 : startsComment (List.replicate k ' ' ++ '#' :: r) = true := by
    simp only [startsComment, dropWs]
    rw [dropWhile_spaces]
    simp [List.dropWhile_cons, isWs]
  simp [h2]

/-! ### mapM over lines -/

theorem mapM_determine_reindent (f : Nat → Nat) :
    ∀ (lines : List (Nat × Str)),
      (∀ l ∈ lines, ∃ c r, encode l.2 = c :: r ∧ isWs c = false ∧ c ≠ '#') →
      (lines.map (fun l => List.replicate (f l.1) ' ' ++ l.2)).mapM determine =
        ((lines.map (fun l => List.replicate l.1 ' ' ++ l.2)).mapM determine).map (List.map (reindent f)) := by
  intro lines
  induction lines with
  | nil => intro _; rfl
  | cons l t ih =>
    intro h
    obtain ⟨c, r, hb, hc, hh⟩ := h l (by simp)
    have iht := ih (fun x hx => h x (List.mem_cons_of_mem _ hx))
    simp only [List.map_cons, List.mapM_cons, determine_indent _ _ c r hb hc hh, iht]
    cases determineBody (c :: r) with
    | error x => rfl
    | ok nd =>
      simp only [Except.map, bind, Except.bind]
      cases (t.map (fun l => List.replicate l.1 ' ' ++ l.2)).mapM determine with
      | error x => rfl
      | ok nds => rfl

/-! ### one entry per path, first-appearance order -/

theorem setLastConstant_names : ∀ (ns ns' : List ENode), setLastConstant ns = .ok ns' →
    ns'.map (·.name) = ns.map (·.name) := by
  intro ns
  induction ns with
  | nil => intro ns' h; cases h
  | cons e t ih =>
    intro ns' h
    cases t with
    | nil => simp only [setLastConstant, Except.ok.injEq] at h; subst h; rfl
    | cons e2 t2 =>
      simp only [setLastConstant] at h
      cases hs : setLastConstant (e2 :: t2) with
      | error x => rw [hs] at h; cases h
      | ok t' =>
        rw [hs] at h
        simp only [Except.map, Except.ok.injEq] at h
        subst h
        simp [ih t' hs]

/-- the names after one loop iteration: unchanged, or one *new* name appended at the end -/
theorem stepPlain_names (P : Params) (s s' : State) (nd : Node) (h : stepPlain P s nd = .ok s') :
    s'.nodes.map (·.name) = s.nodes.map (·.name) ∨
    ∃ p, p ∉ s.nodes.map (·.name) ∧ s'.nodes.map (·.name) = s.nodes.map (·.name) ++ [p] := by
  unfold stepPlain at h
  split at h
  · cases h; exact .inl rfl
  · cases h; exact .inl rfl
  · cases h
  · cases hs : setLastConstant s.nodes with
    | error x => rw [hs] at h; cases h
    | ok ns =>
      rw [hs] at h
      simp only [Except.map, Except.ok.injEq] at h
      subst h
      exact .inl (setLastConstant_names _ _ hs)
  · split at h <;> (cases h; exact .inl rfl)
  all_goals
    cases hnm : nd.name with
    | none => rw [hnm] at h; cases h
    | some nm =>
      rw [hnm] at h
      simp only [bind, Except.bind] at h
      cases hp : preCheck P nd with
      | error x => rw [hp] at h; cases h
      | ok u =>
        rw [hp] at h
        simp only at h
        cases hu : updateFirst P (pathOf (push s.stack nd.indent nm)) nd s.nodes with
        | some r =>
          rw [hu] at h
          simp only at h
          have hr : ∃ ns, r = .ok ns ∧ s'.nodes = ns := by
            split at h
            · cases hi : initValue P _ nd.dims nd.raw with
              | error x => rw [hi] at h; cases h
              | ok v =>
                rw [hi] at h
                cases r with
                | error x => cases h
                | ok ns => simp only [Except.ok.injEq] at h; subst h; exact ⟨ns, rfl, rfl⟩
            · cases r with
              | error x => cases h
              | ok ns => simp only [pure, Except.pure, Except.ok.injEq] at h; subst h; exact ⟨ns, rfl, rfl⟩
          obtain ⟨ns, rfl, hns⟩ := hr
          obtain ⟨pre, e, e', post, h1, h2, _, _, _, hm⟩ := updateFirst_ok _ _ hu
          obtain ⟨v, _, he', _⟩ := modify_ok hm
          left
          rw [hns, h1, h2, he']
          simp
        | none =>
          rw [hu] at h
          simp only at h
          have hnot := (updateFirst_none s.nodes).mp hu
          split at h
          · cases hi : initValue P _ nd.dims nd.raw with
            | error x => rw [hi] at h; cases h
            | ok v =>
              rw [hi] at h
              simp only [Except.ok.injEq] at h
              subst h
              right
              refine ⟨pathOf (push s.stack nd.indent nm), ?_, by simp⟩
              intro hmem
              obtain ⟨e, he, hne⟩ := List.mem_map.mp hmem
              exact hnot e he hne
          · cases h

end SciVerif.C13

namespace SciVerif.C13

def names (s : State) : List Str := s.nodes.map (·.name)

/-- the node list only grows at the end, and stays duplicate-free -/
def Grows (s s' : State) : Prop :=
  ∃ ext, names s' = names s ++ ext ∧ ((names s).Nodup → (names s').Nodup)

theorem Grows.refl (s : State) : Grows s s := ⟨[], by simp, id⟩

theorem Grows.trans {a b c : State} (h1 : Grows a b) (h2 : Grows b c) : Grows a c := by
  obtain ⟨e1, p1, n1⟩ := h1
  obtain ⟨e2, p2, n2⟩ := h2
  exact ⟨e1 ++ e2, by rw [p2, p1, List.append_assoc], fun h => n2 (n1 h)⟩

theorem stepPlain_grows (P : Params) (s s' : State) (nd : Node) (h : stepPlain P s nd = .ok s') : Grows s s' := by
  rcases stepPlain_names P s s' nd h with h1 | ⟨p, hp, h1⟩
  · exact ⟨[], by simp [names, h1], fun hn => by simpa [names, h1] using hn⟩
  · refine ⟨[p], by simp [names, h1], fun hn => ?_⟩
    simp only [names] at hn ⊢
    rw [h1]
    exact List.nodup_append.mpr ⟨hn, by simp, by
      intro a ha b hb
      simp only [List.mem_singleton] at hb
      subst hb
      intro hab; subst hab; exact hp ha⟩

theorem foldSteps_grows (P : Params) : ∀ (nds : List Node) (s s' : State), foldSteps P s nds = .ok s' → Grows s s' := by
  intro nds
  induction nds with
  | nil => intro s s' h; simp only [foldSteps, Except.ok.injEq] at h; subst h; exact Grows.refl _
  | cons nd t ih =>
    intro s s' h
    simp only [foldSteps, bind, Except.bind] at h
    cases h1 : stepPlain P s nd with
    | error x => rw [h1] at h; cases h
    | ok s1 => rw [h1] at h; exact (stepPlain_grows P s s1 nd h1).trans (ih s1 s' h)

theorem step_grows (P : Params) (s s' : State) (nd : Node) (h : step P s nd = .ok s') : Grows s s' := by
  unfold step at h
  split at h
  · simp only [bind, Except.bind] at h
    cases he : P.expandTable nd with
    | error x => rw [he] at h; cases h
    | ok cols =>
      rw [he] at h
      simp only at h
      split at h
      · cases h
      · exact foldSteps_grows P cols s s' h
  · exact stepPlain_grows P s s' nd h

theorem runNodes_grows (P : Params) : ∀ (nds : List Node) (s s' : State), runNodes P s nds = .ok s' → Grows s s' := by
  intro nds
  induction nds with
  | nil => intro s s' h; simp only [runNodes, Except.ok.injEq] at h; subst h; exact Grows.refl _
  | cons nd t ih =>
    intro s s' h
    simp only [runNodes, bind, Except.bind] at h
    cases h1 : step P s nd with
    | error x => rw [h1] at h; cases h
    | ok s1 => rw [h1] at h; exact (step_grows P s s1 nd h1).trans (ih s1 s' h)

theorem validate_ok {ns ns' : List ENode} (h : validate ns = .ok ns') :
    ns' = ns ∧ ∀ e ∈ ns, e.value.isSome = true := by
  unfold validate at h
  split at h
  · cases h
  · rename_i hany
    simp only [Except.ok.injEq] at h
    refine ⟨h.symm, ?_⟩
    intro e he
    cases hv : e.value with
    | some v => rfl
    | none =>
      exfalso
      apply hany
      exact List.any_eq_true.mpr ⟨e, he, by simp [hv]⟩

/-- `DIP.parse` on the queue of logical lines: lexing every queued line, then the main loop and
    the final validation -/
def parseLines (P : Params) (lines : List Str) : R (List ENode) := do
  let nds ← lines.mapM determine
  parseNodes P nds

end SciVerif.C13
