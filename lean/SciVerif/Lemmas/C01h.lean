import SciVerif.Lemmas.C01g

/-!
# C01 helper lemmas, part 8 (character level): the items of an expression, their texts are
  balanced, and the tokeniser loop turns the text of an item list into its token list.
-/
namespace SciVerif.C01
open SciVerif.C01.Gen

variable {A : Type} (alg : AtomAlg A) (lit : List Char → A)

/-! ### items: the tokens of one nesting level -/

inductive OprK
  | bin (o : B2)
  | sign (neg : Bool)
  | not

def OprK.name : OprK → String
  | .bin o => o.name
  | .sign s => if s then "sub" else "add"
  | .not => "not"

def OprK.sym : OprK → List Char
  | .bin o => o.sym
  | .sign s => if s then ['-'] else ['+']
  | .not => ['!']

inductive LItem
  | lit (t : List Char)
  | opr (k : OprK)
  | call1 (f : F1) (a : E)
  | call2 (g : F2) (a b : E)

def items : E → List LItem
  | .num t => [.lit t]
  | .fn1 f a => [.call1 f a]
  | .fn2 g a b => [.call2 g a b]
  | .sign s e => .opr (.sign s) :: items e
  | .bin o l r => items l ++ [.opr (.bin o)] ++ items r
  | .not e => .opr .not :: items e

def itemLex : LItem → List (List Char)
  | .lit t => [t]
  | .opr k => [k.sym]
  | .call1 f a => [f.sym] ++ lexemes a ++ [[')']]
  | .call2 g a b => [g.sym] ++ lexemes a ++ [[',']] ++ lexemes b ++ [[')']]

def tokOf : LItem → Tok A
  | .lit t => .atom (lit t)
  | .opr k => .op (idxOf dflt k.name) []
  | .call1 f a => .op (idxOf dflt f.name) [some (eval alg lit a)]
  | .call2 g a b => .op (idxOf dflt g.name) [some (eval alg lit a), some (eval alg lit b)]

theorem toks_items (e : E) : toks dflt alg lit e = (items e).map (tokOf alg lit) := by
  induction e with
  | num t => rfl
  | fn1 f a _ => rfl
  | fn2 g a b _ _ => rfl
  | sign s e ih => simp [toks, items, tokOf, OprK.name, ih]
  | bin o l r ihl ihr => simp [toks, items, tokOf, OprK.name, ihl, ihr]
  | not e ih => simp [toks, items, tokOf, OprK.name, ih]

theorem lexemes_items (e : E) : lexemes e = (items e).flatMap itemLex := by
  induction e with
  | num t => rfl
  | fn1 f a _ => simp [lexemes, items, itemLex]
  | fn2 g a b _ _ => simp [lexemes, items, itemLex]
  | sign s e ih => simp [lexemes, items, itemLex, OprK.sym, ih]
  | bin o l r ihl ihr => simp [lexemes, items, itemLex, OprK.sym, ihl, ihr]
  | not e ih => simp [lexemes, items, itemLex, OprK.sym, ih]

/-! ### symbols -/

theorem sym_facts (k : OprK) : rowFact dflt k.name k.sym none = true := by
  cases k with
  | bin o => exact fact_binary o
  | sign s => exact fact_sign s
  | not => exact fact_not

theorem oprSym_props (k : OprK) : GoodLex k.sym ∧ (∀ c ∈ k.sym, Neutral c) := by
  cases k with
  | bin o => cases o <;> exact ⟨⟨by decide, by decide⟩, by decide⟩
  | sign s => cases s <;> exact ⟨⟨by decide, by decide⟩, by decide⟩
  | not => exact ⟨⟨by decide, by decide⟩, by decide⟩

theorem f1Sym_props (f : F1) : GoodLex f.sym ∧ SafeHead f.sym ∧ ∀ k, nest f.sym k = some (k + 1) := by
  cases f <;> exact ⟨⟨by decide, by decide⟩, ⟨by decide, by decide⟩, fun k => rfl⟩

theorem f2Sym_props (g : F2) : GoodLex g.sym ∧ SafeHead g.sym ∧ ∀ k, nest g.sym k = some (k + 1) := by
  cases g <;> exact ⟨⟨by decide, by decide⟩, ⟨by decide, by decide⟩, fun k => rfl⟩

theorem good_close : GoodLex [')'] := ⟨by decide, by decide⟩
theorem good_comma : GoodLex [','] := ⟨by decide, by decide⟩

/-! ### lexemes are good, texts are balanced -/

theorem lexemes_good (e : E) (h : LitOK alg lit e) : ∀ x ∈ lexemes e, GoodLex x := by
  induction e with
  | num t => intro x hx; simp [lexemes] at hx; rw [hx]; exact (litSafe_good t h.1).1
  | fn1 f a ih =>
    intro x hx
    simp only [lexemes, List.mem_append, List.mem_singleton] at hx
    rcases hx with (rfl | hx) | rfl
    · exact (f1Sym_props f).1
    · exact ih h x hx
    · exact good_close
  | fn2 g a b iha ihb =>
    intro x hx
    simp only [lexemes, List.mem_append, List.mem_singleton] at hx
    rcases hx with (((rfl | hx) | rfl) | hx) | rfl
    · exact (f2Sym_props g).1
    · exact iha h.1 x hx
    · exact good_comma
    · exact ihb h.2 x hx
    · exact good_close
  | sign s e ih =>
    intro x hx
    simp only [lexemes, List.mem_append, List.mem_singleton] at hx
    rcases hx with rfl | hx
    · exact (oprSym_props (.sign s)).1
    · exact ih h x hx
  | bin o l r ihl ihr =>
    intro x hx
    simp only [lexemes, List.mem_append, List.mem_singleton] at hx
    rcases hx with (hx | rfl) | hx
    · exact ihl h.1 x hx
    · exact (oprSym_props (.bin o)).1
    · exact ihr h.2 x hx
  | not e ih =>
    intro x hx
    simp only [lexemes, List.mem_append, List.mem_singleton] at hx
    rcases hx with rfl | hx
    · exact (oprSym_props .not).1
    · exact ih h x hx

theorem lexemes_ne_nil (e : E) : lexemes e ≠ [] := by
  cases e <;> simp [lexemes]

theorem nest_single {x u : List Char} (h : Pre [x] u) (k k' : Nat) (hx : nest x k = some k') :
    nest u k = some k' := by
  obtain ⟨j, rfl⟩ := Pre.single_inv h
  rw [nest_append, nest_blanks]; exact hx

/-- the text of an expression is balanced and has no separator outside its own calls -/
theorem nest_text (e : E) (h : LitOK alg lit e) :
    ∀ (u : List Char), Pre (lexemes e) u → ∀ k, nest u k = some k := by
  induction e with
  | num t =>
    intro u hu k
    exact nest_single hu k k (nest_neutral _ (litSafe_good t h.1).2.1 k)
  | fn1 f a ih =>
    intro u hu k
    simp only [lexemes] at hu
    obtain ⟨u12, u3, rfl, h12, h3⟩ := Pre.append_inv hu
    obtain ⟨u1, u2, rfl, h1, h2⟩ := Pre.append_inv h12
    rw [nest_append, nest_append, nest_single h1 k (k + 1) ((f1Sym_props f).2.2 k)]
    simp only [Option.bind_some]
    rw [ih h u2 h2 (k + 1)]
    simp only [Option.bind_some]
    exact nest_single h3 (k + 1) k rfl
  | fn2 g a b iha ihb =>
    intro u hu k
    simp only [lexemes] at hu
    obtain ⟨u1234, u5, rfl, h1234, h5⟩ := Pre.append_inv hu
    obtain ⟨u123, u4, rfl, h123, h4⟩ := Pre.append_inv h1234
    obtain ⟨u12, u3, rfl, h12, h3⟩ := Pre.append_inv h123
    obtain ⟨u1, u2, rfl, h1, h2⟩ := Pre.append_inv h12
    rw [nest_append, nest_append, nest_append, nest_append,
      nest_single h1 k (k + 1) ((f2Sym_props g).2.2 k)]
    simp only [Option.bind_some]
    rw [iha h.1 u2 h2 (k + 1)]
    simp only [Option.bind_some]
    rw [nest_single h3 (k + 1) (k + 1) rfl]
    simp only [Option.bind_some]
    rw [ihb h.2 u4 h4 (k + 1)]
    simp only [Option.bind_some]
    exact nest_single h5 (k + 1) k rfl
  | sign s e ih =>
    intro u hu k
    simp only [lexemes] at hu
    obtain ⟨u1, u2, rfl, h1, h2⟩ := Pre.append_inv hu
    rw [nest_append, nest_single h1 k k (nest_neutral _ (oprSym_props (.sign s)).2 k)]
    exact ih h u2 h2 k
  | bin o l r ihl ihr =>
    intro u hu k
    simp only [lexemes] at hu
    obtain ⟨u12, u3, rfl, h12, h3⟩ := Pre.append_inv hu
    obtain ⟨u1, u2, rfl, h1, h2⟩ := Pre.append_inv h12
    rw [nest_append, nest_append, ihl h.1 u1 h1 k]
    simp only [Option.bind_some]
    rw [nest_single h2 k k (nest_neutral _ (oprSym_props (.bin o)).2 k)]
    exact ihr h.2 u3 h3 k
  | not e ih =>
    intro u hu k
    simp only [lexemes] at hu
    obtain ⟨u1, u2, rfl, h1, h2⟩ := Pre.append_inv hu
    rw [nest_append, nest_single h1 k k (nest_neutral _ (oprSym_props .not).2 k)]
    exact ih h u2 h2 k

end SciVerif.C01
