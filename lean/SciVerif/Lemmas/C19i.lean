import SciVerif.Lemmas.C19h
/-!
# C19 — whole C / C++ headers: `readC (exportC data) = expected data`
-/
namespace SciVerif.C19

/-! ## `#define` lines -/

/-- the value a preprocessor definition carries: booleans are written 1 / 0 -/
def macroScalar : Scalar → Scalar
  | .b v => .i (if v then 1 else 0)
  | s => s

theorem floatChar_ne_quote (ch : Char) (h : floatChar ch = true) : ch ≠ '"' := by
  intro e; subst e; revert h; decide

/-- the token after the macro name, classified -/
def defineTok (tok : Str) : Option Scalar :=
  match tok with
  | '"' :: _ => (unquote .backslash tok).map Scalar.s
  | _ => match readInt tok with
    | some i => some (Scalar.i i)
    | none => if tok ≠ [] ∧ tok.all floatChar then some (Scalar.f tok) else none

theorem defineTok_bare (tok : Str) (hne : tok ≠ []) (h : ∀ ch ∈ tok, floatChar ch = true) :
    defineTok tok = match readInt tok with
      | some i => some (Scalar.i i)
      | none => some (Scalar.f tok) := by
  cases tok with
  | nil => exact absurd rfl hne
  | cons c cs =>
    have hc : c ≠ '"' := floatChar_ne_quote c (h c (by simp))
    have hall : (c :: cs).all floatChar = true := List.all_eq_true.mpr h
    unfold defineTok
    split
    · rename_i heq; simp at heq; exact absurd heq.1 hc
    · cases readInt (c :: cs) <;> simp [hall]

theorem readDefineLine_eq (name tok : Str) (hn : ∀ ch ∈ name, ch ≠ ' ') :
    readDefineLine (cs!"#define " ++ (name ++ ' ' :: tok)) =
      (defineTok tok).map (fun v => ⟨name, macroDecl, [], false, .leaf v⟩) := by
  have hspan : (name ++ ' ' :: tok).span (fun c => decide (c ≠ ' ')) = (name, ' ' :: tok) := by
    apply span_stop
    · intro ch hch; simpa using hn ch hch
    · intro x r e; simp at e; simp [← e.1]
  unfold readDefineLine
  simp only [dropPrefix_append, Option.bind_eq_bind, Option.bind_some, hspan, dropPrefix?, if_true]
  unfold defineTok
  cases tok with
  | nil => simp [readInt, readNat, digitsOf]
  | cons c cs =>
    by_cases hc : c = '"'
    · subst hc; cases h : unquote Quoting.backslash ('"' :: cs) <;> simp [h]
    · split
      · rename_i heq; simp at heq; exact absurd heq.1 hc
      · split
        · rename_i heq2; simp at heq2; exact absurd heq2.1 hc
        · cases hr : readInt (c :: cs) with
          | some i => simp
          | none =>
            by_cases hall : (c :: cs).all floatChar = true
            · simp [hall]
            · simp [hall]

/-- a scalar parameter in the `define` list: the `#define` line reads back as name and value -/
theorem readDefineLine_lineDefine (ren : Bool) (p : Param) (s : Scalar)
    (hn : ∀ ch ∈ rename ren p.name, ch ≠ ' ') (hleaf : p.value = .leaf s) (hs : ScalarOK p.kind s)
    (hf : ∀ t, s = .f t → readInt t = none) :
    (lineDefine ren p).bind readDefineLine =
      some ⟨rename ren p.name, macroDecl, [], false, .leaf (macroScalar s)⟩ := by
  cases s with
  | s v =>
    have : lineDefine ren p = some (cs!"#define " ++ (rename ren p.name ++ ' ' :: quoteStr .backslash v)) := by
      simp [lineDefine, hleaf]
    rw [this, Option.bind_some, readDefineLine_eq _ _ hn]
    have : defineTok (quoteStr .backslash v) = some (.s v) := by
      simp [defineTok, quoteStr]
      have := unquote_quote .backslash v
      simpa [quoteStr] using this
    simp [this, macroScalar]
  | b v =>
    have : lineDefine ren p = some (cs!"#define " ++ (rename ren p.name ++ ' ' :: (if v then ['1'] else ['0']))) := by
      simp [lineDefine, hleaf]
    rw [this, Option.bind_some, readDefineLine_eq _ _ hn]
    cases v <;> simp [macroScalar] <;> decide
  | i v =>
    have : lineDefine ren p = some (cs!"#define " ++ (rename ren p.name ++ ' ' :: showInt v)) := by
      simp [lineDefine, hleaf]
    rw [this, Option.bind_some, readDefineLine_eq _ _ hn,
      defineTok_bare _ (showInt_ne_nil v) (showInt_floatChars v), readInt_showInt]
    simp [macroScalar]
  | f t =>
    have : lineDefine ren p = some (cs!"#define " ++ (rename ren p.name ++ ' ' :: t)) := by
      simp [lineDefine, hleaf]
    obtain ⟨_, hne, hall⟩ := hs
    rw [this, Option.bind_some, readDefineLine_eq _ _ hn,
      defineTok_bare _ hne (fun ch hch => List.all_eq_true.mp hall ch hch), hf t rfl]
    simp [macroScalar]

end SciVerif.C19
