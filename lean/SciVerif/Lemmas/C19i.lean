import SciVerif.Lemmas.C19h
/-!
# C19 — whole C / C++ headers: `readC (exportC data) = expected data`
-/
namespace SciVerif.C19

/-! ## `#define` lines -/

/-- the value a preprocessor definition carries: booleans are written 1 / 0 -/
def macroScalar : Scalar → Scalar
  | .b v => .i (if v then 1 else 0)
  | s => s

theorem floatChar_ne_quote (ch : Char) (h : floatChar ch = true) : ch ≠ '"' := by
  intro e; subst e; revert h; decide

theorem defineTok_bare (tok : Str) (hne : tok ≠ []) (h : ∀ ch ∈ tok, floatChar ch = true) :
    defineTok tok = match readInt tok with
      | some i => some (Scalar.i i)
      | none => some (Scalar.f tok) := by
  cases tok with
  | nil => exact absurd rfl hne
  | cons c cs =>
    have hc : c ≠ '"' := floatChar_ne_quote c (h c (by simp))
    have hall : (c :: cs).all floatChar = true := List.all_eq_true.mpr h
    unfold defineTok
    split
    · rename_i heq; simp at heq; exact absurd heq.1 hc
    · cases readInt (c :: cs) <;> simp [hall]

theorem readDefineLine_eq (name tok : Str) (hn : ∀ ch ∈ name, ch ≠ ' ') :
    readDefineLine (cs!"#define " ++ (name ++ ' ' :: tok)) =
      (defineTok tok).map (fun v => ⟨name, macroDecl, [], false, .leaf v⟩) := by
  have hspan : (name ++ ' ' :: tok).span (fun c => decide (c ≠ ' ')) = (name, ' ' :: tok) := by
    apply span_stop
    · intro ch hch; simpa using hn ch hch
    · intro x r e; simp at e; simp [← e.1]
  unfold readDefineLine
  simp only [dropPrefix_append, Option.bind_eq_bind, Option.bind_some, hspan, dropPrefix?, if_true]
  cases defineTok tok <;> rfl

/-- a scalar parameter in the `define` list: the `#define` line reads back as name and value -/
theorem readDefineLine_lineDefine (ren : Bool) (p : Param) (s : Scalar)
    (hn : ∀ ch ∈ rename ren p.name, ch ≠ ' ') (hleaf : p.value = .leaf s) (hs : ScalarOK p.kind s)
    (hf : ∀ t, s = .f t → readInt t = none) :
    (lineDefine ren p).bind readDefineLine =
      some ⟨rename ren p.name, macroDecl, [], false, .leaf (macroScalar s)⟩ := by
  cases s with
  | s v =>
    have : lineDefine ren p = some (cs!"#define " ++ (rename ren p.name ++ ' ' :: quoteStr .backslash v)) := by
      simp [lineDefine, hleaf]
    rw [this, Option.bind_some, readDefineLine_eq _ _ hn]
    have : defineTok (quoteStr .backslash v) = some (.s v) := by
      simp [defineTok, quoteStr]
      have := unquote_quote .backslash v
      simpa [quoteStr] using this
    simp [this, macroScalar]
  | b v =>
    have : lineDefine ren p = some (cs!"#define " ++ (rename ren p.name ++ ' ' :: (if v then ['1'] else ['0']))) := by
      simp [lineDefine, hleaf]
    rw [this, Option.bind_some, readDefineLine_eq _ _ hn]
    cases v <;> simp [macroScalar] <;> decide
  | i v =>
    have : lineDefine ren p = some (cs!"#define " ++ (rename ren p.name ++ ' ' :: showInt v)) := by
      simp [lineDefine, hleaf]
    rw [this, Option.bind_some, readDefineLine_eq _ _ hn,
      defineTok_bare _ (showInt_ne_nil v) (showInt_floatChars v), readInt_showInt]
    simp [macroScalar]
  | f t =>
    have : lineDefine ren p = some (cs!"#define " ++ (rename ren p.name ++ ' ' :: t)) := by
      simp [lineDefine, hleaf]
    obtain ⟨_, hne, hall⟩ := hs
    rw [this, Option.bind_some, readDefineLine_eq _ _ hn,
      defineTok_bare _ hne (fun ch hch => List.all_eq_true.mp hall ch hch), hf t rfl]
    simp [macroScalar]

/-! ## one body line of a header -/

theorem lineConst_head (backend kw : Str) (ren : Bool) (p : Param) (l : Str)
    (h : lineConst backend kw ren p = some l) : ∃ r, l = kw ++ ' ' :: r := by
  unfold lineConst at h
  cases ht : lookupType backend p.kind p.bits with
  | none => simp [ht] at h
  | some dtype =>
    cases hs : shapeOf p.value with
    | none => simp [ht, hs] at h
    | some sh =>
      simp only [ht, hs, Option.bind_eq_bind, Option.bind_some] at h
      split at h <;> (simp at h; subst h; exact ⟨_, rfl⟩)

theorem isDeclLine_kw (kw : Str) (hkw : kw = cs!"const" ∨ kw = cs!"constexpr") (r : Str) :
    isDeclLine (kw ++ ' ' :: r) = true := by
  rcases hkw with rfl | rfl <;> simp [isDeclLine, dropPrefix?]

/-- the conditions under which a parameter's line is read back -/
def ParamOKC (ren : Bool) (define : List Str) (p : Param) : Prop :=
  (∀ ch ∈ rename ren p.name, ch ≠ '[' ∧ ch ≠ ' ') ∧ clean (rename ren p.name) = true ∧
  ValOK p.kind p.value ∧ NoNL p.value ∧ (∃ sh, rectShape p.value = some sh ∧ 0 ∉ sh) ∧
  (define.contains p.name = true → ∃ s, p.value = .leaf s ∧ ∀ t, s = .f t → readInt t = none)

/-- the line `ExportConfigC.parse` / `ExportConfigCPP.parse` writes for one parameter -/
def lineOfC (backend kw : Str) (ren : Bool) (define : List Str) (p : Param) : Option Str :=
  if define.contains p.name then lineDefine ren p else lineConst backend kw ren p

theorem readLineC_lineOfC (backend kw : Str) (hb : backend = bC ∨ backend = bCpp)
    (hkw : kw = cs!"const" ∨ kw = cs!"constexpr") (ren : Bool) (define : List Str) (p : Param)
    (hok : ParamOKC ren define p) :
    (lineOfC backend kw ren define p).bind (readLineC backend) =
      expectedSym backend ren (define.contains p.name) (macroParam define p) := by
  obtain ⟨hn, _, hv, _, ⟨sh, hr, h0⟩, hdef⟩ := hok
  cases hd : define.contains p.name with
  | false =>
    have hd' : p.name ∉ define := by simpa using hd
    have hmp : macroParam define p = p := by simp [macroParam, hd']
    rw [hmp]
    simp only [lineOfC, hd, Bool.false_eq_true, ↓reduceIte]
    have key := readConstLine_lineConst backend kw hb hkw ren p sh hn hv hr h0
    cases hl : lineConst backend kw ren p with
    | none => rw [hl] at key; simpa using key
    | some l =>
      rw [hl] at key
      obtain ⟨r, rfl⟩ := lineConst_head backend kw ren p l hl
      simp only [Option.bind_some] at key ⊢
      have hdl := isDeclLine_kw kw hkw r
      unfold readLineC
      rw [hdl]
      simpa using key
  | true =>
    obtain ⟨s, hleaf, hf⟩ := hdef hd
    have hs : ScalarOK p.kind s := by rw [hleaf] at hv; simpa [ValOK] using hv
    have key := readDefineLine_lineDefine ren p s (fun ch hch => (hn ch hch).2) hleaf hs hf
    have hd' : p.name ∈ define := by simpa using hd
    simp only [lineOfC, hd, ↓reduceIte]
    have hexp : expectedSym backend ren true (macroParam define p) =
        some ⟨rename ren p.name, macroDecl, [], false, .leaf (macroScalar s)⟩ := by
      cases s <;> simp [expectedSym, macroParam, hd', hleaf, shapeOf, macroScalar]
    rw [hexp, ← key]
    cases hl : lineDefine ren p with
    | none => rfl
    | some l =>
      have hnd : isDeclLine l = false := by
        unfold lineDefine at hl
        rw [hleaf] at hl
        cases s <;> (simp at hl; subst hl; simp [isDeclLine, dropPrefix?])
      simp [readLineC, hnd]

/-! ## the header frame -/

theorem readBodyC_lines (backend endline : Str) : ∀ body : List Str, (∀ l ∈ body, l ≠ []) →
    readBodyC backend endline (body ++ [[], endline]) = body.mapM (readLineC backend)
  | [], _ => by simp [readBodyC]
  | l :: ls, h => by
    have hl : l ≠ [] := h l (by simp)
    have ih := readBodyC_lines backend endline ls (fun x hx => h x (by simp [hx]))
    simp only [List.cons_append, readBodyC, hl, if_false, ih, List.mapM_cons, Option.bind_eq_bind, Option.pure_def]

theorem stripInclude_body (endline : Str) (he : endline ≠ []) : ∀ body : List Str,
    (∀ l ∈ body, l ≠ [] ∧ l ≠ includeLine) →
    stripInclude (body ++ [[], endline]) = body ++ [[], endline]
  | [], _ => by simp [stripInclude, he]
  | [l], h => by
    have := (h l (by simp)).2
    simp [stripInclude, this]
  | l :: m :: ls, h => by
    have := (h m (by simp)).1
    simp [stripInclude, this]

theorem clean_lit_ifndef : clean (cs!"#ifndef ") = true := by decide
theorem clean_lit_define : clean (cs!"#define ") = true := by decide
theorem clean_lit_endif : clean (cs!"#endif /* ") = true := by decide
theorem clean_lit_close : clean (cs!" */") = true := by decide

/-- reading a header written by `headerWrap` = reading its body lines -/
theorem readC_headerWrap (backend guard : Str) (inc : Bool) (body : List Str) (hg : clean guard = true)
    (hbody : ∀ l ∈ body, clean l = true ∧ l ≠ [] ∧ l ≠ includeLine) :
    readC backend guard (headerWrap guard inc body) = body.mapM (readLineC backend) := by
  let endline : Str := cs!"#endif /* " ++ guard ++ cs!" */"
  have hend : endline ≠ [] := by simp [endline]
  have hcl_end : clean endline = true := by
    simp only [endline, clean_append, clean_lit_endif, clean_lit_close, hg, Bool.and_self]
  let all : List Str := [cs!"#ifndef " ++ guard, cs!"#define " ++ guard, []] ++
    (if inc then [cs!"#include <stdbool.h>", []] else []) ++ body ++ [[], endline]
  have hlines : lines (headerWrap guard inc body) = all := by
    unfold headerWrap
    apply lines_joinWith
    · simp
    · intro l hl
      apply (clean_iff l).mp
      simp only [List.mem_append, List.mem_cons, List.mem_nil_iff, or_false] at hl
      rcases hl with ((hl | hl) | hl) | hl
      · rcases hl with rfl | rfl | rfl
        · simp only [clean_append, clean_lit_ifndef, hg, Bool.and_self]
        · simp only [clean_append, clean_lit_define, hg, Bool.and_self]
        · rfl
      · cases inc
        · simp at hl
        · simp at hl
          rcases hl with rfl | rfl <;> decide
      · exact (hbody l hl).1
      · rcases hl with rfl | rfl
        · rfl
        · exact hcl_end
  unfold readC
  rw [hlines]
  simp only [all, List.cons_append, List.nil_append, and_self, if_true, Option.bind_eq_bind, Option.bind_some]
  have hstrip : stripInclude ((if inc then [cs!"#include <stdbool.h>", []] else []) ++ (body ++ [[], endline])) =
      body ++ [[], endline] := by
    cases inc
    · simpa using stripInclude_body endline hend body (fun l hl => (hbody l hl).2)
    · simp [stripInclude, includeLine]
  have hassoc : (if inc then [cs!"#include <stdbool.h>", []] else []) ++ body ++ [[], endline] =
      (if inc then [cs!"#include <stdbool.h>", []] else []) ++ (body ++ [[], endline]) := by simp
  rw [hassoc, hstrip]
  exact readBodyC_lines backend endline body (fun l hl => (hbody l hl).2.1)

/-! ## body lines are clean, non-empty and no include line -/

theorem clean_joinWith (sep : Str) (hs : clean sep = true) : ∀ ls : List Str, (∀ l ∈ ls, clean l = true) →
    clean (joinWith sep ls) = true
  | [], _ => rfl
  | [a], h => by simpa [joinWith] using h a (by simp)
  | a :: b :: r, h => by
    have h1 := h a (by simp)
    have h2 := clean_joinWith sep hs (b :: r) (fun l hl => h l (by simp [hl]))
    simp [joinWith, clean_append, h1, hs, h2]

theorem clean_shapeBrackets (sh : List Nat) : clean (shapeBrackets sh) = true := by
  have : clean (joinWith [']', '['] (sh.map showNat)) = true :=
    clean_joinWith _ (by decide) _ (by
      intro l hl
      obtain ⟨d, _, rfl⟩ := List.mem_map.mp hl
      exact clean_showNat d)
  simp [shapeBrackets, clean_append, clean_cons, clean_nil, this]

theorem c_names_clean : ∀ b ∈ [bC, bCpp], ∀ t ∈ targets b, clean t = true := by decide +kernel

theorem clean_showInt (i : Int) : clean (showInt i) = true := clean_of_floatChars _ (showInt_floatChars i)

theorem lineOfC_clean (backend kw : Str) (hb : backend = bC ∨ backend = bCpp)
    (hkw : kw = cs!"const" ∨ kw = cs!"constexpr") (ren : Bool) (define : List Str) (p : Param)
    (hok : ParamOKC ren define p) (l : Str) (h : lineOfC backend kw ren define p = some l) :
    clean l = true ∧ l ≠ [] ∧ l ≠ includeLine := by
  obtain ⟨_, hn, hv, hnl, _, hdef⟩ := hok
  unfold lineOfC at h
  cases hd : define.contains p.name with
  | true =>
    obtain ⟨s, hleaf, _⟩ := hdef hd
    simp only [hd, if_true] at h
    unfold lineDefine at h
    rw [hleaf] at h hv hnl
    cases s with
    | s v =>
      have hcv : clean v = true := hnl
      simp at h; subst h
      refine ⟨?_, by simp, by simp [includeLine]⟩
      simp [clean_append, clean_cons, clean_nil, hn, quoteStr, clean_escStr _ v hcv]
    | b v =>
      simp at h; subst h
      refine ⟨?_, by simp, by simp [includeLine]⟩
      cases v <;> simp [clean_append, clean_cons, clean_nil, hn]
    | i v =>
      simp at h; subst h
      refine ⟨?_, by simp, by simp [includeLine]⟩
      simp [clean_append, clean_cons, hn, clean_showInt]
    | f t =>
      have hct : clean t = true := by
        have hs : ScalarOK p.kind (.f t) := by simpa [ValOK] using hv
        exact clean_of_floatChars t (fun ch hch => List.all_eq_true.mp hs.2.2 ch hch)
      simp at h; subst h
      refine ⟨?_, by simp, by simp [includeLine]⟩
      simp [clean_append, clean_cons, hn, hct]
  | false =>
    simp only [hd, Bool.false_eq_true, ↓reduceIte] at h
    obtain ⟨r, hr⟩ := lineConst_head backend kw ren p l h
    have hne : l ≠ [] ∧ l ≠ includeLine := by
      subst hr
      rcases hkw with rfl | rfl <;> simp [includeLine]
    refine ⟨?_, hne.1, hne.2⟩
    unfold lineConst at h
    cases ht : lookupType backend p.kind p.bits with
    | none => simp [ht] at h
    | some dtype =>
      cases hs : shapeOf p.value with
      | none => simp [ht, hs] at h
      | some sh =>
        have hb3 : backend ∈ [bC, bCpp, bRust] := by rcases hb with rfl | rfl <;> simp
        have hb2 : backend ∈ [bC, bCpp] := by rcases hb with rfl | rfl <;> simp
        obtain ⟨n, _, hmem⟩ := targetKind_of_lookup backend hb3 p.kind p.bits dtype ht
        have hdt := c_names_clean backend hb2 dtype hmem
        have hval := printVal_clean styleC (by decide) (by decide) (by decide) (by decide) p.kind p.value hv hnl
        have hkwc : clean kw = true := by rcases hkw with rfl | rfl <;> decide
        simp only [ht, hs, Option.bind_eq_bind, Option.bind_some] at h
        split at h <;>
          (simp at h; subst h
           simp [clean_append, clean_cons, clean_nil, hn, hdt, hval, hkwc, clean_shapeBrackets])

/-! ## whole headers -/

theorem mapM_map_param {β : Type} (g : Param → Param) (f : Param → Option β) : ∀ data : List Param,
    (data.map g).mapM f = data.mapM (fun p => f (g p))
  | [] => rfl
  | p :: ps => by simp [List.mapM_cons, mapM_map_param g f ps]

theorem macroParam_name (define : List Str) (p : Param) : (macroParam define p).name = p.name := by
  unfold macroParam
  split
  · split <;> rfl
  · rfl

/-- a header whose body has one line per parameter (`line p`), read back -/
theorem readC_export (backend : Str) (hb : backend = bC ∨ backend = bCpp) (ren : Bool) (define : List Str)
    (guard : Str) (hg : clean guard = true) (inc : Bool) (data : List Param)
    (line : Param → Option Str)
    (hline : ∀ p ∈ data, ∃ kw, (kw = cs!"const" ∨ kw = cs!"constexpr") ∧ line p = lineOfC backend kw ren define p)
    (hok : ∀ p ∈ data, ParamOKC ren define p) :
    ((data.mapM line).map (headerWrap guard inc)).bind (readC backend guard) =
      expected backend ren define (data.map (macroParam define)) := by
  have hexp : expected backend ren define (data.map (macroParam define)) =
      data.mapM (fun p => expectedSym backend ren (define.contains p.name) (macroParam define p)) := by
    unfold expected
    rw [mapM_map_param]
    simp only [macroParam_name]
  have hlines := mapM_lines line (readLineC backend)
    (fun p => expectedSym backend ren (define.contains p.name) (macroParam define p)) data
    (fun p hp => by
      obtain ⟨kw, hkw, hl⟩ := hline p hp
      rw [hl]
      exact readLineC_lineOfC backend kw hb hkw ren define p (hok p hp))
  rw [hexp, ← hlines]
  cases hm : data.mapM line with
  | none => simp
  | some body =>
    simp only [Option.map_some, Option.bind_some]
    apply readC_headerWrap backend guard inc body hg
    intro l hl
    obtain ⟨p, hp, hlp⟩ := mapM_some_mem line data body hm l hl
    obtain ⟨kw, hkw, hl2⟩ := hline p hp
    rw [hl2] at hlp
    exact lineOfC_clean backend kw hb hkw ren define p (hok p hp) l hlp

theorem exportC_eq (o : COpts) (data : List Param) :
    exportC o data = (data.mapM (fun p => lineOfC bC (cs!"const") o.rename o.define p)).map
      (headerWrap o.guard (data.any (fun p => p.kind = Kind.bool ∧ ¬ o.define.contains p.name))) := by
  unfold exportC lineOfC
  cases data.mapM (fun p => if o.define.contains p.name then lineDefine o.rename p
      else lineConst bC (cs!"const") o.rename p) <;> rfl

/-- **whole C headers** -/
theorem readC_exportC (o : COpts) (data : List Param) (hg : clean o.guard = true)
    (hok : ∀ p ∈ data, ParamOKC o.rename o.define p) :
    (exportC o data).bind (readC bC o.guard) = expected bC o.rename o.define (data.map (macroParam o.define)) := by
  rw [exportC_eq]
  exact readC_export bC (Or.inl rfl) o.rename o.define o.guard hg _ data _
    (fun p _ => ⟨cs!"const", Or.inl rfl, rfl⟩) hok

theorem exportCpp_eq (o : COpts) (data : List Param) :
    exportCpp o data = (data.mapM (fun p => lineOfC bCpp
        (if o.const.contains p.name then cs!"const" else cs!"constexpr") o.rename o.define p)).map
      (headerWrap o.guard false) := by
  unfold exportCpp lineOfC
  have : (fun p => if o.define.contains p.name then lineDefine o.rename p
        else if o.const.contains p.name then lineConst bCpp (cs!"const") o.rename p
        else lineConst bCpp (cs!"constexpr") o.rename p) =
      (fun p => if o.define.contains p.name then lineDefine o.rename p
        else lineConst bCpp (if o.const.contains p.name then cs!"const" else cs!"constexpr") o.rename p) := by
    funext p
    split
    · rfl
    · split <;> simp_all
  rw [this]
  cases data.mapM (fun p => if o.define.contains p.name then lineDefine o.rename p
      else lineConst bCpp (if o.const.contains p.name then cs!"const" else cs!"constexpr") o.rename p) <;> rfl

/-- **whole C++ headers** (`define`, `const` and `constexpr` selections) -/
theorem readC_exportCpp (o : COpts) (data : List Param) (hg : clean o.guard = true)
    (hok : ∀ p ∈ data, ParamOKC o.rename o.define p) :
    (exportCpp o data).bind (readC bCpp o.guard) =
      expected bCpp o.rename o.define (data.map (macroParam o.define)) := by
  rw [exportCpp_eq]
  exact readC_export bCpp (Or.inr rfl) o.rename o.define o.guard hg _ data _
    (fun p _ => ⟨if o.const.contains p.name then cs!"const" else cs!"constexpr",
      by split <;> simp, rfl⟩) hok

end SciVerif.C19
