import SciVerif.Model.C03
import SciVerif.Model.C03Spec

/-! # C03 helper lemmas: trailing runs, longest suffix, atom parser soundness -/
namespace SciVerif.C03

theorem dropTrail_append_trailRun (p : Char → Bool) (s : Str) :
    dropTrail p s ++ trailRun p s = s := by
  unfold dropTrail trailRun
  rw [← List.reverse_append, List.takeWhile_append_dropWhile, List.reverse_reverse]

theorem trailRun_all (p : Char → Bool) (s : Str) : (trailRun p s).all p = true := by
  unfold trailRun
  rw [List.all_reverse]
  exact List.all_takeWhile

theorem dropWhile_append_single (p : Char → Bool) (l : Str) (c : Char) (hc : p c = false) :
    (l ++ [c]).dropWhile p = l.dropWhile p ++ [c] := by
  induction l with
  | nil => simp [List.dropWhile, hc]
  | cons a t ih =>
    by_cases h : p a = true
    · simp [h, ih]
    · simp [h]

theorem takeWhile_append_single (p : Char → Bool) (l : Str) (c : Char) (hc : p c = false) :
    (l ++ [c]).takeWhile p = l.takeWhile p := by
  induction l with
  | nil => simp [List.takeWhile, hc]
  | cons a t ih =>
    by_cases h : p a = true
    · simp [h, ih]
    · simp [h]

theorem dropTrail_cons (p : Char → Bool) (c : Char) (s : Str) (hc : p c = false) :
    dropTrail p (c :: s) = c :: dropTrail p s := by
  unfold dropTrail
  rw [List.reverse_cons, dropWhile_append_single p _ c hc]
  simp

theorem trailRun_cons (p : Char → Bool) (c : Char) (s : Str) (hc : p c = false) :
    trailRun p (c :: s) = trailRun p s := by
  unfold trailRun
  rw [List.reverse_cons, takeWhile_append_single p _ c hc]

theorem foldl_longer_mem (l : List UnitRow) (acc : Option UnitRow) (u : UnitRow)
    (h : l.foldl longer acc = some u) : u ∈ l ∨ acc = some u := by
  induction l generalizing acc with
  | nil => right; simpa using h
  | cons a t ih =>
    simp only [List.foldl_cons] at h
    rcases ih _ h with h1 | h1
    · left; exact List.mem_cons_of_mem _ h1
    · cases acc with
      | none => simp [longer] at h1; left; simp [h1]
      | some b =>
        simp only [longer] at h1
        split at h1
        · left; simp at h1; simp [h1]
        · right; exact h1

theorem findBase_sound (T : Tables) (body : Str) (u : UnitRow) (h : findBase T body = some u) :
    u ∈ T.units ∧ u.sym <:+ body := by
  unfold findBase at h
  rcases foldl_longer_mem _ _ _ h with h1 | h1
  · rw [List.mem_filter] at h1
    exact ⟨h1.1, List.isSuffixOf_iff_suffix.mp h1.2⟩
  · cases h1

/-- no table symbol starts with a blank (part of fact F4) -/
def noBlankHead (T : Tables) : Prop := ∀ u ∈ T.units, u.sym.head? ≠ some ' '

/-- what an accepted exponent text is: nothing written (exponent 1) or a non-empty run of
    exponent characters that `Fraction.from_string` reads -/
def expTextOf (x : Str) (e : Frac) : Prop :=
  (x = [] ∧ e = Frac.one) ∨ (x ≠ [] ∧ x.all isExpChar = true ∧ Frac.fromString x = some e)

theorem unitParse_sound (T : Tables) (hT : noBlankHead T) (s p b : Str) (e : Frac)
    (h : unitParse T s = .ok (.std p b, e)) :
    ∃ x, s = p ++ b ++ x ∧ expTextOf x e ∧ admissible T p b := by
  unfold unitParse at h
  have hsp : isExpChar ' ' = false := by decide
  simp only [dropTrail_cons isExpChar ' ' s hsp, trailRun_cons isExpChar ' ' s hsp] at h
  have hs := dropTrail_append_trailRun isExpChar s
  have hall := trailRun_all isExpChar s
  generalize trailRun isExpChar s = x at h hs hall
  generalize dropTrail isExpChar s = body at h hs
  split at h
  · cases h
  · rename_i exp hexp
    split at h
    · split at h <;> cases h
    · split at h
      · cases h
      · rename_i base hbase
        obtain ⟨hmem, hsuf⟩ := findBase_sound T _ _ hbase
        have hsuf' : base.sym <:+ body := by
          rcases List.suffix_cons_iff.mp hsuf with h1 | h1
          · exfalso
            have := hT base hmem
            rw [h1] at this
            simp at this
          · exact h1
        obtain ⟨t, ht⟩ := hsuf'
        have hpre : (List.take ((' ' :: body).length - base.sym.length) (' ' :: body)).drop 1 = t := by
          rw [← ht]
          have : (' ' :: (t ++ base.sym)).length - base.sym.length = (' ' :: t).length := by
            simp; omega
          rw [this]
          have : ' ' :: (t ++ base.sym) = (' ' :: t) ++ base.sym := by simp
          rw [this, List.take_left']
          · simp
          · rfl
        rw [hpre] at h
        have hexp' : expTextOf x exp := by
          by_cases hx : x = []
          · left; simp [hx] at hexp; exact ⟨hx, hexp.symm⟩
          · right; simp [hx] at hexp; exact ⟨hx, hall, hexp⟩
        split at h
        · rename_i hkey
          split at h
          · rename_i hadm
            cases h
            refine ⟨x, ?_, hexp', base, hmem, rfl, Or.inr ⟨?_, hadm⟩⟩
            · rw [← hs, ← ht]
            · simpa [List.contains_iff_mem] using hkey
          · cases h
        · split at h
          · cases h
          · rename_i hne
            cases h
            have : t = [] := by simpa using hne
            refine ⟨x, ?_, hexp', base, hmem, rfl, Or.inl rfl⟩
            rw [← hs, ← ht, this]

/-- a returned system-unit key is a key of the system-unit table, and the text is key ++ exponent text -/
theorem unitParse_sys_sound (T : Tables) (s n : Str) (e : Frac)
    (h : unitParse T s = .ok (.sys n, e)) :
    (T.findSys n).isSome = true ∧ ∃ x, s = n ++ x ∧ expTextOf x e := by
  unfold unitParse at h
  have hsp : isExpChar ' ' = false := by decide
  simp only [dropTrail_cons isExpChar ' ' s hsp, trailRun_cons isExpChar ' ' s hsp] at h
  have hs := dropTrail_append_trailRun isExpChar s
  have hall := trailRun_all isExpChar s
  generalize trailRun isExpChar s = x at h hs hall
  generalize dropTrail isExpChar s = body at h hs
  split at h
  · cases h
  · rename_i exp hexp
    have hexp' : expTextOf x exp := by
      by_cases hx : x = []
      · left; simp [hx] at hexp; exact ⟨hx, hexp.symm⟩
      · right; simp [hx] at hexp; exact ⟨hx, hall, hexp⟩
    split at h
    · split at h
      · rename_i hfound
        cases h
        exact ⟨hfound, x, by simpa using hs.symm, hexp'⟩
      · cases h
    · split at h
      · cases h
      · split at h
        · split at h <;> cases h
        · split at h <;> cases h

end SciVerif.C03
