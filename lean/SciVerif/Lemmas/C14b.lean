import SciVerif.Model.C13Spec
/-!
C14 refinement, part 1 (inside the specification): processing the occurrences one after the
other with an "update the entry with that path, or append a new one" step gives the same result as
the declarative per-path specification `specNode`.
-/
namespace SciVerif.C13

/-- equal successes, or both failures (the kind of failure is not compared) -/
def ResEq {β : Type} (a b : R β) : Prop :=
  (∃ x, a = .ok x ∧ b = .ok x) ∨ (∃ e1 e2, a = .error e1 ∧ b = .error e2)

theorem ResEq.refl {β : Type} (a : R β) : ResEq a a := by
  cases a with
  | error e => exact .inr ⟨e, e, rfl, rfl⟩
  | ok x => exact .inl ⟨x, rfl, rfl⟩

theorem ResEq.symm {β : Type} {a b : R β} (h : ResEq a b) : ResEq b a := by
  rcases h with ⟨x, h1, h2⟩ | ⟨e1, e2, h1, h2⟩
  · exact .inl ⟨x, h2, h1⟩
  · exact .inr ⟨e2, e1, h2, h1⟩

theorem ResEq.trans {β : Type} {a b c : R β} (h1 : ResEq a b) (h2 : ResEq b c) : ResEq a c := by
  rcases h1 with ⟨x, ha, hb⟩ | ⟨e1, e2, ha, hb⟩
  · rcases h2 with ⟨y, hb', hc⟩ | ⟨e3, e4, hb', hc⟩
    · rw [hb] at hb'; cases hb'; exact .inl ⟨x, ha, hc⟩
    · rw [hb] at hb'; cases hb'
  · rcases h2 with ⟨y, hb', hc⟩ | ⟨e3, e4, hb', hc⟩
    · rw [hb] at hb'; cases hb'
    · exact .inr ⟨e1, e4, ha, hc⟩

theorem ResEq.bind {β γ : Type} {a b : R β} (h : ResEq a b) (f g : β → R γ) (hfg : ∀ x, ResEq (f x) (g x)) :
    ResEq (a.bind f) (b.bind g) := by
  rcases h with ⟨x, ha, hb⟩ | ⟨e1, e2, ha, hb⟩
  · rw [ha, hb]; exact hfg x
  · rw [ha, hb]; exact .inr ⟨e1, e2, rfl, rfl⟩

variable {α : Type}

def snames (ns : List SNode) : List Str := ns.map (·.name)

def findS (p : Str) (ns : List SNode) : Option SNode := ns.find? (fun s => s.name == p)

/-- replace the first entry with the name of `s'` -/
def replaceS (s' : SNode) : List SNode → List SNode
  | [] => []
  | s :: t => if s.name == s'.name then s' :: t else s :: replaceS s' t

/-- one occurrence: update the entry with that path, or create it -/
def stepO (I : Interp α) (conv : Str → Str → Rat → R Rat) (uk : Str → Bool)
    (ns : List SNode) (o : Option Str × Payload α) : R (List SNode) :=
  match o.1 with
  | none => .error .fail
  | some p =>
    match findS p ns with
    | some s => (assignTo I conv uk s o.2).map (fun s' => replaceS s' ns)
    | none => (firstOf I uk p o.2).map (fun s => ns ++ [s])

def foldO (I : Interp α) (conv : Str → Str → Rat → R Rat) (uk : Str → Bool) :
    List SNode → List (Option Str × Payload α) → R (List SNode)
  | ns, [] => .ok ns
  | ns, o :: t => do
      let ns' ← stepO I conv uk ns o
      foldO I conv uk ns' t

/-- the per-path specification relative to an initial list of entries -/
def nodeFrom (I : Interp α) (conv : Str → Str → Rat → R Rat) (uk : Str → Bool)
    (ns0 : List SNode) (os : List (Option Str × Payload α)) (p : Str) : R SNode :=
  match findS p ns0 with
  | some s => foldAssign I conv uk s (occOf p os)
  | none =>
    match occOf p os with
    | [] => .error .fail
    | f :: later => do
        let s ← firstOf I uk p f
        foldAssign I conv uk s later

def pathsFrom (ns0 : List SNode) (os : List (Option Str × Payload α)) : List Str :=
  snames ns0 ++ dedupFrom (snames ns0) (os.filterMap (fun o => o.1))

/-! ### small facts -/

theorem assignValue_name (I : Interp α) (conv : Str → Str → Rat → R Rat) (s s' : SNode) (u : Option Str) (r : α)
    (h : assignValue I conv s u r = .ok s') : s'.name = s.name := by
  simp only [assignValue, bind, Except.bind] at h
  cases hc : I.cast s.ty s.dims r with
  | error e => rw [hc] at h; cases h
  | ok v =>
    rw [hc] at h
    simp only at h
    split at h
    · simp only [Except.ok.injEq] at h; rw [← h]
    · cases hv : convertG conv s.ty s.units u v with
      | error e => rw [hv] at h; cases h
      | ok v' => rw [hv] at h; simp only [Except.ok.injEq] at h; rw [← h]

theorem assignTo_name (I : Interp α) (conv : Str → Str → Rat → R Rat) (uk : Str → Bool) (s s' : SNode)
    (p : Payload α) (h : assignTo I conv uk s p = .ok s') : s'.name = s.name := by
  cases p with
  | skip => cases h
  | group => cases h
  | const => simp only [assignTo, Except.ok.injEq] at h; rw [← h]
  | typed ty info dims u v =>
    simp only [assignTo] at h
    split at h; · cases h
    split at h; · cases h
    split at h; · cases h
    cases v with
    | none => cases h
    | some r =>
      simp only [bind, Except.bind] at h
      cases hi : I.init ty dims r with
      | error e => rw [hi] at h; cases h
      | ok w => rw [hi] at h; exact assignValue_name I conv s s' u r h
  | mod u r =>
    simp only [assignTo] at h
    split at h
    · cases h
    · exact assignValue_name I conv s s' u r h

theorem firstOf_name (I : Interp α) (uk : Str → Bool) (p : Str) (pl : Payload α) (s : SNode)
    (h : firstOf I uk p pl = .ok s) : s.name = p := by
  cases pl with
  | typed ty info dims u v =>
    simp only [firstOf] at h
    split at h; · cases h
    cases v with
    | none => simp only [Except.ok.injEq] at h; rw [← h]
    | some r =>
      simp only [bind, Except.bind] at h
      cases hi : I.init ty dims r with
      | error e => rw [hi] at h; cases h
      | ok w => rw [hi] at h; simp only [Except.ok.injEq] at h; rw [← h]
  | _ => cases h

theorem findS_some {p : Str} {ns : List SNode} {s : SNode} (h : findS p ns = some s) : s ∈ ns ∧ s.name = p := by
  simp only [findS] at h
  exact ⟨List.mem_of_find?_eq_some h, by simpa using List.find?_some h⟩

theorem findS_none {p : Str} {ns : List SNode} (h : findS p ns = none) : p ∉ snames ns := by
  simp only [findS, List.find?_eq_none] at h
  intro hm
  obtain ⟨s, hs, hn⟩ := List.mem_map.mp hm
  exact h s hs (by simp [hn])

theorem findS_replace (s' : SNode) (q : Str) : ∀ ns : List SNode,
    findS q (replaceS s' ns) =
      if q = s'.name then (if (findS q ns).isSome then some s' else none) else findS q ns := by
  intro ns
  induction ns with
  | nil => simp [replaceS, findS]
  | cons s t ih =>
    by_cases h1 : s.name = s'.name
    · by_cases h2 : q = s'.name
      · subst h2; simp [replaceS, findS, h1]
      · have : ¬ s.name = q := fun e => h2 (by rw [← e, h1])
        have h3 : ¬ s'.name = q := fun e => h2 e.symm
        simp [replaceS, findS, h1, h2, this, h3]
    · simp only [replaceS, beq_iff_eq, h1, if_false]
      by_cases h2 : s.name = q
      · have : ¬ q = s'.name := fun e => h1 (by rw [h2, e])
        simp [findS, h2, this]
      · have e1 : findS q (s :: replaceS s' t) = findS q (replaceS s' t) := by simp [findS, h2]
        have e2 : findS q (s :: t) = findS q t := by simp [findS, h2]
        rw [e1, e2, ih]

theorem snames_replace (s' : SNode) : ∀ ns : List SNode, snames (replaceS s' ns) = snames ns := by
  intro ns
  induction ns with
  | nil => rfl
  | cons s t ih =>
    by_cases h : s.name = s'.name
    · simp [replaceS, snames, h]
    · simp only [replaceS, beq_iff_eq, h, if_false]
      simp only [snames, List.map_cons] at ih ⊢
      rw [ih]

theorem findS_append_single (ns : List SNode) (s : SNode) (q : Str) (hnot : s.name ∉ snames ns) :
    findS q (ns ++ [s]) = if q = s.name then some s else findS q ns := by
  induction ns with
  | nil =>
    by_cases h : q = s.name
    · subst h; simp [findS]
    · have h' : ¬ s.name = q := fun e => h e.symm
      simp [findS, h, h']
  | cons a t ih =>
    have hat : s.name ≠ a.name := fun e => hnot (by simp [snames, e])
    have hnt : s.name ∉ snames t := fun hm => hnot (by simp only [snames, List.map_cons, List.mem_cons]; exact .inr hm)
    by_cases h1 : a.name = q
    · have : ¬ q = s.name := fun e => hat (by rw [← e, h1])
      simp [findS, h1, this]
    · have e1 : findS q (a :: t ++ [s]) = findS q (t ++ [s]) := by simp [findS, h1]
      have e2 : findS q (a :: t) = findS q t := by simp [findS, h1]
      rw [e1, e2, ih hnt]

theorem occOf_cons_same (p : Str) (pl : Payload α) (t : List (Option Str × Payload α)) :
    occOf p ((some p, pl) :: t) = pl :: occOf p t := by
  simp [occOf]

theorem occOf_cons_other (p q : Str) (pl : Payload α) (t : List (Option Str × Payload α)) (h : q ≠ p) :
    occOf q ((some p, pl) :: t) = occOf q t := by
  have : (some p == some q) = false := by simp [Ne.symm h]
  simp [occOf, this]

theorem dedupFrom_congr : ∀ (l s1 s2 : List Str), (∀ x, x ∈ s1 ↔ x ∈ s2) → dedupFrom s1 l = dedupFrom s2 l := by
  intro l
  induction l with
  | nil => intro _ _ _; rfl
  | cons a t ih =>
    intro s1 s2 h
    have hc : s1.contains a = s2.contains a := by
      by_cases ha : a ∈ s1
      · simp [ha, (h a).mp ha]
      · have : a ∉ s2 := fun h2 => ha ((h a).mpr h2)
        simp [ha, this]
    simp only [dedupFrom, hc]
    split
    · exact ih s1 s2 h
    · rw [ih (a :: s1) (a :: s2) (fun x => by simp [h x])]

theorem mapM_congr' {β γ : Type} (f g : β → R γ) : ∀ l : List β, (∀ x ∈ l, f x = g x) → l.mapM f = l.mapM g := by
  intro l
  induction l with
  | nil => intro _; rfl
  | cons a t ih =>
    intro h
    simp only [List.mapM_cons, h a (by simp), ih (fun x hx => h x (List.mem_cons_of_mem _ hx))]

theorem mapM_error' {β γ : Type} (f : β → R γ) : ∀ l : List β, (∃ x ∈ l, ∃ e, f x = .error e) →
    ∃ e, l.mapM f = .error e := by
  intro l
  induction l with
  | nil => intro ⟨x, hx, _⟩; cases hx
  | cons a t ih =>
    intro ⟨x, hx, e, he⟩
    simp only [List.mapM_cons, bind, Except.bind]
    cases ha : f a with
    | error e' => exact ⟨e', rfl⟩
    | ok y =>
      rcases List.mem_cons.mp hx with rfl | hx'
      · rw [ha] at he; cases he
      · obtain ⟨e2, h2⟩ := ih ⟨x, hx', e, he⟩
        simp only [h2]
        exact ⟨e2, rfl⟩

/-- with pairwise different names, looking every name up gives the list back -/
theorem mapM_find_self : ∀ ns : List SNode, (snames ns).Nodup →
    ∀ (big : List SNode), (∀ s ∈ ns, findS s.name big = some s) →
    (snames ns).mapM (fun q => match findS q big with | some s => (Except.ok s : R SNode) | none => .error .fail) = .ok ns := by
  intro ns
  induction ns with
  | nil => intro _ _ _; rfl
  | cons s t ih =>
    intro hn big h
    simp only [snames, List.map_cons, List.nodup_cons] at hn
    simp only [snames, List.map_cons, List.mapM_cons, h s (by simp), bind, Except.bind]
    have := ih hn.2 big (fun x hx => h x (List.mem_cons_of_mem _ hx))
    simp only [snames] at this
    rw [this]
    rfl

theorem findS_self_of_nodup : ∀ ns : List SNode, (snames ns).Nodup → ∀ s ∈ ns, findS s.name ns = some s := by
  intro ns
  induction ns with
  | nil => intro _ s hs; cases hs
  | cons a t ih =>
    intro hn s hs
    simp only [snames, List.map_cons, List.nodup_cons] at hn
    rcases List.mem_cons.mp hs with rfl | hs'
    · simp [findS]
    · have hne : a.name ≠ s.name := fun e => hn.1 (by rw [e]; exact List.mem_map.mpr ⟨s, hs', rfl⟩)
      have : findS s.name (a :: t) = findS s.name t := by simp [findS, hne]
      rw [this]
      exact ih hn.2 s hs'


/-! ### the fold over occurrences equals the per-path specification -/

theorem nodeFrom_nil (I : Interp α) (conv : Str → Str → Rat → R Rat) (uk : Str → Bool) (ns0 : List SNode) :
    nodeFrom I conv uk ns0 ([] : List (Option Str × Payload α)) =
      (fun q => match findS q ns0 with | some s => (Except.ok s : R SNode) | none => .error .fail) := by
  funext q
  simp only [nodeFrom]
  cases findS q ns0 with
  | none => simp [occOf]
  | some s => simp [occOf, foldAssign]

theorem stepO_found (I : Interp α) (conv : Str → Str → Rat → R Rat) (uk : Str → Bool) (ns : List SNode)
    (p : Str) (pl : Payload α) (s : SNode) (h : findS p ns = some s) :
    stepO I conv uk ns (some p, pl) = (assignTo I conv uk s pl).map (fun s' => replaceS s' ns) := by
  simp [stepO, h]

theorem stepO_new (I : Interp α) (conv : Str → Str → Rat → R Rat) (uk : Str → Bool) (ns : List SNode)
    (p : Str) (pl : Payload α) (h : findS p ns = none) :
    stepO I conv uk ns (some p, pl) = (firstOf I uk p pl).map (fun s => ns ++ [s]) := by
  simp [stepO, h]

theorem foldO_cons (I : Interp α) (conv : Str → Str → Rat → R Rat) (uk : Str → Bool) (ns : List SNode)
    (o : Option Str × Payload α) (t : List (Option Str × Payload α)) :
    foldO I conv uk ns (o :: t) = (stepO I conv uk ns o).bind (fun ns' => foldO I conv uk ns' t) := rfl

theorem foldO_eq_perPath (I : Interp α) (conv : Str → Str → Rat → R Rat) (uk : Str → Bool) :
    ∀ (os : List (Option Str × Payload α)) (ns0 : List SNode), (snames ns0).Nodup → (∀ o ∈ os, o.1.isSome = true) →
      ResEq (foldO I conv uk ns0 os) ((pathsFrom ns0 os).mapM (nodeFrom I conv uk ns0 os)) := by
  intro os
  induction os with
  | nil =>
    intro ns0 hn _
    refine .inl ⟨ns0, rfl, ?_⟩
    simp only [pathsFrom, List.filterMap_nil, dedupFrom, List.append_nil, nodeFrom_nil]
    exact mapM_find_self ns0 hn ns0 (findS_self_of_nodup ns0 hn)
  | cons o t ih =>
    intro ns0 hn hsome
    obtain ⟨op, pl⟩ := o
    have hop := hsome (op, pl) (by simp)
    cases op with
    | none => simp at hop
    | some p =>
      have hsome' : ∀ o ∈ t, o.1.isSome = true := fun o ho => hsome o (List.mem_cons_of_mem _ ho)
      rw [foldO_cons]
      cases hf : findS p ns0 with
      | some s =>
        obtain ⟨hs_mem, hs_name⟩ := findS_some hf
        have hp_in : p ∈ snames ns0 := by rw [← hs_name]; exact List.mem_map.mpr ⟨s, hs_mem, rfl⟩
        have hpaths : pathsFrom ns0 ((some p, pl) :: t) = pathsFrom ns0 t := by
          simp [pathsFrom, dedupFrom, hp_in]
        rw [stepO_found I conv uk ns0 p pl s hf]
        cases ha : assignTo I conv uk s pl with
        | error e =>
          simp only [Except.map, Except.bind]
          obtain ⟨e2, h2⟩ := mapM_error' (nodeFrom I conv uk ns0 ((some p, pl) :: t)) (pathsFrom ns0 ((some p, pl) :: t))
            ⟨p, by rw [hpaths]; simp [pathsFrom, hp_in], e, by
              simp [nodeFrom, hf, occOf_cons_same, foldAssign, ha, bind, Except.bind]⟩
          exact .inr ⟨e, e2, rfl, h2⟩
        | ok s' =>
          simp only [Except.map, Except.bind]
          have hs'name : s'.name = p := by rw [assignTo_name I conv uk s s' pl ha, hs_name]
          have hn1 : (snames (replaceS s' ns0)).Nodup := by rw [snames_replace]; exact hn
          have hIH := ih (replaceS s' ns0) hn1 hsome'
          have hfun : nodeFrom I conv uk (replaceS s' ns0) t = nodeFrom I conv uk ns0 ((some p, pl) :: t) := by
            funext q
            by_cases hq : q = p
            · subst hq
              have : findS q (replaceS s' ns0) = some s' := by
                rw [findS_replace]; simp [hs'name, hf]
              simp [nodeFrom, this, hf, occOf_cons_same, foldAssign, ha, bind, Except.bind]
            · have : findS q (replaceS s' ns0) = findS q ns0 := by
                rw [findS_replace]; simp [hs'name, hq]
              simp only [nodeFrom, this, occOf_cons_other p q pl t hq]
          have hpf : pathsFrom (replaceS s' ns0) t = pathsFrom ns0 ((some p, pl) :: t) := by
            rw [hpaths]; simp only [pathsFrom, snames_replace]
          rw [hfun, hpf] at hIH
          exact hIH
      | none =>
        have hp_notin := findS_none hf
        rw [stepO_new I conv uk ns0 p pl hf]
        cases hfo : firstOf I uk p pl with
        | error e =>
          simp only [Except.map, Except.bind]
          have hp_mem : p ∈ pathsFrom ns0 ((some p, pl) :: t) := by
            simp [pathsFrom, dedupFrom, hp_notin]
          obtain ⟨e2, h2⟩ := mapM_error' (nodeFrom I conv uk ns0 ((some p, pl) :: t)) _
            ⟨p, hp_mem, e, by simp [nodeFrom, hf, occOf_cons_same, hfo, bind, Except.bind]⟩
          exact .inr ⟨e, e2, rfl, h2⟩
        | ok s =>
          simp only [Except.map, Except.bind]
          have hsname : s.name = p := firstOf_name I uk p pl s hfo
          have hnot' : s.name ∉ snames ns0 := by rw [hsname]; exact hp_notin
          have hn1 : (snames (ns0 ++ [s])).Nodup := by
            simp only [snames, List.map_append, List.map_cons, List.map_nil]
            refine List.nodup_append.mpr ⟨hn, by simp, ?_⟩
            intro a ha b hb
            simp only [List.mem_singleton] at hb
            subst hb
            intro e; subst e; exact hnot' ha
          have hIH := ih (ns0 ++ [s]) hn1 hsome'
          have hfun : nodeFrom I conv uk (ns0 ++ [s]) t = nodeFrom I conv uk ns0 ((some p, pl) :: t) := by
            funext q
            by_cases hq : q = p
            · subst hq
              have : findS q (ns0 ++ [s]) = some s := by
                rw [findS_append_single ns0 s q hnot']; simp [hsname]
              simp [nodeFrom, this, hf, occOf_cons_same, hfo, bind, Except.bind]
            · have : findS q (ns0 ++ [s]) = findS q ns0 := by
                rw [findS_append_single ns0 s q hnot']; simp [hsname, hq]
              simp only [nodeFrom, this, occOf_cons_other p q pl t hq]
          have hpf : pathsFrom (ns0 ++ [s]) t = pathsFrom ns0 ((some p, pl) :: t) := by
            have hc : (snames ns0).contains p = false := by simpa using hp_notin
            simp only [pathsFrom, snames, List.map_append, List.map_cons, List.map_nil, hsname,
              List.filterMap_cons, dedupFrom]
            simp only [snames] at hc
            simp only [hc, Bool.false_eq_true, if_false, List.append_assoc, List.singleton_append]
            congr 2
            apply dedupFrom_congr
            intro x
            simp [or_comm]
          rw [hfun, hpf] at hIH
          exact hIH

theorem foldO_none_fails (I : Interp α) (conv : Str → Str → Rat → R Rat) (uk : Str → Bool) :
    ∀ (os : List (Option Str × Payload α)) (ns0 : List SNode), (∃ o ∈ os, o.1.isNone = true) →
      ∃ e, foldO I conv uk ns0 os = .error e := by
  intro os
  induction os with
  | nil => intro _ ⟨o, ho, _⟩; cases ho
  | cons o t ih =>
    intro ns0 ⟨o', ho', hnone⟩
    simp only [foldO, bind, Except.bind]
    cases hs : stepO I conv uk ns0 o with
    | error e => exact ⟨e, rfl⟩
    | ok ns1 =>
      rcases List.mem_cons.mp ho' with rfl | h
      · obtain ⟨op, pl⟩ := o'
        cases op with
        | none => simp [stepO] at hs
        | some p => simp at hnone
      · exact ih ns1 ⟨o', h, hnone⟩

end SciVerif.C13
