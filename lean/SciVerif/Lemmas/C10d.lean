import SciVerif.Lemmas.C10
import Mathlib.Tactic.Ring
import Mathlib.Data.Rat.Defs
import Mathlib.Data.Rat.Cast.Defs
import Mathlib.Data.List.TakeDrop

/-! C10: characters, digits, `strip`, `scanPar` and the tokenizer on plain runs. -/
namespace SciVerif.C10

/-- characters that are neither blank nor one of the solver's structural symbols -/
def PlainC (c : Char) : Prop := c ≠ '(' ∧ c ≠ ')' ∧ c ≠ ',' ∧ isWs c = false

instance : DecidablePred PlainC := fun c => by unfold PlainC; infer_instance

def Plain (s : Str) : Prop := ∀ c ∈ s, PlainC c

theorem PlainC.ne_space {c : Char} (h : PlainC c) : c ≠ ' ' := by
  intro e; subst e; exact absurd h.2.2.2 (by decide)

/-! ### digits -/

theorem digitChar_facts : ∀ d, d < 10 →
    isDig (digitChar d) = true ∧ (digitChar d).toNat - '0'.toNat = d ∧ PlainC (digitChar d) := by
  decide

theorem natOfDigits_step (a : Nat) (d : Nat) (hd : d < 10) (l : Str) :
    (digitChar d :: l).foldl (fun a c => 10 * a + (c.toNat - '0'.toNat)) a =
      l.foldl (fun a c => 10 * a + (c.toNat - '0'.toNat)) (10 * a + d) := by
  simp only [List.foldl_cons]
  rw [(digitChar_facts d hd).2.1]

theorem digitsAux_val (fuel : Nat) : ∀ (n : Nat) (acc : Str) (a : Nat), n < fuel →
    ∃ k, (digitsAux fuel n acc).foldl (fun a c => 10 * a + (c.toNat - '0'.toNat)) a =
      acc.foldl (fun a c => 10 * a + (c.toNat - '0'.toNat)) (a * 10 ^ k + n) := by
  induction fuel with
  | zero => intro n acc a h; omega
  | succ fuel ih =>
    intro n acc a h
    unfold digitsAux
    by_cases h10 : n < 10
    · simp only [h10, if_true]
      exact ⟨1, by rw [natOfDigits_step a n h10]; congr 1; ring⟩
    · simp only [h10, if_false]
      obtain ⟨k, hk⟩ := ih (n / 10) (digitChar (n % 10) :: acc) a (by omega)
      refine ⟨k + 1, ?_⟩
      rw [hk, natOfDigits_step _ _ (Nat.mod_lt _ (by omega))]
      congr 1
      have h1 := Nat.div_add_mod n 10
      have h2 : a * 10 ^ (k + 1) = 10 * (a * 10 ^ k) := by ring
      rw [h2]
      generalize a * 10 ^ k = x
      omega

theorem natOfDigits_digitsOf (n : Nat) : natOfDigits (digitsOf n) = n := by
  obtain ⟨k, hk⟩ := digitsAux_val (n + 1) n [] 0 (by omega)
  simpa [natOfDigits, digitsOf] using hk

theorem digitsAux_all (fuel : Nat) : ∀ (n : Nat) (acc : Str),
    (∀ c ∈ acc, isDig c = true ∧ PlainC c) → ∀ c ∈ digitsAux fuel n acc, isDig c = true ∧ PlainC c := by
  induction fuel with
  | zero => intro n acc h; simpa [digitsAux] using h
  | succ fuel ih =>
    intro n acc h
    unfold digitsAux
    by_cases h10 : n < 10
    · simp only [h10, if_true]
      intro c hc
      rcases List.mem_cons.mp hc with rfl | hc
      · exact ⟨(digitChar_facts n h10).1, (digitChar_facts n h10).2.2⟩
      · exact h c hc
    · simp only [h10, if_false]
      apply ih
      intro c hc
      have hm : n % 10 < 10 := Nat.mod_lt _ (by omega)
      rcases List.mem_cons.mp hc with rfl | hc
      · exact ⟨(digitChar_facts _ hm).1, (digitChar_facts _ hm).2.2⟩
      · exact h c hc

theorem digitsAux_ne_nil (fuel : Nat) : ∀ (n : Nat) (acc : Str), 0 < fuel → digitsAux fuel n acc ≠ [] := by
  induction fuel with
  | zero => intro n acc h; omega
  | succ fuel ih =>
    intro n acc _
    unfold digitsAux
    by_cases h10 : n < 10
    · simp [h10]
    · simp only [h10, if_false]
      cases fuel with
      | zero => simp [digitsAux]
      | succ f => exact ih _ _ (by omega)

theorem digitsOf_all (n : Nat) : ∀ c ∈ digitsOf n, isDig c = true ∧ PlainC c :=
  digitsAux_all (n + 1) n [] (by simp)

theorem digitsOf_ne_nil (n : Nat) : digitsOf n ≠ [] := digitsAux_ne_nil (n + 1) n [] (by omega)

theorem digitsOf_plain (n : Nat) : Plain (digitsOf n) := fun c hc => (digitsOf_all n c hc).2

theorem takeWhile_all {β : Type} (p : β → Bool) (l : List β) (h : ∀ x ∈ l, p x = true) :
    l.takeWhile p = l := by
  induction l with
  | nil => rfl
  | cons a t ih => simp [h a (by simp), ih (fun x hx => h x (by simp [hx]))]

theorem dropWhile_all {β : Type} (p : β → Bool) (l : List β) (h : ∀ x ∈ l, p x = true) :
    l.dropWhile p = [] := by
  induction l with
  | nil => rfl
  | cons a t ih => simp [List.dropWhile_cons, h a (by simp), ih (fun x hx => h x (by simp [hx]))]

theorem span_all {β : Type} (p : β → Bool) (l : List β) (h : ∀ x ∈ l, p x = true) : l.span p = (l, []) := by
  rw [List.span_eq_takeWhile_dropWhile, takeWhile_all p l h, dropWhile_all p l h]

/-- `float("<digits of n>")` -/
theorem parseFloat_digitsOf (n : Nat) : parseFloat (digitsOf n) = some (n : Rat) := by
  have hs := span_all isDig (digitsOf n) (fun c hc => (digitsOf_all n c hc).1)
  have hne := digitsOf_ne_nil n
  unfold parseFloat
  simp only [hs]
  have : (digitsOf n).isEmpty = false := by
    cases h : digitsOf n with
    | nil => exact absurd h hne
    | cons a t => rfl
  simp [this, natOfDigits_digitsOf]

end SciVerif.C10
