import SciVerif.Model.C18

/-!
Generic lemmas about the token machine (C18): each pass of the step table reduces exactly the
sub-trees whose top operator binds at that level, left to right.
-/
namespace SciVerif.C18

variable {Q A : Type}

/-! ### one-step rewriting lemmas -/

theorem binPass_nil (f : String → Option (Q → Q → Q)) (left : Toks Q) :
    binPass f left [] = some left.reverse := by rw [binPass]

theorem binPass_atom (f : String → Option (Q → Q → Q)) (left r : Toks Q) (q : Q) :
    binPass f left (.atom q :: r) = binPass f (.atom q :: left) r := by rw [binPass]

theorem binPass_skip (f : String → Option (Q → Q → Q)) (left r : Toks Q) (o : String)
    (h : f o = none) : binPass f left (.op o :: r) = binPass f (.op o :: left) r := by
  rw [binPass]; simp [h]

theorem binPass_apply (f : String → Option (Q → Q → Q)) (l r : Toks Q) (o : String) (a b : Q)
    (g : Q → Q → Q) (h : f o = some g) :
    binPass f (.atom a :: l) (.op o :: .atom b :: r) = binPass f (.atom (g a b) :: l) r := by
  rw [binPass]; simp [h]

theorem prePass_nil (f : String → Option (Q → Q)) (left : Toks Q) :
    prePass f left [] = some left.reverse := by rw [prePass]

theorem prePass_atom (f : String → Option (Q → Q)) (left r : Toks Q) (q : Q) :
    prePass f left (.atom q :: r) = prePass f (.atom q :: left) r := by rw [prePass]

theorem prePass_skip (f : String → Option (Q → Q)) (left r : Toks Q) (o : String)
    (h : f o = none) : prePass f left (.op o :: r) = prePass f (.op o :: left) r := by
  rw [prePass]; simp [h]

theorem prePass_apply (f : String → Option (Q → Q)) (left r : Toks Q) (o : String) (b : Q)
    (g : Q → Q) (h : f o = some g) :
    prePass f left (.op o :: .atom b :: r) = prePass f (.atom (g b) :: left) r := by
  rw [prePass]; simp [h]

/-! ### collapse -/

section
variable (S : Sem Q) (binSem : String → Q → Q → Q) (preSem : String → Q → Q) (av : A → Q)
  (G : Grammar)

theorem collapse_of_top_le (k : Nat) (e : E A) (h : e.top G ≤ k) :
    e.collapse S binSem preSem av G k = [.atom (e.eval S binSem preSem av)] := by
  cases e <;> simp_all [E.collapse, E.top]

theorem collapse_mono (j k : Nat) (e : E A) (hjk : j ≤ k)
    (h : e.collapse S binSem preSem av G j = [.atom (e.eval S binSem preSem av)]) (ht : e.top G ≤ j) :
    e.collapse S binSem preSem av G k = [.atom (e.eval S binSem preSem av)] :=
  collapse_of_top_le S binSem preSem av G k e (by omega)

/-- A BINARY pass whose operators are exactly the admitted binary operators of level `k`
    turns the level-`(k-1)` token list of a well-formed tree into its level-`k` token list. -/
theorem binPass_collapse (k : Nat) (hk : 0 < k) (f : String → Option (Q → Q → Q))
    (hf : ∀ o, G.okBin o = true → f o = if G.lvl o = k then some (binSem o) else none)
    (hp : ∀ u, G.okPre u = true → ¬ G.lvlPre u ≤ k - 1 → f u = none ∧ G.lvlPre u ≠ k)
    (e : E A) (hw : e.WF G) : ∀ left rest : Toks Q,
    binPass f left (e.collapse S binSem preSem av G (k - 1) ++ rest) =
      binPass f ((e.collapse S binSem preSem av G k).reverse ++ left) rest := by
  induction e with
  | lit a => intro left rest; simp [E.collapse, binPass_atom]
  | par e _ => intro left rest; simp [E.collapse, binPass_atom]
  | fn1 f' a _ => intro left rest; simp [E.collapse, binPass_atom]
  | fn2 f' a b _ _ => intro left rest; simp [E.collapse, binPass_atom]
  | pre u e ih =>
    intro left rest
    obtain ⟨hu, hl, ht, hwe⟩ := hw
    by_cases h1 : G.lvlPre u ≤ k - 1
    · have h2 : G.lvlPre u ≤ k := by omega
      simp [E.collapse, h1, h2, binPass_atom]
    · obtain ⟨hfu, hne⟩ := hp u hu h1
      have h2 : ¬ G.lvlPre u ≤ k := by omega
      simp only [E.collapse, h1, h2, if_false, List.cons_append]
      rw [binPass_skip _ _ _ _ hfu, ih hwe]
      simp
  | bin o l r ihl ihr =>
    intro left rest
    obtain ⟨ho, hl0, htl, htr, hwl, hwr⟩ := hw
    have hfo := hf o ho
    by_cases h1 : G.lvl o ≤ k - 1
    · have h2 : G.lvl o ≤ k := by omega
      simp [E.collapse, h1, h2, binPass_atom]
    · by_cases h2 : G.lvl o ≤ k
      · have hek : G.lvl o = k := by omega
        have cr : r.collapse S binSem preSem av G (k - 1) = [.atom (r.eval S binSem preSem av)] :=
          collapse_of_top_le S binSem preSem av G (k - 1) r (by omega)
        have cl : l.collapse S binSem preSem av G k = [.atom (l.eval S binSem preSem av)] :=
          collapse_of_top_le S binSem preSem av G k l (by omega)
        simp only [E.collapse, h1, h2, if_false, if_true, cr, List.append_assoc, List.cons_append,
          List.nil_append]
        rw [ihl hwl, cl]
        simp only [List.reverse_cons, List.reverse_nil, List.nil_append, List.cons_append]
        rw [binPass_apply _ _ _ _ _ _ (binSem o) (by simp [hfo, hek])]
        simp [E.eval]
      · have hfo' : f o = none := by simp [hfo]; omega
        simp only [E.collapse, h1, h2, if_false, List.append_assoc, List.cons_append]
        rw [ihl hwl, binPass_skip _ _ _ _ hfo', ihr hwr]
        simp

/-- A prefix (UNARY) pass whose operators are exactly the admitted prefix operators of level `k`. -/
theorem prePass_collapse (k : Nat) (hk : 0 < k) (f : String → Option (Q → Q))
    (hf : ∀ u, G.okPre u = true → f u = if G.lvlPre u = k then some (preSem u) else none)
    (hp : ∀ o, G.okBin o = true → f o = none ∧ G.lvl o ≠ k)
    (e : E A) (hw : e.WF G) : ∀ left rest : Toks Q,
    prePass f left (e.collapse S binSem preSem av G (k - 1) ++ rest) =
      prePass f ((e.collapse S binSem preSem av G k).reverse ++ left) rest := by
  induction e with
  | lit a => intro left rest; simp [E.collapse, prePass_atom]
  | par e _ => intro left rest; simp [E.collapse, prePass_atom]
  | fn1 f' a _ => intro left rest; simp [E.collapse, prePass_atom]
  | fn2 f' a b _ _ => intro left rest; simp [E.collapse, prePass_atom]
  | pre u e ih =>
    intro left rest
    obtain ⟨hu, hl, ht, hwe⟩ := hw
    have hfu := hf u hu
    by_cases h1 : G.lvlPre u ≤ k - 1
    · have h2 : G.lvlPre u ≤ k := by omega
      simp [E.collapse, h1, h2, prePass_atom]
    · by_cases h2 : G.lvlPre u ≤ k
      · have hek : G.lvlPre u = k := by omega
        have ce : e.collapse S binSem preSem av G (k - 1) = [.atom (e.eval S binSem preSem av)] :=
          collapse_of_top_le S binSem preSem av G (k - 1) e (by omega)
        simp only [E.collapse, h1, h2, if_false, if_true, ce, List.cons_append, List.nil_append]
        rw [prePass_apply _ _ _ _ _ (preSem u) (by simp [hfu, hek])]
        simp [E.eval]
      · have hfu' : f u = none := by simp [hfu]; omega
        simp only [E.collapse, h1, h2, if_false, List.cons_append]
        rw [prePass_skip _ _ _ _ hfu', ih hwe]
        simp
  | bin o l r ihl ihr =>
    intro left rest
    obtain ⟨ho, hl0, htl, htr, hwl, hwr⟩ := hw
    obtain ⟨hfo, hne⟩ := hp o ho
    by_cases h1 : G.lvl o ≤ k - 1
    · have h2 : G.lvl o ≤ k := by omega
      simp [E.collapse, h1, h2, prePass_atom]
    · have h2 : ¬ G.lvl o ≤ k := by omega
      simp only [E.collapse, h1, h2, if_false, List.append_assoc, List.cons_append]
      rw [ihl hwl, prePass_skip _ _ _ _ hfo, ihr hwr]
      simp

/-- Whole-list versions (empty stack, nothing behind). -/
theorem binPass_collapse_all (k : Nat) (hk : 0 < k) (f : String → Option (Q → Q → Q))
    (hf : ∀ o, G.okBin o = true → f o = if G.lvl o = k then some (binSem o) else none)
    (hp : ∀ u, G.okPre u = true → ¬ G.lvlPre u ≤ k - 1 → f u = none ∧ G.lvlPre u ≠ k)
    (e : E A) (hw : e.WF G) :
    binPass f [] (e.collapse S binSem preSem av G (k - 1)) =
      some (e.collapse S binSem preSem av G k) := by
  have h := binPass_collapse S binSem preSem av G k hk f hf hp e hw [] []
  simp only [List.append_nil] at h
  rw [h, binPass_nil]; simp

theorem prePass_collapse_all (k : Nat) (hk : 0 < k) (f : String → Option (Q → Q))
    (hf : ∀ u, G.okPre u = true → f u = if G.lvlPre u = k then some (preSem u) else none)
    (hp : ∀ o, G.okBin o = true → f o = none ∧ G.lvl o ≠ k)
    (e : E A) (hw : e.WF G) :
    prePass f [] (e.collapse S binSem preSem av G (k - 1)) =
      some (e.collapse S binSem preSem av G k) := by
  have h := prePass_collapse S binSem preSem av G k hk f hf hp e hw [] []
  simp only [List.append_nil] at h
  rw [h, prePass_nil]; simp

/-! ### the ARGS pass -/

theorem argsPass_append (fn : String → List Q → Q) (ops : List String) (a b : Toks Q) :
    argsPass fn ops (a ++ b) = argsPass fn ops a ++ argsPass fn ops b := by
  induction a with
  | nil => rfl
  | cons t a ih => cases t <;> simp [argsPass, ih]

/-- The ARGS pass on the token list of a well-formed tree (arguments already solved to their
    values) yields the level-0 list. -/
theorem argsPass_toks (ops : List String) (hpar : "par" ∈ ops)
    (h1 : ∀ f, G.okFn1 f = true → f ∈ ops) (h2 : ∀ f, G.okFn2 f = true → f ∈ ops)
    (e : E A) (hw : e.WF G) :
    argsPass S.fn ops (e.toks (fun x => x.eval S binSem preSem av) av) =
      e.collapse S binSem preSem av G 0 := by
  induction e with
  | lit a => simp [E.toks, argsPass, E.collapse, E.eval]
  | par e _ => simp [E.toks, argsPass, E.collapse, E.eval, hpar]
  | fn1 f a _ => simp [E.toks, argsPass, E.collapse, E.eval, h1 f hw.1]
  | fn2 f a b _ _ => simp [E.toks, argsPass, E.collapse, E.eval, h2 f hw.1]
  | pre u e ih =>
    obtain ⟨hu, hl, ht, hwe⟩ := hw
    have : ¬ G.lvlPre u ≤ 0 := by omega
    simp [E.toks, argsPass, E.collapse, this, ih hwe]
  | bin o l r ihl ihr =>
    obtain ⟨ho, hl0, htl, htr, hwl, hwr⟩ := hw
    have : ¬ G.lvl o ≤ 0 := by omega
    simp [E.toks, argsPass_append, argsPass, E.collapse, this, ihl hwl, ihr hwr]

/-! ### sign folding reduces exactly the prefix signs -/

theorem collapse_ne_nil (k : Nat) (e : E A) : e.collapse S binSem preSem av G k ≠ [] := by
  cases e <;> simp [E.collapse] <;> split <;> simp

/-- every level list ends with a value -/
theorem collapse_last (k : Nat) (e : E A) :
    ∃ p q, e.collapse S binSem preSem av G k = p ++ [Tok.atom q] := by
  induction e with
  | lit a => exact ⟨[], _, rfl⟩
  | par e _ => exact ⟨[], _, rfl⟩
  | fn1 f a _ => exact ⟨[], _, rfl⟩
  | fn2 f a b _ _ => exact ⟨[], _, rfl⟩
  | pre u e ih =>
    simp only [E.collapse]
    split
    · exact ⟨[], _, rfl⟩
    · obtain ⟨p, q, h⟩ := ih; exact ⟨.op u :: p, q, by simp [h]⟩
  | bin o l r _ ihr =>
    simp only [E.collapse]
    split
    · exact ⟨[], _, rfl⟩
    · obtain ⟨p, q, h⟩ := ihr
      exact ⟨l.collapse S binSem preSem av G k ++ .op o :: p, q, by simp [h]⟩

/-- the top of `left` is not a value: the next token is in prefix position -/
def PrefixPos : Toks Q → Prop
  | [] => True
  | .op _ :: _ => True
  | _ => False

/-- The sign-folding (UNARY add/sub) pass turns the level-0 list of a well-formed tree into its
    level-1 list: a sign in prefix position is applied to the value that follows it, a binary
    ` + ` / ` - ` (a value to its left) is left alone. -/
theorem signPass_collapse (neg : Q → Q) (ops : List String)
    (hpre : ∀ u, G.okPre u = true → u ∈ ops ∧ G.lvlPre u = 1 ∧
      preSem u = fun q => if (u == "sub") = true then neg q else q)
    (hbin : ∀ o, G.okBin o = true → 2 ≤ G.lvl o)
    (e : E A) (hw : e.WF G) : ∀ left rest : Toks Q, PrefixPos left →
    signPass neg ops left (e.collapse S binSem preSem av G 0 ++ rest) =
      signPass neg ops ((e.collapse S binSem preSem av G 1).reverse ++ left) rest := by
  induction e with
  | lit a => intro left rest _; simp only [E.collapse, List.cons_append, List.nil_append]; rw [signPass]; simp
  | par e _ => intro left rest _; simp only [E.collapse, List.cons_append, List.nil_append]; rw [signPass]; simp
  | fn1 f a _ => intro left rest _; simp only [E.collapse, List.cons_append, List.nil_append]; rw [signPass]; simp
  | fn2 f a b _ _ => intro left rest _; simp only [E.collapse, List.cons_append, List.nil_append]; rw [signPass]; simp
  | pre u e _ =>
    intro left rest hl
    obtain ⟨hu, _, ht, _⟩ := hw
    obtain ⟨hmem, hlv, hsem⟩ := hpre u hu
    have ce : e.collapse S binSem preSem av G 0 = [.atom (e.eval S binSem preSem av)] :=
      collapse_of_top_le S binSem preSem av G 0 e (by omega)
    have h0 : ¬ G.lvlPre u ≤ 0 := by omega
    have h1 : G.lvlPre u ≤ 1 := by omega
    simp only [E.collapse, h0, h1, if_false, if_true, ce, List.cons_append, List.nil_append,
      List.reverse_cons, List.reverse_nil, E.eval, hsem]
    cases left with
    | nil =>
      rw [signPass]
      simp [hmem, popLeft, Tok.isAtom]
    | cons t l' =>
      cases t with
      | op o' =>
        rw [signPass]
        simp only [hmem, if_true, popLeft, Tok.isAtom, Tok.isOp]
        simp
        rw [signPass]
      | atom q => exact hl.elim
      | par n a => exact hl.elim
      | nil => exact hl.elim
  | bin o l r ihl ihr =>
    intro left rest hl
    obtain ⟨ho, _, _, _, hwl, hwr⟩ := hw
    have hlv := hbin o ho
    have h0 : ¬ G.lvl o ≤ 0 := by omega
    have h1 : ¬ G.lvl o ≤ 1 := by omega
    simp only [E.collapse, h0, h1, if_false, List.append_assoc, List.cons_append]
    rw [ihl hwl left _ hl]
    obtain ⟨p, q, hlast⟩ := collapse_last S binSem preSem av G 1 l
    have hne := collapse_ne_nil S binSem preSem av G 0 r
    cases hr : r.collapse S binSem preSem av G 0 with
    | nil => exact absurd hr hne
    | cons rt r' =>
      have step : signPass neg ops ((l.collapse S binSem preSem av G 1).reverse ++ left)
          (.op o :: (rt :: r' ++ rest)) =
          signPass neg ops (.op o :: ((l.collapse S binSem preSem av G 1).reverse ++ left))
            (rt :: r' ++ rest) := by
        rw [hlast]
        simp only [List.reverse_append, List.reverse_cons, List.reverse_nil, List.nil_append,
          List.cons_append]
        rw [signPass]
        by_cases hm : o ∈ ops
        · simp [hm, popLeft, Tok.isAtom]
        · simp [hm]
      rw [step, ← hr, ihr hwr _ _ (by simp [PrefixPos])]
      simp

end

end SciVerif.C18
