import SciVerif.Lemmas.C19o
/-!
# C19 — Fortran: declaration lines and whole modules under the guard
-/
namespace SciVerif.C19

theorem expectedDecl_fortran (p : Param) :
    expectedDecl bFortran p = fortranType p (printVal styleFortran p.value) := by
  unfold expectedDecl fortranType
  by_cases h : p.kind = Kind.str <;> simp [h]

theorem ctorInside_eq (p : Param) (dtype : Str) :
    (if p.value.isArr ∧ p.kind = Kind.str then dtype ++ cs!" :: " ++ printVal styleFortran p.value
     else printVal styleFortran p.value) = ctorInside p dtype := by
  unfold ctorInside
  split <;> simp

/-- **Fortran declaration lines** for the kinds Fortran carries (`fortranGuard`) -/
theorem readFortranLine_lineFortran (ren : Bool) (p : Param) (sh : List Nat)
    (hn : ∀ ch ∈ rename ren p.name, ch ≠ ' ') (hv : ValOK p.kind p.value)
    (hr : rectShape p.value = some sh) (h0 : 0 ∉ sh) (hg : fortranGuard p = true) :
    (lineFortran ren p).bind readFortranLine = expectedSym bFortran ren false p := by
  have hs := shapeOf_of_rect p.value sh hr h0
  cases ht : fortranType p (printVal styleFortran p.value) with
  | none => simp [lineFortran, expectedSym, expectedDecl_fortran, ht, hs]
  | some dtype =>
    obtain ⟨bits, hh⟩ := fhead p hg hv dtype ht
    have hexp : expectedSym bFortran ren false p = some ⟨rename ren p.name, dtype, sh, false, p.value⟩ := by
      simp [expectedSym, expectedDecl_fortran, ht, hs]
    rw [hexp]
    cases hia : p.value.isArr with
    | false =>
      have hsh : sh = [] := shape_nil_of_leaf p.value sh hr hia
      subst hsh
      obtain ⟨s, hval⟩ : ∃ s, p.value = .leaf s := by
        cases hp : p.value with
        | leaf s => exact ⟨s, rfl⟩
        | arr vs => rw [hp] at hia; simp [Val.isArr] at hia
      have ht' : fortranType p (printScalar styleFortran s) = some dtype := by
        rw [hval] at ht; simpa [printVal] using ht
      have hline : lineFortran ren p = some (' ' :: (' ' :: (dtype ++ (',' :: (' ' :: (cs!"parameter :: " ++ (rename ren p.name ++ (' ' :: ('=' :: (' ' :: (printScalar styleFortran s ++ ([';'])))))))))))) := by
        simp [lineFortran, hval, ht', shapeOf, printVal, Val.isArr]
      rw [hline, Option.bind_some, readFortranLine_head dtype _ p.kind bits hh.nocomma hh.kind]
      exact readFortranRest_scalar p s hval dtype bits hh hv _ hn
    | true =>
      by_cases hrank : 1 < sh.length
      · have hline : lineFortran ren p = some (' ' :: (' ' :: (dtype ++ (',' :: (' ' :: (cs!"dimension (" ++ (commaNats sh ++ (cs!"), parameter :: " ++ (rename ren p.name ++ (cs!" = reshape(" ++ (('[' :: (ctorInside p dtype ++ (cs!"],[" ++ (commaNats sh ++ (cs!"],order=[" ++ (commaNats (orderList sh.length) ++ ([']']))))))) ++ ([')'])))))))))))) := by
          simp only [lineFortran, ht, hs, hia, Option.bind_eq_bind, Option.bind_some]
          simp [hrank, ctorInside, hia]
        rw [hline, Option.bind_some, readFortranLine_head dtype _ p.kind bits hh.nocomma hh.kind]
        exact readFortranRest_reshape p dtype bits hh hv sh hr h0 hrank hia _ hn
      · have hne : sh ≠ [] := shape_ne_nil_of_arr p.value sh hr hia
        obtain ⟨n, rfl⟩ : ∃ n, sh = [n] := by
          cases sh with
          | nil => exact absurd rfl hne
          | cons a r =>
            cases r with
            | nil => exact ⟨a, rfl⟩
            | cons b r => simp at hrank
        have hline : lineFortran ren p = some (' ' :: (' ' :: (dtype ++ (',' :: (' ' :: (cs!"dimension (" ++ (commaNats [n] ++ (cs!") :: " ++ (rename ren p.name ++ (cs!" = " ++ (('[' :: (ctorInside p dtype ++ [']'])) ++ ([';'])))))))))))) := by
          simp only [lineFortran, ht, hs, hia, Option.bind_eq_bind, Option.bind_some]
          simp [ctorInside, hia]
        rw [hline, Option.bind_some, readFortranLine_head dtype _ p.kind bits hh.nocomma hh.kind]
        exact readFortranRest_vector p dtype bits hh hv n hr h0 hia _ hn

/-! ## whole modules -/

theorem readBodyF_lines (endline : Str) : ∀ body : List Str, (∀ l ∈ body, l ≠ []) →
    readBodyF endline (body ++ [[], endline]) = body.mapM readFortranLine
  | [], _ => by simp [readBodyF]
  | l :: ls, h => by
    have hl : l ≠ [] := h l (by simp)
    have ih := readBodyF_lines endline ls (fun x hx => h x (by simp [hx]))
    simp only [List.cons_append, readBodyF, hl, if_false, ih, List.mapM_cons, Option.bind_eq_bind, Option.pure_def]

theorem clean_commaNats (sh : List Nat) : clean (commaNats sh) = true :=
  clean_joinWith _ (by decide) _ (by
    intro l hl
    obtain ⟨d, _, rfl⟩ := List.mem_map.mp hl
    exact clean_showNat d)

/-- the conditions under which a parameter's Fortran line is read back -/
def ParamOKF (ren : Bool) (p : Param) : Prop :=
  (∀ ch ∈ rename ren p.name, ch ≠ ' ') ∧ clean (rename ren p.name) = true ∧ ValOK p.kind p.value ∧ NoNL p.value ∧
  (∃ sh, rectShape p.value = some sh ∧ 0 ∉ sh) ∧ fortranGuard p = true

theorem lineFortran_clean (ren : Bool) (p : Param) (hok : ParamOKF ren p) (l : Str) (h : lineFortran ren p = some l) :
    clean l = true ∧ l ≠ [] := by
  obtain ⟨_, hcn, hv, hnl, _, hg⟩ := hok
  unfold lineFortran at h
  cases hs : shapeOf p.value with
  | none => simp [hs] at h
  | some sh =>
    cases ht : fortranType p (printVal styleFortran p.value) with
    | none => simp [hs, ht] at h
    | some dtype =>
      obtain ⟨bits, hh⟩ := fhead p hg hv dtype ht
      have hdt := hh.cleanT
      have hval := printVal_clean styleFortran (by decide) (by decide) (by decide) (by decide) p.kind p.value hv hnl
      have hin : clean (if p.value.isArr ∧ p.kind = Kind.str then
            dtype ++ ' ' :: ':' :: ':' :: ' ' :: printVal styleFortran p.value
          else printVal styleFortran p.value) = true := by
        split <;> simp [clean_append, clean_cons, hdt, hval]
      simp only [hs, ht, Option.bind_eq_bind, Option.bind_some] at h
      split at h
      · simp at h; subst h
        refine ⟨?_, by simp⟩
        simp only [clean_append, clean_cons, clean_nil, hcn, hdt, hin]
        simp
      · split at h
        · simp at h; subst h
          refine ⟨?_, by simp⟩
          simp only [clean_append, clean_cons, clean_nil, hcn, hdt, hin, clean_commaNats]
          simp
        · simp at h; subst h
          refine ⟨?_, by simp⟩
          simp only [clean_append, clean_cons, clean_nil, hcn, hdt, hin, clean_commaNats]
          simp

/-- **whole Fortran modules** of guarded parameters -/
theorem readFortran_exportFortran (modname : Str) (hm : clean modname = true) (ren : Bool) (data : List Param)
    (hok : ∀ p ∈ data, ParamOKF ren p) :
    (exportFortran modname ren data).bind (readFortran modname) = expected bFortran ren [] data := by
  have hlines := mapM_lines (lineFortran ren) readFortranLine (fun p => expectedSym bFortran ren false p) data
    (fun p hp => by
      obtain ⟨h1, _, h3, _, ⟨sh, h5, h6⟩, h7⟩ := hok p hp
      exact readFortranLine_lineFortran ren p sh h1 h3 h5 h6 h7)
  have hexp : expected bFortran ren [] data = data.mapM (fun p => expectedSym bFortran ren false p) := by
    simp [expected]
  rw [hexp, ← hlines]
  unfold exportFortran
  cases hmm : data.mapM (lineFortran ren) with
  | none => simp
  | some body =>
    simp only [Option.bind_eq_bind, Option.bind_some]
    have hbody : ∀ l ∈ body, clean l = true ∧ l ≠ [] := by
      intro l hl
      obtain ⟨p, hp, hlp⟩ := mapM_some_mem (lineFortran ren) data body hmm l hl
      exact lineFortran_clean ren p (hok p hp) l hlp
    let endline : Str := cs!"end module " ++ modname
    have hl : lines (joinWith ['\n'] ([cs!"module " ++ modname, cs!"  implicit none", []] ++ body ++
        [[], cs!"end module " ++ modname])) =
        [cs!"module " ++ modname, cs!"  implicit none", []] ++ body ++ [[], cs!"end module " ++ modname] := by
      apply lines_joinWith
      · simp
      · intro l hl
        apply (clean_iff l).mp
        simp only [List.mem_append, List.mem_cons, List.mem_nil_iff, or_false] at hl
        rcases hl with (hl | hl) | hl
        · rcases hl with rfl | rfl | rfl
          · simp only [clean_append, hm, Bool.and_true]; decide
          · decide
          · rfl
        · exact (hbody l hl).1
        · rcases hl with rfl | rfl
          · rfl
          · simp only [clean_append, hm, Bool.and_true]; decide
    unfold readFortran
    rw [hl]
    simp only [List.cons_append, List.nil_append, and_self, if_true, Option.bind_eq_bind, Option.bind_some]
    exact readBodyF_lines _ body (fun l hl => (hbody l hl).2)

end SciVerif.C19
