import SciVerif.Model.C05
import SciVerif.Generated.C05Tables
import SciVerif.Generated.C04Tables
import Mathlib.Tactic.Ring
import Mathlib.Tactic.FieldSimp
import Mathlib.Tactic.Linarith

/-! Helper lemmas for C04 (rule selection, symmetry of the dimension tests, `Mag.map`). -/
set_option linter.unusedSectionVars false

namespace SciVerif.C04
open SciVerif.C05

variable {K : Type}

/-! ### `Mag.map` -/

theorem Mag.map_map (f g : K → K) (m : Mag K) : (m.map f).map g = m.map (fun x => g (f x)) := by
  cases m with
  | scalar x => rfl
  | arr xs => simp [Mag.map, List.map_map, Function.comp_def]

theorem Mag.map_id' (f : K → K) (m : Mag K) (h : ∀ x, f x = x) : m.map f = m := by
  cases m with
  | scalar x => simp [Mag.map, h]
  | arr xs =>
    have : f = id := funext h
    simp [Mag.map, this]

/-- on the values actually stored -/
def Mag.All (P : K → Prop) : Mag K → Prop
  | .scalar x => P x
  | .arr xs => ∀ x ∈ xs, P x

theorem Mag.map_congr (f g : K → K) (m : Mag K) (P : K → Prop) (hm : m.All P)
    (h : ∀ x, P x → f x = g x) : m.map f = m.map g := by
  cases m with
  | scalar x => simp [Mag.map, h x hm]
  | arr xs =>
    simp only [Mag.map, Mag.arr.injEq]
    exact List.map_congr_left (fun x hx => h x (hm x hx))

/-! ### symmetry of the dimension tests -/

theorem Frac.eq_symm (a b : Frac) : a.eq b = b.eq a := by
  simp only [Frac.eq]
  rw [Bool.eq_iff_iff]
  simp only [beq_iff_eq]
  exact eq_comm

theorem Dims.eq_symm (a b : Dims) : Dims.eq a b = Dims.eq b a := by
  induction a generalizing b with
  | nil => cases b <;> rfl
  | cons x xs ih =>
    cases b with
    | nil => rfl
    | cons y ys => simp only [Dims.eq, Frac.eq_symm x y, ih ys]

theorem Frac.neg_eq_symm (a b : Frac) : (a.mulInt (-1)).eq b = (b.mulInt (-1)).eq a := by
  simp only [Frac.eq, Frac.mulInt]
  rw [Bool.eq_iff_iff]
  simp only [beq_iff_eq]
  constructor <;> intro h <;> linarith

theorem Dims.neg_eq_symm (a b : Dims) : Dims.eq (Dims.neg a) b = Dims.eq (Dims.neg b) a := by
  induction a generalizing b with
  | nil => cases b <;> rfl
  | cons x xs ih =>
    cases b with
    | nil => rfl
    | cons y ys =>
      have := ih ys
      simp only [Dims.neg, List.map_cons, Dims.eq] at this ⊢
      rw [Frac.neg_eq_symm x y, this]

/-! ### rule selection -/

section
variable [Mul K] [Div K]

theorem pick_of_declines (pre rs : List (Rule K)) (b1 b2 : BU K)
    (h : ∀ r ∈ pre, r b1 b2 = .decline) : pick (pre ++ rs) b1 b2 = pick rs b1 b2 := by
  induction pre with
  | nil => rfl
  | cons r pre ih =>
    have hr : r b1 b2 = .decline := h r (by simp)
    simp only [List.cons_append, pick, hr]
    exact ih (fun r' hr' => h r' (by simp [hr']))

theorem pick_nil (b1 b2 : BU K) : pick ([] : List (Rule K)) b1 b2 = .error .unsupported := rfl

end

section
variable [Mul K] [Div K] [One K]

theorem standard_same (b1 b2 : BU K) (h : b1.dims.eq b2.dims = true) :
    (standard : Rule K) b1 b2 = .accept (fun v => v) := by
  simp [standard, h]

theorem standard_neg (b1 b2 : BU K) (h : b1.dims.eq b2.dims = false)
    (hn : b1.dims.neg.eq b2.dims = true) :
    (standard : Rule K) b1 b2 = .accept (fun v => 1 / v) := by
  simp [standard, h, hn]

theorem standard_rad (b1 b2 : BU K) (h : b1.dims.eq b2.dims = false)
    (hn : b1.dims.neg.eq b2.dims = false)
    (hr : (b1.nobase && b2.units == ["rad"] && radOne b2.dims) = true) :
    (standard : Rule K) b1 b2 = .accept (fun v => v) := by
  simp only [standard, h, hn, hr]
  simp

theorem standard_decline (b1 b2 : BU K) (h : b1.dims.eq b2.dims = false)
    (hn : b1.dims.neg.eq b2.dims = false)
    (hr : (b1.nobase && b2.units == ["rad"] && radOne b2.dims) = false) :
    (standard : Rule K) b1 b2 = .decline := by
  simp only [standard, h, hn, hr]
  simp

end

/-! ### the classes before `StandardUnitType` decline on units outside their process lists -/

section
variable [Add K] [Mul K] [Div K] [One K] [LogOps K]

theorem temperature_declines (T : Tables) (b1 b2 : BU K) (h : touches T.tempProcess b1 b2 = false) :
    (temperature T : Rule K) b1 b2 = .decline := by
  simp [temperature, h]

theorem logarithmic_declines (T : Tables) (b1 b2 : BU K) (h : touches T.logProcess b1 b2 = false) :
    (logarithmic T : Rule K) b1 b2 = .decline := by
  simp [logarithmic, h]

/-- `UNIT_TYPES` as regenerated from the code: temperature, logarithmic, standard. -/
theorem unitTypes_gen :
    (unitTypes Gen.tables : List (Rule K)) =
      [temperature Gen.tables, logarithmic Gen.tables, standard] := by
  simp [unitTypes, Gen.tables, Gen.unitTypes, ruleOf]

end

end SciVerif.C04
