import SciVerif.Model.C11
import Mathlib.Tactic.FieldSimp
import Mathlib.Tactic.Ring
import Mathlib.Tactic.Positivity
import Mathlib.Algebra.Order.Field.Basic

/-! Helper lemmas for C11/C12: finite sums over a component list in an ordered field. -/
set_option linter.unusedSectionVars false
namespace SciVerif.C11
variable {α : Type} [Field α] [LinearOrder α] [IsStrictOrderedRing α]
variable {β : Type}

theorem sum_map_div (l : List β) (f : β → α) (d : α) :
    (l.map fun i => f i / d).sum = (l.map f).sum / d := by
  induction l with
  | nil => simp
  | cons a t ih => simp only [List.map_cons, List.sum_cons, ih]; rw [add_div]

theorem sum_map_mul_right (l : List β) (f : β → α) (k : α) :
    (l.map fun i => f i * k).sum = (l.map f).sum * k := by
  induction l with
  | nil => simp
  | cons a t ih => simp only [List.map_cons, List.sum_cons, ih]; rw [add_mul]

theorem sum_map_mul_left (l : List β) (f : β → α) (k : α) :
    (l.map fun i => k * f i).sum = k * (l.map f).sum := by
  induction l with
  | nil => simp
  | cons a t ih => simp only [List.map_cons, List.sum_cons, ih]; rw [mul_add]

theorem sum_map_congr (l : List β) (f g : β → α) (h : ∀ i ∈ l, f i = g i) :
    (l.map f).sum = (l.map g).sum := by
  induction l with
  | nil => simp
  | cons a t ih =>
    simp only [List.map_cons, List.sum_cons]
    rw [h a (by simp), ih (fun i hi => h i (by simp [hi]))]

theorem sum_map_pos (l : List β) (f : β → α) (hne : l ≠ []) (h : ∀ i ∈ l, 0 < f i) :
    0 < (l.map f).sum := by
  induction l with
  | nil => exact absurd rfl hne
  | cons a t ih =>
    simp only [List.map_cons, List.sum_cons]
    by_cases ht : t = []
    · subst ht; simpa using h a (by simp)
    · exact add_pos (h a (by simp)) (ih ht (fun i hi => h i (by simp [hi])))

/-- all proportions and masses positive -/
def Pos (cs : List (Comp α)) : Prop := ∀ c ∈ cs, 0 < c.p ∧ 0 < c.m

theorem amount_pos (mode : Mode) (c : Comp α) (h : 0 < c.p ∧ 0 < c.m) : 0 < amount mode c := by
  cases mode <;> simp only [amount]
  · exact h.1
  · exact h.1
  · exact div_pos h.1 h.2

theorem amount_mass (c : Comp α) : amount .massFraction c = c.p / c.m := rfl
theorem amount_numF (c : Comp α) : amount .numberFraction c = c.p := rfl
theorem amount_num (c : Comp α) : amount .number c = c.p := rfl

theorem propNorm_eq (mode : Mode) (cs : List (Comp α)) :
    propNorm mode cs = (cs.map (amount mode)).sum := by
  cases mode <;> rfl

theorem compositeMass_eq (mode : Mode) (cs : List (Comp α)) (h : Pos cs) :
    compositeMass mode cs = (cs.map fun i => amount mode i * i.m).sum := by
  cases mode
  · rfl
  · rfl
  · simp only [compositeMass, amount]
    apply sum_map_congr
    intro i hi
    have := (h i hi).2
    field_simp

theorem propNorm_pos (mode : Mode) (cs : List (Comp α)) (hne : cs ≠ []) (h : Pos cs) :
    0 < propNorm mode cs := by
  rw [propNorm_eq]
  exact sum_map_pos cs _ hne (fun i hi => amount_pos mode i (h i hi))

theorem compositeMass_pos (mode : Mode) (cs : List (Comp α)) (hne : cs ≠ []) (h : Pos cs) :
    0 < compositeMass mode cs := by
  rw [compositeMass_eq mode cs h]
  exact sum_map_pos cs _ hne (fun i hi => mul_pos (amount_pos mode i (h i hi)) (h i hi).2)

theorem xRaw_eq (mode : Mode) (cs : List (Comp α)) (c : Comp α) :
    xRaw mode cs c = amount mode c / propNorm mode cs := by
  cases mode <;> rfl

theorem XRaw_eq (mode : Mode) (cs : List (Comp α)) (c : Comp α) (hc : 0 < c.m) :
    XRaw mode cs c = amount mode c * c.m / compositeMass mode cs := by
  cases mode
  · rfl
  · rfl
  · simp only [XRaw, amount]
    congr 1
    field_simp


theorem x_eq (mode : Mode) (cs : List (Comp α)) (c : Comp α) :
    x mode cs c = amount mode c / propNorm mode cs * 100 := by
  simp only [x, pct, xRaw_eq]

theorem X_eq (mode : Mode) (cs : List (Comp α)) (c : Comp α) (hc : 0 < c.m) :
    X mode cs c = amount mode c * c.m / compositeMass mode cs * 100 := by
  simp only [X, pct, XRaw_eq mode cs c hc]

theorem sum_xs (mode : Mode) (cs : List (Comp α)) (hne : cs ≠ []) (h : Pos cs) :
    (xs mode cs).sum = 100 := by
  have hS := (propNorm_pos mode cs hne h).ne'
  simp only [xs]
  rw [sum_map_congr cs _ _ (fun c _ => x_eq mode cs c), sum_map_mul_right, sum_map_div,
    ← propNorm_eq]
  field_simp

theorem sum_Xs (mode : Mode) (cs : List (Comp α)) (hne : cs ≠ []) (h : Pos cs) :
    (Xs mode cs).sum = 100 := by
  have hM := (compositeMass_pos mode cs hne h).ne'
  simp only [Xs]
  rw [sum_map_congr cs _ _ (fun c hc => X_eq mode cs c (h c hc).2), sum_map_mul_right,
    sum_map_div, ← compositeMass_eq mode cs h]
  field_simp

/-! ### scaling -/

theorem pos_scale (k : α) (hk : 0 < k) (cs : List (Comp α)) (h : Pos cs) : Pos (scale k cs) := by
  intro c hc
  simp only [scale, List.mem_map] at hc
  obtain ⟨d, hd, rfl⟩ := hc
  exact ⟨mul_pos hk (h d hd).1, (h d hd).2⟩

theorem amount_scale (mode : Mode) (k : α) (c : Comp α) :
    amount mode ⟨k * c.p, c.m⟩ = k * amount mode c := by
  cases mode <;> simp only [amount]
  rw [mul_div_assoc]

theorem propNorm_scale (mode : Mode) (k : α) (cs : List (Comp α)) :
    propNorm mode (scale k cs) = k * propNorm mode cs := by
  rw [propNorm_eq, propNorm_eq, scale, List.map_map, ← sum_map_mul_left]
  apply sum_map_congr
  intro c _
  exact amount_scale mode k c

theorem compositeMass_scale (mode : Mode) (k : α) (cs : List (Comp α)) :
    compositeMass mode (scale k cs) = k * compositeMass mode cs := by
  cases mode <;> simp only [compositeMass, scale, List.map_map] <;> rw [← sum_map_mul_left] <;>
    apply sum_map_congr <;> intro c _ <;> simp only [Function.comp] <;> ring

/-! ### duality -/

theorem pos_byMassFractions (mode : Mode) (cs : List (Comp α)) (hne : cs ≠ []) (h : Pos cs) :
    Pos (byMassFractions mode cs) := by
  intro c hc
  simp only [byMassFractions, List.mem_map] at hc
  obtain ⟨d, hd, rfl⟩ := hc
  refine ⟨?_, (h d hd).2⟩
  show 0 < X mode cs d
  rw [X_eq mode cs d (h d hd).2]
  have := compositeMass_pos mode cs hne h
  have := amount_pos mode d (h d hd)
  have := (h d hd).2
  positivity

theorem propNorm_byMass (mode : Mode) (cs : List (Comp α)) (hne : cs ≠ []) (h : Pos cs) :
    propNorm .massFraction (byMassFractions mode cs) =
      propNorm mode cs * (100 / compositeMass mode cs) := by
  have hM := (compositeMass_pos mode cs hne h).ne'
  rw [propNorm_eq mode, ← sum_map_mul_right]
  simp only [propNorm, byMassFractions, List.map_map]
  apply sum_map_congr
  intro c hc
  have hm := (h c hc).2.ne'
  simp only [Function.comp]
  rw [X_eq mode cs c (h c hc).2]
  field_simp

theorem compositeMass_byMass (mode : Mode) (cs : List (Comp α)) (hne : cs ≠ []) (h : Pos cs) :
    compositeMass .massFraction (byMassFractions mode cs) = 100 := by
  rw [← sum_Xs mode cs hne h]
  simp only [compositeMass, byMassFractions, List.map_map, Xs]
  rfl

theorem pos_byNumberFractions (mode : Mode) (cs : List (Comp α)) (hne : cs ≠ []) (h : Pos cs) :
    Pos (byNumberFractions mode cs) := by
  intro c hc
  simp only [byNumberFractions, List.mem_map] at hc
  obtain ⟨d, hd, rfl⟩ := hc
  refine ⟨?_, (h d hd).2⟩
  show 0 < x mode cs d
  rw [x_eq mode cs d]
  have := propNorm_pos mode cs hne h
  have := amount_pos mode d (h d hd)
  positivity

theorem propNorm_byNumber (mode : Mode) (cs : List (Comp α)) (hne : cs ≠ []) (h : Pos cs) :
    propNorm .numberFraction (byNumberFractions mode cs) = 100 := by
  rw [← sum_xs mode cs hne h]
  simp only [propNorm, byNumberFractions, List.map_map, xs]
  rfl

theorem compositeMass_byNumber (mode : Mode) (cs : List (Comp α)) (hne : cs ≠ []) (h : Pos cs) :
    compositeMass .numberFraction (byNumberFractions mode cs) =
      compositeMass mode cs * (100 / propNorm mode cs) := by
  have hS := (propNorm_pos mode cs hne h).ne'
  rw [compositeMass_eq mode cs h, ← sum_map_mul_right]
  simp only [compositeMass, byNumberFractions, List.map_map]
  apply sum_map_congr
  intro c hc
  simp only [Function.comp]
  rw [x_eq mode cs c]
  field_simp


/-! ### the `avg` row and the `components=` selection -/

theorem select_all {β : Type} (l : List β) : select (List.replicate l.length true) l = l := by
  induction l with
  | nil => rfl
  | cons a t ih => simp [List.replicate_succ, select, ih]

theorem avgWeighted_eq (col ws : List α) (hl : col.length = ws.length) (hw : ∀ w ∈ ws, w ≠ 0) :
    avgWeighted col ws = col.sum / ws.sum := by
  unfold avgWeighted
  congr 1
  induction col generalizing ws with
  | nil => cases ws <;> simp_all
  | cons c t ih =>
    cases ws with
    | nil => simp at hl
    | cons w ws =>
      have hw0 : w ≠ 0 := hw w (by simp)
      simp only [List.zipWith_cons_cons, List.sum_cons]
      rw [ih ws (by simpa using hl) (fun x hx => hw x (by simp [hx]))]
      field_simp

end SciVerif.C11
