import SciVerif.Lemmas.C17m

/-! Refinement (C17), part 16: DECLARED nodes (`a float` without value) inside the invariant.
    `GoodD` / `InvD` weaken `Good` / `Inv`: a stored node of the main environment may hold no
    value.  Under `InvD` the statements that create and fill such nodes — declaration, definition
    and modification with a literal value — are simulated by the main loop. -/
namespace SciVerif.C17

/-- like `Good`, but the node may be declared only: IF it holds a value, the value conforms -/
def GoodD (tbl : UnitTable) (n : Node) : Prop :=
  isTyped n.kw = true ∧ (∀ v, n.value = some v → conforms n.kw n.dims v = some v) ∧ n.slice = [] ∧
  unitOk tbl n.kw n.unitsRaw = true ∧ (n.kw = .int → n.unitsRaw = none)

/-- declared nodes are allowed in the main node list; remote sources stay fully valued -/
def InvD (tbl : UnitTable) (env : Env) : Prop :=
  (∀ n ∈ env.nodes, GoodD tbl n) ∧ (∀ s ∈ env.sources, ∀ n ∈ s.2, Good tbl n)

theorem good_goodD {tbl : UnitTable} {n : Node} (h : Good tbl n) : GoodD tbl n := by
  obtain ⟨hk, ⟨v, hv, hc⟩, hsl, hu, hi⟩ := h
  refine ⟨hk, ?_, hsl, hu, hi⟩
  intro w hw
  rw [hv] at hw
  cases hw
  exact hc

theorem goodD_good {tbl : UnitTable} {n : Node} (h : GoodD tbl n) (hv : n.value.isSome = true) : Good tbl n := by
  obtain ⟨hk, hc, hsl, hu, hi⟩ := h
  cases hval : n.value with
  | none => simp [hval] at hv
  | some v => exact ⟨hk, ⟨v, hval, hc v hval⟩, hsl, hu, hi⟩

theorem inv_invD {tbl : UnitTable} {env : Env} (h : Inv tbl env) : InvD tbl env :=
  ⟨fun n hn => good_goodD (h.1 n hn), h.2⟩

theorem invD_inv {tbl : UnitTable} {env : Env} (h : InvD tbl env)
    (hv : ∀ n ∈ env.nodes, n.value.isSome = true) : Inv tbl env :=
  ⟨fun n hn => goodD_good (h.1 n hn) (hv n hn), h.2⟩

/-! ### modification of a node that may be declared only -/

theorem modifyValue_absD (tbl : UnitTable) (t m : Node) (r : Val) (s' : SNode)
    (hg : GoodD tbl t) (hm : m.kw = .mod ∨ dtypeOf m.kw = dtypeOf t.kw) (hr : m.raw = some r)
    (hnc : t.constant = false)
    (h : specModF tbl r m.unitsRaw (absN t) = some s') :
    ∃ t', modifyValue tbl t m = .ok t' ∧ absN t' = s' ∧ Good tbl t' ∧ t'.name = t.name := by
  obtain ⟨hk, _, hsl, hun, hint⟩ := hg
  unfold specModF at h
  simp only [absN, hnc, Bool.false_eq_true, if_false] at h
  unfold modifyValue
  have hchk : ¬ (m.kw ≠ .mod ∧ dtypeOf m.kw ≠ dtypeOf t.kw) := by
    rcases hm with e | e <;> simp [e]
  rw [if_neg hchk]
  simp only [hr]
  rw [castValue_eq_conforms t r hsl hk]
  cases hc : conforms t.kw t.dims r with
  | none => simp [hc] at h
  | some v' =>
    simp only [hc] at h ⊢
    obtain ⟨_, hidem⟩ := conforms_conf t.kw t.dims r v' hc
    by_cases hn : isNumKw t.kw = true
    · simp only [hn, if_true] at h ⊢
      by_cases hu : (m.unitsRaw.isSome && t.unitsRaw.isNone) = true
      · simp [hu] at h
      · simp only [hu, Bool.false_eq_true, if_false] at h ⊢
        cases hcv : convertVal tbl v' m.unitsRaw t.unitsRaw with
        | none => simp [hcv] at h
        | some w =>
          simp only [hcv, Option.map_some, Option.some.injEq] at h
          subst h
          refine ⟨_, rfl, by simp [absN, hnc], ?_, rfl⟩
          refine ⟨hk, ⟨w, rfl, ?_⟩, rfl, hun, hint⟩
          have hfu : t.kw = .float ∨ t.unitsRaw = none := by
            cases hkw : t.kw <;> rw [hkw] at hn hint <;> simp_all [isNumKw]
          exact convertVal_conf tbl t.kw t.dims v' w m.unitsRaw t.unitsRaw hfu hidem hcv
    · simp only [hn, Bool.false_eq_true, if_false] at h ⊢
      by_cases hmu : m.unitsRaw.isSome = true
      · simp [hmu] at h
      · simp only [hmu, Bool.false_eq_true, if_false, Option.some.injEq] at h ⊢
        subst h
        exact ⟨_, rfl, by simp [absN, hnc], ⟨hk, ⟨v', rfl, hidem⟩, rfl, hun, hint⟩, rfl⟩

theorem modifyFirst_absD (tbl : UnitTable) (m : Node) (r : Val) (ns : List Node) (ss' : List SNode)
    (F : SNode → Option SNode)
    (hF : ∀ t ∈ ns, ∀ s', F (absN t) = some s' →
      specModF tbl r m.unitsRaw (absN t) = some s' ∧ (m.kw = .mod ∨ dtypeOf m.kw = dtypeOf t.kw))
    (hg : ∀ n ∈ ns, GoodD tbl n) (hr : m.raw = some r)
    (h : sUpdate (splitDot m.name) F (ns.map absN) = some ss') :
    ∃ ns', modifyFirst tbl m ns = .ok (some ns') ∧ ns'.map absN = ss' ∧ (∀ n ∈ ns', GoodD tbl n) := by
  induction ns generalizing ss' with
  | nil => simp [sUpdate] at h
  | cons t rest ih =>
    simp only [List.map_cons, sUpdate] at h
    by_cases hname : t.name = m.name
    · have hp : (absN t).path = splitDot m.name := by simp [absN, hname]
      simp only [hp, if_true] at h
      cases hf0 : F (absN t) with
      | none => simp [hf0] at h
      | some s' =>
        simp only [hf0, Option.map_some, Option.some.injEq] at h
        subst h
        obtain ⟨hf, hm⟩ := hF t (by simp) s' hf0
        have hnc : t.constant = false := by
          cases hc : t.constant with
          | false => rfl
          | true => simp [specModF, absN, hc] at hf
        obtain ⟨t', ht', habs, hgood, _⟩ := modifyValue_absD tbl t m r s' (hg t (by simp)) hm hr hnc hf
        refine ⟨t' :: rest, by simp [modifyFirst, hname, hnc, ht'], by simp [habs], ?_⟩
        intro n hn
        simp only [List.mem_cons] at hn
        rcases hn with rfl | hn
        · exact good_goodD hgood
        · exact hg n (by simp [hn])
    · have hp : (absN t).path ≠ splitDot m.name := by
        simp only [absN]
        intro e; exact hname (splitDot_inj e)
      simp only [hp, if_false] at h
      cases hrec : sUpdate (splitDot m.name) F (rest.map absN) with
      | none => simp [hrec] at h
      | some rs =>
        simp only [hrec, Option.map_some, Option.some.injEq] at h
        subst h
        obtain ⟨ns', h1, h2, h3⟩ := ih rs (fun t ht => hF t (by simp [ht])) (fun n hn => hg n (by simp [hn])) hrec
        refine ⟨t :: ns', by simp [modifyFirst, hname, h1], by simp [h2], ?_⟩
        intro n hn
        simp only [List.mem_cons] at hn
        rcases hn with rfl | hn
        · exact hg n (by simp)
        · exact h3 n hn

theorem mod_coreD (tbl : UnitTable) (env : Env) (hinv : InvD tbl env) (path : List Str) (raw : Val)
    (ref : Option Str) (unit' : Option Str) (ss' : List SNode) (hp : WFPath path)
    (h : sUpdate path (specModF tbl raw unit') (absEnv env).nodes = some ss') :
    ∃ env', processNode tbl env (modNode path raw ref unit') = .ok env' ∧
      absEnv env' = { absEnv env with nodes := ss' } ∧ InvD tbl env' := by
  have hname : splitDot ({ modNode path raw ref unit' with value := some raw } : Node).name = path := by
    simp [modNode, blank, splitDot_joinDot path hp]
  have h' : sUpdate (splitDot ({ modNode path raw ref unit' with value := some raw } : Node).name)
      (specModF tbl raw ({ modNode path raw ref unit' with value := some raw } : Node).unitsRaw)
      (env.nodes.map absN) = some ss' := by
    rw [hname]; exact h
  obtain ⟨ns', hmf, habs, hgood⟩ := modifyFirst_absD tbl { modNode path raw ref unit' with value := some raw } raw
    env.nodes ss' _ (fun t _ s' hs => ⟨hs, Or.inl rfl⟩) hinv.1 rfl h'
  have hpn := processNode_mod tbl env (modNode path raw ref unit') raw ns' rfl rfl rfl hmf
  refine ⟨_, hpn, ?_, ⟨hgood, hinv.2⟩⟩
  simp [absEnv, habs]

theorem def_coreD (tbl : UnitTable) (env : Env) (hinv : InvD tbl env) (path : List Str) (kw : Kw)
    (dims : List Dim) (raw : Val) (ref : Option Str) (sl : List Sl) (unit' : Option Str) (v' : Val)
    (hp : WFPath path) (hk : isTyped kw = true) (hu : unitOk tbl kw unit' = true)
    (hint : kw = .int → unit' = none)
    (hno : (absEnv env).nodes.any (fun n => decide (n.path = path)) = false)
    (hcast : castValue (hostNode path kw dims raw ref sl unit') raw = some v')
    (hconf : conforms kw dims v' = some v') :
    ∃ env', processNode tbl env (hostNode path kw dims raw ref sl unit') = .ok env' ∧
      absEnv env' = { absEnv env with nodes := (absEnv env).nodes ++
        [⟨path, kw, dims, unit', some v', false, none, none, [], [], none⟩] } ∧ InvD tbl env' := by
  have hfresh := fresh_of_any env path hp hno
  have hpn := processNode_append tbl env (hostNode path kw dims raw ref sl unit') raw v' rfl hk hu rfl rfl hcast
    (fun t ht => hfresh t ht)
  refine ⟨_, hpn, ?_, ?_⟩
  · simp [absEnv, absN, hostNode, blank, splitDot_joinDot path hp]
  · refine ⟨?_, hinv.2⟩
    intro n hn
    simp only [List.mem_append, List.mem_singleton] at hn
    rcases hn with hn | rfl
    · exact hinv.1 n hn
    · exact good_goodD ⟨hk, ⟨v', rfl, hconf⟩, rfl, hu, hint⟩

/-! ### declaration -/

/-- the line record of a declaration `path kw[dims] unit` (no `=`): no raw value, flagged as
    to-be-defined (the final validation loop refuses it while it holds no value) -/
def declNode (path : List Str) (kw : Kw) (dims : List Dim) (unit : Option Str) : Node :=
  { blank (joinDot path) kw with dims := dims, unitsRaw := unit, defined := true }

theorem processNode_decl (tbl : UnitTable) (env : Env) (n : Node)
    (hi : n.indent = 0) (hk : isTyped n.kw = true) (hu : unitOk tbl n.kw n.unitsRaw = true)
    (hraw : n.raw = none) (hfresh : ∀ t ∈ env.nodes, t.name ≠ n.name) :
    processNode tbl env n = .ok { env with parents := [(0, n.name)], nodes := env.nodes ++ [{ n with value := none }] } := by
  have hg : n.kw ≠ .group := by intro e; rw [e] at hk; simp [isTyped] at hk
  have hm : n.kw ≠ .mod := by intro e; rw [e] at hk; simp [isTyped] at hk
  have hsv : setValue n = .ok { n with value := none } := by simp [setValue, hraw]
  unfold processNode
  rw [unitCheck_ok tbl n hk hu]
  simp only [register_zero env.parents n hi, hg, if_false, hsv]
  rw [modifyFirst_none tbl { n with value := none } env.nodes (fun t ht => hfresh t ht)]
  simp [hm]

theorem decl_core (tbl : UnitTable) (env : Env) (hinv : InvD tbl env) (path : List Str) (kw : Kw)
    (dims : List Dim) (unit : Option Str)
    (hp : WFPath path) (hk : isTyped kw = true) (hu : unitOk tbl kw unit = true)
    (hint : kw = .int → unit = none)
    (hno : (absEnv env).nodes.any (fun n => decide (n.path = path)) = false) :
    ∃ env', processNode tbl env (declNode path kw dims unit) = .ok env' ∧
      absEnv env' = { absEnv env with nodes := (absEnv env).nodes ++
        [⟨path, kw, dims, unit, none, false, none, none, [], [], none⟩] } ∧ InvD tbl env' := by
  have hfresh := fresh_of_any env path hp hno
  have hpn := processNode_decl tbl env (declNode path kw dims unit) rfl hk hu rfl (fun t ht => hfresh t ht)
  refine ⟨_, hpn, ?_, ?_⟩
  · simp [absEnv, absN, declNode, blank, splitDot_joinDot path hp]
  · refine ⟨?_, hinv.2⟩
    intro n hn
    simp only [List.mem_append, List.mem_singleton] at hn
    rcases hn with hn | rfl
    · exact hinv.1 n hn
    · refine ⟨hk, ?_, rfl, hu, hint⟩
      intro v hv
      cases hv

/-! ### the statements that create and fill declared nodes -/

/-- line records of the declared-node fragment (flat lines, literal values) -/
def concD : SStmt → Option Item
  | .decl path kw dims unit => some (.node (declNode path kw dims unit))
  | .defn path kw dims (.lit v) unit => some (.node (litNode path kw dims v unit))
  | .modl path (.lit v) unit => some (.node (litNode path .mod [] v unit))
  | _ => none

/-- side conditions: well-formed path, a typed keyword, integers without unit -/
def LitFrag : SStmt → Prop
  | .decl path kw _ unit => WFPath path ∧ isTyped kw = true ∧ (kw = .int → unit = none)
  | .defn path kw _ (.lit _) unit => WFPath path ∧ isTyped kw = true ∧ (kw = .int → unit = none)
  | .modl path (.lit _) _ => WFPath path
  | _ => False

def wfPathB (p : List Str) : Bool := !p.isEmpty && p.all (fun c => !c.contains '.')

theorem wfPathB_iff (p : List Str) : wfPathB p = true ↔ WFPath p := by
  simp [wfPathB, WFPath]

def litFragB : SStmt → Bool
  | .decl path kw _ unit => wfPathB path && isTyped kw && (decide (kw ≠ .int) || unit.isNone)
  | .defn path kw _ (.lit _) unit => wfPathB path && isTyped kw && (decide (kw ≠ .int) || unit.isNone)
  | .modl path (.lit _) _ => wfPathB path
  | _ => false

theorem intB_iff (kw : Kw) (unit : Option Str) :
    (decide (kw ≠ .int) || unit.isNone) = true ↔ (kw = .int → unit = none) := by
  by_cases hk : kw = .int <;> simp [hk]

theorem litFragB_iff (s : SStmt) : litFragB s = true ↔ LitFrag s := by
  cases s with
  | decl path kw dims unit => simp only [litFragB, LitFrag, Bool.and_eq_true, wfPathB_iff, intB_iff, and_assoc]
  | defn path kw dims sv unit =>
    cases sv with
    | lit v => simp only [litFragB, LitFrag, Bool.and_eq_true, wfPathB_iff, intB_iff, and_assoc]
    | inj a b c => simp [litFragB, LitFrag]
  | modl path sv unit =>
    cases sv with
    | lit v => simp only [litFragB, LitFrag, wfPathB_iff]
    | inj a b c => simp [litFragB, LitFrag]
  | _ => simp [litFragB, LitFrag]

theorem refine_stepD (tbl : UnitTable) (env : Env) (hinv : InvD tbl env) (stmt : SStmt) (item : Item)
    (s' : SEnv) (hfrag : LitFrag stmt) (hc : concD stmt = some item)
    (h : sStep tbl (absEnv env) stmt = .ok s') :
    ∃ env', step tbl env item = .ok env' ∧ absEnv env' = s' ∧ InvD tbl env' := by
  cases stmt with
  | decl path kw dims unit =>
    obtain ⟨hp, hk, hint⟩ := hfrag
    have hkimp : kw ≠ .imp := by intro e; rw [e] at hk; simp [isTyped] at hk
    simp only [concD, Option.some.injEq] at hc
    simp only [sStep] at h
    cases hno : (absEnv env).nodes.any (fun n => decide (n.path = path)) with
    | true => simp [hno] at h
    | false =>
      simp only [hno, Bool.false_eq_true, if_false] at h
      cases hu : unitOk tbl kw unit with
      | false => simp [hu] at h
      | true =>
        simp only [hu, Bool.not_true, Bool.false_eq_true, if_false, Except.ok.injEq] at h
        obtain ⟨env', hpn, habs, hinv'⟩ := decl_core tbl env hinv path kw dims unit hp hk hu hint hno
        refine ⟨env', ?_, by rw [habs, ← h], hinv'⟩
        rw [← hc, step_node tbl env (declNode path kw dims unit) (declNode path kw dims unit) hkimp
          (injectValue_none _ _ rfl)]
        exact hpn
  | defn path kw dims sv unit =>
    cases sv with
    | inj a b c => exact absurd hfrag (by simp [LitFrag])
    | lit v0 =>
      obtain ⟨hp, hk, hint⟩ := hfrag
      have hkimp : kw ≠ .imp := by intro e; rw [e] at hk; simp [isTyped] at hk
      simp only [concD, Option.some.injEq] at hc
      simp only [sStep, sEval, pickUnit_none] at h
      cases hno : (absEnv env).nodes.any (fun n => decide (n.path = path)) with
      | true => simp [hno] at h
      | false =>
        simp only [hno, Bool.false_eq_true, if_false] at h
        cases hu : unitOk tbl kw unit with
        | false => simp [hu] at h
        | true =>
          simp only [hu, Bool.not_true, Bool.false_eq_true, if_false] at h
          cases hcf : conforms kw dims v0 with
          | none => simp [hcf] at h
          | some v' =>
            simp only [hcf, Except.ok.injEq] at h
            have hidem := (conforms_conf kw dims v0 v' hcf).2
            have hcast : castValue (hostNode path kw dims v0 none [] unit) v0 = some v' := by
              rw [castValue_eq_conforms _ _ rfl hk]; exact hcf
            obtain ⟨env', hpn, habs, hinv'⟩ :=
              def_coreD tbl env hinv path kw dims v0 none [] unit v' hp hk hu hint hno hcast hidem
            refine ⟨env', ?_, by rw [habs, ← h], hinv'⟩
            rw [← hc, step_node tbl env (litNode path kw dims v0 unit) (litNode path kw dims v0 unit) hkimp
              (injectValue_none _ _ rfl)]
            exact hpn
  | modl path sv unit =>
    cases sv with
    | inj a b c => exact absurd hfrag (by simp [LitFrag])
    | lit v0 =>
      have hp : WFPath path := hfrag
      have hmimp : Kw.mod ≠ .imp := by decide
      simp only [concD, Option.some.injEq] at hc
      simp only [sStep, sEval, pickUnit_none] at h
      cases hup : sUpdate path (specModF tbl v0 unit) (absEnv env).nodes with
      | none => simp [hup] at h
      | some ss' =>
        simp only [hup, Except.ok.injEq] at h
        obtain ⟨env', hpn, habs, hinv'⟩ := mod_coreD tbl env hinv path v0 none unit ss' hp hup
        refine ⟨env', ?_, by rw [habs, ← h], hinv'⟩
        rw [← hc, step_node tbl env (litNode path .mod [] v0 unit) (litNode path .mod [] v0 unit) hmimp
          (injectValue_none _ _ rfl)]
        exact hpn
  | _ => exact absurd hfrag (by simp [LitFrag])

theorem refine_runD (tbl : UnitTable) (stmts : List SStmt) (items : List Item) (env : Env) (s' : SEnv)
    (hinv : InvD tbl env) (hfrag : ∀ s ∈ stmts, LitFrag s) (hc : stmts.mapM concD = some items)
    (h : sRun tbl (absEnv env) stmts = .ok s') :
    ∃ env', items.foldlM (step tbl) env = .ok env' ∧ absEnv env' = s' ∧ InvD tbl env' := by
  induction stmts generalizing items env with
  | nil =>
    simp at hc; subst hc
    simp only [sRun, Except.ok.injEq] at h
    exact ⟨env, rfl, h, hinv⟩
  | cons st rest ih =>
    simp only [List.mapM_cons] at hc
    cases hli : concD st with
    | none => simp [hli] at hc
    | some it =>
      cases hcr : rest.mapM concD with
      | none => simp [hli, hcr] at hc
      | some its =>
        simp [hli, hcr] at hc
        subst hc
        simp only [sRun] at h
        cases hs : sStep tbl (absEnv env) st with
        | error e => simp [hs] at h
        | ok s1 =>
          simp only [hs] at h
          obtain ⟨env1, hstep, habs, hinv1⟩ := refine_stepD tbl env hinv st it s1 (hfrag st (by simp)) hli hs
          rw [← habs] at h
          obtain ⟨env', hr, ha, hi'⟩ := ih its env1 hinv1 (fun s hs => hfrag s (by simp [hs])) hcr h
          refine ⟨env', ?_, ha, hi'⟩
          simp only [List.foldlM_cons, hstep, bind, Except.bind]
          exact hr

/-- the final validation loop, exactly: it passes iff no to-be-defined node is left without value -/
theorem validate_ok_iff (env : Env) :
    validate env = .ok env ↔ ∀ n ∈ env.nodes, n.defined = true → n.value.isSome = true := by
  unfold validate
  cases hany : env.nodes.any (fun n => n.defined && n.value.isNone) with
  | true =>
    simp only [if_true]
    constructor
    · intro h; cases h
    · intro h
      rw [List.any_eq_true] at hany
      obtain ⟨n, hn, hb⟩ := hany
      simp only [Bool.and_eq_true] at hb
      have := h n hn hb.1
      cases hv : n.value <;> simp_all
  | false =>
    simp only [Bool.false_eq_true, if_false, true_iff]
    intro n hn hd
    rw [List.any_eq_false] at hany
    have := hany n hn
    cases hv : n.value <;> simp_all

theorem abs_valued (env : Env) (h : ∀ n ∈ (absEnv env).nodes, n.value.isSome = true) :
    ∀ n ∈ env.nodes, n.value.isSome = true := by
  intro n hn
  exact h (absN n) (by simp only [absEnv, List.mem_map]; exact ⟨n, hn, rfl⟩)

theorem concD_notCase (s : SStmt) (it : Item) (h : concD s = some it) : isCase it = false := by
  unfold concD at h
  split at h <;> first | (cases h; rfl) | cases h

theorem concDs_notCase (stmts : List SStmt) (items : List Item) (hc : stmts.mapM concD = some items) :
    ∀ it ∈ items, isCase it = false := by
  induction stmts generalizing items with
  | nil => simp at hc; subst hc; simp
  | cons l rest ih =>
    simp only [List.mapM_cons] at hc
    cases hli : concD l with
    | none => simp [hli] at hc
    | some it =>
      cases hcr : rest.mapM concD with
      | none => simp [hli, hcr] at hc
      | some its =>
        simp [hli, hcr] at hc
        subst hc
        intro x hx
        simp only [List.mem_cons] at hx
        rcases hx with rfl | hx
        · exact concD_notCase l x hli
        · exact ih its hcr x hx

/-! ### `InvD` as a computation; the whole parse -/

def goodDB (tbl : UnitTable) (n : Node) : Bool :=
  isTyped n.kw &&
  (match n.value with
   | none => true
   | some v => confB n.kw n.dims v) &&
  n.slice.isEmpty && unitOk tbl n.kw n.unitsRaw && (decide (n.kw ≠ .int) || n.unitsRaw.isNone)

theorem goodDB_iff (tbl : UnitTable) (n : Node) : goodDB tbl n = true ↔ GoodD tbl n := by
  unfold goodDB GoodD
  have hv : (match n.value with
      | none => true
      | some v => confB n.kw n.dims v) = true ↔ ∀ v, n.value = some v → conforms n.kw n.dims v = some v := by
    cases n.value with
    | none => simp
    | some v => simp [confB_iff]
  simp only [Bool.and_eq_true, hv, intB_iff, List.isEmpty_iff, and_assoc]

def invDB (tbl : UnitTable) (env : Env) : Bool :=
  env.nodes.all (goodDB tbl) && env.sources.all (fun s => s.2.all (goodB tbl))

theorem invDB_iff (tbl : UnitTable) (env : Env) : invDB tbl env = true ↔ InvD tbl env := by
  simp [invDB, InvD, goodDB_iff, goodB_iff]

/-- a checked program of the declared-node fragment, through the whole parse: main loop result
    `env'`, then `parse` / `parseC` are the final validation of `env'`; when the specification's
    result leaves no node without value, validation passes and the strong invariant holds again -/
theorem refine_parseD (tbl : UnitTable) (stmts : List SStmt) (items : List Item) (env : Env) (s' : SEnv)
    (hinv : InvD tbl env) (hfrag : ∀ s ∈ stmts, LitFrag s) (hc : stmts.mapM concD = some items)
    (h : sRun tbl (absEnv env) stmts = .ok s') :
    ∃ env', items.foldlM (step tbl) env = .ok env' ∧ absEnv env' = s' ∧ InvD tbl env' ∧
      parse tbl env items = validate env' ∧ parseC tbl env items = validate env' ∧
      ((∀ n ∈ s'.nodes, n.value.isSome = true) → validate env' = .ok env' ∧ Inv tbl env') := by
  obtain ⟨env', hf, ha, hi⟩ := refine_runD tbl stmts items env s' hinv hfrag hc h
  refine ⟨env', hf, ha, hi, by simp only [parse, hf],
    by simp only [parseC, foldlM_stepC_none tbl items env (concDs_notCase stmts items hc), hf], ?_⟩
  intro hv
  rw [← ha] at hv
  have hI := invD_inv hi (abs_valued env' hv)
  exact ⟨validate_of_inv tbl env' hI, hI⟩

end SciVerif.C17
