import SciVerif.Lemmas.C13n
/-!
Inline arrays at TEXT level: from the definition line `name type[dims] = [[…],[…]] unit # c` through the
lexer, `set_value` / `cast_value` and the main loop to the node `parse` returns; and the element casts of
JSON arrays (`np.array(json value, dtype)` on integer / boolean / float-free tokens).
-/
namespace SciVerif.C13

theorem mem_joinWith {sep : Str} : ∀ (l : List Str) (c : Char), c ∈ joinWith sep l → c ∈ sep ∨ ∃ x ∈ l, c ∈ x
  | [], c, h => by simp [joinWith] at h
  | [a], c, h => .inr ⟨a, by simp, by simpa [joinWith] using h⟩
  | a :: b :: t, c, h => by
    simp only [joinWith, List.mem_append] at h
    rcases h with (h | h) | h
    · exact .inr ⟨a, by simp, h⟩
    · exact .inl h
    · rcases mem_joinWith (b :: t) c h with h | ⟨x, hx, hc⟩
      · exact .inl h
      · exact .inr ⟨x, List.mem_cons_of_mem _ hx, hc⟩

/-- a rendered nested list contains no white space (so the lexer reads it as ONE bare word) -/
theorem rendered_noWs {s : Str} {sh : List Nat} {toks : List Tok} (h : Rendered s sh toks) :
    ∀ c ∈ s, isWs c = false := by
  induction h with
  | tok t ht =>
    intro c hc
    have := ht.2 c hc
    simp only [isDelim, Bool.or_eq_false_iff] at this
    exact this.1.1.1
  | arr items sh hne _ ih =>
    intro c hc
    simp only [List.mem_cons, List.mem_append, List.not_mem_nil, or_false] at hc
    rcases hc with rfl | hc | rfl
    · decide
    · rcases mem_joinWith _ c hc with h | ⟨x, hx, hcx⟩
      · simp only [List.mem_singleton] at h; subst h; decide
      · obtain ⟨it, hit, rfl⟩ := List.mem_map.mp hx
        exact ih it hit c hcx
    · decide

/-- a rendered list of positive depth starts with `[` -/
theorem rendered_head {s : Str} {sh : List Nat} {toks : List Tok} (h : Rendered s sh toks) (hsh : sh ≠ []) :
    ∃ r, s = '[' :: r := by
  cases h with
  | tok t ht => exact absurd rfl hsh
  | arr items sh hne _ => exact ⟨_, rfl⟩

/-- a definition line whose value is a bare word `s` (no blank, `#`, backslash, `$`): the lexer returns
    the definition node with raw value exactly `s` -/
theorem determine_define_bare (k : Nat) (nm : Str) (a : Nat) (ty : TyD) (dims : Option (List DimD)) (b c : Nat)
    (s : Str) (unit cm : Option (Nat × Str))
    (hn : NameOk nm) (hd : DimsOk dims) (hu : ∀ n x, unit = some (n, x) → UnitOk x)
    (htail : NoEsc (renderTail unit cm)) (hlit : Lit.Ok (.bare s)) (hs : ∀ ch ∈ s, ch ≠ '\\' ∧ ch ≠ '$') :
    determine (List.replicate k ' ' ++ (definePrefix nm a ty dims b c ++ (s ++ renderTail unit cm))) =
      .ok (blockNode k nm ty dims s unit) := by
  let v : ValD := { lit := .bare s, unit := unit, cm := cm }
  let d : LineD := .define nm a ty dims b c v
  have hdok : d.Ok := ⟨hn, hd, hlit, hu⟩
  have hr : d.render = definePrefix nm a ty dims b c ++ (s ++ renderTail unit cm) := by
    rw [define_render_prefix]; rfl
  have hsne : NoEsc s := by
    intro ch hch
    refine ⟨(hs ch hch).1, ?_⟩
    intro he
    have := (hlit.2 ch hch).2
    rw [he] at this
    exact absurd this (by decide)
  have hesc : NoEsc d.render := by
    rw [hr]
    exact NoEsc_append (NoEsc_definePrefix nm a ty dims b c hn hd) (NoEsc_append hsne htail)
  have := determine_render k d hdok hesc
  rw [hr] at this
  rw [this]
  simp only [d, LineD.node, v, Lit.text, decode_noDollar s (fun ch hch => (hs ch hch).2), blockNode]

/-- one definition line whose lexed node has a castable value: `parse` returns exactly one entry, named by
    the (top-level) name, with the type, width/sign, dimension, unit written and the cast value -/
theorem parseLines_single_define (P : Params) (line : Str) (nd : Node) (t : Ty) (nm : Str) (v : Val)
    (hdet : determine line = .ok nd) (hk : nd.kind = .typed t) (hn : nd.name = some nm)
    (hpre : preCheck P nd = .ok ()) (hv : initValue P t nd.dims nd.raw = .ok (some v)) :
    parseLines P [line] = .ok [{ name := nm, ty := t, info := nd.info, dims := nd.dims, units := nd.units,
                                 value := some v, declared := nd.declared }] := by
  simp [parseLines, hdet, parseNodes, runNodes, step, hk, stepPlain, hn, hpre, updateFirst, hv, push, pathOf,
    joinWith, validate, bind, Except.bind, pure, Except.pure]

/-- `node.parse()` unit check with the driver's parameters -/
theorem preCheck_blockNode (tbl : List UnitRow) (k : Nat) (nm : Str) (ty : TyD) (dims : Option (List DimD)) (s : Str)
    (unit : Option (Nat × Str))
    (hunit : ∀ n x, unit = some (n, x) → (ty.ty = .int ∨ ty.ty = .float) ∧ tbl.any (fun r => r.name = x) = true) :
    preCheck (mkParams tbl) (blockNode k nm ty dims s unit) = .ok () := by
  cases unit with
  | none => cases h : ty.ty <;> simp [preCheck, blockNode, h]
  | some p =>
    obtain ⟨n, x⟩ := p
    obtain ⟨ht, hk⟩ := hunit n x rfl
    rcases ht with ht | ht <;> simp [preCheck, blockNode, ht, mkParams, hk]

end SciVerif.C13
