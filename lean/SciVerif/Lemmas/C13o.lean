import SciVerif.Lemmas.C13n
/-!
Inline arrays at TEXT level: from the definition line `name type[dims] = [[…],[…]] unit # c` through the
lexer, `set_value` / `cast_value` and the main loop to the node `parse` returns; and the element casts of
JSON arrays (`np.array(json value, dtype)` on integer / boolean / float-free tokens).
-/
namespace SciVerif.C13

theorem mem_joinWith {sep : Str} : ∀ (l : List Str) (c : Char), c ∈ joinWith sep l → c ∈ sep ∨ ∃ x ∈ l, c ∈ x
  | [], c, h => by simp [joinWith] at h
  | [a], c, h => .inr ⟨a, by simp, by simpa [joinWith] using h⟩
  | a :: b :: t, c, h => by
    simp only [joinWith, List.mem_append] at h
    rcases h with (h | h) | h
    · exact .inr ⟨a, by simp, h⟩
    · exact .inl h
    · rcases mem_joinWith (b :: t) c h with h | ⟨x, hx, hc⟩
      · exact .inl h
      · exact .inr ⟨x, List.mem_cons_of_mem _ hx, hc⟩

/-- a rendered nested list contains no white space (so the lexer reads it as ONE bare word) -/
theorem rendered_noWs {s : Str} {sh : List Nat} {toks : List Tok} (h : Rendered s sh toks) :
    ∀ c ∈ s, isWs c = false := by
  induction h with
  | tok t ht =>
    intro c hc
    have := ht.2 c hc
    simp only [isDelim, Bool.or_eq_false_iff] at this
    exact this.1.1.1
  | arr items sh hne _ ih =>
    intro c hc
    simp only [List.mem_cons, List.mem_append, List.not_mem_nil, or_false] at hc
    rcases hc with rfl | hc | rfl
    · decide
    · rcases mem_joinWith _ c hc with h | ⟨x, hx, hcx⟩
      · simp only [List.mem_singleton] at h; subst h; decide
      · obtain ⟨it, hit, rfl⟩ := List.mem_map.mp hx
        exact ih it hit c hcx
    · decide

/-- a rendered list of positive depth starts with `[` -/
theorem rendered_head {s : Str} {sh : List Nat} {toks : List Tok} (h : Rendered s sh toks) (hsh : sh ≠ []) :
    ∃ r, s = '[' :: r := by
  cases h with
  | tok t ht => exact absurd rfl hsh
  | arr items sh hne _ => exact ⟨_, rfl⟩

/-- a definition line whose value is a bare word `s` (no blank, `#`, backslash, `$`): the lexer returns
    the definition node with raw value exactly `s` -/
theorem determine_define_bare (k : Nat) (nm : Str) (a : Nat) (ty : TyD) (dims : Option (List DimD)) (b c : Nat)
    (s : Str) (unit cm : Option (Nat × Str))
    (hn : NameOk nm) (hd : DimsOk dims) (hu : ∀ n x, unit = some (n, x) → UnitOk x)
    (htail : NoEsc (renderTail unit cm)) (hlit : Lit.Ok (.bare s)) (hs : ∀ ch ∈ s, ch ≠ '\\' ∧ ch ≠ '$') :
    determine (List.replicate k ' ' ++ (definePrefix nm a ty dims b c ++ (s ++ renderTail unit cm))) =
      .ok (blockNode k nm ty dims s unit) := by
  let v : ValD := { lit := .bare s, unit := unit, cm := cm }
  let d : LineD := .define nm a ty dims b c v
  have hdok : d.Ok := ⟨hn, hd, hlit, hu⟩
  have hr : d.render = definePrefix nm a ty dims b c ++ (s ++ renderTail unit cm) := by
    rw [define_render_prefix]; rfl
  have hsne : NoEsc s := by
    intro ch hch
    refine ⟨(hs ch hch).1, ?_⟩
    intro he
    have := (hlit.2 ch hch).2
    rw [he] at this
    exact absurd this (by decide)
  have hesc : NoEsc d.render := by
    rw [hr]
    exact NoEsc_append (NoEsc_definePrefix nm a ty dims b c hn hd) (NoEsc_append hsne htail)
  have := determine_render k d hdok hesc
  rw [hr] at this
  rw [this]
  simp only [d, LineD.node, v, Lit.text, decode_noDollar s (fun ch hch => (hs ch hch).2), blockNode]

/-- one definition line whose lexed node has a castable value: `parse` returns exactly one entry, named by
    the (top-level) name, with the type, width/sign, dimension, unit written and the cast value -/
theorem parseLines_single_define (P : Params) (line : Str) (nd : Node) (t : Ty) (nm : Str) (v : Val)
    (hdet : determine line = .ok nd) (hk : nd.kind = .typed t) (hn : nd.name = some nm)
    (hpre : preCheck P nd = .ok ()) (hv : initValue P t nd.dims nd.raw = .ok (some v)) :
    parseLines P [line] = .ok [{ name := nm, ty := t, info := nd.info, dims := nd.dims, units := nd.units,
                                 value := some v, declared := nd.declared }] := by
  simp [parseLines, hdet, parseNodes, runNodes, step, hk, stepPlain, hn, hpre, updateFirst, hv, push, pathOf,
    joinWith, validate, bind, Except.bind, pure, Except.pure]

/-- `node.parse()` unit check with the driver's parameters -/
theorem preCheck_blockNode (tbl : List UnitRow) (k : Nat) (nm : Str) (ty : TyD) (dims : Option (List DimD)) (s : Str)
    (unit : Option (Nat × Str))
    (hunit : ∀ n x, unit = some (n, x) → (ty.ty = .int ∨ ty.ty = .float) ∧ tbl.any (fun r => r.name = x) = true) :
    preCheck (mkParams tbl) (blockNode k nm ty dims s unit) = .ok () := by
  cases unit with
  | none => cases h : ty.ty <;> simp [preCheck, blockNode, h]
  | some p =>
    obtain ⟨n, x⟩ := p
    obtain ⟨ht, hk⟩ := hunit n x rfl
    rcases ht with ht | ht <;> simp [preCheck, blockNode, ht, mkParams, hk]

/-! ### element casts of JSON arrays -/

theorem mapM_ok_map {α β γ : Type} (f : β → R γ) (g : α → β) (h : α → γ) :
    ∀ (l : List α), (∀ x ∈ l, f (g x) = .ok (h x)) → (l.map g).mapM f = .ok (l.map h)
  | [], _ => rfl
  | a :: t, hf => by
    have h1 := hf a (by simp)
    have h2 := mapM_ok_map f g h t (fun x hx => hf x (List.mem_cons_of_mem _ hx))
    simp only [List.map_cons, List.mapM_cons, h1, h2, bind, Except.bind, pure, Except.pure]

theorem ne_of_head (s w : Str) (c : Char) (hw : w.head? = some c) (h : s.head? ≠ some c) : (s == w) = false := by
  rw [Bool.eq_false_iff]
  intro he
  have e := eq_of_beq he
  subst e
  exact h hw

/-- an integer element as JSON writes it: optional `-`, then `0` or digits without leading zero -/
structure IntTok where
  neg : Bool
  d : Str

def IntTok.render (i : IntTok) : Str := (if i.neg then ['-'] else []) ++ i.d
def IntTok.value (i : IntTok) : Int := if i.neg then -(digitsToNat i.d : Int) else (digitsToNat i.d : Int)
/-- digits, no leading zero, inside the 64-bit range numpy stores `dtype=int` in -/
def IntTok.Ok (i : IntTok) : Prop :=
  allDigits i.d = true ∧ (1 < i.d.length → i.d.head? ≠ some '0') ∧ -(2 ^ 63 : Int) ≤ i.value ∧ i.value < (2 ^ 63 : Int)

theorem intTok_render_sign (i : IntTok) : i.render = signText (if i.neg then some true else none) ++ i.d := by
  cases h : i.neg <;> simp [IntTok.render, signText, h]

theorem intTok_chars (i : IntTok) (h : i.Ok) : ∀ c ∈ i.render, c = '-' ∨ c.isDigit = true := by
  obtain ⟨_, hall⟩ := allDigits_iff h.1
  intro c hc
  simp only [IntTok.render, List.mem_append] at hc
  rcases hc with hc | hc
  · left; split at hc <;> simp at hc; exact hc
  · exact .inr (hall c hc)

theorem intTok_head (i : IntTok) (h : i.Ok) : ∃ c r, i.render = c :: r ∧ (c = '-' ∨ c.isDigit = true) := by
  obtain ⟨hne, hall⟩ := allDigits_iff h.1
  cases hn : i.neg with
  | true => exact ⟨'-', i.d, by simp [IntTok.render, hn], .inl rfl⟩
  | false =>
    cases hd : i.d with
    | nil => exact absurd hd hne
    | cons c r => exact ⟨c, r, by simp [IntTok.render, hn, hd], .inr (hall c (by simp [hd]))⟩

theorem intTok_tokOk (i : IntTok) (h : i.Ok) : TokOk i.render := by
  obtain ⟨c, r, hcr, hc⟩ := intTok_head i h
  refine ⟨⟨c, r, hcr, ?_⟩, ?_⟩
  · rcases hc with rfl | hc
    · decide
    · intro he; rw [he] at hc; exact absurd hc (by decide)
  · intro x hx
    rcases intTok_chars i h x hx with rfl | hd
    · decide
    · have := digit_plain hd
      have hw : isWs x = false := by
        have := this.1; simp only [Bool.or_eq_false_iff] at this; exact this.2
      have h1 : x ≠ ',' := by intro he; rw [he] at hd; exact absurd hd (by decide)
      have h2 : x ≠ ']' := by intro he; rw [he] at hd; exact absurd hd (by decide)
      have h3 : x ≠ '[' := by intro he; rw [he] at hd; exact absurd hd (by decide)
      simp [isDelim, hw, h1, h2, h3]

theorem jsonNumber_digits (d : Str) (hne : d ≠ []) (hall : ∀ c ∈ d, c.isDigit = true)
    (hz0 : 1 < d.length → d.head? ≠ some '0') : jsonNumber d = some true ∧ jsonNumber ('-' :: d) = some true := by
  have htw : d.takeWhile Char.isDigit = d := by
    have := takeWhile_append_gen Char.isDigit d [] hall (.inl rfl)
    simpa using this
  have hdw : d.dropWhile Char.isDigit = [] := by
    have := dropWhile_append_gen Char.isDigit d [] hall (.inl rfl)
    simpa using this
  have he : d.isEmpty = false := by cases hd : d with | nil => exact absurd hd hne | cons _ _ => rfl
  have hz : (decide (d.length > 1) && d.head? == some '0') = false := by
    by_cases hl : 1 < d.length
    · have := hz0 hl
      simp [this]
    · simp [hl]
  constructor
  · cases hd : d with
    | nil => exact absurd hd hne
    | cons c r =>
      have hc : c ≠ '-' := (digit_plain (hall c (by simp [hd]))).2.2.1
      rw [hd] at htw hdw he hz
      unfold jsonNumber
      simp only []
      rw [jsonNumber.match_1.eq_2 _ _ _ _ (fun t h => hc (List.cons.inj h).1)]
      simp only [htw, hdw, he, hz]
      simp
  · unfold jsonNumber
    simp only [htw, hdw, he, hz]
    simp

theorem jsonNumber_intTok (i : IntTok) (h : i.Ok) : jsonNumber i.render = some true := by
  obtain ⟨hne, hall⟩ := allDigits_iff h.1
  have := jsonNumber_digits i.d hne hall h.2.1
  cases hn : i.neg with
  | true => simpa [IntTok.render, hn] using this.2
  | false => simpa [IntTok.render, hn] using this.1

/-- `np.array(json value, dtype=int)` on an integer token: the integer the digits denote -/
theorem tokAtom_intTok (i : IntTok) (h : i.Ok) : tokAtom .int (.bare i.render) = .ok (.num ((i.value : Int) : Rat)) := by
  obtain ⟨c, r, hcr, hc⟩ := intTok_head i h
  have hne : ∀ x : Char, x.isDigit = false → x ≠ '-' → i.render.head? ≠ some x := by
    intro x hx hx2
    rw [hcr]
    simp only [List.head?_cons, ne_eq, Option.some.injEq]
    rcases hc with rfl | hc
    · exact fun he => hx2 he.symm
    · intro he; rw [he] at hc; rw [hc] at hx; cases hx
  have h1 := ne_of_head i.render "true".toList 't' rfl (hne 't' (by decide) (by decide))
  have h2 := ne_of_head i.render "false".toList 'f' rfl (hne 'f' (by decide) (by decide))
  have h3 := ne_of_head i.render "null".toList 'n' rfl (hne 'n' (by decide) (by decide))
  have hci : castInt i.render = .ok i.value := by
    rw [intTok_render_sign, castInt_lit _ _ h.1]
    cases hn : i.neg <;> simp [IntTok.value, signNeg, hn]
  have h64 : int64Atom i.value = .ok (.num ((i.value : Int) : Rat)) := by
    unfold int64Atom
    rw [if_pos]
    simp only [Bool.and_eq_true, decide_eq_true_eq]
    exact ⟨h.2.2.1, h.2.2.2⟩
  simp only [tokAtom, h1, h2, h3, Bool.false_eq_true, if_false, Bool.or_self, jsonNumber_intTok i h, if_true, hci,
    Except.bind, h64]

theorem tokAtom_boolTok (b : Bool) :
    tokAtom .bool (.bare (if b then "true".toList else "false".toList)) = .ok (.bool b) := by
  cases b <;> rfl

theorem boolTok_tokOk (b : Bool) : TokOk (if b then "true".toList else "false".toList) := by
  cases b
  · exact ⟨⟨'f', "alse".toList, by decide, by decide⟩, by decide⟩
  · exact ⟨⟨'t', "rue".toList, by decide, by decide⟩, by decide⟩

/-- every character of a rendered nested list is a bracket, a comma, or belongs to one of its words -/
theorem rendered_chars {s : Str} {sh : List Nat} {toks : List Tok} (h : Rendered s sh toks) :
    ∀ c ∈ s, c = '[' ∨ c = ']' ∨ c = ',' ∨ ∃ t, Tok.bare t ∈ toks ∧ c ∈ t := by
  induction h with
  | tok t ht => intro c hc; exact .inr (.inr (.inr ⟨t, by simp, hc⟩))
  | arr items sh hne _ ih =>
    intro c hc
    simp only [List.mem_cons, List.mem_append, List.not_mem_nil, or_false] at hc
    rcases hc with rfl | hc | rfl
    · exact .inl rfl
    · rcases mem_joinWith _ c hc with h | ⟨x, hx, hcx⟩
      · simp only [List.mem_singleton] at h; exact .inr (.inr (.inl h))
      · obtain ⟨it, hit, rfl⟩ := List.mem_map.mp hx
        rcases ih it hit c hcx with h | h | h | ⟨t, ht, hct⟩
        · exact .inl h
        · exact .inr (.inl h)
        · exact .inr (.inr (.inl h))
        · exact .inr (.inr (.inr ⟨t, List.mem_flatMap.mpr ⟨it, hit, ht⟩, hct⟩))
    · exact .inr (.inl rfl)

/-- an integer array text contains no `#`, backslash, `$` -/
theorem rendered_int_plain {s : Str} {sh : List Nat} (its : List IntTok) (hok : ∀ i ∈ its, i.Ok)
    (h : Rendered s sh (its.map (fun i => Tok.bare i.render))) :
    ∀ ch ∈ s, ch ≠ '#' ∧ ch ≠ '\\' ∧ ch ≠ '$' := by
  intro ch hch
  rcases rendered_chars h ch hch with rfl | rfl | rfl | ⟨t, ht, hct⟩
  · decide
  · decide
  · decide
  · obtain ⟨i, hi, he⟩ := List.mem_map.mp ht
    have he' : i.render = t := by injection he
    subst he'
    rcases intTok_chars i (hok i hi) ch hct with rfl | hd
    · decide
    · refine ⟨?_, ?_, ?_⟩ <;> (intro e; rw [e] at hd; exact absurd hd (by decide))

/-! ### float elements -/

/-- the literal is written as JSON allows: no `+` sign, an integer part without leading zero, digits behind the point -/
def FloatD.Json (f : FloatD) : Prop :=
  f.sg ≠ some false ∧ f.ip ≠ [] ∧ (1 < f.ip.length → f.ip.head? ≠ some '0') ∧ (∀ x, f.fp = some x → x ≠ [])

theorem jsonNumber_neg (c : Char) (r : Str) (hc : c ≠ '-') : jsonNumber ('-' :: c :: r) = jsonNumber (c :: r) := by
  unfold jsonNumber
  simp only []
  rw [jsonNumber.match_1.eq_2 _ (c :: r) _ _ (fun t h => hc (List.cons.inj h).1)]

theorem expTail_ok (es : Option Bool) (ed : Str) (hed : allDigits ed = true) :
    allDigits (splitSign (signText es ++ ed)).2 = true := by
  obtain ⟨hne, hall⟩ := allDigits_iff hed
  have hh : ed = [] ∨ ∃ c r, ed = c :: r ∧ c ≠ '+' ∧ c ≠ '-' := by
    cases hd : ed with
    | nil => exact .inl rfl
    | cons c r =>
      have := digit_plain (hall c (by simp [hd]))
      exact .inr ⟨c, r, rfl, this.2.1, this.2.2.1⟩
  rw [splitSign_sign es ed hh]
  exact hed

theorem jsonNumber_floatBody (f : FloatD) (hf : f.Ok) (hj : f.Json) :
    ∃ b, jsonNumber (f.mantText ++ f.expText) = some b := by
  obtain ⟨hip, hfp, _, hex⟩ := hf
  obtain ⟨_, hne, hz0, hfpne⟩ := hj
  obtain ⟨c0, r0, hipc⟩ : ∃ c0 r0, f.ip = c0 :: r0 := by
    cases h : f.ip with
    | nil => exact absurd h hne
    | cons a b => exact ⟨a, b, rfl⟩
  have hc0 : c0 ≠ '-' := (digit_plain (hip c0 (by simp [hipc]))).2.2.1
  have he : f.ip.isEmpty = false := by rw [hipc]; rfl
  have hz : (decide (f.ip.length > 1) && f.ip.head? == some '0') = false := by
    by_cases hl : 1 < f.ip.length
    · have := hz0 hl
      simp [this]
    · simp [hl]
  -- generic step: strip the integer part
  have key : ∀ tail : Str, (tail = [] ∨ ∃ x r, tail = x :: r ∧ Char.isDigit x = false) →
      jsonNumber (f.ip ++ tail) =
        (match tail with
         | [] => some true
         | '.' :: fr =>
           let fp := fr.takeWhile Char.isDigit
           if fp.isEmpty then none else
           match fr.dropWhile Char.isDigit with
           | [] => some false
           | c :: ex => if (c == 'e' || c == 'E') && allDigits (splitSign ex).2 then some false else none
         | c :: ex => if (c == 'e' || c == 'E') && allDigits (splitSign ex).2 then some false else none) := by
    intro tail ht
    unfold jsonNumber
    simp only []
    rw [jsonNumber.match_1.eq_2 _ (f.ip ++ tail) _ _ (fun t h => by
      rw [hipc] at h; exact hc0 (List.cons.inj h).1)]
    rw [takeWhile_append_gen Char.isDigit f.ip tail hip ht, dropWhile_append_gen Char.isDigit f.ip tail hip ht]
    simp only [he, hz, Bool.or_self, Bool.false_eq_true, if_false]
    rfl
  cases hfpc : f.fp with
  | none =>
    cases hexc : f.ex with
    | none =>
      refine ⟨true, ?_⟩
      have := key [] (.inl rfl)
      simpa [FloatD.mantText, FloatD.expText, hfpc, hexc] using this
    | some p =>
      obtain ⟨cap, es, ed⟩ := p
      have hed := expTail_ok es ed (hex cap es ed hexc).1
      refine ⟨false, ?_⟩
      cases cap with
      | true =>
        have := key ('E' :: (signText es ++ ed)) (.inr ⟨_, _, rfl, by decide⟩)
        simp only [FloatD.mantText, FloatD.expText, hfpc, hexc, List.append_nil, if_true]
        rw [this]
        simp [hed]
      | false =>
        have := key ('e' :: (signText es ++ ed)) (.inr ⟨_, _, rfl, by decide⟩)
        simp only [FloatD.mantText, FloatD.expText, hfpc, hexc, List.append_nil, Bool.false_eq_true, if_false]
        rw [this]
        simp [hed]
  | some x =>
    have hx := hfp x hfpc
    have hxne := hfpne x hfpc
    have hxe : x.isEmpty = false := by cases h : x with | nil => exact absurd h hxne | cons _ _ => rfl
    refine ⟨false, ?_⟩
    cases hexc : f.ex with
    | none =>
      have := key ('.' :: x) (.inr ⟨_, _, rfl, by decide⟩)
      simp only [FloatD.mantText, FloatD.expText, hfpc, hexc, List.append_nil]
      rw [this]
      have htw : x.takeWhile Char.isDigit = x := by simpa using takeWhile_append_gen Char.isDigit x [] hx (.inl rfl)
      have hdw : x.dropWhile Char.isDigit = [] := by simpa using dropWhile_append_gen Char.isDigit x [] hx (.inl rfl)
      simp [htw, hdw, hxe]
    | some p =>
      obtain ⟨cap, es, ed⟩ := p
      have hed := expTail_ok es ed (hex cap es ed hexc).1
      cases cap with
      | true =>
        have ht : ('E' :: (signText es ++ ed)) = [] ∨ ∃ a r, ('E' :: (signText es ++ ed)) = a :: r ∧ Char.isDigit a = false :=
          .inr ⟨_, _, rfl, by decide⟩
        have := key ('.' :: (x ++ 'E' :: (signText es ++ ed))) (.inr ⟨_, _, rfl, by decide⟩)
        simp only [FloatD.mantText, FloatD.expText, hfpc, hexc, if_true, List.append_assoc, List.cons_append]
        rw [this]
        simp only [takeWhile_append_gen Char.isDigit x _ hx ht, dropWhile_append_gen Char.isDigit x _ hx ht, hxe]
        simp [hed]
      | false =>
        have ht : ('e' :: (signText es ++ ed)) = [] ∨ ∃ a r, ('e' :: (signText es ++ ed)) = a :: r ∧ Char.isDigit a = false :=
          .inr ⟨_, _, rfl, by decide⟩
        have := key ('.' :: (x ++ 'e' :: (signText es ++ ed))) (.inr ⟨_, _, rfl, by decide⟩)
        simp only [FloatD.mantText, FloatD.expText, hfpc, hexc, Bool.false_eq_true, if_false, List.append_assoc, List.cons_append]
        rw [this]
        simp only [takeWhile_append_gen Char.isDigit x _ hx ht, dropWhile_append_gen Char.isDigit x _ hx ht, hxe]
        simp [hed]

theorem floatD_chars (f : FloatD) (hf : f.Ok) :
    ∀ c ∈ f.render, c.isDigit = true ∨ c = '-' ∨ c = '+' ∨ c = '.' ∨ c = 'e' ∨ c = 'E' := by
  obtain ⟨hip, hfp, _, hex⟩ := hf
  have hsign : ∀ (sg : Option Bool) (c : Char), c ∈ signText sg → c = '-' ∨ c = '+' := by
    intro sg c hc
    cases sg with
    | none => simp [signText] at hc
    | some b => cases b <;> simp [signText] at hc <;> simp [hc]
  intro c hc
  simp only [FloatD.render, FloatD.mantText, FloatD.expText, List.mem_append] at hc
  rcases hc with hc | (hc | hc) | hc
  · rcases hsign _ c hc with h | h
    · exact .inr (.inl h)
    · exact .inr (.inr (.inl h))
  · exact .inl (hip c hc)
  · cases hfpc : f.fp with
    | none => rw [hfpc] at hc; simp at hc
    | some x =>
      rw [hfpc] at hc
      simp only [List.mem_cons] at hc
      rcases hc with rfl | hc
      · simp
      · exact .inl (hfp x hfpc c hc)
  · cases hexc : f.ex with
    | none => rw [hexc] at hc; simp at hc
    | some p =>
      obtain ⟨cap, es, ed⟩ := p
      rw [hexc] at hc
      simp only [List.mem_cons, List.mem_append] at hc
      rcases hc with rfl | hc | hc
      · cases cap <;> simp
      · rcases hsign _ c hc with h | h
        · exact .inr (.inl h)
        · exact .inr (.inr (.inl h))
      · exact .inl ((allDigits_iff (hex cap es ed hexc).1).2 c hc)

theorem floatD_json_head (f : FloatD) (hf : f.Ok) (hj : f.Json) :
    ∃ c r, f.mantText ++ f.expText = c :: r ∧ c.isDigit = true := by
  cases h : f.ip with
  | nil => exact absurd h hj.2.1
  | cons a b =>
    exact ⟨a, (f.mantText ++ f.expText).drop 1, by simp [FloatD.mantText, h], hf.1 a (by simp [h])⟩

theorem jsonNumber_floatD (f : FloatD) (hf : f.Ok) (hj : f.Json) : ∃ b, jsonNumber f.render = some b := by
  obtain ⟨b, hb⟩ := jsonNumber_floatBody f hf hj
  obtain ⟨c, r, hcr, hcd⟩ := floatD_json_head f hf hj
  refine ⟨b, ?_⟩
  cases hsg : f.sg with
  | none => simpa [FloatD.render, signText, hsg] using hb
  | some s =>
    cases s with
    | false => exact absurd hsg hj.1
    | true =>
      simp only [FloatD.render, signText, hsg, List.cons_append, List.nil_append]
      rw [hcr, jsonNumber_neg c r (digit_plain hcd).2.2.1, ← hcr, hb]

theorem floatD_tokOk (f : FloatD) (hf : f.Ok) (hj : f.Json) : TokOk f.render := by
  refine ⟨?_, ?_⟩
  · obtain ⟨c, r, hcr, hcd⟩ := floatD_json_head f hf hj
    cases hsg : f.sg with
    | none =>
      refine ⟨c, r, by simp [FloatD.render, signText, hsg, hcr], ?_⟩
      intro e; rw [e] at hcd; exact absurd hcd (by decide)
    | some s =>
      cases s with
      | false => exact ⟨'+', f.mantText ++ f.expText, by simp [FloatD.render, signText, hsg], by decide⟩
      | true => exact ⟨'-', f.mantText ++ f.expText, by simp [FloatD.render, signText, hsg], by decide⟩
  · intro x hx
    rcases floatD_chars f hf x hx with hd | rfl | rfl | rfl | rfl | rfl
    · have hw : isWs x = false := by
        have := (digit_plain hd).1; simp only [Bool.or_eq_false_iff] at this; exact this.2
      have h1 : x ≠ ',' := by intro he; rw [he] at hd; exact absurd hd (by decide)
      have h2 : x ≠ ']' := by intro he; rw [he] at hd; exact absurd hd (by decide)
      have h3 : x ≠ '[' := by intro he; rw [he] at hd; exact absurd hd (by decide)
      simp [isDelim, hw, h1, h2, h3]
    all_goals decide

/-- `np.array(json value, dtype=float)` on a number token: the rational number the literal denotes -/
theorem tokAtom_floatD (f : FloatD) (hf : f.Ok) (hj : f.Json) : tokAtom .float (.bare f.render) = .ok (.num f.value) := by
  obtain ⟨b, hb⟩ := jsonNumber_floatD f hf hj
  have hne : ∀ x : Char, x.isDigit = false → x ≠ '-' → f.render.head? ≠ some x := by
    intro x hx hx2
    obtain ⟨c, r, hcr, hcd⟩ := floatD_json_head f hf hj
    cases hsg : f.sg with
    | none =>
      simp only [FloatD.render, signText, hsg, List.nil_append, hcr, List.head?_cons, ne_eq, Option.some.injEq]
      intro he; rw [he] at hcd; rw [hcd] at hx; cases hx
    | some s =>
      cases s with
      | false => exact absurd hsg hj.1
      | true =>
        simp only [FloatD.render, signText, hsg, List.cons_append, List.head?_cons, ne_eq, Option.some.injEq]
        exact fun he => hx2 he.symm
  have h1 := ne_of_head f.render "true".toList 't' rfl (hne 't' (by decide) (by decide))
  have h2 := ne_of_head f.render "false".toList 'f' rfl (hne 'f' (by decide) (by decide))
  have h3 := ne_of_head f.render "null".toList 'n' rfl (hne 'n' (by decide) (by decide))
  simp only [tokAtom, h1, h2, h3, Bool.false_eq_true, if_false, Bool.or_self, hb, castFloat_lit f hf]
  rfl

/-- a float array text contains no `#`, backslash, `$` -/
theorem rendered_float_plain {s : Str} {sh : List Nat} (fs : List FloatD) (hok : ∀ f ∈ fs, f.Ok)
    (h : Rendered s sh (fs.map (fun f => Tok.bare f.render))) :
    ∀ ch ∈ s, ch ≠ '#' ∧ ch ≠ '\\' ∧ ch ≠ '$' := by
  intro ch hch
  rcases rendered_chars h ch hch with rfl | rfl | rfl | ⟨t, ht, hct⟩
  · decide
  · decide
  · decide
  · obtain ⟨f, hf, he⟩ := List.mem_map.mp ht
    have he' : f.render = t := by injection he
    subst he'
    rcases floatD_chars f (hok f hf) ch hct with hd | rfl | rfl | rfl | rfl | rfl
    · refine ⟨?_, ?_, ?_⟩ <;> (intro e; rw [e] at hd; exact absurd hd (by decide))
    all_goals decide

/-! ### ragged arrays are rejected -/

/-- the item whose shape differs from the shape seen so far stops `pElems` with an error -/
theorem pElems_bad (sh0 sh1 : List Nat) (bad : Str × List Tok) (hb : ItemOk sh1 bad) (hne : sh1 ≠ sh0)
    (f n : Nat) (acc : List Tok) (post : Str) (hf : bad.1.length + 1 ≤ f)
    (hpost : post = [] ∨ ∃ c r, post = c :: r ∧ isDelim c = true) :
    pElems (f + 1) (bad.1 ++ post) (some sh0) n acc = .error .fail := by
  unfold pElems
  simp only [bind, Except.bind]
  rw [hb.2 f post hf hpost]
  have : (sh0 != sh1) = true := by
    rw [bne_iff_ne]; exact fun e => hne e.symm
  simp only [this, if_true]

theorem pElems_ragged (sh0 sh1 : List Nat) (bad : Str × List Tok) (hb : ItemOk sh1 bad) (hne : sh1 ≠ sh0) (post : Str)
    (hpost : post = [] ∨ ∃ c r, post = c :: r ∧ isDelim c = true) :
    ∀ (pre : List (Str × List Tok)) (f n : Nat) (acc : List Tok) (sh : Option (List Nat)),
    pre ≠ [] → (∀ it ∈ pre, ItemOk sh0 it) → totalLen pre + pre.length + bad.1.length + 1 ≤ f →
    (sh = none ∨ sh = some sh0) →
    pElems f (joinWith [','] (pre.map Prod.fst) ++ ',' :: (bad.1 ++ post)) sh n acc = .error .fail := by
  intro pre
  induction pre with
  | nil => intro _ _ _ _ h; exact absurd rfl h
  | cons it ts ih =>
    intro f n acc sh _ hok hf hsh
    obtain ⟨⟨c0, r0, hc0, _, _⟩, hpv⟩ := hok it (by simp)
    have hlen : 1 ≤ it.1.length := by rw [hc0]; simp
    have htl : totalLen (it :: ts) = it.1.length + totalLen ts := by simp [totalLen]
    obtain ⟨f', rfl⟩ : ∃ f', f = f' + 1 := ⟨f - 1, by omega⟩
    cases ts with
    | nil =>
      have h0 : totalLen ([] : List (Str × List Tok)) = 0 := rfl
      simp only [List.map_cons, List.map_nil, joinWith]
      simp only [htl, h0, List.length_cons, List.length_nil] at hf
      obtain ⟨f'', rfl⟩ : ∃ f'', f' = f'' + 1 := ⟨f' - 1, by omega⟩
      have hbad := pElems_bad sh0 sh1 bad hb hne f'' (n + 1) (acc ++ it.2) post (by omega) hpost
      unfold pElems
      simp only [bind, Except.bind]
      rw [hpv (f'' + 1) (',' :: (bad.1 ++ post)) (by omega) (.inr ⟨',', _, rfl, by decide⟩)]
      rcases hsh with rfl | rfl
      · simp only [Bool.false_eq_true, if_false]
        rw [dropWs_cons ',' _ (by decide)]
        simp only
        rw [hbad]
      · simp only [bne_self_eq_false, Bool.false_eq_true, if_false]
        rw [dropWs_cons ',' _ (by decide)]
        simp only
        rw [hbad]
    | cons it2 ts2 =>
      have htl2 : totalLen (it2 :: ts2) = it2.1.length + totalLen ts2 := by simp [totalLen]
      simp only [List.map_cons, joinWith, List.append_assoc, List.cons_append,
        List.nil_append]
      unfold pElems
      simp only [bind, Except.bind]
      rw [hpv f' (',' :: (joinWith [','] (it2.1 :: ts2.map Prod.fst) ++ ',' :: (bad.1 ++ post)))
        (by simp only [htl, htl2, List.length_cons] at hf; omega) (.inr ⟨',', _, rfl, by decide⟩)]
      have hrec := ih f' (n + 1) (acc ++ it.2) (some sh0) (by simp)
        (fun x hx => hok x (List.mem_cons_of_mem _ hx))
        (by simp only [htl, htl2, List.length_cons] at hf ⊢; omega) (.inr rfl)
      simp only [List.map_cons] at hrec
      rcases hsh with rfl | rfl
      · simp only [Bool.false_eq_true, if_false]
        rw [dropWs_cons ',' _ (by decide)]
        simp only
        rw [hrec]
      · simp only [bne_self_eq_false, Bool.false_eq_true, if_false]
        rw [dropWs_cons ',' _ (by decide)]
        simp only
        rw [hrec]

/-- `json.loads` + numpy on `[item,…,item,BAD…`: the first item whose shape differs from the items before it
    makes the whole value fail, whatever follows -/
theorem parseJson_ragged (sh0 sh1 : List Nat) (pre : List (Str × List Tok)) (bad : Str × List Tok) (post : Str)
    (hpre : pre ≠ []) (h0 : ∀ it ∈ pre, Rendered it.1 sh0 it.2) (h1 : Rendered bad.1 sh1 bad.2) (hne : sh1 ≠ sh0)
    (hpost : post = [] ∨ ∃ c r, post = c :: r ∧ isDelim c = true) :
    parseJson ('[' :: (joinWith [','] (pre.map Prod.fst) ++ ',' :: (bad.1 ++ post))) = .error .fail := by
  have hok : ∀ it ∈ pre, ItemOk sh0 it := fun it hit => pVal_rendered (h0 it hit)
  have hb : ItemOk sh1 bad := pVal_rendered h1
  obtain ⟨it0, ts, rfl⟩ : ∃ it0 ts, pre = it0 :: ts := by
    cases pre with | nil => exact absurd rfl hpre | cons a b => exact ⟨a, b, rfl⟩
  obtain ⟨⟨c, r, hc, hcw, hcb⟩, _⟩ := hok it0 (by simp)
  have hbody : ∃ r', joinWith [','] ((it0 :: ts).map Prod.fst) ++ ',' :: (bad.1 ++ post) = c :: r' := by
    cases ts with
    | nil => exact ⟨r ++ ',' :: (bad.1 ++ post), by simp [joinWith, hc]⟩
    | cons b t2 => exact ⟨r ++ ',' :: (joinWith [','] ((b :: t2).map Prod.fst) ++ ',' :: (bad.1 ++ post)), by simp [joinWith, hc]⟩
  obtain ⟨r', hr'⟩ := hbody
  have hlen := (joinWith_length_le (it0 :: ts)).2 (by simp)
  have hpe := pElems_ragged sh0 sh1 bad hb hne post hpost (it0 :: ts)
    ('[' :: (joinWith [','] ((it0 :: ts).map Prod.fst) ++ ',' :: (bad.1 ++ post))).length 0 [] none (by simp) hok
    (by simp only [List.length_cons, List.length_append] at hlen ⊢; omega) (.inl rfl)
  have hpv : pVal (('[' :: (joinWith [','] ((it0 :: ts).map Prod.fst) ++ ',' :: (bad.1 ++ post))).length + 1)
      ('[' :: (joinWith [','] ((it0 :: ts).map Prod.fst) ++ ',' :: (bad.1 ++ post))) = .error .fail := by
    unfold pVal
    rw [dropWs_cons '[' _ (by decide)]
    simp only
    rw [hr', dropWs_cons c r' hcw]
    split
    · rename_i heq; exact absurd (List.cons.inj heq).1 hcb
    · rw [← hr', hpe]
  simp only [parseJson, hpv, bind, Except.bind]

/-- one definition line whose value cannot be cast: `parse` fails with that error -/
theorem parseLines_single_define_error (P : Params) (line : Str) (nd : Node) (t : Ty) (nm : Str) (e : Err)
    (hdet : determine line = .ok nd) (hk : nd.kind = .typed t) (hn : nd.name = some nm)
    (hpre : preCheck P nd = .ok ()) (hv : initValue P t nd.dims nd.raw = .error e) :
    parseLines P [line] = .error e := by
  simp [parseLines, hdet, parseNodes, runNodes, step, hk, stepPlain, hn, hpre, updateFirst, hv,
    bind, Except.bind, pure, Except.pure]

/-! ### string elements: `["a","b"]` -/

/-- the text between the quotes of a JSON string element: no quote, no backslash, no control character -/
def StrOk (x : Str) : Prop := ∀ c ∈ x, c ≠ '"' ∧ c ≠ '\\' ∧ 32 ≤ c.toNat

/-- `Rendered` with quoted string leaves as well -/
inductive RenderedQ : Str → List Nat → List Tok → Prop where
  | tok (t : Str) (h : TokOk t) : RenderedQ t [] [.bare t]
  | str (x : Str) (h : StrOk x) : RenderedQ ('"' :: (x ++ ['"'])) [] [.str x]
  | arr (items : List (Str × List Tok)) (sh : List Nat) (hne : items ≠ [])
      (h : ∀ it ∈ items, RenderedQ it.1 sh it.2) :
      RenderedQ ('[' :: (joinWith [','] (items.map Prod.fst) ++ [']'])) (items.length :: sh)
        (items.flatMap Prod.snd)

theorem rendered_toQ {s : Str} {sh : List Nat} {toks : List Tok} (h : Rendered s sh toks) : RenderedQ s sh toks := by
  induction h with
  | tok t ht => exact .tok t ht
  | arr items sh hne _ ih => exact .arr items sh hne ih

theorem pVal_str (f : Nat) (x rest : Str) (hx : StrOk x) :
    pVal (f + 1) (('"' :: (x ++ ['"'])) ++ rest) = .ok ([], [.str x], rest) := by
  have hp : ∀ c ∈ x, (fun c => c != '"') c = true := by intro c hc; simp [(hx c hc).1]
  have hb : ('"' :: rest) = [] ∨ ∃ a r, ('"' :: rest) = a :: r ∧ (fun c => c != '"') a = false :=
    .inr ⟨'"', rest, rfl, by simp⟩
  have e : ('"' :: (x ++ ['"'])) ++ rest = '"' :: (x ++ '"' :: rest) := by simp
  have hbs : x.contains '\\' = false := by
    rw [Bool.eq_false_iff]; intro h
    have := List.contains_iff_mem.mp h
    exact (hx _ this).2.1 rfl
  have hctl : x.any (fun c => decide (c.toNat < 32)) = false := by
    rw [Bool.eq_false_iff]; intro h
    obtain ⟨c, hc, hlt⟩ := List.any_eq_true.mp h
    have := (hx c hc).2.2
    simp only [decide_eq_true_eq] at hlt
    omega
  rw [e]
  unfold pVal
  rw [dropWs_cons '"' _ (by decide)]
  simp only [takeWhile_append_gen _ x _ hp hb, dropWhile_append_gen _ x _ hp hb, hbs, hctl, Bool.false_eq_true, if_false]

theorem pVal_renderedQ {s : Str} {sh : List Nat} {toks : List Tok} (h : RenderedQ s sh toks) :
    ItemOk sh (s, toks) := by
  induction h with
  | tok t ht =>
    obtain ⟨c, r, hcr, _, _, hb, hw⟩ := tokOk_head t ht
    refine ⟨⟨c, r, hcr, hw, hb⟩, ?_⟩
    intro f rest hf hrest
    obtain ⟨f', rfl⟩ : ∃ f', f = f' + 1 := ⟨f - 1, by omega⟩
    exact pVal_tok f' t rest ht hrest
  | str x hx =>
    refine ⟨⟨'"', _, rfl, by decide, by decide⟩, ?_⟩
    intro f rest hf _
    obtain ⟨f', rfl⟩ : ∃ f', f = f' + 1 := ⟨f - 1, by omega⟩
    exact pVal_str f' x rest hx
  | arr items sh0 hne _ ih =>
    refine ⟨⟨'[', _, rfl, by decide, by decide⟩, ?_⟩
    intro f rest hf hrest
    obtain ⟨f', rfl⟩ : ∃ f', f = f' + 1 := ⟨f - 1, by omega⟩
    obtain ⟨it0, ts, rfl⟩ : ∃ it0 ts, items = it0 :: ts := by
      cases items with | nil => exact absurd rfl hne | cons a b => exact ⟨a, b, rfl⟩
    obtain ⟨⟨c, r, hc0, hcw, hcb⟩, _⟩ := ih it0 (by simp)
    have hc : it0.1 = c :: r := hc0
    have hbody : ∃ r', joinWith [','] ((it0 :: ts).map Prod.fst) ++ ']' :: rest = c :: r' := by
      cases ts with
      | nil => exact ⟨r ++ ']' :: rest, by simp [joinWith, hc]⟩
      | cons b t2 => exact ⟨r ++ ',' :: (joinWith [','] ((b :: t2).map Prod.fst) ++ ']' :: rest), by simp [joinWith, hc]⟩
    obtain ⟨r', hr'⟩ := hbody
    have hlen := (joinWith_length_le (it0 :: ts)).2 (by simp)
    have hfuel : totalLen (it0 :: ts) + (it0 :: ts).length + 1 ≤ f' := by
      simp only [List.length_cons, List.length_append, List.length_nil] at hf hlen ⊢
      omega
    have hpe := pElems_items sh0 (it0 :: ts) f' 0 [] none rest (by simp) (fun x hx => ih x hx) hfuel (.inl rfl)
    show pVal (f' + 1) ('[' :: (joinWith [','] ((it0 :: ts).map Prod.fst) ++ [']']) ++ rest) = _
    simp only [List.cons_append, List.append_assoc, List.nil_append]
    unfold pVal
    rw [dropWs_cons '[' _ (by decide)]
    simp only
    rw [hr', dropWs_cons c r' hcw]
    split
    · rename_i heq; exact absurd (List.cons.inj heq).1 hcb
    · rw [← hr', hpe]
      simp

theorem parseJson_renderedQ {s : Str} {sh : List Nat} {toks : List Tok} (h : RenderedQ s sh toks) :
    parseJson s = .ok (sh, toks) := by
  obtain ⟨_, hp⟩ := pVal_renderedQ h
  have := hp (s.length + 1) [] (Nat.le_refl _) (.inl rfl)
  simp only [List.append_nil] at this
  simp [parseJson, this, bind, Except.bind, isBlank]

theorem renderedQ_head {s : Str} {sh : List Nat} {toks : List Tok} (h : RenderedQ s sh toks) (hsh : sh ≠ []) :
    ∃ r, s = '[' :: r := by
  cases h with
  | tok t ht => exact absurd rfl hsh
  | str x hx => exact absurd rfl hsh
  | arr items sh hne _ => exact ⟨_, rfl⟩

/-- the text-level chain for any array text that `json.loads` reads as `(sh, toks)` -/
theorem inline_array_text_core (tbl : List UnitRow) (k : Nat) (nm : Str) (a : Nat) (ty : TyD) (dims : Option (List DimD))
    (b c : Nat) (s r : Str) (sh : List Nat) (toks : List Tok) (atoms : List Atom) (ds : List Dim)
    (unit cm : Option (Nat × Str))
    (hn : NameOk nm) (hd : DimsOk dims) (hu : ∀ n x, unit = some (n, x) → UnitOk x)
    (htail : NoEsc (renderTail unit cm))
    (hunit : ∀ n x, unit = some (n, x) → (ty.ty = .int ∨ ty.ty = .float) ∧ tbl.any (fun r => r.name = x) = true)
    (hp : parseJson s = .ok (sh, toks)) (hsr : s = '[' :: r)
    (hplain : ∀ ch ∈ s, ch ≠ '#' ∧ isWs ch = false ∧ ch ≠ '\\' ∧ ch ≠ '$')
    (hds : dimsValue dims = some ds) (hel : toks.mapM (tokAtom ty.ty) = .ok atoms) (hcd : checkDims ds sh = true) :
    parseLines (mkParams tbl) [List.replicate k ' ' ++ (definePrefix nm a ty dims b c ++ (s ++ renderTail unit cm))] =
      .ok [{ name := nm, ty := ty.ty, info := ty.info, dims := some ds, units := unit.map Prod.snd,
             value := some (.array sh atoms), declared := false }] := by
  have hlit : Lit.Ok (.bare s) :=
    ⟨⟨'[', r, hsr, by decide, by decide, by decide, by decide⟩, fun ch hch => ⟨(hplain ch hch).1, (hplain ch hch).2.1⟩⟩
  have hdet := determine_define_bare k nm a ty dims b c s unit cm hn hd hu htail hlit
    (fun ch hch => ⟨(hplain ch hch).2.2.1, (hplain ch hch).2.2.2⟩)
  have hnone : (s == "none".toList) = false := ne_none_of_head _ (by rw [hsr]; simp)
  have hcast : castText ty.ty (some ds) s = .ok (.array sh atoms) := by
    simp only [castText, hnone, Bool.false_eq_true, if_false, hp, bind, Except.bind, hel, hcd, if_true]
  have hinit : initValue (mkParams tbl) ty.ty (some ds) (some (.text s)) = .ok (some (.array sh atoms)) := by
    have he : s.isEmpty = false := by rw [hsr]; rfl
    simp only [initValue, he, Bool.false_and, Bool.false_eq_true, if_false, mkParams, hcast, bind, Except.bind]
  have h := parseLines_single_define (mkParams tbl) _ _ ty.ty nm (.array sh atoms) hdet rfl rfl
    (preCheck_blockNode tbl k nm ty dims s unit hunit) (by simpa only [blockNode, hds] using hinit)
  simpa only [blockNode, hds] using h

/-! ### scalar definitions from the text to the value -/

/-- a definition line with any literal form: the lexer returns the node with the text of the literal -/
theorem determine_define_lit (k : Nat) (nm : Str) (a : Nat) (ty : TyD) (dims : Option (List DimD)) (b c : Nat)
    (lit : Lit) (unit cm : Option (Nat × Str))
    (hn : NameOk nm) (hd : DimsOk dims) (hu : ∀ n x, unit = some (n, x) → UnitOk x)
    (htail : NoEsc (renderTail unit cm)) (hlit : lit.Ok) (hesc : NoEsc lit.render) (hs : ∀ ch ∈ lit.text, ch ≠ '$') :
    determine (List.replicate k ' ' ++ (definePrefix nm a ty dims b c ++ (lit.render ++ renderTail unit cm))) =
      .ok (blockNode k nm ty dims lit.text unit) := by
  let v : ValD := { lit := lit, unit := unit, cm := cm }
  let d : LineD := .define nm a ty dims b c v
  have hdok : d.Ok := ⟨hn, hd, hlit, hu⟩
  have hr : d.render = definePrefix nm a ty dims b c ++ (lit.render ++ renderTail unit cm) := by
    rw [define_render_prefix]; rfl
  have hesc' : NoEsc d.render := by
    rw [hr]
    exact NoEsc_append (NoEsc_definePrefix nm a ty dims b c hn hd) (NoEsc_append hesc htail)
  have := determine_render k d hdok hesc'
  rw [hr] at this
  rw [this]
  simp only [d, LineD.node, v, decode_noDollar lit.text hs, blockNode]

/-- scalar definition, any literal form, from the line to the parse result -/
theorem define_scalar_text_core (tbl : List UnitRow) (k : Nat) (nm : Str) (a : Nat) (ty : TyD) (b c : Nat)
    (lit : Lit) (unit cm : Option (Nat × Str)) (v : Val)
    (hn : NameOk nm) (hu : ∀ n x, unit = some (n, x) → UnitOk x) (htail : NoEsc (renderTail unit cm))
    (hunit : ∀ n x, unit = some (n, x) → (ty.ty = .int ∨ ty.ty = .float) ∧ tbl.any (fun r => r.name = x) = true)
    (hlit : lit.Ok) (hesc : NoEsc lit.render) (hs : ∀ ch ∈ lit.text, ch ≠ '$')
    (hne : (lit.text.isEmpty && ty.ty != .str) = false) (hcast : castText ty.ty none lit.text = .ok v) :
    parseLines (mkParams tbl)
        [List.replicate k ' ' ++ (definePrefix nm a ty none b c ++ (lit.render ++ renderTail unit cm))] =
      .ok [{ name := nm, ty := ty.ty, info := ty.info, dims := none, units := unit.map Prod.snd,
             value := some v, declared := false }] := by
  have hdet := determine_define_lit k nm a ty none b c lit unit cm hn trivial hu htail hlit hesc hs
  have hinit : initValue (mkParams tbl) ty.ty none (some (.text lit.text)) = .ok (some v) := by
    simp only [initValue, hne, Bool.false_eq_true, if_false, mkParams, hcast, bind, Except.bind]
  have h := parseLines_single_define (mkParams tbl) _ _ ty.ty nm v hdet rfl rfl
    (preCheck_blockNode tbl k nm ty none lit.text unit hunit) (by simpa only [blockNode, dimsValue] using hinit)
  simpa only [blockNode, dimsValue] using h

theorem signText_chars (sg : Option Bool) : ∀ c ∈ signText sg, c = '-' ∨ c = '+' := by
  intro c hc
  cases sg with
  | none => simp [signText] at hc
  | some b => cases b <;> simp [signText] at hc <;> simp [hc]

/-- a word made of digits, signs, point and exponent letters is a bare literal without escapes -/
theorem numWord_lit (s : Str) (hne : s ≠ [])
    (hch : ∀ c ∈ s, c.isDigit = true ∨ c = '-' ∨ c = '+' ∨ c = '.' ∨ c = 'e' ∨ c = 'E') :
    Lit.Ok (.bare s) ∧ NoEsc s ∧ ∀ ch ∈ s, ch ≠ '$' := by
  have key : ∀ c ∈ s, c ≠ '{' ∧ c ≠ '(' ∧ c ≠ '"' ∧ c ≠ '\'' ∧ c ≠ '#' ∧ isWs c = false ∧ c ≠ '\\' ∧ c ≠ '\n' ∧ c ≠ '$' := by
    intro c hc
    rcases hch c hc with hd | rfl | rfl | rfl | rfl | rfl
    · have hw : isWs c = false := by
        have := (digit_plain hd).1; simp only [Bool.or_eq_false_iff] at this; exact this.2
      refine ⟨?_, ?_, ?_, ?_, ?_, hw, ?_, ?_, ?_⟩ <;> (intro e; rw [e] at hd; exact absurd hd (by decide))
    all_goals decide
  obtain ⟨c0, r0, rfl⟩ : ∃ c0 r0, s = c0 :: r0 := by
    cases s with | nil => exact absurd rfl hne | cons a b => exact ⟨a, b, rfl⟩
  have k0 := key c0 (by simp)
  exact ⟨⟨⟨c0, r0, rfl, k0.1, k0.2.1, k0.2.2.1, k0.2.2.2.1⟩, fun c hc => ⟨(key c hc).2.2.2.2.1, (key c hc).2.2.2.2.2.1⟩⟩,
    fun c hc => ⟨(key c hc).2.2.2.2.2.2.1, (key c hc).2.2.2.2.2.2.2.1⟩, fun c hc => (key c hc).2.2.2.2.2.2.2.2⟩

theorem floatD_render_ne (f : FloatD) (hf : f.Ok) : f.render ≠ [] := by
  intro h
  have := castFloat_lit f hf
  rw [h] at this
  simp [castFloat, hasOdd, splitSign, parseMantissa, lower] at this

/-! ### the `!constant` and `$unit` line forms -/

def constantWord : Str := ['!', 'c', 'o', 'n', 's', 't', 'a', 'n', 't']
def unitWord : Str := ['$', 'u', 'n', 'i', 't']

theorem determine_constant (k : Nat) (cm : Option (Nat × Str)) (hcm : NoEsc (renderComment cm)) :
    determine (List.replicate k ' ' ++ (constantWord ++ renderComment cm)) = .ok { kind := .constant, indent := k } := by
  have hw : NoEsc constantWord := by show ∀ c ∈ constantWord, c ≠ '\\' ∧ c ≠ '\n'; decide
  have henc : encode (constantWord ++ renderComment cm) = '!' :: (['c', 'o', 'n', 's', 't', 'a', 'n', 't'] ++ renderComment cm) := by
    rw [encode_noEsc _ (NoEsc_append hw hcm)]; rfl
  rw [determine_indent k _ '!' _ henc (by decide) (by decide)]
  have e : "!constant".toList = constantWord := by decide
  have hb : determineBody ('!' :: (['c', 'o', 'n', 's', 't', 'a', 'n', 't'] ++ renderComment cm)) = .ok { kind := .constant } := by
    unfold determineBody
    simp only [e]
    have hs : stripPrefix? constantWord ('!' :: (['c', 'o', 'n', 's', 't', 'a', 'n', 't'] ++ renderComment cm)) =
        some (renderComment cm) := by
      simp [stripPrefix?, constantWord]
    simp only [hs, endOrComment_comment cm, if_true]
  rw [hb]
  rfl

theorem determine_unitdef (k : Nat) (w : Char) (rest : Str) (hw : isWs w = true) (hr : NoEsc (w :: rest)) :
    determine (List.replicate k ' ' ++ (unitWord ++ w :: rest)) = .ok { kind := .unit, indent := k } := by
  have hu : NoEsc unitWord := by show ∀ c ∈ unitWord, c ≠ '\\' ∧ c ≠ '\n'; decide
  have henc : encode (unitWord ++ w :: rest) = '$' :: (['u', 'n', 'i', 't'] ++ w :: rest) := by
    rw [encode_noEsc _ (NoEsc_append hu hr)]; rfl
  rw [determine_indent k _ '$' _ henc (by decide) (by decide)]
  have e : "$unit".toList = unitWord := by decide
  have hb : determineBody ('$' :: (['u', 'n', 'i', 't'] ++ w :: rest)) = .ok { kind := .unit } := by
    unfold determineBody
    simp only [e]
    have hn : isNameCh '$' = false := by decide
    have hs : stripPrefix? unitWord ('$' :: 'u' :: 'n' :: 'i' :: 't' :: w :: rest) = some (w :: rest) := by
      simp [stripPrefix?, unitWord]
    simp [hn]
    rw [hs]
    simp [hw]
  rw [hb]
  rfl

/-! ### escaped quotes: single quotes, and modification lines -/

/-- `encode` on a line `A '…escaped…' B` whose other parts contain no backslash or newline -/
theorem encode_escaped_sq (A B s : Str) (hA : NoEsc A) (hB : NoEsc B) (hs : ∀ c ∈ s, c ≠ '\\' ∧ c ≠ '\n') :
    encode (A ++ '\'' :: (escQ '\'' s ++ '\'' :: B)) = A ++ '\'' :: (encQ '\'' enc0 s ++ '\'' :: B) := by
  have hsb : ∀ c ∈ s, c ≠ '\\' := fun c hc => (hs c hc).1
  have hBq : ∀ (pat rep : Str), pat.head? = some '\\' → replaceAll pat rep ('\'' :: B) = '\'' :: B := by
    intro pat rep hp
    exact replaceAll_id pat rep '\\' hp _ (by
      intro c hc
      rcases List.mem_cons.mp hc with rfl | h1
      · decide
      · exact (hB c h1).1)
  have e0 : enc0 = ['$', '@', '0', '0'] := by decide
  have hres : NoEsc (A ++ '\'' :: (encQ '\'' enc0 s ++ '\'' :: B)) := by
    intro c hc
    simp only [List.mem_append, List.mem_cons] at hc
    rcases hc with h1 | rfl | h1 | rfl | h1
    · exact hA c h1
    · exact ⟨by decide, by decide⟩
    · revert c
      apply encQ_chars '\'' enc0 (fun c => c ≠ '\\' ∧ c ≠ '\n')
      · rw [e0]; decide
      · intro c hc _; exact hs c hc
    · exact ⟨by decide, by decide⟩
    · exact hB c h1
  simp only [encode]
  rw [replaceAll_prefix_id _ _ '\\' rfl _ A (fun c hc => (hA c hc).1),
    replaceAll_head _ _ '\'' (by decide),
    replaceAll_own_escQ '\'' (by decide) _ _ (hBq _ _ rfl) s hsb]
  rw [replaceAll_id _ _ '\\' rfl _ (fun c hc => (hres c hc).1), replaceAll_id _ _ '\n' rfl _ (fun c hc => (hres c hc).2)]

def modifyPrefix (nm : Str) (a b : Nat) : Str := nm ++ (List.replicate (a + 1) ' ' ++ '=' :: List.replicate b ' ')

theorem modify_render_prefix (nm : Str) (a b : Nat) (v : ValD) :
    (LineD.modify nm a b v).render = modifyPrefix nm a b ++ v.render := by
  simp [LineD.render, modifyPrefix, List.append_assoc]

theorem NoEsc_modifyPrefix (nm : Str) (a b : Nat) (hn : NameOk nm) : NoEsc (modifyPrefix nm a b) := by
  unfold modifyPrefix
  refine NoEsc_append (NoEsc_name nm hn) (NoEsc_append (NoEsc_spaces _) ?_)
  intro x hx
  rcases List.mem_cons.mp hx with rfl | hx
  · exact ⟨by decide, by decide⟩
  · exact NoEsc_spaces b x hx

/-- the node of a modification line -/
def modNode (k : Nat) (nm : Str) (text : Str) (unit : Option (Nat × Str)) : Node :=
  { kind := .mod, indent := k, name := some nm, raw := some (.text text), units := unit.map Prod.snd }

/-- a boolean array text contains no `#`, backslash, `$` -/
theorem rendered_bool_plain {s : Str} {sh : List Nat} (bs : List Bool)
    (h : Rendered s sh (bs.map (fun b => Tok.bare (if b then "true".toList else "false".toList)))) :
    ∀ ch ∈ s, ch ≠ '#' ∧ ch ≠ '\\' ∧ ch ≠ '$' := by
  have ht : ∀ ch ∈ "true".toList, ch ≠ '#' ∧ ch ≠ '\\' ∧ ch ≠ '$' := by decide
  have hf : ∀ ch ∈ "false".toList, ch ≠ '#' ∧ ch ≠ '\\' ∧ ch ≠ '$' := by decide
  intro ch hch
  rcases rendered_chars h ch hch with rfl | rfl | rfl | ⟨t, htm, hct⟩
  · decide
  · decide
  · decide
  · obtain ⟨b, _, he⟩ := List.mem_map.mp htm
    have he' : (if b then "true".toList else "false".toList) = t := by injection he
    subst he'
    cases b
    · exact hf ch hct
    · exact ht ch hct

end SciVerif.C13
