import SciVerif.Lemmas.C01

/-!
# C01 helper lemmas, part 2: the ARGS pass, the binary passes and the `!` pass map the token
  list of level `k` to the token list of level `k+1`.
-/
namespace SciVerif.C01
open SciVerif.C01.Gen

variable {A : Type} (alg : AtomAlg A) (lit : List Char → A)

/-- What the proof of a binary pass needs to know about the pass (decided over the tables). -/
structure BinPass (P : List Nat) (k : Nat) : Prop where
  inst : ∀ o : B2, isInst dflt P (idxOf dflt o.name) = decide (o.level = k)
  inot : isInst dflt P (idxOf dflt "not") = false
  kpos : 2 ≤ k
  kne : k ≠ 6

/-- One binary pass: left-to-right application of the operators of level `k`. -/
theorem binary_pass (P : List Nat) (k : Nat) (hp : BinPass P k) (e : E) (hwf : e.WF) :
    ∀ (l rest : List (Tok A)), ∃ c, c ≤ (flat alg lit k e).length ∧
      StepsTo (step dflt alg P .binary) c ⟨l, flat alg lit k e ++ rest⟩
        ⟨(flat alg lit (k + 1) e).reverse ++ l, rest⟩ := by
  have hk := hp.kpos
  induction e with
  | num t =>
    intro l rest
    exact ⟨1, by simp [flat], by simpa [flat] using StepsTo.one (step_atom dflt alg P .binary l rest (lit t))⟩
  | fn1 f e _ =>
    intro l rest
    have h0 : 0 < k := by omega
    have h1 : 0 < k + 1 := by omega
    exact ⟨1, by simp [flat, h0], by
      simpa [flat, h0, h1] using StepsTo.one (step_atom dflt alg P .binary l rest _)⟩
  | fn2 g a b _ _ =>
    intro l rest
    have h0 : 0 < k := by omega
    have h1 : 0 < k + 1 := by omega
    exact ⟨1, by simp [flat, h0], by
      simpa [flat, h0, h1] using StepsTo.one (step_atom dflt alg P .binary l rest _)⟩
  | sign s e _ =>
    intro l rest
    have h0 : 1 < k := by omega
    have h1 : 1 < k + 1 := by omega
    exact ⟨1, by simp [flat, h0], by
      simpa [flat, h0, h1] using StepsTo.one (step_atom dflt alg P .binary l rest _)⟩
  | bin o x y ihx ihy =>
    intro l rest
    obtain ⟨wx, wy, lx, ly⟩ := hwf
    by_cases hlt : o.level < k
    · have h1 : o.level < k + 1 := by omega
      exact ⟨1, by simp [flat, hlt], by
        simpa [flat, hlt, h1] using StepsTo.one (step_atom dflt alg P .binary l rest _)⟩
    · by_cases heq : o.level = k
      · -- the operator of this pass: left operand is a finished chain, right operand an atom
        have h1 : o.level < k + 1 := by omega
        have fy : flat alg lit k y = [.atom (eval alg lit y)] := flat_of_lt alg lit k y (by omega)
        have fx : flat alg lit (k + 1) x = [.atom (eval alg lit x)] :=
          flat_of_lt alg lit (k + 1) x (by omega)
        obtain ⟨c1, hc1, s1⟩ := ihx wx l (tokB o :: .atom (eval alg lit y) :: rest)
        obtain ⟨row, hr, hb⟩ := binary_rows o
        have hi : isInst dflt P (idxOf dflt o.name) = true := by rw [hp.inst o]; simp [heq]
        have s2 := StepsTo.one (step_binary dflt alg P l rest (idxOf dflt o.name) []
          (eval alg lit x) (eval alg lit y) o.fn row hi hr hb)
        refine ⟨c1 + 1, by simp [flat, hlt, fy]; omega, ?_⟩
        have := StepsTo.trans s1 (by simpa [fx, tokB] using s2)
        simpa [flat, hlt, h1, fy, eval] using this
      · -- an operator of a later pass: stays
        have h1 : ¬ o.level < k + 1 := by omega
        have hi : isInst dflt P (idxOf dflt o.name) = false := by rw [hp.inst o]; simp [heq]
        obtain ⟨c1, hc1, s1⟩ := ihx wx l (tokB o :: (flat alg lit k y ++ rest))
        obtain ⟨c2, hc2, s2⟩ := ihy wy (tokB o :: ((flat alg lit (k + 1) x).reverse ++ l)) rest
        have sm := StepsTo.one (step_skip dflt alg P .binary ((flat alg lit (k + 1) x).reverse ++ l)
          (flat alg lit k y ++ rest) (idxOf dflt o.name) [] hi)
        refine ⟨c1 + 1 + c2, by simp [flat, hlt]; omega, ?_⟩
        have := StepsTo.trans (StepsTo.trans s1 (by simpa [tokB] using sm)) (by simpa [tokB] using s2)
        simpa [flat, hlt, h1, tokB] using this
  | not x ih =>
    intro l rest
    obtain ⟨wx, lx⟩ := hwf
    by_cases hlt : 6 < k
    · have h1 : 6 < k + 1 := by omega
      exact ⟨1, by simp [flat, hlt], by
        simpa [flat, hlt, h1] using StepsTo.one (step_atom dflt alg P .binary l rest _)⟩
    · have h1 : ¬ 6 < k + 1 := by have := hp.kne; omega
      obtain ⟨c2, hc2, s2⟩ := ih wx (tokN :: l) rest
      have sm := StepsTo.one (step_skip dflt alg P .binary l (flat alg lit k x ++ rest)
        (idxOf dflt "not") [] hp.inot)
      refine ⟨1 + c2, by simp [flat, hlt]; omega, ?_⟩
      have := StepsTo.trans (by simpa [tokN] using sm) (by simpa [tokN] using s2)
      simpa [flat, hlt, h1, tokN] using this

theorem binPass2 : BinPass [10] 2 :=
  ⟨fun o => (inst_binary o).1, inst_not.1, by omega, by omega⟩
theorem binPass3 : BinPass [11, 12] 3 :=
  ⟨fun o => (inst_binary o).2.1, inst_not.2.1, by omega, by omega⟩
theorem binPass4 : BinPass [13, 14] 4 :=
  ⟨fun o => (inst_binary o).2.2.1, inst_not.2.2.1, by omega, by omega⟩
theorem binPass5 : BinPass [15, 16, 18, 19, 20, 21] 5 :=
  ⟨fun o => (inst_binary o).2.2.2.1, inst_not.2.2.2.1, by omega, by omega⟩
theorem binPass7 : BinPass [22] 7 :=
  ⟨fun o => (inst_binary o).2.2.2.2.1, inst_not.2.2.2.2.1, by omega, by omega⟩
theorem binPass8 : BinPass [23] 8 :=
  ⟨fun o => (inst_binary o).2.2.2.2.2.1, inst_not.2.2.2.2.2.1, by omega, by omega⟩

/-! ### The `!` pass (step 7 of the table, level 6) -/

theorem step_not (l r : List (Tok A)) (v : A) :
    step dflt alg [17] .unary ⟨l, tokN :: .atom v :: r⟩ = .ok ⟨l, .atom (alg.un .lnot v) :: r⟩ := rfl

theorem not_pass (e : E) (hwf : e.WF) :
    ∀ (l rest : List (Tok A)), ∃ c, c ≤ (flat alg lit 6 e).length ∧
      StepsTo (step dflt alg [17] .unary) c ⟨l, flat alg lit 6 e ++ rest⟩
        ⟨(flat alg lit 7 e).reverse ++ l, rest⟩ := by
  induction e with
  | num t =>
    intro l rest
    exact ⟨1, by simp [flat], by simpa [flat] using StepsTo.one (step_atom dflt alg [17] .unary l rest (lit t))⟩
  | fn1 f e _ =>
    intro l rest
    exact ⟨1, by simp [flat], by simpa [flat] using StepsTo.one (step_atom dflt alg [17] .unary l rest _)⟩
  | fn2 g a b _ _ =>
    intro l rest
    exact ⟨1, by simp [flat], by simpa [flat] using StepsTo.one (step_atom dflt alg [17] .unary l rest _)⟩
  | sign s e _ =>
    intro l rest
    exact ⟨1, by simp [flat], by simpa [flat] using StepsTo.one (step_atom dflt alg [17] .unary l rest _)⟩
  | bin o x y ihx ihy =>
    intro l rest
    obtain ⟨wx, wy, lx, ly⟩ := hwf
    by_cases hlt : o.level < 6
    · have h1 : o.level < 7 := by omega
      exact ⟨1, by simp [flat, hlt], by
        simpa [flat, hlt, h1] using StepsTo.one (step_atom dflt alg [17] .unary l rest _)⟩
    · have h1 : ¬ o.level < 7 := by
        cases o <;> simp [B2.level] at hlt ⊢
      have hi : isInst dflt [17] (idxOf dflt o.name) = false := (inst_binary o).2.2.2.2.2.2.1
      obtain ⟨c1, hc1, s1⟩ := ihx wx l (tokB o :: (flat alg lit 6 y ++ rest))
      obtain ⟨c2, hc2, s2⟩ := ihy wy (tokB o :: ((flat alg lit 7 x).reverse ++ l)) rest
      have sm := StepsTo.one (step_skip dflt alg [17] .unary ((flat alg lit 7 x).reverse ++ l)
        (flat alg lit 6 y ++ rest) (idxOf dflt o.name) [] hi)
      refine ⟨c1 + 1 + c2, by simp [flat, hlt]; omega, ?_⟩
      have := StepsTo.trans (StepsTo.trans s1 (by simpa [tokB] using sm)) (by simpa [tokB] using s2)
      simpa [flat, hlt, h1, tokB] using this
  | not x _ =>
    intro l rest
    obtain ⟨wx, lx⟩ := hwf
    have fx : flat alg lit 6 x = [.atom (eval alg lit x)] := flat_of_lt alg lit 6 x (by omega)
    have s1 := StepsTo.one (step_not alg l rest (eval alg lit x))
    have s2 := StepsTo.one (step_atom dflt alg [17] .unary l rest (alg.un .lnot (eval alg lit x)))
    refine ⟨2, by simp [flat, fx], ?_⟩
    have := StepsTo.trans s1 s2
    simpa [flat, fx, eval] using this

/-! ### The ARGS pass (step 1 of the table, level 0) -/

def P0 : List Nat := [0, 1, 2, 3, 4, 5, 6, 7, 8, 9]

theorem step_fn1 (f : F1) (l r : List (Tok A)) (v : A) :
    step dflt alg P0 .args ⟨l, .op (idxOf dflt f.name) [some v] :: r⟩
      = .ok ⟨.atom (evalF1 alg f v) :: l, r⟩ := by
  cases f <;> rfl

theorem step_fn2 (g : F2) (l r : List (Tok A)) (v w : A) :
    step dflt alg P0 .args ⟨l, .op (idxOf dflt g.name) [some v, some w] :: r⟩
      = .ok ⟨.atom (evalF2 alg g v w) :: l, r⟩ := by
  cases g <;> rfl

theorem inst_args_sign (s : Bool) :
    isInst dflt P0 (idxOf dflt (if s then "sub" else "add")) = false := by
  cases s <;> decide

theorem args_pass (e : E) :
    ∀ (l rest : List (Tok A)), ∃ c, c ≤ (flat alg lit 0 e).length ∧
      StepsTo (step dflt alg P0 .args) c ⟨l, flat alg lit 0 e ++ rest⟩
        ⟨(flat alg lit 1 e).reverse ++ l, rest⟩ := by
  induction e with
  | num t =>
    intro l rest
    exact ⟨1, by simp [flat], by simpa [flat] using StepsTo.one (step_atom dflt alg P0 .args l rest (lit t))⟩
  | fn1 f e _ =>
    intro l rest
    exact ⟨1, by simp [flat], by simpa [flat, eval] using StepsTo.one (step_fn1 alg f l rest (eval alg lit e))⟩
  | fn2 g a b _ _ =>
    intro l rest
    exact ⟨1, by simp [flat], by
      simpa [flat, eval] using StepsTo.one (step_fn2 alg g l rest (eval alg lit a) (eval alg lit b))⟩
  | sign s x ih =>
    intro l rest
    obtain ⟨c2, hc2, s2⟩ := ih (tokS s :: l) rest
    have sm := StepsTo.one (step_skip dflt alg P0 .args l (flat alg lit 0 x ++ rest)
      (idxOf dflt (if s then "sub" else "add")) [] (inst_args_sign s))
    refine ⟨1 + c2, by simp [flat]; omega, ?_⟩
    have := StepsTo.trans (by simpa [tokS] using sm) (by simpa [tokS] using s2)
    simpa [flat, tokS] using this
  | bin o x y ihx ihy =>
    intro l rest
    have h0 : ¬ o.level < 0 := by omega
    have h1 : ¬ o.level < 1 := by cases o <;> simp [B2.level]
    have hi : isInst dflt P0 (idxOf dflt o.name) = false := (inst_binary o).2.2.2.2.2.2.2
    obtain ⟨c1, hc1, s1⟩ := ihx l (tokB o :: (flat alg lit 0 y ++ rest))
    obtain ⟨c2, hc2, s2⟩ := ihy (tokB o :: ((flat alg lit 1 x).reverse ++ l)) rest
    have sm := StepsTo.one (step_skip dflt alg P0 .args ((flat alg lit 1 x).reverse ++ l)
      (flat alg lit 0 y ++ rest) (idxOf dflt o.name) [] hi)
    refine ⟨c1 + 1 + c2, by simp [flat]; omega, ?_⟩
    have := StepsTo.trans (StepsTo.trans s1 (by simpa [tokB] using sm)) (by simpa [tokB] using s2)
    simpa [flat, h1, tokB] using this
  | not x ih =>
    intro l rest
    obtain ⟨c2, hc2, s2⟩ := ih (tokN :: l) rest
    have sm := StepsTo.one (step_skip dflt alg P0 .args l (flat alg lit 0 x ++ rest)
      (idxOf dflt "not") [] inst_not.2.2.2.2.2.2.2)
    refine ⟨1 + c2, by simp [flat]; omega, ?_⟩
    have := StepsTo.trans (by simpa [tokN] using sm) (by simpa [tokN] using s2)
    simpa [flat, tokN] using this

end SciVerif.C01
