import SciVerif.Lemmas.C01d

/-!
# C01 helper lemmas, part 5: a binary operator whose right operand is missing.
-/
namespace SciVerif.C01
open SciVerif.C01.Gen

variable {A : Type} (alg : AtomAlg A) (lit : List Char → A)

theorem step_binary_missing (P : List Nat) (o : B2) (l : List (Tok A)) (v : A)
    (hi : isInst dflt P (idxOf dflt o.name) = true) :
    step dflt alg P .binary ⟨.atom v :: l, [tokB o]⟩ = .error (⟨l, []⟩, "operand") := by
  obtain ⟨row, hr, hb⟩ := binary_rows o
  simp [step, tokB, hi, dispatch, hr, hb, runSimple, getLeft, getRight, runPuts, putTok, evalTm, tokAtom]

theorem loop_error (f : Bufs A → M A (Bufs A)) (n : Nat) (l r : List (Tok A)) (t : Tok A)
    (e : Bufs A × String) (h : f ⟨l, t :: r⟩ = .error e) : loop f (n + 1) ⟨l, t :: r⟩ = .error e := by
  simp [loop, h]

/-- A pass over `flat k e ++ [o]`: the trailing operator either stays (not of this pass) or,
    if it is a binary operator of this pass, finds no right operand and raises. -/
theorem trailing (P : List Nat) (ot : Otype) (k : Nat) (e : E) (o : B2)
    (hp : ∃ c, c ≤ (flat alg lit k e).length ∧
      StepsTo (step dflt alg P ot) c ⟨[], flat alg lit k e ++ [tokB o]⟩
        ⟨(flat alg lit (k + 1) e).reverse ++ [], [tokB o]⟩) :
    (isInst dflt P (idxOf dflt o.name) = false →
      operate dflt alg P ot ⟨[], flat alg lit k e ++ [tokB o]⟩
        = .ok ⟨[], flat alg lit (k + 1) e ++ [tokB o]⟩) ∧
    (isInst dflt P (idxOf dflt o.name) = true → ot = .binary →
      ∃ b, operate dflt alg P ot ⟨[], flat alg lit k e ++ [tokB o]⟩ = .error (b, "operand")) := by
  obtain ⟨c, hc, st⟩ := hp
  constructor
  · intro hi
    have sk := StepsTo.one (step_skip dflt alg P ot ((flat alg lit (k + 1) e).reverse ++ []) []
      (idxOf dflt o.name) [] hi)
    have := StepsTo.trans st (by simpa [tokB] using sk)
    exact operate_of_steps dflt alg P ot _ _ (c + 1) (by simp; omega) (by simpa [tokB] using this)
  · intro hi hot
    subst hot
    obtain ⟨pre, v, hl⟩ := flat_last alg lit (k + 1) (by omega) e
    refine ⟨⟨pre.reverse, []⟩, ?_⟩
    unfold operate
    have hlen : (flat alg lit k e ++ [tokB (A := A) o]).length = (flat alg lit k e).length + 1 := by simp
    have e1 : 2 * (flat alg lit k e ++ [tokB (A := A) o]).length + 2
        = ((2 * (flat alg lit k e).length + 3 - c) + 1) + c := by rw [hlen]; omega
    simp only []
    rw [e1, st, hl]
    simp only [List.reverse_append, List.reverse_cons, List.reverse_nil, List.nil_append,
      List.singleton_append, List.append_nil]
    rw [loop_error _ _ _ _ _ _ (step_binary_missing alg P o pre.reverse v hi)]

end SciVerif.C01
