import SciVerif.Lemmas.C13i
/-!
Casts of scalar literals: the value stored is the number / boolean / string denoted by the text.
-/
namespace SciVerif.C13

def signText : Option Bool → Str
  | none => []
  | some false => ['+']
  | some true => ['-']

def signNeg : Option Bool → Bool
  | some true => true
  | _ => false

theorem digit_plain {c : Char} (h : c.isDigit = true) :
    (c == '_' || isWs c) = false ∧ c ≠ '+' ∧ c ≠ '-' ∧ c ≠ '.' ∧ c ≠ 'e' ∧ c ≠ 'E' := by
  have hne : ∀ d : Char, d.isDigit = false → c ≠ d := by
    intro d hd e; rw [e] at h; rw [h] at hd; cases hd
  refine ⟨?_, hne '+' (by decide), hne '-' (by decide), hne '.' (by decide), hne 'e' (by decide), hne 'E' (by decide)⟩
  simp only [isWs, Bool.or_eq_false_iff, beq_eq_false_iff_ne]
  exact ⟨hne '_' (by decide), ⟨⟨⟨⟨⟨hne ' ' (by decide), hne '\t' (by decide)⟩, hne '\n' (by decide)⟩,
    hne '\r' (by decide)⟩, hne '\x0b' (by decide)⟩, hne '\x0c' (by decide)⟩⟩

theorem allDigits_iff {d : Str} (h : allDigits d = true) : d ≠ [] ∧ ∀ c ∈ d, c.isDigit = true := by
  simp only [allDigits, Bool.and_eq_true, List.all_eq_true] at h
  refine ⟨?_, h.2⟩
  intro e; rw [e] at h; simp at h

theorem splitSign_sign (sg : Option Bool) (d : Str) (hd : d = [] ∨ ∃ c r, d = c :: r ∧ c ≠ '+' ∧ c ≠ '-') :
    splitSign (signText sg ++ d) = (signNeg sg, d) := by
  cases sg with
  | none =>
    simp only [signText, List.nil_append, signNeg]
    rcases hd with rfl | ⟨c, r, rfl, h1, h2⟩
    · rfl
    · unfold splitSign
      split
      · rename_i heq; exact absurd (List.cons.inj heq).1 h2
      · rename_i heq; exact absurd (List.cons.inj heq).1 h1
      · rfl
  | some b => cases b <;> rfl

theorem hasOdd_append (a b : Str) : hasOdd (a ++ b) = (hasOdd a || hasOdd b) := by simp [hasOdd]

theorem hasOdd_sign (sg : Option Bool) : hasOdd (signText sg) = false := by
  cases sg with
  | none => rfl
  | some b => cases b <;> decide

theorem hasOdd_digits (d : Str) (h : ∀ c ∈ d, c.isDigit = true) : hasOdd d = false := by
  simp only [hasOdd, List.any_eq_false]
  intro c hc
  simp [(digit_plain (h c hc)).1]

/-- an integer literal: optional sign and digits -/
theorem castInt_lit (sg : Option Bool) (d : Str) (hd : allDigits d = true) :
    castInt (signText sg ++ d) =
      .ok (if signNeg sg then -(digitsToNat d : Int) else (digitsToNat d : Int)) := by
  obtain ⟨hne, hall⟩ := allDigits_iff hd
  have hodd : hasOdd (signText sg ++ d) = false := by
    rw [hasOdd_append, hasOdd_sign, hasOdd_digits d hall]; rfl
  have hhead : d = [] ∨ ∃ c r, d = c :: r ∧ c ≠ '+' ∧ c ≠ '-' := by
    cases d with
    | nil => exact .inl rfl
    | cons c r =>
      have := digit_plain (hall c (by simp))
      exact .inr ⟨c, r, rfl, this.2.1, this.2.2.1⟩
  simp only [castInt, hodd, Bool.false_eq_true, if_false, splitSign_sign sg d hhead, hd, if_true]

/-- a float literal as written -/
structure FloatD where
  sg : Option Bool := none
  ip : Str                                   -- digits before the point (may be empty: `.5`)
  fp : Option Str := none                    -- `some f`: a point followed by the digits `f` (may be empty: `5.`)
  ex : Option (Bool × Option Bool × Str) := none   -- capital `E`?, sign, digits of the exponent

def FloatD.mantText (f : FloatD) : Str := f.ip ++ (match f.fp with | some x => '.' :: x | none => [])

def FloatD.expText (f : FloatD) : Str :=
  match f.ex with
  | some (cap, es, ed) => (if cap then 'E' else 'e') :: (signText es ++ ed)
  | none => []

def FloatD.render (f : FloatD) : Str := signText f.sg ++ (f.mantText ++ f.expText)

def FloatD.Ok (f : FloatD) : Prop :=
  (∀ c ∈ f.ip, c.isDigit = true) ∧ (∀ x, f.fp = some x → ∀ c ∈ x, c.isDigit = true) ∧
  (f.ip ≠ [] ∨ ∃ x, f.fp = some x ∧ x ≠ []) ∧
  (∀ cap es ed, f.ex = some (cap, es, ed) → allDigits ed = true ∧ digitsToNat ed ≤ 400)

/-- the rational number the literal denotes -/
def FloatD.value (f : FloatD) : Rat :=
  let m : Rat := (digitsToNat f.ip : Rat) +
    (match f.fp with | some x => (digitsToNat x : Rat) / pow10 x.length | none => 0)
  let signed : Rat := if signNeg f.sg then -m else m
  match f.ex with
  | some (_, es, ed) => if signNeg es then signed / pow10 (digitsToNat ed) else signed * pow10 (digitsToNat ed)
  | none => signed

theorem parseMantissa_lit (f : FloatD) (hf : f.Ok) :
    parseMantissa f.mantText =
      some ((digitsToNat f.ip : Rat) + (match f.fp with | some x => (digitsToNat x : Rat) / pow10 x.length | none => 0)) := by
  obtain ⟨hip, hfp, hne, _⟩ := hf
  cases hfpc : f.fp with
  | none =>
    have hipne : f.ip ≠ [] := by
      rcases hne with h | ⟨x, hx, _⟩
      · exact h
      · rw [hfpc] at hx; cases hx
    simp only [FloatD.mantText, hfpc, List.append_nil, parseMantissa]
    have htw : f.ip.takeWhile Char.isDigit = f.ip := by simpa using takeWhile_append_of_all f.ip [] hip (.inl rfl)
    have hdw : f.ip.dropWhile Char.isDigit = [] := by simpa using dropWhile_append_of_all f.ip [] hip (.inl rfl)
    rw [htw, hdw]
    have : f.ip.isEmpty = false := by cases hh : f.ip with | nil => exact absurd hh hipne | cons _ _ => rfl
    simp only [this, Bool.false_eq_true, if_false, Option.some.injEq]
    exact (Rat.add_zero _).symm
  | some x =>
    have hx := hfp x hfpc
    simp only [FloatD.mantText, hfpc, parseMantissa]
    have hb : ('.' :: x) = [] ∨ ∃ c r, ('.' :: x) = c :: r ∧ Char.isDigit c = false := .inr ⟨'.', x, rfl, by decide⟩
    rw [takeWhile_append_of_all f.ip _ hip hb, dropWhile_append_of_all f.ip _ hip hb]
    have hall : x.all Char.isDigit = true := List.all_eq_true.mpr hx
    have hnb : (f.ip.isEmpty && x.isEmpty) = false := by
      rcases hne with h | ⟨y, hy, hyne⟩
      · cases hh : f.ip with | nil => exact absurd hh h | cons _ _ => rfl
      · rw [hfpc] at hy; cases hy
        cases hh : x with | nil => exact absurd hh hyne | cons _ _ => simp
    simp [hall, hnb]

/-- `float(text)`: sign, mantissa with optional point, optional exponent — the value is the number denoted -/
theorem castFloat_lit (f : FloatD) (hf : f.Ok) : castFloat f.render = .ok f.value := by
  have hf' := hf
  obtain ⟨hip, hfp, hne, hex⟩ := hf
  -- characters of the mantissa
  have hmant : ∀ c ∈ f.mantText, (c.isDigit = true ∨ c = '.') := by
    intro c hc
    simp only [FloatD.mantText, List.mem_append] at hc
    rcases hc with h | h
    · exact .inl (hip c h)
    · cases hfpc : f.fp with
      | none => rw [hfpc] at h; cases h
      | some x =>
        rw [hfpc] at h
        rcases List.mem_cons.mp h with rfl | h
        · exact .inr rfl
        · exact .inl (hfp x hfpc c h)
  have hmant_ne : f.mantText ≠ [] := by
    simp only [FloatD.mantText]
    rcases hne with h | ⟨x, hx, _⟩
    · intro e; exact h (List.append_eq_nil_iff.mp e).1
    · rw [hx]; simp
  have hp : ∀ c ∈ f.mantText, (fun c : Char => c != 'e' && c != 'E') c = true := by
    intro c hc
    rcases hmant c hc with h | rfl
    · have := digit_plain h; simp [this.2.2.2.2.1, this.2.2.2.2.2]
    · decide
  have hexp_head : f.expText = [] ∨ ∃ c r, f.expText = c :: r ∧ (fun c : Char => c != 'e' && c != 'E') c = false := by
    simp only [FloatD.expText]
    cases f.ex with
    | none => exact .inl rfl
    | some t =>
      obtain ⟨cap, es, ed⟩ := t
      cases cap
      · exact .inr ⟨'e', _, rfl, by decide⟩
      · exact .inr ⟨'E', _, rfl, by decide⟩
  have hodd : hasOdd f.render = false := by
    simp only [FloatD.render, hasOdd_append, hasOdd_sign, Bool.false_or]
    have h1 : hasOdd f.mantText = false := by
      simp only [hasOdd, List.any_eq_false]
      intro c hc
      rcases hmant c hc with h | rfl
      · simp [(digit_plain h).1]
      · decide
    have h2 : hasOdd f.expText = false := by
      simp only [FloatD.expText]
      cases hexc : f.ex with
      | none => rfl
      | some t =>
        obtain ⟨cap, es, ed⟩ := t
        obtain ⟨hed, _⟩ := hex cap es ed hexc
        have : hasOdd ((if cap = true then 'E' else 'e') :: (signText es ++ ed)) =
            (hasOdd [if cap = true then 'E' else 'e'] || (hasOdd (signText es) || hasOdd ed)) := by
          simp [hasOdd]
        rw [this, hasOdd_sign, hasOdd_digits ed (allDigits_iff hed).2]
        cases cap <;> decide
    rw [h1, h2]; rfl
  have hhead : (f.mantText ++ f.expText) = [] ∨ ∃ c r, (f.mantText ++ f.expText) = c :: r ∧ c ≠ '+' ∧ c ≠ '-' := by
    cases hm : f.mantText with
    | nil => exact absurd hm hmant_ne
    | cons c r =>
      right
      refine ⟨c, r ++ f.expText, rfl, ?_⟩
      rcases hmant c (by rw [hm]; simp) with h | rfl
      · have := digit_plain h; exact ⟨this.2.1, this.2.2.1⟩
      · exact ⟨by decide, by decide⟩
  unfold castFloat
  simp only [hodd, Bool.false_eq_true, if_false]
  simp only [FloatD.render, splitSign_sign f.sg _ hhead,
    takeWhile_append_of_all f.mantText f.expText hp hexp_head,
    dropWhile_append_of_all f.mantText f.expText hp hexp_head, parseMantissa_lit f hf']
  simp only [FloatD.expText, FloatD.value]
  cases hexc : f.ex with
  | none => rfl
  | some t =>
    obtain ⟨cap, es, ed⟩ := t
    obtain ⟨hed, h400⟩ := hex cap es ed hexc
    have hedh : ed = [] ∨ ∃ c r, ed = c :: r ∧ c ≠ '+' ∧ c ≠ '-' := by
      cases ed with
      | nil => exact .inl rfl
      | cons c r =>
        have := digit_plain ((allDigits_iff hed).2 c (by simp))
        exact .inr ⟨c, r, rfl, this.2.1, this.2.2.1⟩
    have hng : ¬ digitsToNat ed > 400 := by omega
    simp only [splitSign_sign es ed hedh, hed, if_true, hng, if_false]


theorem ne_none_of_head (s : Str) (h : s.head? ≠ some 'n') : (s == "none".toList) = false := by
  have hn : "none".toList = ['n', 'o', 'n', 'e'] := by decide
  rw [hn]
  cases s with
  | nil => rfl
  | cons c r =>
    have hc : c ≠ 'n' := by simpa using h
    have : (c == 'n') = false := by simp [hc]
    show (c == 'n' && r == ['o', 'n', 'e']) = false
    simp [this]

theorem floatD_head (f : FloatD) (hf : f.Ok) : f.render.head? ≠ some 'n' := by
  obtain ⟨hip, hfp, hne, _⟩ := hf
  cases hsg : f.sg with
  | some b => cases b <;> simp [FloatD.render, signText, hsg]
  | none =>
    simp only [FloatD.render, signText, hsg, List.nil_append, FloatD.mantText]
    cases hipc : f.ip with
    | cons c r =>
      have := hip c (by rw [hipc]; simp)
      simp only [List.cons_append, List.head?_cons]
      intro e
      rw [Option.some.inj e] at this
      exact absurd this (by decide)
    | nil =>
      rcases hne with h | ⟨x, hx, _⟩
      · exact absurd hipc h
      · simp [hx]

theorem intLit_head (sg : Option Bool) (d : Str) (hd : allDigits d = true) : (signText sg ++ d).head? ≠ some 'n' := by
  obtain ⟨hne, hall⟩ := allDigits_iff hd
  cases sg with
  | some b => cases b <;> simp [signText]
  | none =>
    simp only [signText, List.nil_append]
    cases d with
    | nil => exact absurd rfl hne
    | cons c r =>
      have := hall c (by simp)
      simp only [List.head?_cons]
      intro e
      rw [Option.some.inj e] at this
      exact absurd this (by decide)

end SciVerif.C13
