import SciVerif.Lemmas.C10g

/-! C10: `SubstanceSolver.preprocess` leaves explicit solver text unchanged
    (the four scanners are the identity on `renderExplicit f`). -/
set_option linter.unusedSimpArgs false
set_option linter.unusedVariables false
namespace SciVerif.C10

/-- what may follow a complete item in explicit text: the end, a closing parenthesis, or one of
    the operator symbols ` + ` / ` * ` -/
def StopR (rest : Str) : Prop :=
  rest = [] ∨ (∃ r, rest = ')' :: r) ∨ (∃ x r, rest = ' ' :: x :: r ∧ (x = '+' ∨ x = '*'))

/-- characters at which the species pattern cannot start -/
def Inert (c : Char) : Prop := isUp c = false ∧ c ≠ '['

instance : DecidablePred Inert := fun c => by unfold Inert; infer_instance

/-- a species text of the documented notation, as the scanners see it: it starts with a
    non-digit, continues with characters at which the species pattern cannot start, contains no
    blank / parenthesis / comma / `*`, and the species pattern applied to it (followed by the end,
    `)` or an operator symbol) matches exactly this text — one capital, no count. -/
def SpeciesText (s : Str) : Prop :=
  (∃ c0 t, s = c0 :: t ∧ isDig c0 = false ∧ ∀ c ∈ t, Inert c) ∧ Plain s ∧ (∀ c ∈ s, c ≠ '*') ∧
  ∀ rest, StopR rest → ∃ k sym br, matchP (s ++ rest) = some (k, sym, br, [], rest) ∧ k ≤ 1 ∧ sym ++ br = s

theorem matchP_none (c : Char) (r : Str) (h : Inert c) : matchP (c :: r) = none := by
  obtain ⟨h1, h2⟩ := h
  unfold matchP
  simp only [h1, Bool.false_eq_true, if_false]
  split
  · rename_i heq
    simp only [List.cons.injEq] at heq
    exact absurd heq.1 h2
  · rfl

theorem startsP_inert (c : Char) (r : Str) (h : Inert c) : startsP (c :: r) = false := by
  simp [startsP, matchP_none c r h]

/-! ### pass 4 -/

def I4 (w : Str) : Prop := ∀ fuel, pass4 fuel w = w

theorem I4_nil : I4 [] := by intro fuel; cases fuel <;> rfl

theorem I4_cons (c : Char) (r : Str) (hc : c ≠ ')') (h : I4 r) : I4 (c :: r) := by
  intro fuel
  cases fuel with
  | zero => rfl
  | succ n => simp [pass4, hc, h n]

theorem I4_tail (c : Char) (r : Str) (hc : c ≠ ')') (h : I4 (c :: r)) : I4 r := by
  intro fuel
  have := h (fuel + 1)
  simpa [pass4, hc] using this

theorem I4_run (w rest : Str) (hw : ∀ c ∈ w, c ≠ ')') (h : I4 rest) : I4 (w ++ rest) := by
  induction w with
  | nil => exact h
  | cons c t ih => exact I4_cons c _ (hw c (by simp)) (ih (fun x hx => hw x (by simp [hx])))

theorem I4_rparen (rest : Str) (hs : StopR rest) (h : I4 rest) : I4 (')' :: rest) := by
  intro fuel
  cases fuel with
  | zero => rfl
  | succ n =>
    rcases hs with rfl | ⟨r, rfl⟩ | ⟨x, r, rfl, hx⟩
    · simp [pass4, List.span_eq_takeWhile_dropWhile, I4_nil n]
    · have := h n
      simp [pass4, List.span_eq_takeWhile_dropWhile, isDig, isWs, notSpec4, this]
    · have h1 : I4 (x :: r) := I4_tail ' ' _ (by decide) h
      have := h1 n
      rcases hx with rfl | rfl <;>
        simp [pass4, List.span_eq_takeWhile_dropWhile, isDig, isWs, notSpec4, this]

theorem stopR_mul (w : Str) : StopR (symMul ++ w) := Or.inr (Or.inr ⟨'*', ' ' :: w, rfl, Or.inr rfl⟩)
theorem stopR_add (w : Str) : StopR (symAdd ++ w) := Or.inr (Or.inr ⟨'+', ' ' :: w, rfl, Or.inl rfl⟩)
theorem stopR_rparen (w : Str) : StopR (')' :: w) := Or.inr (Or.inl ⟨w, rfl⟩)

theorem plainC_ne_rparen {c : Char} (h : PlainC c) : c ≠ ')' := h.2.1

theorem I4_rE (f : F) (hs : f.spAll SpeciesText) : ∀ rest, I4 rest → StopR rest → I4 (renderExplicit f ++ rest) := by
  induction f with
  | sp s => intro rest h _; exact I4_run s rest (fun c hc => plainC_ne_rparen (hs.2.1 c hc)) h
  | count g n ih =>
    intro rest h hst
    simp only [renderExplicit, List.append_assoc]
    apply ih hs _ _ (stopR_mul _)
    apply I4_run symMul _ (by decide)
    exact I4_run _ _ (fun c hc => plainC_ne_rparen (digitsOf_plain n c hc)) h
  | mulx g n ih =>
    intro rest h hst
    simp only [renderExplicit, List.append_assoc]
    apply ih hs _ _ (stopR_mul _)
    apply I4_run symMul _ (by decide)
    exact I4_run _ _ (fun c hc => plainC_ne_rparen (digitsOf_plain n c hc)) h
  | group g ih =>
    intro rest h hst
    simp only [renderExplicit, List.cons_append, List.append_assoc, List.singleton_append]
    apply I4_cons _ _ (by decide)
    exact ih hs _ (I4_rparen rest hst h) (stopR_rparen _)
  | seq ws a b iha ihb =>
    intro rest h hst
    simp only [renderExplicit, List.append_assoc]
    apply iha hs.1 _ _ (stopR_add _)
    apply I4_run symAdd _ (by decide)
    exact ihb hs.2 rest h hst
  | plus a b iha ihb =>
    intro rest h hst
    simp only [renderExplicit, List.append_assoc]
    apply iha hs.1 _ _ (stopR_add _)
    apply I4_run symAdd _ (by decide)
    exact ihb hs.2 rest h hst


theorem inert_of_isDig (c : Char) (h : isDig c = true) : Inert c := by
  simp only [isDig, Bool.and_eq_true, decide_eq_true_eq] at h
  have h2 : c.toNat ≤ 57 := h.2
  constructor
  · simp only [isUp, Bool.and_eq_false_iff, decide_eq_false_iff_not]
    left
    intro ha
    have : (65 : Nat) ≤ c.toNat := ha
    omega
  · rintro rfl
    exact absurd h2 (by decide)

theorem inert_digits (n : Nat) : ∀ c ∈ digitsOf n, Inert c :=
  fun c hc => inert_of_isDig c (digitsOf_all n c hc).1

theorem inert_symMul : ∀ c ∈ symMul, Inert c := by decide
theorem inert_symAdd : ∀ c ∈ symAdd, Inert c := by decide

/-! ### pass 2 -/

def I2 (w : Str) : Prop := ∀ fuel, pass2 fuel w = w

theorem I2_nil : I2 [] := by intro fuel; cases fuel <;> rfl

theorem I2_inert (c : Char) (r : Str) (hc : Inert c) (h : I2 r) : I2 (c :: r) := by
  intro fuel
  cases fuel with
  | zero => rfl
  | succ n => simp [pass2, matchP_none c r hc, h n]

theorem I2_run (w rest : Str) (hw : ∀ c ∈ w, Inert c) (h : I2 rest) : I2 (w ++ rest) := by
  induction w with
  | nil => exact h
  | cons c t ih => exact I2_inert c _ (hw c (by simp)) (ih (fun x hx => hw x (by simp [hx])))

theorem I2_species (s rest : Str) (hs : SpeciesText s) (hst : StopR rest) (h : I2 rest) : I2 (s ++ rest) := by
  obtain ⟨⟨c0, t, rfl, _, _⟩, _, _, hm⟩ := hs
  obtain ⟨k, sym, br, hmatch, _, hsb⟩ := hm rest hst
  intro fuel
  cases fuel with
  | zero => rfl
  | succ n =>
    rw [List.cons_append] at hmatch ⊢
    simp only [pass2, hmatch, List.isEmpty_nil, if_true, List.append_nil, h n]
    rw [hsb]; rfl

theorem I2_rE (f : F) (hs : f.spAll SpeciesText) : ∀ rest, I2 rest → StopR rest → I2 (renderExplicit f ++ rest) := by
  induction f with
  | sp s => intro rest h hst; exact I2_species s rest hs hst h
  | count g n ih =>
    intro rest h hst
    simp only [renderExplicit, List.append_assoc]
    exact ih hs _ (I2_run symMul _ inert_symMul (I2_run _ _ (inert_digits n) h)) (stopR_mul _)
  | mulx g n ih =>
    intro rest h hst
    simp only [renderExplicit, List.append_assoc]
    exact ih hs _ (I2_run symMul _ inert_symMul (I2_run _ _ (inert_digits n) h)) (stopR_mul _)
  | group g ih =>
    intro rest h hst
    simp only [renderExplicit, List.cons_append, List.append_assoc, List.singleton_append]
    exact I2_inert _ _ (by decide) (ih hs _ (I2_inert _ _ (by decide) h) (stopR_rparen _))
  | seq ws a b iha ihb =>
    intro rest h hst
    simp only [renderExplicit, List.append_assoc]
    exact iha hs.1 _ (I2_run symAdd _ inert_symAdd (ihb hs.2 rest h hst)) (stopR_add _)
  | plus a b iha ihb =>
    intro rest h hst
    simp only [renderExplicit, List.append_assoc]
    exact iha hs.1 _ (I2_run symAdd _ inert_symAdd (ihb hs.2 rest h hst)) (stopR_add _)

/-! ### pass 1 -/

def N1 (w : Str) : Prop := pass1Step w = none

theorem N1_nil : N1 [] := rfl

theorem N1_inert (c : Char) (r : Str) (hc : Inert c) (h : N1 r) : N1 (c :: r) := by
  simp [N1, pass1Step, pass1At, matchP_none c r hc, h] at h ⊢
  exact h

theorem N1_run (w rest : Str) (hw : ∀ c ∈ w, Inert c) (h : N1 rest) : N1 (w ++ rest) := by
  induction w with
  | nil => exact h
  | cons c t ih => exact N1_inert c _ (hw c (by simp)) (ih (fun x hx => hw x (by simp [hx])))

theorem startsP_after_stop (rest : Str) (hst : StopR rest) : startsP (rest.dropWhile isWs) = false := by
  rcases hst with rfl | ⟨r, rfl⟩ | ⟨x, r, rfl, hx⟩
  · rfl
  · simp [List.dropWhile_cons, isWs, startsP_inert ')' r (by decide)]
  · rcases hx with rfl | rfl
    · simp [List.dropWhile_cons, isWs, startsP_inert '+' r (by decide)]
    · simp [List.dropWhile_cons, isWs, startsP_inert '*' r (by decide)]

theorem N1_species (s rest : Str) (hs : SpeciesText s) (hst : StopR rest) (h : N1 rest) : N1 (s ++ rest) := by
  obtain ⟨⟨c0, t, rfl, _, ht⟩, _, _, hm⟩ := hs
  obtain ⟨k, sym, br, hmatch, hk, hsb⟩ := hm rest hst
  have hk2 : ¬ (k ≥ 2) := by omega
  have htail : N1 (t ++ rest) := N1_run t rest ht h
  rw [List.cons_append] at hmatch ⊢
  simp only [N1, pass1Step, pass1At, hmatch, startsP_after_stop rest hst, hk2] at htail ⊢
  simp [htail]

theorem N1_rE (f : F) (hs : f.spAll SpeciesText) : ∀ rest, N1 rest → StopR rest → N1 (renderExplicit f ++ rest) := by
  induction f with
  | sp s => intro rest h hst; exact N1_species s rest hs hst h
  | count g n ih =>
    intro rest h hst
    simp only [renderExplicit, List.append_assoc]
    exact ih hs _ (N1_run symMul _ inert_symMul (N1_run _ _ (inert_digits n) h)) (stopR_mul _)
  | mulx g n ih =>
    intro rest h hst
    simp only [renderExplicit, List.append_assoc]
    exact ih hs _ (N1_run symMul _ inert_symMul (N1_run _ _ (inert_digits n) h)) (stopR_mul _)
  | group g ih =>
    intro rest h hst
    simp only [renderExplicit, List.cons_append, List.append_assoc, List.singleton_append]
    exact N1_inert _ _ (by decide) (ih hs _ (N1_inert _ _ (by decide) h) (stopR_rparen _))
  | seq ws a b iha ihb =>
    intro rest h hst
    simp only [renderExplicit, List.append_assoc]
    exact iha hs.1 _ (N1_run symAdd _ inert_symAdd (ihb hs.2 rest h hst)) (stopR_add _)
  | plus a b iha ihb =>
    intro rest h hst
    simp only [renderExplicit, List.append_assoc]
    exact iha hs.1 _ (N1_run symAdd _ inert_symAdd (ihb hs.2 rest h hst)) (stopR_add _)

theorem pass1_of_N1 (w : Str) (h : N1 w) (fuel : Nat) : pass1 fuel w = w := by
  cases fuel with
  | zero => rfl
  | succ n => simp [pass1, show pass1Step w = none from h]


/-! ### pass 3 -/

def I3 (w : Str) : Prop := ∀ fuel, pass3 fuel w = w

/-- the look-ahead of pass 3 from the head of `w` does not end at an opening parenthesis -/
def look3 (w : Str) : Bool :=
  match (w.dropWhile notSpec3).dropWhile isWs with
  | '(' :: _ => false
  | _ => true

theorem I3_nil : I3 [] := by intro fuel; cases fuel <;> rfl

theorem I3_copy (c : Char) (r : Str) (hl : look3 (c :: r) = true) (h : I3 r) : I3 (c :: r) := by
  intro fuel
  cases fuel with
  | zero => rfl
  | succ n =>
    simp only [pass3, List.span_eq_takeWhile_dropWhile]
    simp only [look3] at hl
    split
    · rename_i r3 heq
      rw [heq] at hl
      simp at hl
    · rw [h n]

theorem look3_nonspec (c : Char) (r : Str) (hc : notSpec3 c = true) : look3 (c :: r) = look3 r := by
  simp [look3, List.dropWhile_cons, hc]

theorem look3_stop (c : Char) (r : Str) (h1 : notSpec3 c = false) (h2 : isWs c = false) (h3 : c ≠ '(') :
    look3 (c :: r) = true := by
  simp only [look3, List.dropWhile_cons, h1, h2, Bool.false_eq_true, if_false]
  split
  · rename_i heq
    simp only [List.cons.injEq] at heq
    exact absurd heq.1 h3
  · rfl

theorem look3_ws_stop (x : Char) (r : Str) (h2 : isWs x = false) (h3 : x ≠ '(') :
    look3 (' ' :: x :: r) = true := by
  have e1 : notSpec3 ' ' = false := by decide
  have e2 : isWs ' ' = true := by decide
  simp only [look3, List.dropWhile_cons, e1, e2, h2, Bool.false_eq_true, if_false, if_true]
  split
  · rename_i heq
    simp only [List.cons.injEq] at heq
    exact absurd heq.1 h3
  · rfl

theorem look3_run (w rest : Str) (hw : ∀ c ∈ w, c ≠ '(' ∧ isWs c = false) (h : look3 rest = true) :
    look3 (w ++ rest) = true := by
  induction w with
  | nil => exact h
  | cons c t ih =>
    have hc := hw c (by simp)
    have iht := ih (fun x hx => hw x (by simp [hx]))
    by_cases hn : notSpec3 c = true
    · rw [List.cons_append, look3_nonspec c _ hn]; exact iht
    · exact look3_stop c _ (by simpa using hn) hc.2 hc.1

theorem I3_run (w rest : Str) (hw : ∀ c ∈ w, c ≠ '(' ∧ isWs c = false) (hl : look3 rest = true)
    (h : I3 rest) : I3 (w ++ rest) := by
  induction w with
  | nil => exact h
  | cons c t ih =>
    have iht := ih (fun x hx => hw x (by simp [hx]))
    exact I3_copy c _ (look3_run (c :: t) rest hw hl) iht

theorem I3_lparen (r : Str) (h : I3 r) : I3 ('(' :: r) := by
  intro fuel
  cases fuel with
  | zero => rfl
  | succ n =>
    have e1 : notSpec3 '(' = false := by decide
    have e2 : isWs '(' = false := by decide
    simp [pass3, List.span_eq_takeWhile_dropWhile, List.takeWhile_cons, List.dropWhile_cons, e1, e2, h n]

theorem I3_lparen_tail (r : Str) (h : I3 ('(' :: r)) : I3 r := by
  intro fuel
  have := h (fuel + 1)
  have e1 : notSpec3 '(' = false := by decide
  have e2 : isWs '(' = false := by decide
  simpa [pass3, List.span_eq_takeWhile_dropWhile, List.takeWhile_cons, List.dropWhile_cons, e1, e2] using this

/-- a blank in front of a text that does not itself start with a blank -/
theorem I3_ws (w : Str) (h : I3 w) (hw : ∀ a t, w = a :: t → isWs a = false) : I3 (' ' :: w) := by
  have e1 : notSpec3 ' ' = false := by decide
  have e2 : isWs ' ' = true := by decide
  cases w with
  | nil => exact I3_copy ' ' [] (by decide) h
  | cons a t =>
    have ha := hw a t rfl
    by_cases hp : a = '('
    · subst hp
      have ht := I3_lparen_tail t h
      intro fuel
      cases fuel with
      | zero => rfl
      | succ n =>
        simp [pass3, List.span_eq_takeWhile_dropWhile, List.takeWhile_cons, List.dropWhile_cons, e1, e2, isWs, ht n]
    · exact I3_copy ' ' _ (look3_ws_stop a t ha hp) h

theorem edge_rE' (f : F) (hs : f.spAll SpeciesText) : EdgeOK (renderExplicit f) := by
  induction f with
  | sp s =>
    obtain ⟨⟨c0, t, rfl, _, _⟩, hp, _, _⟩ := hs
    exact edge_of_plain (c0 :: t) (by simp) hp
  | count f n ih =>
    have := edge_append _ symMul _ (ih hs) (edge_of_plain _ (digitsOf_ne_nil n) (digitsOf_plain n))
    simpa [renderExplicit] using this
  | mulx f n ih =>
    have := edge_append _ symMul _ (ih hs) (edge_of_plain _ (digitsOf_ne_nil n) (digitsOf_plain n))
    simpa [renderExplicit] using this
  | group f ih =>
    exact ⟨⟨'(', _, rfl, by decide⟩, ⟨')', (renderExplicit f).reverse ++ ['('], by simp [renderExplicit], by decide⟩⟩
  | seq ws a b iha ihb =>
    have := edge_append _ symAdd _ (iha hs.1) (ihb hs.2)
    simpa [renderExplicit] using this
  | plus a b iha ihb =>
    have := edge_append _ symAdd _ (iha hs.1) (ihb hs.2)
    simpa [renderExplicit] using this

theorem plain_look {w : Str} (h : Plain w) : ∀ c ∈ w, c ≠ '(' ∧ isWs c = false :=
  fun c hc => ⟨(h c hc).1, (h c hc).2.2.2⟩

/-- `rest` after an operator symbol -/
theorem I3_op (x : Char) (hx : x = '+' ∨ x = '*') (w : Str) (h : I3 w)
    (hw : ∀ a t, w = a :: t → isWs a = false) : I3 (' ' :: x :: ' ' :: w) ∧ look3 (' ' :: x :: ' ' :: w) = true := by
  have hx2 : isWs x = false := by rcases hx with rfl | rfl <;> decide
  have hx3 : x ≠ '(' := by rcases hx with rfl | rfl <;> decide
  have hx1 : notSpec3 x = false := by rcases hx with rfl | rfl <;> decide
  have h1 := I3_ws w h hw
  have h2 : I3 (x :: ' ' :: w) := I3_copy x _ (look3_stop x _ hx1 hx2 hx3) h1
  exact ⟨I3_ws _ h2 (fun a t e => by simp only [List.cons.injEq] at e; rw [← e.1]; exact hx2),
    look3_ws_stop x _ hx2 hx3⟩

theorem I3_rE (f : F) (hs : f.spAll SpeciesText) : ∀ rest, I3 rest → look3 rest = true →
    I3 (renderExplicit f ++ rest) := by
  induction f with
  | sp s => intro rest h hl; exact I3_run s rest (plain_look hs.2.1) hl h
  | count g n ih =>
    intro rest h hl
    simp only [renderExplicit, List.append_assoc]
    have hd : I3 (digitsOf n ++ rest) := I3_run _ rest (plain_look (digitsOf_plain n)) hl h
    have hhead : ∀ a t, digitsOf n ++ rest = a :: t → isWs a = false := by
      intro a t e
      cases hdn : digitsOf n with
      | nil => exact absurd hdn (digitsOf_ne_nil n)
      | cons d ds =>
        rw [hdn] at e
        simp only [List.cons_append, List.cons.injEq] at e
        rw [← e.1]
        exact (digitsOf_plain n d (by rw [hdn]; simp)).2.2.2
    obtain ⟨h1, h2⟩ := I3_op '*' (Or.inr rfl) _ hd hhead
    exact ih hs _ h1 h2
  | mulx g n ih =>
    intro rest h hl
    simp only [renderExplicit, List.append_assoc]
    have hd : I3 (digitsOf n ++ rest) := I3_run _ rest (plain_look (digitsOf_plain n)) hl h
    have hhead : ∀ a t, digitsOf n ++ rest = a :: t → isWs a = false := by
      intro a t e
      cases hdn : digitsOf n with
      | nil => exact absurd hdn (digitsOf_ne_nil n)
      | cons d ds =>
        rw [hdn] at e
        simp only [List.cons_append, List.cons.injEq] at e
        rw [← e.1]
        exact (digitsOf_plain n d (by rw [hdn]; simp)).2.2.2
    obtain ⟨h1, h2⟩ := I3_op '*' (Or.inr rfl) _ hd hhead
    exact ih hs _ h1 h2
  | group g ih =>
    intro rest h hl
    simp only [renderExplicit, List.cons_append, List.append_assoc, List.singleton_append]
    have hl' : look3 (')' :: rest) = true := by rw [look3_nonspec _ _ (by decide)]; exact hl
    exact I3_lparen _ (ih hs _ (I3_copy ')' rest hl' h) hl')
  | seq ws a b iha ihb =>
    intro rest h hl
    simp only [renderExplicit, List.append_assoc]
    have hb := ihb hs.2 rest h hl
    have hhead : ∀ x t, renderExplicit b ++ rest = x :: t → isWs x = false := by
      intro x t e
      obtain ⟨⟨a0, t0, e0, ha0⟩, _⟩ := edge_rE' b hs.2
      rw [e0] at e
      simp only [List.cons_append, List.cons.injEq] at e
      rw [← e.1]; exact ha0
    obtain ⟨h1, h2⟩ := I3_op '+' (Or.inl rfl) _ hb hhead
    exact iha hs.1 _ h1 h2
  | plus a b iha ihb =>
    intro rest h hl
    simp only [renderExplicit, List.append_assoc]
    have hb := ihb hs.2 rest h hl
    have hhead : ∀ x t, renderExplicit b ++ rest = x :: t → isWs x = false := by
      intro x t e
      obtain ⟨⟨a0, t0, e0, ha0⟩, _⟩ := edge_rE' b hs.2
      rw [e0] at e
      simp only [List.cons_append, List.cons.injEq] at e
      rw [← e.1]; exact ha0
    obtain ⟨h1, h2⟩ := I3_op '+' (Or.inl rfl) _ hb hhead
    exact iha hs.1 _ h1 h2

/-- `SubstanceSolver.preprocess` does not change explicit solver text -/
theorem preprocess_explicit (f : F) (hs : f.spAll SpeciesText) :
    preprocess (renderExplicit f) = renderExplicit f := by
  have h1 := N1_rE f hs [] N1_nil (Or.inl rfl)
  have h2 := I2_rE f hs [] I2_nil (Or.inl rfl)
  have h3 := I3_rE f hs [] I3_nil (by decide)
  have h4 := I4_rE f hs [] I4_nil (Or.inl rfl)
  simp only [List.append_nil] at h1 h2 h3 h4
  simp only [preprocess, pass1_of_N1 _ h1, h2 _, h3 _, h4 _]

end SciVerif.C10
