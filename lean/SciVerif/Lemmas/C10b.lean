import SciVerif.Model.C10
import Mathlib.Algebra.Order.Ring.Rat

/-! Helper lemmas for C10: isotope table lookups, natural mean, first maximum. -/
namespace SciVerif.C10

/-- a table is well formed when symbols are pairwise distinct and, per element, mass numbers are -/
def TableWF (tbl : List Elem) : Prop :=
  (tbl.map (·.sym)).Nodup ∧ ∀ el ∈ tbl, (el.isos.map (·.A)).Nodup

theorem lookupElem_mem (tbl : List Elem) (el : Elem) (h : (tbl.map (·.sym)).Nodup) (hm : el ∈ tbl) :
    lookupElem tbl el.sym = some el := by
  induction tbl with
  | nil => cases hm
  | cons a t ih =>
    simp only [List.map_cons, List.nodup_cons] at h
    rcases List.mem_cons.mp hm with rfl | hm'
    · simp [lookupElem]
    · have : a.sym ≠ el.sym := fun e => h.1 (e ▸ List.mem_map_of_mem (f := (·.sym)) hm')
      simp [lookupElem, this, ih h.2 hm']

theorem lookupIso_mem (isos : List Iso) (i : Iso) (h : (isos.map (·.A)).Nodup) (hm : i ∈ isos) :
    lookupIso isos i.A = some i := by
  induction isos with
  | nil => cases hm
  | cons a t ih =>
    simp only [List.map_cons, List.nodup_cons] at h
    rcases List.mem_cons.mp hm with rfl | hm'
    · simp [lookupIso]
    · have : a.A ≠ i.A := fun e => h.1 (e ▸ List.mem_map_of_mem (f := (·.A)) hm')
      simp [lookupIso, this, ih h.2 hm']

/-- the row `get_isotope` must return for isotope `i` of element `el` with charge number `q` -/
def isoRow (me : Rat) (el : Elem) (i : Iso) (q : Int) : Data :=
  { NA := i.NA, mass := i.M + (q : Rat) * me, Z := el.Z, N := ((i.A : Int) - (el.Z : Int) : Int),
    e := ((el.Z : Int) + q : Int), iso := i.A, ion := q }

theorem getIsotope_spec (tbl : List Elem) (me : Rat) (h : TableWF tbl) (el : Elem) (hel : el ∈ tbl)
    (i : Iso) (hi : i ∈ el.isos) (hA : i.A ≠ 0) (q : Int) :
    getIsotope tbl me el.sym i.A q = some (isoRow me el i q) := by
  simp [getIsotope, lookupElem_mem tbl el h.1 hel, hA, lookupIso_mem el.isos i (h.2 el hel) hi, isoRow]

theorem mapM_some {β γ : Type} (l : List β) (f : β → Option γ) (g : β → γ)
    (h : ∀ x ∈ l, f x = some (g x)) : l.mapM f = some (l.map g) := by
  induction l with
  | nil => rfl
  | cons a t ih =>
    simp [List.mapM_cons, h a (by simp), ih (fun x hx => h x (by simp [hx]))]

theorem getNatural_spec (tbl : List Elem) (me : Rat) (h : TableWF tbl) (el : Elem) (hel : el ∈ tbl)
    (hA : ∀ i ∈ el.isos, i.A ≠ 0) (hne : el.isos ≠ []) (q : Int)
    (hw : sumR (el.isos.map (·.NA)) ≠ 0) :
    getNatural tbl me el.sym q =
      let ws := el.isos.map (·.NA)
      let avg := fun (v : Iso → Rat) => sumR (List.zipWith (· * ·) (el.isos.map v) ws) / sumR ws
      some { NA := sumR ws, mass := avg (fun i => i.M + (q : Rat) * me), Z := avg (fun _ => el.Z),
             N := avg (fun i => (((i.A : Int) - (el.Z : Int) : Int) : Rat)),
             e := avg (fun _ => (((el.Z : Int) + q : Int) : Rat)), iso := avg (fun i => i.A), ion := q } := by
  have hrows := mapM_some el.isos (fun i => getIsotope tbl me el.sym i.A q) (isoRow me el · q)
    (fun i hi => getIsotope_spec tbl me h el hel i hi (hA i hi) q)
  obtain ⟨i0, t0, hcons⟩ := List.exists_cons_of_ne_nil hne
  simp only [getNatural, lookupElem_mem tbl el h.1 hel, hrows, List.map_map, wavg]
  have e1 : (List.map ((fun x => x.NA) ∘ fun x => isoRow me el x q) el.isos) = el.isos.map (·.NA) := rfl
  simp only [e1, hw, if_false]
  simp [hcons, isoRow, Function.comp_def]

end SciVerif.C10
