import SciVerif.Lemmas.C01e

/-!
# C01 — Expression solver evaluates by the documented step table

Only property theorems live here (helper lemmas: `Lemmas/C01*.lean`).  The operator table, the
step table, the behaviour of every `operate_*` method (templates obtained by abstract probing)
and the 2x25 behaviour table of the sign operators are *regenerated from the live classes* into
`Generated/C01Tables.lean`; the model interprets those tables, so every theorem below is
re-checked against the current code on every run.
-/
namespace SciVerif.C01
open SciVerif.C01.Gen

variable {A : Type}

/-- (C) The step table regenerated from the live `ExpressionSolver` equals the table
    "Operation steps" of `docs/source/solver/index.rst` (parsed by the translator). -/
theorem C01_step_order_documented : dfltSteps = docSteps := by decide

/-- (A) **Token level.** For every well-formed expression `e` of the stratified grammar — every
    nesting depth and length — running the nine passes of the (regenerated) step table over the
    token list of `e` leaves exactly one token: the atom `eval e`, i.e. the value obtained by
    "functions and parentheses first, then unary signs, power, multiplicative, additive,
    comparison, negation, conjunction, disjunction, the operators of one step left to right".
    Universally over the atom algebra, under the one law the sign folding uses. -/
theorem C01_tokens_eq_eval (alg : AtomAlg A) (lit : List Char → A) (hn : NegNeg alg)
    (e : E) (hwf : e.WF) :
    solveToks dflt alg dfltSteps (toks dflt alg lit e) = .ok (.atom (eval alg lit e)) := by
  have p0 := pass_of_steps alg lit P0 .args 0 e (args_pass alg lit e [] [])
  have p1 := pass_of_steps alg lit P1 .unary 1 e (sign_pass alg lit hn e hwf [] [] (fun _ => trivial))
  have p2 := pass_of_steps alg lit [10] .binary 2 e (binary_pass alg lit [10] 2 binPass2 e hwf [] [])
  have p3 := pass_of_steps alg lit [11, 12] .binary 3 e (binary_pass alg lit _ 3 binPass3 e hwf [] [])
  have p4 := pass_of_steps alg lit [13, 14] .binary 4 e (binary_pass alg lit _ 4 binPass4 e hwf [] [])
  have p5 := pass_of_steps alg lit [15, 16, 18, 19, 20, 21] .binary 5 e
    (binary_pass alg lit _ 5 binPass5 e hwf [] [])
  have p6 := pass_of_steps alg lit [17] .unary 6 e (not_pass alg lit e hwf [] [])
  have p7 := pass_of_steps alg lit [22] .binary 7 e (binary_pass alg lit _ 7 binPass7 e hwf [] [])
  have p8 := pass_of_steps alg lit [23] .binary 8 e (binary_pass alg lit _ 8 binPass8 e hwf [] [])
  unfold solveToks
  rw [runSteps_resolved, resolve_steps, ← flat_zero]
  simp only [runResolved, List.isEmpty_cons, Bool.false_eq_true, if_false, P0, P1] at *
  rw [p0]; simp only []
  rw [p1]; simp only []
  rw [p2]; simp only []
  rw [p3]; simp only []
  rw [p4]; simp only []
  rw [p5]; simp only []
  rw [p6]; simp only []
  rw [p7]; simp only []
  rw [p8]; simp only []
  rw [flat_nine]
  rfl

/-- (D, token level) **A binary operator without its right operand is rejected.** For every
    well-formed `e` and every binary-only operator `o` (`** * / == != <= >= < > && ||`), the token
    list of `e` followed by `o` makes the step loop raise: all passes before `o`'s own leave `o`
    in place, `o`'s pass finds no right operand.  (`+`/`-` are excluded here because a trailing
    sign is first rewritten by the sign pass; that case, a missing LEFT operand, unbalanced
    parentheses and wrong arity are checked by correspondence on every run.) -/
theorem C01_reject_missing_operand (alg : AtomAlg A) (lit : List Char → A) (hn : NegNeg alg)
    (e : E) (hwf : e.WF) (o : B2) (ho : o.level ≠ 4) :
    solveToks dflt alg dfltSteps (toks dflt alg lit e ++ [tokB o]) = .error "operand" := by
  have q0 := trailing alg lit P0 .args 0 e o (args_pass alg lit e [] [tokB o])
  have q1 := trailing alg lit P1 .unary 1 e o (sign_pass alg lit hn e hwf [] [tokB o] (fun _ => trivial))
  have q2 := trailing alg lit [10] .binary 2 e o (binary_pass alg lit [10] 2 binPass2 e hwf [] [tokB o])
  have q3 := trailing alg lit [11, 12] .binary 3 e o (binary_pass alg lit _ 3 binPass3 e hwf [] [tokB o])
  have q4 := trailing alg lit [13, 14] .binary 4 e o (binary_pass alg lit _ 4 binPass4 e hwf [] [tokB o])
  have q5 := trailing alg lit [15, 16, 18, 19, 20, 21] .binary 5 e o
    (binary_pass alg lit _ 5 binPass5 e hwf [] [tokB o])
  have q6 := trailing alg lit [17] .unary 6 e o (not_pass alg lit e hwf [] [tokB o])
  have q7 := trailing alg lit [22] .binary 7 e o (binary_pass alg lit _ 7 binPass7 e hwf [] [tokB o])
  have q8 := trailing alg lit [23] .binary 8 e o (binary_pass alg lit _ 8 binPass8 e hwf [] [tokB o])
  unfold solveToks
  rw [runSteps_resolved, resolve_steps, ← flat_zero]
  simp only [runResolved, List.isEmpty_cons, Bool.false_eq_true, if_false, P0, P1] at *
  cases o <;> first | (exact absurd rfl ho) | skip
  all_goals
    iterate 9
      first
      | (rw [q0.1 (by decide)]; simp only [])
      | (rw [q1.1 (by decide)]; simp only [])
      | (rw [q2.1 (by decide)]; simp only [])
      | (rw [q3.1 (by decide)]; simp only [])
      | (rw [q4.1 (by decide)]; simp only [])
      | (rw [q5.1 (by decide)]; simp only [])
      | (rw [q6.1 (by decide)]; simp only [])
      | (rw [q7.1 (by decide)]; simp only [])
      | (obtain ⟨b, hb⟩ := q2.2 (by decide) trivial; rw [hb])
      | (obtain ⟨b, hb⟩ := q3.2 (by decide) trivial; rw [hb])
      | (obtain ⟨b, hb⟩ := q5.2 (by decide) trivial; rw [hb])
      | (obtain ⟨b, hb⟩ := q7.2 (by decide) trivial; rw [hb])
      | (obtain ⟨b, hb⟩ := q8.2 (by decide) trivial; rw [hb])
      | skip

/-- The proved part of the full statement below, under its conventional name: milestone (A),
    the token level (identical to `C01_tokens_eq_eval`). -/
theorem C01_solve_eq_eval_partial (alg : AtomAlg A) (lit : List Char → A) (hn : NegNeg alg)
    (e : E) (hwf : e.WF) :
    solveToks dflt alg dfltSteps (toks dflt alg lit e) = .ok (.atom (eval alg lit e)) :=
  C01_tokens_eq_eval alg lit hn e hwf

/-- The FULL statement (character level), NOT proved: for every well-formed expression whose
    literals the atom class reads, and every blank oracle, `solve` on the rendered text returns
    `eval e`.  Missing is milestone (B): `tokenize (render bl e) = toks e` (first-match-in-table-
    order tokenizer on rendered text, argument scanner with depth counting), which needs prefix
    facts about the symbol table.  Every generated instance of (B) is evaluated by the driver on
    every run (`tokenized` vs `toks`), and the whole statement is correspondence-checked. -/
def C01_solve_eq_eval_statement : Prop :=
  ∀ (A : Type) (alg : AtomAlg A) (lit : List Char → A), NegNeg alg →
    ∀ e : E, e.WF → LitOK alg lit e → ∀ bl : List Nat,
      solve dflt alg dfltSteps (render bl e) = .ok (.atom (eval alg lit e))

/-- Blank invariance is a corollary of the full statement (same status). -/
def C01_blank_invariance_statement : Prop :=
  ∀ (A : Type) (alg : AtomAlg A) (lit : List Char → A), NegNeg alg →
    ∀ e : E, e.WF → LitOK alg lit e → ∀ bl bl' : List Nat,
      solve dflt alg dfltSteps (render bl e) = solve dflt alg dfltSteps (render bl' e)

/-! ### Non-vacuity: the hypotheses have concrete, non-trivial instances -/

/-- integers with real negation, addition, subtraction, multiplication and power -/
def litInt : List Char → Int
  | [c] => ((c.toNat - 48 : Nat) : Int)
  | _ => 0

def intAlg : AtomAlg Int :=
  { parse := fun s => some (litInt s), constE := 3,
    un := fun f a => match f with | .neg => -a | _ => a,
    bin := fun f a b => match f with
      | .add => a + b | .sub => a - b | .mul => a * b | .pow => a ^ b.toNat | _ => 0 }

example : NegNeg intAlg := fun a => Int.neg_neg a

/-- `1 - -2**2`: a unary sign after a binary operator, before a power -/
def ex1 : E := .bin .sub (.num ['1']) (.bin .pow (.sign true (.num ['2'])) (.num ['2']))

example : ex1.WF := by simp [ex1, E.WF, E.level, B2.level]

/-- the documented order gives 1 - ((-2)**2) = -3, and so do the nine passes -/
example : eval intAlg litInt ex1 = -3 := by decide
example : solveToks dflt intAlg dfltSteps
    (toks dflt intAlg litInt ex1) = .ok (.atom (eval intAlg litInt ex1)) :=
  C01_tokens_eq_eval intAlg litInt (fun a => Int.neg_neg a) ex1 (by simp [ex1, E.WF, E.level, B2.level])

example : B2.mul.level ≠ 4 := by decide

example : LitOK termAlg Term.num ex1 := by
  simp [ex1, LitOK]; decide

end SciVerif.C01
