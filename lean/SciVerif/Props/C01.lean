import SciVerif.Lemmas.C01s

/-!
# C01 — Expression solver evaluates by the documented step table

Only property theorems live here (helper lemmas: `Lemmas/C01*.lean`).  The operator table, the
step table, the behaviour of every `operate_*` method (templates obtained by abstract probing)
and the 2x25 behaviour table of the sign operators are *regenerated from the live classes* into
`Generated/C01Tables.lean`; the model interprets those tables, so every theorem below is
re-checked against the current code on every run.
-/
namespace SciVerif.C01
open SciVerif.C01.Gen

variable {A : Type}

/-- (C) The step table regenerated from the live `ExpressionSolver` equals the table
    "Operation steps" of `docs/source/solver/index.rst` (parsed by the translator). -/
theorem C01_step_order_documented : dfltSteps = docSteps := by decide

/-- (A) **Token level.** For every well-formed expression `e` of the stratified grammar — every
    nesting depth and length — running the nine passes of the (regenerated) step table over the
    token list of `e` leaves exactly one token: the atom `eval e`, i.e. the value obtained by
    "functions and parentheses first, then unary signs, power, multiplicative, additive,
    comparison, negation, conjunction, disjunction, the operators of one step left to right".
    Universally over the atom algebra, under the one law the sign folding uses. -/
theorem C01_tokens_eq_eval (alg : AtomAlg A) (lit : List Char → A) (hn : NegNeg alg)
    (e : E) (hwf : e.WF) :
    solveToks dflt alg dfltSteps (toks dflt alg lit e) = .ok (.atom (eval alg lit e)) :=
  tokens_eq_eval alg lit hn e hwf

/-- (D, token level) **A binary operator without its right operand is rejected.** For every
    well-formed `e` and every binary-only operator `o` (`** * / == != <= >= < > && ||`), the token
    list of `e` followed by `o` makes the step loop raise: all passes before `o`'s own leave `o`
    in place, `o`'s pass finds no right operand.  (`+`/`-`: see `C01_reject_trailing_sign`;
    left operand: `C01_reject_missing_left_operand`.) -/
theorem C01_reject_missing_operand (alg : AtomAlg A) (lit : List Char → A) (hn : NegNeg alg)
    (e : E) (hwf : e.WF) (o : B2) (ho : o.level ≠ 4) :
    solveToks dflt alg dfltSteps (toks dflt alg lit e ++ [tokB o]) = .error "operand" := by
  have q0 := trailing alg lit P0 .args 0 e o (args_pass alg lit e [] [tokB o])
  have q1 := trailing alg lit P1 .unary 1 e o (sign_pass alg lit hn e hwf [] [tokB o] (fun _ => trivial))
  have q2 := trailing alg lit [10] .binary 2 e o (binary_pass alg lit [10] 2 binPass2 e hwf [] [tokB o])
  have q3 := trailing alg lit [11, 12] .binary 3 e o (binary_pass alg lit _ 3 binPass3 e hwf [] [tokB o])
  have q4 := trailing alg lit [13, 14] .binary 4 e o (binary_pass alg lit _ 4 binPass4 e hwf [] [tokB o])
  have q5 := trailing alg lit [15, 16, 18, 19, 20, 21] .binary 5 e o
    (binary_pass alg lit _ 5 binPass5 e hwf [] [tokB o])
  have q6 := trailing alg lit [17] .unary 6 e o (not_pass alg lit e hwf [] [tokB o])
  have q7 := trailing alg lit [22] .binary 7 e o (binary_pass alg lit _ 7 binPass7 e hwf [] [tokB o])
  have q8 := trailing alg lit [23] .binary 8 e o (binary_pass alg lit _ 8 binPass8 e hwf [] [tokB o])
  unfold solveToks
  rw [runSteps_resolved, resolve_steps, ← flat_zero]
  simp only [runResolved, List.isEmpty_cons, Bool.false_eq_true, if_false, P0, P1] at *
  cases o <;> first | (exact absurd rfl ho) | skip
  all_goals
    iterate 9
      first
      | (rw [q0.1 (by decide)]; simp only [])
      | (rw [q1.1 (by decide)]; simp only [])
      | (rw [q2.1 (by decide)]; simp only [])
      | (rw [q3.1 (by decide)]; simp only [])
      | (rw [q4.1 (by decide)]; simp only [])
      | (rw [q5.1 (by decide)]; simp only [])
      | (rw [q6.1 (by decide)]; simp only [])
      | (rw [q7.1 (by decide)]; simp only [])
      | (obtain ⟨b, hb⟩ := q2.2 (by decide) trivial; rw [hb])
      | (obtain ⟨b, hb⟩ := q3.2 (by decide) trivial; rw [hb])
      | (obtain ⟨b, hb⟩ := q5.2 (by decide) trivial; rw [hb])
      | (obtain ⟨b, hb⟩ := q7.2 (by decide) trivial; rw [hb])
      | (obtain ⟨b, hb⟩ := q8.2 (by decide) trivial; rw [hb])
      | skip

/-- (D, string level) **Unbalanced parentheses are rejected.** For EVERY string whose parenthesis
    depth goes negative or does not return to 0 -- not only edits of rendered expressions --
    `solve` raises, for every atom class that refuses texts containing a parenthesis (as
    `float()` does).  Proved as: whatever the tokeniser loop accepts is balanced (the argument
    scanner only closes at depth 1; a `(` is always taken by an operator; a `)` outside a call
    ends up in an atom text). -/
theorem C01_reject_unbalanced (alg : AtomAlg A) (hpf : ParenFree alg) (s : List Char)
    (hs : ¬ Balanced s) : ∃ m, solve dflt alg dfltSteps s = .error m := by
  cases h : solve dflt alg dfltSteps s with
  | error m => exact ⟨m, rfl⟩
  | ok t => exact absurd (solve_ok_balanced alg hpf s t h) hs

/-- (D, string level) **A call with the wrong number of arguments is rejected.** A call form of
    the language applied to `k ≠ narg` top-level arguments -- any texts that are balanced and have
    no separator of their own at depth 0, in particular all rendered expressions --, after any
    blanks and followed by anything, makes `solve` raise "Wrong number of arguments" before any
    argument is evaluated. -/
theorem C01_reject_arity (alg : AtomAlg A) (c : Call) (Ts : List (List Char)) (hne : Ts ≠ [])
    (hb : ∀ T ∈ Ts, nest T 0 = some 0) (hk : Ts.length ≠ c.narg) (j : Nat) (rest : List Char) :
    solve dflt alg dfltSteps (blanks j ++ c.sym ++ joinArgs Ts ++ ')' :: rest) = .error "arity" :=
  solve_arity alg c Ts hne hb hk j rest

/-- (D, token level) **A binary operator without its left operand is rejected**: a binary-only
    operator in front of the tokens of a well-formed expression. -/
theorem C01_reject_missing_left_operand (alg : AtomAlg A) (lit : List Char → A) (hn : NegNeg alg)
    (e : E) (hwf : e.WF) (o : B2) (ho : o.level ≠ 4) :
    solveToks dflt alg dfltSteps (tokB o :: toks dflt alg lit e) = .error "operand" := by
  have q0 := leading alg lit P0 .args 0 e o (args_pass alg lit e [tokB o] [])
  have q1 := leading alg lit P1 .unary 1 e o (sign_pass alg lit hn e hwf [tokB o] [] (fun _ => trivial))
  have q2 := leading alg lit [10] .binary 2 e o (binary_pass alg lit [10] 2 binPass2 e hwf [tokB o] [])
  have q3 := leading alg lit [11, 12] .binary 3 e o (binary_pass alg lit _ 3 binPass3 e hwf [tokB o] [])
  have q4 := leading alg lit [13, 14] .binary 4 e o (binary_pass alg lit _ 4 binPass4 e hwf [tokB o] [])
  have q5 := leading alg lit [15, 16, 18, 19, 20, 21] .binary 5 e o
    (binary_pass alg lit _ 5 binPass5 e hwf [tokB o] [])
  have q6 := leading alg lit [17] .unary 6 e o (not_pass alg lit e hwf [tokB o] [])
  have q7 := leading alg lit [22] .binary 7 e o (binary_pass alg lit _ 7 binPass7 e hwf [tokB o] [])
  have q8 := leading alg lit [23] .binary 8 e o (binary_pass alg lit _ 8 binPass8 e hwf [tokB o] [])
  unfold solveToks
  rw [runSteps_resolved, resolve_steps, ← flat_zero]
  simp only [runResolved, List.isEmpty_cons, Bool.false_eq_true, if_false, P0, P1] at *
  cases o <;> first | (exact absurd rfl ho) | skip
  all_goals
    iterate 9
      first
      | (rw [q0.1 (by decide)]; simp only [])
      | (rw [q1.1 (by decide)]; simp only [])
      | (rw [q2.1 (by decide)]; simp only [])
      | (rw [q3.1 (by decide)]; simp only [])
      | (rw [q4.1 (by decide)]; simp only [])
      | (rw [q5.1 (by decide)]; simp only [])
      | (rw [q6.1 (by decide)]; simp only [])
      | (rw [q7.1 (by decide)]; simp only [])
      | (obtain ⟨b, hb⟩ := q2.2 (by decide) trivial; rw [hb])
      | (obtain ⟨b, hb⟩ := q3.2 (by decide) trivial; rw [hb])
      | (obtain ⟨b, hb⟩ := q5.2 (by decide) trivial; rw [hb])
      | (obtain ⟨b, hb⟩ := q7.2 (by decide) trivial; rw [hb])
      | (obtain ⟨b, hb⟩ := q8.2 (by decide) trivial; rw [hb])
      | skip

/-- (D, token level) **A trailing `+` or `-` is rejected**: the sign pass finds an atom on its left
    and nothing on its right, keeps the operator and stores the `None` it fetched; the additive pass
    then applies the operator to that `None`. -/
theorem C01_reject_trailing_sign (alg : AtomAlg A) (lit : List Char → A) (hn : NegNeg alg)
    (e : E) (hwf : e.WF) (s : Bool) :
    solveToks dflt alg dfltSteps (toks dflt alg lit e ++ [tokS s]) = .error "operand" := by
  have hsk := skipped_sign (A := A) s
  have p0 := pass_framed alg lit P0 .args 0 e [] [tokS s] (fun t ht => by cases ht)
    (fun t ht => by simp only [List.mem_singleton] at ht; subst ht; exact hsk.1)
    (by simpa using args_pass alg lit e [] [tokS s])
  have p1 := sign_pass_trailing alg lit hn e hwf s
  have p2 := pass_framed alg lit [10] .binary 2 e [] [tokS s, .none] (fun t ht => by cases ht)
    (fun t ht => by
      simp only [List.mem_cons, List.mem_nil_iff, or_false] at ht
      rcases ht with rfl | rfl
      · exact hsk.2.1
      · trivial)
    (by simpa using binary_pass alg lit [10] 2 binPass2 e hwf [] [tokS s, .none])
  have p3 := pass_framed alg lit [11, 12] .binary 3 e [] [tokS s, .none] (fun t ht => by cases ht)
    (fun t ht => by
      simp only [List.mem_cons, List.mem_nil_iff, or_false] at ht
      rcases ht with rfl | rfl
      · exact hsk.2.2
      · trivial)
    (by simpa using binary_pass alg lit [11, 12] 3 binPass3 e hwf [] [tokS s, .none])
  obtain ⟨c, hc, st⟩ := binary_pass alg lit [13, 14] 4 binPass4 e hwf [] [tokS s, .none]
  obtain ⟨pre, v, hl⟩ := flat_last alg lit 5 (by omega) e
  have p4 : operate dflt alg [13, 14] .binary ⟨[], flat alg lit 4 e ++ [tokS s, .none]⟩
      = .error (⟨pre.reverse, []⟩, "operand") := by
    rw [hl] at st
    exact operate_error_after alg [13, 14] .binary _ _ _ _ c _ (by simp; omega) (by simpa using st)
      (step_sign_binary_none alg s pre.reverse [] v)
  unfold solveToks
  rw [runSteps_resolved, resolve_steps, ← flat_zero]
  simp only [runResolved, List.isEmpty_cons, Bool.false_eq_true, if_false, P0, P1, List.nil_append] at *
  rw [p0]; simp only []
  rw [p1]; simp only []
  rw [p2]; simp only []
  rw [p3]; simp only []
  rw [p4]

/-! The three missing-operand rejections at STRING level: the text of a well-formed expression
    with an operator symbol before or after it, blanks anywhere. -/

theorem C01_reject_missing_right_operand_text (alg : AtomAlg A) (lit : List Char → A)
    (hn : NegNeg alg) (e : E) (hwf : e.WF) (hl : LitOK alg lit e) (o : B2) (ho : o.level ≠ 4)
    (u : List Char) (k : Nat) (hu : Pre (lexemes e ++ [o.sym]) u) :
    solve dflt alg dfltSteps (u ++ blanks k) = .error "operand" :=
  solve_framed_err alg lit hn e hwf hl [] [.opr (.bin o)] (fun _ h => by cases h)
    (fun it h => by simp only [List.mem_singleton] at h; subst h; rfl)
    (adj_post_opr alg lit e hl _) u k
    (by simpa [lexemes_items, itemLex, OprK.sym] using hu) "operand"
    (C01_reject_missing_operand alg lit hn e hwf o ho)

theorem C01_reject_trailing_sign_text (alg : AtomAlg A) (lit : List Char → A)
    (hn : NegNeg alg) (e : E) (hwf : e.WF) (hl : LitOK alg lit e) (s : Bool)
    (u : List Char) (k : Nat) (hu : Pre (lexemes e ++ [if s then ['-'] else ['+']]) u) :
    solve dflt alg dfltSteps (u ++ blanks k) = .error "operand" :=
  solve_framed_err alg lit hn e hwf hl [] [.opr (.sign s)] (fun _ h => by cases h)
    (fun it h => by simp only [List.mem_singleton] at h; subst h; rfl)
    (adj_post_opr alg lit e hl _) u k
    (by simpa [lexemes_items, itemLex, OprK.sym] using hu) "operand"
    (C01_reject_trailing_sign alg lit hn e hwf s)

theorem C01_reject_missing_left_operand_text (alg : AtomAlg A) (lit : List Char → A)
    (hn : NegNeg alg) (e : E) (hwf : e.WF) (hl : LitOK alg lit e) (o : B2) (ho : o.level ≠ 4)
    (u : List Char) (k : Nat) (hu : Pre (o.sym :: lexemes e) u) :
    solve dflt alg dfltSteps (u ++ blanks k) = .error "operand" := by
  obtain ⟨it, r, e1, h1⟩ := items_head alg lit e hl
  have hadj : Adj ([.opr (.bin o)] ++ items e ++ []) := by
    have := Adj.cons (a := .opr (.bin o)) (fun b hb => by
      rw [e1] at hb; simp at hb; subst hb; exact okNext_opr _ _ h1) (adj_items alg lit e hl)
    simpa using this
  exact solve_framed_err alg lit hn e hwf hl [.opr (.bin o)] []
    (fun it h => by simp only [List.mem_singleton] at h; subst h; rfl) (fun _ h => by cases h)
    hadj u k (by simpa [lexemes_items, itemLex, OprK.sym] using hu) "operand"
    (by simpa [tokOf, tokB, OprK.name] using C01_reject_missing_left_operand alg lit hn e hwf o ho)

/-! Arity rejection at a GENERAL position of the string: the ill-formed call need not be at the
    start, it may come after any well-formed prefix.  (`C01_reject_arity` is the case of an empty
    prefix.)  The tokeniser works through the prefix -- literals, operator symbols, well-formed
    calls whose arguments the nested solver evaluates -- and raises at the call; nothing that
    follows the call is looked at. -/

/-- (D, string level, general position) **A call with the wrong number of arguments after a
    well-formed expression and an operator is rejected**: `e o f(T1,…,Tk) rest` with `e` any
    well-formed expression, `o` ANY operator symbol of the language (binary, sign, `!`), blanks
    anywhere between the lexemes of the prefix and before the call, `k ≠ narg` balanced argument
    texts and an arbitrary remainder `rest` makes `solve` raise "Wrong number of arguments". -/
theorem C01_reject_arity_after_operator (alg : AtomAlg A) (lit : List Char → A) (hn : NegNeg alg)
    (e : E) (hwf : e.WF) (hl : LitOK alg lit e) (o : OprK)
    (u : List Char) (hu : Pre (lexemes e ++ [o.sym]) u)
    (c : Call) (Ts : List (List Char)) (hne : Ts ≠ [])
    (hb : ∀ T ∈ Ts, nest T 0 = some 0) (hk : Ts.length ≠ c.narg) (j : Nat) (rest : List Char) :
    solve dflt alg dfltSteps (u ++ blanks j ++ c.sym ++ joinArgs Ts ++ ')' :: rest)
      = .error "arity" := by
  have := solve_arity_after alg lit hn e hwf hl [] [.opr o] (fun _ h => by cases h)
    (fun it h => by simp only [List.mem_singleton] at h; subst h; rfl)
    (adj_post_opr alg lit e hl _) u
    (by simpa [lexemes_items, itemLex] using hu) c Ts hne hb hk j rest
  simpa [List.append_assoc] using this

/-- (D, string level, general position) the same for a call that follows a well-formed expression
    directly (`e f(T1,…,Tk) rest`, a missing operator AND a wrong arity: the arity error wins,
    as in the code, because it is raised while tokenising). -/
theorem C01_reject_arity_after_expression (alg : AtomAlg A) (lit : List Char → A) (hn : NegNeg alg)
    (e : E) (hwf : e.WF) (hl : LitOK alg lit e)
    (u : List Char) (hu : Pre (lexemes e) u)
    (c : Call) (Ts : List (List Char)) (hne : Ts ≠ [])
    (hb : ∀ T ∈ Ts, nest T 0 = some 0) (hk : Ts.length ≠ c.narg) (j : Nat) (rest : List Char) :
    solve dflt alg dfltSteps (u ++ blanks j ++ c.sym ++ joinArgs Ts ++ ')' :: rest)
      = .error "arity" := by
  have := solve_arity_after alg lit hn e hwf hl [] [] (fun _ h => by cases h)
    (fun _ h => by cases h) (by simpa using adj_items alg lit e hl) u
    (by simpa [lexemes_items] using hu) c Ts hne hb hk j rest
  simpa [List.append_assoc] using this

/-- (D, string level, general position) the general form: the prefix is a well-formed expression
    framed by any operator symbols (`pre`, `post`: operator items only; `Adj`: no symbol is
    directly followed by `*` or `=` that would extend it), e.g. `- e * -` or `! e && !`. -/
theorem C01_reject_arity_after_prefix (alg : AtomAlg A) (lit : List Char → A) (hn : NegNeg alg)
    (e : E) (hwf : e.WF) (hl : LitOK alg lit e)
    (pre post : List LItem) (hpre : OprOnly pre) (hpost : OprOnly post)
    (hadj : Adj (pre ++ items e ++ post)) (u : List Char)
    (hu : Pre ((pre ++ items e ++ post).flatMap itemLex) u)
    (c : Call) (Ts : List (List Char)) (hne : Ts ≠ [])
    (hb : ∀ T ∈ Ts, nest T 0 = some 0) (hk : Ts.length ≠ c.narg) (j : Nat) (rest : List Char) :
    solve dflt alg dfltSteps (u ++ blanks j ++ c.sym ++ joinArgs Ts ++ ')' :: rest)
      = .error "arity" := by
  have := solve_arity_after alg lit hn e hwf hl pre post hpre hpost hadj u hu c Ts hne hb hk j rest
  simpa [List.append_assoc] using this

/-! Missing right operand at a GENERAL position: inside the argument of a one-argument call or
    inside parentheses (`F1` includes the plain parenthesis), the call being at the start of the
    string or after any well-formed prefix.  The nested solver that evaluates the argument raises,
    and the error propagates through the argument loop and the tokeniser of the outer `solve`. -/

/-- (D, token level) every operator except `!` -- binary-only or `+`/`-` -- dangling after a
    well-formed expression is rejected (`C01_reject_missing_operand` and
    `C01_reject_trailing_sign` in one statement over the operator items of the tokeniser). -/
theorem C01_reject_trailing_operator (alg : AtomAlg A) (lit : List Char → A) (hn : NegNeg alg)
    (e : E) (hwf : e.WF) (o : OprK) (ho : o ≠ .not) :
    solveToks dflt alg dfltSteps (toks dflt alg lit e ++ [tokOf alg lit (.opr o)])
      = .error "operand" := by
  cases o with
  | not => exact absurd rfl ho
  | sign s => exact C01_reject_trailing_sign alg lit hn e hwf s
  | bin b =>
    by_cases hb : b.level = 4
    · cases b <;> first | (exact absurd hb (by decide)) | skip
      · exact C01_reject_trailing_sign alg lit hn e hwf false
      · exact C01_reject_trailing_sign alg lit hn e hwf true
    · exact C01_reject_missing_operand alg lit hn e hwf b hb

/-- (D, string level, general position) **A dangling operator inside parentheses or inside a
    one-argument call at the start of the string is rejected**: `f( e' o ) rest` with `f` any of
    `( exp( log( log10( sqrt( sin( cos( tan(`, `e'` well-formed, `o` any operator but `!`, blanks
    anywhere, arbitrary `rest`. -/
theorem C01_reject_missing_operand_in_call (alg : AtomAlg A) (lit : List Char → A)
    (hn : NegNeg alg) (f : F1) (e' : E) (hwf' : e'.WF) (hl' : LitOK alg lit e') (o : OprK)
    (ho : o ≠ .not) (v : List Char) (hv : Pre (lexemes e' ++ [o.sym]) v)
    (j k : Nat) (rest : List Char) :
    solve dflt alg dfltSteps (blanks j ++ f.sym ++ v ++ blanks k ++ ')' :: rest)
      = .error "operand" := by
  have := solve_inner_err alg lit hn [] trivial [] Pre.nil f j rest e' hwf' hl' o v k hv "operand"
    (C01_reject_trailing_operator alg lit hn e' hwf' o ho) (fun _ h => by cases h)
  simpa [List.append_assoc] using this

/-- (D, string level, general position) **… and after any well-formed prefix**: `e o1 f( e' o ) rest`
    (prefix: a well-formed expression framed by operator symbols, as in
    `C01_reject_arity_after_prefix`; e.g. `1 + 2 * ( 3 - ) …`). -/
theorem C01_reject_missing_operand_in_call_after_prefix (alg : AtomAlg A) (lit : List Char → A)
    (hn : NegNeg alg) (e : E) (hwf : e.WF) (hl : LitOK alg lit e)
    (pre post : List LItem) (hpre : OprOnly pre) (hpost : OprOnly post)
    (hadj : Adj (pre ++ items e ++ post)) (u : List Char)
    (hu : Pre ((pre ++ items e ++ post).flatMap itemLex) u)
    (f : F1) (e' : E) (hwf' : e'.WF) (hl' : LitOK alg lit e') (o : OprK)
    (ho : o ≠ .not) (v : List Char) (hv : Pre (lexemes e' ++ [o.sym]) v)
    (j k : Nat) (rest : List Char) :
    solve dflt alg dfltSteps (u ++ blanks j ++ f.sym ++ v ++ blanks k ++ ')' :: rest)
      = .error "operand" := by
  have hlen : (lexemes e).length ≤ u.length := by
    have h1 := Pre.length_le hu (fun x hx => by
      simp only [List.flatMap_append, List.mem_append, List.mem_flatMap] at hx
      rcases hx with (⟨it, hit, hx⟩ | ⟨it, hit, hx⟩) | ⟨it, hit, hx⟩
      · exact oprLex_ne_nil it (hpre it hit) x hx
      · have : x ∈ lexemes e := by rw [lexemes_items]; exact List.mem_flatMap.mpr ⟨it, hit, hx⟩
        exact (lexemes_good alg lit e hl x this).1
      · exact oprLex_ne_nil it (hpost it hit) x hx)
    have h2 : (lexemes e).length ≤ ((pre ++ items e ++ post).flatMap itemLex).length := by
      rw [lexemes_items]; simp; omega
    omega
  have hcd := cdepth_le_lexemes e
  have := solve_inner_err alg lit hn _ hadj u hu f j rest e' hwf' hl' o v k hv "operand"
    (C01_reject_trailing_operator alg lit hn e' hwf' o ho) (fun it hit => by
      have hargs := args_of_depth alg lit hn e hwf hl
        (u ++ (blanks j ++ (f.sym ++ ((v ++ blanks k) ++ ')' :: rest)))).length
        (by simp only [List.length_append]; omega)
      simp only [List.mem_append] at hit
      rcases hit with (hit | hit) | hit
      · exact itemOK_opr alg lit _ it (hpre it hit)
      · exact itemOK_items alg lit _ e hl hargs it hit
      · exact itemOK_opr alg lit _ it (hpost it hit))
  simpa [List.append_assoc] using this

/-- (D, string level, general position, ANY nesting depth) **A dangling operator inside any number
    of nested parentheses / one-argument calls is rejected**, after a well-formed prefix:
    `pre e post  f( g1( g2( … e' o … ) ) ) rest` -- `nestCalls fs t` wraps the text `t` in the calls
    `fs` (each of `( exp( log( log10( sqrt( sin( cos( tan(`, with arbitrary blanks before the
    symbol and after its closing parenthesis).  The innermost nested solver raises on `e' o`
    and the error propagates through every level.  `fs = []` is
    `C01_reject_missing_operand_in_call_after_prefix`. -/
theorem C01_reject_missing_operand_nested_after_prefix (alg : AtomAlg A) (lit : List Char → A)
    (hn : NegNeg alg) (e : E) (hwf : e.WF) (hl : LitOK alg lit e)
    (pre post : List LItem) (hpre : OprOnly pre) (hpost : OprOnly post)
    (hadj : Adj (pre ++ items e ++ post)) (u : List Char)
    (hu : Pre ((pre ++ items e ++ post).flatMap itemLex) u)
    (f : F1) (fs : List (F1 × Nat × Nat)) (e' : E) (hwf' : e'.WF) (hl' : LitOK alg lit e') (o : OprK)
    (ho : o ≠ .not) (v : List Char) (hv : Pre (lexemes e' ++ [o.sym]) v)
    (j k : Nat) (rest : List Char) :
    solve dflt alg dfltSteps (u ++ blanks j ++ f.sym ++ nestCalls fs (v ++ blanks k) ++ ')' :: rest)
      = .error "operand" := by
  have := solve_nested_err alg lit hn _ hadj u hu (cdepth e)
    (framed_len alg lit e hl pre post hpre hpost u hu)
    (fun n hd => itemOK_framed alg lit hn e hwf hl pre post hpre hpost n hd)
    f j rest fs e' hwf' hl' o v k hv "operand" (C01_reject_trailing_operator alg lit hn e' hwf' o ho)
  simpa [List.append_assoc] using this

/-- (D, string level, ANY nesting depth) the same at the start of the string:
    `f( g1( … e' o … ) ) rest`, e.g. `((sin( 1 * )))`. -/
theorem C01_reject_missing_operand_nested (alg : AtomAlg A) (lit : List Char → A)
    (hn : NegNeg alg) (f : F1) (fs : List (F1 × Nat × Nat)) (e' : E) (hwf' : e'.WF)
    (hl' : LitOK alg lit e') (o : OprK) (ho : o ≠ .not) (v : List Char)
    (hv : Pre (lexemes e' ++ [o.sym]) v) (j k : Nat) (rest : List Char) :
    solve dflt alg dfltSteps (blanks j ++ f.sym ++ nestCalls fs (v ++ blanks k) ++ ')' :: rest)
      = .error "operand" := by
  have := solve_nested_err alg lit hn [] trivial [] Pre.nil 0 (Nat.le_refl _)
    (fun _ _ _ h => by cases h)
    f j rest fs e' hwf' hl' o v k hv "operand" (C01_reject_trailing_operator alg lit hn e' hwf' o ho)
  simpa [List.append_assoc] using this

/-- (D, string level, general position, ANY nesting depth) **A call with the wrong number of
    arguments inside any number of nested parentheses / one-argument calls is rejected**, after a
    well-formed prefix: `pre e post  f( g1( … c(T1,…,Tk) … ) ) rest` with `k ≠ narg c`. -/
theorem C01_reject_arity_nested_after_prefix (alg : AtomAlg A) (lit : List Char → A)
    (hn : NegNeg alg) (e : E) (hwf : e.WF) (hl : LitOK alg lit e)
    (pre post : List LItem) (hpre : OprOnly pre) (hpost : OprOnly post)
    (hadj : Adj (pre ++ items e ++ post)) (u : List Char)
    (hu : Pre ((pre ++ items e ++ post).flatMap itemLex) u)
    (f : F1) (fs : List (F1 × Nat × Nat)) (c : Call) (Ts : List (List Char)) (hne : Ts ≠ [])
    (hb : ∀ T ∈ Ts, nest T 0 = some 0) (hk : Ts.length ≠ c.narg) (j a b : Nat) (rest : List Char) :
    solve dflt alg dfltSteps (u ++ blanks j ++ f.sym
        ++ nestCalls fs (blanks a ++ c.sym ++ joinArgs Ts ++ ')' :: blanks b) ++ ')' :: rest)
      = .error "arity" := by
  have := solve_nested_arity alg lit _ hadj u hu (cdepth e)
    (framed_len alg lit e hl pre post hpre hpost u hu)
    (fun n hd => itemOK_framed alg lit hn e hwf hl pre post hpre hpost n hd)
    f j rest fs c Ts hne hb hk a b
  simpa [List.append_assoc] using this

/-- (D, string level, ANY nesting depth) the same at the start of the string, e.g. `((sin(1,2)))`. -/
theorem C01_reject_arity_nested (alg : AtomAlg A) (lit : List Char → A)
    (f : F1) (fs : List (F1 × Nat × Nat)) (c : Call) (Ts : List (List Char)) (hne : Ts ≠ [])
    (hb : ∀ T ∈ Ts, nest T 0 = some 0) (hk : Ts.length ≠ c.narg) (j a b : Nat) (rest : List Char) :
    solve dflt alg dfltSteps (blanks j ++ f.sym
        ++ nestCalls fs (blanks a ++ c.sym ++ joinArgs Ts ++ ')' :: blanks b) ++ ')' :: rest)
      = .error "arity" := by
  have := solve_nested_arity alg lit [] trivial [] Pre.nil 0 (Nat.le_refl _)
    (fun _ _ _ h => by cases h) f j rest fs c Ts hne hb hk a b
  simpa [List.append_assoc] using this

/-- The full statement (character level): for every well-formed expression whose literals the
    atom class reads, and every blank oracle, `solve` on the rendered text returns `eval e`. -/
def C01_solve_eq_eval_statement : Prop :=
  ∀ (A : Type) (alg : AtomAlg A) (lit : List Char → A), NegNeg alg →
    ∀ e : E, e.WF → LitOK alg lit e → ∀ bl : List Nat,
      solve dflt alg dfltSteps (render bl e) = .ok (.atom (eval alg lit e))

/-- (B) **Character level: the tokeniser.** For every well-formed `e` and every blank oracle the
    tokeniser loop of `solve` (first operator in table order whose symbol prefixes the rest, atom
    text in between, argument scanner with depth counting, a nested solver per argument) turns
    the rendered text into exactly the token list `toks e`.  Rests on the kernel-decided facts
    of `Facts/C01Sym.lean` about the regenerated operator table. -/
theorem C01_tokenize_eq_toks (alg : AtomAlg A) (lit : List Char → A) (hn : NegNeg alg)
    (e : E) (hwf : e.WF) (hl : LitOK alg lit e) (bl : List Nat) :
    tokenize dflt alg dfltSteps (render bl e) = .ok (toks dflt alg lit e) := by
  obtain ⟨u, k, hr, hu⟩ := joinBlanks_pre (lexemes e) bl
  unfold render
  rw [hr]
  exact tokenize_text alg lit hn e hwf hl u k hu

/-- (A)+(B) **The property, first clause.** For every well-formed expression of the stratified
    grammar over the default operator set -- every nesting depth and length --, every atom class
    that reads its literals, and every placement of blanks, `solve` returns the value obtained
    by the documented order.  Unbounded; universally over the atom algebra under
    `neg (neg a) = a`. -/
theorem C01_solve_eq_eval (alg : AtomAlg A) (lit : List Char → A) (hn : NegNeg alg)
    (e : E) (hwf : e.WF) (hl : LitOK alg lit e) (bl : List Nat) :
    solve dflt alg dfltSteps (render bl e) = .ok (.atom (eval alg lit e)) := by
  obtain ⟨u, k, hr, hu⟩ := joinBlanks_pre (lexemes e) bl
  unfold render
  rw [hr]
  exact solve_text alg lit hn e hwf hl u k hu

/-- the statement kept visible since the first phase is now a theorem -/
theorem C01_solve_eq_eval_full : C01_solve_eq_eval_statement :=
  fun _ alg lit hn e hwf hl bl => C01_solve_eq_eval alg lit hn e hwf hl bl

/-- **Optional blanks around operators do not change the result.** -/
theorem C01_blank_invariance (alg : AtomAlg A) (lit : List Char → A) (hn : NegNeg alg)
    (e : E) (hwf : e.WF) (hl : LitOK alg lit e) (bl bl' : List Nat) :
    solve dflt alg dfltSteps (render bl e) = solve dflt alg dfltSteps (render bl' e) := by
  rw [C01_solve_eq_eval alg lit hn e hwf hl bl, C01_solve_eq_eval alg lit hn e hwf hl bl']

/-- The literals admitted by `LitOK` include every number literal of the grammar
    (`digits[.digits*][e digits]`, `.digits[e digits]`). -/
theorem C01_grammar_literals (t : List Char) (h : isGrammarLit t = true) : litSafe t = true :=
  grammarLit_safe t h

/-! ### Non-vacuity: the hypotheses have concrete, non-trivial instances -/

/-- integers with real negation, addition, subtraction, multiplication and power -/
def litInt : List Char → Int
  | [c] => ((c.toNat - 48 : Nat) : Int)
  | _ => 0

def intAlg : AtomAlg Int :=
  { parse := fun s => some (litInt s), constE := 3,
    un := fun f a => match f with | .neg => -a | _ => a,
    bin := fun f a b => match f with
      | .add => a + b | .sub => a - b | .mul => a * b | .pow => a ^ b.toNat | _ => 0 }

example : NegNeg intAlg := fun a => Int.neg_neg a

/-- `1 - -2**2`: a unary sign after a binary operator, before a power -/
def ex1 : E := .bin .sub (.num ['1']) (.bin .pow (.sign true (.num ['2'])) (.num ['2']))

example : ex1.WF := by simp [ex1, E.WF, E.level, B2.level]

/-- the documented order gives 1 - ((-2)**2) = -3, and so do the nine passes -/
example : eval intAlg litInt ex1 = -3 := by decide
example : solveToks dflt intAlg dfltSteps
    (toks dflt intAlg litInt ex1) = .ok (.atom (eval intAlg litInt ex1)) :=
  C01_tokens_eq_eval intAlg litInt (fun a => Int.neg_neg a) ex1 (by simp [ex1, E.WF, E.level, B2.level])

example : B2.mul.level ≠ 4 := by decide

/-- an atom class over digit strings: refuses every text with a parenthesis -/
def digAlg : AtomAlg Nat :=
  { parse := fun s => if s.all isDigit && !s.isEmpty then some s.length else none, constE := 3,
    un := fun _ a => a, bin := fun _ a b => a + b }

example : ParenFree digAlg := by
  intro t ht
  obtain ⟨c, hc, hp⟩ := List.any_eq_true.mp ht
  have hd : isDigit c = false := by
    simp only [isParen, Bool.or_eq_true, beq_iff_eq] at hp
    rcases hp with rfl | rfl <;> decide
  have : t.all isDigit = false := by
    cases h : t.all isDigit with
    | false => rfl
    | true => rw [List.all_eq_true.mp h c hc] at hd; cases hd
  show (if (t.all isDigit && !t.isEmpty) = true then some t.length else none) = none
  rw [this]; rfl

/-- a text of `1 *` (hypothesis of the string-level operand rejections): `1 *` with one blank -/
example : Pre (lexemes (.num ['1']) ++ [B2.mul.sym]) ['1', ' ', '*'] := by
  simpa [blanks, lexemes, B2.sym] using Pre.cons 0 ['1'] (Pre.cons 1 ['*'] Pre.nil)

/-- a prefix text for the general-position arity rejections: `1 *` in front of `sin(1,2)` -/
example : Pre (lexemes (.num ['1']) ++ [(OprK.bin .mul).sym]) ['1', ' ', '*'] := by
  simpa [blanks, lexemes, B2.sym, OprK.sym] using Pre.cons 0 ['1'] (Pre.cons 1 ['*'] Pre.nil)

/-- `1 * sin(1,2)+7` is rejected with "arity" (instance of `C01_reject_arity_after_operator`) -/
example : solve dflt intAlg dfltSteps
    (['1', ' ', '*'] ++ blanks 1 ++ (Call.f1 .sin).sym ++ joinArgs [['1'], ['2']] ++ ')' :: ['+', '7'])
      = .error "arity" :=
  C01_reject_arity_after_operator intAlg litInt (fun a => Int.neg_neg a) (.num ['1']) trivial
    ⟨by decide, rfl⟩ (.bin .mul) _
    (by simpa [blanks, lexemes, B2.sym, OprK.sym] using Pre.cons 0 ['1'] (Pre.cons 1 ['*'] Pre.nil))
    (.f1 .sin) [['1'], ['2']] (by simp) (by decide) (by decide) 1 ['+', '7']

/-- `( 1 *) +7` is rejected with "operand" (instance of `C01_reject_missing_operand_in_call`) -/
example : solve dflt intAlg dfltSteps
    (blanks 0 ++ F1.par.sym ++ ['1', ' ', '*'] ++ blanks 0 ++ ')' :: ['+', '7']) = .error "operand" :=
  C01_reject_missing_operand_in_call intAlg litInt (fun a => Int.neg_neg a) .par (.num ['1']) trivial
    ⟨by decide, rfl⟩ (.bin .mul) (by simp) _
    (by simpa [blanks, lexemes, B2.sym, OprK.sym] using Pre.cons 0 ['1'] (Pre.cons 1 ['*'] Pre.nil))
    0 0 ['+', '7']

/-- `(sin( (1 *) ))` : two more levels around `(1 *)` (instance of `C01_reject_missing_operand_nested`) -/
example : nestCalls [(.sin, 0, 0), (.par, 1, 1)] ['1', ' ', '*']
    = "sin( (1 *) )".toList := by decide

example : ¬ Balanced ['(', '1'] := by unfold Balanced; decide
example : ¬ Balanced ['1', ')', '('] := by unfold Balanced; decide
example : ∀ T ∈ [['1'], ['2', '+', '(', '3', ')']], nest T 0 = some 0 := by decide
example : [['1'], ['2']].length ≠ (Call.f1 .sin).narg := by decide

example : LitOK termAlg Term.num ex1 := by
  simp [ex1, LitOK]; decide

/-- rendered with blanks: ` 1-  -2**2` -/
example : render [1, 0, 2] ex1 = [' ', '1', '-', ' ', ' ', '-', '2', '*', '*', '2'] := by decide

example : isGrammarLit ['1', '2', '.', '5', 'e', '3'] = true := by decide

end SciVerif.C01
