import SciVerif.Lemmas.C20
import SciVerif.Lemmas.C20c
import SciVerif.Lemmas.C20d

/-!
# C20 — Table, row and grid helpers behave like their simple models

Only property theorems live here (helper lemmas are in `Lemmas/C20*.lean`).
Every theorem quantifies over all operation sequences / sizes / item lists.
-/
namespace SciVerif.C20
variable {K V : Type} [DecidableEq K]

/-- ParameterTable (keyed): after *any* operation sequence from the empty table
    (i) every output equals the output of the insertion-ordered-map specification,
    (ii) the dict content equals the specification state, (iii) `_keys` is exactly the
    dict's key order and has no duplicates. -/
theorem C20_table_refines (ops : List (Op K V)) :
    ((Tbl.init : Tbl K V).run ops).2 = (specRun [] ops).2 ∧
    ((Tbl.init : Tbl K V).run ops).1.data = (specRun [] ops).1 ∧
    ((Tbl.init : Tbl K V).run ops).1.keys = ((Tbl.init : Tbl K V).run ops).1.data.map Prod.fst ∧
    ((Tbl.init : Tbl K V).run ops).1.keys.Nodup := by
  have h := run_refines (Tbl.init : Tbl K V) ⟨rfl, List.nodup_nil⟩ ops
  exact ⟨h.2.2, h.2.1, h.1.1, h.1.2⟩

/-- The specification really is a map: reading a key just written returns the value. -/
theorem C20_spec_get_set (m : List (K × V)) (k : K) (v : V) : dget (dset m k v) k = some v := by
  induction m with
  | nil => simp [dset, dget]
  | cons a t ih =>
    obtain ⟨k', v'⟩ := a
    by_cases h : k' = k <;> simp [dset, dget, h, ih]

/-- … and writing one key does not disturb another. -/
theorem C20_spec_get_set_other (m : List (K × V)) (k k2 : K) (v : V) (hne : k2 ≠ k) :
    dget (dset m k v) k2 = dget m k2 := by
  induction m with
  | nil => simp [dset, dget, hne.symm]
  | cons a t ih =>
    obtain ⟨k', v'⟩ := a
    by_cases h : k' = k
    · subst h; simp [dset, dget, hne.symm]
    · by_cases h2 : k' = k2
      · subst h2; simp [dset, dget, h]
      · simp [dset, dget, h, h2, ih]

/-- Deleting removes the key. -/
theorem C20_spec_get_del (m : List (K × V)) (k : K) (hn : (m.map Prod.fst).Nodup) :
    dget (ddel m k) k = none := by
  induction m with
  | nil => simp [ddel, dget]
  | cons a t ih =>
    obtain ⟨k', v'⟩ := a
    simp only [List.map_cons, List.nodup_cons] at hn
    by_cases h : k' = k
    · subst h
      simp only [ddel, if_true]
      clear ih
      induction t with
      | nil => rfl
      | cons b t iht =>
        have hb : ¬ b.1 = k' := by
          intro e; exact hn.1 (by simp [← e])
        obtain ⟨kb, vb⟩ := b
        simp only [dget, hb, if_false]
        simp only [List.map_cons, List.nodup_cons, List.mem_cons, not_or] at hn
        exact iht ⟨hn.1.2, hn.2.2⟩
    · simp [ddel, dget, h, ih hn.2]

/-- RowCollector: appending a row (as list) to a well-formed collector appends exactly that
    row (truncated to the number of columns) to the row view and keeps all earlier rows. -/
theorem C20_rows_preserved {α : Type} (r : RC α) (row : List α) (h : r.WF)
    (hl : r.cols.length ≤ row.length) :
    ∃ r', r.appendRow row = some r' ∧ r'.WF ∧ r'.names = r.names ∧
      r'.rows = r.rows ++ [row.take r.cols.length] :=
  appendRow_rows r row h hl

/-- Any sequence of list-appends: the row view is exactly the list of appended rows. -/
theorem C20_rows_preserved_seq {α : Type} (r : RC α) (rows : List (List α)) (h : r.WF)
    (hl : ∀ row ∈ rows, row.length = r.cols.length) :
    ∃ r', rows.foldlM (fun s row => RC.appendRow s row) r = some r' ∧ r'.WF ∧
      r'.cols.length = r.cols.length ∧ r'.rows = r.rows ++ rows := by
  induction rows generalizing r with
  | nil => exact ⟨r, rfl, h, rfl, by simp⟩
  | cons row rest ih =>
    have hrow := hl row (by simp)
    obtain ⟨r1, e1, w1, _, rows1⟩ := appendRow_rows r row h (by omega)
    have hc1 : r1.cols.length = r.cols.length := by
      have : ¬ row.length < r.cols.length := by omega
      simp only [RC.appendRow, this, if_false, Option.some.injEq] at e1
      rw [← e1]; simp [List.length_zipWith, hrow]
    obtain ⟨r', e', w', c', rows'⟩ := ih r1 w1 (fun x hx => by rw [hc1]; exact hl x (by simp [hx]))
    refine ⟨r', by simp [List.foldlM_cons, e1, e'], w', by omega, ?_⟩
    rw [rows', rows1, ← hrow, List.take_length]; simp

/-- RowCollector.sort: whatever index list `argsort` returns, as long as it is a permutation
    of the row indices, whole rows are permuted (the multiset of rows is unchanged) … -/
theorem C20_sort_perm {α : Type} (r : RC α) (ids : List Nat) (h : r.WF)
    (hp : ids.Perm (List.range r.size)) :
    (r.sortWith ids).WF ∧ (r.sortWith ids).rows = takeIdx r.rows ids ∧
      (r.sortWith ids).rows.Perm r.rows := by
  have hid : ∀ i ∈ ids, i < r.size := fun i hi => List.mem_range.mp (hp.mem_iff.mp hi)
  obtain ⟨w, e⟩ := sortWith_rows r ids h hid
  refine ⟨w, e, ?_⟩
  rw [e]
  apply takeIdx_perm
  have : r.rows.length = r.size := by simp [RC.rows]
  rw [this]; exact hp

/-- … and row `j` of the result is row `ids[j]` of the input, so the key column of the
    result is the key column re-indexed by `ids`: it is sorted exactly when `argsort`
    met its specification. -/
theorem C20_sort_sorted {α : Type} (r : RC α) (ids : List Nat) (h : r.WF)
    (hid : ∀ i ∈ ids, i < r.size) (j : Nat) (hj : j < ids.length) :
    (r.sortWith ids).rows[j]? = r.rows[ids[j]]? := by
  obtain ⟨_, e⟩ := sortWith_rows r ids h hid
  rw [e, takeIdx_getElem? _ _ (fun i hi => by simpa [RC.rows] using hid i hi)]
  simp [List.getElem?_eq_getElem hj]

/-- DataPlotGrid: the data cells and the missing cells together are exactly the cell
    indices `0 … ncols*nrows-1`, each once. -/
theorem C20_grid_partition (n ncols : Nat) (hc : 0 < ncols) (tr : Bool) :
    (gridItems n ncols false tr).map (·.1) ++ (gridItems n ncols true tr).map (·.1) =
      List.range (ncols * gridRows n ncols) := by
  have hle := n_le_grid n ncols hc
  simp only [gridItems, List.map_map, Bool.false_eq_true, if_false, if_true]
  have h1 : ∀ l : List Nat, l.map ((fun (x : Nat × Nat × Nat) => x.1) ∘ fun i =>
      if tr = true then (i, cellT (gridRows n ncols) i) else (i, cellN ncols i)) = l := by
    intro l
    induction l with
    | nil => rfl
    | cons a t ih => cases tr <;> simp_all
  rw [h1, h1]
  have : List.range n = (List.range (ncols * gridRows n ncols)).take n := by
    rw [List.take_range]; congr 1; omega
  rw [this, List.take_append_drop]

/-- The grid has no spare row: fewer than `ncols` cells are missing. -/
theorem C20_grid_tight (n ncols : Nat) (hc : 0 < ncols) :
    n ≤ ncols * gridRows n ncols ∧ ncols * gridRows n ncols < n + ncols :=
  ⟨n_le_grid n ncols hc, grid_tight n ncols hc⟩

/-- Normal order: cell index ↦ (row, col) is a bijection from `0 … R*C-1` onto the grid. -/
theorem C20_grid_cover (R C : Nat) (hC : 0 < C) :
    (∀ i, i < C * R → (cellN C i).1 < R ∧ (cellN C i).2 < C) ∧
    (∀ i j, cellN C i = cellN C j → i = j) ∧
    (∀ r c, r < R → c < C → ∃ i, i < C * R ∧ cellN C i = (r, c)) :=
  ⟨fun i hi => cellN_bounds R C i hC hi, cellN_inj C, fun r c hr hc => cellN_surj R C r c hr hc⟩

/-- Transposed order: the same for (i % R, i / R). -/
theorem C20_grid_cover_transposed (R C : Nat) (hR : 0 < R) :
    (∀ i, i < C * R → (cellT R i).1 < R ∧ (cellT R i).2 < C) ∧
    (∀ i j, cellT R i = cellT R j → i = j) ∧
    (∀ r c, r < R → c < C → ∃ i, i < C * R ∧ cellT R i = (r, c)) :=
  ⟨fun i hi => cellT_bounds R C i hR hi, cellT_inj R, fun r c hr hc => cellT_surj R C r c hr hc⟩

/-- DataCombination: `values()` is exactly the Cartesian product … -/
theorem C20_product_mem {α : Type} (items : List (List α)) (v : List α) :
    v ∈ comboValues items ↔ InProd v items := mem_product items v

/-- … with as many entries as the product of the list lengths … -/
theorem C20_product_length {α : Type} (items : List (List α)) :
    (comboValues items).length = (items.map List.length).prod := length_product items

/-- … `keys()` enumerates every index tuple exactly once … -/
theorem C20_product_keys {α : Type} (items : List (List α)) :
    (comboKeys items).Nodup ∧ (comboKeys items).length = (items.map List.length).prod ∧
    ∀ ks, ks ∈ comboKeys items ↔ InProd ks (items.map (fun l => List.range l.length)) := by
  refine ⟨?_, ?_, fun ks => mem_product _ ks⟩
  · apply product_nodup
    intro l hl
    simp only [List.mem_map] at hl
    obtain ⟨l0, _, rfl⟩ := hl
    exact List.nodup_range
  · simp [comboKeys, length_product, List.map_map, Function.comp_def]

/-- … and `items()` pairs every index tuple with exactly the tuple of items it indexes:
    the key list is `keys()`, the looked-up values are `values()`, position by position,
    and no lookup is out of range. -/
theorem C20_product_items_aligned {α : Type} (items : List (List α)) :
    (comboItems items).map (·.1) = comboKeys items ∧
    (comboItems items).map (·.2) = (comboValues items).map some := by
  constructor
  · simp [comboItems, List.map_map, Function.comp_def]
  · simp only [comboItems, List.map_map, Function.comp_def, comboValues]
    exact combo_lookup items

/-- RowCollector: appending a dict that has exactly the column names (in any order) is the
    same as appending the list of its values read in column order. -/
theorem C20_dict_row {α : Type} (r : RC α) (kvs : List (String × α)) (vals : List α)
    (hk : ∀ kv ∈ kvs, kv.1 ∈ r.names)
    (hv : r.names.mapM (fun n => dget kvs n) = some vals) :
    r.appendDict kvs = r.appendRow vals := appendDict_eq r kvs vals hk hv

/-! Non-vacuity: concrete instances of the hypotheses used above. -/
example : (RC.mk ["a", "b"] [[1, 2], [3, 4]] : RC Nat).WF := by
  refine ⟨by simp, ?_⟩; intro c hc; simp at hc; rcases hc with rfl | rfl <;> rfl
example : [1, 0].Perm (List.range (RC.mk ["a", "b"] [[1, 2], [3, 4]] : RC Nat).size) := by
  decide
example : ((Tbl.init : Tbl String Nat).run [.append "a" 1, .append "b" 2, .append "a" 3,
    .del "a", .getPos (-1), .keys]).2 = [.unit, .unit, .unit, .unit, .val 2, .keys ["b"]] := by
  decide
example : (["a", "b"] : List String).mapM (fun n => dget [("b", 2), ("a", 1)] n) = some [1, 2] := by
  decide
example : gridItems 5 3 true false = [(5, 1, 2)] := by decide

end SciVerif.C20
