import Mathlib.Analysis.SpecialFunctions.Pow.Real
import SciVerif.Lemmas.C03c
import SciVerif.Lemmas.C03d
import SciVerif.Lemmas.C03e
import SciVerif.Lemmas.C03i
import SciVerif.Lemmas.C03m
import SciVerif.Lemmas.C03p
import SciVerif.Lemmas.C03q
import SciVerif.Lemmas.C03r
import SciVerif.Facts.C03F1
import SciVerif.Facts.C03F2
import SciVerif.Facts.C03F3
import SciVerif.Facts.C03F4
import SciVerif.Facts.C03F7
import SciVerif.Facts.C03PrefShape
import SciVerif.Facts.C03Unique
import SciVerif.Facts.C03Positive
import SciVerif.Facts.C03PrefixDefs

/-!
# C03 — A unit expression means the product of its table entries

Only property theorems (helper lemmas: `Lemmas/C03*.lean`; kernel-decided facts about the
regenerated table: `Facts/C03*.lean`).  `T` is an arbitrary table unless the name ends in
`_table`, where it is the table regenerated from the live package (`Gen.tables`).
-/
namespace SciVerif.C03
open Facts

/-- Atom parser soundness, for EVERY string: an accepted text is a number literal matched by the
    number pattern, a key of the system-unit table followed by an exponent text, or exactly `prefix ++ symbol ++ exponent text` with an
    admissible prefix–symbol pair — no foreign character is swallowed, no inadmissible prefix passes. -/
theorem C03_atom_sound (T : Tables) (hT : noBlankHead T) (s : Str) (a : Atom)
    (h : atomParse T s = .ok a) :
    (∃ parts q, numberParts s = some parts ∧ floatOfParts parts = some q ∧ a = ⟨q, []⟩) ∨
    (∃ n e x, a = ⟨1, [(.sys n, e)]⟩ ∧ (T.findSys n).isSome = true ∧ s = n ++ x ∧ expTextOf x e) ∨
    (∃ p b e x, a = ⟨1, [(.std p b, e)]⟩ ∧ s = p ++ b ++ x ∧ expTextOf x e ∧ admissible T p b) := by
  rcases atomParse_cases T s a h with h1 | ⟨u, e, _, hu, rfl⟩
  · exact Or.inl h1
  · cases u with
    | sys n =>
      obtain ⟨hf, x, hs, hx⟩ := unitParse_sys_sound T s n e hu
      exact Or.inr (Or.inl ⟨n, e, x, rfl, hf, hs, hx⟩)
    | std p b =>
      obtain ⟨x, hs, hx, hadm⟩ := unitParse_sound T hT s p b e hu
      exact Or.inr (Or.inr ⟨p, b, e, x, rfl, hs, hx, hadm⟩)

/-- … in particular on the shipped table (the side condition is fact F4). -/
theorem C03_atom_sound_table (s p b : Str) (e : Frac)
    (h : atomParse Gen.tables s = .ok ⟨1, [(.std p b, e)]⟩) :
    ∃ x, s = p ++ b ++ x ∧ expTextOf x e ∧ admissible Gen.tables p b := by
  rcases C03_atom_sound Gen.tables (factF4_noBlank C03_fact_F4) s _ h with
    ⟨_, _, _, _, h1⟩ | ⟨_, _, _, h1, _⟩ | ⟨p', b', e', x, h1, hs, hx, hadm⟩
  · cases h1
  · cases h1
  · cases h1; exact ⟨x, hs, hx, hadm⟩

/-- Rejection (unknown symbol, inadmissible prefix, extra characters in front of a symbol): a text
    that is not a number literal, does not start with the system-unit mark and cannot be read as
    admissible prefix ++ symbol ++ exponent characters is rejected. -/
theorem C03_reject_unreadable (T : Tables) (hT : noBlankHead T) (s : Str)
    (hnum : numberParts s = none) (hsys : ∀ n e, unitParse T s ≠ .ok (.sys n, e))
    (hno : ∀ p b x, s = p ++ b ++ x → ¬ admissible T p b) :
    ∃ err, atomParse T s = .error err := by
  cases h : atomParse T s with
  | error err => exact ⟨err, rfl⟩
  | ok a =>
    exfalso
    rcases atomParse_cases T s a h with ⟨parts, _, hp, _⟩ | ⟨u, e, _, hu, _⟩
    · rw [hnum] at hp; cases hp
    · cases u with
      | sys n => exact hsys n e hu
      | std p b =>
        obtain ⟨x, hs, _, hadm⟩ := unitParse_sound T hT s p b e hu
        exact hno p b x hs hadm

/-- A prefix the unit does not admit is never accepted: whatever `atomParse` returns for any text,
    a returned prefix is a key of the prefix table that the returned unit's row admits. -/
theorem C03_reject_prefix (T : Tables) (hT : noBlankHead T) (s p b : Str) (e : Frac) (hp : p ≠ [])
    (h : atomParse T s = .ok ⟨1, [(.std p b, e)]⟩) :
    ∃ row ∈ T.units, row.sym = b ∧ p ∈ T.prefixKeys ∧ admits T row p = true := by
  rcases C03_atom_sound T hT s _ h with ⟨_, _, _, _, h1⟩ | ⟨_, _, _, h1, _⟩ | ⟨p', b', e', x, h1, _, _, hadm⟩
  · cases h1
  · cases h1
  · cases h1
    obtain ⟨row, hr, hsym, hor⟩ := hadm
    rcases hor with h0 | h0
    · exact absurd h0 hp
    · exact ⟨row, hr, hsym, h0⟩

/-- Atom parser completeness from the table facts F1–F4: every admissible prefix ++ symbol ++
    exponent text is accepted and yields exactly that prefix, symbol and exponent. -/
theorem C03_atom_complete (T : Tables) (h1 : factF1 T = true) (h2 : factF2 T = true)
    (h3 : factF3 T = true) (h4 : factF4 T = true) (u : UnitRow) (hu : u ∈ T.units)
    (p : Str) (hp : p ∈ [] :: admPrefixes T u) (x : Str) (e : Frac) (hx : expTextOf x e) :
    atomParse T (p ++ u.sym ++ x) = .ok ⟨1, [(.std p u.sym, e)]⟩ := by
  unfold atomParse
  rw [numberParts_none_of_symbol T h4 u hu p x, unitParse_complete T h1 h2 h3 h4 u hu p hp x e hx]

/-- … on the shipped table, with the facts decided by the kernel over the whole table. -/
theorem C03_atom_complete_table (u : UnitRow) (hu : u ∈ Gen.tables.units)
    (p : Str) (hp : p ∈ [] :: admPrefixes Gen.tables u) (x : Str) (e : Frac) (hx : expTextOf x e) :
    atomParse Gen.tables (p ++ u.sym ++ x) = .ok ⟨1, [(.std p u.sym, e)]⟩ :=
  C03_atom_complete Gen.tables C03_fact_F1 C03_fact_F2 C03_fact_F3 C03_fact_F4 u hu p hp x e hx

/-- `check_unique_symbols`' condition on the shipped table: two admitted prefix ++ symbol texts
    are equal only if they are the same prefix and the same table row. -/
theorem C03_table_unique (u1 u2 : UnitRow) (hu1 : u1 ∈ Gen.tables.units) (hu2 : u2 ∈ Gen.tables.units)
    (p1 p2 : Str) (hp1 : p1 ∈ [] :: admPrefixes Gen.tables u1) (hp2 : p2 ∈ [] :: admPrefixes Gen.tables u2)
    (h : p1 ++ u1.sym = p2 ++ u2.sym) : u1 = u2 ∧ p1 = p2 :=
  reading_unique Gen.tables C03_fact_F1 u1 u2 hu1 hu2 p1 p2 hp1 hp2 h

/-- Exponent bookkeeping of `Atom.__mul__`: the exponent of every unit in the product is the sum. -/
theorem C03_mul_exponents (a b : Atom) (v : UnitId) (ha : densOk a.units) (hb : densOk b.units) :
    expR (a.mul b).units v = expR a.units v + sumR b.units v ∧ densOk (a.mul b).units ∧
    (a.mul b).mag = a.mag * b.mag :=
  ⟨(mergeAdd_spec a.units b.units v ha hb).1, (mergeAdd_spec a.units b.units v ha hb).2, rfl⟩

/-- Exponent bookkeeping of `Atom.__truediv__`: the difference; dividing by a zero number raises. -/
theorem C03_div_exponents (a b c : Atom) (v : UnitId) (ha : densOk a.units) (hb : densOk b.units)
    (h : a.div b = some c) :
    expR c.units v = expR a.units v - sumR b.units v ∧ densOk c.units ∧ c.mag = a.mag / b.mag ∧ b.mag ≠ 0 := by
  unfold Atom.div at h
  split at h
  · cases h
  · rename_i hne
    cases h
    exact ⟨(mergeSub_spec a.units b.units v ha hb).1, (mergeSub_spec a.units b.units v ha hb).2, rfl, hne⟩

/-- The specification obeys the same laws: the exponent of a unit in a multiset union is the sum,
    in a negated multiset the negative. -/
theorem C03_spec_exponents (l1 l2 : List (UnitId × Rat)) (u : UnitId) :
    expOf (l1 ++ l2) u = expOf l1 u + expOf l2 u ∧ expOf (negExps l1) u = - expOf l1 u := by
  constructor
  · simp [expOf, List.sum_append]
  · unfold expOf negExps
    induction l1 with
    | nil => simp
    | cons a t ih =>
      simp only [List.map_cons, List.sum_cons] at ih ⊢
      rw [ih]
      by_cases h : a.1 = u <;> simp [h]; ring

/-- The binary pass of the solver over `a0 op1 a1 op2 a2 …` (any length) is the left fold. -/
theorem C03_binary_pass_fold (a0 : Atom) (ops : List (Bool × Atom)) :
    binPass [] (.val (some a0) :: chainToks ops) =
      match foldChain a0 ops with
      | some r => .ok [.val (some r)]
      | none => .error .zeroDiv := by
  have e : binPass [] (.val (some a0) :: chainToks ops) = binPass [.val (some a0)] (chainToks ops) := by
    simp [binPass]
  rw [e, binPass_chain a0 ops]
  cases foldChain a0 ops <;> rfl

/-- total exponent a chain of operands contributes to a unit: `+` for `*`, `−` for `/` -/
def chainSum (v : UnitId) : List (Bool × Atom) → Rat
  | [] => 0
  | (true, b) :: rest => sumR b.units v + chainSum v rest
  | (false, b) :: rest => - sumR b.units v + chainSum v rest

/-- Token level (any number of operands): the atom the solver's binary pass returns for
    `a0 op1 a1 …` has, for every unit, the exponent `a0 ± a1 ± …`. -/
theorem C03_chain_exponents (a0 r : Atom) (ops : List (Bool × Atom)) (v : UnitId)
    (h0 : densOk a0.units) (hops : ∀ x ∈ ops, densOk x.2.units) (h : foldChain a0 ops = some r) :
    expR r.units v = expR a0.units v + chainSum v ops ∧ densOk r.units := by
  induction ops generalizing a0 with
  | nil => simp [foldChain] at h; subst h; simp [chainSum, h0]
  | cons x rest ih =>
    obtain ⟨m, b⟩ := x
    have hb : densOk b.units := hops (m, b) (by simp)
    have hrest : ∀ x ∈ rest, densOk x.2.units := fun x hx => hops x (List.mem_cons_of_mem _ hx)
    cases m with
    | true =>
      simp only [foldChain] at h
      obtain ⟨e1, d1, _⟩ := C03_mul_exponents a0 b v h0 hb
      obtain ⟨e2, d2⟩ := ih (a0.mul b) d1 hrest h
      refine ⟨?_, d2⟩
      rw [e2, e1]; simp only [chainSum]; ring
    | false =>
      simp only [foldChain] at h
      cases hd : a0.div b with
      | none => rw [hd] at h; cases h
      | some c =>
        rw [hd] at h
        obtain ⟨e1, d1, _⟩ := C03_div_exponents a0 b c v h0 hb hd
        obtain ⟨e2, d2⟩ := ih c d1 hrest h
        refine ⟨?_, d2⟩
        rw [e2, e1]; simp only [chainSum]; ring

/-- THE EXPRESSION THEOREM, TEXT LEVEL.  For every unit AST `a` that has a denotation `d` over the
    tables (admissible prefix–symbol pairs, system units, number literals, products, quotients,
    parentheses; `*` `/` left-associative) and EVERY rendering `s` of it — any blanks around leaves
    and parentheses — the character scan with the parenthesis depth counter, the recursive solution
    of parenthesised arguments and the passes of `UnitSolver` return an atom whose number is the
    coefficient of `d` and whose exponent of every unit is the exponent `d` gives it.
    (`T` arbitrary; the side conditions are the kernel-decided table facts.) -/
theorem C03_expr_denotation (T : Tables) (h1 : factF1 T = true) (h2 : factF2 T = true)
    (h3 : factF3 T = true) (h4 : factF4 T = true) (h7 : factF7 T = true)
    (a : U) (s : Str) (hs : Renders a s) (hla : a.leftAssoc = true) (d : Den) (hd : denote T a = some d) :
    ∃ r, unitSolver T s = .ok r ∧ r.mag = d.coef ∧ ∀ u, expR r.units u = expOf d.exps u := by
  obtain ⟨hp, v, hv, hag⟩ := evalU_denote T h1 h2 h3 h4 h7 a d hd
  exact ⟨v, unitSolver_renders T a s hs hp hla v hv, hag.mag, hag.exps⟩

/-- … on the shipped table, for the rendering without blanks. -/
theorem C03_expr_denotation_table (a : U) (hla : a.leftAssoc = true) (d : Den)
    (hd : denote Gen.tables a = some d) :
    ∃ r, unitSolver Gen.tables a.render = .ok r ∧ r.mag = d.coef ∧
      ∀ u, expR r.units u = expOf d.exps u :=
  C03_expr_denotation Gen.tables C03_fact_F1 C03_fact_F2 C03_fact_F3 C03_fact_F4 C03_fact_F7
    a a.render (renders_render a) hla d hd

/-- The fuel the driver supplies always suffices: `UnitSolver` never reports a fuel error, for
    EVERY input text (so a `fuel` answer of the driver is impossible). -/
theorem C03_fuel_suffices (T : Tables) (s : Str) : unitSolver T s ≠ .error .fuel :=
  unitSolver_no_fuel T s

/-- Dimension vector, TEXT LEVEL: for every rendering of an AST with denotation `d`,
    `BaseUnits(text)` succeeds and its dimension vector is `Σ e·dim(u)` over `d`. -/
theorem C03_dims_total (T : Tables) (h1 : factF1 T = true) (h2 : factF2 T = true) (h3 : factF3 T = true)
    (h4 : factF4 T = true) (h7 : factF7 T = true) (hpos : factPositive T = true)
    (a : U) (s : Str) (hs : Renders a s) (hla : a.leftAssoc = true) (d : Den) (hd : denote T a = some d) :
    ∃ b, baseUnitsOfText T s = .ok b ∧ b.dims.map Frac.toRat = specDims T d.exps := by
  have hT : tableDimsOk T := by
    have h := hpos
    unfold factPositive at h
    simp only [Bool.and_eq_true, List.all_eq_true, decide_eq_true_eq, beq_iff_eq, bne_iff_ne, ne_eq] at h
    exact ⟨fun u hu => ⟨(h.1.2 u hu).1.2, (h.1.2 u hu).2⟩, fun u hu => ⟨(h.2 u hu).1.2, (h.2 u hu).2⟩⟩
  exact baseUnits_dims_total T h1 h2 h3 h4 h7 hpos hT a s hs hla d hd

/-- Conversion factor of `Quantity(1,text)`, TEXT LEVEL, over ℝ: for every rendering of an AST with
    denotation `d`, the quantity is built and its value in base units — number × factors moved
    by the "dimensionless" block × magnitude of its units, each factor `x ** (n/d)` read as the real
    power — is the numeric coefficient times `Π (prefix·unit)^e` over `d` (the fold over the whole
    exponent map; zero exponents, un-normalised fractions and `rebase` included). -/
theorem C03_quantity_factor (T : Tables) (h1 : factF1 T = true) (h2 : factF2 T = true) (h3 : factF3 T = true)
    (h4 : factF4 T = true) (h7 : factF7 T = true) (hpos : factPositive T = true)
    (a : U) (s : Str) (hs : Renders a s) (hla : a.leftAssoc = true) (d : Den) (hd : denote T a = some d) :
    ∃ q, quantityOfText T s = .ok q ∧ q.total = ((d.coef : ℚ) : ℝ) * specFactor T d.exps := by
  obtain ⟨q, hq⟩ := quantity_exists T h1 h2 h3 h4 h7 hpos a s hs hla d hd
  exact ⟨q, hq, quantity_total T h1 h2 h3 h4 h7 hpos a s hs hla d hd q hq⟩

/-- Full statement for `BaseUnits(text).magnitude`: the conversion factor of the expression,
    numeric factors included. -/
def C03_baseunits_factor_statement (T : Tables) : Prop :=
  ∀ (a : U) (s : Str) (d : Den), Renders a s → a.leftAssoc = true → denote T a = some d →
    ∃ b, baseUnitsOfText T s = .ok b ∧ magR b.factors = ((d.coef : ℚ) : ℝ) * specFactor T d.exps

/-- Proved part: `BaseUnits(text)` succeeds and its magnitude is `Π (prefix·unit)^e` over the whole
    exponent map — which is the conversion factor exactly when the expression's numeric coefficient
    is 1 (guard `d.coef = 1`); a numeric factor is discarded (known finding). -/
theorem C03_baseunits_factor_partial (T : Tables) (h1 : factF1 T = true) (h2 : factF2 T = true)
    (h3 : factF3 T = true) (h4 : factF4 T = true) (h7 : factF7 T = true) (hpos : factPositive T = true)
    (a : U) (s : Str) (hs : Renders a s) (hla : a.leftAssoc = true) (d : Den) (hd : denote T a = some d) :
    ∃ b, baseUnitsOfText T s = .ok b ∧ magR b.factors = specFactor T d.exps ∧
      (d.coef = 1 → magR b.factors = ((d.coef : ℚ) : ℝ) * specFactor T d.exps) := by
  obtain ⟨v, b, _, _, htext, _, hmag⟩ := baseUnits_total T h1 h2 h3 h4 h7 hpos a s hs hla d hd
  exact ⟨b, htext, hmag, fun hc => by rw [hmag, hc]; simp⟩

/-- The full statement fails on the code as it is (mirrored by the model): `BaseUnits('2*m')` has
    magnitude 1, the table product is 2. -/
theorem C03_baseunits_factor_counterexample : ¬ C03_baseunits_factor_statement Gen.tables := by
  intro h
  let a : U := .mul (.num ['2']) (.atom [] ['m'] [])
  have hd : denote Gen.tables a = some ⟨2, [(.std [] ['m'], 1)]⟩ := by decide +kernel
  obtain ⟨b, hb, hmag⟩ := h a a.render _ (renders_render a) (by decide) hd
  obtain ⟨b', hb', hmag', _⟩ := C03_baseunits_factor_partial Gen.tables C03_fact_F1 C03_fact_F2 C03_fact_F3
    C03_fact_F4 C03_fact_F7 C03_fact_positive a a.render (renders_render a) (by decide) _ hd
  rw [hb] at hb'
  cases hb'
  rw [hmag'] at hmag
  have hk : keyMag Gen.tables (.std [] ['m']) = 1 := by
    have : unitMag Gen.tables (.std [] ['m']) = some 1 := by decide +kernel
    simp [keyMag, this]
  simp [specFactor, hk] at hmag

/-- Conversion factor over ℝ: for a positive table magnitude, adding exponents of the same unit
    multiplies the factors (`x^(e₁+e₂) = x^e₁·x^e₂`), subtracting divides, and the factor of a
    prefixed unit is the product of the prefix factor and the unit factor — so the factor of the
    merged exponent map is the product of `(prefix·unit)^e` over all terms. -/
theorem C03_factor (x y : ℝ) (hx : 0 < x) (hy : 0 < y) (e1 e2 : Frac) (h1 : e1.den ≠ 0) (h2 : e2.den ≠ 0) :
    x ^ (((e1.add e2).toRat : ℚ) : ℝ) = x ^ ((e1.toRat : ℚ) : ℝ) * x ^ ((e2.toRat : ℚ) : ℝ) ∧
    x ^ (((e1.sub e2).toRat : ℚ) : ℝ) = x ^ ((e1.toRat : ℚ) : ℝ) / x ^ ((e2.toRat : ℚ) : ℝ) ∧
    (x * y) ^ ((e1.toRat : ℚ) : ℝ) = x ^ ((e1.toRat : ℚ) : ℝ) * y ^ ((e1.toRat : ℚ) : ℝ) := by
  refine ⟨?_, ?_, ?_⟩
  · rw [Frac.toRat_add e1 e2 h1 h2, Rat.cast_add, Real.rpow_add hx]
  · rw [Frac.toRat_sub e1 e2 h1 h2, Rat.cast_sub, Real.rpow_sub hx]
  · exact Real.mul_rpow hx.le hy.le

/-- all magnitudes of the shipped table are positive (so `C03_factor` applies to every entry) -/
theorem C03_magnitudes_positive_table :
    (∀ p ∈ Gen.tables.prefixes, 0 < p.mag) ∧ (∀ u ∈ Gen.tables.units, 0 < u.mag) ∧
    (∀ u ∈ Gen.tables.sys, 0 < u.mag) := by
  have h := C03_fact_positive
  unfold factPositive at h
  simp only [Bool.and_eq_true, List.all_eq_true, decide_eq_true_eq] at h
  exact ⟨fun p hp => h.1.1 p hp, fun u hu => (h.1.2 u hu).1.1, fun u hu => (h.2 u hu).1.1⟩

/-- Dimension vector: what `BaseUnits.__init__` accumulates for ANY exponent dict (unnormalised
    `Fraction` arithmetic, zero exponents skipped) is `Σ e·dim(u)` over the dict entries. -/
theorem C03_dims (T : Tables) (hT : tableDimsOk T) (m : ExpMap) (b : BaseUnits) (hm : densOk m)
    (h : baseUnitsOfMap T m = some b) :
    b.dims.map Frac.toRat = specDims T (m.map (fun ue => (ue.1, ue.2.toRat))) := by
  have hz : dimsOk BaseUnits.empty.dims := by
    refine ⟨by simp [BaseUnits.empty, zeroDims], ?_⟩
    intro f hf
    simp only [BaseUnits.empty, zeroDims, List.mem_replicate] at hf
    rw [hf.2]; decide
  obtain ⟨e1, _⟩ := baseUnitsLoop_dims T hT m BaseUnits.empty b hm hz h
  rw [e1]
  have h0 : BaseUnits.empty.dims.map Frac.toRat = zeroRDims.map (fun d => 0 * d) := by
    simp [BaseUnits.empty, zeroDims, zeroRDims, Frac.toRat, Frac.zero]
  rw [h0, addRDims_zero_left _ _ (by simp [zeroRDims, specDims_length T hT])]

/-- the shipped table satisfies the side condition of `C03_dims` (fact `factPositive`) -/
theorem C03_dims_table_ok : tableDimsOk Gen.tables := by
  have h := C03_fact_positive
  unfold factPositive at h
  simp only [Bool.and_eq_true, List.all_eq_true, decide_eq_true_eq, beq_iff_eq, bne_iff_ne, ne_eq] at h
  exact ⟨fun u hu => ⟨(h.1.2 u hu).1.2, (h.1.2 u hu).2⟩, fun u hu => ⟨(h.2 u hu).1.2, (h.2 u hu).2⟩⟩

/-- Exponent text round trip: `Fraction.from_string(str(e))` is the rebased fraction, for every
    fraction (digit rendering then the exponent-text reader), and `rebase` keeps the value and is
    idempotent. -/
theorem C03_exponent_roundtrip (e : Frac) :
    Frac.fromString e.str = some e.rebase ∧
    (e.den ≠ 0 → e.rebase.toRat = e.toRat ∧ e.rebase.rebase = e.rebase) :=
  ⟨(fromString_str e).1, fun he => ⟨(rebase_spec e he).1, rebase_idem e he⟩⟩

/-- Single atoms: the text `get_unit_base` writes for a key the tables allow (prefix ++ symbol ++
    exponent text, nothing for exponent 1) is parsed back to exactly that key with the rebased exponent. -/
theorem C03_atom_roundtrip (T : Tables) (h1 : factF1 T = true) (h2 : factF2 T = true) (h3 : factF3 T = true)
    (h4 : factF4 T = true) (h7 : factF7 T = true) (u : UnitId) (e : Frac) (hg : goodKey T u) :
    atomParse T (entryText u e) = .ok ⟨1, [(u, e.rebase)]⟩ :=
  (entry_roundtrip T h1 h2 h3 h4 h7 u e hg).1

/-- RENDER / PARSE ROUND TRIP for whole exponent maps: the `expression` text `BaseUnits` renders for
    a dict over keys the tables allow (distinct keys, non-zero denominators; exponents need not be
    normalised, zero exponents allowed) is accepted by `BaseUnits(text)` again and gives the same
    dict entries, the same expression and the same magnitude. -/
theorem C03_render_roundtrip (T : Tables) (h1 : factF1 T = true) (h2 : factF2 T = true) (h3 : factF3 T = true)
    (h4 : factF4 T = true) (h7 : factF7 T = true)
    (m : ExpMap) (b : BaseUnits) (txt : Str) (hm : densOk m) (hk : keysNodup m)
    (hg : ∀ ue ∈ m, goodKey T ue.1) (hb : baseUnitsOfMap T m = some b) (ht : b.expr = some txt) :
    ∃ b2, baseUnitsOfText T txt = .ok b2 ∧ b2.entries = b.entries ∧ b2.expression = b.expression ∧
      magR b2.factors = magR b.factors :=
  render_roundtrip T h1 h2 h3 h4 h7 m b txt hm hk hg hb ht

/-- … on the shipped table. -/
theorem C03_render_roundtrip_table (m : ExpMap) (b : BaseUnits) (txt : Str) (hm : densOk m)
    (hk : keysNodup m) (hg : ∀ ue ∈ m, goodKey Gen.tables ue.1)
    (hb : baseUnitsOfMap Gen.tables m = some b) (ht : b.expr = some txt) :
    ∃ b2, baseUnitsOfText Gen.tables txt = .ok b2 ∧ b2.entries = b.entries ∧
      b2.expression = b.expression ∧ magR b2.factors = magR b.factors :=
  render_roundtrip Gen.tables C03_fact_F1 C03_fact_F2 C03_fact_F3 C03_fact_F4 C03_fact_F7 m b txt hm hk hg hb ht

/-! ## rejection at TEXT level (compound expressions) -/

/-- REJECTION, TEXT LEVEL.  Take ANY text `lead ++ piece ++ post` where `piece` (no `(`, `*`, `/`
    in it) is an operand of the top level standing before the first parenthesis: `lead` is empty
    or any parenthesis-free text ending in `*` or `/`, and `post` is empty or begins with `(`, `*`
    or `/` and is otherwise ARBITRARY (balanced or not).  If the atom parser refuses the stripped
    operand text, then `UnitSolver(text)`, `BaseUnits(text)` and `Quantity(1,text)` all fail with
    the same error, which is not the model's fuel error. -/
theorem C03_reject_operand (T : Tables) (lead piece post : Str) (hl : leadOk lead)
    (hp : tokPlain piece) (hpost : stopsAt post) (hne : strip piece ≠ [])
    (hbad : ∃ e, atomParse T (strip piece) = .error e) :
    ∃ err, unitSolver T (lead ++ piece ++ post) = .error err ∧ err ≠ .fuel ∧
      baseUnitsOfText T (lead ++ piece ++ post) = .error err ∧
      quantityOfText T (lead ++ piece ++ post) = .error err := by
  obtain ⟨err, herr⟩ := unitSolver_bad_operand T lead piece post hl hp hpost hne hbad
  refine ⟨err, herr, ?_, ?_, ?_⟩
  · intro h; rw [h] at herr; exact unitSolver_no_fuel T _ herr
  · unfold baseUnitsOfText; rw [herr]
  · unfold quantityOfText; rw [herr]

/-- … with the property's three reasons spelled out: an operand whose stripped text is not a number
    literal, is not a system-unit text and cannot be split as admissible prefix ++ symbol ++
    exponent characters (unknown symbol, prefix the unit does not admit, foreign characters in
    front of a valid symbol) makes the whole compound text fail. -/
theorem C03_reject_operand_unreadable (T : Tables) (hT : noBlankHead T) (lead piece post : Str)
    (hl : leadOk lead) (hp : tokPlain piece) (hpost : stopsAt post) (hne : strip piece ≠ [])
    (hnum : numberParts (strip piece) = none)
    (hsys : ∀ n e, unitParse T (strip piece) ≠ .ok (.sys n, e))
    (hno : ∀ p b x, strip piece = p ++ b ++ x → ¬ admissible T p b) :
    ∃ err, unitSolver T (lead ++ piece ++ post) = .error err ∧ err ≠ .fuel ∧
      baseUnitsOfText T (lead ++ piece ++ post) = .error err ∧
      quantityOfText T (lead ++ piece ++ post) = .error err :=
  C03_reject_operand T lead piece post hl hp hpost hne
    (C03_reject_unreadable T hT (strip piece) hnum hsys hno)


/-- REJECTION, TEXT LEVEL, ANY DEPTH.  `BadText T s` (Lemmas/C03q) describes, purely on the
    characters of `s`, a text in which the scan of `UnitSolver` reaches an operand the atom parser
    refuses — at the start, behind an operator sign, inside the first parenthesised group (to any
    nesting depth, recursively) or behind it — or whose first `(` is never closed or whose first
    group has several comma-separated arguments (also inside groups, recursively); what follows
    the offending place is ARBITRARY.  Every such text is rejected by `UnitSolver(text)`,
    `BaseUnits(text)` and `Quantity(1,text)` with the same error, which is not the fuel error. -/
theorem C03_reject_text (T : Tables) (s : Str) (h : BadText T s) :
    ∃ err, unitSolver T s = .error err ∧ err ≠ .fuel ∧
      baseUnitsOfText T s = .error err ∧ quantityOfText T s = .error err := by
  obtain ⟨err, herr⟩ := unitSolver_badText T s h
  refine ⟨err, herr, ?_, ?_, ?_⟩
  · intro h; rw [h] at herr; exact unitSolver_no_fuel T _ herr
  · unfold baseUnitsOfText; rw [herr]
  · unfold quantityOfText; rw [herr]

/-- … with the property's reasons for the refusal of the operand (not a number literal, not a
    system-unit text, no reading as admissible prefix ++ symbol ++ exponent characters) as the
    hypothesis of the base case: such an operand, put behind `pre op` (any parenthesis-free `pre`)
    and inside one more parenthesised group `pre2 ( … ) tail`, is rejected. -/
theorem C03_reject_nested_unreadable (T : Tables) (hT : noBlankHead T) (piece post : Str)
    (hp : tokPlain piece) (hpost : stopsAt post) (hne : strip piece ≠ [])
    (hnum : numberParts (strip piece) = none)
    (hsys : ∀ n e, unitParse T (strip piece) ≠ .ok (.sys n, e))
    (hno : ∀ p b x, strip piece = p ++ b ++ x → ¬ admissible T p b)
    (pre pre2 inner tail : Str) (op : Char) (hpre : '(' ∉ pre) (hop : op = '*' ∨ op = '/')
    (hpre2 : '(' ∉ pre2) (hin : innerOk inner 1 = true) (hinner : strip inner = pre ++ op :: (piece ++ post)) :
    ∃ err, unitSolver T (pre2 ++ '(' :: (inner ++ ')' :: tail)) = .error err ∧ err ≠ .fuel := by
  have h0 : BadText T (piece ++ post) :=
    .first piece post hp hpost hne (C03_reject_unreadable T hT (strip piece) hnum hsys hno)
  have h1 : BadText T (strip inner) := hinner ▸ .afterOp pre op _ hpre hop h0
  obtain ⟨err, h, hf, _⟩ := C03_reject_text T _ (.inPar pre2 inner tail hpre2 hin h1)
  exact ⟨err, h, hf⟩

/-- REJECTION OF A MISSING OPERAND, TEXT LEVEL.  (1) A text that begins (after blanks) with `*` or
    `/` is rejected, whatever follows.  (2) A text `pre c rest` with `c` one of `*`, `/` behind any
    parenthesis-free `pre`, where `rest` is blank (operator at the end) or is blanks followed by
    another `*` or `/` and then ANYTHING (two operator signs in a row), is rejected.  In both cases
    `UnitSolver`, `BaseUnits(text)` and `Quantity(1,text)` fail with the same, non-fuel error. -/
theorem C03_reject_missing_operand (T : Tables) (c : Char) (hc : isOpChar c) :
    (∀ (l rest : Str), blank l →
      ∃ err, unitSolver T (l ++ c :: rest) = .error err ∧ err ≠ .fuel ∧
        baseUnitsOfText T (l ++ c :: rest) = .error err ∧ quantityOfText T (l ++ c :: rest) = .error err) ∧
    (∀ (pre rest : Str), '(' ∉ pre →
      ((∃ mid c2 post, rest = mid ++ c2 :: post ∧ blank mid ∧ isOpChar c2) ∨ blank rest) →
      ∃ err, unitSolver T (pre ++ c :: rest) = .error err ∧ err ≠ .fuel ∧
        baseUnitsOfText T (pre ++ c :: rest) = .error err ∧ quantityOfText T (pre ++ c :: rest) = .error err) := by
  have fin : ∀ s, (∃ err, unitSolver T s = .error err) →
      ∃ err, unitSolver T s = .error err ∧ err ≠ .fuel ∧
        baseUnitsOfText T s = .error err ∧ quantityOfText T s = .error err := by
    rintro s ⟨err, herr⟩
    refine ⟨err, herr, ?_, ?_, ?_⟩
    · intro h; rw [h] at herr; exact unitSolver_no_fuel T _ herr
    · unfold baseUnitsOfText; rw [herr]
    · unfold quantityOfText; rw [herr]
  exact ⟨fun l rest hl => fin _ (unitSolver_missing_left T l c rest hl hc),
    fun pre rest hpre hshape => fin _ (unitSolver_missing_right T pre c rest hpre hc hshape)⟩

/-! ## non-vacuity: concrete instances of the hypotheses and of the conclusions -/
example : ∃ u ∈ Gen.tables.units, u.sym = ['m'] ∧ ['d','a'] ∈ [] :: admPrefixes Gen.tables u := by
  decide +kernel
example : expTextOf ['-','3',':','2'] ⟨-3, 2⟩ := by
  right; decide +kernel
example : atomParse Gen.tables ['d','a','m','2'] = .ok ⟨1, [(.std ['d','a'] ['m'], ⟨2, 1⟩)]⟩ := by
  decide +kernel
example : atomParse Gen.tables ['x','k','m'] = .error .badPrefix := by decide +kernel
example : atomParse Gen.tables ['k','a','u'] = .error .badPrefix := by decide +kernel
example : atomParse Gen.tables ['m','m','m'] = .error .badPrefix := by decide +kernel
example : densOk [(.std [] ['m'], ⟨1, 2⟩)] := by intro x hx; simp at hx; subst hx; decide
example : foldChain ⟨1, [(.std [] ['m'], ⟨1, 1⟩)]⟩ [(false, ⟨1, [(.std [] ['s'], ⟨2, 1⟩)]⟩)] =
    some ⟨1, [(.std [] ['m'], ⟨1, 1⟩), (.std [] ['s'], ⟨-2, 1⟩)]⟩ := by decide +kernel
example : noBlankHead Gen.tables := factF4_noBlank C03_fact_F4
example : goodKey Gen.tables (.std ['k'] ['m']) ∧ goodKey Gen.tables (.sys ['#','S','A','D','O']) := by
  constructor
  · obtain ⟨u, hu, hs, hp⟩ : ∃ u ∈ Gen.tables.units, u.sym = ['m'] ∧ ['k'] ∈ [] :: admPrefixes Gen.tables u := by
      decide +kernel
    exact ⟨u, hu, hs, hp⟩
  · show (Gen.tables.findSys ['#','S','A','D','O']).isSome = true
    decide +kernel
example : ((baseUnitsOfMap Gen.tables [(.std ['k'] ['m'], ⟨2, 4⟩), (.std [] ['g'], ⟨0, 3⟩),
    (.std [] ['s'], ⟨-2, 1⟩)]).bind (·.expr)) = some "km1:2*s-2".toList := by decide +kernel
example : Renders (.mul (.atom ['k'] ['g'] []) (.par (.div (.atom [] ['m'] ['2']) (.atom [] ['s'] ['2']))))
    ("kg * ( m2/s2 )".toList) := by
  have h := Renders.mul _ _ _ _
    (Renders.leaf (.atom ['k'] ['g'] []) ['k','g'] [] [' '] rfl rfl rfl)
    (Renders.par _ _ [' '] [] rfl rfl
      (Renders.div _ _ _ _ (Renders.leaf (.atom [] ['m'] ['2']) ['m','2'] [' '] [] rfl rfl rfl)
        (Renders.leaf (.atom [] ['s'] ['2']) ['s','2'] [] [' '] rfl rfl rfl)))
  exact h
example : (denote Gen.tables (.mul (.atom ['k'] ['g'] []) (.par (.div (.atom [] ['m'] ['2'])
    (.atom [] ['s'] ['2']))))).isSome = true := by decide +kernel
example : (baseUnitsOfMap Gen.tables [(.std ['k'] ['m'], ⟨1, 2⟩), (.std [] ['s'], ⟨-2, 1⟩)]).map
    (fun b => b.dims.map Frac.value) =
    some [.pair 1 2, .int 0, .pair (-2) 1, .int 0, .int 0, .int 0, .int 0, .int 0] := by decide +kernel

/-- `kg * xkm /(s` : the operand ` xkm ` (foreign character in front of `km`) after `kg *`,
    followed by an unbalanced rest — hypotheses of `C03_reject_operand` on the shipped table -/
example : ∃ err, unitSolver Gen.tables ("kg *".toList ++ " xkm ".toList ++ "/(s".toList) = .error err ∧
    err ≠ .fuel ∧ baseUnitsOfText Gen.tables ("kg *".toList ++ " xkm ".toList ++ "/(s".toList) = .error err ∧
    quantityOfText Gen.tables ("kg *".toList ++ " xkm ".toList ++ "/(s".toList) = .error err := by
  refine C03_reject_operand Gen.tables _ _ _ (Or.inr ⟨"kg ".toList, '*', rfl, Or.inl rfl, by decide⟩)
    (by intro c hc; simp at hc; rcases hc with rfl | rfl | rfl | rfl | rfl <;> decide)
    (Or.inr ⟨'/', "(s".toList, rfl, Or.inr (Or.inr rfl)⟩) (by decide) ⟨.badPrefix, by decide +kernel⟩

/-- `kg*(m/( xkm *s)) /J(` : the refused operand `xkm` two groups deep, an unbalanced rest behind
    — an instance of `BadText` on the shipped table; and `m*(s` (group never closed) -/
example : BadText Gen.tables ("kg*(m/( xkm *s)) /J(".toList) ∧ BadText Gen.tables ("m*(s".toList) := by
  have hp : tokPlain "xkm ".toList := by
    intro c hc; simp at hc; rcases hc with rfl | rfl | rfl | rfl <;> decide
  have h0 : BadText Gen.tables ("xkm ".toList ++ "*s".toList) :=
    .first _ _ hp (Or.inr ⟨'*', ['s'], rfl, Or.inr (Or.inl rfl)⟩) (by decide) ⟨.badPrefix, by decide +kernel⟩
  have e1 : strip " xkm *s".toList = "xkm ".toList ++ "*s".toList := by decide
  have h1 : BadText Gen.tables ([] ++ '(' :: (" xkm *s".toList ++ ')' :: [])) :=
    .inPar [] _ [] (by simp) (by decide) (by rw [e1]; exact h0)
  have h2 : BadText Gen.tables ("m".toList ++ '/' :: ([] ++ '(' :: (" xkm *s".toList ++ ')' :: []))) :=
    .afterOp _ '/' _ (by decide) (Or.inr rfl) h1
  have e2 : strip "m/( xkm *s)".toList =
      "m".toList ++ '/' :: ([] ++ '(' :: (" xkm *s".toList ++ ')' :: [])) := by decide
  have h3 : BadText Gen.tables ([] ++ '(' :: ("m/( xkm *s)".toList ++ ')' :: " /J(".toList)) :=
    .inPar [] _ _ (by simp) (by decide) (by rw [e2]; exact h2)
  have h4 : BadText Gen.tables
      ("kg".toList ++ '*' :: ([] ++ '(' :: ("m/( xkm *s)".toList ++ ')' :: " /J(".toList))) :=
    .afterOp _ '*' _ (by decide) (Or.inl rfl) h3
  exact ⟨h4, .afterOp "m".toList '*' "(s".toList (by decide) (Or.inl rfl)
    (.open [] "s".toList (by simp) (by decide))⟩

/-- `kg* /m(`, `kg*m/ ` and ` *m)(` are instances of `C03_reject_missing_operand` -/
example : (∃ err, unitSolver Gen.tables ("kg".toList ++ '*' :: (" ".toList ++ '/' :: "m(".toList)) = .error err) ∧
    (∃ err, unitSolver Gen.tables ("kg*m".toList ++ '/' :: " ".toList) = .error err) ∧
    (∃ err, unitSolver Gen.tables (" ".toList ++ '*' :: "m)(".toList) = .error err) := by
  refine ⟨?_, ?_, ?_⟩
  · obtain ⟨err, h, _⟩ := (C03_reject_missing_operand Gen.tables '*' (Or.inl rfl)).2 "kg".toList
      (" ".toList ++ '/' :: "m(".toList) (by decide) (Or.inl ⟨" ".toList, '/', "m(".toList, rfl, by unfold blank; decide, Or.inr rfl⟩)
    exact ⟨err, h⟩
  · obtain ⟨err, h, _⟩ := (C03_reject_missing_operand Gen.tables '/' (Or.inr rfl)).2 "kg*m".toList
      " ".toList (by decide) (Or.inr (by unfold blank; decide))
    exact ⟨err, h⟩
  · obtain ⟨err, h, _⟩ := (C03_reject_missing_operand Gen.tables '*' (Or.inl rfl)).1 " ".toList
      "m)(".toList (by unfold blank; decide)
    exact ⟨err, h⟩

/-- `kg*(m,s)/J` (several arguments in a group) is an instance of `BadText` -/
example : BadText Gen.tables ("kg*".toList ++ '(' :: ("m".toList ++ ',' :: "s)/J".toList)) :=
  .comma _ _ _ (by decide) (by decide)

end SciVerif.C03
