import Mathlib.Analysis.SpecialFunctions.Pow.Real
import SciVerif.Lemmas.C03c
import SciVerif.Lemmas.C03d
import SciVerif.Lemmas.C03e
import SciVerif.Facts.C03F1
import SciVerif.Facts.C03F2
import SciVerif.Facts.C03F3
import SciVerif.Facts.C03F4
import SciVerif.Facts.C03Unique
import SciVerif.Facts.C03Positive
import SciVerif.Facts.C03PrefixDefs

/-!
# C03 — A unit expression means the product of its table entries

Only property theorems (helper lemmas: `Lemmas/C03*.lean`; kernel-decided facts about the
regenerated table: `Facts/C03*.lean`).  `T` is an arbitrary table unless the name ends in
`_table`, where it is the table regenerated from the live package (`Gen.tables`).
-/
namespace SciVerif.C03
open Facts

/-- Atom parser soundness, for EVERY string: an accepted text is a number literal matched by the
    number pattern, a key of the system-unit table followed by an exponent text, or exactly `prefix ++ symbol ++ exponent text` with an
    admissible prefix–symbol pair — no foreign character is swallowed, no inadmissible prefix passes. -/
theorem C03_atom_sound (T : Tables) (hT : noBlankHead T) (s : Str) (a : Atom)
    (h : atomParse T s = .ok a) :
    (∃ parts q, numberParts s = some parts ∧ floatOfParts parts = some q ∧ a = ⟨q, []⟩) ∨
    (∃ n e x, a = ⟨1, [(.sys n, e)]⟩ ∧ (T.findSys n).isSome = true ∧ s = n ++ x ∧ expTextOf x e) ∨
    (∃ p b e x, a = ⟨1, [(.std p b, e)]⟩ ∧ s = p ++ b ++ x ∧ expTextOf x e ∧ admissible T p b) := by
  rcases atomParse_cases T s a h with h1 | ⟨u, e, _, hu, rfl⟩
  · exact Or.inl h1
  · cases u with
    | sys n =>
      obtain ⟨hf, x, hs, hx⟩ := unitParse_sys_sound T s n e hu
      exact Or.inr (Or.inl ⟨n, e, x, rfl, hf, hs, hx⟩)
    | std p b =>
      obtain ⟨x, hs, hx, hadm⟩ := unitParse_sound T hT s p b e hu
      exact Or.inr (Or.inr ⟨p, b, e, x, rfl, hs, hx, hadm⟩)

/-- … in particular on the shipped table (the side condition is fact F4). -/
theorem C03_atom_sound_table (s p b : Str) (e : Frac)
    (h : atomParse Gen.tables s = .ok ⟨1, [(.std p b, e)]⟩) :
    ∃ x, s = p ++ b ++ x ∧ expTextOf x e ∧ admissible Gen.tables p b := by
  rcases C03_atom_sound Gen.tables (factF4_noBlank C03_fact_F4) s _ h with
    ⟨_, _, _, _, h1⟩ | ⟨_, _, _, h1, _⟩ | ⟨p', b', e', x, h1, hs, hx, hadm⟩
  · cases h1
  · cases h1
  · cases h1; exact ⟨x, hs, hx, hadm⟩

/-- Rejection (unknown symbol, inadmissible prefix, extra characters in front of a symbol): a text
    that is not a number literal, does not start with the system-unit mark and cannot be read as
    admissible prefix ++ symbol ++ exponent characters is rejected. -/
theorem C03_reject_unreadable (T : Tables) (hT : noBlankHead T) (s : Str)
    (hnum : numberParts s = none) (hsys : ∀ n e, unitParse T s ≠ .ok (.sys n, e))
    (hno : ∀ p b x, s = p ++ b ++ x → ¬ admissible T p b) :
    ∃ err, atomParse T s = .error err := by
  cases h : atomParse T s with
  | error err => exact ⟨err, rfl⟩
  | ok a =>
    exfalso
    rcases atomParse_cases T s a h with ⟨parts, _, hp, _⟩ | ⟨u, e, _, hu, _⟩
    · rw [hnum] at hp; cases hp
    · cases u with
      | sys n => exact hsys n e hu
      | std p b =>
        obtain ⟨x, hs, _, hadm⟩ := unitParse_sound T hT s p b e hu
        exact hno p b x hs hadm

/-- A prefix the unit does not admit is never accepted: whatever `atomParse` returns for any text,
    a returned prefix is a key of the prefix table that the returned unit's row admits. -/
theorem C03_reject_prefix (T : Tables) (hT : noBlankHead T) (s p b : Str) (e : Frac) (hp : p ≠ [])
    (h : atomParse T s = .ok ⟨1, [(.std p b, e)]⟩) :
    ∃ row ∈ T.units, row.sym = b ∧ p ∈ T.prefixKeys ∧ admits T row p = true := by
  rcases C03_atom_sound T hT s _ h with ⟨_, _, _, _, h1⟩ | ⟨_, _, _, h1, _⟩ | ⟨p', b', e', x, h1, _, _, hadm⟩
  · cases h1
  · cases h1
  · cases h1
    obtain ⟨row, hr, hsym, hor⟩ := hadm
    rcases hor with h0 | h0
    · exact absurd h0 hp
    · exact ⟨row, hr, hsym, h0⟩

/-- Atom parser completeness from the table facts F1–F4: every admissible prefix ++ symbol ++
    exponent text is accepted and yields exactly that prefix, symbol and exponent. -/
theorem C03_atom_complete (T : Tables) (h1 : factF1 T = true) (h2 : factF2 T = true)
    (h3 : factF3 T = true) (h4 : factF4 T = true) (u : UnitRow) (hu : u ∈ T.units)
    (p : Str) (hp : p ∈ [] :: admPrefixes T u) (x : Str) (e : Frac) (hx : expTextOf x e) :
    atomParse T (p ++ u.sym ++ x) = .ok ⟨1, [(.std p u.sym, e)]⟩ := by
  unfold atomParse
  rw [numberParts_none_of_symbol T h4 u hu p x, unitParse_complete T h1 h2 h3 h4 u hu p hp x e hx]

/-- … on the shipped table, with the facts decided by the kernel over the whole table. -/
theorem C03_atom_complete_table (u : UnitRow) (hu : u ∈ Gen.tables.units)
    (p : Str) (hp : p ∈ [] :: admPrefixes Gen.tables u) (x : Str) (e : Frac) (hx : expTextOf x e) :
    atomParse Gen.tables (p ++ u.sym ++ x) = .ok ⟨1, [(.std p u.sym, e)]⟩ :=
  C03_atom_complete Gen.tables C03_fact_F1 C03_fact_F2 C03_fact_F3 C03_fact_F4 u hu p hp x e hx

/-- `check_unique_symbols`' condition on the shipped table: two admitted prefix ++ symbol texts
    are equal only if they are the same prefix and the same table row. -/
theorem C03_table_unique (u1 u2 : UnitRow) (hu1 : u1 ∈ Gen.tables.units) (hu2 : u2 ∈ Gen.tables.units)
    (p1 p2 : Str) (hp1 : p1 ∈ [] :: admPrefixes Gen.tables u1) (hp2 : p2 ∈ [] :: admPrefixes Gen.tables u2)
    (h : p1 ++ u1.sym = p2 ++ u2.sym) : u1 = u2 ∧ p1 = p2 :=
  reading_unique Gen.tables C03_fact_F1 u1 u2 hu1 hu2 p1 p2 hp1 hp2 h

/-- Exponent bookkeeping of `Atom.__mul__`: the exponent of every unit in the product is the sum. -/
theorem C03_mul_exponents (a b : Atom) (v : UnitId) (ha : densOk a.units) (hb : densOk b.units) :
    expR (a.mul b).units v = expR a.units v + sumR b.units v ∧ densOk (a.mul b).units ∧
    (a.mul b).mag = a.mag * b.mag :=
  ⟨(mergeAdd_spec a.units b.units v ha hb).1, (mergeAdd_spec a.units b.units v ha hb).2, rfl⟩

/-- Exponent bookkeeping of `Atom.__truediv__`: the difference; dividing by a zero number raises. -/
theorem C03_div_exponents (a b c : Atom) (v : UnitId) (ha : densOk a.units) (hb : densOk b.units)
    (h : a.div b = some c) :
    expR c.units v = expR a.units v - sumR b.units v ∧ densOk c.units ∧ c.mag = a.mag / b.mag ∧ b.mag ≠ 0 := by
  unfold Atom.div at h
  split at h
  · cases h
  · rename_i hne
    cases h
    exact ⟨(mergeSub_spec a.units b.units v ha hb).1, (mergeSub_spec a.units b.units v ha hb).2, rfl, hne⟩

/-- The specification obeys the same laws: the exponent of a unit in a multiset union is the sum,
    in a negated multiset the negative. -/
theorem C03_spec_exponents (l1 l2 : List (UnitId × Rat)) (u : UnitId) :
    expOf (l1 ++ l2) u = expOf l1 u + expOf l2 u ∧ expOf (negExps l1) u = - expOf l1 u := by
  constructor
  · simp [expOf, List.sum_append]
  · unfold expOf negExps
    induction l1 with
    | nil => simp
    | cons a t ih =>
      simp only [List.map_cons, List.sum_cons] at ih ⊢
      rw [ih]
      by_cases h : a.1 = u <;> simp [h]; ring

/-- The binary pass of the solver over `a0 op1 a1 op2 a2 …` (any length) is the left fold. -/
theorem C03_binary_pass_fold (a0 : Atom) (ops : List (Bool × Atom)) :
    binPass [] (.val (some a0) :: chainToks ops) =
      match foldChain a0 ops with
      | some r => .ok [.val (some r)]
      | none => .error .zeroDiv := by
  have e : binPass [] (.val (some a0) :: chainToks ops) = binPass [.val (some a0)] (chainToks ops) := by
    simp [binPass]
  rw [e, binPass_chain a0 ops]
  cases foldChain a0 ops <;> rfl

/-- total exponent a chain of operands contributes to a unit: `+` for `*`, `−` for `/` -/
def chainSum (v : UnitId) : List (Bool × Atom) → Rat
  | [] => 0
  | (true, b) :: rest => sumR b.units v + chainSum v rest
  | (false, b) :: rest => - sumR b.units v + chainSum v rest

/-- the full statement of the expression theorem (text level): for every left-associative AST over
    the tables, solving its rendered text gives the coefficient and the exponents of its denotation -/
def C03_expr_denotation_statement (T : Tables) : Prop :=
  ∀ (a : U) (d : Den), a.leftAssoc = true → denote T a = some d →
    ∃ r, unitSolver T a.render = .ok r ∧ r.mag = d.coef ∧ ∀ u, expR r.units u = expOf d.exps u

/-- Proved part (token level, any number of operands): the atom the solver's binary pass returns
    for `a0 op1 a1 …` has, for every unit, the exponent `a0 ± a1 ± …`.  Missing for the full
    statement: that tokenising the rendered text (character scan with parenthesis depth counter)
    yields these tokens; that step is covered by the correspondence on every run. -/
theorem C03_expr_denotation_partial (a0 r : Atom) (ops : List (Bool × Atom)) (v : UnitId)
    (h0 : densOk a0.units) (hops : ∀ x ∈ ops, densOk x.2.units) (h : foldChain a0 ops = some r) :
    expR r.units v = expR a0.units v + chainSum v ops ∧ densOk r.units := by
  induction ops generalizing a0 with
  | nil => simp [foldChain] at h; subst h; simp [chainSum, h0]
  | cons x rest ih =>
    obtain ⟨m, b⟩ := x
    have hb : densOk b.units := hops (m, b) (by simp)
    have hrest : ∀ x ∈ rest, densOk x.2.units := fun x hx => hops x (List.mem_cons_of_mem _ hx)
    cases m with
    | true =>
      simp only [foldChain] at h
      obtain ⟨e1, d1, _⟩ := C03_mul_exponents a0 b v h0 hb
      obtain ⟨e2, d2⟩ := ih (a0.mul b) d1 hrest h
      refine ⟨?_, d2⟩
      rw [e2, e1]; simp only [chainSum]; ring
    | false =>
      simp only [foldChain] at h
      cases hd : a0.div b with
      | none => rw [hd] at h; cases h
      | some c =>
        rw [hd] at h
        obtain ⟨e1, d1, _⟩ := C03_div_exponents a0 b c v h0 hb hd
        obtain ⟨e2, d2⟩ := ih c d1 hrest h
        refine ⟨?_, d2⟩
        rw [e2, e1]; simp only [chainSum]; ring

/-- Conversion factor over ℝ: for a positive table magnitude, adding exponents of the same unit
    multiplies the factors (`x^(e₁+e₂) = x^e₁·x^e₂`), subtracting divides, and the factor of a
    prefixed unit is the product of the prefix factor and the unit factor — so the factor of the
    merged exponent map is the product of `(prefix·unit)^e` over all terms. -/
theorem C03_factor (x y : ℝ) (hx : 0 < x) (hy : 0 < y) (e1 e2 : Frac) (h1 : e1.den ≠ 0) (h2 : e2.den ≠ 0) :
    x ^ (((e1.add e2).toRat : ℚ) : ℝ) = x ^ ((e1.toRat : ℚ) : ℝ) * x ^ ((e2.toRat : ℚ) : ℝ) ∧
    x ^ (((e1.sub e2).toRat : ℚ) : ℝ) = x ^ ((e1.toRat : ℚ) : ℝ) / x ^ ((e2.toRat : ℚ) : ℝ) ∧
    (x * y) ^ ((e1.toRat : ℚ) : ℝ) = x ^ ((e1.toRat : ℚ) : ℝ) * y ^ ((e1.toRat : ℚ) : ℝ) := by
  refine ⟨?_, ?_, ?_⟩
  · rw [Frac.toRat_add e1 e2 h1 h2, Rat.cast_add, Real.rpow_add hx]
  · rw [Frac.toRat_sub e1 e2 h1 h2, Rat.cast_sub, Real.rpow_sub hx]
  · exact Real.mul_rpow hx.le hy.le

/-- all magnitudes of the shipped table are positive (so `C03_factor` applies to every entry) -/
theorem C03_magnitudes_positive_table :
    (∀ p ∈ Gen.tables.prefixes, 0 < p.mag) ∧ (∀ u ∈ Gen.tables.units, 0 < u.mag) ∧
    (∀ u ∈ Gen.tables.sys, 0 < u.mag) := by
  have h := C03_fact_positive
  unfold factPositive at h
  simp only [Bool.and_eq_true, List.all_eq_true, decide_eq_true_eq] at h
  exact ⟨fun p hp => h.1.1 p hp, fun u hu => (h.1.2 u hu).1.1, fun u hu => (h.2 u hu).1.1⟩

/-- Dimension vector: what `BaseUnits.__init__` accumulates for ANY exponent dict (unnormalised
    `Fraction` arithmetic, zero exponents skipped) is `Σ e·dim(u)` over the dict entries. -/
theorem C03_dims (T : Tables) (hT : tableDimsOk T) (m : ExpMap) (b : BaseUnits) (hm : densOk m)
    (h : baseUnitsOfMap T m = some b) :
    b.dims.map Frac.toRat = specDims T (m.map (fun ue => (ue.1, ue.2.toRat))) := by
  have hz : dimsOk BaseUnits.empty.dims := by
    refine ⟨by simp [BaseUnits.empty, zeroDims], ?_⟩
    intro f hf
    simp only [BaseUnits.empty, zeroDims, List.mem_replicate] at hf
    rw [hf.2]; decide
  obtain ⟨e1, _⟩ := baseUnitsLoop_dims T hT m BaseUnits.empty b hm hz h
  rw [e1]
  have h0 : BaseUnits.empty.dims.map Frac.toRat = zeroRDims.map (fun d => 0 * d) := by
    simp [BaseUnits.empty, zeroDims, zeroRDims, Frac.toRat, Frac.zero]
  rw [h0, addRDims_zero_left _ _ (by simp [zeroRDims, specDims_length T hT])]

/-- the shipped table satisfies the side condition of `C03_dims` (fact `factPositive`) -/
theorem C03_dims_table_ok : tableDimsOk Gen.tables := by
  have h := C03_fact_positive
  unfold factPositive at h
  simp only [Bool.and_eq_true, List.all_eq_true, decide_eq_true_eq, beq_iff_eq, bne_iff_ne, ne_eq] at h
  exact ⟨fun u hu => ⟨(h.1.2 u hu).1.2, (h.1.2 u hu).2⟩, fun u hu => ⟨(h.2 u hu).1.2, (h.2 u hu).2⟩⟩

/-- full statement that is only correspondence-checked on every run (not proved): rendering
    (`expression`) then parsing gives the same units. -/
def C03_render_roundtrip_statement (T : Tables) : Prop :=
  ∀ (m : ExpMap) (b : BaseUnits) (txt : Str), densOk m → baseUnitsOfMap T m = some b → b.expr = some txt →
    ∃ b2, baseUnitsOfText T txt = .ok b2 ∧ b2.entries = b.entries

/-! ## non-vacuity: concrete instances of the hypotheses and of the conclusions -/
example : ∃ u ∈ Gen.tables.units, u.sym = ['m'] ∧ ['d','a'] ∈ [] :: admPrefixes Gen.tables u := by
  decide +kernel
example : expTextOf ['-','3',':','2'] ⟨-3, 2⟩ := by
  right; decide +kernel
example : atomParse Gen.tables ['d','a','m','2'] = .ok ⟨1, [(.std ['d','a'] ['m'], ⟨2, 1⟩)]⟩ := by
  decide +kernel
example : atomParse Gen.tables ['x','k','m'] = .error .badPrefix := by decide +kernel
example : atomParse Gen.tables ['k','a','u'] = .error .badPrefix := by decide +kernel
example : atomParse Gen.tables ['m','m','m'] = .error .badPrefix := by decide +kernel
example : densOk [(.std [] ['m'], ⟨1, 2⟩)] := by intro x hx; simp at hx; subst hx; decide
example : foldChain ⟨1, [(.std [] ['m'], ⟨1, 1⟩)]⟩ [(false, ⟨1, [(.std [] ['s'], ⟨2, 1⟩)]⟩)] =
    some ⟨1, [(.std [] ['m'], ⟨1, 1⟩), (.std [] ['s'], ⟨-2, 1⟩)]⟩ := by decide +kernel
example : noBlankHead Gen.tables := factF4_noBlank C03_fact_F4
example : (baseUnitsOfMap Gen.tables [(.std ['k'] ['m'], ⟨1, 2⟩), (.std [] ['s'], ⟨-2, 1⟩)]).map
    (fun b => b.dims.map Frac.value) =
    some [.pair 1 2, .int 0, .pair (-2) 1, .int 0, .int 0, .int 0, .int 0, .int 0] := by decide +kernel

end SciVerif.C03
