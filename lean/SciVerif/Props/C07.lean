import SciVerif.Lemmas.C07g

/-!
# C07 — Operations on quantities never alter their operands

Only the property theorems live here (helper lemmas: `Lemmas/C07*.lean`; the heap model of
`quantity.py / unit_types.py / magnitude.py / base_units.py`: `Model/C07.lean`).

`step h op` is one library call on heap `h`; `Op` covers the constructor, `+ - * / ** neg`, `== !=`, the NumPy
functions (sqrt cbrt power / sin cos tan / arcsin arccos arctan / every "units preserved" function / sum /
isnan), `np.linspace / np.logspace`, `value(unit)` and the in-place methods `to` (text, BaseUnits, Quantity),
`rebase`, `abse`, `rele` and a write into the array handed out by `value()` / `abse()`.
Every theorem quantifies over ALL heaps satisfying the invariant `WF`, all operands (any locations, also
`x op x` and results of earlier operations) and all unit-algebra facts `Facts` (did the call raise, which
unit type matched, linear conversion or not, dimensionless result, …).  `WF` holds after every finite
program (`C07_invariant`), so nothing is assumed about the history.

`obs h x = (value, units, abse)` of quantity `x`; `mutReach h x` = the mutable cells reachable from `x`
(the Quantity object, its Magnitude object, the value array, the error array).  BaseUnits objects and
exponent dicts are *frozen* (`C07_units_frozen`): no operation writes one that exists, so sharing them is
not shared mutable state.  (`Fraction.rebase()` normalising an exponent in place inside a shared dict is
value-preserving and below the granularity of the model.)
-/
namespace SciVerif.C07

/-- The ownership invariant holds after every finite program, whatever the facts of unit algebra were. -/
theorem C07_invariant (ops : List Op) : WF (run Heap.empty ops) := by
  have gen : ∀ (ops : List Op) (h : Heap), WF h → WF (run h ops) := by
    intro ops
    induction ops with
    | nil => intro h w; exact w
    | cons op ops ih => intro h w; exact ih _ (step_ok w op).wf
  exact gen ops _ WF.empty

/-- Operators, comparisons, NumPy functions, the constructor and `value(unit)` (every operation that is
    not an in-place method) leave what EVERY existing quantity reports — in particular every operand —
    exactly as it was. -/
theorem C07_operands_unchanged (h : Heap) (w : WF h) (op : Op) (hp : target op = none)
    (x : Nat) (hx : (h.q x).isSome) : obs (step h op).1 x = obs h x := by
  obtain ⟨qc, hq⟩ := Option.isSome_iff_exists.mp hx
  exact (step_ok w op).stable x qc hq (by rw [hp]; simp)

/-- The in-place methods (`to`, `rebase`, `abse`, `rele`, a write into the array handed out by `value()` /
    `abse()`) change nothing but the object they are called on: every other quantity — the operands a
    result was computed from, the results computed from it, the argument of `to(other)` — reports the
    same value, units and uncertainty. -/
theorem C07_inplace_local (h : Heap) (w : WF h) (op : Op) (x : Nat) (hx : (h.q x).isSome)
    (hne : some x ≠ target op) : obs (step h op).1 x = obs h x := by
  obtain ⟨qc, hq⟩ := Option.isSome_iff_exists.mp hx
  exact (step_ok w op).stable x qc hq hne

/-- In every reachable heap two different quantities share no mutable cell: not the Magnitude object,
    not the value array, not the error array.  (The result of an operation is a different quantity than
    each operand, so this is "the result shares no mutable state with an operand".) -/
theorem C07_result_separate (h : Heap) (w : WF h) (x y : Nat) (hxy : x ≠ y) :
    ∀ c ∈ mutReach h x, c ∉ mutReach h y := by
  intro c hcx hcy
  unfold mutReach at hcx hcy
  cases hqx : h.q x with
  | none => simp [hqx] at hcx
  | some qx =>
    cases hqy : h.q y with
    | none => simp [hqy] at hcy
    | some qy =>
      have hmne : qx.mag ≠ qy.mag := fun e => hxy (w.own_mag x y qx qy hqx hqy e)
      obtain ⟨⟨mx, hmx⟩, _⟩ := w.q_ok x qx hqx
      obtain ⟨⟨my, hmy⟩, _⟩ := w.q_ok y qy hqy
      simp only [hqx, hmx, List.mem_cons, List.mem_append] at hcx
      simp only [hqy, hmy, List.mem_cons, List.mem_append] at hcy
      have arrx : ∀ r, Cell.a r ∈ refCells mx.value ∨ Cell.a r ∈ refCells mx.error →
          ∃ f, mx.field f = .arr r := by
        intro r hr
        rcases hr with hr | hr
        · refine ⟨true, ?_⟩
          cases hv : mx.value <;> simp_all [refCells, Mag.field]
        · refine ⟨false, ?_⟩
          cases hv : mx.error <;> simp_all [refCells, Mag.field]
      have arry : ∀ r, Cell.a r ∈ refCells my.value ∨ Cell.a r ∈ refCells my.error →
          ∃ f, my.field f = .arr r := by
        intro r hr
        rcases hr with hr | hr
        · refine ⟨true, ?_⟩
          cases hv : my.value <;> simp_all [refCells, Mag.field]
        · refine ⟨false, ?_⟩
          cases hv : my.error <;> simp_all [refCells, Mag.field]
      have onlyA : ∀ (m : Mag) (c : Cell), (c ∈ refCells m.value ∨ c ∈ refCells m.error) → ∃ r, c = .a r := by
        intro m c hc
        rcases hc with hc | hc
        · cases hv : m.value <;> simp_all [refCells]
        · cases hv : m.error <;> simp_all [refCells]
      rcases hcx with rfl | rfl | hax
      · rcases hcy with e | e | hay
        · cases e; exact hxy rfl
        · cases e
        · obtain ⟨r, hr⟩ := onlyA my _ hay; cases hr
      · rcases hcy with e | e | hay
        · cases e
        · exact hmne (Cell.m.inj e)
        · obtain ⟨r, hr⟩ := onlyA my _ hay; cases hr
      · obtain ⟨r, rfl⟩ := onlyA mx _ hax
        rcases hcy with e | e | hay
        · cases e
        · cases e
        · obtain ⟨f1, h1⟩ := arrx r hax
          obtain ⟨f2, h2⟩ := arry r hay
          exact hmne (w.own_arr _ _ mx my f1 f2 r hmx hmy h1 h2).1

/-- The quantity returned by an operation is a NEW object … -/
theorem C07_result_new (h : Heap) (w : WF h) (op : Op) (hp : target op = none) (r : Nat)
    (hr : (step h op).2 = .qty r) : h.n ≤ r ∧ (h.q r) = none := by
  have key : h.n ≤ r := by
    cases op <;> simp only [target] at hp <;> try (cases hp)
    all_goals
      simp only [step] at hr
      split at hr
      · rename_i s hc
        have hv := compile_valid w _ s hc
        obtain ⟨_, _, hcons, hass, _⟩ := exec_spec w s hv
        cases hk : s.kind with
        | construct =>
          obtain ⟨x, hx, hge, _⟩ := hcons hk
          rw [hx] at hr; cases hr; exact hge
        | assign x =>
          have := compile_kind _ s hc
          simp [hk, Kind.target, target] at this
        | valueOf => simp [exec, hk] at hr
        | nothing => simp [exec, hk] at hr
      · cases hr
  refine ⟨key, ?_⟩
  cases hq : h.q r with
  | none => rfl
  | some c => have := w.q_lt r c hq; omega

/-- … and the array returned by `value(unit)` is a new array: no quantity that existed before (no operand)
    can reach it. -/
theorem C07_value_result_fresh (h : Heap) (w : WF h) (a : Nat) (f : Facts) (l : Nat)
    (hr : (step h (.value a f)).2 = .val (.arr l)) :
    h.n ≤ l ∧ ∀ x, (h.q x).isSome → Cell.a l ∉ mutReach h x := by
  have key : h.n ≤ l := by
    simp only [step] at hr
    split at hr
    · rename_i s hc
      have hv := compile_valid w _ s hc
      obtain ⟨_, _, _, _, hval⟩ := exec_spec w s hv
      cases hk : s.kind with
      | valueOf => exact hval hk l hr
      | construct => simp [exec, hk] at hr
      | assign x => simp [exec, hk] at hr
      | nothing => simp [exec, hk] at hr
    · cases hr
  refine ⟨key, ?_⟩
  intro x hx hmem
  obtain ⟨qc, hq⟩ := Option.isSome_iff_exists.mp hx
  obtain ⟨⟨mc, hmc⟩, _⟩ := w.q_ok x qc hq
  simp only [mutReach, hq, hmc, List.mem_cons, List.mem_append] at hmem
  rcases hmem with e | e | hmem
  · cases e
  · cases e
  · have : ∃ fl, mc.field fl = .arr l := by
      rcases hmem with hm | hm
      · refine ⟨true, ?_⟩; cases hv : mc.value <;> simp_all [refCells, Mag.field]
      · refine ⟨false, ?_⟩; cases hv : mc.error <;> simp_all [refCells, Mag.field]
    obtain ⟨fl, hfl⟩ := this
    obtain ⟨t, ht⟩ := w.m_ok _ mc fl l hmc hfl
    have := w.a_lt l t ht
    omega

/-- BaseUnits objects and exponent dicts are frozen: no operation, in-place or not, writes one that
    exists (after the repair of `UnitType.convert`, which used to write `baseunits.magnitude`). -/
theorem C07_units_frozen (h : Heap) (w : WF h) (op : Op) :
    (∀ l c, h.b l = some c → (step h op).1.b l = some c) ∧
    (∀ l c, h.d l = some c → (step h op).1.d l = some c) :=
  (step_ok w op).frozen

/-- Histories: after ANY finite program, a further operation leaves every quantity it is not an in-place
    method of unchanged … -/
theorem C07_history (ops : List Op) (op : Op) (x : Nat) (hx : ((run Heap.empty ops).q x).isSome)
    (hne : some x ≠ target op) :
    obs (step (run Heap.empty ops) op).1 x = obs (run Heap.empty ops) x :=
  C07_inplace_local _ (C07_invariant ops) op x hx hne

/-- … any two different quantities are separate … -/
theorem C07_history_separate (ops : List Op) (x y : Nat) (hxy : x ≠ y) :
    ∀ c ∈ mutReach (run Heap.empty ops) x, c ∉ mutReach (run Heap.empty ops) y :=
  C07_result_separate _ (C07_invariant ops) x y hxy

/-- … and a quantity keeps reporting the same through ANY further sequence of operations and in-place
    conversions of other quantities (operands or results) — as long as no in-place method is called on
    itself. -/
theorem C07_sequence_stable (ops : List Op) (h : Heap) (w : WF h) (x : Nat) (hx : (h.q x).isSome)
    (hnt : ∀ op ∈ ops, some x ≠ target op) : obs (run h ops) x = obs h x := by
  induction ops generalizing h with
  | nil => rfl
  | cons op ops ih =>
    obtain ⟨qc, hq⟩ := Option.isSome_iff_exists.mp hx
    have ok := step_ok w op
    have hne := hnt op (by simp)
    have hq' := ok.q_keep x qc hq hne
    show obs (run (step h op).1 ops) x = obs h x
    rw [ih _ ok.wf (by rw [hq']; rfl) (fun o ho => hnt o (by simp [ho]))]
    exact ok.stable x qc hq hne

/-! ### Non-vacuity: concrete aliasing-prone programs, evaluated by the kernel -/

/-- `a = Quantity([..],'m',abse=…); c = a + a; d = -c; d.to('cm'); a.abse(1); write into c's array`
    (quantities live at locations 12, 19, 23) -/
def demo : List Op :=
  [.new true true {}, .add 12 12 {}, .neg 19 {}, .to 23 .text {}, .abse 12, .poke 19 false]

example : ((run Heap.empty demo).q 12).isSome ∧ ((run Heap.empty demo).q 19).isSome ∧
    ((run Heap.empty demo).q 23).isSome := by decide
-- the three quantities own different Magnitude objects and different arrays
example : mutReach (run Heap.empty demo) 12 = [.q 12, .m 7, .a 5] := by decide
example : mutReach (run Heap.empty demo) 19 = [.q 19, .m 18, .a 16, .a 17] := by decide
example : mutReach (run Heap.empty demo) 23 = [.q 23, .m 26, .a 24, .a 25] := by decide
-- `target` is not vacuous: the in-place method does change its own object
example : obs (step (run Heap.empty (demo.take 3)) (.to 23 .text {})).1 23 ≠
    obs (run Heap.empty (demo.take 3)) 23 := by decide

/-- The statement discriminates: the operation as it was BEFORE the repair (`unit2.to(unit1.baseunits)`
    inside `UnitType.add`, i.e. an in-place conversion of the right operand followed by the addition)
    does change what the right operand reports. -/
def addBeforeRepair (h : Heap) (a b : Nat) : Heap :=
  (step (step h (.to b (.buOf a) {})).1 (.add a b {})).1

example : obs (addBeforeRepair (run Heap.empty [.new false false {}, .new false false {}]) 10 21) 21 ≠
    obs (run Heap.empty [.new false false {}, .new false false {}]) 21 := by decide

/-- A write to the cached magnitude of an EXISTING BaseUnits object — the statement
    `self.baseunits1.magnitude = Decimal(...)` that `UnitType.convert` contained before repair 83f1645 (and that
    a regression can bring back).  It is not an action of `step`: `C07_units_frozen` forbids exactly this event. -/
def writeBUCache (h : Heap) (bl : Nat) : Heap :=
  match h.b bl with
  | some bc => { h with b := upd h.b bl { bc with cache := h.n }, n := h.n + 1 }
  | none => h

/-- `x.value(unit)` with that statement in front of the conversion -/
def valueBeforeRepair (h : Heap) (x : Nat) : Heap :=
  match h.q x with
  | some qc => (step (writeBUCache h qc.bu) (.value x {})).1
  | none => h

/-- `f = Quantity(…); d = Quantity(…); s = f + d` : `f` lives at 10, `s` at 26, both hold BaseUnits object 9 -/
def sumHeap : Heap := run Heap.empty [.new false false {}, .new false false {}, .add 10 21 {}]

example : (sumHeap.q 10).map (·.bu) = some 9 ∧ (sumHeap.q 26).map (·.bu) = some 9 := by decide
-- the repaired `value` leaves the shared BaseUnits object and the operand alone …
example : (step sumHeap (.value 26 {})).1.b 9 = sumHeap.b 9 ∧
    obs (step sumHeap (.value 26 {})).1 10 = obs sumHeap 10 := by decide
-- … the unrepaired one writes it (the event `C07_units_frozen` excludes), and the write is seen through the
-- untouched operand `f`: sharing a BaseUnits object is harmless only because nothing writes one
example : (valueBeforeRepair sumHeap 26).b 9 ≠ sumHeap.b 9 ∧
    obs (valueBeforeRepair sumHeap 26) 10 ≠ obs sumHeap 10 := by decide

/-- The hypothesis `WF` is what excludes hand-made sharing: in a heap where two quantities hold the same
    Magnitude object, `abse` on one is seen through the other. -/
def sharedHeap : Heap :=
  { q := fun i => if i = 0 then some ⟨2, 3⟩ else if i = 1 then some ⟨2, 3⟩ else none,
    m := fun i => if i = 2 then some ⟨.scalar 0, .none⟩ else none,
    a := fun _ => none,
    b := fun i => if i = 3 then some ⟨4, 0⟩ else none,
    d := fun i => if i = 4 then some ⟨0, true⟩ else none,
    n := 5 }

example : obs (step sharedHeap (.abse 0)).1 1 ≠ obs sharedHeap 1 := by decide

end SciVerif.C07
