import SciVerif.Lemmas.C19c

/-!
# C19 — Exported configuration files carry the same values as the environment

Property theorems only (helpers: `Lemmas/C19*.lean`).  The exporter and reader models are tied to
`dip/config/export*.py` and to gcc / g++ / gfortran / rustc / bash by the correspondence harness on
every run; `Gen.*` tables are regenerated from the live `_parse_dtype` methods and the compilers.
-/
namespace SciVerif.C19

/-! ## declared types (`decide` over the whole regenerated tables) -/

/-- the target type the live `_parse_dtype` chooses for DIP type `d` has, according to the real
    compiler, the same class (bool / signed int / unsigned int / float / string) and the same width -/
def typeOK (b : Str) (d : Kind × Nat) : Bool :=
  match lookupType b d.1 d.2 with
  | some t =>
    match (if b = bFortran then fortranKind t else targetKind b t) with
    | some (k, bits) => decide (k = d.1) && (decide (d.1 = Kind.bool) || decide (d.1 = Kind.str) || decide (bits = d.2))
    | none => false
  | none => false

/-- DIP types for which a back-end has no type of the same class and width -/
def lackingRust : List (Kind × Nat) := [(Kind.float, 128)]
def lackingFortran : List (Kind × Nat) := [(Kind.uint, 16), (Kind.uint, 32), (Kind.uint, 64)]

/-- C: every type keyword the DIP parser accepts is exported with a C type of the same class, width
    and signedness (as measured with gcc). -/
theorem C19_types_c : ∀ d ∈ Gen.dipTypes, typeOK bC d = true := by decide +kernel

theorem C19_types_cpp : ∀ d ∈ Gen.dipTypes, typeOK bCpp d = true := by decide +kernel

/-- Rust: same, except exactly float128 (documented: exported as f64). -/
theorem C19_types_rust : ∀ d ∈ Gen.dipTypes, (typeOK bRust d = true ↔ d ∉ lackingRust) := by decide +kernel

/-- Fortran: same, except exactly the unsigned integers (no such type; a signed kind is declared). -/
theorem C19_types_fortran : ∀ d ∈ Gen.dipTypes, (typeOK bFortran d = true ↔ d ∉ lackingFortran) := by
  decide +kernel

/-- the full statement for Fortran fails on the unchanged code -/
theorem C19_types_fortran_counterexample : ¬ (∀ d ∈ Gen.dipTypes, typeOK bFortran d = true) := by
  decide +kernel

/-- the declared type at the head of a C / C++ declaration is uniquely readable: no table entry
    followed by a blank is a prefix of another one followed by a blank -/
theorem C19_type_names_prefix_free :
    ∀ b ∈ [bC, bCpp], ∀ t1 ∈ targets b, ∀ t2 ∈ targets b,
      t1 ≠ t2 → dropPrefix? (t1 ++ [' ']) (t2 ++ [' ']) = none := by decide +kernel

/-! ## literals -/

/-- `str(int)` then reading the decimal numeral is the identity, for every integer -/
theorem C19_decimal_roundtrip (i : Int) : readInt (showInt i) = some i := readInt_showInt i

/-- the bracket machine inverts the nested-list printer for every tree (any rank, any sizes, also
    ragged) whose leaves are bare tokens or quoted strings without an inner quote -/
theorem C19_machine_inverts_printer (o c : Char) (g : Good o c) (t : TokTree) (h : SafeTree o c t) :
    parseInit o c (printTok o c t) = some t := parseInit_printTok o c g t h

example : SafeTree '{' '}' (.arr [.arr [.leaf (cs!"1"), .leaf (cs!"-2")], .arr [.leaf (cs!"\"a, }b\"")]]) := by
  refine ⟨⟨SafeTok.bare _ (by decide) (by simp [plainChar]), SafeTok.bare _ (by decide) (by simp [plainChar]), trivial⟩,
    ⟨SafeTok.quoted (cs!"a, }b") (by decide), trivial⟩, trivial⟩

/-- C / C++ : `_parse_value` text of ANY nested value of kind `k` (every rank and size; strings
    without quote or backslash), read as a brace initialiser and interpreted at kind `k`, is the value -/
theorem C19_initialiser_roundtrip_c (k : Kind) (v : Val) (hv : ValOK k v) :
    (parseInit '{' '}' (printVal styleC v)).bind (interp k (cs!"true") (cs!"false")) = some v :=
  roundtrip_val styleC '{' '}' styleC_ok k v hv

/-- Rust: the same with bracket initialisers -/
theorem C19_initialiser_roundtrip_rust (k : Kind) (v : Val) (hv : ValOK k v) :
    (parseInit '[' ']' (printVal styleRust v)).bind (interp k (cs!"true") (cs!"false")) = some v :=
  roundtrip_val styleRust '[' ']' styleRust_ok k v hv

example : ValOK Kind.int (.arr [.arr [.leaf (.i 1), .leaf (.i (-2))], .arr [.leaf (.i 3), .leaf (.i 4)]]) := by
  simp [ValOK, ValsOK, ScalarOK]

example : ValOK Kind.str (.arr [.leaf (.s (cs!"a b, {c}"))]) := by
  simp [ValOK, ValsOK, ScalarOK, cleanStrChar]

/-- strings containing a quote are NOT read back (the exporters do not escape): the unguarded
    statement is false -/
theorem C19_initialiser_string_quote_counterexample :
    ¬ (∀ v : Str, (parseInit '{' '}' (printVal styleC (.leaf (.s v)))).bind
        (interp Kind.str (cs!"true") (cs!"false")) = some (.leaf (.s v))) := by
  intro h
  have := congrArg Option.isSome (h (cs!"a\"b"))
  revert this
  decide

/-! ## Fortran `reshape` -/

/-- full statement: with `order=[k,…,1]` (what the repaired exporter writes) `reshape` of the
    row-major element list gives back every rectangular nested value.  NOT proved in general here
    (index arithmetic over `build`/`rowPos`); validated against gfortran on every run, and checked
    below on instances. -/
def C19_reshape_rowmajor_statement : Prop :=
  ∀ (v : TokTree) (dims : List Nat), rectShape v = some dims →
    reshapeF (flatten v) dims (some (orderList dims.length)) = some v

/-- the default (column-major) `reshape(src, shape)` the unrepaired exporter relied on does not -/
theorem C19_reshape_colmajor_counterexample :
    ¬ (∀ (v : TokTree) (dims : List Nat), rectShape v = some dims →
        reshapeF (flatten v) dims none = some v) := by
  intro h
  have := congrArg (Option.map flatten)
    (h (.arr [.arr [.leaf ['1'], .leaf ['2'], .leaf ['3']], .arr [.leaf ['4'], .leaf ['5'], .leaf ['6']]]) [2, 3]
      (by decide))
  revert this
  decide

/-- what column-major filling makes of `[[1,2,3],[4,5,6]]` : `M(1,2) = 3` -/
theorem C19_reshape_colmajor_value :
    (reshapeF [['1'], ['2'], ['3'], ['4'], ['5'], ['6']] [2, 3] none).map flatten =
      some [['1'], ['3'], ['5'], ['2'], ['4'], ['6']] := by
  decide

/-- … and `order=[2,1]` / `order=[3,2,1]` restore the row-major reading on these instances -/
theorem C19_reshape_order_instances :
    (reshapeF [['1'], ['2'], ['3'], ['4'], ['5'], ['6']] [2, 3] (some [2, 1])).map flatten =
      some [['1'], ['2'], ['3'], ['4'], ['5'], ['6']] ∧
    (reshapeF [['1'], ['2'], ['3'], ['4'], ['5'], ['6'], ['7'], ['8'], ['9'], ['a'], ['b'], ['c']] [2, 3, 2]
        (some [3, 2, 1])).map flatten =
      some [['1'], ['2'], ['3'], ['4'], ['5'], ['6'], ['7'], ['8'], ['9'], ['a'], ['b'], ['c']] := by
  decide

/-! ## selection and renaming -/

theorem dropPrefix_iff : ∀ (p s r : Str), dropPrefix? p s = some r ↔ s = p ++ r
  | [], s, r => by simp [dropPrefix?]
  | _ :: _, [], r => by simp [dropPrefix?]
  | a :: p, b :: s, r => by
    by_cases h : a = b
    · subst h; simp [dropPrefix?, dropPrefix_iff p s r]
    · simp [dropPrefix?, h]; intro e; exact absurd e.symm h

/-- a query `pre.*` selects exactly the nodes named `pre.<rest>` and exports them as `<rest>` -/
theorem C19_selection_prefix (pre n r : Str) :
    queryName (pre ++ ['.', '*']) n = some r ↔ n = pre ++ ['.'] ++ r := by
  have h1 : pre ++ ['.', '*'] ≠ ['*'] := by
    intro e; have := congrArg List.length e; simp at this
  unfold queryName
  simp only [h1, if_false, List.reverse_append, List.reverse_cons, List.reverse_nil, List.nil_append,
    List.cons_append]
  simp [dropPrefix?, dropPrefix_iff]

/-- `select` exports exactly the nodes matched by the query that carry the tag, under their
    query-relative names, in environment order -/
theorem C19_selection (q : Str) (tags : Option (List Str)) (env : List Param) :
    select (some q) tags env =
      (env.filterMap (fun p => (queryName q p.name).map (fun n => { p with name := n }))).filter (tagKeep tags) := by
  simp [select]

theorem C19_selection_all (env : List Param) : select none none env = env := rfl

/-- renaming is not injective on DIP names: `a.b` and `a_b` collide (finding `rename:collision`) -/
theorem C19_rename_counterexample : ¬ (∀ n1 n2 : Str, rename true n1 = rename true n2 → n1 = n2) := by
  intro h
  have := h (cs!"a.b") (cs!"a_b") (by decide)
  revert this
  decide

/-! ## JSON / YAML / TOML shaping -/

/-- the shaped entry keeps the name and the value; the unit is kept exactly when `units` is on and
    the node is a number with a unit -/
theorem C19_shape_entry (units : Bool) (p : Param) :
    (shapeEntry units p).1 = p.name ∧
    ((shapeEntry units p).2 = Shaped.bare p.value ∨
      ∃ u, p.unit = some u ∧ units = true ∧ (shapeEntry units p).2 = Shaped.withUnit p.value u) := by
  unfold shapeEntry
  cases hk : p.kind <;> cases hu : p.unit <;> cases units <;> simp

end SciVerif.C19
