import SciVerif.Lemmas.C19s

/-!
# C19 — Exported configuration files carry the same values as the environment

Property theorems only (helpers: `Lemmas/C19*.lean`).  The exporter and reader models are tied to
`dip/config/export*.py` and to gcc / g++ / gfortran / rustc / bash by the correspondence harness on
every run; `Gen.*` tables are regenerated from the live `_parse_dtype` methods and the compilers.
-/
namespace SciVerif.C19

/-! ## declared types (`decide` over the whole regenerated tables) -/

/-- the target type the live `_parse_dtype` chooses for DIP type `d` has, according to the real
    compiler, the same class (bool / signed int / unsigned int / float / string) and the same width -/
def typeOK (b : Str) (d : Kind × Nat) : Bool :=
  match lookupType b d.1 d.2 with
  | some t =>
    match (if b = bFortran then fortranKind t else targetKind b t) with
    | some (k, bits) => decide (k = d.1) && (decide (d.1 = Kind.bool) || decide (d.1 = Kind.str) || decide (bits = d.2))
    | none => false
  | none => false

/-- DIP types for which a back-end has no type of the same class and width -/
def lackingRust : List (Kind × Nat) := [(Kind.float, 128)]
def lackingFortran : List (Kind × Nat) := [(Kind.uint, 16), (Kind.uint, 32), (Kind.uint, 64)]

/-- C: every type keyword the DIP parser accepts is exported with a C type of the same class, width
    and signedness (as measured with gcc). -/
theorem C19_types_c : ∀ d ∈ Gen.dipTypes, typeOK bC d = true := by decide +kernel

theorem C19_types_cpp : ∀ d ∈ Gen.dipTypes, typeOK bCpp d = true := by decide +kernel

/-- Rust: same, except exactly float128 (documented: exported as f64). -/
theorem C19_types_rust : ∀ d ∈ Gen.dipTypes, (typeOK bRust d = true ↔ d ∉ lackingRust) := by decide +kernel

/-- Fortran: same, except exactly the unsigned integers (no such type; a signed kind is declared). -/
theorem C19_types_fortran : ∀ d ∈ Gen.dipTypes, (typeOK bFortran d = true ↔ d ∉ lackingFortran) := by
  decide +kernel

/-- the full statement for Fortran fails on the unchanged code -/
theorem C19_types_fortran_counterexample : ¬ (∀ d ∈ Gen.dipTypes, typeOK bFortran d = true) := by
  decide +kernel

/-- the declared type at the head of a C / C++ declaration is uniquely readable: no table entry
    followed by a blank is a prefix of another one followed by a blank -/
theorem C19_type_names_prefix_free :
    ∀ b ∈ [bC, bCpp], ∀ t1 ∈ targets b, ∀ t2 ∈ targets b,
      t1 ≠ t2 → dropPrefix? (t1 ++ [' ']) (t2 ++ [' ']) = none := by decide +kernel

/-! ## literals -/

/-- `str(int)` then reading the decimal numeral is the identity, for every integer -/
theorem C19_decimal_roundtrip (i : Int) : readInt (showInt i) = some i := readInt_showInt i

/-- every string, written as a literal the way the repaired exporters do (C / C++ / Rust: `\\` → `\\\\`,
    `"` → `\\"`; Fortran: `"` → `""`), is read back unchanged — no restriction on its characters -/
theorem C19_string_literal_roundtrip (q : Quoting) (v : Str) : unquote q (quoteStr q v) = some v :=
  unquote_quote q v

/-- the bracket machine inverts the nested-list printer for every tree (any rank, any sizes, also
    ragged) whose leaves are bare tokens or string literals as the exporters write them -/
theorem C19_machine_inverts_printer (q : Quoting) (o c : Char) (g : Good o c) (t : TokTree)
    (h : SafeTree q o c t) : parseInit q o c (printTok o c t) = some t := parseInit_printTok q o c g t h

example : SafeTree .backslash '{' '}'
    (.arr [.arr [.leaf (cs!"1"), .leaf (cs!"-2")], .arr [.leaf (quoteStr .backslash (cs!"a, }\"b\\"))]]) := by
  refine ⟨⟨SafeTok.bare _ (by decide) (by simp [plainChar]), SafeTok.bare _ (by decide) (by simp [plainChar]), trivial⟩,
    ⟨SafeTok.quoted _, trivial⟩, trivial⟩

/-- C / C++ : `_parse_value` text of ANY nested value of kind `k` (every rank and size, every
    string), read as a brace initialiser and interpreted at kind `k`, is the value -/
theorem C19_initialiser_roundtrip_c (k : Kind) (v : Val) (hv : ValOK k v) :
    (parseInit .backslash '{' '}' (printVal styleC v)).bind (interp .backslash k (cs!"true") (cs!"false")) = some v :=
  roundtrip_val styleC '{' '}' styleC_ok k v hv

/-- Rust: the same with bracket initialisers -/
theorem C19_initialiser_roundtrip_rust (k : Kind) (v : Val) (hv : ValOK k v) :
    (parseInit .backslash '[' ']' (printVal styleRust v)).bind (interp .backslash k (cs!"true") (cs!"false")) = some v :=
  roundtrip_val styleRust '[' ']' styleRust_ok k v hv

example : ValOK Kind.int (.arr [.arr [.leaf (.i 1), .leaf (.i (-2))], .arr [.leaf (.i 3), .leaf (.i 4)]]) := by
  simp [ValOK, ValsOK, ScalarOK]

example : ValOK Kind.str (.arr [.leaf (.s (cs!"he said \"hi\", C:\\dir {c}"))]) := by
  simp [ValOK, ValsOK, ScalarOK]

/-! ## whole files and declaration lines: `read_b (export_b …) = expected …` -/

/-- **C**: for every list of selected parameters and all options (guard, `define` list, renaming),
    reading the whole exported header — guard lines, the `<stdbool.h>` block when a boolean constant
    is present, one `const` or `#define` line per parameter, `#endif` — gives exactly the expected
    symbols in order: mapped name, the declared type `_parse_dtype` chose (`macro` for definitions),
    shape, row-major value (booleans in `define` as 1 / 0).  Both sides are undefined exactly when some
    node has no C type.  Hypotheses = the documented domain: names without `[` / blank / newline after
    renaming, newline-free strings and guard, rectangular values without empty levels, `define` only
    for scalars (a float token is never an integer numeral). -/
theorem C19_roundtrip_c (o : COpts) (data : List Param) (hg : clean o.guard = true)
    (hok : ∀ p ∈ data, ParamOKC o.rename o.define p) :
    (exportC o data).bind (readC bC o.guard) = expected bC o.rename o.define (data.map (macroParam o.define)) :=
  readC_exportC o data hg hok

/-- **C++**: the same with `define`, `const` and `constexpr` selections -/
theorem C19_roundtrip_cpp (o : COpts) (data : List Param) (hg : clean o.guard = true)
    (hok : ∀ p ∈ data, ParamOKC o.rename o.define p) :
    (exportCpp o data).bind (readC bCpp o.guard) = expected bCpp o.rename o.define (data.map (macroParam o.define)) :=
  readC_exportCpp o data hg hok

/-- **Rust**: reading the whole exported file gives the expected symbols of all parameters -/
theorem C19_roundtrip_rust (ren : Bool) (data : List Param) (hok : ∀ p ∈ data, ParamOKRust ren p) :
    (exportRust ren data).bind readRust = expected bRust ren [] data :=
  readRust_exportRust ren data hok

/-- the hypotheses are satisfiable by a non-trivial environment (a defined string with quote and
    backslash, a boolean constant, a 2x3 integer matrix), and the round trip is not `none = none` there -/
example : let data : List Param := [
      ⟨cs!"sim.name", .str, 0, .leaf (.s (cs!"he said \"hi\" C:\\x")), none, []⟩,
      ⟨cs!"sim.output", .bool, 0, .leaf (.b true), none, []⟩,
      ⟨cs!"matrix", .int, 32, .arr [.arr [.leaf (.i 1), .leaf (.i 2), .leaf (.i 3)], .arr [.leaf (.i 4), .leaf (.i (-5)), .leaf (.i 6)]],
        some (cs!"cm"), []⟩]
    let o : COpts := ⟨cs!"CONFIG_H", [cs!"sim.name"], [cs!"matrix"], true⟩
    (∀ p ∈ data, ParamOKC o.rename o.define p) ∧ (∀ p ∈ data, ParamOKRust true p) ∧ clean o.guard = true ∧
      ((exportC o data).bind (readC bC o.guard)).isSome = true ∧
      ((exportCpp o data).bind (readC bCpp o.guard)).isSome = true ∧
      ((exportRust true data).bind readRust).isSome = true := by
  intro data o
  refine ⟨?_, ?_, by decide, by decide +kernel, by decide +kernel, by decide +kernel⟩
  · intro p hp
    simp only [data, List.mem_cons, List.mem_nil_iff, or_false] at hp
    rcases hp with rfl | rfl | rfl
    · exact ⟨by decide, by decide, by simp [ValOK, ScalarOK], by simp [NoNL]; decide, ⟨[], by decide, by decide⟩,
        fun _ => ⟨_, rfl, by intro t h; cases h⟩⟩
    · exact ⟨by decide, by decide, by simp [ValOK, ScalarOK], by simp [NoNL], ⟨[], by decide, by decide⟩,
        fun h => absurd h (by decide)⟩
    · exact ⟨by decide, by decide, by simp [ValOK, ValsOK, ScalarOK], by simp [NoNL, NoNLs], ⟨[2, 3], by decide, by decide⟩,
        fun h => absurd h (by decide)⟩
  · intro p hp
    simp only [data, List.mem_cons, List.mem_nil_iff, or_false] at hp
    rcases hp with rfl | rfl | rfl
    · exact ⟨by decide, by decide, by simp [ValOK, ScalarOK], by simp [NoNL]; decide, ⟨[], by decide, by decide⟩⟩
    · exact ⟨by decide, by decide, by simp [ValOK, ScalarOK], by simp [NoNL], ⟨[], by decide, by decide⟩⟩
    · exact ⟨by decide, by decide, by simp [ValOK, ValsOK, ScalarOK], by simp [NoNL, NoNLs], ⟨[2, 3], by decide, by decide⟩⟩

/-- C / C++ : for EVERY parameter (any name without `[` / blank after renaming, any DIP kind and width,
    any rank and size, any string content) the exported `const` / `constexpr` declaration line, read
    by the C reader model, is exactly the expected symbol: mapped name, the declared type
    `_parse_dtype` chose, the shape, the value in row-major nesting.  Both sides are undefined
    exactly when `_parse_dtype` has no type for the node. -/
theorem C19_roundtrip_c_line (backend kw : Str) (hb : backend = bC ∨ backend = bCpp)
    (hkw : kw = cs!"const" ∨ kw = cs!"constexpr") (ren : Bool) (p : Param) (sh : List Nat)
    (hn : ∀ ch ∈ rename ren p.name, ch ≠ '[' ∧ ch ≠ ' ')
    (hv : ValOK p.kind p.value) (hr : rectShape p.value = some sh) (h0 : 0 ∉ sh) :
    (lineConst backend kw ren p).bind (readConstLine backend) = expectedSym backend ren false p :=
  readConstLine_lineConst backend kw hb hkw ren p sh hn hv hr h0

/-- Rust: the same for `pub const NAME: [[T; n]; m] = [[…]];` lines -/
theorem C19_roundtrip_rust_line (ren : Bool) (p : Param) (sh : List Nat)
    (hn : ∀ ch ∈ rename ren p.name, ch ≠ ':')
    (hv : ValOK p.kind p.value) (hr : rectShape p.value = some sh) (h0 : 0 ∉ sh) :
    (lineRust ren p).bind readRustLine = expectedSym bRust ren false p :=
  readRustLine_lineRust ren p sh hn hv hr h0

/-- the hypotheses are satisfiable by a non-trivial parameter, and the conclusion is not `none = none` there -/
example : let p : Param := ⟨cs!"box.names", .str, 0,
      .arr [.arr [.leaf (.s (cs!"a \"b\"")), .leaf (.s (cs!"C:\\d"))], .arr [.leaf (.s (cs!"x")), .leaf (.s (cs!"}, {"))]],
      none, []⟩
    (∀ ch ∈ rename true p.name, ch ≠ '[' ∧ ch ≠ ' ') ∧ ValOK p.kind p.value ∧
      rectShape p.value = some [2, 2] ∧ 0 ∉ [2, 2] ∧
      ((lineConst bC (cs!"const") true p).bind (readConstLine bC)).isSome = true ∧
      ((lineRust true p).bind readRustLine).isSome = true := by
  refine ⟨by decide, by simp [ValOK, ValsOK, ScalarOK], by decide, by decide, by decide, by decide⟩

/-! ## Fortran modules -/

/-- full statement: every Fortran module reads back as the expected symbols.  FALSE on the code as it
    is (`C19_roundtrip_fortran_counterexample`): the three known findings `fortran:real-literal-kind`,
    `fortran:int-literal-kind`, `fortran:unsigned`. -/
def C19_roundtrip_fortran_statement : Prop :=
  ∀ (modname : Str) (ren : Bool) (data : List Param), clean modname = true →
    (∀ p ∈ data, (∀ ch ∈ rename ren p.name, ch ≠ ' ') ∧ clean (rename ren p.name) = true ∧
      ValOK p.kind p.value ∧ NoNL p.value ∧ ∃ sh, rectShape p.value = some sh ∧ 0 ∉ sh) →
    (exportFortran modname ren data).bind (readFortran modname) = expected bFortran ren [] data

theorem C19_roundtrip_fortran_counterexample : ¬ C19_roundtrip_fortran_statement := by
  intro h
  have := h (cs!"m") true [⟨cs!"e", .float, 64, .leaf (.f (cs!"0.1")), none, []⟩] (by decide) (by
    intro p hp
    simp only [List.mem_singleton] at hp
    subst hp
    exact ⟨by decide, by decide, ⟨rfl, by decide, by decide⟩, trivial, ⟨[], by decide, by decide⟩⟩)
  have := congrArg (Option.map (List.map Sym.narrow)) this
  revert this
  decide +kernel

/-- **Fortran, the kinds it carries** (`fortranGuard` = logical, character, integers whose literals fit
    the default and the declared kind, default-kind reals; the weakest decidable guard that excludes
    exactly the three findings): for every list of such parameters — scalars, one-dimensional arrays
    `[…]`, arrays of any rank >= 2 as `reshape([…],[dims],order=[k,…,1])`, string arrays with the typed
    constructor `[character(len=n) :: …]`, any string content without newline — reading the whole
    exported module (module frame, line splitting, the three declaration forms, doubled quotes,
    column-major `reshape` with the explicit order) gives exactly the expected symbols -/
theorem C19_roundtrip_fortran_partial (modname : Str) (hm : clean modname = true) (ren : Bool) (data : List Param)
    (hok : ∀ p ∈ data, ParamOKF ren p) :
    (exportFortran modname ren data).bind (readFortran modname) = expected bFortran ren [] data :=
  readFortran_exportFortran modname hm ren data hok

/-- one declaration line -/
theorem C19_roundtrip_fortran_line_partial (ren : Bool) (p : Param) (sh : List Nat)
    (hn : ∀ ch ∈ rename ren p.name, ch ≠ ' ') (hv : ValOK p.kind p.value)
    (hr : rectShape p.value = some sh) (h0 : 0 ∉ sh) (hg : fortranGuard p = true) :
    (lineFortran ren p).bind readFortranLine = expectedSym bFortran ren false p :=
  readFortranLine_lineFortran ren p sh hn hv hr h0 hg

example : let data : List Param := [
      ⟨cs!"names", .str, 0, .arr [.leaf (.s (cs!"a \"b\" µ")), .leaf (.s (cs!"c"))], none, []⟩,
      ⟨cs!"flag", .bool, 0, .leaf (.b true), none, []⟩,
      ⟨cs!"half", .float, 32, .arr [.leaf (.f (cs!"0.5")), .leaf (.f (cs!"1.5"))], some (cs!"cm"), []⟩,
      ⟨cs!"tensor", .int, 32, .arr [.arr [.arr [.leaf (.i 1), .leaf (.i 2)], .arr [.leaf (.i 3), .leaf (.i (-4))]]], none, []⟩]
    (∀ p ∈ data, ParamOKF true p) ∧
      ((exportFortran (cs!"ConfigurationModule") true data).bind (readFortran (cs!"ConfigurationModule"))).isSome = true := by
  intro data
  refine ⟨?_, by decide +kernel⟩
  intro p hp
  simp only [data, List.mem_cons, List.mem_nil_iff, or_false] at hp
  rcases hp with rfl | rfl | rfl | rfl
  · exact ⟨by decide, by decide, by simp [ValOK, ValsOK, ScalarOK], by simp [NoNL, NoNLs]; decide, ⟨[2], by decide, by decide⟩, rfl⟩
  · exact ⟨by decide, by decide, by simp [ValOK, ScalarOK], by simp [NoNL], ⟨[], by decide, by decide⟩, rfl⟩
  · exact ⟨by decide, by decide, by simp [ValOK, ValsOK, ScalarOK]; decide, by simp [NoNL, NoNLs], ⟨[2], by decide, by decide⟩, rfl⟩
  · exact ⟨by decide, by decide, by simp [ValOK, ValsOK, ScalarOK], by simp [NoNL, NoNLs], ⟨[1, 2, 2], by decide, by decide⟩, by decide⟩

/-! ## Fortran `reshape` -/

/-- with `order=[k,…,1]` (what the repaired exporter writes) `reshape` of the row-major element
    list gives back EVERY rectangular nested value, of any rank and any sizes -/
theorem C19_reshape_rowmajor {α : Type} (v : Tree α) (dims : List Nat) (h : rectShape v = some dims) :
    reshapeF (flatten v) dims (some (orderList dims.length)) = some v :=
  reshapeF_flatten v dims h

example : rectShape (.arr [.arr [.leaf ['1'], .leaf ['2'], .leaf ['3']], .arr [.leaf ['4'], .leaf ['5'], .leaf ['6']]] : TokTree)
    = some [2, 3] := by decide

/-- the default (column-major) `reshape(src, shape)` the unrepaired exporter relied on does not -/
theorem C19_reshape_colmajor_counterexample :
    ¬ (∀ (v : TokTree) (dims : List Nat), rectShape v = some dims →
        reshapeF (flatten v) dims none = some v) := by
  intro h
  have := congrArg (Option.map flatten)
    (h (.arr [.arr [.leaf ['1'], .leaf ['2'], .leaf ['3']], .arr [.leaf ['4'], .leaf ['5'], .leaf ['6']]]) [2, 3]
      (by decide))
  revert this
  decide

/-- (test) what column-major filling makes of `[[1,2,3],[4,5,6]]` : `M(1,2) = 3` -/
example :
    (reshapeF [['1'], ['2'], ['3'], ['4'], ['5'], ['6']] [2, 3] none).map flatten =
      some [['1'], ['3'], ['5'], ['2'], ['4'], ['6']] := by
  decide

/-- (test) `order=[3,2,1]` on one rank-3 instance -/
example :
    (reshapeF [['1'], ['2'], ['3'], ['4'], ['5'], ['6'], ['7'], ['8'], ['9'], ['a'], ['b'], ['c']] [2, 3, 2]
        (some [3, 2, 1])).map flatten =
      some [['1'], ['2'], ['3'], ['4'], ['5'], ['6'], ['7'], ['8'], ['9'], ['a'], ['b'], ['c']] := by
  decide

/-- the Fortran declaration-line statement is FALSE on the code as it is (known findings
    `fortran:real-literal-kind`, `fortran:int-literal-kind`): `real(kind=8), parameter :: E = 0.1;`
    holds a default-kind literal (the reader marks the value as narrowed to single precision), and
    `integer(kind=8), parameter :: N = 2399495729;` is rejected (default-kind literal too big) -/
theorem C19_fortran_literal_kind_counterexample :
    ¬ (∀ p : Param, ((lineFortran true p).bind readFortranLine).map (fun s => (s.narrow, s.shape)) =
        (expectedSym bFortran true false p).map (fun s => (s.narrow, s.shape))) := by
  intro h
  have := h ⟨cs!"e", .float, 64, .leaf (.f (cs!"0.1")), none, []⟩
  revert this
  decide

theorem C19_fortran_int_literal_counterexample :
    ¬ (∀ p : Param, ((lineFortran true p).bind readFortranLine).isSome =
        (expectedSym bFortran true false p).isSome) := by
  intro h
  have := h ⟨cs!"num_groups", .int, 64, .leaf (.i 2399495729), none, []⟩
  revert this
  decide

/-- (test) a 2x3 integer matrix and a string with a quote do read back through the Fortran line reader -/
example :
    ((lineFortran true ⟨cs!"m", .int, 32, .arr [.arr [.leaf (.i 1), .leaf (.i 2), .leaf (.i 3)],
        .arr [.leaf (.i 4), .leaf (.i 5), .leaf (.i 6)]], none, []⟩).bind readFortranLine).map (·.shape) = some [2, 3] ∧
    ((lineFortran true ⟨cs!"s", .str, 0, .arr [.leaf (.s (cs!"a \"b\"")), .leaf (.s (cs!"c"))], none, []⟩).bind
        readFortranLine).isSome = true := by
  decide +kernel

/-! ## Bash -/

/-- **Bash, every rank**: for every list of parameters with distinct exported names (scalars, one-
    dimensional arrays `NAME=("w1" …)`, arrays of rank >= 2 as `declare -A NAME`, one `NAME[i,j]=v` line
    per element, `export NAME`), every kind, any string content without newline, both `export`
    settings: sourcing the exported file line by line gives exactly the expected variables — name,
    scalar / indexed / associative attribute, export flag, subscripts in row-major order, values.
    (Distinct names are necessary: see `C19_rename_counterexample`, finding `rename:collision`.) -/
theorem C19_roundtrip_bash (exp ren : Bool) (data : List Param) (hok : ∀ p ∈ data, ParamOKBashAll ren p)
    (hnd : (data.map (fun p => rename ren p.name)).Nodup) :
    (exportBash exp ren data).bind readBash = some (expectedBash exp ren data) :=
  readBash_exportBash_all exp ren data hok hnd

example : let data : List Param := [
      ⟨cs!"m", .int, 32, .arr [.arr [.leaf (.i 1), .leaf (.i 2)], .arr [.leaf (.i 3), .leaf (.i (-4))]], none, []⟩,
      ⟨cs!"s", .str, 0, .arr [.arr [.leaf (.s (cs!"a $b"))], .arr [.leaf (.s (cs!"c\"d"))]], none, []⟩,
      ⟨cs!"n", .int, 32, .leaf (.i 5), none, []⟩]
    (∀ p ∈ data, ParamOKBashAll true p) ∧ (data.map (fun p => rename true p.name)).Nodup ∧
      ((exportBash true true data).bind readBash).isSome = true := by
  intro data
  have hok : ∀ p ∈ data, ParamOKBashAll true p := ?_
  · exact ⟨hok, by decide, by rw [C19_roundtrip_bash true true data hok (by decide)]; rfl⟩
  intro p hp
  simp only [data, List.mem_cons, List.mem_nil_iff, or_false] at hp
  rcases hp with rfl | rfl | rfl
  · exact ⟨by decide, by decide, by simp [NoNL, NoNLs], by simp [ValOK, ValsOK, ScalarOK], ⟨[2, 2], by decide, by decide⟩⟩
  · exact ⟨by decide, by decide, by simp [NoNL, NoNLs]; decide, by simp [ValOK, ValsOK, ScalarOK], ⟨[2, 1], by decide, by decide⟩⟩
  · exact ⟨by decide, by decide, by simp [NoNL], by simp [ValOK, ScalarOK], ⟨[], by decide, by decide⟩⟩

/-- Bash, scalars and one-dimensional arrays only (no assumption about distinct names): for every list
    of scalar and one-dimensional array parameters (every kind, every string
    content without newline, any length) and both `export` settings, sourcing the exported file —
    split into lines, every `[export ]NAME=word` / `NAME=("w1" "w2" …)` line read with quote removal —
    gives exactly the expected variables: name, scalar / indexed attribute, export flag, subscripts
    and values -/
theorem C19_roundtrip_bash_flat (exp ren : Bool) (data : List Param) (hok : ∀ p ∈ data, ParamOKBash ren p) :
    (exportBash exp ren data).bind readBash = some (expectedBash exp ren data) :=
  readBash_exportBash exp ren data hok

example : let data : List Param := [
      ⟨cs!"sim.name", .str, 0, .leaf (.s (cs!"cost $HOME `x` \"q\" \\")), none, []⟩,
      ⟨cs!"sizes", .float, 64, .arr [.leaf (.f (cs!"23.4")), .leaf (.f (cs!"1e-05"))], some (cs!"cm"), []⟩,
      ⟨cs!"flags", .bool, 0, .arr [.leaf (.b true), .leaf (.b false)], none, []⟩]
    (∀ p ∈ data, ParamOKBash true p) ∧ ((exportBash true true data).bind readBash).isSome = true := by
  intro data
  refine ⟨?_, by decide +kernel⟩
  intro p hp
  simp only [data, List.mem_cons, List.mem_nil_iff, or_false] at hp
  rcases hp with rfl | rfl | rfl
  · exact ⟨by decide, by decide, by simp [NoNL]; decide, Or.inl ⟨_, rfl, rfl⟩⟩
  · exact ⟨by decide, by decide, by simp [NoNL, NoNLs],
      Or.inr ⟨[.f (cs!"23.4"), .f (cs!"1e-05")], by simp, rfl, by
        intro s hs; simp at hs; rcases hs with rfl | rfl <;> exact ⟨rfl, by decide, by decide⟩⟩⟩
  · exact ⟨by decide, by decide, by simp [NoNL, NoNLs],
      Or.inr ⟨[.b true, .b false], by simp, rfl, by intro s hs; simp at hs; rcases hs with rfl | rfl <;> rfl⟩⟩

/-- every string value, escaped by the repaired `_parse_scalar` (`\\`, `"`, `$`, backquote get a
    backslash) and read by Bash as one double-quoted word, is unchanged -/
theorem C19_bash_string_roundtrip (v : Str) : bashWordValue (bashScalar (.s v)) = some v :=
  bashWordValue_scalar v

/-! ## DIP text -/

/-- over the regenerated tables: every type the live DIP parser accepts is exported by `ExportConfig.parse`
    under a keyword that the reader maps back to exactly that (kind, precision) -/
theorem C19_types_dip : ∀ d ∈ Gen.dipTypes, ∃ t, lookupType bDip d.1 d.2 = some t ∧ dipKind t = some d := by
  intro d hd
  obtain ⟨t, h1, h2, _⟩ := dipKind_lookup d hd
  exact ⟨t, h1, h2⟩

/-- `_parse_dip_array` text (`[[1,2],[3,4]]`, elements joined by a bare comma) of ANY nested boolean, integer
    or float value (every rank and size), read as JSON nested lists and interpreted at its kind, is the value -/
theorem C19_dip_array_roundtrip (k : Kind) (hk : k ≠ Kind.str) (v : Val) (hv : ValOK k v) :
    (parseInit .backslash '[' ']' (dipArray v)).bind (interp .backslash k (cs!"true") (cs!"false")) = some v :=
  dipArray_roundtrip k hk v hv

/-- a scalar string value as `_parse_dip_scalar` writes it (`'` → `\\'`, `"` → `\\"`, in quotes), read the way DIP
    reads a quoted value (`\\"`, `\\'` are quote characters, any other backslash is literal, the first other `"`
    closes): EVERY text that does not end in a backslash comes back unchanged, with nothing left over.
    (A value ending in a backslash does not: known finding `dip:string-trailing-backslash`.) -/
theorem C19_dip_string_roundtrip (v : Str) (h : endsBS v = false) :
    ∃ body, dipScalar false (.s v) = '"' :: body ∧ dipStrGo false body = some (v, []) :=
  ⟨_, dipScalar_str v, (dipStrGo_esc v h).1⟩

example : endsBS (cs!"he said \"hi\", it's C:\\dir # x = \\\"y") = false := by decide

/-- **DIP text** (`ParamOKDip` : a DIP name `[a-zA-Z0-9_.-]+`, a type the live parser accepts, and EITHER a boolean /
    integer / unsigned / float node — scalar or rectangular array of any rank without empty levels, no unit or a
    unit the parser reads as one — OR a scalar string node whose text has no newline, no `$` and does not end in a
    backslash): for every list of such parameters, reading the whole exported text — split into lines; per line
    name, type keyword, `[dims]`, ` = `, value (token or quoted text), unit — with the model of the DIP node parser
    gives back exactly the parameters in order: name, kind, precision, shape (declared dimensions = actual
    shape), value, unit.
    PARTIAL, what is missing: (1) arrays of strings (`'[…]'`, JSON with `\\uXXXX` escapes) are not in this
    theorem's fragment (they are in `C19_roundtrip_dip_strings_partial` below); (2) string texts containing `$` are excluded because `DIP._determine_node` decodes its own
    place-holders `$@00` / `$@01` / `$@02` also when they occur in a value (reader: `none`); (3) texts ending in
    a backslash are the known finding `dip:string-trailing-backslash`.  These stay covered by the correspondence
    with the real parser only. -/
theorem C19_roundtrip_dip_partial (data : List Param) (hok : ∀ p ∈ data, ParamOKDip p) :
    (exportDip data).bind readDip = some (expectedDip data) :=
  readDip_exportDip data hok

/-- one exported line -/
theorem C19_roundtrip_dip_line_partial (p : Param) (h : ParamOKDip p) :
    (lineDip p).bind readDipLine = some { p with tags := [] } :=
  readDipLine_lineDip p h

/-- the hypotheses are satisfiable by a non-trivial environment (a 2x2 integer matrix with a unit, a boolean,
    a float with a compound unit, a rank-3 unsigned array, a string with quotes, blanks, `#`, `=` and
    backslashes), and the text is what the exporter writes -/
example : let data : List Param := [
      ⟨cs!"box.m", .int, 32, .arr [.arr [.leaf (.i 1), .leaf (.i (-2))], .arr [.leaf (.i 3), .leaf (.i 4)]], some (cs!"cm"), [cs!"t"]⟩,
      ⟨cs!"sim.flag", .bool, 0, .leaf (.b true), none, []⟩,
      ⟨cs!"v-0", .float, 64, .leaf (.f (cs!"1e-05")), some (cs!"m/s2"), []⟩,
      ⟨cs!"t", .uint, 64, .arr [.arr [.arr [.leaf (.i 7)], .arr [.leaf (.i 8)]]], none, []⟩,
      ⟨cs!"s", .str, 0, .leaf (.s (cs!"a \"b\" it's # x = C:\\d")), none, []⟩]
    (∀ p ∈ data, ParamOKDip p) ∧
      exportDip data = some (cs!"box.m int[2,2] = [[1,-2],[3,4]] cm\nsim.flag bool = true\nv-0 float = 1e-05 m/s2\nt uint64[1,2,1] = [[[7],[8]]]\ns str = \"a \\\"b\\\" it\\'s # x = C:\\d\"") ∧
      (exportDip data).bind readDip = some (expectedDip data) := by
  intro data
  have hok : ∀ p ∈ data, ParamOKDip p := ?_
  · exact ⟨hok, by decide +kernel, C19_roundtrip_dip_partial data hok⟩
  intro p hp
  simp only [data, List.mem_cons, List.mem_nil_iff, or_false] at hp
  rcases hp with rfl | rfl | rfl | rfl | rfl
  · exact Or.inl ⟨by decide, by decide, by decide, by decide, by simp [ValOK, ValsOK, ScalarOK], ⟨[2, 2], by decide, by decide⟩,
      ⟨by decide, _, _, rfl, by decide, by decide, by decide, by decide⟩⟩
  · exact Or.inl ⟨by decide, by decide, by decide, by decide, by simp [ValOK, ScalarOK], ⟨[], by decide, by decide⟩, trivial⟩
  · exact Or.inl ⟨by decide, by decide, by decide, by decide, by simp [ValOK, ScalarOK]; decide, ⟨[], by decide, by decide⟩,
      ⟨by decide, _, _, rfl, by decide, by decide, by decide, by decide⟩⟩
  · exact Or.inl ⟨by decide, by decide, by decide, by decide, by simp [ValOK, ValsOK, ScalarOK], ⟨[1, 2, 1], by decide, by decide⟩, trivial⟩
  · exact Or.inr ⟨by decide, by decide, by decide, rfl, rfl, _, rfl, by decide, by decide, by decide⟩

/-! ### DIP text: arrays of strings -/

/-- every text without control characters, written as one element of an array of strings by
    `_parse_dip_scalar(…, element=True)` (`json.dumps`, then `"`, backslash and `'` as `\\uXXXX`; characters outside ASCII
    as `\\uXXXX`, beyond the BMP as a surrogate pair) and decoded the way `json.loads` decodes a JSON string, comes back
    unchanged — quotes, backslashes, `$`, characters of every plane included -/
theorem C19_json_string_roundtrip (v : Str) (h : ∀ ch ∈ v, 32 ≤ ch.toNat) :
    jsonGo .plain none (v.flatMap dipElemChar) = some v :=
  jsonGo_elem v h

/-- `_parse_dip_array` text of ANY nested value of strings without control characters and `$` (every rank and size,
    also ragged), read as JSON nested lists of strings, is the value -/
theorem C19_dip_string_array_roundtrip (v : Val) (hv : StrArrOK v) :
    (parseInit .doubled '[' ']' (dipArray v)).bind interpJ = some v :=
  dipArray_str_roundtrip v hv

/-- **DIP text, string arrays included** (`ParamOKDipAll` = `ParamOKDip` OR an array-of-strings node: a DIP name, the
    string type, no unit, a rectangular array of any rank without empty levels whose elements contain no control
    character and no `$` — quotes, backslashes also at the end, `#`, `=`, blanks, brackets, commas, characters outside
    ASCII and outside the BMP are all allowed): for every list of such parameters, reading the whole exported text with
    the model of the DIP node parser gives back exactly the parameters in order — name, kind, precision, shape
    (declared dimensions = actual shape), value, unit.  Strictly stronger than `C19_roundtrip_dip_partial`.
    PARTIAL, what is missing: (1) string texts containing `$` (scalar or element; `DIP._determine_node` decodes its own
    place-holders `$@00` / `$@01` / `$@02`); (2) scalar string texts ending in a backslash (known finding
    `dip:string-trailing-backslash`); (3) elements with control characters (`json.dumps` writes two-character escapes
    such as `\\t` for them, which neither the exporter model nor the reader model covers).  These stay covered by the
    correspondence with the real parser only. -/
theorem C19_roundtrip_dip_strings_partial (data : List Param) (hok : ∀ p ∈ data, ParamOKDipAll p) :
    (exportDip data).bind readDip = some (expectedDip data) :=
  readDip_exportDip_all data hok

/-- one exported line -/
theorem C19_roundtrip_dip_strings_line_partial (p : Param) (h : ParamOKDipAll p) :
    (lineDip p).bind readDipLine = some { p with tags := [] } :=
  readDipLine_lineDip_all p h

/-- the hypotheses are satisfiable by a non-trivial environment (a 2x2 array of strings with quotes, backslashes — also
    at the end —, brackets, commas, `#`, `=`, a character outside ASCII and one outside the BMP; a numeric node; a
    scalar string), and the text is what the exporter writes -/
example : let data : List Param := [
      ⟨cs!"box.names", .str, 0, .arr [.arr [.leaf (.s (cs!"a \"b\" it's")), .leaf (.s (cs!"C:\\d µ 𝄞\\"))],
        .arr [.leaf (.s (cs!"x, y]")), .leaf (.s (cs!"# = "))]], none, [cs!"t"]⟩,
      ⟨cs!"n", .int, 32, .leaf (.i 5), none, []⟩,
      ⟨cs!"s", .str, 0, .leaf (.s (cs!"plain \"q\"")), none, []⟩]
    (∀ p ∈ data, ParamOKDipAll p) ∧
      exportDip data = some (cs!"box.names str[2,2] = '[[\"a \\u0022b\\u0022 it\\u0027s\",\"C:\\u005cd \\u00b5 \\ud834\\udd1e\\u005c\"],[\"x, y]\",\"# = \"]]'\nn int = 5\ns str = \"plain \\\"q\\\"\"") ∧
      (exportDip data).bind readDip = some (expectedDip data) := by
  intro data
  have hok : ∀ p ∈ data, ParamOKDipAll p := ?_
  · exact ⟨hok, by decide +kernel, C19_roundtrip_dip_strings_partial data hok⟩
  intro p hp
  simp only [data, List.mem_cons, List.mem_nil_iff, or_false] at hp
  rcases hp with rfl | rfl | rfl
  · exact Or.inr ⟨by decide, by decide, by decide, rfl, rfl, ⟨_, rfl⟩, by simp [StrArrOK, StrArrsOK, ElemOK] <;> decide,
      ⟨[2, 2], by decide, by decide⟩⟩
  · exact Or.inl (Or.inl ⟨by decide, by decide, by decide, by decide, by simp [ValOK, ScalarOK], ⟨[], by decide, by decide⟩, trivial⟩)
  · exact Or.inl (Or.inr ⟨by decide, by decide, by decide, rfl, rfl, _, rfl, by decide, by decide, by decide⟩)

/-! ## selection and renaming -/

/-- a query `pre.*` selects exactly the nodes named `pre.<rest>` and exports them as `<rest>` -/
theorem C19_selection_prefix (pre n r : Str) :
    queryName (pre ++ ['.', '*']) n = some r ↔ n = pre ++ ['.'] ++ r := by
  have h1 : pre ++ ['.', '*'] ≠ ['*'] := by
    intro e; have := congrArg List.length e; simp at this
  unfold queryName
  simp only [h1, if_false, List.reverse_append, List.reverse_cons, List.reverse_nil, List.nil_append,
    List.cons_append]
  simp [dropPrefix?, dropPrefix_iff]

/-- `select` exports exactly the nodes matched by the query that carry the tag, under their
    query-relative names, in environment order -/
theorem C19_selection (q : Str) (tags : Option (List Str)) (env : List Param) :
    select (some q) tags env =
      (env.filterMap (fun p => (queryName q p.name).map (fun n => { p with name := n }))).filter (tagKeep tags) := by
  simp [select]

theorem C19_selection_all (env : List Param) : select none none env = env := rfl

/-- renaming is not injective on DIP names: `a.b` and `a_b` collide (finding `rename:collision`) -/
theorem C19_rename_counterexample : ¬ (∀ n1 n2 : Str, rename true n1 = rename true n2 → n1 = n2) := by
  intro h
  have := h (cs!"a.b") (cs!"a_b") (by decide)
  revert this
  decide

/-! ## one exporter object used repeatedly -/

/-- every `parse` of any history of `select` / `parse` calls on one exporter object returns the export
    of the selection then in force (the last `select`, or the whole environment) with the options of
    that very call — nothing of earlier calls is kept.  This is the model of the object; the real
    objects are compared with it on every run by exporting each history step also with a fresh object. -/
theorem C19_history {α β : Type} (exportF : α → List Param → β) (env : List Param) :
    ∀ (pre : List (Call α)) (opts : α) (post : List (Call α)) (o : ExporterObj), o.env = env →
      (runCalls exportF (pre ++ Call.parse opts :: post) o)[(runCalls exportF pre o).length]? =
        some (exportF opts (currentSelection env pre o.data)) := by
  intro pre
  induction pre with
  | nil => intro opts post o _; simp [runCalls, currentSelection]
  | cons c pre ih =>
    intro opts post o ho
    cases c with
    | select q t =>
      simp only [List.cons_append, runCalls, currentSelection]
      have := ih opts post { o with data := select q t o.env } ho
      simpa [ho] using this
    | parse o2 =>
      simp only [List.cons_append, runCalls, currentSelection, List.length_cons, List.getElem?_cons_succ]
      exact ih opts post o ho

example : runCalls (fun (u : Bool) (d : List Param) => (u, d.map (·.name)))
    [.parse true, .select (some (cs!"box.*")) none, .parse true, .parse false]
    (ExporterObj.init [⟨cs!"box.w", .int, 32, .leaf (.i 1), none, []⟩, ⟨cs!"n", .int, 32, .leaf (.i 2), none, []⟩]) =
    [(true, [cs!"box.w", cs!"n"]), (true, [cs!"w"]), (false, [cs!"w"])] := by decide

/-! ## JSON / YAML / TOML shaping -/

/-- the shaped entry keeps the name and the value; the unit is kept exactly when `units` is on and
    the node is a number with a unit -/
theorem C19_shape_entry (units : Bool) (p : Param) :
    (shapeEntry units p).1 = p.name ∧
    ((shapeEntry units p).2 = Shaped.bare p.value ∨
      ∃ u, p.unit = some u ∧ units = true ∧ (shapeEntry units p).2 = Shaped.withUnit p.value u) := by
  unfold shapeEntry
  cases hk : p.kind <;> cases hu : p.unit <;> cases units <;> simp

end SciVerif.C19
