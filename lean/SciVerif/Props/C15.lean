import SciVerif.Lemmas.C15b
import SciVerif.Lemmas.C15c

/-!
# C15 — A node takes effect exactly when all enclosing case clauses are selected

Only property theorems live here (helper lemmas are in `Lemmas/C15*.lean`).
`parse`/`run`/`step` = the model of `DIP.parse` + `HierarchyList` + `BranchingList`
(`Model/C15.lean`); `Items` = program trees (node definitions, modifications, property lines
below a node or on their own, groups, blocks in plain form or in compact form `parent.@case`),
`render` = the lines of a tree under an arbitrary indentation oracle (the `extra`
annotations), `sem` = the lines of the selected clauses.  Every theorem quantifies over all
trees (any nesting depth), all truth values, all indentation annotations, all written parents.
-/
namespace SciVerif.C15

/-- Main theorem.  For every program tree — any nesting of blocks and groups, blocks written
    plainly or in compact form with any dotted parent, any truth assignment, any indentation
    oracle, blocks closed by `@end`, by the next clause, by a neighbouring block with another
    parent, by de-indentation over any number of levels (by a node, a group or a property
    line) or by the end of the text — the parser accepts the rendered text and the node and
    property lines that take effect are exactly, and in order, the lines of the selected
    clauses (`sem`: first true clause of each block, else `@else`, else nothing; a nested
    block counts only inside a selected clause). -/
theorem C15_effect_iff_selected (p : Items) : parse (p.render 0) = .ok (p.sem []) := by
  obtain ⟨s', hr, _, _⟩ := items_ok p 0 St.init [] []
    (by intro b hb; simp at hb) (by intro b hb; simp at hb) rfl rfl (fun _ _ => rfl)
  simp only [parse, hr]
  simp [falseCase, cleanName, fullName]

/-- The "exactly when" reading, spelled out: list every node/property occurrence of the tree
    with, for each enclosing clause, the flag "this clause is the selected one of its block"
    (`occ`); the lines that take effect are exactly the occurrences all of whose flags are true. -/
theorem C15_effect_iff_all_enclosing_selected (p : Items) :
    parse (p.render 0) = .ok (selectedOnly (p.occ [] [])) := by
  rw [C15_effect_iff_selected, Items.occ_sem]
  simp

/-- The same inside any context: at any indent `k`, below any stack `B` of open branches and
    any hierarchy `P`, the lines of a rendered item sequence take effect iff every branch of
    `B` has its current clause selected (`falseCase B = false`) — and then exactly the lines
    of the selected clauses do, under the cleaned hierarchical name of `P`; the enclosing
    stack and hierarchy are found unchanged afterwards. -/
theorem C15_effect_iff_selected_nested (p : Items) (k : Nat) (s : St)
    (hB : Below k s.state) (hP : BelowP k s.parents) :
    ∃ s', run s (p.render k) =
        .ok (s', if falseCase s.state then [] else p.sem (cleanName (fullName s.parents))) ∧
      closeGE k s'.state = s.state ∧ popGE k s'.parents = s.parents :=
  items_ok p k s s.state s.parents hB hP (closeGE_of_below hB) (popGE_of_below hP)
    (fun _ _ => closeFor_new (closeGE_of_below (hB.mono (Nat.le_succ k))) hB)

/-- The hypotheses are satisfiable by non-trivial states: after `@case false` (resp. `@case true`)
    at indent 0 the state has one open branch; at indent 1 the theorem applies, with all
    lines skipped (resp. taken). -/
example :
    (match run St.init [⟨0, [], .case false⟩] with
      | .ok (s, _) => decide (s.state.length = 1 ∧ s.state.all (fun b => b.cur.indent < 1) ∧
          s.parents.all (fun p => p.1 < 1) ∧ falseCase s.state = true)
      | .error _ => false) = true ∧
    (match run St.init [⟨0, ["g"], .case true⟩] with
      | .ok (s, _) => decide (s.state.length = 1 ∧ s.state.all (fun b => b.cur.indent < 1) ∧
          s.parents.all (fun p => p.1 < 1) ∧ falseCase s.state = false)
      | .error _ => false) = true := by
  decide

/-- Lines outside a block are unaffected by what is inside it: whatever two items (e.g. two
    blocks with different truth values, clauses, parents and contents) stand between the item
    sequences `A` and `C`, the lines of `A` and `C` take effect identically; only the middle
    part differs. -/
theorem C15_outside_unaffected (A C : Items) (b₁ b₂ : Item) :
    parse ((A.append (.cons b₁ C)).render 0) = .ok (A.sem [] ++ b₁.sem [] ++ C.sem []) ∧
    parse ((A.append (.cons b₂ C)).render 0) = .ok (A.sem [] ++ b₂.sem [] ++ C.sem []) := by
  constructor <;>
  · rw [C15_effect_iff_selected, Items.sem_append]
    simp [Items.sem]

/-- An unselected clause contributes nothing, whatever it contains (in particular a selected
    clause of a block nested in it, or property lines). -/
theorem C15_unselected_contributes_nothing (pfx : List String) (e : Nat) (body rest : Items) (ee : Bool) :
    parse ((Items.cons (.block pfx false e body (.fin ee 0 .nil)) rest).render 0) = .ok (rest.sem []) := by
  rw [C15_effect_iff_selected]
  simp [Items.sem, Item.sem, Chain.sem, Chain.tail]

/-- What stands inside an unselected clause is irrelevant altogether — other nodes, other
    nested blocks, other truth values of the nested conditions, other indentation: the result
    is the same for any two bodies. -/
theorem C15_unselected_contents_irrelevant (pfx : List String) (e₁ e₂ : Nat) (body₁ body₂ : Items)
    (more : Chain) (rest : Items) :
    parse ((Items.cons (.block pfx false e₁ body₁ more) rest).render 0) =
    parse ((Items.cons (.block pfx false e₂ body₂ more) rest).render 0) := by
  rw [C15_effect_iff_selected, C15_effect_iff_selected]
  simp [Items.sem, Item.sem, Chain.tail]

/-- … and the machine does not even look at such a condition (fix 790a797: `CaseNode.parse`
    does not evaluate the expression when an enclosing case is unselected): in any state in
    which some enclosing clause of a `@case` line is unselected, the step does not depend on
    the truth value of its condition. -/
theorem C15_condition_in_unselected_clause_not_evaluated (s : St) (k : Nat) (x : List String)
    (c₁ c₂ : Bool) (h : falseCase (closeGE k s.state) = true) :
    step s ⟨k, x, .case c₁⟩ = step s ⟨k, x, .case c₂⟩ := by
  simp [step, h]

example : (match run St.init [⟨0, [], .case false⟩] with
    | .ok (s, _) => falseCase (closeGE 2 s.state)
    | .error _ => false) = true := by decide

/-- Lines written after an explicit `@end` but indented deeper than it are outside the block:
    they take effect whatever the truth values of the block's clauses are, under the name of the
    block's parent (the `@N` of the `@end` line they hang below is cleaned from their names). -/
theorem C15_lines_after_end_outside_block (pfx : List String) (c : Bool) (e te : Nat)
    (body tr rest : Items) :
    parse ((Items.cons (.block pfx c e body (.fin true te tr)) rest).render 0) =
      .ok ((if c then body.sem pfx else []) ++ tr.sem pfx ++ rest.sem []) := by
  rw [C15_effect_iff_selected]
  cases c <;> simp [Items.sem, Item.sem, Chain.sem, Chain.tail]

/-- Only the first true clause counts: after a true clause nothing else of the block does
    (`more.tail`: what is written after its explicit `@end`, outside the block). -/
theorem C15_first_true_only (pfx : List String) (e : Nat) (body rest : Items) (more : Chain) :
    parse ((Items.cons (.block pfx true e body more) rest).render 0) =
      .ok (body.sem pfx ++ more.tail pfx ++ rest.sem []) := by
  rw [C15_effect_iff_selected]
  simp [Items.sem, Item.sem, Chain.tail]

/-- Two neighbouring blocks in compact form with different parents are two blocks, although
    no `@end`, node or group stands between them: a true clause of the first does not shadow
    the second. -/
theorem C15_compact_neighbours_independent (p q : List String) (hpq : p ≠ q) (e₁ e₂ : Nat)
    (b₁ b₂ rest : Items) (m₂ : Chain) :
    parse ((Items.cons (.block p true e₁ b₁ (.fin false 0 .nil))
             (.cons (.block q true e₂ b₂ m₂) rest)).render 0)
      = .ok (b₁.sem p ++ b₂.sem q ++ m₂.tail q ++ rest.sem []) ∧
    (needsEnd (some p) (some q) = false) := by
  refine ⟨?_, by simp [needsEnd, hpq]⟩
  rw [C15_effect_iff_selected]
  simp [Items.sem, Item.sem, Chain.tail]

/-- A property line written at the indent of a block that was closed only by indentation is
    outside the block: it takes effect whatever the truth value of the block's clause. -/
theorem C15_property_after_block (c : Bool) (e : Nat) (body rest : Items) (pk : PKind) (n : String) (v : Int) :
    parse ((Items.cons (.node n false v [])
             (.cons (.block [] c e body (.fin false 0 .nil)) (.cons (.prop pk) rest))).render 0)
      = .ok (Eff.node [n] false v :: ((if c then body.sem [] else []) ++ Eff.prop pk :: rest.sem [])) := by
  rw [C15_effect_iff_selected]
  cases c <;> simp [Items.sem, Item.sem, Chain.sem, Chain.tail]

/-- Import lines and directives inside an unselected clause are inert: an import whose source
    group exists only inside that clause, an import of something that does not exist at all
    and a `$unit` that cannot be defined do not make the parse fail and contribute nothing. -/
theorem C15_unselected_imports_and_directives_inert (pfx : List String) (e e' : Nat) (g u : String)
    (src : List String) (nd : Option String) (gbody rest : Items) (ee : Bool) :
    parse ((Items.cons (.block pfx false e
        (.cons (.group g e' gbody) (.cons (.imp (pfx ++ [g]) none) (.cons (.imp src nd) (.cons (.unit u true) .nil))))
        (.fin ee 0 .nil)) rest).render 0) = .ok (rest.sem []) :=
  C15_unselected_contributes_nothing pfx e _ rest ee

/-! ## Several parses on one environment -/

/-- A code parsed on ANY environment whose cases are closed — whatever hierarchy and counters
    earlier parses left in it — takes effect exactly as its own `sem` says, and returns an
    environment whose cases are closed again (fix 445f434: the end of the code closes them).
    What earlier codes contained (e.g. a block left open at their end) is irrelevant. -/
theorem C15_parse_from_any_environment (p : Items) (s : St) (h : s.state = []) :
    ∃ s', parseFrom s (p.render 0) = .ok (s', p.sem []) ∧ s'.state = [] := by
  obtain ⟨s', hr, _, _⟩ := items_ok p 0 s [] []
    (by intro b hb; simp at hb) (by intro b hb; simp at hb) (by rw [h]; rfl) (popGE_zero _)
    (fun _ _ => by rw [h]; rfl)
  refine ⟨s'.finish, ?_, rfl⟩
  simp only [parseFrom, hr]
  simp [falseCase, cleanName, fullName]

/-- … hence for a whole history: codes parsed one after the other, each on the environment
    returned by the previous one, take effect each as its own `sem`. -/
theorem C15_parse_chain : ∀ (ps : List Items) (s : St), s.state = [] →
    parseChain s (ps.map (fun p => p.render 0)) = .ok (ps.map (fun p => p.sem []))
  | [], _, _ => rfl
  | p :: ps, s, h => by
    obtain ⟨s', hr, hs'⟩ := C15_parse_from_any_environment p s h
    simp [parseChain, hr, C15_parse_chain ps s' hs']

example : (St.mk [(0, [.cs 1]), (2, [.nm "a"])] [] 3 2).state = [] := rfl

/-! Non-vacuity: a concrete program with nested blocks, a block closed by a two-level
    de-indentation, a forced `@end`, compact neighbours and property lines — rendered, run
    and compared. -/
def exampleProgram : Items :=
  .cons (.block [] false 0 (.cons (.block [] true 1 (.cons (.node "b" false 2 []) .nil) (.fin false 0 .nil)) .nil)
           (.els 0 (.cons (.node "a" false 1 [(1, .constant)]) .nil) false 0 .nil))
  (.cons (.block [] true 0 (.cons (.node "c" false 3 []) .nil) (.fin false 0 .nil))
  (.cons (.block ["w"] true 0 (.cons (.node "n" false 4 []) .nil) (.fin false 0 .nil))
  (.cons (.block ["v"] false 0 (.cons (.node "n" false 5 []) .nil) (.fin false 0 .nil))
  (.cons (.prop (.tags "t")) .nil))))

example : (match parse (exampleProgram.render 0) with | .ok o => some o | .error _ => none)
      = some [.node ["a"] false 1, .prop .constant, .node ["c"] false 3, .node ["w", "n"] false 4,
              .prop (.tags "t")] ∧ (exampleProgram.render 0).length = 14 := by
  decide

/-! ## Misplaced `@else` / `@end` -/

/-- For EVERY sequence of lines (not only rendered trees; any indents, any mixture of nodes,
    groups, property lines and clause lines in plain or compact form): if some `@else` has no
    open `@case` clause at its indent with the same written parent, or some `@end` no open
    `@case`/`@else` clause at its indent with the same written parent, or some `@case`
    continues an `@else` — "open at indent `k`" defined declaratively on the text: the latest
    earlier line indented no deeper than `k` is such a clause line written at exactly `k`
    (`specOpenAt`) — then parsing fails.  Covers `@else`/`@end` at the start, after `@end`,
    after a block closed by a shallower or equally indented line (node, group or property),
    deeper than their `@case`, a second `@else`, a `@case` after `@else`, `x.@else`/`x.@end`
    after a block of another parent, and all of these inside unselected clauses. -/
theorem C15_misplaced_rejected (ls : List Line) (h : misplaced ls = true) : parse ls = .error () := by
  have := run_misplaced inv_init h
  simp [parse, this]

/-- The same on any environment whose cases are closed: a code that starts with `@else`/`@end`
    (or contains any other misplaced clause line) is refused whatever was parsed before. -/
theorem C15_misplaced_rejected_from (s : St) (h : s.state = []) (ls : List Line)
    (hm : misplaced ls = true) : parseFrom s ls = .error () := by
  have hinv : Inv [] s :=
    ⟨by rw [h]; trivial, fun k => by simp [h, openTop, closeGE, specOpenAt, lastAtMost, Matches]⟩
  have := run_misplaced hinv hm
  simp [parseFrom, this]

example : misplaced [⟨0, [], .case true⟩, ⟨2, ["a"], .node false 1⟩, ⟨0, [], .fin⟩, ⟨0, [], .els⟩] = true ∧
    misplaced [⟨0, ["engine"], .case true⟩, ⟨2, ["a"], .node false 1⟩, ⟨0, ["wheels"], .els⟩] = true ∧
    misplaced [⟨0, ["engine"], .case true⟩, ⟨2, ["a"], .node false 1⟩, ⟨0, ["wheels"], .fin⟩] = true := by
  decide

/-- … and conversely the declarative notion is not too eager: the rendered lines of a
    program tree are accepted (main theorem), so by the theorem above none of their clause
    lines is misplaced. -/
theorem C15_rendered_not_misplaced (p : Items) : misplaced (p.render 0) = false := by
  cases h : misplaced (p.render 0) with
  | false => rfl
  | true =>
    have h1 := C15_misplaced_rejected _ h
    rw [C15_effect_iff_selected] at h1
    cases h1

/-- A clause after `@else`, as a statement about any machine state (reachable or not): if,
    after closing what is deeper, the block on top was written at this indent under the same
    parent and its current clause is `@else`, a further `@case` or `@else` there is refused. -/
theorem C15_clause_after_else_rejected (s : St) (k : Nat) (x : List String) (blk : Branch) (B : List Branch)
    (kw : Kw) (hkw : kw = .els ∨ ∃ c, kw = .case c)
    (hB : closeGE (k + 1) s.state = blk :: B) (hi : blk.cur.indent = k)
    (hpath : blk.cur.path = fullName (popGE k s.parents) ++ nms x) (ht : blk.cur.ctype = .els) :
    step s ⟨k, x, kw⟩ = .error () :=
  step_after_else s k x blk B kw hkw hB hi hpath ht

/-- Non-vacuity of the hypotheses above, and the whole-text version on an instance:
    `@case false` / `a` / `@else` / `a` / `@case true` is refused. -/
example : (match run St.init [⟨0, [], .case false⟩, ⟨1, ["a"], .node false 1⟩, ⟨0, [], .els⟩, ⟨1, ["a"], .node false 2⟩] with
    | .ok (s, _) => (match closeGE 1 s.state with
        | blk :: _ => decide (blk.cur.indent = 0 ∧ blk.cur.path = fullName (popGE 0 s.parents) ++ nms [] ∧ blk.cur.ctype = .els)
        | [] => false)
    | .error _ => false) = true ∧
    (match parse [⟨0, [], .case false⟩, ⟨1, ["a"], .node false 1⟩, ⟨0, [], .els⟩, ⟨1, ["a"], .node false 2⟩,
        ⟨0, [], .case true⟩, ⟨1, ["a"], .node false 3⟩] with | .ok _ => false | .error _ => true) = true := by
  decide

end SciVerif.C15
