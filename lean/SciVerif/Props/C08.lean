import SciVerif.Lemmas.C08
import SciVerif.Lemmas.C08b

/-!
# C08 — Measurement uncertainties propagate consistently and stay non-negative

Theorems about the model of `magnitude.py` / `UnitType.convert` (`Model/C08.lean`) instantiated
at the real numbers: `np.abs = |·|`, `np.max([x,y]) = max x y`, values are scalars (an array
operation is the same formula element by element, except that `np.max` takes the maximum over
*all* elements, which only enlarges the error — see `C08_array_max_ge`).
Only property theorems live here; helpers are in `Lemmas/C08.lean`.
-/
namespace SciVerif.C08

/-! ### the absolute error is never negative -/

/-- `+` and `-` : the sum of non-negative errors is non-negative (any signs of the values). -/
theorem C08_nonneg_add (l r : Mag ℝ) (hl : l.ErrNonneg) (hr : r.ErrNonneg) :
    (l.add r).ErrNonneg ∧ (l.sub r).ErrNonneg := by
  obtain ⟨lv, le⟩ := l
  obtain ⟨rv, re⟩ := r
  constructor <;> intro e he <;>
  · cases le <;> cases re <;> simp [Mag.add, Mag.sub, sumErr] at he
    · subst he; exact hr _ rfl
    · subst he; exact hl _ rfl
    · subst he; exact add_nonneg (hl _ rfl) (hr _ rfl)

/-- `*` : for any signs of the two values (in particular a negative exact factor). -/
theorem C08_nonneg_mul (l r : Mag ℝ) (hl : l.ErrNonneg) (hr : r.ErrNonneg) :
    (l.mul r).ErrNonneg := by
  obtain ⟨lv, le⟩ := l
  obtain ⟨rv, re⟩ := r
  intro e he
  cases le <;> cases re <;> simp [Mag.mul, mulErr] at he
  · subst he; exact mul_nonneg (hr _ rfl) (abs_nonneg _)
  · subst he; exact mul_nonneg (hl _ rfl) (abs_nonneg _)
  · subst he; exact le_max_of_le_left (abs_nonneg _)

/-- `/` : for any signs (the divisor is non-zero, otherwise Python raises). -/
theorem C08_nonneg_div (l r : Mag ℝ) (hl : l.ErrNonneg) (_hr : r.ErrNonneg) (_h0 : r.value ≠ 0) :
    (l.div r).ErrNonneg := by
  obtain ⟨lv, le⟩ := l
  obtain ⟨rv, re⟩ := r
  intro e he
  cases le <;> cases re <;> simp [Mag.div, divErr] at he
  · subst he; exact le_max_of_le_left (abs_nonneg _)
  · subst he; exact div_nonneg (hl _ rfl) (abs_nonneg _)
  · subst he; exact le_max_of_le_left (abs_nonneg _)

/-- `**` : for any sign of the value and of the exponent (value non-zero: the code divides by
    `|value|`), and the error is exactly `e·|p|`. -/
theorem C08_nonneg_pow (m : Mag ℝ) (p : Rat) (hm : m.ErrNonneg) (h0 : m.value ≠ 0) :
    (m.pow p).ErrNonneg ∧ ∀ e, m.error = some e → (m.pow p).error = some (e * |((p : ℚ) : ℝ)|) := by
  obtain ⟨v, err⟩ := m
  have hv : |v| ≠ 0 := abs_ne_zero.mpr h0
  have key : ∀ e : ℝ, relToAbs v (absToRel v e * ValOps.ofRat (if p < 0 then -p else p)) = e * |((p : ℚ) : ℝ)| := by
    intro e
    simp only [relToAbs, absToRel, abs_real, ofRat_real, ratAbs_cast]
    field_simp
  constructor
  · intro e he
    cases err with
    | none => simp [Mag.pow, powErr] at he
    | some e0 =>
      simp only [Mag.pow, powErr, Mag.new_real, Option.some.injEq] at he
      rw [key] at he
      subst he
      exact mul_nonneg (hm _ rfl) (abs_nonneg _)
  · intro e he
    simp only at he
    subst he
    simp only [Mag.pow, powErr, Mag.new_real, key]

/-- negation keeps the error. -/
theorem C08_nonneg_neg (m : Mag ℝ) (hm : m.ErrNonneg) : m.neg.ErrNonneg ∧ m.neg.error = m.error := by
  obtain ⟨v, err⟩ := m
  refine ⟨?_, by simp [Mag.neg]⟩
  intro e he
  simp [Mag.neg] at he
  exact hm e he

/-- a relative error given for a value of either sign becomes a non-negative absolute error,
    and `rele()` reads it back. -/
theorem C08_nonneg_rele (v r : ℝ) (hr : 0 ≤ r) :
    (Mag.newRel v r).ErrNonneg ∧ (v ≠ 0 → (Mag.newRel v r).rele = some r) := by
  constructor
  · intro e he
    simp [Mag.newRel, relToAbs] at he
    subst he
    exact div_nonneg (mul_nonneg (abs_nonneg _) hr) (by norm_num)
  · intro hv
    have : |v| ≠ 0 := abs_ne_zero.mpr hv
    simp only [Mag.newRel, Mag.rele, Mag.new_real, relToAbs, absToRel, abs_real, Option.map_some,
      Option.some.injEq]
    field_simp

/-- a linear conversion with positive unit factors keeps the error non-negative. -/
theorem C08_nonneg_convert (m : Mag ℝ) (m1 m2 : ℝ) (h1 : 0 < m1) (h2 : 0 < m2) (hm : m.ErrNonneg) :
    (m.convertLinear m1 m2).ErrNonneg := by
  obtain ⟨v, err⟩ := m
  intro e he
  cases err with
  | none => simp [Mag.convertLinear] at he
  | some e0 =>
    simp [Mag.convertLinear] at he
    subst he
    exact mul_nonneg (hm _ rfl) (div_nonneg h1.le h2.le)

/-- … hence for *every* computation built from `+ - * / neg ** ` and linear conversions, of any
    size, with values / factors / exponents of any sign: if the magnitudes entering it have
    non-negative errors, the result has a non-negative error. -/
theorem C08_nonneg (e : MExpr) (h : e.LeavesNonneg) : ∀ m, e.eval = some m → m.ErrNonneg := by
  induction e with
  | leaf m0 => intro m hm; simp [MExpr.eval] at hm; subst hm; exact h
  | add a b iha ihb =>
    intro m hm
    simp only [MExpr.eval, bind, Option.bind_eq_some_iff, pure, Option.some.injEq] at hm
    obtain ⟨x, hx, y, hy, rfl⟩ := hm
    exact (C08_nonneg_add x y (iha h.1 x hx) (ihb h.2 y hy)).1
  | sub a b iha ihb =>
    intro m hm
    simp only [MExpr.eval, bind, Option.bind_eq_some_iff, pure, Option.some.injEq] at hm
    obtain ⟨x, hx, y, hy, rfl⟩ := hm
    exact (C08_nonneg_add x y (iha h.1 x hx) (ihb h.2 y hy)).2
  | mul a b iha ihb =>
    intro m hm
    simp only [MExpr.eval, bind, Option.bind_eq_some_iff, pure, Option.some.injEq] at hm
    obtain ⟨x, hx, y, hy, rfl⟩ := hm
    exact C08_nonneg_mul x y (iha h.1 x hx) (ihb h.2 y hy)
  | div a b iha ihb =>
    intro m hm
    simp only [MExpr.eval, bind, Option.bind_eq_some_iff, pure] at hm
    obtain ⟨x, hx, y, hy, hm⟩ := hm
    split at hm
    · simp at hm
    · rename_i h0
      simp only [Option.some.injEq] at hm
      subst hm
      exact C08_nonneg_div x y (iha h.1 x hx) (ihb h.2 y hy) h0
  | neg a iha =>
    intro m hm
    simp only [MExpr.eval, bind, Option.bind_eq_some_iff, pure, Option.some.injEq] at hm
    obtain ⟨x, hx, rfl⟩ := hm
    exact (C08_nonneg_neg x (iha h x hx)).1
  | pow a p iha =>
    intro m hm
    simp only [MExpr.eval, bind, Option.bind_eq_some_iff, pure] at hm
    obtain ⟨x, hx, hm⟩ := hm
    split at hm
    · simp at hm
    · rename_i h0
      simp only [Option.some.injEq] at hm
      subst hm
      exact (C08_nonneg_pow x p (iha h x hx) h0).1
  | conv a m1 m2 iha =>
    intro m hm
    simp only [MExpr.eval, bind, Option.bind_eq_some_iff, pure] at hm
    obtain ⟨x, hx, hm⟩ := hm
    split at hm
    · rename_i h0
      simp only [Option.some.injEq] at hm
      subst hm
      exact C08_nonneg_convert x m1 m2 h0.1 h0.2 (iha h x hx)
    · simp at hm

/-! ### sums and differences: the errors add -/

theorem C08_sum (lv rv le re : ℝ) :
    (Mag.add ⟨lv, some le⟩ ⟨rv, some re⟩).error = some (le + re) ∧
    (Mag.sub ⟨lv, some le⟩ ⟨rv, some re⟩).error = some (le + re) ∧
    (Mag.add ⟨lv, some le⟩ ⟨rv, none⟩).error = some le ∧
    (Mag.add ⟨lv, none⟩ ⟨rv, some re⟩).error = some re ∧
    (Mag.sub ⟨lv, some le⟩ ⟨rv, none⟩).error = some le ∧
    (Mag.sub ⟨lv, none⟩ ⟨rv, some re⟩).error = some re := by
  simp [Mag.add, Mag.sub, sumErr]

/-! ### multiplying / dividing by an exact number scales by `|k|` / `1/|k|` -/

theorem C08_scale (v e k : ℝ) :
    (Mag.mul ⟨v, some e⟩ (Mag.exact k)).error = some (|k| * e) ∧
    (Mag.mul (Mag.exact k) ⟨v, some e⟩).error = some (|k| * e) ∧
    (Mag.div ⟨v, some e⟩ (Mag.exact k)).error = some (e / |k|) := by
  simp [Mag.mul, Mag.div, Mag.exact, mulErr, divErr, mul_comm]

/-! ### products and quotients of positive uncertain values: at least first order -/

theorem C08_first_order_mul (a da b db : ℝ) (ha : 0 < a) (hb : 0 < b) (hda : 0 ≤ da) (hdb : 0 ≤ db) :
    ∃ e, (Mag.mul ⟨a, some da⟩ ⟨b, some db⟩).error = some e ∧ |a| * db + |b| * da ≤ e := by
  refine ⟨_, by simp [Mag.mul, mulErr]; rfl, ?_⟩
  apply le_max_of_le_left
  rw [abs_of_pos ha, abs_of_pos hb]
  have : (a + da) * (b + db) - a * b = a * db + b * da + da * db := by ring
  rw [this, abs_of_nonneg (by positivity)]
  nlinarith [mul_nonneg hda hdb]

/-- quotient of two uncertain positive values whose divisor interval excludes zero -/
theorem C08_first_order_div (a da b db : ℝ) (ha : 0 < a) (hb : 0 < b) (hda : 0 ≤ da) (hdb : 0 ≤ db)
    (hint : db < b) :
    ∃ e, (Mag.div ⟨a, some da⟩ ⟨b, some db⟩).error = some e ∧ (|a| * db + |b| * da) / (b * b) ≤ e := by
  refine ⟨_, by simp [Mag.div, divErr]; rfl, ?_⟩
  apply le_max_of_le_left
  rw [abs_of_pos ha, abs_of_pos hb]
  have hbd : 0 < b - db := by linarith
  have : (a + da) / (b - db) - a / b = (a * db + b * da) / (b * (b - db)) := by
    field_simp; ring
  rw [this, abs_of_nonneg (by positivity)]
  apply div_le_div_of_nonneg_left (by positivity) (by positivity)
  nlinarith

/-- exact number divided by an uncertain positive value -/
theorem C08_first_order_rdiv (a b db : ℝ) (ha : 0 < a) (hb : 0 < b) (hdb : 0 ≤ db) (hint : db < b) :
    ∃ e, (Mag.div (Mag.exact a) ⟨b, some db⟩).error = some e ∧ |a| * db / (b * b) ≤ e := by
  refine ⟨_, by simp [Mag.div, Mag.exact, divErr]; rfl, ?_⟩
  apply le_max_of_le_right
  rw [abs_of_pos ha]
  have hbd : 0 < b - db := by linarith
  have : a / (b - db) - a / b = (a * db) / (b * (b - db)) := by
    field_simp; ring
  rw [this, abs_of_nonneg (by positivity)]
  apply div_le_div_of_nonneg_left (by positivity) (by positivity)
  nlinarith

/-- the bound still holds when the divisor's uncertainty exceeds its value by at most the value
    itself (`b < db ≤ 2b`: the interval reaches across zero; the code's "upper" end point
    `(a+da)/(b-db)` is then a large negative number). -/
theorem C08_first_order_div_wide (a da b db : ℝ) (ha : 0 < a) (hb : 0 < b) (hda : 0 ≤ da)
    (h1 : b < db) (h2 : db ≤ 2 * b) :
    ∃ e, (Mag.div ⟨a, some da⟩ ⟨b, some db⟩).error = some e ∧ (|a| * db + |b| * da) / (b * b) ≤ e := by
  refine ⟨_, by simp [Mag.div, divErr]; rfl, ?_⟩
  apply le_max_of_le_left
  rw [abs_of_pos ha, abs_of_pos hb]
  have ht : 0 < db - b := by linarith
  have e1 : (a + da) / (b - db) - a / b = -((a + da) / (db - b) + a / b) := by
    have : b - db = -(db - b) := by ring
    rw [this, div_neg]; ring
  rw [e1, abs_neg, abs_of_nonneg (by positivity)]
  rw [div_add_div _ _ ht.ne' hb.ne', div_le_div_iff₀ (by positivity) (by positivity)]
  have hx : 0 ≤ b - (db - b) := by linarith
  nlinarith [mul_nonneg ha.le hx, mul_nonneg hda hx, mul_pos ht hb, mul_nonneg (mul_nonneg ha.le hx) ht.le,
    mul_nonneg (mul_nonneg hda hx) hb.le, mul_nonneg (mul_nonneg ha.le hx) hb.le,
    mul_nonneg (mul_nonneg (mul_nonneg ha.le hx) hb.le) hb.le, mul_nonneg (mul_nonneg (mul_nonneg hda hx) hb.le) hb.le,
    mul_nonneg (mul_nonneg (mul_nonneg ha.le hx) ht.le) hb.le]

/-- the same for an exact number divided by such a value -/
theorem C08_first_order_rdiv_wide (a b db : ℝ) (ha : 0 < a) (hb : 0 < b) (h1 : b < db) (h2 : db ≤ 2 * b) :
    ∃ e, (Mag.div (Mag.exact a) ⟨b, some db⟩).error = some e ∧ |a| * db / (b * b) ≤ e := by
  refine ⟨_, by simp [Mag.div, Mag.exact, divErr]; rfl, ?_⟩
  apply le_max_of_le_right
  rw [abs_of_pos ha]
  have ht : 0 < db - b := by linarith
  have e1 : a / (b - db) - a / b = -(a / (db - b) + a / b) := by
    have : b - db = -(db - b) := by ring
    rw [this, div_neg]; ring
  rw [e1, abs_neg, abs_of_nonneg (by positivity)]
  rw [div_add_div _ _ ht.ne' hb.ne', div_le_div_iff₀ (by positivity) (by positivity)]
  have hx : 0 ≤ b - (db - b) := by linarith
  nlinarith [mul_nonneg ha.le hx, mul_pos ht hb, mul_nonneg (mul_nonneg ha.le hx) ht.le,
    mul_nonneg (mul_nonneg ha.le hx) hb.le, mul_nonneg (mul_nonneg (mul_nonneg ha.le hx) hb.le) hb.le,
    mul_nonneg (mul_nonneg (mul_nonneg ha.le hx) ht.le) hb.le]

/-- The interval hypothesis of `C08_first_order_div` cannot be dropped: for `1 / (1 ± 100)` the
    code's error is `100/99 < 100 = ` first order. (No propagation rule based on the end points
    of the interval can reach the first-order value there; the check judges the bound only for
    `db < b`.) -/
theorem C08_first_order_div_needs_interval :
    ¬ ∀ a da b db : ℝ, 0 < a → 0 < b → 0 ≤ da → 0 ≤ db →
      ∃ e, (Mag.div ⟨a, some da⟩ ⟨b, some db⟩).error = some e ∧ (|a| * db + |b| * da) / (b * b) ≤ e := by
  intro h
  obtain ⟨e, he, hle⟩ := h 1 0 1 100 one_pos one_pos le_rfl (by norm_num)
  simp only [Mag.div, divErr, Mag.new_real, gmax_real, abs_real, Option.some.injEq] at he
  subst he
  norm_num [abs_of_neg, abs_of_nonneg, max_def] at hle

/-! ### unit conversion: the error scales like the value -/

/-- `value' = value·f`, `error' = error·f` with the same `f = mag1/mag2`; hence the relative
    uncertainty `rele()` is unchanged. -/
theorem C08_convert (v e m1 m2 : ℝ) (h1 : 0 < m1) (h2 : 0 < m2) :
    (Mag.convertLinear ⟨v, some e⟩ m1 m2).value = v * (m1 / m2) ∧
    (Mag.convertLinear ⟨v, some e⟩ m1 m2).error = some (e * (m1 / m2)) ∧
    (v ≠ 0 → (Mag.convertLinear ⟨v, some e⟩ m1 m2).rele = (⟨v, some e⟩ : Mag ℝ).rele) := by
  refine ⟨by simp [Mag.convertLinear]; ring, by simp [Mag.convertLinear], ?_⟩
  intro hv
  have h3 : |v| ≠ 0 := abs_ne_zero.mpr hv
  simp only [Mag.convertLinear, Mag.rele, Mag.new_real, Option.map_some, absToRel, abs_real,
    Option.some.injEq, abs_div, abs_mul, abs_of_pos h1, abs_of_pos h2]
  field_simp

/-- conversion to a reference *quantity* of exact magnitude `m ≠ 0` (`q.to(Quantity(m, units))`):
    value and error are both multiplied by `(m1/m2)/m` resp. `(m1/m2)/|m|`; the relative
    uncertainty is unchanged. -/
theorem C08_convert_to_quantity (v e m1 m2 m : ℝ) (h1 : 0 < m1) (h2 : 0 < m2) (hm : m ≠ 0) :
    ((Mag.convertLinear ⟨v, some e⟩ m1 m2).div ⟨m, none⟩).value = v * (m1 / m2) / m ∧
    ((Mag.convertLinear ⟨v, some e⟩ m1 m2).div ⟨m, none⟩).error = some (e * (m1 / m2) / |m|) ∧
    (v ≠ 0 → ((Mag.convertLinear ⟨v, some e⟩ m1 m2).div ⟨m, none⟩).rele = (⟨v, some e⟩ : Mag ℝ).rele) := by
  refine ⟨by simp [Mag.convertLinear, Mag.div]; ring, by simp [Mag.convertLinear, Mag.div, divErr], ?_⟩
  intro hv
  have h3 : |v| ≠ 0 := abs_ne_zero.mpr hv
  have h4 : |m| ≠ 0 := abs_ne_zero.mpr hm
  simp only [Mag.convertLinear, Mag.div, divErr, Mag.rele, Mag.new_real, Option.map_some, absToRel, abs_real,
    Option.some.injEq, abs_div, abs_mul, abs_of_pos h1, abs_of_pos h2]
  field_simp

/-! ### exact operands give exact results -/

theorem C08_exact (l r : Mag ℝ) (p : Rat) (m1 m2 : ℝ) (hl : l.error = none) (hr : r.error = none) :
    (l.add r).error = none ∧ (l.sub r).error = none ∧ (l.mul r).error = none ∧
    (l.div r).error = none ∧ (l.pow p).error = none ∧ l.neg.error = none ∧
    (l.convertLinear m1 m2).error = none := by
  obtain ⟨lv, le⟩ := l
  obtain ⟨rv, re⟩ := r
  simp only at hl hr
  subst hl hr
  simp [Mag.add, Mag.sub, Mag.mul, Mag.div, Mag.pow, Mag.neg, Mag.convertLinear, sumErr, mulErr,
    divErr, powErr]

/-! ### the same object on both sides -/

/-- `a*a` (one object on both sides of `*`) is an ordinary product in the code: it obeys the
    product rule, at least `2|a|da` — not the `**` rule `2·da`. -/
theorem C08_self_product (a da : ℝ) (ha : 0 < a) (hda : 0 ≤ da) :
    ∃ e, (Mag.mul ⟨a, some da⟩ ⟨a, some da⟩).error = some e ∧ 2 * |a| * da ≤ e := by
  obtain ⟨e, he, hle⟩ := C08_first_order_mul a da a da ha ha hda hda
  exact ⟨e, he, by linarith⟩

/-! ### quantities: uncertainties in base dimensions (`Qty.baseMag` = value·f, error·f) -/

section quantities
open SciVerif.C06
variable {ι : Type} [DecidableEq ι]

/-- the constructor's folding step (units dropped when the dimensions vanish, factors folded into
    the number) multiplies value and error by the same positive factor: the magnitude in base
    dimensions is unchanged and so is the relative uncertainty. -/
theorem C08_fold_keeps_uncertainty (env : ι → UnitInfo ℝ) (hpos : EnvPos env) (m : Mag ℝ) (b : BU ι) :
    (Qty.new env m b).baseMag env = ⟨m.value * b.magnitude env, m.error.map (fun e => e * b.magnitude env)⟩ ∧
    (m.value ≠ 0 → (Qty.new env m b).mag.rele = m.rele) := by
  refine ⟨new_baseMag env hpos m b, ?_⟩
  intro hv
  unfold Qty.new
  split
  · simp only [Mag.rele]
    rw [fold_error env hpos, fold_value]
    set P := ((b.filter (fun p => !(unitDims env p.1 p.2).nodim)).map (F env)).prod with hP
    have hPpos : 0 < P := by
      rw [hP]; apply List.prod_pos
      intro x hx
      obtain ⟨p, _, rfl⟩ := List.mem_map.mp hx
      exact F_pos env hpos p
    have h3 : |m.value| ≠ 0 := abs_ne_zero.mpr hv
    cases m.error with
    | none => rfl
    | some e =>
      simp only [Option.map_some, absToRel, abs_real, abs_mul, abs_of_pos hPpos, Option.some.injEq]
      field_simp
  · rfl

/-- sum / difference of quantities given in *different* units of one dimension: in base
    dimensions the absolute error of the result is the sum of the operands' absolute errors,
    i.e. in the left operand's units `err(a) + err(b)·f(b)/f(a)`. -/
theorem C08_qty_sum (env : ι → UnitInfo ℝ) (hpos : EnvPos env) (l r : Qty ι ℝ)
    (hd : (l.units.dims env).beq (r.units.dims env) = true) :
    (∃ q, l.add env r = .ok q ∧
      (q.baseMag env).error = sumErr (l.baseMag env).error (r.baseMag env).error) ∧
    (∃ q, l.sub env r = .ok q ∧
      (q.baseMag env).error = sumErr (l.baseMag env).error (r.baseMag env).error) := by
  have hd' : (r.units.dims env).beq (l.units.dims env) = true := by rw [Dims.beq_comm]; exact hd
  have hL : l.units.magnitude env ≠ 0 := (magnitude_pos env hpos _).ne'
  obtain ⟨⟨lv, le⟩, lu⟩ := l
  obtain ⟨⟨rv, re⟩, ru⟩ := r
  simp only at hd hd' hL
  constructor
  · refine ⟨_, by simp [Qty.add, Qty.addsub, stdType, convert, hd, hd']; rfl, ?_⟩
    rw [new_baseMag env hpos]
    cases le <;> cases re <;> simp [Qty.baseMag, Mag.add, Mag.convertLinear, sumErr]
    all_goals field_simp
  · refine ⟨_, by simp [Qty.sub, Qty.addsub, stdType, convert, hd, hd']; rfl, ?_⟩
    rw [new_baseMag env hpos]
    cases le <;> cases re <;> simp [Qty.baseMag, Mag.sub, Mag.convertLinear, sumErr]
    all_goals field_simp

/-- product and quotient of quantities (whether or not their units cancel and get folded): the
    magnitude in base dimensions has the relative uncertainty of the same operation on the bare
    magnitudes — error and value are scaled by the same positive unit factor. -/
theorem C08_qty_mul_div (env : ι → UnitInfo ℝ) (hpos : EnvPos env) (l r : Qty ι ℝ)
    (hl : l.units.WF) (hr : r.units.WF) :
    ((l.mul env r).baseMag env).error =
      (l.mag.mul r.mag).error.map (fun e => e * (l.units.magnitude env * r.units.magnitude env)) ∧
    ((l.div env r).baseMag env).error =
      (l.mag.div r.mag).error.map (fun e => e * (l.units.magnitude env / r.units.magnitude env)) := by
  constructor
  · rw [Qty.mul, new_baseMag env hpos, (magnitude_addU env hpos _ _ hl hr).2]
  · rw [Qty.div, new_baseMag env hpos, (magnitude_subU env hpos _ _ hl hr).2]

/-- `Quantity.rebase()` (merging units of one dimension, e.g. `m*cm → m2`) multiplies value and
    absolute error by the same positive constant; the relative uncertainty is unchanged. -/
theorem C08_rebase_uncertainty (env : ι → UnitInfo ℝ) (hpos : EnvPos env) (q : Qty ι ℝ) :
    ∃ f : ℝ, 0 < f ∧ (q.rebase env).mag.value = q.mag.value * f ∧
      (q.rebase env).mag.error = q.mag.error.map (fun e => e * f) ∧
      (q.mag.value ≠ 0 → (q.rebase env).mag.rele = q.mag.rele) := by
  have hf := rebase_factor_pos env hpos q.units ([], 1) one_pos
  refine ⟨_, hf, mul_exact_value _ _, mul_exact_error _ _ hf, ?_⟩
  intro hv
  have h3 : |q.mag.value| ≠ 0 := abs_ne_zero.mpr hv
  simp only [Qty.rebase, Mag.rele, mul_exact_value, mul_exact_error _ _ hf]
  cases q.mag.error with
  | none => rfl
  | some e =>
    simp only [Option.map_some, absToRel, abs_real, abs_mul, abs_of_pos hf, Option.some.injEq]
    field_simp

/-- constructor with the unit given as a (possibly uncertain) quantity `ref`: in base dimensions
    the result is the product of the two uncertain numbers — value and error of `m * ref.mag`
    times the exact unit factor of `ref` (so the sum/scale/first-order clauses of `*` apply,
    and an uncertain reference never yields an exact result). -/
theorem C08_ctor_quantity_unit (env : ι → UnitInfo ℝ) (hpos : EnvPos env) (m : Mag ℝ) (ref : Qty ι ℝ) :
    (Qty.newQ env m ref).baseMag env =
      ⟨(m.mul ref.mag).value * ref.units.magnitude env,
       (m.mul ref.mag).error.map (fun e => e * ref.units.magnitude env)⟩ ∧
    (∀ e, ref.mag.error = some e → ((Qty.newQ env m ref).baseMag env).error ≠ none) := by
  refine ⟨new_baseMag env hpos _ _, ?_⟩
  intro e he
  rw [Qty.newQ, new_baseMag env hpos]
  obtain ⟨v, me⟩ := m
  cases me <;> simp [Mag.mul, mulErr, he]

end quantities

/-! ### arrays: `np.max` over all elements only enlarges the error -/

/-- whatever the other elements are, the maximum over all elements of both arrays is at least
    the element-wise maximum at every position (so the bounds above carry over to arrays). -/
theorem C08_array_max_ge (xs ys : List ℝ) (i : ℕ) (hi : i < xs.length) (hj : i < ys.length)
    (g : ℝ) (hg : ∀ z ∈ xs ++ ys, z ≤ g) : max xs[i] ys[i] ≤ g :=
  max_le (hg _ (List.mem_append_left _ (List.getElem_mem hi)))
    (hg _ (List.mem_append_right _ (List.getElem_mem hj)))

/-! ### non-vacuity -/

example : (⟨1, some 0.1⟩ : Mag ℝ).ErrNonneg := by intro e he; simp at he; subst he; norm_num
example : (Mag.mul ⟨1, some (1/10)⟩ (Mag.exact (-3) : Mag ℝ)).error = some (3/10) := by
  simp [Mag.mul, Mag.exact, mulErr]; norm_num
example : (MExpr.mul (.leaf ⟨1, some 0.1⟩) (.neg (.leaf ⟨3, none⟩))).LeavesNonneg := by
  refine ⟨?_, ?_⟩ <;> intro e he <;> simp at he
  subst he; norm_num
example : ∃ a da b db : ℝ, 0 < a ∧ 0 < b ∧ 0 ≤ da ∧ 0 ≤ db ∧ db < b := ⟨12, 0.2, 4, 0.1, by norm_num⟩

end SciVerif.C08
