import SciVerif.Lemmas.C11

/-!
# C11 — Number and mass fractions are normalised and mutually consistent

Property theorems only (helpers: `Lemmas/C11.lean`).  Everything is stated for an arbitrary
linearly ordered field `α`, an arbitrary *non-empty list* of components with positive proportions
and positive masses, and each of the three normalisation modes of `Composite._norm`.
`xs`/`Xs` are the `x`/`X` columns reported by `Composite._data`, `sumRow` its `sum` row.
-/
set_option linter.unusedSectionVars false
namespace SciVerif.C11
variable {α : Type} [Field α] [LinearOrder α] [IsStrictOrderedRing α]

/-- The reported number fractions sum to 100 %. -/
theorem C11_sum_x (mode : Mode) (cs : List (Comp α)) (hne : cs ≠ []) (h : Pos cs) :
    (sumRow mode cs).1 = 100 := sum_xs mode cs hne h

/-- The reported mass fractions sum to 100 %. -/
theorem C11_sum_X (mode : Mode) (cs : List (Comp α)) (hne : cs ≠ []) (h : Pos cs) :
    (sumRow mode cs).2 = 100 := sum_Xs mode cs hne h

/-- `x_i = 100 · n_i / Σ n_j`: the reported number fraction is the specification's, where the
    amount `n_i` is the proportion (number modes) or proportion / mass (mass-fraction mode). -/
theorem C11_x_spec (mode : Mode) (cs : List (Comp α)) (c : Comp α) :
    x mode cs c = specx mode cs c := by
  rw [x_eq, specx, ← propNorm_eq]; ring

/-- `X_i = 100 · n_i m_i / Σ n_j m_j`. -/
theorem C11_X_spec (mode : Mode) (cs : List (Comp α)) (h : Pos cs) (c : Comp α) (hc : 0 < c.m) :
    X mode cs c = specX mode cs c := by
  rw [X_eq mode cs c hc, specX, ← compositeMass_eq mode cs h]; ring

/-- `x_i` is proportional to the amount `n_i` (one common factor for all components) … -/
theorem C11_x_proportional (mode : Mode) (cs : List (Comp α)) (c d : Comp α) :
    x mode cs c * amount mode d = x mode cs d * amount mode c := by
  rw [x_eq, x_eq]; ring

/-- … and `X_i` to `n_i · m_i`. -/
theorem C11_X_proportional (mode : Mode) (cs : List (Comp α)) (c d : Comp α)
    (hc : 0 < c.m) (hd : 0 < d.m) :
    X mode cs c * (amount mode d * d.m) = X mode cs d * (amount mode c * c.m) := by
  rw [X_eq mode cs c hc, X_eq mode cs d hd]; ring

/-- Multiplying all given proportions by a common factor `k > 0` changes neither column. -/
theorem C11_scale_invariant (mode : Mode) (k : α) (hk : 0 < k) (cs : List (Comp α))
    (hne : cs ≠ []) (h : Pos cs) :
    xs mode (scale k cs) = xs mode cs ∧ Xs mode (scale k cs) = Xs mode cs := by
  have hS := (propNorm_pos mode cs hne h).ne'
  have hM := (compositeMass_pos mode cs hne h).ne'
  have hk' := hk.ne'
  constructor
  · simp only [xs]
    rw [scale, List.map_map]
    apply List.map_congr_left
    intro c _
    simp only [Function.comp]
    rw [x_eq, x_eq, ← scale, propNorm_scale, amount_scale]
    field_simp
  · simp only [Xs]
    rw [scale, List.map_map]
    apply List.map_congr_left
    intro c hc
    simp only [Function.comp]
    rw [X_eq mode cs c (h c hc).2, X_eq mode _ ⟨k * c.p, c.m⟩ (h c hc).2, ← scale,
      compositeMass_scale, amount_scale]
    field_simp

/-- Duality: the material given by proportions `cs` in mode `mode`, and the same components
    *specified by the mass fractions reported for it* (mode `MASS_FRACTION`), report the same
    `x` and `X` columns. -/
theorem C11_duality (mode : Mode) (cs : List (Comp α)) (hne : cs ≠ []) (h : Pos cs) :
    xs .massFraction (byMassFractions mode cs) = xs mode cs ∧
    Xs .massFraction (byMassFractions mode cs) = Xs mode cs := by
  have hS := (propNorm_pos mode cs hne h).ne'
  have hM := (compositeMass_pos mode cs hne h).ne'
  constructor
  · simp only [xs]
    conv => lhs; arg 2; rw [byMassFractions]
    rw [List.map_map]
    apply List.map_congr_left
    intro c hc
    have hm := (h c hc).2.ne'
    simp only [Function.comp]
    rw [x_eq, propNorm_byMass mode cs hne h, x_eq, amount_mass]
    simp only []
    rw [X_eq mode cs c (h c hc).2]
    field_simp
  · simp only [Xs]
    conv => lhs; arg 2; rw [byMassFractions]
    rw [List.map_map]
    apply List.map_congr_left
    intro c hc
    simp only [Function.comp]
    have hX : (0:α) < c.m := (h c hc).2
    rw [X_eq .massFraction _ ⟨X mode cs c, c.m⟩ hX, compositeMass_byMass mode cs hne h, amount_mass]
    simp only []
    have hm := hX.ne'
    field_simp

/-- The converse direction: specifying the components by the reported *number* fractions
    (mode `NUMBER_FRACTION`) also reproduces both columns. -/
theorem C11_duality_number (mode : Mode) (cs : List (Comp α)) (hne : cs ≠ []) (h : Pos cs) :
    xs .numberFraction (byNumberFractions mode cs) = xs mode cs ∧
    Xs .numberFraction (byNumberFractions mode cs) = Xs mode cs := by
  have hS := (propNorm_pos mode cs hne h).ne'
  have hM := (compositeMass_pos mode cs hne h).ne'
  constructor
  · simp only [xs]
    conv => lhs; arg 2; rw [byNumberFractions]
    rw [List.map_map]
    apply List.map_congr_left
    intro c hc
    simp only [Function.comp]
    rw [x_eq .numberFraction, propNorm_byNumber mode cs hne h, amount_numF]
    simp only []
    field_simp
  · simp only [Xs]
    conv => lhs; arg 2; rw [byNumberFractions]
    rw [List.map_map]
    apply List.map_congr_left
    intro c hc
    simp only [Function.comp]
    have hX : (0:α) < c.m := (h c hc).2
    rw [X_eq .numberFraction _ ⟨x mode cs c, c.m⟩ hX, compositeMass_byNumber mode cs hne h,
      X_eq mode cs c hX, amount_numF]
    simp only []
    rw [x_eq]
    field_simp

/-- The `avg` row (not part of the property's text, modelled for the correspondence): without
    weights it is the plain mean, i.e. `100 / k` for `k` listed components of the full table. -/
theorem C11_avg_plain (mode : Mode) (cs : List (Comp α)) (hne : cs ≠ []) (h : Pos cs) :
    avgRow false mode cs (List.replicate cs.length true) = (100 / (cs.length : α), 100 / (cs.length : α)) := by
  have e1 : select (List.replicate cs.length true) (xs mode cs) = xs mode cs := by
    have := select_all (xs mode cs); simpa [xs] using this
  have e2 : select (List.replicate cs.length true) (Xs mode cs) = Xs mode cs := by
    have := select_all (Xs mode cs); simpa [Xs] using this
  simp only [avgRow, Bool.false_and, e1, e2, avgPlain, sum_xs mode cs hne h, sum_Xs mode cs hne h]
  simp [xs, Xs]

/-- … and for a NUMBER composite with `weight=True` (a `Substance`) it is the column sum divided
    by the total amount: `100 / Σ p_i`. -/
theorem C11_avg_weighted (cs : List (Comp α)) (hne : cs ≠ []) (h : Pos cs) :
    avgRow true .number cs (List.replicate cs.length true) =
      (100 / (cs.map (·.p)).sum, 100 / (cs.map (·.p)).sum) := by
  have e1 : select (List.replicate cs.length true) (xs .number cs) = xs .number cs := by
    have := select_all (xs .number cs); simpa [xs] using this
  have e2 : select (List.replicate cs.length true) (Xs .number cs) = Xs .number cs := by
    have := select_all (Xs .number cs); simpa [Xs] using this
  have e3 : select (List.replicate cs.length true) (weightsOf .number cs) = cs.map (·.p) := by
    have := select_all (weightsOf .number cs); simpa [weightsOf] using this
  have hw : ∀ w ∈ cs.map (·.p), w ≠ 0 := by
    intro w hw
    simp only [List.mem_map] at hw
    obtain ⟨c, hc, rfl⟩ := hw
    exact (h c hc).1.ne'
  simp only [avgRow, Bool.true_and, beq_self_eq_true, if_true, e1, e2, e3]
  rw [avgWeighted_eq _ _ (by simp [xs]) hw, avgWeighted_eq _ _ (by simp [Xs]) hw,
    sum_xs .number cs hne h, sum_Xs .number cs hne h]

/-! Non-vacuity: the hypotheses are satisfied by a concrete two-component mixture over `ℚ`
    (water 0.2, salt 0.3 with rounded masses), for which the columns are not trivial. -/
def exMix : List (Comp Rat) := [⟨1/5, 18⟩, ⟨3/10, 58⟩]

example : exMix ≠ [] ∧ Pos exMix := by
  refine ⟨by simp [exMix], ?_⟩
  intro c hc
  simp only [exMix, List.mem_cons, List.not_mem_nil, or_false] at hc
  rcases hc with rfl | rfl <;> constructor <;> norm_num

example : xs .numberFraction exMix = [40, 60] := by decide +kernel
example : Xs .numberFraction exMix = [1800/105, 8700/105] := by decide +kernel
example : xs .massFraction exMix = [5800/85, 2700/85] := by decide +kernel

end SciVerif.C11
