import SciVerif.Lemmas.C05

/-!
# C05 — Temperature and logarithmic conversions follow their formulas and invert

Property theorems only. Table facts are decided by the kernel over the *whole* tables
regenerated from `unit_types.py` on every run (`Generated/C05Tables.lean`); they are lifted
to statements about the conversion model `pick (unitTypes Gen.tables)` — i.e.
`Quantity._convert` with the regenerated `UNIT_TYPES` — for all real values, all non-zero
unit magnitudes (hence all prefixes) and scalars or arrays.
-/
namespace SciVerif.C05
open SciVerif.C04

/-! ## Tables -/

/-- `UNIT_TYPES` tries the temperature class, then the logarithmic class, then the standard one. -/
theorem C05_unit_types_order :
    Gen.unitTypes = ["TemperatureUnitType", "LogarithmicUnitType", "StandardUnitType"] := by
  decide +kernel

/-- Every `TemperatureUnitType._convert_<u>_<v>` method is exactly the standard affine map
    between the scales it sees (K, °C: `K − 273.15`, °F: `K·9/5 − 459.67`; degR and prefixed
    kelvin arrive as kelvin through the magnitude wrapper), and is named after its units. -/
theorem C05_temp_formulas : ∀ e ∈ Gen.tempMethods, tempEntryOk e = true := by
  decide +kernel

/-- All 16 ordered pairs of {K, Cel, degF, degR}, the four identities included, are
    convertible: pairs involving Cel/degF have a method, and its reverse is its inverse
    affine map (`a·a' = 1`, `a'·b + b' = 0`); the remaining pairs (K, degR) have equal
    dimensions and go through the linear rule (C04). -/
theorem C05_temp_total_inverse :
    ∀ u ∈ temps, ∀ v ∈ temps, tempPairInv Gen.tables u v = true ∧
      mapGet (Gen.dims.map (fun d => (d.1, (0 : Rat)))) u = some 0 ∧
      (Gen.dims.find? (·.1 == u)).map (·.2) = (Gen.dims.find? (·.1 == "K")).map (·.2) := by
  decide +kernel

/-- degR's table magnitude is 5/9 up to the float's precision. -/
theorem C05_degR_magnitude :
    ∃ m, mapGet Gen.mags "degR" = some m ∧ |m - mkRat 5 9| ≤ mkRat 1 1000000000000000 := by
  refine ⟨_, rfl, ?_⟩
  decide +kernel

/-- Every documented level unit: its two table entries are `k·log10(x/ref)` (k = 1
    power-like, 2 amplitude-like) and `ref·10^(L/k)` with the documented reference level;
    B against PR/AR likewise with reference 1. -/
theorem C05_log_table_matches_doc : ∀ d ∈ docAll, docLevelOk Gen.tables Gen.mags d = true := by
  decide +kernel

/-- Nepers are natural logarithms: `ln(x)` of an amplitude ratio, `½·ln(x)` of a power ratio. -/
theorem C05_neper_table_matches_doc : ∀ d ∈ docNepers, docNeperOk Gen.tables d = true := by
  decide +kernel

/-- Table entries between two documented dB-type units add `k·log10(ref_u/ref_v)` bels;
    all other `value + exp` entries are identities. -/
theorem C05_log_shifts_match_doc : ∀ e ∈ Gen.logConversions, shiftOk e = true := by
  decide +kernel

/-- Each table entry `X_Y` (and each method reachable by name) has its reverse `Y_X`, which
    undoes it: same `k ≠ 0`, `c·c' = 1`; shifts are opposite; `·c` against `/c`. -/
theorem C05_log_pairs_inverse :
    (∀ e ∈ Gen.logConversions, logEntryInv Gen.tables e = true) ∧
    (∀ e ∈ Gen.logMethods, logEntryInv Gen.tables e = true) := by
  decide +kernel

/-- Every logarithmic unit converts to itself by `value + 0`. -/
theorem C05_log_self_entries : ∀ s ∈ Gen.logProcess, selfOk Gen.tables s = true := by
  decide +kernel

/-! ## Temperature: lifted to the conversion model -/

/-- The conversion the model performs for a pair handled by the temperature class is the
    standard affine map through kelvin, wrapped by the unit magnitudes. -/
theorem C05_temp_value (b1 b2 : BU ℝ) (u v : String) (e : TempEntry) (val : Mag ℝ)
    (hu : b1.units = [u]) (hv : b2.units = [v])
    (ht : (Gen.tempProcess.contains u || Gen.tempProcess.contains v) = true)
    (he : findTemp Gen.tempMethods (u ++ "_" ++ v) = some e) :
    Q.valueIn (unitTypes Gen.tables) ⟨val, b1⟩ b2
      = .ok (val.map (fun x => ((e.a : ℝ) * (x * b1.magnitude) + (e.b : ℝ)) / b2.magnitude)) := by
  simp only [Q.valueIn, pick_temperature b1 b2 u v e hu hv ht he]

/-- Round trip for every ordered pair of temperature units handled by the temperature
    class, every non-zero magnitude of the two units (all prefixes of kelvin), every real
    value or array: converting there and back restores value and units. -/
theorem C05_temp_roundtrip (b1 b2 : BU ℝ) (u v : String) (val : Mag ℝ)
    (hu : b1.units = [u]) (hv : b2.units = [v]) (hum : u ∈ temps) (hvm : v ∈ temps)
    (ht : (Gen.tempProcess.contains u || Gen.tempProcess.contains v) = true)
    (h1 : b1.magnitude ≠ 0) (h2 : b2.magnitude ≠ 0) :
    Q.to (unitTypes Gen.tables) (Q.to (unitTypes Gen.tables) ⟨val, b1⟩ b2).1 b1 = (⟨val, b1⟩, true) := by
  obtain ⟨e, e', he, he', hab, hb⟩ :=
    tempPairInv_spec Gen.tables u v (C05_temp_total_inverse u hum v hvm).1 ht
  have ht' : (Gen.tempProcess.contains v || Gen.tempProcess.contains u) = true := by
    rw [Bool.or_comm]; exact ht
  simp only [Q.to, pick_temperature b1 b2 u v e hu hv ht he, pick_temperature b2 b1 v u e' hv hu ht' he',
    Mag.map_map]
  have hab' : (e.a : ℝ) * (e'.a : ℝ) = 1 := by exact_mod_cast hab
  have hb' : (e'.a : ℝ) * (e.b : ℝ) + (e'.b : ℝ) = 0 := by exact_mod_cast hb
  rw [Mag.map_id' _ _ (fun x => affine_roundtrip _ _ _ _ _ _ x hab' hb' h1 h2)]

/-- Converting Cel or degF to itself is the identity. -/
theorem C05_temp_identity (b1 b2 : BU ℝ) (u : String) (val : Mag ℝ)
    (hu : b1.units = [u]) (hv : b2.units = [u]) (hp : u = "Cel" ∨ u = "degF")
    (hm : b1.magnitude = 1) (hm2 : b2.magnitude = 1) :
    Q.valueIn (unitTypes Gen.tables) ⟨val, b1⟩ b2 = .ok val := by
  rcases hp with rfl | rfl
  · have he : findTemp Gen.tempMethods ("Cel" ++ "_" ++ "Cel") = some ⟨"Cel_Cel", "Cel", "Cel", 1, 0⟩ := by
      decide +kernel
    rw [C05_temp_value b1 b2 "Cel" "Cel" _ val hu hv (by decide +kernel) he, hm, hm2]
    simp [Mag.map_id']
  · have he : findTemp Gen.tempMethods ("degF" ++ "_" ++ "degF") = some ⟨"degF_degF", "degF", "degF", 1, 0⟩ := by
      decide +kernel
    rw [C05_temp_value b1 b2 "degF" "degF" _ val hu hv (by decide +kernel) he, hm, hm2]
    simp [Mag.map_id']

/-! ## Logarithmic units: lifted to the conversion model -/

/-- side conditions of the documented levels, decided over the list -/
theorem C05_doc_side_conditions : ∀ d ∈ docAll,
    (Gen.tempProcess.contains d.2.1 || Gen.tempProcess.contains d.1) = false ∧
    (Gen.logProcess.contains d.2.1 || Gen.logProcess.contains d.1) = true ∧
    d.2.2.2 ≠ 0 ∧ (∀ m, mapGet Gen.mags d.2.1 = some m → m ≠ 0) := by
  decide +kernel

/-- The documented definition, for every documented level unit `L` with counterpart `lin`
    (any prefixes on either side; `linSI` = factor from the given linear unit to the SI
    unit, i.e. its magnitude over the table magnitude `m` of the SI symbol; `p` = magnitude
    of the level unit): the model computes `k·log10(x·linSI/ref)/p`. -/
theorem C05_log_value_matches_doc (b1 b2 : BU ℝ) (L lin : String) (k ref : Rat) (val : Mag ℝ)
    (hd : (L, lin, k, ref) ∈ docAll) (hu : b1.units = [lin]) (hv : b2.units = [L]) :
    ∃ m : Rat, mapGet Gen.mags lin = some m ∧
    Q.valueIn (unitTypes Gen.tables) ⟨val, b1⟩ b2
      = .ok (val.map (fun x => specToLevel k ref b2.magnitude (b1.magnitude / (m : ℝ)) x)) := by
  obtain ⟨htt, ht, href, hmne⟩ := C05_doc_side_conditions _ hd
  have hok := C05_log_table_matches_doc _ hd
  simp only [docLevelOk] at hok
  cases hm : mapGet Gen.mags lin with
  | none => simp [hm] at hok
  | some m =>
    cases he : findLog Gen.tables.logConversions (lin ++ "_" ++ L) with
    | none => simp [hm, he] at hok
    | some e =>
      cases he' : findLog Gen.tables.logConversions (L ++ "_" ++ lin) with
      | none => simp [hm, he, he'] at hok
      | some e' =>
        simp only [hm, he, he', Bool.and_eq_true, beq_iff_eq] at hok
        obtain ⟨⟨hfn, _⟩, _⟩ := hok
        have hl : lookupLog Gen.tables (lin ++ "_" ++ L) = some e := by simp [lookupLog, he]
        refine ⟨m, rfl, ?_⟩
        simp only [Q.valueIn, pick_logarithmic b1 b2 lin L e hu hv htt ht hl, hfn, LogFn.apply, specToLevel,
          ofRat_real, log10_real]
        have hm0' : (m : ℝ) ≠ 0 := by exact_mod_cast (hmne m hm)
        have href' : (ref : ℝ) ≠ 0 := by exact_mod_cast href
        congr 2
        funext x
        congr 2
        push_cast
        field_simp

/-- … and in the other direction: a level `y` (in a unit of `p` bels) converts to
    `ref·10^(y·p/k)` in the SI unit, divided by the target's factor to it. -/
theorem C05_level_to_linear_matches_doc (b1 b2 : BU ℝ) (L lin : String) (k ref : Rat) (val : Mag ℝ)
    (hd : (L, lin, k, ref) ∈ docAll) (hu : b1.units = [L]) (hv : b2.units = [lin]) :
    ∃ m : Rat, mapGet Gen.mags lin = some m ∧
    Q.valueIn (unitTypes Gen.tables) ⟨val, b1⟩ b2
      = .ok (val.map (fun y => specFromLevel k ref b1.magnitude (b2.magnitude / (m : ℝ)) y)) := by
  obtain ⟨htt, ht, href, hmne⟩ := C05_doc_side_conditions _ hd
  have htt' : (Gen.tempProcess.contains L || Gen.tempProcess.contains lin) = false := by
    rw [Bool.or_comm]; exact htt
  have ht' : (Gen.logProcess.contains L || Gen.logProcess.contains lin) = true := by
    rw [Bool.or_comm]; exact ht
  have hok := C05_log_table_matches_doc _ hd
  simp only [docLevelOk] at hok
  cases hm : mapGet Gen.mags lin with
  | none => simp [hm] at hok
  | some m =>
    cases he : findLog Gen.tables.logConversions (lin ++ "_" ++ L) with
    | none => simp [hm, he] at hok
    | some e =>
      cases he' : findLog Gen.tables.logConversions (L ++ "_" ++ lin) with
      | none => simp [hm, he, he'] at hok
      | some e' =>
        simp only [hm, he, he', Bool.and_eq_true, beq_iff_eq] at hok
        obtain ⟨⟨_, hfn⟩, _⟩ := hok
        have hl : lookupLog Gen.tables (L ++ "_" ++ lin) = some e' := by simp [lookupLog, he']
        refine ⟨m, rfl, ?_⟩
        simp only [Q.valueIn, pick_logarithmic b1 b2 L lin e' hu hv htt' ht' hl, hfn, LogFn.apply, specFromLevel,
          ofRat_real, pow10_real]
        have hm0' : (m : ℝ) ≠ 0 := by exact_mod_cast (hmne m hm)
        congr 2
        funext y
        push_cast
        field_simp

/-- Round trip for every pair of single units handled by the logarithmic class whose table
    entry has an inverse entry (all of them, by `C05_log_pairs_inverse`): any non-zero unit
    magnitudes (prefixes), every value in the domain of the forward map (positive argument
    of the logarithm). -/
theorem C05_log_roundtrip (b1 b2 : BU ℝ) (u v : String) (e e' : LogEntry) (val : Mag ℝ)
    (hu : b1.units = [u]) (hv : b2.units = [v])
    (htt : (Gen.tempProcess.contains u || Gen.tempProcess.contains v) = false)
    (ht : (Gen.logProcess.contains u || Gen.logProcess.contains v) = true)
    (he : lookupLog Gen.tables (u ++ "_" ++ v) = some e)
    (he' : lookupLog Gen.tables (v ++ "_" ++ u) = some e')
    (hinv : inverseFn e.fn e'.fn = true)
    (h1 : b1.magnitude ≠ 0) (h2 : b2.magnitude ≠ 0)
    (hdom : val.All (fun x => InDomain e.fn (x * b1.magnitude))) :
    Q.to (unitTypes Gen.tables) (Q.to (unitTypes Gen.tables) ⟨val, b1⟩ b2).1 b1 = (⟨val, b1⟩, true) := by
  have htt' : (Gen.tempProcess.contains v || Gen.tempProcess.contains u) = false := by
    rw [Bool.or_comm]; exact htt
  have ht' : (Gen.logProcess.contains v || Gen.logProcess.contains u) = true := by
    rw [Bool.or_comm]; exact ht
  simp only [Q.to, pick_logarithmic b1 b2 u v e hu hv htt ht he,
    pick_logarithmic b2 b1 v u e' hv hu htt' ht' he', Mag.map_map]
  have : val.map (fun x => e'.fn.apply (e.fn.apply (x * b1.magnitude) / b2.magnitude * b2.magnitude) / b1.magnitude)
      = val.map (fun x => x) :=
    Mag.map_congr _ _ _ _ hdom (fun x hx => by
      rw [div_mul_cancel₀ _ h2, inverseFn_apply _ _ hinv _ hx, mul_div_cancel_right₀ _ h1])
  rw [this, Mag.map_id' _ _ (fun _ => rfl)]

/-- A logarithmic unit converts to itself — with any prefixes — as `x·p₁/p₂`, in
    particular as the identity when the prefixes agree. -/
theorem C05_log_identity (b1 b2 : BU ℝ) (s : String) (val : Mag ℝ)
    (hs : s ∈ Gen.logProcess) (hu : b1.units = [s]) (hv : b2.units = [s]) :
    Q.valueIn (unitTypes Gen.tables) ⟨val, b1⟩ b2
      = .ok (val.map (fun x => x * b1.magnitude / b2.magnitude)) := by
  have hself := C05_log_self_entries s hs
  unfold selfOk at hself
  cases hl : lookupLog Gen.tables (s ++ "_" ++ s) with
  | none => simp [hl] at hself
  | some e =>
    simp only [hl, beq_iff_eq] at hself
    have htt : (Gen.tempProcess.contains s || Gen.tempProcess.contains s) = false := by
      have : ∀ t ∈ Gen.logProcess, (Gen.tempProcess.contains t || Gen.tempProcess.contains t) = false := by
        decide +kernel
      exact this s hs
    have ht : (Gen.logProcess.contains s || Gen.logProcess.contains s) = true := by
      simp [hs]
    simp only [Q.valueIn, pick_logarithmic b1 b2 s s e hu hv htt ht hl, hself, LogFn.apply, ofRat_real]
    simp

/-! ## Level addition and subtraction -/

/-- `LogarithmicUnitType.add/sub` on two levels of the same unit (the right one possibly with
    another prefix, converted by `g`): the result is the power sum
    `10·log10(10^(a/10) ± 10^(b/10))` dB, for bels (`m = 1`), decibels (`m = 1/10`) and any
    other prefix. -/
theorem C05_level_add_sub (sub? : Bool) (b1 b2 : BU ℝ) (g : ℝ → ℝ) (x y : ℝ)
    (hd : b1.dims.eq b2.dims = true) (hu : b1.units = b2.units)
    (hg : pick (unitTypes Gen.tables) b2 b1 = .ok g) :
    levelOp Gen.tables sub? b1 b2 x y = .ok (specLevelOp sub? b1.magnitude x (g y)) := by
  simp only [levelOp, hd, hu, hg, Bool.not_true, bne_self_eq_false, Bool.false_eq_true, if_false]
  rw [← level_arith]

/-- … where, for a logarithmic unit `s`, `g` re-expresses the right operand in the left
    operand's prefix; with equal prefixes: `a ⊕ b = 10·log10(10^(a/10) ± 10^(b/10))` dB. -/
theorem C05_level_add_sub_same_unit (sub? : Bool) (b1 b2 : BU ℝ) (s : String) (x y : ℝ)
    (hs : s ∈ Gen.logProcess) (hu : b1.units = [s]) (hv : b2.units = [s])
    (hd : b1.dims.eq b2.dims = true) :
    levelOp Gen.tables sub? b1 b2 x y
      = .ok (specLevelOp sub? b1.magnitude x (y * b2.magnitude / b1.magnitude)) := by
  have h := C05_log_identity b2 b1 s (.scalar y) hs hv hu
  simp only [Q.valueIn] at h
  cases hp : pick (unitTypes Gen.tables) b2 b1 with
  | error e => simp [hp] at h
  | ok g =>
    simp only [hp, Mag.map, Except.ok.injEq, Mag.scalar.injEq] at h
    rw [C05_level_add_sub sub? b1 b2 g x y hd (by rw [hu, hv]) hp, h]

/-- Histories: however many additions, subtractions and reads were evaluated before on the
    same operand objects, the operands are as constructed afterwards and every operation
    yields what it yields on the operands as constructed — the second `a+b` equals the first. -/
theorem C05_level_history (st : List (ℝ × BU ℝ)) (ops : List LvOp) :
    (lvRun Gen.tables st ops).1 = st ∧
    (lvRun Gen.tables st ops).2 = ops.map (fun op => (lvStep Gen.tables st op).2) := by
  induction ops with
  | nil => exact ⟨rfl, rfl⟩
  | cons op ops ih =>
    have hst : (lvStep Gen.tables st op).1 = st := by
      cases op <;> simp only [lvStep] <;> split <;> rfl
    simp only [lvRun, hst, List.map_cons]
    exact ⟨ih.1, by rw [ih.2]⟩

/-! ## Unit environments -/

/-- Opening and closing a unit environment restores `UNIT_TYPES` exactly, whichever
    conversion classes its units name — built-in ones included. -/
theorem C05_env_restores_unit_types (types defs : List String) :
    envClose (envOpen types defs).1 (envOpen types defs).2 = types := by
  obtain ⟨rec', he, hn⟩ := open_inv types defs types [] (by simp) List.nodup_nil
  simp only [envOpen, he]
  exact close_reverse types rec' hn


/-- … hence every conversion after the environment is decided by the same classes in the
    same order as before it. -/
theorem C05_conversions_unchanged_by_environment (T : Tables) (defs : List String) :
    (unitTypes { T with unitTypes := envClose (envOpen T.unitTypes defs).1 (envOpen T.unitTypes defs).2 }
      : List (Rule ℝ)) = unitTypes T := by
  simp only [unitTypes, C05_env_restores_unit_types]

/-! ## Non-vacuity -/

section examples
-- a concrete temperature pair satisfying the hypotheses of C05_temp_roundtrip
example : ("Cel" ∈ temps ∧ "degF" ∈ temps) ∧ (Gen.tempProcess.contains "Cel" || Gen.tempProcess.contains "degF") = true ∧
    ∃ e, findTemp Gen.tempMethods ("Cel" ++ "_" ++ "degF") = some e ∧ e.a = mkRat 9 5 ∧ e.b = 32 := by
  refine ⟨by decide, by decide +kernel, _, rfl, by decide +kernel, by decide +kernel⟩
-- a concrete logarithmic pair satisfying the hypotheses of C05_log_roundtrip / C05_log_value_matches_doc
example : ∃ e e', lookupLog Gen.tables ("W" ++ "_" ++ "Bm") = some e ∧ lookupLog Gen.tables ("Bm" ++ "_" ++ "W") = some e' ∧
    inverseFn e.fn e'.fn = true ∧ e.fn = .ratioB 1 (1 / (mkRat 1 1000 * 1000)) ∧ ("Bm", "W", (1 : Rat), mkRat 1 1000) ∈ docAll := by
  refine ⟨_, _, rfl, rfl, by decide +kernel, by decide +kernel, by decide +kernel⟩
-- the domain condition is satisfiable: 2 W (magnitude 1000) has a positive logarithm argument
example : InDomain (.ratioB 1 1) ((2 : ℝ) * 1000) := by
  simp only [InDomain]; norm_num
-- the power sum: two equal levels add 10·log10(2) dB ≈ 3.01 dB (here in bels: log10 2)
example : specLevelOp false (1 : ℝ) 0 0 = Real.logb 10 2 := by
  simp only [specLevelOp, ofRat_real, log10_real, pow10_real]
  norm_num
end examples

end SciVerif.C05
