import SciVerif.Lemmas.C18b
import SciVerif.Lemmas.C18c
import SciVerif.Lemmas.C18d
import SciVerif.Lemmas.C18e
import SciVerif.Lemmas.C18g
import SciVerif.Lemmas.C18h
import SciVerif.Lemmas.C18i
import SciVerif.Lemmas.C18j

/-!
# C18 — DIP expressions compute unit-aware results under the documented priorities

Only property theorems live here (helper lemmas are in `Lemmas/C18*.lean`).
The operator and step tables are regenerated from the live solver objects on every run
(`Generated/C18Tables.lean`); all theorems are about the machine driven by those tables.
-/
namespace SciVerif.C18

variable {F A : Type}

/-- Tie of the tables: operator keys, symbols, dict order, classes and step order of the two solver
    instances are the ones the theorems below are about (re-extracted on every run). -/
theorem C18_tables :
    Generated.numClasses = [("log", "CustomOperatorLog"), ("log10", "CustomOperatorLog10"),
      ("logb", "CustomOperatorLogb"), ("exp", "CustomOperatorExp"), ("sqrt", "CustomOperatorSqrt"),
      ("powb", "CustomOperatorPowb"), ("sin", "CustomOperatorSin"), ("cos", "CustomOperatorCos"),
      ("tan", "CustomOperatorTan"), ("par", "OperatorPar"), ("pow", "CustomOperatorPow"),
      ("mul", "CustomOperatorMul"), ("truediv", "CustomOperatorTruediv"), ("add", "CustomOperatorAdd"),
      ("sub", "CustomOperatorSub")] ∧
    Generated.logClasses = [("par", "OperatorPar"), ("eq", "CustomEq"), ("ne", "CustomNe"),
      ("not", "CustomNot"), ("le", "OperatorLe"), ("ge", "OperatorGe"), ("lt", "OperatorLt"),
      ("gt", "OperatorGt"), ("and", "CustomAnd"), ("or", "CustomOr")] ∧
    Generated.numTable.map (fun d => (d.key, String.ofList d.sym)) =
      [("log", "log("), ("log10", "log10("), ("logb", "logb("), ("exp", "exp("), ("sqrt", "sqrt("),
       ("powb", "pow("), ("sin", "sin("), ("cos", "cos("), ("tan", "tan("), ("par", "("), ("pow", "**"),
       ("mul", " * "), ("truediv", " / "), ("add", " + "), ("sub", " - ")] ∧
    Generated.logTable.map (fun d => (d.key, String.ofList d.sym)) =
      [("par", "("), ("eq", "=="), ("ne", "!="), ("not", "~"), ("le", "<="), ("ge", ">="), ("lt", "<"),
       ("gt", ">"), ("and", "&&"), ("or", "||")] ∧
    Generated.numSteps = Generated.logSteps := by
  decide +kernel

/-- **Numerical expressions, token level.**  For every number algebra, every atom valuation and
    every well-formed tree (`× ÷` bind tighter than `+ −`, equal priorities group left to right,
    parentheses and the documented functions nest arbitrarily), the real pass sequence — ARGS,
    sign folding (a ` - ` / ` + ` in prefix position applies to the value after it), `**`, `* /`,
    `+ -`, as regenerated from the code — applied to the tree's token
    list (parenthesised parts solved recursively by the same machine) returns exactly the tree
    value: each operator applied once to the values of its two sub-trees. -/
theorem C18_numeric_partial (N : NumOps F) (av : A → QV F) (e : E A) (hw : e.WF numGrammar) :
    e.solve (numSem N) numKeys Generated.numSteps av =
      some (e.eval (numSem N) (numBinSem N) (numPreSem N) av) := by
  simp [E.solve, num_tk N av e hw, num_finish N av e hw]

/-- Full statement (string level) on the renderer: solving `render e b` of a well-formed tree —
    parentheses and function calls included, any number of optional blanks — gives the tree value.
    Proved: the same statement on the text model `T.text` (`C18_numeric_nested_partial`: tokeniser,
    argument scanner with depth counting and separators, recursive solves, step passes), under the
    decidable side conditions `QuietN`.  Missing for this `def`: (i) the correspondence
    `render e b = T.text t` with `t.toE = e` (every renderer output is such a text), (ii) deriving
    `QuietN` from a description of atom texts (it is decided per text; the driver checks the
    rendered text against the tree's token list on every generated tree of every run).  A prefix
    sign must not be the first token inside parentheses: the argument text is stripped before it is
    solved, so ` - ` is not seen there. -/
def C18_numeric_statement : Prop :=
  ∀ (N : NumOps Rat) (atom : List Char → Option (QV Rat)) (e : E (List Char)) (b : List Nat),
    e.WF numGrammar →
    (∀ a, (atom a).isSome → atom (strip a) = atom a) →
    let text := (render (symOf Generated.numTable) false e b).1
    solveStr (numSem N) Generated.numTable Generated.numSteps atom (text.length + 1) text =
      some (.atom (e.eval (numSem N) (numBinSem N) (numPreSem N) (fun a => (atom a).getD none)))

/-- the same for the logical grammar (symbols padded with one mandatory blank) -/
def C18_logical_statement : Prop :=
  ∀ (C : CmpOps Rat) (atom : List Char → Option (LV Rat)) (e : E (List Char)) (b : List Nat),
    e.WF logGrammar →
    (∀ a, (atom a).isSome → atom (strip a) = atom a) →
    let text := (render (symOf Generated.logTable) true e b).1
    solveStr (logSem C) Generated.logTable Generated.logSteps atom (text.length + 1) text =
      some (.atom (e.eval (logSem C) (logBinSem C) logPreSem (fun a => (atom a).getD .err)))

/-- **Numerical expressions, string level, parenthesis-free fragment.**  The *text* of a flat
    well-formed tree — atoms with any number of blanks around them, operator symbols from the
    regenerated table, prefix signs — is tokenised by the real loop (first matching operator in
    dict order, otherwise shift one character) into exactly the tree's tokens and therefore solved
    to the tree value, provided no operator symbol starts inside an atom segment and each operator
    symbol is the first table entry matching at its position (`QuietIn`, decidable for a concrete
    text) and the atoms are accepted by the atom constructor.  Parentheses and function calls
    (argument scanning with depth, recursive solves) are not covered: for them the tokeniser half
    stays checked per run. -/
theorem C18_numeric_flat_partial (N : NumOps F) (atom : List Char → Option (QV F))
    (av : List Char → QV F) (e : E (List Char)) (fuel : Nat) (hf : e.Flat) (hw : e.WF numGrammar)
    (hq : e.QuietIn Generated.numTable []) (ha : e.AtomsOK atom av) :
    solveStr (numSem N) Generated.numTable Generated.numSteps atom (fuel + 1)
        (e.flatText Generated.numTable) =
      some (.atom (e.eval (numSem N) (numBinSem N) (numPreSem N) av)) := by
  rw [solveStr_flat (numSem N) Generated.numTable Generated.numSteps atom fuel av (numEval N av) e hf hq ha]
  exact num_machine N av e hw

/-- The same for logical expressions (comparisons, `~`, `&&`, `||` without parentheses). -/
theorem C18_logical_flat_partial (C : CmpOps F) (atom : List Char → Option (LV F))
    (av : List Char → LV F) (e : E (List Char)) (fuel : Nat) (hf : e.Flat) (hw : e.WF logGrammar)
    (hq : e.QuietIn Generated.logTable []) (ha : e.AtomsOK atom av) :
    solveStr (logSem C) Generated.logTable Generated.logSteps atom (fuel + 1)
        (e.flatText Generated.logTable) =
      some (.atom (e.eval (logSem C) (logBinSem C) logPreSem av)) := by
  rw [solveStr_flat (logSem C) Generated.logTable Generated.logSteps atom fuel av (logEval C av) e hf hq ha]
  exact log_machine C av e hw

/-- **Numerical expressions, string level, with parentheses and functions.**  For every text tree
    `t` — atoms with any number of blanks around them, operator symbols of the regenerated table,
    prefix signs, parentheses and one- and two-argument functions nested to any depth, with any number
    of blanks before the symbol, inside the parentheses around every argument, around the argument
    separator and after `)` — the real tokenisation loop, the argument scanner of parenthesis-type
    operators (depth counting, separator at depth 1, closing parenthesis) and the recursive solves of
    the arguments (fuel = length of the text) produce the tree's tokens, and the step passes solve
    them to the tree value.  Side conditions `QuietN` (decidable for a concrete text): no operator
    symbol starts inside an atom or a run of blanks, every symbol is the first table entry matching at
    its position, every argument is balanced and starts and ends with a non-blank character (the
    blanks around it are the node's), recursively for every argument as a text of its own.
    This is `C18_numeric_statement` on the text model `T.text` instead of `render` (every `render`
    output is such a text; that correspondence is not proved). -/
theorem C18_numeric_nested_partial (N : NumOps F) (atom : List Char → Option (QV F))
    (av : List Char → QV F) (t : T) (hw : t.toE.WF numGrammar)
    (hq : t.QuietN Generated.numTable []) (ha : t.AtomsOK atom av) :
    solveStr (numSem N) Generated.numTable Generated.numSteps atom
        ((t.text Generated.numTable).length + 1) (t.text Generated.numTable) =
      some (.atom (t.toE.eval (numSem N) (numBinSem N) (numPreSem N) av)) := by
  rw [solve_nest (numSem N) Generated.numTable Generated.numSteps atom
    (fun x => numEval N av x.toE) av t _ (T.depth_le_length Generated.numTable t) hq ha
    (T.argsOK_of (numSem N) Generated.numSteps numGrammar (numEval N av) av numKeys
      (fun e he => num_machine N av e he) t hw)]
  rw [T.toks_toE]
  exact num_machine N av t.toE hw

/-- The renderer form: whenever the rendered text of a tree `e` is the text of a text tree `t` with
    the same value (`t.toE` evaluates like `e`) that meets the side conditions, solving the
    rendered text gives the value of `e`.  (Direct corollary; what `C18_numeric_statement` adds is
    that such a `t` exists for every renderer output.) -/
theorem C18_numeric_render_partial (N : NumOps F) (atom : List Char → Option (QV F))
    (av : List Char → QV F) (e : E (List Char)) (b : List Nat) (t : T)
    (htext : t.text Generated.numTable = (render (symOf Generated.numTable) false e b).1)
    (hval : t.toE.eval (numSem N) (numBinSem N) (numPreSem N) av =
      e.eval (numSem N) (numBinSem N) (numPreSem N) av)
    (hw : t.toE.WF numGrammar) (hq : t.QuietN Generated.numTable []) (ha : t.AtomsOK atom av) :
    let text := (render (symOf Generated.numTable) false e b).1
    solveStr (numSem N) Generated.numTable Generated.numSteps atom (text.length + 1) text =
      some (.atom (e.eval (numSem N) (numBinSem N) (numPreSem N) av)) := by
  intro text
  have := C18_numeric_nested_partial N atom av t hw hq ha
  rw [htext, hval] at this
  exact this

/-- The same for logical expressions with parentheses nested to any depth. -/
theorem C18_logical_nested_partial (C : CmpOps F) (atom : List Char → Option (LV F))
    (av : List Char → LV F) (t : T) (hw : t.toE.WF logGrammar)
    (hq : t.QuietN Generated.logTable []) (ha : t.AtomsOK atom av) :
    solveStr (logSem C) Generated.logTable Generated.logSteps atom
        ((t.text Generated.logTable).length + 1) (t.text Generated.logTable) =
      some (.atom (t.toE.eval (logSem C) (logBinSem C) logPreSem av)) := by
  rw [solve_nest (logSem C) Generated.logTable Generated.logSteps atom
    (fun x => logEval C av x.toE) av t _ (T.depth_le_length Generated.logTable t) hq ha
    (T.argsOK_of (logSem C) Generated.logSteps logGrammar (logEval C av) av logKeys
      (fun e he => log_machine C av e he) t hw)]
  rw [T.toks_toE]
  exact log_machine C av t.toE hw

/-- **Logical expressions, token level**: comparisons are evaluated first, then `~`, then `&&`,
    then `||` (each left to right), for every well-formed tree, on the regenerated tables. -/
theorem C18_logical_partial (C : CmpOps F) (av : A → LV F) (e : E A) (hw : e.WF logGrammar) :
    e.solve (logSem C) logKeys Generated.logSteps av =
      some (e.eval (logSem C) (logBinSem C) logPreSem av) := by
  simp [E.solve, log_tk C av e hw, log_finish C av e hw]

/-- Signs: ` - a**b` is `(-a)**b` and `a -  - b**c` is `a - ((-b)**c)` — a sign is folded only in
    prefix position, before the power step (the defect repaired in dfe61ea merged it into the
    preceding binary operator). -/
theorem C18_signs (N : NumOps F) (a b c : QV F) :
    (E.bin "pow" (.pre "sub" (.lit a)) (.lit b)).solve (numSem N) numKeys Generated.numSteps id =
      some (numBinSem N "pow" ((numSem N).neg a) b) ∧
    (E.bin "sub" (.lit a) (.bin "pow" (.pre "sub" (.lit b)) (.lit c))).solve (numSem N) numKeys
        Generated.numSteps id =
      some (numBinSem N "sub" a (numBinSem N "pow" ((numSem N).neg b) c)) := by
  constructor
  · rw [C18_numeric_partial N id _ (by simp [E.WF, numGrammar, E.top])]; simp [E.eval, numPreSem]
  · rw [C18_numeric_partial N id _ (by simp [E.WF, numGrammar, E.top])]; simp [E.eval, numPreSem]

/-- Priorities made explicit on the smallest mixed trees (instances of the theorems above):
    `a + b * c = a + (b * c)`, `a - b - c = (a - b) - c`, `~ x == y && z || w = ((~(x == y)) && z) || w`. -/
theorem C18_priorities (N : NumOps F) (C : CmpOps F) (a b c : QV F) (x y z w : LV F) :
    (E.bin "add" (.lit a) (.bin "mul" (.lit b) (.lit c))).solve (numSem N) numKeys Generated.numSteps id =
      some (numBinSem N "add" a (numBinSem N "mul" b c)) ∧
    (E.bin "sub" (.bin "sub" (.lit a) (.lit b)) (.lit c)).solve (numSem N) numKeys Generated.numSteps id =
      some (numBinSem N "sub" (numBinSem N "sub" a b) c) ∧
    (E.bin "or" (.bin "and" (.pre "not" (.bin "eq" (.lit x) (.lit y))) (.lit z)) (.lit w)).solve
        (logSem C) logKeys Generated.logSteps id =
      some (lOr (lAnd (lNot (cmpOp C "eq" x y)) z) w) := by
  refine ⟨?_, ?_, ?_⟩
  · rw [C18_numeric_partial N id _ (by simp [E.WF, numGrammar, E.top])]; rfl
  · rw [C18_numeric_partial N id _ (by simp [E.WF, numGrammar, E.top])]; rfl
  · rw [C18_logical_partial C id _ (by simp [E.WF, logGrammar, E.top, isCmp])]
    simp [E.eval, logBinSem, logBin, logPreSem, isCmp]

/-- **The comparison operators are consistent on the same operands**, for all operand kinds
    (bool, str, numbers with and without units, literals, raising and refused operands) and every
    `isclose` / `<` / unit conversion: `a != b` is the negation of `a == b` (same refusals, same
    exceptions), `a <= b` is `a < b || a == b`, `a >= b` is `a > b || a == b`; hence the trees
    `a != b` and `~ a == b` have the same value. -/
theorem C18_cmp_consistent (C : CmpOps F) (l r : LV F) :
    cmpOp C "ne" l r = lNot (cmpOp C "eq" l r) ∧
    cmpOp C "le" l r = lOr (cmpOp C "lt" l r) (cmpOp C "eq" l r) ∧
    cmpOp C "ge" l r = lOr (cmpOp C "gt" l r) (cmpOp C "eq" l r) ∧
    (E.bin "ne" (.lit l) (.lit r)).eval (logSem C) (logBinSem C) logPreSem id =
      (E.pre "not" (.bin "eq" (.lit l) (.lit r))).eval (logSem C) (logBinSem C) logPreSem id := by
  refine ⟨cmp_ne_not_eq C l r, cmp_le_lt_or_eq C l r, cmp_ge_gt_or_eq C l r, ?_⟩
  simp [E.eval, logBinSem, logBin, logPreSem, isCmp, cmp_ne_not_eq]

/-- **Operands of different dimension cannot be added**: `+`/`−` between quantities whose dimension
    exponents differ raises, and the error reaches the result of every arithmetic context. -/
theorem C18_numeric_dim_refuse (N : NumOps F) (l r : Quant F) (h : l.dims ≠ r.dims) (isSub : Bool) :
    qaddsub N isSub l r = none ∧
    (∀ o (x : QV F), numBinSem N o none x = none ∧ numBinSem N o x none = none) := by
  constructor
  · have h' : ¬ r.dims = l.dims := fun e => h e.symm
    unfold qaddsub convTo
    split <;> simp
  · intro o x
    unfold numBinSem numBin
    split <;> (cases x <;> simp [lift2])

/-- **Trigonometric functions** take their argument in radians: for an angle (any unit of the angle
    dimension, factor `k` to rad) the result is the function of `val·k`, for a plain number of the
    number itself, and an argument of any other dimension is refused. -/
theorem C18_trig (N : NumOps F) (a : Quant F) :
    (a.dims = Dims.angle →
      numFn N "sin" [some a] = some ⟨N.sin (N.mul a.val a.k), N.one, Dims.zero⟩ ∧
      numFn N "cos" [some a] = some ⟨N.cos (N.mul a.val a.k), N.one, Dims.zero⟩ ∧
      numFn N "tan" [some a] = some ⟨N.tan (N.mul a.val a.k), N.one, Dims.zero⟩) ∧
    (a.dims.nodim = true →
      numFn N "sin" [some a] = some ⟨N.sin a.val, N.one, Dims.zero⟩ ∧
      numFn N "cos" [some a] = some ⟨N.cos a.val, N.one, Dims.zero⟩ ∧
      numFn N "tan" [some a] = some ⟨N.tan a.val, N.one, Dims.zero⟩) ∧
    (a.dims.nodim = false → a.dims ≠ Dims.angle →
      numFn N "sin" [some a] = none ∧ numFn N "cos" [some a] = none ∧ numFn N "tan" [some a] = none) := by
  refine ⟨fun h => ?_, fun h => ?_, fun h1 h2 => ?_⟩
  · have hn : Dims.nodim Dims.angle = false := by decide
    simp [numFn, toRad, h, hn]
  · simp [numFn, toRad, h]
  · simp [numFn, toRad, h1, h2]

/-! ### each operand carries its unit; the result equals arithmetic on SI values -/

/-- **Unit-aware arithmetic is exact** over any field: evaluating a tree with every operand
    carrying its own unit (`a ⊕ b` converts `b` to `a`'s unit, products multiply factors, a
    dimensionless combination folds its factor into the magnitude) agrees with evaluating the same
    tree on SI values — same refusals, same value — provided unit factors are non-zero. -/
theorem C18_numeric_units {K : Type} [Field K] (av : A → QV K)
    (hav : ∀ a, Agrees (av a) ((av a).map (Quant.toSI (fieldOps K))))
    (e : E A) (he : e.Arith) :
    Agrees (e.eval (numSem (fieldOps K)) (numBinSem (fieldOps K)) (numPreSem (fieldOps K)) av)
      (evalSI (fieldOps K) (fun a => (av a).map (Quant.toSI (fieldOps K))) e) := by
  induction e with
  | lit a => exact hav a
  | par e ih =>
    have h := ih he
    simp only [E.eval, evalSI]
    rw [show (numSem (fieldOps K)).fn = numFn (fieldOps K) from rfl, numFn_par, siFn_par]
    exact h
  | fn1 f a _ => exact he.elim
  | fn2 f a b _ _ => exact he.elim
  | pre u e _ => exact he.elim
  | bin o l r ihl ihr =>
    obtain ⟨ho, hl, hr⟩ := he
    have hL := ihl hl
    have hR := ihr hr
    simp only [E.eval, evalSI]
    generalize l.eval _ _ _ av = ql at hL ⊢
    generalize evalSI _ _ l = sl at hL ⊢
    generalize r.eval _ _ _ av = qr at hR ⊢
    generalize evalSI _ _ r = sr at hR ⊢
    cases ql with
    | none =>
      simp only [Agrees] at hL; subst hL
      rcases ho with rfl | rfl | rfl | rfl <;> cases qr <;> simp [numBinSem, numBin, lift2, siBin, Agrees]
    | some a =>
      obtain ⟨hka, rfl⟩ := hL
      cases qr with
      | none =>
        simp only [Agrees] at hR; subst hR
        rcases ho with rfl | rfl | rfl | rfl <;> simp [numBinSem, numBin, lift2, siBin, Agrees]
      | some b =>
        obtain ⟨hkb, rfl⟩ := hR
        rcases ho with rfl | rfl | rfl | rfl
        · -- add
          simp only [numBinSem, numBin, lift2, qaddsub, convTo, siBin, Quant.toSI]
          by_cases hd : b.dims = a.dims
          · have hd' : a.dims = b.dims := hd.symm
            simp only [hd, if_true, ite_self, Option.map_some, Agrees]
            refine ⟨hka, ?_⟩
            simp only [fieldOps, Quant.toSI, Bool.false_eq_true, if_false]
            congr 2; field_simp
          · have hd' : ¬ a.dims = b.dims := fun e => hd e.symm
            simp [hd, hd', Agrees]
        · -- sub
          simp only [numBinSem, numBin, lift2, qaddsub, convTo, siBin, Quant.toSI]
          by_cases hd : b.dims = a.dims
          · have hd' : a.dims = b.dims := hd.symm
            simp only [hd, if_true, ite_self, Option.map_some, Agrees]
            refine ⟨hka, ?_⟩
            simp only [fieldOps, Quant.toSI, if_true]
            rw [if_neg (by decide)]
            congr 2; field_simp
          · have hd' : ¬ a.dims = b.dims := fun e => hd e.symm
            simp [hd, hd', Agrees]
        · -- mul
          simp only [numBinSem, numBin, lift2, qmul, siBin, Quant.toSI]
          have := agrees_mk (a.val * b.val) (a.k * b.k) (a.dims.add b.dims) (mul_ne_zero hka hkb)
          simp only [fieldOps] at this ⊢
          convert this using 3
          simp; ring
        · -- div
          simp only [numBinSem, numBin, lift2, qdiv, siBin, Quant.toSI]
          have := agrees_mk (a.val / b.val) (a.k / b.k) (a.dims.sub b.dims) (div_ne_zero hka hkb)
          simp only [fieldOps] at this ⊢
          convert this using 3
          simp; rw [div_mul_div_comm]

/-- **Unit-aware arithmetic with prefix signs is exact**: `C18_numeric_units` extended to trees that
    also contain the prefix signs ` - x` / ` + x` anywhere (`E.ArithS` ⊇ `E.Arith`): negating the
    magnitude of an operand in its own unit is negating its SI value, so evaluation with units agrees
    with evaluation on SI values — same refusals, same value.  (Functions and `**` stay outside:
    over an abstract field they are uninterpreted.) -/
theorem C18_numeric_units_signs {K : Type} [Field K] (av : A → QV K)
    (hav : ∀ a, Agrees (av a) ((av a).map (Quant.toSI (fieldOps K))))
    (e : E A) (he : e.ArithS) :
    Agrees (e.eval (numSem (fieldOps K)) (numBinSem (fieldOps K)) (numPreSem (fieldOps K)) av)
      (evalSI (fieldOps K) (fun a => (av a).map (Quant.toSI (fieldOps K))) e) := by
  induction e with
  | lit a => exact hav a
  | par e ih =>
    have h := ih he
    simp only [E.eval, evalSI]
    rw [show (numSem (fieldOps K)).fn = numFn (fieldOps K) from rfl, numFn_par, siFn_par]
    exact h
  | fn1 f a _ => exact he.elim
  | fn2 f a b _ _ => exact he.elim
  | pre u e ih =>
    obtain ⟨hu, h⟩ := he
    simp only [E.eval, evalSI]
    exact agrees_pre u hu _ _ (ih h)
  | bin o l r ihl ihr =>
    obtain ⟨ho, hl, hr⟩ := he
    simp only [E.eval, evalSI]
    exact agrees_bin o ho _ _ _ _ (ihl hl) (ihr hr)

/-! ### templates -/

/-- Full statement: the round trip below also for holes that carry a slice `[a:b,c]` — a non-empty
    list of entries, an index `n` or a range with optional bounds rendered `a:b`, `a:`, `:b`, `:`,
    bounds in decimal (`toString`), entries joined by commas.  Proved as `C18_template` (the model's
    `parseSlice` splits the slice body with the list splitter `List.splitOn`; the scan of every
    generated template is still compared with the generated pieces on every run). -/
def C18_template_statement : Prop :=
  ∀ ps : List Piece, (∀ p ∈ ps, PieceOKS p) →
    scanTemplate ((ps.flatMap renderPieceS).length + 1) (ps.flatMap renderPieceS) = ps

/-- **Templates**: scanning the rendering of any sequence of text characters (other than `{`) and
    holes `{{ref}fmt}` — `ref` any non-empty text without `}`, `fmt` absent or of the form
    `:[0-9.]*[sdfeb]+` — returns exactly that sequence: every hole is found with its reference
    and format, everything else is copied.  (The solver then concatenates the text and
    `format(value, fmt)` / `str(value)` of the holes; `format`/`str` are parameters.) -/
theorem C18_template_partial (ps : List Piece) (hp : ∀ p ∈ ps, PieceOK p) :
    scanTemplate ((renderPieces ps).length + 1) (renderPieces ps) = ps :=
  scan_render ps hp _ (by omega)

/-- **The slice parser inverts the slice renderer**: for every non-empty list of entries with
    arbitrary optional bounds, `parseSlice` applied to `[e1,e2,…]` followed by any text returns exactly
    the entries and the text behind the closing bracket (decimal numerals of any size read back to
    the same number, `n` alone read as an index and `n:n` as a range, missing bounds stay missing). -/
theorem C18_template_slice (l : List SliceEntry) (hl : l ≠ []) (more : List Char) :
    parseSlice (renderSlice l ++ more) = some (l, more) :=
  parseSlice_render l hl more

/-- **Templates, full statement** (`C18_template_statement`): scanning the rendering of any sequence
    of text characters (other than `{`) and holes `{{ref}[slice]fmt}` — `ref` any non-empty text
    without `}`, `slice` absent or any non-empty list of entries with optional bounds, `fmt` absent
    or `:[0-9.]*[sdfeb]+` — returns exactly that sequence: every hole is found with its reference,
    its slice entries and its format; the second `part_slice` call of the code finds nothing more. -/
theorem C18_template : C18_template_statement :=
  fun ps hp => scan_renderS ps hp _ (by omega)

/-- **Templates, the text produced.**  For every way `hole` of obtaining the characters of a hole
    (request of the reference, `slice_value`, `format`/`str` — parameters; `none` = it raises) and
    every sequence of pieces of the template grammar, `TemplateSolver.solve` (scan + assembly, as
    modelled by `solveTemplate`) applied to the rendered text returns the concatenation, in order,
    of the copied characters and of `hole ref slice fmt` for every hole, and raises exactly when
    one of the holes raises. -/
theorem C18_template_output (hole : HoleFn) (ps : List Piece) (hp : ∀ p ∈ ps, PieceOKS p) :
    solveTemplate hole (ps.flatMap renderPieceS) = (ps.mapM (pieceOut hole)).map List.flatten := by
  unfold solveTemplate
  rw [C18_template ps hp, assemble_eq]

/-- the two readings of `C18_template_output`: all holes succeed → the text is the flat
    concatenation; some hole raises → the solve raises -/
theorem C18_template_output_cases (hole : HoleFn) (ps : List Piece) (hp : ∀ p ∈ ps, PieceOKS p) :
    (∀ out : Piece → List Char, (∀ p ∈ ps, pieceOut hole p = some (out p)) →
      solveTemplate hole (ps.flatMap renderPieceS) = some (ps.flatMap out)) ∧
    ((∃ p ∈ ps, pieceOut hole p = none) → solveTemplate hole (ps.flatMap renderPieceS) = none) := by
  rw [C18_template_output hole ps hp]
  exact ⟨fun out h => mapM_pieceOut_ok hole out ps h, fun h => mapM_pieceOut_err hole ps h⟩

/-- **Templates whose text contains braces.**  The round trip and the produced text also when the
    copied text contains `{` (C / JSON / LaTeX templates): it suffices that every copied `{` is not
    followed — after any blanks — by another `{`, nor directly by a malformed slice on which the slice
    parser raises, in the rendered rest (`PiecesOK`; a copied character
    other than `{` is unconstrained, so this contains `C18_template` and `C18_template_output`).
    Not covered: a copied `{` followed by `{` that still fails to form a hole (`{{}`, `{{a}x`), which
    the code copies as well. -/
theorem C18_template_braces (hole : HoleFn) (ps : List Piece) (hp : PiecesOK ps) :
    scanTemplate ((ps.flatMap renderPieceS).length + 1) (ps.flatMap renderPieceS) = ps ∧
    solveTemplate hole (ps.flatMap renderPieceS) = (ps.mapM (pieceOut hole)).map List.flatten := by
  have h := scan_renderB ps hp _ (Nat.lt_succ_self _)
  refine ⟨h, ?_⟩
  unfold solveTemplate
  rw [h, assemble_eq]

/-- **Text without holes is returned unchanged**: a text in which no `{` is followed (after blanks)
    by another `{` or directly by a malformed slice is the result of solving it, whatever the
    environment. -/
theorem C18_template_plain (hole : HoleFn) (s : List Char) (h : PlainOK s) :
    solveTemplate hole s = some s := by
  have := (C18_template_braces hole (s.map Piece.text) (plain_piecesOK s h)).2
  rw [plain_render, plain_out] at this
  exact this

/-! Non-vacuity: concrete well-formed trees / hypotheses. -/
/-- ` - (1 -  + 2) * 3` -/
example : (E.bin "mul" (.pre "sub" (.par (.bin "sub" (.lit (1 : Nat)) (.pre "add" (.lit 2))))) (.lit 3)).ArithS := by
  simp [E.ArithS]
/-- `"{ }{{?a}}"`: a copied `{` (followed by a blank and `}`), then a hole -/
example : PiecesOK [.text '{', .text ' ', .text '}', .hole "?a".toList none none] := by
  refine ⟨Or.inr (by decide), Or.inl (by decide), Or.inl (by decide), ?_, trivial⟩
  exact ⟨by decide, by decide, fun l hl => (by cases hl), fun f hf => (by cases hf)⟩
/-- `"f(x){ return {x}; }"` -/
example : PlainOK ['f', '(', 'x', ')', '{', ' ', 'r', 'e', 't', 'u', 'r', 'n', ' ', '{', 'x', '}', ';', ' ', '}'] := by
  decide
/-- `"x={{?v}[1]:.2f};"` with the hole formatted as `2.00` gives `"x=2.00;"` -/
example : solveTemplate (fun p sl fm => if p = "?v".toList ∧ sl = some [.idx 1] ∧ fm = some ":.2f".toList
      then some "2.00".toList else none) "x={{?v}[1]:.2f};".toList = some "x=2.00;".toList := by
  decide +kernel
/-- `{{?mat}[1,:3,2:,:,0:12,4:4]:.2e}` is a piece of the full template statement -/
example : PieceOKS (.hole "?mat".toList (some [.idx 1, .range none (some 3), .range (some 2) none, .range none none,
    .range (some 0) (some 12), .range (some 4) (some 4)]) (some ":.2e".toList)) :=
  ⟨by decide, by decide, fun l hl => by cases hl; simp, fun f hf => by
    cases hf; exact ⟨⟨".2".toList, "e".toList, rfl, by decide, by decide, by decide⟩⟩⟩
example : renderPieceS (.hole "?mat".toList (some [.idx 1, .range none (some 3), .range (some 2) none, .range none none,
    .range (some 0) (some 12), .range (some 4) (some 4)]) (some ":.2e".toList)) = "{{?mat}[1,:3,2:,:,0:12,4:4]:.2e}".toList := by decide +kernel
example : (E.bin "add" (.lit (1 : Nat)) (.bin "mul" (.pre "sub" (.lit 2)) (.fn2 "powb" (.par (.bin "sub" (.lit 3)
    (.bin "pow" (.lit 4) (.lit 5)))) (.lit 2)))).WF numGrammar := by simp [E.WF, numGrammar, E.top]
example : (E.bin "or" (.lit (0 : Nat)) (.bin "and" (.pre "not" (.bin "le" (.lit 1) (.lit 2))) (.par (.lit 3)))).WF
    logGrammar := by simp [E.WF, logGrammar, E.top, isCmp]
example : (E.bin "add" (.lit (0 : Nat)) (.par (.bin "truediv" (.lit 1) (.lit 2)))).Arith := by
  simp [E.Arith]
example : Agrees (some (⟨2, 100, [1]⟩ : Quant Rat)) ((some (⟨2, 100, [1]⟩ : Quant Rat)).map (Quant.toSI (fieldOps Rat))) :=
  ⟨by decide, rfl⟩
example : ([1, 0] : Dims) ≠ [0, 1] := by decide
/-- `"2 * pow( 1 m + 2 cm ,(1 + 1))  - sin(30 deg)"` satisfies the side conditions of the nested
    string-level theorem (decided over the regenerated table) -/
example : (T.bin "sub"
      (T.bin "mul" (.lit "2".toList)
        (.par2 "powb" 0 1 (.bin "add" (.lit "1 m".toList) (.lit "2 cm".toList)) 1 0
          (.par "par" 0 0 (.bin "add" (.lit "1".toList) (.lit "1".toList)) 0 0) 0 1))
      (.par "sin" 0 0 (.lit "30 deg".toList) 0 0)).QuietN Generated.numTable [] :=
  T.quietN_of_B Generated.numTable _ [] (by decide +kernel)
example : (T.par "par" 0 1 (.bin "or" (.lit "true ".toList) (.pre "not" (.par "par" 0 0 (.bin "eq" (.lit "{?a} ".toList)
    (.lit " 2 m".toList)) 0 0))) 0 0).QuietN Generated.logTable [] :=
  T.quietN_of_B Generated.logTable _ [] (by decide +kernel)
/-- `"1 m  + 2 cm *  - 3"` satisfies the side conditions of the flat string-level theorem -/
example : (E.bin "add" (.lit "1 m ".toList) (.bin "mul" (.lit "2 cm".toList) (.pre "sub" (.lit " 3".toList)))).QuietIn
    Generated.numTable [] := by
  refine ⟨⟨⟨"add", " + ".toList, false, 0⟩, by decide +kernel, rfl, by decide +kernel, rfl, by decide⟩,
    ⟨by decide +kernel, quiet_of_all _ _ _ (by decide +kernel)⟩, ?_⟩
  refine ⟨⟨⟨"mul", " * ".toList, false, 0⟩, by decide +kernel, rfl, by decide +kernel, rfl, by decide⟩,
    ⟨by decide +kernel, quiet_of_all _ _ _ (by decide +kernel)⟩, ?_⟩
  exact ⟨⟨⟨"sub", " - ".toList, false, 0⟩, by decide +kernel, rfl, by decide +kernel, rfl, by decide⟩,
    ⟨by decide +kernel, quiet_of_all _ _ _ (by decide +kernel)⟩⟩
example : PieceOK (.hole "?body.weight".toList none (some ":.3e".toList)) :=
  ⟨by decide, by decide, rfl, fun f hf => by
    cases hf; exact ⟨⟨".3".toList, "e".toList, rfl, by decide, by decide, by decide⟩⟩⟩

end SciVerif.C18
