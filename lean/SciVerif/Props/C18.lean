import SciVerif.Lemmas.C18b
import SciVerif.Lemmas.C18c

/-!
# C18 — DIP expressions compute unit-aware results under the documented priorities

Only property theorems live here (helper lemmas are in `Lemmas/C18*.lean`).
The operator and step tables are regenerated from the live solver objects on every run
(`Generated/C18Tables.lean`); all theorems are about the machine driven by those tables.
-/
namespace SciVerif.C18

variable {F A : Type}

/-- Tie of the tables: operator keys, symbols, dict order, classes and step order of the two solver
    instances are the ones the theorems below are about (re-extracted on every run). -/
theorem C18_tables :
    Generated.numClasses = [("log", "CustomOperatorLog"), ("log10", "CustomOperatorLog10"),
      ("logb", "CustomOperatorLogb"), ("exp", "CustomOperatorExp"), ("sqrt", "CustomOperatorSqrt"),
      ("powb", "CustomOperatorPowb"), ("sin", "CustomOperatorSin"), ("cos", "CustomOperatorCos"),
      ("tan", "CustomOperatorTan"), ("par", "OperatorPar"), ("pow", "OperatorPow"),
      ("mul", "CustomOperatorMul"), ("truediv", "CustomOperatorTruediv"), ("add", "CustomOperatorAdd"),
      ("sub", "CustomOperatorSub")] ∧
    Generated.logClasses = [("par", "OperatorPar"), ("eq", "CustomEq"), ("ne", "CustomNe"),
      ("not", "CustomNot"), ("le", "OperatorLe"), ("ge", "OperatorGe"), ("lt", "OperatorLt"),
      ("gt", "OperatorGt"), ("and", "CustomAnd"), ("or", "CustomOr")] ∧
    Generated.numTable.map (fun d => (d.key, String.ofList d.sym)) =
      [("log", "log("), ("log10", "log10("), ("logb", "logb("), ("exp", "exp("), ("sqrt", "sqrt("),
       ("powb", "pow("), ("sin", "sin("), ("cos", "cos("), ("tan", "tan("), ("par", "("), ("pow", "**"),
       ("mul", " * "), ("truediv", " / "), ("add", " + "), ("sub", " - ")] ∧
    Generated.logTable.map (fun d => (d.key, String.ofList d.sym)) =
      [("par", "("), ("eq", "=="), ("ne", "!="), ("not", "~"), ("le", "<="), ("ge", ">="), ("lt", "<"),
       ("gt", ">"), ("and", "&&"), ("or", "||")] ∧
    Generated.numSteps = Generated.logSteps := by
  decide +kernel

/-- **Numerical expressions, token level.**  For every number algebra, every atom valuation and
    every well-formed tree (`× ÷` bind tighter than `+ −`, equal priorities group left to right,
    parentheses and the documented functions nest arbitrarily), the real pass sequence — ARGS,
    sign folding, `**`, `* /`, `+ -`, as regenerated from the code — applied to the tree's token
    list (parenthesised parts solved recursively by the same machine) returns exactly the tree
    value: each operator applied once to the values of its two sub-trees. -/
theorem C18_numeric_partial (N : NumOps F) (av : A → QV F) (e : E A) (hw : e.WF numGrammar) :
    e.solve (numSem N) numKeys Generated.numSteps av =
      some (e.eval (numSem N) (numBinSem N) (fun _ q => q) av) := by
  simp [E.solve, num_tk N av e hw, num_finish N av e hw]

/-- Full statement (string level): solving the *rendered text* of a well-formed tree — any number of
    optional blanks — gives the tree value.  Proved above for the token list; the tokeniser half
    (`solveStr` on `render e` produces `e.toks`) is checked by the driver on every generated tree
    of every run ("tree" versus "model" result), not proved. -/
def C18_numeric_statement : Prop :=
  ∀ (N : NumOps Rat) (atom : List Char → Option (QV Rat)) (e : E (List Char)) (b : List Nat),
    e.WF numGrammar →
    (∀ a, (atom a).isSome → atom (strip a) = atom a) →
    let text := (render (fun k => ((Generated.numTable.find? (·.key == k)).map (·.sym)).getD []) false e b).1
    solveStr (numSem N) Generated.numTable Generated.numSteps atom (text.length + 1) text =
      some (.atom (e.eval (numSem N) (numBinSem N) (fun _ q => q) (fun a => (atom a).getD none)))

/-- **Logical expressions, token level**: comparisons are evaluated first, then `~`, then `&&`,
    then `||` (each left to right), for every well-formed tree, on the regenerated tables. -/
theorem C18_logical_partial (C : CmpOps F) (av : A → LV F) (e : E A) (hw : e.WF logGrammar) :
    e.solve (logSem C) logKeys Generated.logSteps av =
      some (e.eval (logSem C) (logBinSem C) logPreSem av) := by
  simp [E.solve, log_tk C av e hw, log_finish C av e hw]

/-- Priorities made explicit on the smallest mixed trees (instances of the theorems above):
    `a + b * c = a + (b * c)`, `a - b - c = (a - b) - c`, `~ x == y && z || w = ((~(x == y)) && z) || w`. -/
theorem C18_priorities (N : NumOps F) (C : CmpOps F) (a b c : QV F) (x y z w : LV F) :
    (E.bin "add" (.lit a) (.bin "mul" (.lit b) (.lit c))).solve (numSem N) numKeys Generated.numSteps id =
      some (numBinSem N "add" a (numBinSem N "mul" b c)) ∧
    (E.bin "sub" (.bin "sub" (.lit a) (.lit b)) (.lit c)).solve (numSem N) numKeys Generated.numSteps id =
      some (numBinSem N "sub" (numBinSem N "sub" a b) c) ∧
    (E.bin "or" (.bin "and" (.pre "not" (.bin "eq" (.lit x) (.lit y))) (.lit z)) (.lit w)).solve
        (logSem C) logKeys Generated.logSteps id =
      some (lOr (lAnd (lNot (cmpOp C "eq" x y)) z) w) := by
  refine ⟨?_, ?_, ?_⟩
  · rw [C18_numeric_partial N id _ (by simp [E.WF, numGrammar, E.top])]; rfl
  · rw [C18_numeric_partial N id _ (by simp [E.WF, numGrammar, E.top])]; rfl
  · rw [C18_logical_partial C id _ (by simp [E.WF, logGrammar, E.top, isCmp])]
    simp [E.eval, logBinSem, logBin, logPreSem, isCmp]

/-- **Operands of different dimension cannot be added**: `+`/`−` between quantities whose dimension
    exponents differ raises, and the error reaches the result of every arithmetic context. -/
theorem C18_numeric_dim_refuse (N : NumOps F) (l r : Quant F) (h : l.dims ≠ r.dims) (isSub : Bool) :
    qaddsub N isSub l r = none ∧
    (∀ o (x : QV F), numBinSem N o none x = none ∧ numBinSem N o x none = none) := by
  constructor
  · have h' : ¬ r.dims = l.dims := fun e => h e.symm
    unfold qaddsub convTo
    split <;> simp
  · intro o x
    unfold numBinSem numBin
    split <;> (cases x <;> simp [lift2])

/-! ### each operand carries its unit; the result equals arithmetic on SI values -/

/-- **Unit-aware arithmetic is exact** over any field: evaluating a tree with every operand
    carrying its own unit (`a ⊕ b` converts `b` to `a`'s unit, products multiply factors, a
    dimensionless combination folds its factor into the magnitude) agrees with evaluating the same
    tree on SI values — same refusals, same value — provided unit factors are non-zero. -/
theorem C18_numeric_units {K : Type} [Field K] (av : A → QV K)
    (hav : ∀ a, Agrees (av a) ((av a).map (Quant.toSI (fieldOps K))))
    (e : E A) (he : e.Arith) :
    Agrees (e.eval (numSem (fieldOps K)) (numBinSem (fieldOps K)) (fun _ q => q) av)
      (evalSI (fieldOps K) (fun a => (av a).map (Quant.toSI (fieldOps K))) e) := by
  induction e with
  | lit a => exact hav a
  | par e ih =>
    have h := ih he
    simp only [E.eval, evalSI]
    rw [show (numSem (fieldOps K)).fn = numFn (fieldOps K) from rfl, numFn_par, siFn_par]
    exact h
  | fn1 f a _ => exact he.elim
  | fn2 f a b _ _ => exact he.elim
  | pre u e _ => exact he.elim
  | bin o l r ihl ihr =>
    obtain ⟨ho, hl, hr⟩ := he
    have hL := ihl hl
    have hR := ihr hr
    simp only [E.eval, evalSI]
    generalize l.eval _ _ _ av = ql at hL ⊢
    generalize evalSI _ _ l = sl at hL ⊢
    generalize r.eval _ _ _ av = qr at hR ⊢
    generalize evalSI _ _ r = sr at hR ⊢
    cases ql with
    | none =>
      simp only [Agrees] at hL; subst hL
      rcases ho with rfl | rfl | rfl | rfl <;> cases qr <;> simp [numBinSem, numBin, lift2, siBin, Agrees]
    | some a =>
      obtain ⟨hka, rfl⟩ := hL
      cases qr with
      | none =>
        simp only [Agrees] at hR; subst hR
        rcases ho with rfl | rfl | rfl | rfl <;> simp [numBinSem, numBin, lift2, siBin, Agrees]
      | some b =>
        obtain ⟨hkb, rfl⟩ := hR
        rcases ho with rfl | rfl | rfl | rfl
        · -- add
          simp only [numBinSem, numBin, lift2, qaddsub, convTo, siBin, Quant.toSI]
          by_cases hd : b.dims = a.dims
          · have hd' : a.dims = b.dims := hd.symm
            simp only [hd, if_true, ite_self, Option.map_some, Agrees]
            refine ⟨hka, ?_⟩
            simp only [fieldOps, Quant.toSI, Bool.false_eq_true, if_false]
            congr 2; field_simp
          · have hd' : ¬ a.dims = b.dims := fun e => hd e.symm
            simp [hd, hd', Agrees]
        · -- sub
          simp only [numBinSem, numBin, lift2, qaddsub, convTo, siBin, Quant.toSI]
          by_cases hd : b.dims = a.dims
          · have hd' : a.dims = b.dims := hd.symm
            simp only [hd, if_true, ite_self, Option.map_some, Agrees]
            refine ⟨hka, ?_⟩
            simp only [fieldOps, Quant.toSI, if_true]
            rw [if_neg (by decide)]
            congr 2; field_simp
          · have hd' : ¬ a.dims = b.dims := fun e => hd e.symm
            simp [hd, hd', Agrees]
        · -- mul
          simp only [numBinSem, numBin, lift2, qmul, siBin, Quant.toSI]
          have := agrees_mk (a.val * b.val) (a.k * b.k) (a.dims.add b.dims) (mul_ne_zero hka hkb)
          simp only [fieldOps] at this ⊢
          convert this using 3
          simp; ring
        · -- div
          simp only [numBinSem, numBin, lift2, qdiv, siBin, Quant.toSI]
          have := agrees_mk (a.val / b.val) (a.k / b.k) (a.dims.sub b.dims) (div_ne_zero hka hkb)
          simp only [fieldOps] at this ⊢
          convert this using 3
          simp; rw [div_mul_div_comm]

/-! ### templates -/

/-- Full statement: scanning the rendering of `text | {{ref}[slice]:fmt}` pieces returns the pieces
    (so the result is the concatenation of the texts and the formatted holes).  Not proved in
    general; the driver checks it for every generated template on every run. -/
def C18_template_statement : Prop :=
  ∀ (t : List Char), (∀ c ∈ t, c ≠ '{') →
    scanTemplate (t.length + 1) t = t.map Piece.text

/-- Text without an opening brace is copied character by character. -/
theorem C18_template_partial (t : List Char) (h : ∀ c ∈ t, c ≠ '{') (fuel : Nat)
    (hf : t.length < fuel) : scanTemplate fuel t = t.map Piece.text := by
  induction t generalizing fuel with
  | nil => cases fuel <;> simp [scanTemplate]
  | cons c t ih =>
    cases fuel with
    | zero => simp at hf
    | succ n =>
      have hc : c ≠ '{' := h c (by simp)
      simp only [scanTemplate, hc, if_false, List.map_cons]
      rw [ih (fun d hd => h d (by simp [hd])) n (by simpa using hf)]

/-! Non-vacuity: concrete well-formed trees / hypotheses. -/
example : (E.bin "add" (.lit (1 : Nat)) (.bin "mul" (.lit 2) (.fn2 "powb" (.par (.bin "sub" (.lit 3) (.lit 4))) (.lit 2)))).WF
    numGrammar := by simp [E.WF, numGrammar, E.top]
example : (E.bin "or" (.lit (0 : Nat)) (.bin "and" (.pre "not" (.bin "le" (.lit 1) (.lit 2))) (.par (.lit 3)))).WF
    logGrammar := by simp [E.WF, logGrammar, E.top, isCmp]
example : (E.bin "add" (.lit (0 : Nat)) (.par (.bin "truediv" (.lit 1) (.lit 2)))).Arith := by
  simp [E.Arith]
example : Agrees (some (⟨2, 100, [1]⟩ : Quant Rat)) ((some (⟨2, 100, [1]⟩ : Quant Rat)).map (Quant.toSI (fieldOps Rat))) :=
  ⟨by decide, rfl⟩
example : ([1, 0] : Dims) ≠ [0, 1] := by decide

end SciVerif.C18
