import SciVerif.Lemmas.C13c
import SciVerif.Lemmas.C14c
import SciVerif.Lemmas.C14d
import SciVerif.Lemmas.C14e
import SciVerif.Lemmas.C14f

/-!
# C14 — The last assignment wins, in the units and type of the definition

Theorems about `BaseNode.modify_value`, the lookup-by-path of the main loop and the final
validation of the model in `Model/C13Core.lean` (code as repaired by the `fix:` commits).
`assignedValue P ty dims u0 nd` is the specification of one assignment: the literal of line `nd`
cast to the *definition's* type and shape, converted from the line's unit (or, without unit,
taken as is) into the definition's unit `u0`.
-/
namespace SciVerif.C14
open SciVerif.C13

/-- One modification: the node keeps name, type, width/sign, dimension, unit, flags; its new
    value is `assignedValue` of the definition's static attributes and the modifying line — the
    old value plays no role (so `0`, `-0.0`, `false`, `''` and `none` are stored like any value). -/
theorem C14_last_wins_step (P : Params) (e e' : ENode) (nd : Node) (h : modify P e nd = .ok e') :
    ∃ v, assignedValue P e.ty e.dims e.units nd = .ok v ∧ e' = { e with value := some v } := by
  obtain ⟨v, h1, h2, _⟩ := modify_ok h
  exact ⟨v, h1, h2⟩

/-- in particular the data type with its width and signedness (`info`: precision, unsigned) is a
    static attribute of the node record: no modification, typed or untyped, changes it -/
theorem C14_type_width_sign_kept (P : Params) (e e' : ENode) (nd : Node) (h : C13.modify P e nd = .ok e') :
    e'.ty = e.ty ∧ e'.info.precision = e.info.precision ∧ e'.info.unsigned = e.info.unsigned ∧
    e'.units = e.units ∧ e'.dims = e.dims := by
  obtain ⟨v, _, he⟩ := C14_last_wins_step P e e' nd h
  rw [he]
  exact ⟨rfl, rfl, rfl, rfl, rfl⟩

/-- … and for a line that carries a value the result does not depend on the node's current
    value at all (`w` arbitrary, including "no value object yet"). -/
theorem C14_old_value_irrelevant (P : Params) (e : ENode) (w : Option Val) (nd : Node) (r : Raw)
    (hr : nd.raw = some r) :
    (C13.modify P { e with value := w } nd).map (·.value) = (C13.modify P e nd).map (·.value) := by
  unfold C13.modify
  cases r with
  | cells j l => simp only [hr]
  | text s =>
    simp only [hr, bind, Except.bind]

/-- Chains of every length: after the modifications `ms` followed by `m` the node is the
    original one with the value assigned by the *last* line `m`, in the definition's unit. -/
theorem C14_last_wins (P : Params) (e e' : ENode) (ms : List Node) (m : Node)
    (h : modifyAll P e (ms ++ [m]) = .ok e') :
    ∃ v, assignedValue P e.ty e.dims e.units m = .ok v ∧ e' = { e with value := some v } := by
  rw [modifyAll_append] at h
  cases h1 : modifyAll P e ms with
  | error x => rw [h1] at h; cases h
  | ok e1 =>
    rw [h1] at h
    simp only [Except.bind] at h
    obtain ⟨hn, ht, hi, hd, hu, hdecl, hc⟩ := modifyAll_static ms e e1 h1
    obtain ⟨v, hv, he'⟩ := C14_last_wins_step P e1 e' m h
    rw [ht, hd, hu] at hv
    refine ⟨v, hv, ?_⟩
    rw [he']
    cases e; cases e1
    simp_all

def exNode (q : Rat) : ENode := { name := ['a'], ty := .float, info := {}, dims := none, units := none, value := some (.scalar (.num q)), declared := false }
def exMod (t : Str) : Node := { kind := .mod, name := some ['a'], raw := some (.text t) }

example : modifyAll (mkParams []) (exNode 1) [exMod ['5'], exMod ['0']] = .ok (exNode 0) := by rfl

/-- In the program: a line whose path already exists replaces exactly the first entry with that
    path (the only one, by `C13_one_per_node_in_order`) by its modification; every other entry
    and the order stay as they were — anywhere in the hierarchy. -/
theorem C14_last_wins_in_program (P : Params) (s s' : State) (nd : Node) (nm : Str)
    (hk : nd.kind = .mod ∨ ∃ t, nd.kind = .typed t) (hn : nd.name = some nm)
    (hex : ∃ e ∈ s.nodes, e.name = pathOf (push s.stack nd.indent nm))
    (h : stepPlain P s nd = .ok s') :
    ∃ pre e e' post, s.nodes = pre ++ e :: post ∧ s'.nodes = pre ++ e' :: post ∧
      e.name = pathOf (push s.stack nd.indent nm) ∧ (∀ x ∈ pre, x.name ≠ e.name) ∧
      ∃ v, assignedValue P e.ty e.dims e.units nd = .ok v ∧ e' = { e with value := some v } := by
  have hsome : ∃ r, updateFirst P (pathOf (push s.stack nd.indent nm)) nd s.nodes = some r := by
    cases hu : updateFirst P (pathOf (push s.stack nd.indent nm)) nd s.nodes with
    | some r => exact ⟨r, rfl⟩
    | none =>
      obtain ⟨e, he, hne⟩ := hex
      exact absurd hne ((updateFirst_none s.nodes).mp hu e he)
  obtain ⟨r, hr⟩ := hsome
  unfold stepPlain at h
  have key : r = .ok s'.nodes := by
    rcases hk with hk | ⟨t, hk⟩
    · simp only [hk, hn, bind, Except.bind] at h
      cases hp : preCheck P nd with
      | error x => rw [hp] at h; cases h
      | ok u =>
        rw [hp] at h
        simp only [hr, pure, Except.pure] at h
        cases r with
        | error x => cases h
        | ok ns => simp only [Except.ok.injEq] at h; subst h; rfl
    · simp only [hk, hn, bind, Except.bind] at h
      cases hp : preCheck P nd with
      | error x => rw [hp] at h; cases h
      | ok u =>
        rw [hp] at h
        simp only [hr] at h
        cases hi : initValue P t nd.dims nd.raw with
        | error x => rw [hi] at h; cases h
        | ok v =>
          rw [hi] at h
          cases r with
          | error x => cases h
          | ok ns => simp only [Except.ok.injEq] at h; subst h; rfl
  rw [key] at hr
  obtain ⟨pre, e, e', post, h1, h2, h3, _, h5, h6⟩ := updateFirst_ok _ _ hr
  obtain ⟨v, hv, he'⟩ := C14_last_wins_step P e e' nd h6
  exact ⟨pre, e, e', post, h1, h2, h3, fun x hx => by rw [h3]; exact h5 x hx, v, hv, he'⟩

/-- An assignment without unit, or (numeric types) written in the definition's own unit, is stored
    unchanged: it is taken to be in the definition's unit. -/
theorem C14_unitless_is_definition_unit (P : Params) (ty : Ty) (u0 : Option Str) (v : Val) :
    convertVal P ty u0 none v = .ok v ∧
    ((ty = .int ∨ ty = .float) → convertVal P ty u0 u0 v = .ok v) := by
  constructor
  · cases ty <;> cases u0 <;> simp [convertVal, convertG]
  · intro h
    rcases h with rfl | rfl <;> cases u0 <;> simp [convertVal, convertG]

/-- A numeric value written in another unit `uk ≠ u0` is stored as `conv uk u0` of it. -/
theorem C14_converted_into_definition_unit (P : Params) (u0 uk : Str) (q : Rat) (hne : uk ≠ u0) :
    convertVal P .float (some u0) (some uk) (.scalar (.num q)) =
      (P.conv uk u0 q).map (fun q' => .scalar (.num q')) ∧
    convertVal P .int (some u0) (some uk) (.scalar (.num q)) =
      (P.conv uk u0 q).map (fun q' => .scalar (.num q')) := by
  constructor <;>
  · simp only [convertVal, convertG, hne, if_false, bind, Except.bind]
    cases P.conv uk u0 q <;> rfl

/-- a numeric value with a unit cannot be assigned to a parameter defined without unit, and a
    bool / str parameter accepts no unit at all (both are "a unit of another dimension") -/
theorem C14_reject_unit_on_unitless (P : Params) (ty : Ty) (uk : Str) (v : Val) :
    convertVal P ty none (some uk) v = .error .fail := by
  cases ty <;> simp [convertVal, convertG]

/-- a failing iteration makes the whole parse fail: no environment is returned -/
theorem C14_error_is_final (P : Params) (a b : List Node) (nd : Node) (s1 : State) (x : Err)
    (ha : runNodes P {} a = .ok s1) (hs : step P s1 nd = .error x) :
    parseNodes P (a ++ nd :: b) = .error x := by
  simp only [parseNodes, runNodes_append, ha, Except.bind, runNodes, bind, hs]

/-- A chain of parses on one environment (`DIP(env)`): the second parse continues from the state the
    first one left (parent stack, parameters, constant flags), so a chain whose first stage passes
    its validation gives exactly what one parse of the concatenated lines gives. -/
theorem C14_chain_of_parses (P : Params) (a b : List Node) (s1 : State) (h1 : runNodes P {} a = .ok s1) :
    (runNodes P s1 b).bind (fun s => validate s.nodes) = parseNodes P (a ++ b) := by
  simp only [parseNodes, runNodes_append, h1, Except.bind, bind]

/-- a typed modification with another data type is rejected -/
theorem C14_reject_type (P : Params) (e : ENode) (nd : Node) (t : Ty) (hk : nd.kind = .typed t)
    (hne : t ≠ e.ty) : modify P e nd = .error .fail := by
  have : tyMismatch nd e.ty = true := by simp [tyMismatch, hk, kindTy, hne]
  simp [C13.modify, this]

/-- the linear unit table refuses a conversion between units of different dimension … -/
theorem C14_reject_dimension (tbl : List UnitRow) (a b : UnitRow) (frm to : Str) (q : Rat)
    (ha : tbl.find? (fun r => r.name = frm) = some a) (hb : tbl.find? (fun r => r.name = to) = some b)
    (hd : a.dim ≠ b.dim) : convWith tbl frm to q = .error .fail := by
  simp [convWith, ha, hb, hd]

/-- … and a refused conversion makes the modification fail. -/
theorem C14_reject_dimension_modify (P : Params) (e : ENode) (nd : Node) (s uk u0 : Str) (q : Rat) (x : Err)
    (hty : e.ty = .float ∨ e.ty = .int) (hm : tyMismatch nd e.ty = false)
    (hr : nd.raw = some (.text s)) (hc : P.castText e.ty e.dims s = .ok (.scalar (.num q)))
    (hu0 : e.units = some u0) (huk : nd.units = some uk) (hne : uk ≠ u0)
    (hconv : P.conv uk u0 q = .error x) : modify P e nd = .error x := by
  have hv : (Val.scalar (Atom.num q) = Val.none) = False := by simp
  rcases hty with hty | hty <;>
  · rw [hty] at hm hc
    simp [C13.modify, hm, hr, hc, hu0, huk, hty, convertVal, convertG, hne, hconv, bind, Except.bind]

/-- an assignment to a path whose (only) entry is marked constant is rejected -/
theorem C14_reject_constant (P : Params) (s : State) (nd : Node) (nm : Str) (e : ENode)
    (hk : nd.kind = .mod ∨ ∃ t, nd.kind = .typed t) (hn : nd.name = some nm)
    (he : e ∈ s.nodes) (hp : e.name = pathOf (push s.stack nd.indent nm)) (hc : e.constant = true)
    (huniq : ∀ e2 ∈ s.nodes, e2.name = e.name → e2 = e) :
    ∃ x, stepPlain P s nd = .error x := by
  have hu := updateFirst_constant (P := P) (nd := nd) s.nodes e he hp hc (fun e2 h2 h3 => huniq e2 h2 (by rw [h3, hp]))
  unfold stepPlain
  rcases hk with hk | ⟨t, hk⟩
  · simp only [hk, hn, bind, Except.bind]
    cases preCheck P nd with
    | error x => exact ⟨x, rfl⟩
    | ok u => simp only [hu]; exact ⟨.fail, rfl⟩
  · simp only [hk, hn, bind, Except.bind]
    cases preCheck P nd with
    | error x => exact ⟨x, rfl⟩
    | ok u =>
      simp only [hu]
      cases initValue P t nd.dims nd.raw with
      | error x => exact ⟨x, rfl⟩
      | ok v => exact ⟨.fail, rfl⟩

/-- `!constant` marks the most recently created parameter -/
theorem C14_constant_marks_last (ns : List ENode) (e : ENode) :
    setLastConstant (ns ++ [e]) = .ok (ns ++ [{ e with constant := true }]) := by
  induction ns with
  | nil => rfl
  | cons a t ih =>
    cases t with
    | nil => simp [setLastConstant, Except.map]
    | cons b t2 =>
      simp only [List.cons_append] at ih ⊢
      simp [setLastConstant, ih, Except.map]

/-- an untyped assignment to a path that was never defined is rejected -/
theorem C14_reject_undefined (P : Params) (s : State) (nd : Node) (nm : Str)
    (hk : nd.kind = .mod) (hn : nd.name = some nm)
    (hno : ∀ e ∈ s.nodes, e.name ≠ pathOf (push s.stack nd.indent nm)) :
    ∃ x, stepPlain P s nd = .error x := by
  unfold stepPlain
  simp only [hk, hn, bind, Except.bind, (updateFirst_none s.nodes).mpr hno]
  cases preCheck P nd with
  | error x => exact ⟨x, rfl⟩
  | ok u => exact ⟨.fail, rfl⟩

/-- a declaration creates an entry without value, and a program that ends with such an entry
    (declared, never assigned) is rejected -/
theorem C14_reject_unassigned (P : Params) (t : Ty) (dims : Option (List Dim)) (nds : List Node) (s : State)
    (e : ENode) (hr : runNodes P {} nds = .ok s) (he : e ∈ s.nodes) (hv : e.value = none) :
    initValue P t dims none = .ok none ∧ parseNodes P nds = .error .fail := by
  refine ⟨rfl, ?_⟩
  simp only [parseNodes, hr, bind, Except.bind, validate]
  have : s.nodes.any (fun e => e.value.isNone) = true :=
    List.any_eq_true.mpr ⟨e, he, by simp [hv]⟩
  simp [this]


/-! ### end to end: the model's run is the specification -/

/-- **The model's parse is the specification.**  For every sequence of lexed nodes (tables already
    expanded; value-bearing lines named, modifications with a value — what the lexer produces),
    `DIP.parse` of the model and the declarative specification on the corresponding abstract lines

      * parent = nearest earlier name-bearing line with smaller indentation, path = ancestors' names + own name;
      * one parameter per distinct path in order of first appearance;
      * type, width/sign, dimension, unit of the first occurrence; value of the last occurrence cast to
        that type and shape and converted from its own unit (or none) into the definition's unit;
      * failure for another type, a unit of another dimension or an unknown unit, a unit for a
        unit-less or non-numeric parameter, an assignment after `!constant`, an assignment to an undefined
        path, a declared path never assigned, a value that does not fit the type or shape

    either both succeed with the same list of parameters (paths, order, types, units, values,
    constant flags), or both fail.  Chains of any length, anywhere in a hierarchy. -/
theorem C14_parse_refines_spec (P : Params) (nds : List Node) (hwf : ∀ nd ∈ nds, NodeWF nd) :
    ResEq ((parseNodes P nds).map (List.map toS))
      (specRunG (castInterp P) P.conv P.unitKnown (nds.map toALine)) := by
  have hplain : ∀ nd ∈ nds, nd.kind ≠ .table := fun nd h => (hwf nd h).1
  have hinv : Inv ({} : State) [] := ⟨rfl, by simp [enames]⟩
  have hsim := foldSteps_sim P nds {} [] hwf hinv
  simp only [enames, List.map_nil] at hsim
  -- the model side: run, then validate
  have hmodel : (parseNodes P nds).map (List.map toS) =
      ((foldSteps P {} nds).map (fun s => s.nodes.map toS)).bind checkS := by
    simp only [parseNodes, runNodes_plain P nds {} hplain, bind, Except.bind]
    cases foldSteps P {} nds with
    | error e => rfl
    | ok s => exact validate_toS s.nodes
  rw [hmodel]
  simp only [specRunG, specOcc]
  by_cases hnone : (occurrences [] [] (nds.map toALine)).any (fun o => o.1.isNone) = true
  · -- a `!constant` with nothing to mark
    simp only [hnone, if_true]
    obtain ⟨o, ho, hoo⟩ := List.any_eq_true.mp hnone
    obtain ⟨e, he⟩ := foldO_none_fails (castInterp P) P.conv P.unitKnown _ [] ⟨o, ho, hoo⟩
    have : specFold P [] (occurrences [] [] (nds.map toALine)) = .error e := he
    rw [this] at hsim
    rcases hsim with ⟨x, _, h2⟩ | ⟨e1, e2, h1, _⟩
    · cases h2
    · rw [h1]; exact .inr ⟨e1, .fail, rfl, rfl⟩
  · simp only [hnone, Bool.false_eq_true, if_false]
    have hall : ∀ o ∈ occurrences [] [] (nds.map toALine), o.1.isSome = true := by
      intro o ho
      cases h : o.1 with
      | some p => rfl
      | none => exact absurd (List.any_eq_true.mpr ⟨o, ho, by simp [h]⟩) hnone
    have hper := foldO_eq_perPath (castInterp P) P.conv P.unitKnown _ [] (by simp [snames]) hall
    have hpaths : pathsFrom [] (occurrences [] [] (nds.map toALine)) = pathsOf (occurrences [] [] (nds.map toALine)) := by
      simp [pathsFrom, pathsOf, snames]
    have hnode : nodeFrom (castInterp P) P.conv P.unitKnown [] (occurrences [] [] (nds.map toALine)) =
        (fun p => specNode (castInterp P) P.conv P.unitKnown p (occurrences [] [] (nds.map toALine))) := by
      funext p
      simp only [nodeFrom, specNode, findS, List.find?_nil]
      cases occOf p (occurrences [] [] (nds.map toALine)) <;> rfl
    rw [hpaths, hnode] at hper
    have := (hsim.trans hper).bind checkS checkS (fun x => ResEq.refl _)
    simpa [checkS, bind, Except.bind] using this

/-- **With tables.**  A table line is replaced by the column nodes `TableNode.parse` returns before
    anything else happens (`expandAll`).  If every table expands, the model's parse of the program and
    the specification on the abstract lines of the EXPANDED program both succeed with the same
    parameters or both fail; if a table does not expand (bad header, wrong number of cells, no rows),
    the parse fails. -/
theorem C14_parse_refines_spec_tables (P : Params) (nds : List Node)
    (hwf : ∀ nd ∈ nds, nd.kind ≠ .table → NodeWF nd)
    (hcols : ∀ nd ∈ nds, nd.kind = .table → ∀ cols, P.expandTable nd = .ok cols → ∀ c ∈ cols, NodeWF c) :
    (∀ nds', expandAll P nds = .ok nds' →
      ResEq ((parseNodes P nds).map (List.map toS))
        (specRunG (castInterp P) P.conv P.unitKnown (nds'.map toALine))) ∧
    (∀ e, expandAll P nds = .error e → ∃ e', parseNodes P nds = .error e') := by
  constructor
  · intro nds' hex
    have hwf' := expandAll_wf P nds nds' hwf hcols hex
    have hplain : ∀ nd ∈ nds', nd.kind ≠ .table := fun nd h => (hwf' nd h).1
    have : parseNodes P nds = parseNodes P nds' := by
      simp only [parseNodes, runNodes_expandAll P nds nds' {} hex, runNodes_plain P nds' {} hplain]
    rw [this]
    exact C14_parse_refines_spec P nds' hwf'
  · intro e hex
    obtain ⟨e', he'⟩ := runNodes_expandAll_error P nds {} e hex
    exact ⟨e', by simp [parseNodes, he', bind, Except.bind]⟩

/-- for the driver's parameters the column hypothesis holds: whatever `TableNode.parse` returns are
    well-formed typed nodes, so programs with tables need no extra assumption -/
theorem C14_parse_refines_spec_tables_driver (tbl : List UnitRow) (nds nds' : List Node)
    (hwf : ∀ nd ∈ nds, nd.kind ≠ .table → NodeWF nd) (hex : expandAll (mkParams tbl) nds = .ok nds') :
    ResEq ((parseNodes (mkParams tbl) nds).map (List.map toS))
      (specRunG (castInterp (mkParams tbl)) (mkParams tbl).conv (mkParams tbl).unitKnown (nds'.map toALine)) :=
  (C14_parse_refines_spec_tables (mkParams tbl) nds hwf
    (fun nd _ _ cols hc => expandTable_cols_wf tbl nd cols hc)).1 nds' hex

example : NodeWF { kind := .mod, name := some ['a'], raw := some (.text ['0']) } :=
  ⟨by decide, fun _ => ⟨rfl, rfl⟩, fun t h => by cases h⟩

/-- The same from text: whatever the lexer makes of the queued lines is well-formed, so for every
    program without table lines `parse` on the lines and the specification on their abstract
    lines agree (both succeed with the same parameters, or both fail). -/
theorem C14_text_refines_spec (P : Params) (lines : List Str) (nds : List Node)
    (hlex : lines.mapM determine = .ok nds) (hnt : ∀ nd ∈ nds, nd.kind ≠ .table) :
    ResEq ((parseLines P lines).map (List.map toS))
      (specRunG (castInterp P) P.conv P.unitKnown (nds.map toALine)) := by
  have hwf : ∀ nd ∈ nds, NodeWF nd := by
    intro nd hnd
    obtain ⟨l, _, hl⟩ := mapM_ok_mem determine lines nds hlex nd hnd
    have := determine_wf l nd hl
    exact ⟨hnt nd hnd, this.1, this.2⟩
  have : parseLines P lines = parseNodes P nds := by simp [parseLines, hlex, bind, Except.bind]
  rw [this]
  exact C14_parse_refines_spec P nds hwf

end SciVerif.C14
