import SciVerif.Lemmas.C16
import SciVerif.Lemmas.C16b
import SciVerif.Lemmas.C16c

/-!
# C16 — parse() returns only environments that satisfy every declared constraint

Theorems about the model of the validation loop at the end of `DIP.parse`, for all node lists,
with unit conversion, tolerant equality, the value of the `!condition` expression (logical solver,
property C18) and `re.match` as parameters.
-/
namespace SciVerif.C16

variable {F : Type}

/-- One node: the loop body lets the node pass exactly when the node satisfies its constraints. -/
theorem C16_node (P : Prim F) (n : Node F) (hs : n.Sane P) :
    validateNode P n = true ↔ holds P n := by
  obtain ⟨hsel, hstr, hreg⟩ := hs
  obtain ⟨regs, hregs⟩ := mapM_isSome (register P n) n.options hreg
  unfold validateNode holds
  rw [hregs]
  simp only
  cases hd : dimsOK n.dims n.shape with
  | false => simp
  | true =>
    simp only [Bool.not_true, Bool.false_eq_true, if_false, true_and]
    cases hv : n.value with
    | none =>
      have hre : regs = [] ↔ n.options = [] := (mapM_some_any (register P n) (fun _ => true) _ _ hregs).2
      cases hdecl : n.declared <;> cases hc : n.condition <;> cases hf : n.format <;>
        simp [hre, List.isEmpty_iff]
    | some v =>
      have hany := fun p => (mapM_some_any (register P n) p _ _ hregs)
      have hopt : validateOptions P regs v = true ↔ (n.options = [] ∨ ∃ o ∈ n.options, optHolds P n v o) := by
        unfold validateOptions
        cases hr : regs with
        | nil => have := ((hany (fun _ => true)).2).mp hr; simp [this]
        | cons r rs =>
          have hne : n.options ≠ [] := fun e => by
            have := ((hany (fun _ => true)).2).mpr e; simp [hr] at this
          have h2 := (hany (fun o => optEq P o v)).1
          rw [hr] at h2
          show ((r :: rs).any fun o => optEq P o v) = true ↔ _
          rw [h2]
          constructor
          · rintro ⟨o, ho, r', hr', hp⟩
            exact Or.inr ⟨o, ho, (optEq_register P n v o r' hr').mp hp⟩
          · rintro (e | ⟨o, ho, hp⟩)
            · exact absurd e hne
            · have hso := hreg o ho
              obtain ⟨r', hr'⟩ := Option.isSome_iff_exists.mp hso
              exact ⟨o, ho, r', hr', (optEq_register P n v o r' hr').mpr hp⟩
      have hsel' : (n.selectable && !validateOptions P regs v) = false ↔
          (n.options = [] ∨ ∃ o ∈ n.options, optHolds P n v o) := by
        cases hsb : n.selectable with
        | false => simp [hsel hsb]
        | true => simp [← hopt]
      have hfmt : (if n.isStr = true then (match n.format with | none => true | some m => m) else true) = true ↔
          (n.format = none ∨ n.format = some true) := by
        cases hib : n.isStr with
        | false => simp [hstr hib]
        | true => cases n.format with
          | none => simp
          | some m => cases m <;> simp
      have hcond : (match n.condition with | none => true | some none => false | some (some b) => b) = true ↔
          (n.condition = none ∨ n.condition = some (some true)) := by
        cases n.condition with
        | none => simp
        | some c => cases c with
          | none => simp
          | some b => cases b <;> simp
      constructor
      · intro h
        by_cases hx : (n.selectable && !validateOptions P regs v) = true
        · simp [hx] at h
        · simp only [hx, Bool.false_eq_true, if_false, Bool.and_eq_true] at h
          exact ⟨hsel'.mp (by simpa using hx), hcond.mp h.1, hfmt.mp h.2⟩
      · rintro ⟨h1, h2, h3⟩
        have hx : (n.selectable && !validateOptions P regs v) = false := hsel'.mpr h1
        simp only [hx, Bool.false_eq_true, if_false, Bool.and_eq_true]
        exact ⟨hcond.mpr h2, hfmt.mpr h3⟩

/-- **Soundness**: if the validation loop lets an environment pass, every node in it satisfies
    all constraints attached to it. -/
theorem C16_sound (P : Prim F) (env : List (Node F)) (hs : ∀ n ∈ env, n.Sane P)
    (h : validate P env = true) : ∀ n ∈ env, holds P n := by
  induction env with
  | nil => intro n hn; cases hn
  | cons a l ih =>
    simp only [validate, Bool.and_eq_true] at h
    intro n hn
    rcases List.mem_cons.mp hn with rfl | hn
    · exact (C16_node P n (hs n (by simp))).mp h.1
    · exact ih (fun m hm => hs m (by simp [hm])) h.2 n hn

/-- **Completeness**: an environment all of whose nodes satisfy their constraints is accepted. -/
theorem C16_complete (P : Prim F) (env : List (Node F)) (hs : ∀ n ∈ env, n.Sane P)
    (h : ∀ n ∈ env, holds P n) : validate P env = true := by
  induction env with
  | nil => rfl
  | cons a l ih =>
    simp only [validate, Bool.and_eq_true]
    exact ⟨(C16_node P a (hs a (by simp))).mpr (h a (by simp)),
      ih (fun m hm => hs m (by simp [hm])) (fun m hm => h m (by simp [hm]))⟩

/-- The dimension test of `cast_value`: a node without declared dimensions takes exactly the
    scalar values; a node with declared dimensions exactly the values that have every declared axis
    with its extent inside the bounds (an open bound is no bound). -/
theorem C16_dims (dims : List (Option Nat × Option Nat)) (shape : List Nat) :
    dimsOK dims shape = true ↔ (dims = [] ∧ shape = []) ∨ (dims ≠ [] ∧ dimsWithin dims shape) := by
  unfold dimsOK
  cases dims with
  | nil => simp
  | cons d ds => simp [castDims_iff]

/-- Options are compared after conversion to the node's unit: an option written in another unit of
    the same dimension is met exactly when the converted value is tolerantly equal. -/
theorem C16_option_units (P : Prim F) (n : Node F) (o x w : F) (u ux : Option String)
    (hc : P.conv u n.unit o = some w) :
    (∃ r, register P n (.num o u) = some r ∧ optEq P r (.num x ux) = true) ↔ P.isclose w x = true := by
  simp only [register, hc, Option.map_some, Option.some.injEq]
  constructor
  · rintro ⟨r, rfl, h⟩; exact h
  · intro h; exact ⟨_, rfl, h⟩

/-! Non-vacuity: a sane node with options in another unit, a condition and no format. -/
def exP : Prim Int := ⟨fun s d v => if s = d then some v else if s = some "m" ∧ d = some "cm" then some (100 * v) else none,
  fun a b => a == b⟩
def exN : Node Int := ⟨false, some (.num 200 (some "cm")), some "cm", true, [.num 3 (some "cm"), .num 2 (some "m")],
  some (some true), false, none, [], []⟩
example : exN.Sane exP := by
  refine ⟨by simp [exN], by simp [exN], ?_⟩
  intro o ho
  simp [exN] at ho
  rcases ho with rfl | rfl <;> simp [register, exP, exN]
example : validate exP [exN] = true := by decide
example : dimsWithin [(some 1, none), (none, some 3)] [2, 3] := (castDims_iff _ _).mp (by decide)

/-! ## The primitives made concrete: tolerant equality and linear conversion over an ordered field

`fieldPrim tbl atol rtol` instantiates the two numeric primitives with the formulas of the code
(`np.isclose`: `|a − b| ≤ atol + rtol·|b|`; `NumberType.convert`: `v · k_src / k_dst` inside one
dimension), over ANY ordered field.  The theorems below then speak about final values on, near
and off the boundary of an option, for every magnitude and every pair of units. -/

section Concrete
variable {K : Type} [Field K] [LinearOrder K] [IsStrictOrderedRing K]

/-- **The acceptance band of an option.**  A numeric option `o` written in unit `s`, on a node
    whose unit `d` has the same dimension, is met by the final value `x` exactly when the converted
    option `o · k_s / k_d` lies in the closed band `x ± (atol + rtol·|x|)` — nothing else enters. -/
theorem C16_option_band (tbl : String → Option (LinUnitK K)) (atol rtol : K) (n : Node K)
    (s d : String) (xs yd : LinUnitK K) (o x : K) (un : Option String)
    (hn : n.unit = some d) (hsd : s ≠ d) (hx : tbl s = some xs) (hy : tbl d = some yd)
    (hd : xs.dims = yd.dims) :
    optHolds (fieldPrim tbl atol rtol) n (.num x un) (.num o (some s)) ↔
      x - (atol + rtol * |x|) ≤ o * xs.k / yd.k ∧ o * xs.k / yd.k ≤ x + (atol + rtol * |x|) := by
  have hc : convK tbl (some s) (some d) o = some (o * xs.k / yd.k) := by
    exact convK_lin tbl s d xs yd o hsd hx hy hd
  simp only [optHolds, fieldPrim_conv, fieldPrim_isclose, hn, hc, Option.some.injEq, Val.num.injEq]
  constructor
  · rintro ⟨w, rfl, x', un', ⟨rfl, rfl⟩, h⟩
    exact (iscloseK_iff _ _ _ _).mp h
  · intro h
    exact ⟨_, rfl, x, un, ⟨rfl, rfl⟩, (iscloseK_iff _ _ _ _).mpr h⟩

/-- **Accept direction on the boundary**: a final value that denotes the same physical quantity
    as one of the listed options (`x · k_d = o · k_s`, the option written in any unit of the node's
    dimension) passes the validation loop, whatever the other options are — for every magnitude and
    every non-negative tolerance pair. -/
theorem C16_accept_same_quantity (tbl : String → Option (LinUnitK K)) (atol rtol : K)
    (ha : 0 ≤ atol) (hr : 0 ≤ rtol) (n : Node K) (hs : n.Sane (fieldPrim tbl atol rtol))
    (s d : String) (xs yd : LinUnitK K) (o x : K) (un : Option String)
    (hn : n.unit = some d) (hx : tbl s = some xs) (hy : tbl d = some yd) (hd : xs.dims = yd.dims)
    (hk : yd.k ≠ 0) (hq : x * yd.k = o * xs.k)
    (hv : n.value = some (.num x un)) (hmem : Opt.num o (some s) ∈ n.options)
    (hdim : dimsOK n.dims n.shape = true)
    (hcond : n.condition = none ∨ n.condition = some (some true))
    (hfmt : n.format = none ∨ n.format = some true) :
    validateNode (fieldPrim tbl atol rtol) n = true := by
  rw [C16_node _ n hs]
  refine ⟨hdim, ?_⟩
  rw [hv]
  refine ⟨Or.inr ⟨_, hmem, ?_⟩, hcond, hfmt⟩
  have hw : o * xs.k / yd.k = x := by
    rw [← hq]; field_simp
  have hc : convK tbl (some s) (some d) o = some x := by
    by_cases hsd : s = d
    · subst hsd
      rw [hx] at hy; cases hy
      have : o = x := by
        have := hq; rw [mul_comm x, mul_comm o] at this
        exact (mul_left_cancel₀ hk this).symm
      rw [this]; exact convK_same tbl s x
    · rw [convK_lin tbl s d xs yd o hsd hx hy hd, hw]
  simp only [optHolds, fieldPrim_conv, fieldPrim_isclose, hn, hc, Option.some.injEq, Val.num.injEq]
  exact ⟨x, rfl, x, un, ⟨rfl, rfl⟩, iscloseK_refl atol rtol x ha hr⟩

/-- **Reject direction off the boundary**: on a selectable node whose options are all numeric and
    all convertible, a final value that is outside the band of EVERY converted option makes the
    validation loop fail (so `parse` raises), whatever condition and format say. -/
theorem C16_reject_off_band (tbl : String → Option (LinUnitK K)) (atol rtol : K) (n : Node K)
    (hs : n.Sane (fieldPrim tbl atol rtol)) (x : K) (un : Option String)
    (hv : n.value = some (.num x un)) (hne : n.options ≠ [])
    (hoff : ∀ o u, Opt.num o u ∈ n.options → ∀ w, convK tbl u n.unit o = some w →
      atol + rtol * |x| < |w - x|)
    (hnum : ∀ o ∈ n.options, ∃ v u, o = Opt.num v u) :
    validateNode (fieldPrim tbl atol rtol) n = false := by
  cases hval : validateNode (fieldPrim tbl atol rtol) n with
  | false => rfl
  | true =>
    exfalso
    have hh := (C16_node _ n hs).mp hval
    obtain ⟨_, hh⟩ := hh
    rw [hv] at hh
    rcases hh.1 with he | ⟨o, ho, hhold⟩
    · exact hne he
    · obtain ⟨v, u, rfl⟩ := hnum o ho
      simp only [optHolds, fieldPrim_conv, fieldPrim_isclose] at hhold
      obtain ⟨w, hw, x', un', hx', hclose⟩ := hhold
      cases hx'
      have := iscloseK_far atol rtol w x (hoff v u ho w hw)
      rw [this] at hclose
      cases hclose

/-- An option written in a unit of another dimension cannot be registered: the node is never
    accepted (`set_option` raises while parsing). -/
theorem C16_option_other_dimension (tbl : String → Option (LinUnitK K)) (atol rtol : K) (n : Node K)
    (s d : String) (xs yd : LinUnitK K) (o : K)
    (hn : n.unit = some d) (hx : tbl s = some xs) (hy : tbl d = some yd) (hd : xs.dims ≠ yd.dims)
    (hmem : Opt.num o (some s) ∈ n.options) :
    validateNode (fieldPrim tbl atol rtol) n = false := by
  have hreg : register (fieldPrim tbl atol rtol) n (.num o (some s)) = none := by
    simp [register, fieldPrim_conv, hn, convK_other_dim tbl s d xs yd o hx hy hd]
  have : n.options.mapM (register (fieldPrim tbl atol rtol) n) = none := by
    cases hm : n.options.mapM (register (fieldPrim tbl atol rtol) n) with
    | none => rfl
    | some regs =>
      exfalso
      have := mapM_isSome_mem (register (fieldPrim tbl atol rtol) n) n.options regs hm _ hmem
      simp [hreg] at this
  simp [validateNode, this]

/-! Non-vacuity over `Rat`: options `3 cm`, `2 m` on a node in `cm` with final value `200 cm`. -/
def exTbl : String → Option (LinUnitK Rat) := fun s =>
  if s = "cm" then some ⟨1/100, [1]⟩ else if s = "m" then some ⟨1, [1]⟩
  else if s = "s" then some ⟨1, [0, 0, 1]⟩ else none
def exNK : Node Rat := ⟨false, some (.num 200 (some "cm")), some "cm", true,
  [.num 3 (some "cm"), .num 2 (some "m")], some (some true), false, none, [], []⟩
example : validateNode (fieldPrim exTbl (1/100000000) (1/1000000)) exNK = true := by
  refine C16_accept_same_quantity exTbl _ _ (by norm_num) (by norm_num) exNK ?_ "m" "cm"
    ⟨1, [1]⟩ ⟨1/100, [1]⟩ 2 200 (some "cm") rfl (by simp [exTbl]) (by simp [exTbl]) rfl
    (by norm_num) (by norm_num) rfl (by simp [exNK]) (by simp [exNK, dimsOK]) (Or.inr rfl) (Or.inl rfl)
  refine ⟨by simp [exNK], by simp [exNK], ?_⟩
  intro o ho
  simp [exNK] at ho
  rcases ho with rfl | rfl <;> simp [register, fieldPrim_conv, convK, convA, fieldArith, exTbl, exNK]

end Concrete

/-! ## The `!condition` `{?} <op> literal [unit]` as a function of the final value

`withNumCond P lt n c x ux` is the node `n` with final value `x ux` and with `Node.condition`
COMPUTED by the model (`condNum`: the literal converted to the value's unit by `NumberType.convert`,
then the comparison of `type_number.py`), no longer supplied from outside.  What is still a
parameter: `re.match`, and conditions of any other shape (several comparisons, references to other
nodes, string/boolean nodes) — these remain the `Option (Option Bool)` computed by the C18 model. -/

/-- **Validation with a computed condition** (any primitives): a numeric node with the simple
    condition `c` passes the loop exactly when dimensions, options and format hold AND the
    condition function yields `true` on the final value. -/
theorem C16_cond_node (P : Prim F) (lt : F → F → Bool) (n : Node F) (hs : n.Sane P)
    (c : SimpleCond F) (x : F) (ux : Option String) :
    validateNode P (withNumCond P lt n c x ux) = true ↔
      dimsOK n.dims n.shape = true ∧
      (n.options = [] ∨ ∃ o ∈ n.options, optHolds P n (.num x ux) o) ∧
      condNum P lt c x ux = some true ∧ (n.format = none ∨ n.format = some true) := by
  have hs' : (withNumCond P lt n c x ux).Sane P := hs
  rw [C16_node P _ hs']
  simp only [holds, withNumCond, Option.some.injEq, reduceCtorEq, false_or]
  constructor
  · rintro ⟨h1, h2, h3, h4⟩; exact ⟨h1, h2, h3, h4⟩
  · rintro ⟨h1, h2, h3, h4⟩; exact ⟨h1, h2, h3, h4⟩

section ConcreteCond
variable {K : Type} [Field K] [LinearOrder K] [IsStrictOrderedRing K]

/-- **What is compared**: with the literal written in unit `s` and the value in another unit `d`
    of the same dimension, the condition compares `x` with `b · k_s / k_d`. -/
theorem C16_cond_convert (tbl : String → Option (LinUnitK K)) (atol rtol : K) (op : CmpOp)
    (s d : String) (xs yd : LinUnitK K) (b x : K) (hsd : s ≠ d) (hx : tbl s = some xs)
    (hy : tbl d = some yd) (hd : xs.dims = yd.dims) :
    condK tbl atol rtol ⟨op, b, some s⟩ x (some d) = some (cmpK atol rtol op x (b * xs.k / yd.k)) :=
  condK_of_conv tbl atol rtol ⟨op, b, some s⟩ x _ (some d) (convK_lin tbl s d xs yd b hsd hx hy hd)

/-- without a unit on one side, or with the same unit on both, the literal is compared as written -/
theorem C16_cond_no_convert (tbl : String → Option (LinUnitK K)) (atol rtol : K) (op : CmpOp)
    (u ux : Option String) (b x : K) (h : u = none ∨ ux = none ∨ u = ux) :
    condK tbl atol rtol ⟨op, b, u⟩ x ux = some (cmpK atol rtol op x b) := by
  apply condK_of_conv
  show convK tbl u ux b = some b
  rcases h with rfl | rfl | rfl
  · cases ux <;> simp [convK, convA]
  · cases u <;> simp [convK, convA]
  · cases u <;> simp [convK, convA]

/-- **Boundary theorem.**  For non-negative tolerances the condition `{?} <op> b s` holds on the
    final value `x` (unit `d`) exactly when `x` lies in the set written with plain order relations
    around `y = b · k_s / k_d`: `<`/`>` are strict and exact, `<=` is `x ≤ y + (atol + rtol·|y|)`,
    `>=` is `y − (atol + rtol·|y|) ≤ x`, `==` the closed band, `!=` its complement. -/
theorem C16_cond_boundary (tbl : String → Option (LinUnitK K)) (atol rtol : K) (ha : 0 ≤ atol)
    (hr : 0 ≤ rtol) (c : SimpleCond K) (x y : K) (ux : Option String)
    (hc : convK tbl c.unit ux c.lit = some y) :
    condK tbl atol rtol c x ux = some true ↔ condAccepts atol rtol c.op x y := by
  rw [condK_of_conv tbl atol rtol c x y ux hc, Option.some.injEq]
  exact cmpK_accepts atol rtol ha hr c.op x y

/-- `{?} <= b s` on a node in unit `d`: accepted iff `x < y` or `x` is tolerantly equal to `y`,
    `y = b · k_s / k_d` — for ANY tolerances (also negative ones). -/
theorem C16_cond_le (tbl : String → Option (LinUnitK K)) (atol rtol : K)
    (s d : String) (xs yd : LinUnitK K) (b x : K) (hsd : s ≠ d) (hx : tbl s = some xs)
    (hy : tbl d = some yd) (hd : xs.dims = yd.dims) :
    condK tbl atol rtol ⟨.le, b, some s⟩ x (some d) = some true ↔
      x < b * xs.k / yd.k ∨ iscloseK atol rtol x (b * xs.k / yd.k) = true := by
  rw [C16_cond_convert tbl atol rtol .le s d xs yd b x hsd hx hy hd, Option.some.injEq]
  simp [cmpK, cmpWith, ltK_iff]

/-- the comparison can be read on either side of the conversion: for positive unit factors,
    `x < b · k_s / k_d` (literal brought to the node's unit, what the code does) is the same as
    `x · k_d / k_s < b` (value brought to the literal's unit). -/
theorem C16_cond_lt_either_side (ks kd b x : K) (hs : 0 < ks) (hd : 0 < kd) :
    x < b * ks / kd ↔ x * kd / ks < b := by
  rw [lt_div_iff₀ hd, div_lt_iff₀ hs]

/-- **Strict comparisons reject the boundary exactly**: `{?} < b s`, `{?} > b s` and `{?} != b s`
    fail on the final value that equals the converted literal, for every magnitude, unit pair and
    non-negative tolerance pair, so the validation loop raises whatever the other constraints say. -/
theorem C16_cond_strict_rejects_boundary (tbl : String → Option (LinUnitK K)) (atol rtol : K)
    (ha : 0 ≤ atol) (hr : 0 ≤ rtol) (n : Node K) (c : SimpleCond K) (x : K) (ux : Option String)
    (hop : c.op = .lt ∨ c.op = .gt ∨ c.op = .ne)
    (hc : convK tbl c.unit ux c.lit = some x) :
    condK tbl atol rtol c x ux = some false ∧
    validateNode (fieldPrim tbl atol rtol) (withNumCond (fieldPrim tbl atol rtol) ltK n c x ux) = false := by
  have hval : condK tbl atol rtol c x ux = some false := by
    rw [condK_of_conv tbl atol rtol c x x ux hc, Option.some.injEq]
    cases hb : cmpK atol rtol c.op x x with
    | false => rfl
    | true =>
      exfalso
      have h := (cmpK_accepts atol rtol ha hr c.op x x).mp hb
      have ht := tolK_nonneg atol rtol x ha hr
      rcases hop with e | e | e <;> rw [e] at h <;> simp only [condAccepts] at h
      · exact lt_irrefl _ h
      · exact lt_irrefl _ h
      · rcases h with h | h <;> linarith
  refine ⟨hval, ?_⟩
  have hcn : condNum (fieldPrim tbl atol rtol) ltK c x ux = some false := hval
  unfold validateNode
  simp only [withNumCond, hcn]
  cases n.options.mapM (register (fieldPrim tbl atol rtol) _) with
  | none => rfl
  | some regs =>
    simp only
    split
    · rfl
    · split
      · rfl
      · simp

/-- **Tolerant comparisons accept the boundary**: `<=`, `>=`, `==` hold on the final value that
    equals the converted literal. -/
theorem C16_cond_tolerant_accepts_boundary (tbl : String → Option (LinUnitK K)) (atol rtol : K)
    (ha : 0 ≤ atol) (hr : 0 ≤ rtol) (c : SimpleCond K) (x : K) (ux : Option String)
    (hop : c.op = .le ∨ c.op = .ge ∨ c.op = .eq)
    (hc : convK tbl c.unit ux c.lit = some x) :
    condK tbl atol rtol c x ux = some true := by
  rw [C16_cond_boundary tbl atol rtol ha hr c x x ux hc]
  have ht := tolK_nonneg atol rtol x ha hr
  rcases hop with e | e | e <;> rw [e] <;> simp only [condAccepts]
  · linarith
  · linarith
  · constructor <;> linarith

/-- **Monotonicity**: acceptance by `<` / `<=` is downward closed in the final value, acceptance
    by `>` / `>=` upward closed (any tolerances, any literal unit). -/
theorem C16_cond_monotone (tbl : String → Option (LinUnitK K)) (atol rtol : K)
    (c : SimpleCond K) (x x' : K) (ux : Option String)
    (h : condK tbl atol rtol c x ux = some true) :
    ((c.op = .lt ∨ c.op = .le) → x' ≤ x → condK tbl atol rtol c x' ux = some true) ∧
    ((c.op = .gt ∨ c.op = .ge) → x ≤ x' → condK tbl atol rtol c x' ux = some true) := by
  cases hcv : convK tbl c.unit ux c.lit with
  | none => rw [condK_of_conv_none tbl atol rtol c x ux hcv] at h; cases h
  | some y =>
    rw [condK_of_conv tbl atol rtol c x y ux hcv, Option.some.injEq] at h
    simp only [condK_of_conv tbl atol rtol c x' y ux hcv, Option.some.injEq]
    constructor
    · rintro (e | e) hle <;> rw [e] at h ⊢
      · rw [cmpK_lt] at h ⊢; exact lt_of_le_of_lt hle h
      · simp only [cmpK, cmpWith, Bool.or_eq_true, ltK_iff, iscloseK_iff_tol] at h ⊢
        rcases h with h | ⟨h1, h2⟩
        · exact Or.inl (lt_of_le_of_lt hle h)
        · by_cases hxy : x' < y
          · exact Or.inl hxy
          · exact Or.inr ⟨by have := not_lt.mp hxy; linarith, le_trans hle h2⟩
    · rintro (e | e) hle <;> rw [e] at h ⊢
      · rw [cmpK_gt] at h ⊢; exact lt_of_lt_of_le h hle
      · simp only [cmpK, cmpWith, Bool.or_eq_true, ltK_iff, iscloseK_iff_tol] at h ⊢
        rcases h with h | ⟨h1, h2⟩
        · exact Or.inl (lt_of_lt_of_le h hle)
        · by_cases hxy : y < x'
          · exact Or.inl hxy
          · exact Or.inr ⟨le_trans h1 hle, by have := not_lt.mp hxy; linarith⟩

/-- a literal in a unit of another dimension: the solver raises, the node is never accepted -/
theorem C16_cond_other_dimension (tbl : String → Option (LinUnitK K)) (atol rtol : K) (n : Node K)
    (op : CmpOp) (s d : String) (xs yd : LinUnitK K) (b x : K)
    (hx : tbl s = some xs) (hy : tbl d = some yd) (hd : xs.dims ≠ yd.dims) :
    validateNode (fieldPrim tbl atol rtol)
      (withNumCond (fieldPrim tbl atol rtol) ltK n ⟨op, b, some s⟩ x (some d)) = false := by
  have hcn : condNum (fieldPrim tbl atol rtol) ltK ⟨op, b, some s⟩ x (some d) = none :=
    condK_of_conv_none tbl atol rtol ⟨op, b, some s⟩ x (some d) (convK_other_dim tbl s d xs yd b hx hy hd)
  unfold validateNode
  simp only [withNumCond, hcn]
  cases n.options.mapM (register (fieldPrim tbl atol rtol) _) with
  | none => rfl
  | some regs =>
    simp only
    split
    · rfl
    · split
      · rfl
      · simp

/-- **Whole node, `{?} <= b s`**: a sane float node in `d` without options and format and with
    fitting dimensions is accepted by the validation loop exactly for the final values
    `x ≤ y + (atol + rtol·|y|)`, `y = b · k_s / k_d`. -/
theorem C16_cond_le_node (tbl : String → Option (LinUnitK K)) (atol rtol : K) (ha : 0 ≤ atol)
    (hr : 0 ≤ rtol) (n : Node K) (hs : n.Sane (fieldPrim tbl atol rtol))
    (s d : String) (xs yd : LinUnitK K) (b x : K) (hsd : s ≠ d) (hx : tbl s = some xs)
    (hy : tbl d = some yd) (hd : xs.dims = yd.dims)
    (hopt : n.options = []) (hfmt : n.format = none) (hdim : dimsOK n.dims n.shape = true) :
    validateNode (fieldPrim tbl atol rtol)
      (withNumCond (fieldPrim tbl atol rtol) ltK n ⟨.le, b, some s⟩ x (some d)) = true ↔
      x ≤ b * xs.k / yd.k + (atol + rtol * |b * xs.k / yd.k|) := by
  rw [C16_cond_node _ ltK n hs]
  have hb := C16_cond_boundary tbl atol rtol ha hr ⟨.le, b, some s⟩ x _ (some d)
    (convK_lin tbl s d xs yd b hsd hx hy hd)
  simp only [condK, condAccepts, tolK] at hb
  simp only [hdim, hopt, hfmt, true_and, true_or, and_true, hb]

/-! Non-vacuity over `Rat` (table `exTbl`): a node in `cm` with `!condition ("{?} <= 2 m")` accepts
    the final value `200 cm` (the boundary), with `{?} < 2 m` it rejects it, and `{?} <= 2 s` raises. -/
def exNC : Node Rat := ⟨false, none, some "cm", true, [], none, false, none, [], []⟩
example : exNC.Sane (fieldPrim exTbl (1/100000000) (1/1000000)) := by
  refine ⟨by simp [exNC], by simp [exNC], ?_⟩
  intro o ho; simp [exNC] at ho
example : condK exTbl (1/100000000) (1/1000000) ⟨.le, 2, some "m"⟩ 200 (some "cm") = some true := by
  refine C16_cond_tolerant_accepts_boundary exTbl _ _ (by norm_num) (by norm_num) _ _ _ (Or.inl rfl) ?_
  show convK exTbl (some "m") (some "cm") 2 = some 200
  rw [convK_lin exTbl "m" "cm" ⟨1, [1]⟩ ⟨1/100, [1]⟩ 2 (by decide) (by simp [exTbl]) (by simp [exTbl]) rfl]
  norm_num
example : validateNode (fieldPrim exTbl (1/100000000) (1/1000000))
    (withNumCond (fieldPrim exTbl (1/100000000) (1/1000000)) ltK exNC ⟨.lt, 2, some "m"⟩ 200 (some "cm")) = false := by
  refine (C16_cond_strict_rejects_boundary exTbl _ _ (by norm_num) (by norm_num) exNC _ _ _ (Or.inl rfl) ?_).2
  show convK exTbl (some "m") (some "cm") 2 = some 200
  rw [convK_lin exTbl "m" "cm" ⟨1, [1]⟩ ⟨1/100, [1]⟩ 2 (by decide) (by simp [exTbl]) (by simp [exTbl]) rfl]
  norm_num
example : validateNode (fieldPrim exTbl (1/100000000) (1/1000000))
    (withNumCond (fieldPrim exTbl (1/100000000) (1/1000000)) ltK exNC ⟨.le, 2, some "s"⟩ 200 (some "cm")) = false :=
  C16_cond_other_dimension exTbl _ _ exNC .le "s" "cm" ⟨1, [0, 0, 1]⟩ ⟨1/100, [1]⟩ 2 200
    (by simp [exTbl]) (by simp [exTbl]) (by decide)

end ConcreteCond

end SciVerif.C16
