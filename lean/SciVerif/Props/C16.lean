import SciVerif.Lemmas.C16
import SciVerif.Lemmas.C16b

/-!
# C16 — parse() returns only environments that satisfy every declared constraint

Theorems about the model of the validation loop at the end of `DIP.parse`, for all node lists,
with unit conversion, tolerant equality, the value of the `!condition` expression (logical solver,
property C18) and `re.match` as parameters.
-/
namespace SciVerif.C16

variable {F : Type}

/-- One node: the loop body lets the node pass exactly when the node satisfies its constraints. -/
theorem C16_node (P : Prim F) (n : Node F) (hs : n.Sane P) :
    validateNode P n = true ↔ holds P n := by
  obtain ⟨hsel, hstr, hreg⟩ := hs
  obtain ⟨regs, hregs⟩ := mapM_isSome (register P n) n.options hreg
  unfold validateNode holds
  rw [hregs]
  simp only
  cases hd : dimsOK n.dims n.shape with
  | false => simp
  | true =>
    simp only [Bool.not_true, Bool.false_eq_true, if_false, true_and]
    cases hv : n.value with
    | none =>
      have hre : regs = [] ↔ n.options = [] := (mapM_some_any (register P n) (fun _ => true) _ _ hregs).2
      cases hdecl : n.declared <;> cases hc : n.condition <;> cases hf : n.format <;>
        simp [hre, List.isEmpty_iff]
    | some v =>
      have hany := fun p => (mapM_some_any (register P n) p _ _ hregs)
      have hopt : validateOptions P regs v = true ↔ (n.options = [] ∨ ∃ o ∈ n.options, optHolds P n v o) := by
        unfold validateOptions
        cases hr : regs with
        | nil => have := ((hany (fun _ => true)).2).mp hr; simp [this]
        | cons r rs =>
          have hne : n.options ≠ [] := fun e => by
            have := ((hany (fun _ => true)).2).mpr e; simp [hr] at this
          have h2 := (hany (fun o => optEq P o v)).1
          rw [hr] at h2
          show ((r :: rs).any fun o => optEq P o v) = true ↔ _
          rw [h2]
          constructor
          · rintro ⟨o, ho, r', hr', hp⟩
            exact Or.inr ⟨o, ho, (optEq_register P n v o r' hr').mp hp⟩
          · rintro (e | ⟨o, ho, hp⟩)
            · exact absurd e hne
            · have hso := hreg o ho
              obtain ⟨r', hr'⟩ := Option.isSome_iff_exists.mp hso
              exact ⟨o, ho, r', hr', (optEq_register P n v o r' hr').mpr hp⟩
      have hsel' : (n.selectable && !validateOptions P regs v) = false ↔
          (n.options = [] ∨ ∃ o ∈ n.options, optHolds P n v o) := by
        cases hsb : n.selectable with
        | false => simp [hsel hsb]
        | true => simp [← hopt]
      have hfmt : (if n.isStr = true then (match n.format with | none => true | some m => m) else true) = true ↔
          (n.format = none ∨ n.format = some true) := by
        cases hib : n.isStr with
        | false => simp [hstr hib]
        | true => cases n.format with
          | none => simp
          | some m => cases m <;> simp
      have hcond : (match n.condition with | none => true | some none => false | some (some b) => b) = true ↔
          (n.condition = none ∨ n.condition = some (some true)) := by
        cases n.condition with
        | none => simp
        | some c => cases c with
          | none => simp
          | some b => cases b <;> simp
      constructor
      · intro h
        by_cases hx : (n.selectable && !validateOptions P regs v) = true
        · simp [hx] at h
        · simp only [hx, Bool.false_eq_true, if_false, Bool.and_eq_true] at h
          exact ⟨hsel'.mp (by simpa using hx), hcond.mp h.1, hfmt.mp h.2⟩
      · rintro ⟨h1, h2, h3⟩
        have hx : (n.selectable && !validateOptions P regs v) = false := hsel'.mpr h1
        simp only [hx, Bool.false_eq_true, if_false, Bool.and_eq_true]
        exact ⟨hcond.mpr h2, hfmt.mpr h3⟩

/-- **Soundness**: if the validation loop lets an environment pass, every node in it satisfies
    all constraints attached to it. -/
theorem C16_sound (P : Prim F) (env : List (Node F)) (hs : ∀ n ∈ env, n.Sane P)
    (h : validate P env = true) : ∀ n ∈ env, holds P n := by
  induction env with
  | nil => intro n hn; cases hn
  | cons a l ih =>
    simp only [validate, Bool.and_eq_true] at h
    intro n hn
    rcases List.mem_cons.mp hn with rfl | hn
    · exact (C16_node P n (hs n (by simp))).mp h.1
    · exact ih (fun m hm => hs m (by simp [hm])) h.2 n hn

/-- **Completeness**: an environment all of whose nodes satisfy their constraints is accepted. -/
theorem C16_complete (P : Prim F) (env : List (Node F)) (hs : ∀ n ∈ env, n.Sane P)
    (h : ∀ n ∈ env, holds P n) : validate P env = true := by
  induction env with
  | nil => rfl
  | cons a l ih =>
    simp only [validate, Bool.and_eq_true]
    exact ⟨(C16_node P a (hs a (by simp))).mpr (h a (by simp)),
      ih (fun m hm => hs m (by simp [hm])) (fun m hm => h m (by simp [hm]))⟩

/-- The dimension test of `cast_value`: a node without declared dimensions takes exactly the
    scalar values; a node with declared dimensions exactly the values that have every declared axis
    with its extent inside the bounds (an open bound is no bound). -/
theorem C16_dims (dims : List (Option Nat × Option Nat)) (shape : List Nat) :
    dimsOK dims shape = true ↔ (dims = [] ∧ shape = []) ∨ (dims ≠ [] ∧ dimsWithin dims shape) := by
  unfold dimsOK
  cases dims with
  | nil => simp
  | cons d ds => simp [castDims_iff]

/-- Options are compared after conversion to the node's unit: an option written in another unit of
    the same dimension is met exactly when the converted value is tolerantly equal. -/
theorem C16_option_units (P : Prim F) (n : Node F) (o x w : F) (u ux : Option String)
    (hc : P.conv u n.unit o = some w) :
    (∃ r, register P n (.num o u) = some r ∧ optEq P r (.num x ux) = true) ↔ P.isclose w x = true := by
  simp only [register, hc, Option.map_some, Option.some.injEq]
  constructor
  · rintro ⟨r, rfl, h⟩; exact h
  · intro h; exact ⟨_, rfl, h⟩

/-! Non-vacuity: a sane node with options in another unit, a condition and no format. -/
def exP : Prim Int := ⟨fun s d v => if s = d then some v else if s = some "m" ∧ d = some "cm" then some (100 * v) else none,
  fun a b => a == b⟩
def exN : Node Int := ⟨false, some (.num 200 (some "cm")), some "cm", true, [.num 3 (some "cm"), .num 2 (some "m")],
  some (some true), false, none, [], []⟩
example : exN.Sane exP := by
  refine ⟨by simp [exN], by simp [exN], ?_⟩
  intro o ho
  simp [exN] at ho
  rcases ho with rfl | rfl <;> simp [register, exP, exN]
example : validate exP [exN] = true := by decide
example : dimsWithin [(some 1, none), (none, some 3)] [2, 3] := (castDims_iff _ _).mp (by decide)

/-! ## The primitives made concrete: tolerant equality and linear conversion over an ordered field

`fieldPrim tbl atol rtol` instantiates the two numeric primitives with the formulas of the code
(`np.isclose`: `|a − b| ≤ atol + rtol·|b|`; `NumberType.convert`: `v · k_src / k_dst` inside one
dimension), over ANY ordered field.  The theorems below then speak about final values on, near
and off the boundary of an option, for every magnitude and every pair of units. -/

section Concrete
variable {K : Type} [Field K] [LinearOrder K] [IsStrictOrderedRing K]

/-- **The acceptance band of an option.**  A numeric option `o` written in unit `s`, on a node
    whose unit `d` has the same dimension, is met by the final value `x` exactly when the converted
    option `o · k_s / k_d` lies in the closed band `x ± (atol + rtol·|x|)` — nothing else enters. -/
theorem C16_option_band (tbl : String → Option (LinUnitK K)) (atol rtol : K) (n : Node K)
    (s d : String) (xs yd : LinUnitK K) (o x : K) (un : Option String)
    (hn : n.unit = some d) (hsd : s ≠ d) (hx : tbl s = some xs) (hy : tbl d = some yd)
    (hd : xs.dims = yd.dims) :
    optHolds (fieldPrim tbl atol rtol) n (.num x un) (.num o (some s)) ↔
      x - (atol + rtol * |x|) ≤ o * xs.k / yd.k ∧ o * xs.k / yd.k ≤ x + (atol + rtol * |x|) := by
  have hc : convK tbl (some s) (some d) o = some (o * xs.k / yd.k) := by
    exact convK_lin tbl s d xs yd o hsd hx hy hd
  simp only [optHolds, fieldPrim_conv, fieldPrim_isclose, hn, hc, Option.some.injEq, Val.num.injEq]
  constructor
  · rintro ⟨w, rfl, x', un', ⟨rfl, rfl⟩, h⟩
    exact (iscloseK_iff _ _ _ _).mp h
  · intro h
    exact ⟨_, rfl, x, un, ⟨rfl, rfl⟩, (iscloseK_iff _ _ _ _).mpr h⟩

/-- **Accept direction on the boundary**: a final value that denotes the same physical quantity
    as one of the listed options (`x · k_d = o · k_s`, the option written in any unit of the node's
    dimension) passes the validation loop, whatever the other options are — for every magnitude and
    every non-negative tolerance pair. -/
theorem C16_accept_same_quantity (tbl : String → Option (LinUnitK K)) (atol rtol : K)
    (ha : 0 ≤ atol) (hr : 0 ≤ rtol) (n : Node K) (hs : n.Sane (fieldPrim tbl atol rtol))
    (s d : String) (xs yd : LinUnitK K) (o x : K) (un : Option String)
    (hn : n.unit = some d) (hx : tbl s = some xs) (hy : tbl d = some yd) (hd : xs.dims = yd.dims)
    (hk : yd.k ≠ 0) (hq : x * yd.k = o * xs.k)
    (hv : n.value = some (.num x un)) (hmem : Opt.num o (some s) ∈ n.options)
    (hdim : dimsOK n.dims n.shape = true)
    (hcond : n.condition = none ∨ n.condition = some (some true))
    (hfmt : n.format = none ∨ n.format = some true) :
    validateNode (fieldPrim tbl atol rtol) n = true := by
  rw [C16_node _ n hs]
  refine ⟨hdim, ?_⟩
  rw [hv]
  refine ⟨Or.inr ⟨_, hmem, ?_⟩, hcond, hfmt⟩
  have hw : o * xs.k / yd.k = x := by
    rw [← hq]; field_simp
  have hc : convK tbl (some s) (some d) o = some x := by
    by_cases hsd : s = d
    · subst hsd
      rw [hx] at hy; cases hy
      have : o = x := by
        have := hq; rw [mul_comm x, mul_comm o] at this
        exact (mul_left_cancel₀ hk this).symm
      rw [this]; exact convK_same tbl s x
    · rw [convK_lin tbl s d xs yd o hsd hx hy hd, hw]
  simp only [optHolds, fieldPrim_conv, fieldPrim_isclose, hn, hc, Option.some.injEq, Val.num.injEq]
  exact ⟨x, rfl, x, un, ⟨rfl, rfl⟩, iscloseK_refl atol rtol x ha hr⟩

/-- **Reject direction off the boundary**: on a selectable node whose options are all numeric and
    all convertible, a final value that is outside the band of EVERY converted option makes the
    validation loop fail (so `parse` raises), whatever condition and format say. -/
theorem C16_reject_off_band (tbl : String → Option (LinUnitK K)) (atol rtol : K) (n : Node K)
    (hs : n.Sane (fieldPrim tbl atol rtol)) (x : K) (un : Option String)
    (hv : n.value = some (.num x un)) (hne : n.options ≠ [])
    (hoff : ∀ o u, Opt.num o u ∈ n.options → ∀ w, convK tbl u n.unit o = some w →
      atol + rtol * |x| < |w - x|)
    (hnum : ∀ o ∈ n.options, ∃ v u, o = Opt.num v u) :
    validateNode (fieldPrim tbl atol rtol) n = false := by
  cases hval : validateNode (fieldPrim tbl atol rtol) n with
  | false => rfl
  | true =>
    exfalso
    have hh := (C16_node _ n hs).mp hval
    obtain ⟨_, hh⟩ := hh
    rw [hv] at hh
    rcases hh.1 with he | ⟨o, ho, hhold⟩
    · exact hne he
    · obtain ⟨v, u, rfl⟩ := hnum o ho
      simp only [optHolds, fieldPrim_conv, fieldPrim_isclose] at hhold
      obtain ⟨w, hw, x', un', hx', hclose⟩ := hhold
      cases hx'
      have := iscloseK_far atol rtol w x (hoff v u ho w hw)
      rw [this] at hclose
      cases hclose

/-- An option written in a unit of another dimension cannot be registered: the node is never
    accepted (`set_option` raises while parsing). -/
theorem C16_option_other_dimension (tbl : String → Option (LinUnitK K)) (atol rtol : K) (n : Node K)
    (s d : String) (xs yd : LinUnitK K) (o : K)
    (hn : n.unit = some d) (hx : tbl s = some xs) (hy : tbl d = some yd) (hd : xs.dims ≠ yd.dims)
    (hmem : Opt.num o (some s) ∈ n.options) :
    validateNode (fieldPrim tbl atol rtol) n = false := by
  have hreg : register (fieldPrim tbl atol rtol) n (.num o (some s)) = none := by
    simp [register, fieldPrim_conv, hn, convK_other_dim tbl s d xs yd o hx hy hd]
  have : n.options.mapM (register (fieldPrim tbl atol rtol) n) = none := by
    cases hm : n.options.mapM (register (fieldPrim tbl atol rtol) n) with
    | none => rfl
    | some regs =>
      exfalso
      have := mapM_isSome_mem (register (fieldPrim tbl atol rtol) n) n.options regs hm _ hmem
      simp [hreg] at this
  simp [validateNode, this]

/-! Non-vacuity over `Rat`: options `3 cm`, `2 m` on a node in `cm` with final value `200 cm`. -/
def exTbl : String → Option (LinUnitK Rat) := fun s =>
  if s = "cm" then some ⟨1/100, [1]⟩ else if s = "m" then some ⟨1, [1]⟩
  else if s = "s" then some ⟨1, [0, 0, 1]⟩ else none
def exNK : Node Rat := ⟨false, some (.num 200 (some "cm")), some "cm", true,
  [.num 3 (some "cm"), .num 2 (some "m")], some (some true), false, none, [], []⟩
example : validateNode (fieldPrim exTbl (1/100000000) (1/1000000)) exNK = true := by
  refine C16_accept_same_quantity exTbl _ _ (by norm_num) (by norm_num) exNK ?_ "m" "cm"
    ⟨1, [1]⟩ ⟨1/100, [1]⟩ 2 200 (some "cm") rfl (by simp [exTbl]) (by simp [exTbl]) rfl
    (by norm_num) (by norm_num) rfl (by simp [exNK]) (by simp [exNK, dimsOK]) (Or.inr rfl) (Or.inl rfl)
  refine ⟨by simp [exNK], by simp [exNK], ?_⟩
  intro o ho
  simp [exNK] at ho
  rcases ho with rfl | rfl <;> simp [register, fieldPrim_conv, convK, convA, fieldArith, exTbl, exNK]

end Concrete

end SciVerif.C16
