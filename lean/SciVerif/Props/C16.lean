import SciVerif.Lemmas.C16

/-!
# C16 — parse() returns only environments that satisfy every declared constraint

Theorems about the model of the validation loop at the end of `DIP.parse`, for all node lists,
with unit conversion, tolerant equality, the value of the `!condition` expression (logical solver,
property C18) and `re.match` as parameters.
-/
namespace SciVerif.C16

variable {F : Type}

/-- One node: the loop body lets the node pass exactly when the node satisfies its constraints. -/
theorem C16_node (P : Prim F) (n : Node F) (hs : n.Sane P) :
    validateNode P n = true ↔ holds P n := by
  obtain ⟨hsel, hstr, hreg⟩ := hs
  obtain ⟨regs, hregs⟩ := mapM_isSome (register P n) n.options hreg
  unfold validateNode holds
  rw [hregs]
  simp only
  cases hd : dimsOK n.dims n.shape with
  | false => simp
  | true =>
    simp only [Bool.not_true, Bool.false_eq_true, if_false, true_and]
    cases hv : n.value with
    | none =>
      have hre : regs = [] ↔ n.options = [] := (mapM_some_any (register P n) (fun _ => true) _ _ hregs).2
      cases hdecl : n.declared <;> cases hc : n.condition <;> cases hf : n.format <;>
        simp [hre, List.isEmpty_iff]
    | some v =>
      have hany := fun p => (mapM_some_any (register P n) p _ _ hregs)
      have hopt : validateOptions P regs v = true ↔ (n.options = [] ∨ ∃ o ∈ n.options, optHolds P n v o) := by
        unfold validateOptions
        cases hr : regs with
        | nil => have := ((hany (fun _ => true)).2).mp hr; simp [this]
        | cons r rs =>
          have hne : n.options ≠ [] := fun e => by
            have := ((hany (fun _ => true)).2).mpr e; simp [hr] at this
          have h2 := (hany (fun o => optEq P o v)).1
          rw [hr] at h2
          show ((r :: rs).any fun o => optEq P o v) = true ↔ _
          rw [h2]
          constructor
          · rintro ⟨o, ho, r', hr', hp⟩
            exact Or.inr ⟨o, ho, (optEq_register P n v o r' hr').mp hp⟩
          · rintro (e | ⟨o, ho, hp⟩)
            · exact absurd e hne
            · have hso := hreg o ho
              obtain ⟨r', hr'⟩ := Option.isSome_iff_exists.mp hso
              exact ⟨o, ho, r', hr', (optEq_register P n v o r' hr').mpr hp⟩
      have hsel' : (n.selectable && !validateOptions P regs v) = false ↔
          (n.options = [] ∨ ∃ o ∈ n.options, optHolds P n v o) := by
        cases hsb : n.selectable with
        | false => simp [hsel hsb]
        | true => simp [← hopt]
      have hfmt : (if n.isStr = true then (match n.format with | none => true | some m => m) else true) = true ↔
          (n.format = none ∨ n.format = some true) := by
        cases hib : n.isStr with
        | false => simp [hstr hib]
        | true => cases n.format with
          | none => simp
          | some m => cases m <;> simp
      have hcond : (match n.condition with | none => true | some none => false | some (some b) => b) = true ↔
          (n.condition = none ∨ n.condition = some (some true)) := by
        cases n.condition with
        | none => simp
        | some c => cases c with
          | none => simp
          | some b => cases b <;> simp
      constructor
      · intro h
        by_cases hx : (n.selectable && !validateOptions P regs v) = true
        · simp [hx] at h
        · simp only [hx, Bool.false_eq_true, if_false, Bool.and_eq_true] at h
          exact ⟨hsel'.mp (by simpa using hx), hcond.mp h.1, hfmt.mp h.2⟩
      · rintro ⟨h1, h2, h3⟩
        have hx : (n.selectable && !validateOptions P regs v) = false := hsel'.mpr h1
        simp only [hx, Bool.false_eq_true, if_false, Bool.and_eq_true]
        exact ⟨hcond.mpr h2, hfmt.mpr h3⟩

/-- **Soundness**: if the validation loop lets an environment pass, every node in it satisfies
    all constraints attached to it. -/
theorem C16_sound (P : Prim F) (env : List (Node F)) (hs : ∀ n ∈ env, n.Sane P)
    (h : validate P env = true) : ∀ n ∈ env, holds P n := by
  induction env with
  | nil => intro n hn; cases hn
  | cons a l ih =>
    simp only [validate, Bool.and_eq_true] at h
    intro n hn
    rcases List.mem_cons.mp hn with rfl | hn
    · exact (C16_node P n (hs n (by simp))).mp h.1
    · exact ih (fun m hm => hs m (by simp [hm])) h.2 n hn

/-- **Completeness**: an environment all of whose nodes satisfy their constraints is accepted. -/
theorem C16_complete (P : Prim F) (env : List (Node F)) (hs : ∀ n ∈ env, n.Sane P)
    (h : ∀ n ∈ env, holds P n) : validate P env = true := by
  induction env with
  | nil => rfl
  | cons a l ih =>
    simp only [validate, Bool.and_eq_true]
    exact ⟨(C16_node P a (hs a (by simp))).mpr (h a (by simp)),
      ih (fun m hm => hs m (by simp [hm])) (fun m hm => h m (by simp [hm]))⟩

/-- The dimension test of `cast_value`: a node without declared dimensions takes exactly the
    scalar values; a node with declared dimensions exactly the values that have every declared axis
    with its extent inside the bounds (an open bound is no bound). -/
theorem C16_dims (dims : List (Option Nat × Option Nat)) (shape : List Nat) :
    dimsOK dims shape = true ↔ (dims = [] ∧ shape = []) ∨ (dims ≠ [] ∧ dimsWithin dims shape) := by
  unfold dimsOK
  cases dims with
  | nil => simp
  | cons d ds => simp [castDims_iff]

/-- Options are compared after conversion to the node's unit: an option written in another unit of
    the same dimension is met exactly when the converted value is tolerantly equal. -/
theorem C16_option_units (P : Prim F) (n : Node F) (o x w : F) (u ux : Option String)
    (hc : P.conv u n.unit o = some w) :
    (∃ r, register P n (.num o u) = some r ∧ optEq P r (.num x ux) = true) ↔ P.isclose w x = true := by
  simp only [register, hc, Option.map_some, Option.some.injEq]
  constructor
  · rintro ⟨r, rfl, h⟩; exact h
  · intro h; exact ⟨_, rfl, h⟩

/-! Non-vacuity: a sane node with options in another unit, a condition and no format. -/
def exP : Prim Int := ⟨fun s d v => if s = d then some v else if s = some "m" ∧ d = some "cm" then some (100 * v) else none,
  fun a b => a == b⟩
def exN : Node Int := ⟨false, some (.num 200 (some "cm")), some "cm", true, [.num 3 (some "cm"), .num 2 (some "m")],
  some (some true), false, none, [], []⟩
example : exN.Sane exP := by
  refine ⟨by simp [exN], by simp [exN], ?_⟩
  intro o ho
  simp [exN] at ho
  rcases ho with rfl | rfl <;> simp [register, exP, exN]
example : validate exP [exN] = true := by decide
example : dimsWithin [(some 1, none), (none, some 3)] [2, 3] := (castDims_iff _ _).mp (by decide)

end SciVerif.C16
